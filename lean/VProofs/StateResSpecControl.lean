/-
  C10 stage 4: the control ("power") events the model pulls out of the full conflicted set, and the rest, are the
  sets DEFINED by `ControlSet` (R3: roots closed under auth events that are in the conflicted set) and `OtherSet`.
  Core only.
-/
import VProofs.StateResSpecClosure
namespace V.StateResSpec
open V Json List
open V.StateRes

/-! ## named pieces of `resolveV2New` -/

def rootsOf (full : List Event) (unconfIDs : List ID) : List Event :=
  full.filter (fun p => !unconfIDs.contains p.eventID && isControlEvent p)

def controlIDsOf (confMap roots : List Event) : List ID :=
  controlClosure confMap (confMap.length + 1) roots (eventMapFromEvents roots |>.map (·.eventID))

def lookupAny (full confMap : List Event) (id : ID) : Option Event :=
  match findByID full id with
  | some e => some e
  | none => findByID confMap id

def controlEventsOf (full confMap : List Event) (unconfIDs : List ID) : List Event :=
  (controlIDsOf confMap (rootsOf full unconfIDs)).filterMap (lookupAny full confMap)

def othersOf (full confMap : List Event) (unconfIDs : List ID) : List Event :=
  (eventMapFromEvents full).filter (fun p =>
    !unconfIDs.contains p.eventID && !isControlEvent p && !(controlIDsOf confMap (rootsOf full unconfIDs)).contains p.eventID)

variable {U : Event → Prop} {full confMap unconf : List Event}

theorem mem_unconfIDs {unconf : List Event} {x : Event} :
    x.eventID ∈ unconf.map (·.eventID) ↔ ∃ u, u ∈ unconf ∧ u.eventID = x.eventID := by
  simp [List.mem_map]

theorem mem_rootsOf {r : Event} :
    r ∈ rootsOf full (unconf.map (·.eventID)) ↔ ControlRoot (· ∈ full) (· ∈ unconf) r := by
  unfold rootsOf ControlRoot
  rw [List.mem_filter]
  simp only [Bool.and_eq_true, Bool.not_eq_eq_eq_not, Bool.not_true, List.contains_eq_mem, decide_eq_false_iff_not,
    mem_unconfIDs]

/-- the IDs collected by the control closure are the IDs of the control set -/
theorem mem_controlIDs (hU : IDsIdentify U) (hfU : ∀ x ∈ full, U x) (hcU : ∀ x ∈ confMap, U x) (hcm : IdNodup confMap)
    (id : ID) :
    id ∈ controlIDsOf confMap (rootsOf full (unconf.map (·.eventID))) ↔
      ∃ x, x.eventID = id ∧ ControlSet (· ∈ confMap) (· ∈ full) (· ∈ unconf) x := by
  unfold controlIDsOf
  have hrU : ∀ r ∈ rootsOf full (unconf.map (·.eventID)), U r := fun r hr => hfU r (List.mem_filter.mp hr).1
  rw [controlClosure_iff hcm _ _ (Nat.le_refl _) ?h0]
  case h0 =>
    intro x hx hid
    obtain ⟨r, hr, hrid⟩ := List.mem_map.mp ((eventMap_ids _ _).mp hid)
    have : r = x := hU r x (hrU r hr) (hcU x hx) hrid
    exact this ▸ hr
  unfold ControlSet Reach
  constructor
  · rintro (h | ⟨r, hr, y, hy, hreach⟩)
    · obtain ⟨r, hr, hrid⟩ := List.mem_map.mp ((eventMap_ids _ _).mp h)
      exact ⟨r, hrid, r, mem_rootsOf.mp hr, Or.inl rfl⟩
    · exact ⟨y, hy, r, mem_rootsOf.mp hr, Or.inr hreach⟩
  · rintro ⟨x, hx, r, hr, (h | h)⟩
    · left
      subst h
      exact (eventMap_ids _ _).mpr (List.mem_map.mpr ⟨r, mem_rootsOf.mpr hr, hx⟩)
    · exact Or.inr ⟨r, mem_rootsOf.mpr hr, x, hx, h⟩

theorem ControlSet.inU (hfU : ∀ x ∈ full, U x) (hcU : ∀ x ∈ confMap, U x) {x : Event}
    (h : ControlSet (· ∈ confMap) (· ∈ full) (· ∈ unconf) x) : U x ∧ (x ∈ full ∨ x ∈ confMap) := by
  obtain ⟨r, hr, (h | h)⟩ := h
  · subst h; exact ⟨hfU r hr.1, Or.inl hr.1⟩
  · exact ⟨hcU x h.target, Or.inr h.target⟩

/-- **Stage 4.** The control events are exactly the control set (R3). -/
theorem controlSet_eq_spec (hU : IDsIdentify U) (hfU : ∀ x ∈ full, U x) (hcU : ∀ x ∈ confMap, U x)
    (hcm : IdNodup confMap) (x : Event) :
    x ∈ controlEventsOf full confMap (unconf.map (·.eventID)) ↔
      ControlSet (· ∈ confMap) (· ∈ full) (· ∈ unconf) x := by
  unfold controlEventsOf
  rw [List.mem_filterMap]
  have hres : ∀ id z, lookupAny full confMap id = some z → z.eventID = id ∧ U z := by
    intro id z h
    unfold lookupAny at h
    cases hf : findByID full id with
    | some e =>
      rw [hf] at h; cases h
      exact ⟨(findByID_some hf).2, hfU _ (findByID_some hf).1⟩
    | none =>
      rw [hf] at h
      exact ⟨(findByID_some h).2, hcU _ (findByID_some h).1⟩
  constructor
  · rintro ⟨id, hid, hl⟩
    obtain ⟨x', hx', hcs⟩ := (mem_controlIDs hU hfU hcU hcm id).mp hid
    obtain ⟨hxid, hxU⟩ := hres id x hl
    have : x' = x := hU x' x (hcs.inU hfU hcU).1 hxU (hx'.trans hxid.symm)
    exact this ▸ hcs
  · intro hcs
    refine ⟨x.eventID, (mem_controlIDs hU hfU hcU hcm _).mpr ⟨x, rfl, hcs⟩, ?_⟩
    obtain ⟨hxU, hx⟩ := hcs.inU hfU hcU
    unfold lookupAny
    cases hf : findByID full x.eventID with
    | some e =>
      have : e = x := hU e x (hfU e (findByID_some hf).1) hxU (findByID_some hf).2
      simp [this]
    | none =>
      simp only
      rcases hx with hx | hx
      · exact absurd rfl (findByID_eq_none.mp hf x hx)
      · exact findByID_of_mem hcm.idsIn hx

/-- **Stage 4 (the rest).** -/
theorem otherSet_eq_spec (hU : IDsIdentify U) (hfU : ∀ x ∈ full, U x) (hcU : ∀ x ∈ confMap, U x)
    (hcm : IdNodup confMap) (x : Event) :
    x ∈ othersOf full confMap (unconf.map (·.eventID)) ↔
      OtherSet (· ∈ confMap) (· ∈ full) (· ∈ unconf) x := by
  unfold othersOf OtherSet
  rw [List.mem_filter, (eventMap_sameSet (fun a b ha hb => hU a b (hfU a ha) (hfU b hb))) x]
  simp only [Bool.and_eq_true, Bool.not_eq_eq_eq_not, Bool.not_true, List.contains_eq_mem, decide_eq_false_iff_not,
    mem_unconfIDs]
  have hctl : x ∈ full → (x.eventID ∈ controlIDsOf confMap (rootsOf full (unconf.map (·.eventID))) ↔
      ControlSet (· ∈ confMap) (· ∈ full) (· ∈ unconf) x) := by
    intro hx
    rw [mem_controlIDs hU hfU hcU hcm]
    constructor
    · rintro ⟨x', hx', hcs⟩
      have : x' = x := hU x' x (hcs.inU hfU hcU).1 (hfU x hx) hx'
      exact this ▸ hcs
    · intro h; exact ⟨x, rfl, h⟩
  constructor
  · rintro ⟨hx, ⟨hu, _⟩, hc⟩
    exact ⟨hx, hu, fun h => hc ((hctl hx).mpr h)⟩
  · rintro ⟨hx, hu, hc⟩
    refine ⟨hx, ⟨hu, ?_⟩, fun h => hc ((hctl hx).mp h)⟩
    cases hce : isControlEvent x with
    | false => rfl
    | true => exact absurd ⟨x, ⟨hx, hu, hce⟩, Or.inl rfl⟩ hc

theorem othersOf_idNodup (full confMap : List Event) (unconfIDs : List ID) : IdNodup (othersOf full confMap unconfIDs) :=
  (eventMap_idNodup full).filter _

end V.StateResSpec
