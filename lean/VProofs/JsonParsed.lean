/- Facts about every value the parser returns: its number literals are grammatical; its duplicate-key
   and enforced-number predicates agree with the value-level ones.  Core only. -/
import VProofs.JsonParse
namespace V.Json

/-! ### append lemmas for the accumulators -/

theorem toJVals_append : ∀ (a b : List PVal), toJVals (a ++ b) = toJVals a ++ toJVals b
  | [], _ => rfl
  | x :: a, b => by simp only [List.cons_append, toJVals, toJVals_append a b]

theorem toJMembers_append : ∀ (a b : List (Bytes × Bytes × PVal)), toJMembers (a ++ b) = toJMembers a ++ toJMembers b
  | [], _ => rfl
  | (r, d, v) :: a, b => by simp only [List.cons_append, toJMembers, toJMembers_append a b]

theorem numsOkList_append : ∀ (a b : List JVal), numsOkList (a ++ b) = (numsOkList a && numsOkList b)
  | [], _ => by simp [numsOkList]
  | x :: a, b => by simp only [List.cons_append, numsOkList, numsOkList_append a b, Bool.and_assoc]

theorem numsOkMembers_append : ∀ (a b : List (Bytes × JVal)), numsOkMembers (a ++ b) = (numsOkMembers a && numsOkMembers b)
  | [], _ => by simp [numsOkMembers]
  | (k, v) :: a, b => by simp only [List.cons_append, numsOkMembers, numsOkMembers_append a b, Bool.and_assoc]

/-! ### every number literal of a parsed text is grammatical -/

def NV (f : Nat) : Prop := ∀ (s : Bytes) (p : PVal) (rest : Bytes), parseValue f s = some (p, rest) →
  p.toJVal.numsOk = true
def NE (f : Nat) : Prop := ∀ (s : Bytes) (accl : List PVal) (p : PVal) (rest : Bytes),
  parseElems f s accl = some (p, rest) → numsOkList (toJVals accl) = true → p.toJVal.numsOk = true
def NM (f : Nat) : Prop := ∀ (s : Bytes) (accl : List (Bytes × Bytes × PVal)) (p : PVal) (rest : Bytes),
  parseMembers f s accl = some (p, rest) → numsOkMembers (toJMembers accl) = true → p.toJVal.numsOk = true

theorem nv_step (f : Nat) (hE : NE f) (hM : NM f) : NV (f + 1) := by
  intro s p rest h
  rw [parseValue_succ] at h
  repeat' split at h
  all_goals first
    | (cases h; done)
    | (simp only [Option.some.injEq, Prod.mk.injEq] at h; obtain ⟨rfl, rfl⟩ := h; rfl)
    | exact hM _ _ _ _ h rfl
    | exact hE _ _ _ _ h rfl
    | (rename_i hnum
       simp only [Option.some.injEq, Prod.mk.injEq] at h; obtain ⟨rfl, rfl⟩ := h
       simpa [PVal.toJVal, JVal.numsOk] using parseNumber_isNumLit hnum)

theorem ne_step (f : Nat) (hV : NV f) (hE : NE f) : NE (f + 1) := by
  intro s accl p rest h hacc
  rw [parseElems_succ] at h
  split at h
  · cases h
  · rename_i v rest1 hv
    have hv' := hV _ _ _ hv
    have hacc' : numsOkList (toJVals (accl ++ [v])) = true := by
      simp [toJVals_append, numsOkList_append, hacc, toJVals, numsOkList, hv']
    repeat' split at h
    all_goals first
      | (cases h; done)
      | exact hE _ _ _ _ h hacc'
      | (simp only [Option.some.injEq, Prod.mk.injEq] at h; obtain ⟨rfl, rfl⟩ := h
         simpa [PVal.toJVal, JVal.numsOk] using hacc')

theorem nm_step (f : Nat) (hV : NV f) (hM : NM f) : NM (f + 1) := by
  intro s accl p rest h hacc
  rw [parseMembers_succ] at h
  split at h
  · cases h
  · split at h
    · split at h
      · cases h
      · rename_i raw dec rest1 _
        split at h
        · cases h
        · split at h
          · split at h
            · cases h
            · rename_i v rest3 hv
              have hv' := hV _ _ _ hv
              have hacc' : numsOkMembers (toJMembers (accl ++ [(raw, dec, v)])) = true := by
                simp [toJMembers_append, numsOkMembers_append, hacc, toJMembers, numsOkMembers, hv']
              repeat' split at h
              all_goals first
                | (cases h; done)
                | exact hM _ _ _ _ h hacc'
                | (simp only [Option.some.injEq, Prod.mk.injEq] at h; obtain ⟨rfl, rfl⟩ := h
                   simpa [PVal.toJVal, JVal.numsOk] using hacc')
          · cases h
    · cases h

theorem numsOk_all : ∀ f, NV f ∧ NE f ∧ NM f
  | 0 => ⟨fun _ _ _ h => by simp [parseValue] at h, fun _ _ _ _ h => by simp [parseElems] at h,
          fun _ _ _ _ h => by simp [parseMembers] at h⟩
  | f + 1 =>
    have ih := numsOk_all f
    ⟨nv_step f ih.2.1 ih.2.2, ne_step f ih.1 ih.2.1, nm_step f ih.1 ih.2.2⟩

theorem parse_numsOk {t : Bytes} {p : PVal} (hp : parse t = some p) : p.toJVal.numsOk = true := by
  unfold parse at hp
  split at hp
  · rename_i v rest hv
    split at hp
    · simp only [Option.some.injEq] at hp; subst hp
      exact (numsOk_all _).1 _ _ _ hv
    · cases hp
  · cases hp

/-! ### duplicate keys, enforced numbers: `PVal` vs `JVal` -/

theorem toJMembers_keys : ∀ kvs : List (Bytes × Bytes × PVal), (toJMembers kvs).map (·.1) = kvs.map (·.2.1)
  | [] => rfl
  | (r, d, v) :: kvs => by simp only [toJMembers, List.map_cons, toJMembers_keys kvs]

mutual
theorem noDupKeys_toJVal : (p : PVal) → p.toJVal.noDupKeys = p.noDupKeys
  | .null => rfl
  | .bool _ => rfl
  | .num _ => rfl
  | .str _ _ => rfl
  | .arr xs => by simp only [PVal.toJVal, JVal.noDupKeys, PVal.noDupKeys, noDupKeys_toJVals xs]
  | .obj kvs => by
    simp only [PVal.toJVal, JVal.noDupKeys, PVal.noDupKeys, noDupKeys_toJMembers kvs, toJMembers_keys]
theorem noDupKeys_toJVals : (xs : List PVal) → jNoDupList (toJVals xs) = noDupKeysList xs
  | [] => rfl
  | x :: xs => by simp only [toJVals, jNoDupList, noDupKeysList, noDupKeys_toJVal x, noDupKeys_toJVals xs]
theorem noDupKeys_toJMembers : (kvs : List (Bytes × Bytes × PVal)) → jNoDupMembers (toJMembers kvs) = noDupKeysMembers kvs
  | [] => rfl
  | (r, d, v) :: kvs => by
    simp only [toJMembers, jNoDupMembers, noDupKeysMembers, noDupKeys_toJVal v, noDupKeys_toJMembers kvs]
end

mutual
theorem numbersOk_eq_all : (p : PVal) → p.numbersOk = p.numbers.all numOk
  | .null => rfl
  | .bool _ => rfl
  | .num raw => by simp [PVal.numbersOk, PVal.numbers]
  | .str _ _ => rfl
  | .arr xs => by simp only [PVal.numbersOk, PVal.numbers, numbersOkList_eq_all xs]
  | .obj kvs => by simp only [PVal.numbersOk, PVal.numbers, numbersOkMembers_eq_all kvs]
theorem numbersOkList_eq_all : (xs : List PVal) → numbersOkList xs = (numbersList xs).all numOk
  | [] => rfl
  | x :: xs => by
    simp only [numbersOkList, numbersList, List.all_append, numbersOk_eq_all x, numbersOkList_eq_all xs]
theorem numbersOkMembers_eq_all : (kvs : List (Bytes × Bytes × PVal)) → numbersOkMembers kvs = (numbersMembers kvs).all numOk
  | [] => rfl
  | (r, d, v) :: kvs => by
    simp only [numbersOkMembers, numbersMembers, List.all_append, numbersOk_eq_all v, numbersOkMembers_eq_all kvs]
end

end V.Json
