/-
  VProofs.RedactLookup — lemmas about the "last matching member wins" lookups of VModel.GoJson
  (`lookupField`, `lookupExact`) used by the C05 proofs.  Core Lean only.
-/
import VModel.Redact
namespace V.RedactProofs
open V V.Json V.GoJson V.Redact

abbrev Obj := List (Bytes × JVal)

/-- the value of the last member satisfying `p` -/
def lastSome (p : Bytes × JVal → Bool) (kvs : Obj) : Option JVal :=
  kvs.foldl (fun acc kv => if p kv then some kv.2 else acc) none

theorem foldl_last (p : Bytes × JVal → Bool) (kvs : Obj) (acc : Option JVal) :
    kvs.foldl (fun acc kv => if p kv then some kv.2 else acc) acc =
      match lastSome p kvs with
      | some v => some v
      | none => acc := by
  induction kvs generalizing acc with
  | nil => simp [lastSome]
  | cons kv rest ih =>
    simp only [List.foldl_cons, lastSome]
    rw [ih, ih (if p kv then some kv.2 else none)]
    cases h : lastSome p rest <;> simp
    split <;> simp_all

theorem lastSome_nil (p) : lastSome p [] = none := rfl

theorem lastSome_cons (p : Bytes × JVal → Bool) (kv : Bytes × JVal) (rest : Obj) :
    lastSome p (kv :: rest) =
      match lastSome p rest with
      | some v => some v
      | none => if p kv then some kv.2 else none := by
  simp only [lastSome, List.foldl_cons]
  rw [foldl_last]
  rfl

theorem lastSome_append (p : Bytes × JVal → Bool) (xs ys : Obj) :
    lastSome p (xs ++ ys) =
      match lastSome p ys with
      | some v => some v
      | none => lastSome p xs := by
  simp only [lastSome, List.foldl_append]
  rw [foldl_last]
  rfl

theorem lastSome_none_of_forall (p : Bytes × JVal → Bool) (kvs : Obj) (h : ∀ kv ∈ kvs, p kv = false) :
    lastSome p kvs = none := by
  induction kvs with
  | nil => rfl
  | cons kv rest ih =>
    rw [lastSome_cons, ih (fun x hx => h x (List.mem_cons_of_mem _ hx))]
    simp [h kv (List.mem_cons_self)]

theorem lookupField_eq (kvs : Obj) (name : Bytes) :
    lookupField kvs name = lastSome (fun kv => matchesField kv.1 name) kvs := rfl

theorem lookupExact_eq (kvs : Obj) (name : Bytes) :
    lookupExact kvs name = lastSome (fun kv => kv.1 == name) kvs := rfl

theorem lastSome_congr (p q : Bytes × JVal → Bool) (kvs : Obj) (h : ∀ kv ∈ kvs, p kv = q kv) :
    lastSome p kvs = lastSome q kvs := by
  induction kvs with
  | nil => rfl
  | cons kv rest ih =>
    rw [lastSome_cons, lastSome_cons, ih (fun x hx => h x (List.mem_cons_of_mem _ hx)), h kv List.mem_cons_self]

/-- the member `lastSome` found -/
theorem lastSome_mem (p : Bytes × JVal → Bool) (l : Obj) (v : JVal) (h : lastSome p l = some v) :
    ∃ kv ∈ l, p kv = true ∧ kv.2 = v := by
  induction l with
  | nil => cases h
  | cons x rest ih =>
    rw [lastSome_cons] at h
    cases hr : lastSome p rest with
    | some w =>
      rw [hr] at h
      simp only [Option.some.injEq] at h
      obtain ⟨kv, hkv, hp, hv⟩ := ih (by rw [hr, h])
      exact ⟨kv, List.mem_cons_of_mem _ hkv, hp, hv⟩
    | none =>
      rw [hr] at h
      simp only at h
      split at h
      · rename_i hp
        simp only [Option.some.injEq] at h
        exact ⟨x, List.mem_cons_self, hp, h⟩
      · cases h

theorem lookupExact_mem {l : Obj} {k : Bytes} {v : JVal} (h : lookupExact l k = some v) : (k, v) ∈ l := by
  rw [lookupExact_eq] at h
  obtain ⟨kv, hkv, hp, hv⟩ := lastSome_mem _ l v h
  obtain ⟨k0, v0⟩ := kv
  have hk : k0 = k := by simpa using hp
  have hv' : v0 = v := hv
  subst hk hv'
  exact hkv

end V.RedactProofs
