/- Helper lemmas (C17), IPv6 part 1: the hex scanner, the specification's `units` / `cutEllipsis` on strings cut at their first field, groups that are neither an h16 nor a final dotted quad. -/
import VProofs.IdentIP
set_option linter.unusedSimpArgs false
namespace V.Ident


def isHexB (c : UInt8) : Bool := (hexVal? c).isSome

/-- longest prefix of hex digits, and what follows -/
def takeHex : BS → BS × BS
  | [] => ([], [])
  | c :: cs => if isHexB c then ((takeHex cs).1.cons c, (takeHex cs).2) else ([], c :: cs)

theorem takeHex_append (s : BS) : (takeHex s).1 ++ (takeHex s).2 = s := by
  induction s with
  | nil => rfl
  | cons c cs ih =>
    unfold takeHex
    split
    · simp [ih]
    · rfl

theorem takeHex_all (s : BS) : (takeHex s).1.all isHexB = true := by
  induction s with
  | nil => rfl
  | cons c cs ih =>
    unfold takeHex
    split
    · rename_i h; simp [h, ih]
    · rfl

theorem takeHex_rest (s : BS) : ∀ c t, (takeHex s).2 = c :: t → isHexB c = false := by
  induction s with
  | nil => intro c t h; simp [takeHex] at h
  | cons a cs ih =>
    intro c t h
    unfold takeHex at h
    split at h
    · exact ih c t h
    · rename_i hh
      simp only [List.cons.injEq] at h
      rw [← h.1]; simpa using hh

/-- scanHex in terms of takeHex -/
theorem scanHex_eq : ∀ (s : BS) (off acc : Nat), off ≤ 4 →
    scanHex s off acc =
      (if off + (takeHex s).1.length > 4 then none
       else some ((takeHex s).1.foldl (fun a c => a * 16 + (hexVal? c).getD 0) acc, off + (takeHex s).1.length, (takeHex s).2))
  | [], off, acc, h => by simp [scanHex, takeHex]; omega
  | c :: cs, off, acc, h => by
    unfold scanHex takeHex
    cases hc : hexVal? c with
    | none => simp [isHexB, hc]; omega
    | some d =>
      simp only [isHexB, hc, Option.isSome_some, if_true, List.length_cons, List.foldl_cons, Option.getD_some]
      by_cases h3 : off > 3
      · simp only [h3, if_true]
        have : off + ((takeHex cs).1.length + 1) > 4 := by omega
        simp [this]
      · simp only [h3, if_false]
        rw [scanHex_eq cs (off + 1) (acc * 16 + d) (by omega)]
        have e : off + 1 + (takeHex cs).1.length = off + ((takeHex cs).1.length + 1) := by omega
        rw [e]


set_option maxRecDepth 100000 in
theorem hexChar_eq (c : UInt8) : Spec.hexChars.contains c = isHexB c := by
  revert c; apply forall_uint8; decide +kernel

set_option maxRecDepth 100000 in
theorem hex_facts (c : UInt8) : isHexB c = true → c ≠ 0x3A ∧ c ≠ 0x2E ∧ c ≠ 0x25 := by
  revert c; apply forall_uint8; decide +kernel

set_option maxRecDepth 100000 in
theorem digit_isHex (c : UInt8) : isDigit c = true → isHexB c = true := by
  revert c; apply forall_uint8; decide +kernel

theorem all_hex_eq (g : BS) : g.all (Spec.hexChars.contains ·) = g.all isHexB := by
  induction g with
  | nil => rfl
  | cons c cs ih => simp only [List.all_cons, ih, hexChar_eq]

theorem isH16_iff (g : BS) : Spec.isH16 g = true ↔ 1 ≤ g.length ∧ g.length ≤ 4 ∧ g.all isHexB = true := by
  unfold Spec.isH16
  rw [all_hex_eq]
  simp only [Bool.and_eq_true, decide_eq_true_eq, and_assoc]

theorem splitOn_nosep {sep : UInt8} : ∀ {f : BS}, sep ∉ f → Spec.splitOn sep f = [f]
  | [], _ => rfl
  | c :: cs, h => by
    simp only [List.mem_cons, not_or] at h
    have hc : (c == sep) = false := by simpa using fun e => h.1 e.symm
    exact splitOn_cons_ne hc (splitOn_nosep h.2)

theorem splitOn_append {sep : UInt8} : ∀ {f : BS} (t : BS), sep ∉ f →
    Spec.splitOn sep (f ++ sep :: t) = f :: Spec.splitOn sep t
  | [], t, _ => by simp [splitOn_cons_sep]
  | c :: cs, t, h => by
    simp only [List.mem_cons, not_or] at h
    have hc : (c == sep) = false := by simpa using fun e => h.1 e.symm
    rw [List.cons_append]
    exact splitOn_cons_ne hc (splitOn_append t h.2)

/-- a single field -/
theorem units_single {f : BS} (hn : (0x3A : UInt8) ∉ f) (hne : f ≠ []) (v : Bool) :
    Spec.units f v = if Spec.isH16 f then some 1 else if v && Spec.isIPv4 f then some 2 else none := by
  unfold Spec.units
  have : f.isEmpty = false := by simpa using hne
  simp only [this, Bool.false_eq_true, if_false, splitOn_nosep hn, List.dropLast_singleton, List.getLast?_singleton,
    List.all_nil, Bool.not_true, List.length_singleton]

/-- a field, a colon, and more -/
theorem units_cons {f : BS} (t : BS) (hn : (0x3A : UInt8) ∉ f) (v : Bool) :
    Spec.units (f ++ 0x3A :: t) v =
      if !Spec.isH16 f then none else if t.isEmpty then none else (Spec.units t v).map (· + 1) := by
  unfold Spec.units
  have h1 : (f ++ 0x3A :: t).isEmpty = false := by simp
  simp only [h1, Bool.false_eq_true, if_false, splitOn_append t hn]
  obtain ⟨g, gs, hg⟩ := splitOn_exists 0x3A t
  rw [hg]
  simp only [List.dropLast_cons_cons, List.getLast?_cons_cons, List.all_cons, List.length_cons]
  cases hf : Spec.isH16 f with
  | false =>
    simp only [Bool.false_and, Bool.not_false, if_true]
    cases (g :: gs).getLast? <;> rfl
  | true =>
    simp only [Bool.true_and, Bool.not_true, Bool.false_eq_true, if_false]
    cases t with
    | nil =>
      simp only [Spec.splitOn, List.cons.injEq] at hg
      obtain ⟨rfl, rfl⟩ := hg
      simp only [List.getLast?_singleton, List.dropLast_singleton, List.all_nil, Bool.not_true, Bool.false_eq_true, if_false,
        List.isEmpty_nil, if_true]
      have : Spec.isH16 [] = false := by decide
      have h4 : Spec.isIPv4 [] = false := by decide
      simp [this, h4]
    | cons c cs =>
      simp only [List.isEmpty_cons, Bool.false_eq_true, if_false]
      cases hl : (g :: gs).getLast? with
      | none => simp
      | some last =>
        simp only
        split
        · rfl
        · split
          · simp
          · split <;> simp


theorem cutEllipsis_nocolon : ∀ {f : BS}, (0x3A : UInt8) ∉ f → Spec.cutEllipsis f = none
  | [], _ => rfl
  | [_], _ => rfl
  | a :: b :: rest, h => by
    simp only [List.mem_cons, not_or] at h
    have ha : (a == 0x3A) = false := by simpa using fun e => h.1 e.symm
    have ih := cutEllipsis_nocolon (f := b :: rest) (by simp only [List.mem_cons, not_or]; exact h.2)
    simp [Spec.cutEllipsis, ha, ih]

/-- a field followed by "::" -/
theorem cutEllipsis_here : ∀ {f : BS} (t : BS), (0x3A : UInt8) ∉ f →
    Spec.cutEllipsis (f ++ 0x3A :: 0x3A :: t) = some (f, t)
  | [], t, _ => by simp [Spec.cutEllipsis]
  | [a], t, h => by
    simp only [List.mem_cons, List.not_mem_nil, or_false] at h
    have ha : (a == 0x3A) = false := by simpa using fun e => h e.symm
    simp [Spec.cutEllipsis, ha]
  | a :: b :: rest, t, h => by
    have h' := h
    simp only [List.mem_cons, not_or] at h
    have ha : (a == 0x3A) = false := by simpa using fun e => h.1 e.symm
    have ih := cutEllipsis_here (f := b :: rest) t (by simp only [List.mem_cons, not_or]; exact h.2)
    simp only [List.cons_append] at ih ⊢
    simp [Spec.cutEllipsis, ha, ih]

/-- a field followed by a single colon -/
theorem cutEllipsis_skip : ∀ {f : BS} (t : BS), (0x3A : UInt8) ∉ f → t.head? ≠ some 0x3A →
    Spec.cutEllipsis (f ++ 0x3A :: t) = (Spec.cutEllipsis t).map (fun p => (f ++ 0x3A :: p.1, p.2))
  | [], t, _, ht => by
    cases t with
    | nil => rfl
    | cons c cs =>
      have hc : (c == 0x3A) = false := by simpa using ht
      simp only [List.nil_append]
      rw [Spec.cutEllipsis]
      simp only [hc, Bool.and_false, Bool.false_eq_true, if_false]
      cases Spec.cutEllipsis (c :: cs) <;> rfl
  | [a], t, h, ht => by
    simp only [List.mem_cons, List.not_mem_nil, or_false] at h
    have ha : (a == 0x3A) = false := by simpa using fun e => h e.symm
    have ih := cutEllipsis_skip (f := []) t (by simp) ht
    simp only [List.nil_append] at ih
    simp only [List.cons_append, List.nil_append]
    rw [Spec.cutEllipsis]
    simp only [ha, Bool.false_and, Bool.false_eq_true, if_false, ih]
    cases Spec.cutEllipsis t <;> rfl
  | a :: b :: rest, t, h, ht => by
    simp only [List.mem_cons, not_or] at h
    have ha : (a == 0x3A) = false := by simpa using fun e => h.1 e.symm
    have ih := cutEllipsis_skip (f := b :: rest) t (by simp only [List.mem_cons, not_or]; exact h.2) ht
    simp only [List.cons_append] at ih ⊢
    rw [Spec.cutEllipsis]
    simp only [ha, Bool.false_and, Bool.false_eq_true, if_false, ih]
    cases Spec.cutEllipsis t <;> rfl

theorem cutEllipsis_decomp : ∀ {s l r : BS}, Spec.cutEllipsis s = some (l, r) → s = l ++ 0x3A :: 0x3A :: r
  | [], l, r, h => by simp [Spec.cutEllipsis] at h
  | [_], l, r, h => by simp [Spec.cutEllipsis] at h
  | a :: b :: rest, l, r, h => by
    rw [Spec.cutEllipsis] at h
    split at h
    · rename_i hc
      simp only [Bool.and_eq_true, beq_iff_eq] at hc
      simp only [Option.some.injEq, Prod.mk.injEq] at h
      obtain ⟨rfl, rfl⟩ := h
      simp [hc.1, hc.2]
    · cases hr : Spec.cutEllipsis (b :: rest) with
      | none => simp [hr] at h
      | some p =>
        obtain ⟨l', r'⟩ := p
        simp only [hr, Option.some.injEq, Prod.mk.injEq] at h
        obtain ⟨rfl, rfl⟩ := h
        rw [cutEllipsis_decomp hr]; rfl


def specEll (k : Nat) (s : BS) : Prop := ∃ u, Spec.units s true = some u ∧ u < k

def specNoEll (k : Nat) (s : BS) : Prop :=
  (Spec.cutEllipsis s = none ∧ Spec.units s true = some k) ∨
  (∃ l r a b, Spec.cutEllipsis s = some (l, r) ∧ Spec.units l false = some a ∧ Spec.units r true = some b ∧ a + b < k)

/-- what `parseIPv6` does with the result of the loop -/
def accepts : Option (List UInt8 × Option Nat × BS) → Bool
  | some (ip, ell, rest) => rest.isEmpty && (if ip.length < 16 then ell.isSome else ell.isNone)
  | none => false

theorem bad_first_field {s f0 rest' : BS} (hs : s = f0 ++ rest') (hn : (0x3A : UInt8) ∉ f0)
    (hr : rest' = [] ∨ ∃ t, rest' = 0x3A :: t) (hne : s ≠ []) (hnot : ∀ t, s ≠ 0x3A :: 0x3A :: t)
    (hb : Spec.isH16 f0 = false) (hv : rest' = [] → Spec.isIPv4 f0 = false) :
    (∀ v, Spec.units s v = none) ∧ (∀ l r, Spec.cutEllipsis s = some (l, r) → Spec.units l false = none) := by
  rcases hr with rfl | ⟨t, rfl⟩
  · simp only [List.append_nil] at hs
    subst hs
    refine ⟨fun v => ?_, fun l r h => ?_⟩
    · rw [units_single hn hne, hb, hv rfl]; simp
    · rw [cutEllipsis_nocolon hn] at h; cases h
  · subst hs
    refine ⟨fun v => ?_, fun l r h => ?_⟩
    · rw [units_cons t hn, hb]; rfl
    · cases t with
      | nil =>
        rw [cutEllipsis_skip [] hn (by simp)] at h
        simp [Spec.cutEllipsis] at h
      | cons c t2 =>
        by_cases hc : c = 0x3A
        · subst hc
          rw [cutEllipsis_here t2 hn] at h
          simp only [Option.some.injEq, Prod.mk.injEq] at h
          obtain ⟨rfl, rfl⟩ := h
          have hf : f0 ≠ [] := by
            rintro rfl; exact hnot t2 rfl
          rw [units_single hn hf, hb]; rfl
        · rw [cutEllipsis_skip (c :: t2) hn (by simpa using hc)] at h
          cases hce : Spec.cutEllipsis (c :: t2) with
          | none => simp [hce] at h
          | some p =>
            simp only [hce, Option.map_some, Option.some.injEq, Prod.mk.injEq] at h
            obtain ⟨rfl, rfl⟩ := h
            rw [units_cons p.1 hn, hb]; rfl

theorem bad_first_field_spec {s f0 rest' : BS} (hs : s = f0 ++ rest') (hn : (0x3A : UInt8) ∉ f0)
    (hr : rest' = [] ∨ ∃ t, rest' = 0x3A :: t) (hne : s ≠ []) (hnot : ∀ t, s ≠ 0x3A :: 0x3A :: t)
    (hb : Spec.isH16 f0 = false) (hv : rest' = [] → Spec.isIPv4 f0 = false) (k : Nat) :
    ¬ specNoEll k s ∧ ¬ specEll k s := by
  obtain ⟨h1, h2⟩ := bad_first_field hs hn hr hne hnot hb hv
  constructor
  · rintro (⟨_, hu⟩ | ⟨l, r, a, b, hc, hl, _, _⟩)
    · rw [h1] at hu; cases hu
    · rw [h2 l r hc] at hl; cases hl
  · rintro ⟨u, hu, _⟩
    rw [h1] at hu; cases hu

/-- every string splits into its first ':'-field and the rest -/
theorem first_field (s : BS) : ∃ f0 rest', s = f0 ++ rest' ∧ (0x3A : UInt8) ∉ f0 ∧ (rest' = [] ∨ ∃ t, rest' = 0x3A :: t) := by
  cases h : cut 0x3A s with
  | none => exact ⟨s, [], by simp, cut_none h, Or.inl rfl⟩
  | some p =>
    obtain ⟨a, b⟩ := p
    obtain ⟨h1, h2⟩ := cut_spec h
    exact ⟨a, 0x3A :: b, h1, h2, Or.inr ⟨b, rfl⟩⟩



theorem bad_first_units {s f0 rest' : BS} (hs : s = f0 ++ rest') (hn : (0x3A : UInt8) ∉ f0)
    (hr : rest' = [] ∨ ∃ t, rest' = 0x3A :: t) (hne : s ≠ [])
    (hb : Spec.isH16 f0 = false) (hv : rest' = [] → Spec.isIPv4 f0 = false) (v : Bool) :
    Spec.units s v = none := by
  rcases hr with rfl | ⟨t, rfl⟩
  · simp only [List.append_nil] at hs
    subst hs
    rw [units_single hn hne, hb, hv rfl]; simp
  · subst hs
    rw [units_cons t hn, hb]; rfl

theorem octet_length {o : BS} (h : Spec.isOctet o = true) : o.length ≤ 3 := by
  rw [isOctet_iff] at h
  obtain ⟨_, hd, hz, hv⟩ := h
  match o, hd, hz, hv with
  | [], _, _, _ => simp
  | [_], _, _, _ => simp
  | [_, _], _, _, _ => simp
  | [_, _, _], _, _, _ => simp
  | d1 :: d2 :: d3 :: d4 :: t, hd, hz, hv =>
    exfalso
    simp only [List.all_cons, Bool.and_eq_true] at hd
    have h1 : d1 ≠ 0x30 := by
      rcases hz with hz | hz
      · simp at hz
      · simpa using hz
    have f1 := (digit_facts d1 hd.1).2.1
    have : d1.toNat - 0x30 ≠ 0 := fun e => h1 (f1.mp e)
    simp only [List.foldl_cons] at hv
    have hge := foldl_stepDec_ge t (stepDec (stepDec (stepDec (stepDec 0 d1) d2) d3) d4)
    simp only [stepDec] at hge hv
    omega

theorem isIPv4_head {f : BS} (h : Spec.isIPv4 f = true) : ∃ d t, f = d :: t ∧ isDigit d = true := by
  unfold Spec.isIPv4 at h
  simp only [Bool.and_eq_true, beq_iff_eq, List.all_eq_true] at h
  obtain ⟨_, ho⟩ := h
  cases f with
  | nil =>
    have := ho [] (by simp [Spec.splitOn])
    simp [isOctet_nil] at this
  | cons d t =>
    refine ⟨d, t, rfl, ?_⟩
    by_cases hd : d = 0x2E
    · subst hd
      have := ho [] (by rw [splitOn_cons_sep]; simp)
      simp [isOctet_nil] at this
    · have hc : (d == 0x2E) = false := by simpa using hd
      obtain ⟨g, gs, hg⟩ := splitOn_exists 0x2E t
      have := ho (d :: g) (by rw [splitOn_cons_ne hc hg]; simp)
      rw [isOctet_iff] at this
      have := this.2.1
      simp only [List.all_cons, Bool.and_eq_true] at this
      exact this.1

/-- a string whose hex prefix is longer than three characters is not a dotted quad -/
theorem not_isIPv4_longhex {h x : BS} (hh : h.all isHexB = true) (hl : h.length > 3)
    (hx : x = [] ∨ ∃ c t, x = c :: t ∧ isHexB c = false) : Spec.isIPv4 (h ++ x) = false := by
  cases hv : Spec.isIPv4 (h ++ x) with
  | false => rfl
  | true =>
    exfalso
    have hdot : (0x2E : UInt8) ∉ h := by
      intro hm
      have := (List.all_eq_true.mp hh) _ hm
      exact absurd this (by decide)
    rcases hx with rfl | ⟨c, t, rfl, hc⟩
    · simp only [List.append_nil] at hv
      unfold Spec.isIPv4 at hv
      rw [splitOn_nosep hdot] at hv
      simp at hv
    · have hch := (isIPv4_chars hv).1
      rw [List.all_append, Bool.and_eq_true, List.all_cons, Bool.and_eq_true] at hch
      have hcd := hch.2.1
      simp only [Bool.or_eq_true, beq_iff_eq] at hcd
      rcases hcd with hcd | hcd
      · rw [digit_isHex c hcd] at hc; cases hc
      · subst hcd
        unfold Spec.isIPv4 at hv
        rw [splitOn_append t hdot] at hv
        simp only [Bool.and_eq_true, List.all_cons] at hv
        have := octet_length hv.2.1
        omega

theorem parseIPv4_no_colon {s f : BS} (h : parseIPv4 s = some f) : (0x3A : UInt8) ∉ s := by
  intro hm
  have := ipv4Loop_chars _ _ _ _ _ _ h
  exact absurd ((List.all_eq_true.mp this) _ hm) (by decide)

theorem ipv4Loop_length : ∀ (s : BS) (prev : Option UInt8) (val dl : Nat) (fields f : List UInt8),
    fields.length ≤ 3 → ipv4Loop s prev val dl fields = some f → f.length = 4
  | [], _, _, _, fields, f, hf, h => by
    unfold ipv4Loop at h
    split at h
    · cases h
    · simp only [Option.some.injEq] at h; subst h; simp; omega
  | c :: rest, prev, val, dl, fields, f, hf, h => by
    unfold ipv4Loop at h
    split at h
    · split at h
      · cases h
      · simp only at h
        split at h
        · cases h
        · exact ipv4Loop_length _ _ _ _ _ _ hf h
    · split at h
      · split at h
        · cases h
        · split at h
          · cases h
          · rename_i h3
            exact ipv4Loop_length _ _ _ _ _ _ (by simp at h3 ⊢; omega) h
      · cases h

theorem parseIPv4_length {s f : BS} (h : parseIPv4 s = some f) : f.length = 4 :=
  ipv4Loop_length _ _ _ _ _ _ (by simp) h



def hexAcc (h : BS) : Nat := h.foldl (fun a c => a * 16 + (hexVal? c).getD 0) 0

def twoBytes (acc : Nat) : List UInt8 := [UInt8.ofNat (acc / 256), UInt8.ofNat (acc % 256)]

/-- what one iteration does after a good hex group, by what follows the group -/
def afterGroup (k : Nat) (ip : List UInt8) (ell : Option Nat) : BS → Option (List UInt8 × Option Nat × BS)
  | [] => some (ip, ell, [])
  | c :: rest1 =>
    if c != 0x3A then none
    else match rest1 with
      | [] => none
      | c2 :: rest2 =>
        if c2 == 0x3A then
          if ell.isSome then none
          else if rest2.isEmpty then some (ip, some ip.length, [])
          else v6Loop k rest2 ip (some ip.length)
        else v6Loop k rest1 ip ell

theorem v6Loop_succ (k : Nat) (s : BS) (ip : List UInt8) (ell : Option Nat) :
    v6Loop (k + 1) s ip ell =
      if (takeHex s).1.length > 4 then none
      else if (takeHex s).1.length = 0 then none
      else if (takeHex s).2.head? == some 0x2E then
        (if ell.isNone && ip.length != 12 then none
         else if ip.length + 4 > 16 then none
         else match parseIPv4 s with
           | none => none
           | some f => some (ip ++ f, ell, []))
      else afterGroup k (ip ++ twoBytes (hexAcc (takeHex s).1)) ell (takeHex s).2 := by
  rw [v6Loop, scanHex_eq s 0 0 (by omega)]
  simp only [Nat.zero_add]
  by_cases h4 : (takeHex s).1.length > 4
  · simp [h4]
  · simp only [h4, if_false]
    by_cases h0 : (takeHex s).1.length = 0
    · simp [h0]
    · have h0' : ((takeHex s).1.length == 0) = false := by simpa using h0
      simp only [h0, h0', Bool.false_eq_true, if_false]
      split
      · rfl
      · unfold afterGroup twoBytes hexAcc
        cases (takeHex s).2 with
        | nil => rfl
        | cons c rest1 =>
          simp only
          split
          · rfl
          · cases rest1 <;> rfl


theorem takeHex_spec (s : BS) : ∃ h r, takeHex s = (h, r) ∧ s = h ++ r ∧ h.all isHexB = true ∧
    (r = [] ∨ ∃ c t, r = c :: t ∧ isHexB c = false) := by
  refine ⟨(takeHex s).1, (takeHex s).2, rfl, (takeHex_append s).symm, takeHex_all s, ?_⟩
  cases hr : (takeHex s).2 with
  | nil => left; rfl
  | cons c t => right; exact ⟨c, t, rfl, takeHex_rest s c t hr⟩

theorem hex_no_colon {h : BS} (hh : h.all isHexB = true) : (0x3A : UInt8) ∉ h := by
  intro hm; exact absurd ((List.all_eq_true.mp hh) _ hm) (by decide)

/-- a group that is neither an h16 (followed by end or ':') nor a final dotted quad -/
theorem bad_group {s h r : BS} (hs : s = h ++ r) (hh : h.all isHexB = true)
    (hr : r = [] ∨ ∃ c t, r = c :: t ∧ isHexB c = false) (hne : s ≠ [])
    (hbad : h.length > 4 ∨ h.length = 0 ∨ (∃ c t, r = c :: t ∧ c ≠ 0x3A ∧ c ≠ 0x2E) ∨ (∃ t, r = 0x2E :: t ∧ (0x3A : UInt8) ∈ r)) :
    ∃ f0 rest', s = f0 ++ rest' ∧ (0x3A : UInt8) ∉ f0 ∧ (rest' = [] ∨ ∃ t, rest' = 0x3A :: t) ∧
      Spec.isH16 f0 = false ∧ (rest' = [] → Spec.isIPv4 f0 = false) := by
  obtain ⟨x, rest', hrx, hnx, hrest⟩ := first_field r
  have hnh := hex_no_colon hh
  have hnf : (0x3A : UInt8) ∉ h ++ x := by simp [hnh, hnx]
  -- the head of x (if any) is the head of r, hence not hex
  have hxhead : x = [] ∨ ∃ c t, x = c :: t ∧ isHexB c = false := by
    cases x with
    | nil => left; rfl
    | cons c t =>
      right
      rcases hr with rfl | ⟨c', t', rfl, hc'⟩
      · simp at hrx
      · simp only [List.cons_append, List.cons.injEq] at hrx
        exact ⟨c, t, rfl, hrx.1 ▸ hc'⟩
  refine ⟨h ++ x, rest', by rw [hs, hrx, List.append_assoc], hnf, hrest, ?_, ?_⟩
  · -- not an h16
    cases hv : Spec.isH16 (h ++ x) with
    | false => rfl
    | true =>
      exfalso
      rw [isH16_iff] at hv
      obtain ⟨h1, h4, hall⟩ := hv
      rw [List.all_append, Bool.and_eq_true] at hall
      have hx0 : x = [] := by
        rcases hxhead with hx | ⟨c, t, rfl, hc⟩
        · exact hx
        · simp only [List.all_cons, Bool.and_eq_true] at hall; rw [hc] at hall; exact absurd hall.2.1 (by simp)
      subst hx0
      simp only [List.append_nil, List.nil_append] at h1 h4 hrx
      rcases hbad with hb | hb | ⟨c, t, hrc, hc1, _⟩ | ⟨t, hrc, _⟩
      · omega
      · omega
      · rcases hrest with rfl | ⟨t', rfl⟩
        · rw [hrx] at hrc; cases hrc
        · rw [hrx] at hrc; simp only [List.cons.injEq] at hrc; exact hc1 hrc.1.symm
      · rcases hrest with rfl | ⟨t', rfl⟩
        · rw [hrx] at hrc; cases hrc
        · rw [hrx] at hrc; simp only [List.cons.injEq] at hrc; exact absurd hrc.1 (by decide)
  · -- not a dotted quad when it is the whole string
    intro hre
    subst hre
    simp only [List.append_nil] at hrx
    subst hrx
    rcases hbad with hb | hb | ⟨c, t, hrc, hc1, hc2⟩ | ⟨t, hrc, hcol⟩
    · exact not_isIPv4_longhex hh (by omega) hxhead
    · have h0 : h = [] := List.length_eq_zero_iff.mp hb
      subst h0
      simp only [List.nil_append] at hs ⊢
      cases hv : Spec.isIPv4 r with
      | false => rfl
      | true =>
        exfalso
        obtain ⟨d, t, hd, hdig⟩ := isIPv4_head hv
        rcases hxhead with hx | ⟨c, t', hx, hc⟩
        · rw [hx] at hs; exact hne hs
        · rw [hx] at hd; simp only [List.cons.injEq] at hd
          rw [hd.1, digit_isHex d hdig] at hc; cases hc
    · cases hv : Spec.isIPv4 (h ++ r) with
      | false => rfl
      | true =>
        exfalso
        have hch := (isIPv4_chars hv).1
        rw [hrc, List.all_append, Bool.and_eq_true, List.all_cons, Bool.and_eq_true] at hch
        have hcd := hch.2.1
        simp only [Bool.or_eq_true, beq_iff_eq] at hcd
        rcases hcd with hcd | hcd
        · rcases hr with hr | ⟨c', t', hr, hc'⟩
          · rw [hr] at hrc; cases hrc
          · rw [hr] at hrc; simp only [List.cons.injEq] at hrc
            rw [hrc.1, digit_isHex c hcd] at hc'; cases hc'
        · exact hc2 hcd
    · exact absurd hcol hnx

end V.Ident
