/-
  C10, version 1: the executable rendering `Exec.v1Resolve` (VModel/StateResSpecExec.lean) satisfies the definition
  `V1Resolves`, hence (the definition determining its result when no two conflicted events tie on (depth, SHA-1)) it
  returns what the model's `resolveV1` returns.  Core only.
-/
import VModel.StateResSpecExec
import VProofs.StateResSpecV1
import VProofs.StateResSpecV1b
namespace V.StateResSpec.Exec
open V Json List
open V.StateRes (ID V1State v1Allowed v1Lt V1Key insertBy sortBy sortBy_perm sortBy_sorted SortedBy v1Lt_strictTotal)
open V.StateResSpec

/-! ## the candidate order -/

theorem insertV1_eq (sha : ID → Bytes) (x : Event) : ∀ l : List Event,
    insertV1 sha x l = insertBy (fun a b => v1Lt (v1Key sha a) (v1Key sha b)) x l
  | [] => rfl
  | y :: ys => by
    unfold insertV1 insertBy
    rw [insertV1_eq sha x ys]

theorem v1Order_eq (sha : ID → Bytes) : ∀ block : List Event,
    v1Order sha block = sortBy (fun a b => v1Lt (v1Key sha a) (v1Key sha b)) block
  | [] => rfl
  | x :: xs => by
    have ih := v1Order_eq sha xs
    unfold v1Order at ih ⊢
    rw [List.foldr_cons, ih, insertV1_eq]
    rfl

theorem v1Order_isV1Order (sha : ID → Bytes) (block : List Event) : IsV1Order sha block (v1Order sha block) := by
  rw [v1Order_eq]
  exact ⟨sortBy_perm _ block, sortBy_sorted (v1Key sha) v1Lt_strictTotal block⟩

theorem v1Order_nil_iff (sha : ID → Bytes) (block : List Event) : v1Order sha block = [] ↔ block = [] := by
  constructor
  · intro h
    have := (v1Order_isV1Order sha block).1.length_eq
    rw [h] at this
    cases block with
    | nil => rfl
    | cons a as => simp at this
  · rintro rfl; rfl

/-! ## auth blocks, phases -/

theorem authBlockRun_spec (valid : Bool) : ∀ (rest : List Event) (s : V1State) (w : Event),
    AuthBlockRun valid s w rest (authBlockRun valid s w rest).1 (authBlockRun valid s w rest).2
  | [], s, w => by unfold authBlockRun; exact AuthBlockRun.done
  | e :: more, s, w => by
    unfold authBlockRun
    cases h : v1Allowed s valid e with
    | true =>
      simp only [if_true]
      exact AuthBlockRun.next h (authBlockRun_spec valid more (s.addAuthEvent e) e)
    | false =>
      simp only [Bool.false_eq_true, if_false]
      exact AuthBlockRun.stop h

theorem phaseRun_spec (sha : ID → Bytes) (valid : Bool) : ∀ (blocks : List (List Event)) (s : V1State),
    PhaseRun sha valid s blocks (phaseRun sha valid s blocks).1 (phaseRun sha valid s blocks).2
  | [], s => by unfold phaseRun; exact PhaseRun.nil
  | block :: blocks, s => by
    unfold phaseRun
    cases ho : v1Order sha block with
    | nil =>
      have hb : block = [] := (v1Order_nil_iff sha block).mp ho
      subst hb
      exact PhaseRun.skip (phaseRun_spec sha valid blocks s)
    | cons c0 rest =>
      simp only
      exact PhaseRun.block (ho ▸ v1Order_isV1Order sha block) (authBlockRun_spec valid rest (s.addAuthEvent c0) c0)
        (phaseRun_spec sha valid blocks _)

/-! ## normal blocks -/

theorem getLast?_filter_some {α : Type} {p : α → Bool} : ∀ {l : List α} {w : α}, (l.filter p).getLast? = some w →
    ∃ pre post, l = pre ++ w :: post ∧ p w = true ∧ ∀ e ∈ post, p e = false
  | [], w, h => by simp at h
  | x :: xs, w, h => by
    by_cases hx : p x = true
    · cases hys : xs.filter p with
      | nil =>
        rw [List.filter_cons, if_pos hx, hys] at h
        simp only [List.getLast?_singleton, Option.some.injEq] at h
        subst h
        refine ⟨[], xs, rfl, hx, ?_⟩
        intro e he
        have := List.filter_eq_nil_iff.mp hys e he
        simpa using this
      | cons y ys =>
        rw [List.filter_cons, if_pos hx, hys, List.getLast?_cons_cons, ← hys] at h
        obtain ⟨pre, post, hl, hw, hpost⟩ := getLast?_filter_some h
        exact ⟨x :: pre, post, by rw [hl]; rfl, hw, hpost⟩
    · rw [List.filter_cons, if_neg hx] at h
      obtain ⟨pre, post, hl, hw, hpost⟩ := getLast?_filter_some h
      exact ⟨x :: pre, post, by rw [hl]; rfl, hw, hpost⟩

theorem normalWinner_spec (valid : Bool) (s : V1State) {sorted : List Event} (hne : sorted ≠ []) :
    ∃ w, normalWinner valid s sorted = some w ∧ IsNormalWinner valid s sorted w := by
  cases sorted with
  | nil => exact absurd rfl hne
  | cons c0 rest =>
    have hnw : normalWinner valid s (c0 :: rest) =
        some (((rest.filter (fun e => v1Allowed s valid e)).getLast?).getD c0) := rfl
    rw [hnw]
    unfold IsNormalWinner
    cases hl : (rest.filter (fun e => v1Allowed s valid e)).getLast? with
    | some w =>
      refine ⟨w, rfl, c0, rest, rfl, Or.inl ?_⟩
      exact getLast?_filter_some hl
    | none =>
      refine ⟨c0, rfl, c0, rest, rfl, Or.inr ⟨?_, rfl⟩⟩
      intro e he
      have hnil : rest.filter (fun e => v1Allowed s valid e) = [] := List.getLast?_eq_none_iff.mp hl
      have := List.filter_eq_nil_iff.mp hnil e he
      simpa using this

theorem normalRun_spec (sha : ID → Bytes) (valid : Bool) (s : V1State) : ∀ (blocks : List (List Event)), (∀ b ∈ blocks, b ≠ []) →
    NormalRun sha valid s blocks (blocks.filterMap (fun b => normalWinner valid s (v1Order sha b)))
  | [], _ => NormalRun.nil
  | b :: bs, hne => by
    have hb : v1Order sha b ≠ [] := fun h => hne b List.mem_cons_self ((v1Order_nil_iff sha b).mp h)
    obtain ⟨w, hw, hwin⟩ := normalWinner_spec valid s hb
    rw [List.filterMap_cons, hw]
    exact NormalRun.cons (v1Order_isV1Order sha b) hwin (normalRun_spec sha valid s bs (fun b' hb' => hne b' (List.mem_cons_of_mem _ hb')))

theorem sameRoom_iff (auth : List Event) : sameRoom auth = true ↔ SameRoom auth := by
  unfold sameRoom SameRoom
  simp only [List.all_eq_true, beq_iff_eq]

theorem phaseBlocks_ne_nil (conflicted : List Event) (p : Nat) : ∀ b ∈ phaseBlocks conflicted p, b ≠ [] := by
  intro b hb
  unfold phaseBlocks at hb
  obtain ⟨k, hk, rfl⟩ := List.mem_map.mp hb
  exact candidates_ne_nil (List.mem_filter.mp hk).1

/-- **The executable rendering of the version-1 definition satisfies the definition.** -/
theorem v1Resolve_resolves (sha : ID → Bytes) (conflicted auth : List Event) :
    V1Resolves sha conflicted auth (v1Resolve sha conflicted auth) := by
  refine ⟨sameRoom auth, _, _, _, _, _, _, _, _, _, _, _, (sameRoom_iff auth),
    phaseRun_spec sha _ (phaseBlocks conflicted 0) _,
    phaseRun_spec sha _ (phaseBlocks conflicted 1) _,
    phaseRun_spec sha _ (phaseBlocks conflicted 2) _,
    phaseRun_spec sha _ (phaseBlocks conflicted 3) _,
    phaseRun_spec sha _ (phaseBlocks conflicted 4) _,
    normalRun_spec sha _ _ (phaseBlocks conflicted 5) (phaseBlocks_ne_nil conflicted 5), rfl⟩

end V.StateResSpec.Exec
