COMMON_TRUSTED = [
    "tools/extract (go/ast) prints what /repo's source says into lean/VGen",
    "correspondence check: Go harness (real code, -tags verif) vs compiled Lean driver on generated ops; reach bounded by the generators",
]
