package main

// extractFuncs translates whitelisted small pure functions statement by statement (added incrementally).
func extractFuncs(root, specp, fcl, tok *pkg, leandir string) {}
