package main

// Helpers available to emitters: (*pkg).findFunc / findVar / findType / evalInt / evalStr, p.cInt / p.cStr
// (evaluated top-level constants), leanStr, leanBool, exprName, fail.
