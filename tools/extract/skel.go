package main

// Source pins: for every property, the statement skeleton (a2Skeleton: every statement of the body, comments and
// layout removed) of every function of the Go files its hand-written model mirrors. `VGen/Skel<P>.lean` is
// regenerated on every run; `lean/VPins/<P>.lean` is the committed copy made when the model was last validated against
// the code (tools/pin.sh). `VProps/Pin<P>.lean` proves them equal, one theorem per function, by `rfl`: ANY edit of a
// mirrored function breaks a proof obligation, which makes ./check widen its search for a failing input and, if it
// finds none, report `VIOLATION … no-failing-input-found` naming the function.

import (
	"fmt"
	"go/ast"
	"go/token"
	"os"
	"path/filepath"
	"sort"
	"strings"
)

// pinFiles: property -> files (relative to the repository root) whose functions the property's model mirrors.
var pinFiles = map[string][]string{
	// every non-generated Go file a property's anchors name (properties.jsonl) whose functions a model mirrors or relies on
	"C01": {"json.go", "eventversion.go:CheckCanonicalJSON"},
	"C02": {"signing.go", "json.go", "spec/base64.go"},
	"C03": {"event_builder.go", "eventV1.go", "eventV2.go", "eventV3.go", "eventcrypto.go", "pdu.go", "event.go", "json.go:EnforcedCanonicalJSON,verifyEnforcedCanonicalJSON,CanonicalJSON,CanonicalJSONAssumeValid"},
	"C04": {"eventcrypto.go", "eventV1.go", "eventV2.go", "eventV3.go", "redactevent.go"},
	"C05": {"redactevent.go", "eventV1.go:Redact", "eventV2.go:Redact", "eventV3.go:Redact", "eventcrypto.go", "eventversion.go:RedactEventJSON"},
	"C06": {"eventcrypto.go", "redactevent.go", "keyring.go", "keys.go"},
	"C07": {"eventauth.go", "eventcontent.go"},
	"C08": {"eventauth.go", "eventcontent.go"},
	"C09": {"eventauth.go", "eventcontent.go", "event_builder.go", "stateresolutionv2.go:authAndApplyEvents", "stateresolution.go:resolveAuthBlock,resolveAndAddAuthBlocks"},
	"C10": {"stateresolution.go", "stateresolutionv2.go", "stateresolutionv2heaps.go", "eventauth.go"},
	"C11": {"stateresolution.go", "stateresolutionv2.go", "stateresolutionv2heaps.go", "authstate.go", "backfill.go", "load.go"},
	"C12": {"keyring.go", "keys.go", "signing.go"},
	"C13": {"fclient/request.go", "signing.go", "spec/servername.go", "keyring.go", "keys.go"},
	"C14": {"authstate.go", "authchain.go", "load.go", "backfill.go"},
	"C15": {"handlejoin.go", "handleleave.go", "handleinvite.go", "invite.go", "performjoin.go", "performinvite.go",
		"eventauth.go:StateNeededForProtoEvent,accumulateStateNeeded,Tuples,AuthEventReferences,AddEvent,NewAuthEvents,Valid,Clear",
		"eventV1.go:Membership,StateKey,StateKeyEquals,Type,SenderID,RoomID,JoinRule",
		"eventcrypto.go:getMXIDMapping,validateMXIDMappingSignatures"},
	"C16": {"fclient/resolve.go", "fclient/well_known.go", "fclient/client.go", "fclient/dnscache.go", "spec/servername.go"},
	"C17": {"spec/userid.go", "spec/roomid.go", "spec/servername.go", "spec/senderid.go", "spec/base64.go", "event.go", "eventV2.go:CheckFields", "eventV1.go:CheckFields", "event_builder.go", "eventversion.go"},
	"C18": {"spec/senderid.go", "eventV1.go", "eventV2.go", "eventV3.go", "event.go", "json.go", "signing.go", "eventcrypto.go", "eventauth.go", "eventcontent.go",
		"eventversion.go", "stateresolutionv2.go", "keys.go", "fclient/request.go", "fclient/federationtypes.go"},
	"C19": {"fclient/dnscache.go", "fclient/client.go", "keyring.go", "eventV2.go"},
	"C20": {"tokens/tokens.go", "tokens/tokens_handlers.go"},
}

func pkgFor(p *Pkgs, file string) (*pkg, string) {
	switch {
	case strings.HasPrefix(file, "fclient/"):
		return p.Fclient, strings.TrimPrefix(file, "fclient/")
	case strings.HasPrefix(file, "spec/"):
		return p.Spec, strings.TrimPrefix(file, "spec/")
	case strings.HasPrefix(file, "tokens/"):
		return p.Tokens, strings.TrimPrefix(file, "tokens/")
	}
	return p.Root, file
}

func leanIdent(s string) string {
	var sb strings.Builder
	for _, c := range s {
		if (c >= 'a' && c <= 'z') || (c >= 'A' && c <= 'Z') || (c >= '0' && c <= '9') {
			sb.WriteRune(c)
		} else {
			sb.WriteByte('_')
		}
	}
	return sb.String()
}

type skelFn struct {
	name string // Lean identifier
	desc string // file:recv.func
	body []string
}

func skeletonsOf(p *Pkgs, prop string) []skelFn {
	var out []skelFn
	for _, file := range pinFiles[prop] {
		// "file.go" pins every function of the file; "file.go:F,G" only the functions / methods named F and G
		var only map[string]bool
		if i := strings.IndexByte(file, ':'); i >= 0 {
			only = map[string]bool{}
			for _, n := range strings.Split(file[i+1:], ",") {
				only[n] = true
			}
			file = file[:i]
		}
		pk, base := pkgFor(p, file)
		f, ok := pk.files[base]
		if !ok {
			fail("pin: file %s not found", file)
		}
		for _, d := range f.Decls {
			// type declarations of a file pinned as a whole: the struct fields and their JSON tags decide what a strict decode
			// accepts (seeded change C10-r7m1 added a typed field to MemberContent and no function changed)
			if gd, isGen := d.(*ast.GenDecl); isGen && gd.Tok == token.TYPE && only == nil {
				for _, sp := range gd.Specs {
					ts, isType := sp.(*ast.TypeSpec)
					if !isType {
						continue
					}
					// (comments are not part of the printed node: field docs may change freely)
					stripComments(ts)
					out = append(out, skelFn{name: leanIdent(strings.TrimSuffix(file, ".go") + "_type_" + ts.Name.Name),
						desc: file + ":type " + ts.Name.Name, body: []string{"type " + ts.Name.Name + " " + a2Print(ts.Type)}})
				}
				continue
			}
			fd, ok := d.(*ast.FuncDecl)
			if !ok || fd.Body == nil || (only != nil && !only[fd.Name.Name]) {
				continue
			}
			recv := ""
			if fd.Recv != nil && len(fd.Recv.List) == 1 {
				t := fd.Recv.List[0].Type
				if s, ok := t.(*ast.StarExpr); ok {
					t = s.X
				}
				if ix, ok := t.(*ast.IndexExpr); ok {
					t = ix.X
				}
				if id, ok := t.(*ast.Ident); ok {
					recv = id.Name
				}
			}
			if translatedFor(prop, recv, fd.Name.Name) {
				// the function is translated statement by statement (trans.go) and a theorem of this property says that the
				// translation equals the model for all inputs: the semantic obligation replaces the syntactic pin, so that a
				// harmless rewrite of the function raises no alarm while any change of what it computes breaks the theorem
				continue
			}
			desc := file + ":" + recv + "." + fd.Name.Name
			sig := "func " + a2Print(fd.Type)
			body := append([]string{sig}, a2Skeleton(fd.Body, nil)...)
			out = append(out, skelFn{name: leanIdent(strings.TrimSuffix(file, ".go") + "_" + recv + "_" + fd.Name.Name), desc: desc, body: body})
		}
	}
	sort.Slice(out, func(i, j int) bool { return out[i].name < out[j].name })
	return out
}

func writeSkel(w *strings.Builder, ns string, fns []skelFn) {
	w.WriteString("namespace " + ns + "\n\n")
	var names []string
	for _, f := range fns {
		names = append(names, leanStr(f.desc))
		w.WriteString("def " + f.name + " : List String := [\n")
		for i, l := range f.body {
			w.WriteString("  " + leanStr(l))
			if i+1 < len(f.body) {
				w.WriteString(",")
			}
			w.WriteString("\n")
		}
		w.WriteString("]\n\n")
	}
	w.WriteString("def functions : List String := [" + strings.Join(names, ", ") + "]\n\n")
	w.WriteString("end " + ns + "\n")
}

func init() {
	for prop := range pinFiles {
		prop := prop
		emitters["Skel"+prop] = func(p *Pkgs, w *strings.Builder) {
			writeSkel(w, "Skel"+prop, skeletonsOf(p, prop))
		}
	}
}

// writePins is run by `vextract -pins <repo> <leandir>`: it writes the committed copies lean/VPins/<P>.lean and the
// proof files lean/VProps/Pin<P>.lean + lean/VAudit/Pin<P>.lean.
func writePins(p *Pkgs, leandir string) {
	_ = os.MkdirAll(filepath.Join(leandir, "VPins"), 0o755)
	var props []string
	for prop := range pinFiles {
		props = append(props, prop)
	}
	sort.Strings(props)
	for _, prop := range props {
		fns := skeletonsOf(p, prop)
		var w strings.Builder
		w.WriteString("/- PINNED copy of the statement skeletons of the Go functions the " + prop + " model mirrors (written by tools/pin.sh\n   when the model was last validated against the code). Compared with the regenerated VGen.Skel" + prop + " in VProps/Pin" + prop + ".lean. -/\n")
		writeSkel(&w, "VPins."+prop, fns)
		must(os.WriteFile(filepath.Join(leandir, "VPins", prop+".lean"), []byte(w.String()), 0o644))
		var t, a strings.Builder
		t.WriteString("/- GENERATED by tools/pin.sh: one obligation per mirrored Go function — the source has not changed since the model\n   was validated against it. A broken obligation names the function that was edited. -/\nimport VGen.Skel" + prop + "\nimport VPins." + prop + "\nnamespace V.Pin." + prop + "\n\n")
		a.WriteString("import VProps.Pin" + prop + "\n")
		t.WriteString("theorem function_list : VGen.Skel" + prop + ".functions = VPins." + prop + ".functions := by rfl\n")
		a.WriteString("#print axioms V.Pin." + prop + ".function_list\n")
		for _, f := range fns {
			t.WriteString(fmt.Sprintf("theorem %s : VGen.Skel%s.%s = VPins.%s.%s := by rfl\n", f.name, prop, f.name, prop, f.name))
			a.WriteString("#print axioms V.Pin." + prop + "." + f.name + "\n")
		}
		t.WriteString("\nend V.Pin." + prop + "\n")
		must(os.WriteFile(filepath.Join(leandir, "VProps", "Pin"+prop+".lean"), []byte(t.String()), 0o644))
		must(os.WriteFile(filepath.Join(leandir, "VAudit", "Pin"+prop+".lean"), []byte(a.String()), 0o644))
	}
}

func must(err error) {
	if err != nil {
		fail("%v", err)
	}
}

// stripComments removes the doc / line comments hanging off the fields of a struct or interface type.
func stripComments(ts *ast.TypeSpec) {
	ts.Doc, ts.Comment = nil, nil
	ast.Inspect(ts.Type, func(n ast.Node) bool {
		if f, ok := n.(*ast.Field); ok {
			f.Doc, f.Comment = nil, nil
		}
		return true
	})
}
