package main

// Emitter for C12 (keyring.go, keys.go, signing.go): the 7-day constant, the algorithm prefix and the
// statement skeletons (see c20.go) of the functions VModel.KeyRing mirrors.  Logging statements of
// VerifyJSONs are not part of its skeleton.

import (
	"fmt"
	"go/ast"
	"go/token"
	"strings"
)

// a2DurationMs evaluates a product of time.Hour/Minute/Second/Millisecond and integer literals, in ms.
func a2DurationMs(e ast.Expr) (int64, bool) {
	switch x := e.(type) {
	case *ast.ParenExpr:
		return a2DurationMs(x.X)
	case *ast.BasicLit:
		if x.Kind == token.INT {
			var v int64
			if _, err := fmt.Sscan(x.Value, &v); err == nil {
				return v, true
			}
		}
	case *ast.SelectorExpr:
		if exprName(x.X) == "time" {
			switch x.Sel.Name {
			case "Hour":
				return 3600000, true
			case "Minute":
				return 60000, true
			case "Second":
				return 1000, true
			case "Millisecond":
				return 1, true
			}
		}
	case *ast.BinaryExpr:
		if x.Op == token.MUL {
			a, ok1 := a2DurationMs(x.X)
			b, ok2 := a2DurationMs(x.Y)
			return a * b, ok1 && ok2
		}
	}
	return 0, false
}

func init() {
	emitters["C12"] = func(p *Pkgs, w *strings.Builder) {
		r := p.Root
		strict := a2FindFunc(r, "", "StrictValiditySignatureCheck")
		// sevenDaysFuture := time.Now().Add(<duration>)
		var capMs int64 = -1
		capExpr := ""
		ast.Inspect(strict.Body, func(n ast.Node) bool {
			as, ok := n.(*ast.AssignStmt)
			if !ok || len(as.Lhs) != 1 || len(as.Rhs) != 1 || exprName(as.Lhs[0]) != "sevenDaysFuture" {
				return true
			}
			ce, ok := as.Rhs[0].(*ast.CallExpr)
			if !ok || len(ce.Args) != 1 {
				return true
			}
			if sel, ok := ce.Fun.(*ast.SelectorExpr); !ok || sel.Sel.Name != "Add" || a2Print(sel.X) != "time.Now()" {
				return true
			}
			if v, ok := a2DurationMs(ce.Args[0]); ok {
				capMs, capExpr = v, a2Print(ce.Args[0])
			}
			return true
		})
		if capMs < 0 {
			fail("keyring: StrictValiditySignatureCheck no longer computes sevenDaysFuture := time.Now().Add(<constant duration>)")
		}
		w.WriteString(fmt.Sprintf("/-- `%s` in milliseconds -/\ndef keyringCapMs : Nat := %d\n\n", capExpr, capMs))

		// isAlgorithmSupported: return strings.HasPrefix(string(keyID), "<prefix>")
		alg := a2FindFunc(r, "KeyRing", "isAlgorithmSupported")
		prefix, found := "", false
		ast.Inspect(alg.Body, func(n ast.Node) bool {
			ce, ok := n.(*ast.CallExpr)
			if ok && a2Print(ce.Fun) == "strings.HasPrefix" && len(ce.Args) == 2 {
				if s, ok := r.evalStr(ce.Args[1]); ok {
					prefix, found = s, true
				}
			}
			return true
		})
		if !found {
			fail("keyring: isAlgorithmSupported is no longer a strings.HasPrefix test")
		}
		w.WriteString("def keyringAlgPrefix : String := " + leanStr(prefix) + "\n")
		w.WriteString("def keyringAlgPrefixBytes : List UInt8 := " + a2Bytes(prefix) + "\n\n")
		for _, c := range []string{"PublicKeyNotExpired", "PublicKeyNotValid"} {
			v, ok := r.cInt[c]
			if !ok {
				fail("keyring: constant %s", c)
			}
			w.WriteString(fmt.Sprintf("def keyring%s : Nat := %d\n", c, v))
		}
		w.WriteString("\n")

		noLog := func(s string) bool {
			return strings.Contains(s, "ogger") || strings.Contains(s, "requestedServers")
		}
		sk := func(name, recv, fn string, skip func(string) bool) {
			fd := a2FindFunc(r, recv, fn)
			a2StrList(w, name, "statement skeleton of "+recv+"."+fn, a2Skeleton(fd.Body, skip))
		}
		sk("keyringSkelWasValidAt", "PublicKeyLookupResult", "WasValidAt", nil)
		sk("keyringSkelStrict", "", "StrictValiditySignatureCheck", nil)
		sk("keyringSkelNoStrict", "", "NoStrictValidityCheck", nil)
		sk("keyringSkelAlg", "KeyRing", "isAlgorithmSupported", nil)
		sk("keyringSkelVerifyJSONs", "KeyRing", "VerifyJSONs", noLog)
		sk("keyringSkelPublicKeyRequests", "KeyRing", "publicKeyRequests", nil)
		sk("keyringSkelCheckUsingKeys", "KeyRing", "checkUsingKeys", nil)
		sk("keyringSkelMapServerKeys", "", "mapServerKeysToPublicKeyLookupResult", nil)
		sk("keyringSkelFetchKeysForServer", "DirectKeyFetcher", "fetchKeysForServer", nil)
		sk("keyringSkelFetchNotaryKeysForServer", "DirectKeyFetcher", "fetchNotaryKeysForServer", nil)
		sk("keyringSkelPerspectiveFetchKeys", "PerspectiveKeyFetcher", "FetchKeys", nil)
		sk("keysSkelCheckKeys", "", "CheckKeys", nil)
		sk("keysSkelCheckVerifyKeys", "", "checkVerifyKeys", nil)
		sk("keysSkelPublicKey", "ServerKeys", "PublicKey", nil)
		// VerifyJSON / ListKeyIDs are abstracted in the model (per signature: `reaches`, `verifies`); the one fact of
		// their source the model relies on is that a public key of the wrong length is refused BEFORE
		// ed25519.Verify (which panics on it) is called.
		vj := a2FindFunc(r, "", "VerifyJSON")
		guardPos, verifyPos := token.NoPos, token.NoPos
		ast.Inspect(vj.Body, func(n ast.Node) bool {
			switch x := n.(type) {
			case *ast.IfStmt:
				if a2Print(x.Cond) == "len(publicKey) != ed25519.PublicKeySize" && len(x.Body.List) > 0 {
					if _, ok := x.Body.List[len(x.Body.List)-1].(*ast.ReturnStmt); ok && guardPos == token.NoPos {
						guardPos = x.Pos()
					}
				}
			case *ast.CallExpr:
				if a2Print(x.Fun) == "ed25519.Verify" && verifyPos == token.NoPos {
					verifyPos = x.Pos()
				}
			}
			return true
		})
		if verifyPos == token.NoPos {
			fail("signing: VerifyJSON no longer calls ed25519.Verify")
		}
		w.WriteString("/-- VerifyJSON returns an error for `len(publicKey) != ed25519.PublicKeySize` before it calls ed25519.Verify -/\n")
		w.WriteString("def signingVerifyJSONLenGuard : Bool := " + leanBool(guardPos != token.NoPos && guardPos < verifyPos) + "\n\n")
		// Timestamp.Time / AsTimestamp (spec package): millisecond arithmetic
		tt := a2FindFunc(p.Spec, "Timestamp", "Time")
		a2StrList(w, "specSkelTimestampTime", "statement skeleton of spec.Timestamp.Time", a2Skeleton(tt.Body, nil))
		at := a2FindFunc(p.Spec, "", "AsTimestamp")
		a2StrList(w, "specSkelAsTimestamp", "statement skeleton of spec.AsTimestamp", a2Skeleton(at.Body, nil))
	}
}
