package main

// Emitter for C20 (tokens/tokens.go, tokens/tokens_handlers.go) and the statement-skeleton helper
// shared with c12.go.
//
// A "skeleton" is the list of statement heads of a function body in source order, each printed by
// go/printer with whitespace collapsed: `if <cond> {`, `} else {`, `}`, `switch {`, `case <e>:`,
// `for <k>, <v> := range <x> {`, `return <e>`, `<lhs> = <rhs>`, `continue`, … .  VProps proves by `rfl`
// that the skeleton is the one the hand-written model mirrors, so that ANY edit of these few small
// functions (a comparator, a constant, a dropped check, `.Unix()` -> `.Second()`) breaks a kernel-checked
// obligation; the edit then has to be re-validated against the model.

import (
	"bytes"
	"fmt"
	"go/ast"
	"go/printer"
	"go/token"
	"strings"
)

func a2Print(n ast.Node) string {
	var b bytes.Buffer
	if err := printer.Fprint(&b, token.NewFileSet(), n); err != nil {
		fail("print: %v", err)
	}
	return strings.Join(strings.Fields(b.String()), " ")
}

// a2FindFunc finds a function (recv == "") or a method of the named receiver type (pointer or value).
func a2FindFunc(p *pkg, recv, name string) *ast.FuncDecl {
	for _, f := range p.files {
		for _, d := range f.Decls {
			fd, ok := d.(*ast.FuncDecl)
			if !ok || fd.Name.Name != name {
				continue
			}
			if recv == "" && fd.Recv == nil {
				return fd
			}
			if recv != "" && fd.Recv != nil && len(fd.Recv.List) == 1 {
				t := fd.Recv.List[0].Type
				if s, ok := t.(*ast.StarExpr); ok {
					t = s.X
				}
				if id, ok := t.(*ast.Ident); ok && id.Name == recv {
					return fd
				}
			}
		}
	}
	fail("function %s.%s not found", recv, name)
	return nil
}

// a2Skeleton lists the statement heads of a block; statements for which skip returns true are dropped.
func a2Skeleton(b *ast.BlockStmt, skip func(string) bool) []string {
	var out []string
	var walk func(s ast.Stmt)
	block := func(b *ast.BlockStmt) {
		for _, s := range b.List {
			walk(s)
		}
	}
	walk = func(s ast.Stmt) {
		switch x := s.(type) {
		case *ast.BlockStmt:
			out = append(out, "{")
			block(x)
			out = append(out, "}")
		case *ast.IfStmt:
			if skip != nil && skip(a2Print(x)) {
				return
			}
			h := "if "
			if x.Init != nil {
				h += a2Print(x.Init) + "; "
			}
			out = append(out, h+a2Print(x.Cond)+" {")
			block(x.Body)
			for x.Else != nil {
				if ei, ok := x.Else.(*ast.IfStmt); ok {
					h := "} else if "
					if ei.Init != nil {
						h += a2Print(ei.Init) + "; "
					}
					out = append(out, h+a2Print(ei.Cond)+" {")
					block(ei.Body)
					x = ei
					continue
				}
				out = append(out, "} else {")
				block(x.Else.(*ast.BlockStmt))
				break
			}
			out = append(out, "}")
		case *ast.SwitchStmt:
			h := "switch"
			if x.Init != nil {
				h += " " + a2Print(x.Init) + ";"
			}
			if x.Tag != nil {
				h += " " + a2Print(x.Tag)
			}
			out = append(out, h+" {")
			for _, c := range x.Body.List {
				cc := c.(*ast.CaseClause)
				if cc.List == nil {
					out = append(out, "default:")
				} else {
					var es []string
					for _, e := range cc.List {
						es = append(es, a2Print(e))
					}
					out = append(out, "case "+strings.Join(es, ", ")+":")
				}
				for _, s := range cc.Body {
					walk(s)
				}
			}
			out = append(out, "}")
		case *ast.RangeStmt:
			h := "for "
			if x.Key != nil {
				h += a2Print(x.Key)
				if x.Value != nil {
					h += ", " + a2Print(x.Value)
				}
				h += " " + x.Tok.String() + " "
			}
			out = append(out, h+"range "+a2Print(x.X)+" {")
			block(x.Body)
			out = append(out, "}")
		case *ast.ForStmt:
			h := "for "
			if x.Init != nil {
				h += a2Print(x.Init)
			}
			h += "; "
			if x.Cond != nil {
				h += a2Print(x.Cond)
			}
			h += "; "
			if x.Post != nil {
				h += a2Print(x.Post)
			}
			out = append(out, h+" {")
			block(x.Body)
			out = append(out, "}")
		default:
			if ds, ok := s.(*ast.DeclStmt); ok { // comments are not part of the skeleton
				if gd, ok := ds.Decl.(*ast.GenDecl); ok {
					gd.Doc = nil
					for _, sp := range gd.Specs {
						if vs, ok := sp.(*ast.ValueSpec); ok {
							vs.Doc, vs.Comment = nil, nil
						}
					}
				}
			}
			t := a2Print(s)
			if skip != nil && skip(t) {
				return
			}
			out = append(out, t)
		}
	}
	block(b)
	return out
}

func a2StrList(w *strings.Builder, name string, doc string, xs []string) {
	if doc != "" {
		w.WriteString("/-- " + doc + " -/\n")
	}
	w.WriteString("def " + name + " : List String := [\n")
	for i, x := range xs {
		w.WriteString("  " + leanStr(x))
		if i+1 < len(xs) {
			w.WriteString(",")
		}
		w.WriteString("\n")
	}
	w.WriteString("]\n\n")
}

func a2Bytes(s string) string {
	var p []string
	for _, b := range []byte(s) {
		p = append(p, fmt.Sprint(b))
	}
	return "[" + strings.Join(p, ", ") + "]"
}

// a2Assigned returns the printed right-hand sides of every `name := e` / `name = e` in the function.
func a2Assigned(fd *ast.FuncDecl, name string) []string {
	var out []string
	ast.Inspect(fd.Body, func(n ast.Node) bool {
		as, ok := n.(*ast.AssignStmt)
		if !ok {
			return true
		}
		for i, l := range as.Lhs {
			if id, ok := l.(*ast.Ident); ok && id.Name == name && i < len(as.Rhs) {
				out = append(out, a2Print(as.Rhs[i]))
			}
		}
		return true
	})
	return out
}

func init() {
	emitters["C20"] = func(p *Pkgs, w *strings.Builder) {
		t := p.Tokens
		for _, c := range []string{"Gen", "UserPrefix", "TimePrefix"} {
			v, ok := t.cStr[c]
			if !ok {
				fail("tokens: constant %s is no longer a string literal", c)
			}
			w.WriteString("def tokens" + c + " : String := " + leanStr(v) + "\n")
			w.WriteString("def tokens" + c + "Bytes : List UInt8 := " + a2Bytes(v) + "\n\n")
		}
		d, ok := t.cInt["defaultDuration"]
		if !ok {
			fail("tokens: defaultDuration is no longer an integer constant expression")
		}
		w.WriteString(fmt.Sprintf("def tokensDefaultDuration : Int := %d\n\n", d))
		// macaroonVersion = macaroon.V2 : printed expression
		mv := ""
		for _, f := range t.files {
			for _, dcl := range f.Decls {
				gd, ok := dcl.(*ast.GenDecl)
				if !ok || gd.Tok != token.CONST {
					continue
				}
				for _, s := range gd.Specs {
					vs := s.(*ast.ValueSpec)
					for i, n := range vs.Names {
						if n.Name == "macaroonVersion" && i < len(vs.Values) {
							mv = a2Print(vs.Values[i])
						}
					}
				}
			}
		}
		if mv == "" {
			fail("tokens: macaroonVersion not found")
		}
		w.WriteString("def tokensMacaroonVersion : String := " + leanStr(mv) + "\n\n")

		gen := a2FindFunc(t, "", "GenerateLoginToken")
		vc := a2FindFunc(t, "", "verifyCaveats")
		gn, vn := a2Assigned(gen, "now"), a2Assigned(vc, "now")
		if len(gn) != 1 || len(vn) != 1 {
			fail("tokens: expected exactly one assignment to `now` in GenerateLoginToken and in verifyCaveats, found %d and %d", len(gn), len(vn))
		}
		w.WriteString("/-- the clock reading GenerateLoginToken uses -/\ndef tokensNowExprIssue : String := " + leanStr(gn[0]) + "\n")
		w.WriteString("/-- the clock reading verifyCaveats uses -/\ndef tokensNowExprVerify : String := " + leanStr(vn[0]) + "\n\n")

		a2StrList(w, "tokensSkelGenerate", "statement skeleton of tokens.GenerateLoginToken", a2Skeleton(gen.Body, nil))
		a2StrList(w, "tokensSkelBase", "statement skeleton of tokens.generateBaseMacaroon", a2Skeleton(a2FindFunc(t, "", "generateBaseMacaroon").Body, nil))
		a2StrList(w, "tokensSkelValidOptions", "statement skeleton of tokens.isValidTokenOptions", a2Skeleton(a2FindFunc(t, "", "isValidTokenOptions").Body, nil))
		a2StrList(w, "tokensSkelValidate", "statement skeleton of tokens.ValidateToken", a2Skeleton(a2FindFunc(t, "", "ValidateToken").Body, nil))
		a2StrList(w, "tokensSkelVerifyCaveats", "statement skeleton of tokens.verifyCaveats", a2Skeleton(vc.Body, nil))
		a2StrList(w, "tokensSkelVerifyExpiry", "statement skeleton of tokens.verifyExpiry", a2Skeleton(a2FindFunc(t, "", "verifyExpiry").Body, nil))
		a2StrList(w, "tokensSkelGetUser", "statement skeleton of tokens.GetUserFromToken", a2Skeleton(a2FindFunc(t, "", "GetUserFromToken").Body, nil))
	}
}
