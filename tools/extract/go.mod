module vextract

go 1.23.0
