package main

// Emitter for C16 (VGen/C16.lean): constants and literals of fclient/resolve.go, well_known.go and
// client.go that the hand-written models (VModel.Resolve, VModel.WellKnown, VModel.Cidr) repeat.
// VProps/C16.lean proves that each regenerated fact equals the value the model uses, so an edit of
// one of these literals in /repo breaks a kernel-checked obligation.

import (
	"fmt"
	"go/ast"
	"go/token"
	"strconv"
	"strings"
)

func init() { emitters["C16"] = emitC16 }

// intLiteralsIn lists the integer literals inside a function body, in source order.
func intLiteralsIn(fd *ast.FuncDecl) []string {
	var out []string
	ast.Inspect(fd.Body, func(n ast.Node) bool {
		if bl, ok := n.(*ast.BasicLit); ok && bl.Kind == token.INT {
			out = append(out, bl.Value)
		}
		return true
	})
	return out
}

func emitC16(p *Pkgs, w *strings.Builder) {
	f := p.Fclient
	// --- resolve.go: default port -------------------------------------------------------------
	for _, fn := range []string{"resolveServer", "handleNoWellKnown"} {
		fd := f.findFunc(fn)
		if fd == nil {
			fail("C16: fclient.%s not found", fn)
		}
		// the literals other than slice indices / offsets 0, 1, -1
		var ports []string
		for _, l := range intLiteralsIn(fd) {
			if l != "0" && l != "1" {
				ports = append(ports, l)
			}
		}
		fmt.Fprintf(w, "/-- integer literals (other than 0 and 1) in fclient.%s -/\ndef %sLiterals : List Nat := [%s]\n\n", fn, fn, strings.Join(ports, ", "))
	}
	// --- resolve.go: lookupSRV service order --------------------------------------------------
	ls := f.findFunc("lookupSRV")
	if ls == nil {
		fail("C16: fclient.lookupSRV not found")
	}
	var calls []string
	ast.Inspect(ls.Body, func(n ast.Node) bool {
		ce, ok := n.(*ast.CallExpr)
		if !ok {
			return true
		}
		if se, ok := ce.Fun.(*ast.SelectorExpr); ok && se.Sel.Name == "LookupSRV" {
			if len(ce.Args) != 4 {
				fail("C16: LookupSRV call with %d arguments", len(ce.Args))
			}
			svc, ok1 := f.evalStr(ce.Args[1])
			proto, ok2 := f.evalStr(ce.Args[2])
			if !ok1 || !ok2 {
				fail("C16: LookupSRV service / proto is not a string literal")
			}
			calls = append(calls, "("+leanStr(svc)+", "+leanStr(proto)+")")
		}
		return true
	})
	fmt.Fprintf(w, "/-- (service, proto) of the LookupSRV calls in fclient.lookupSRV, in source order -/\ndef lookupSRVCalls : List (String × String) := [%s]\n\n", strings.Join(calls, ", "))
	// --- well_known.go ------------------------------------------------------------------------
	max, ok := f.cInt["WellKnownMaxSize"]
	if !ok {
		fail("C16: WellKnownMaxSize is not an evaluable constant")
	}
	fmt.Fprintf(w, "def wellKnownMaxSize : Nat := %d\n\n", max)
	lw := f.findFunc("LookupWellKnown")
	if lw == nil {
		fail("C16: fclient.LookupWellKnown not found")
	}
	layout, path, statusCmp, limitN, lenCmp := "", "", "", "", ""
	ast.Inspect(lw.Body, func(n ast.Node) bool {
		switch x := n.(type) {
		case *ast.AssignStmt:
			if len(x.Lhs) == 1 && len(x.Rhs) == 1 {
				if id, ok := x.Lhs[0].(*ast.Ident); ok {
					if s, ok := f.evalStr(x.Rhs[0]); ok {
						switch id.Name {
						case "referenceTimeFormat":
							layout = s
						case "wellKnownPath":
							path = s
						}
					}
				}
			}
		case *ast.BinaryExpr:
			if exprName(x.X) == "resp.StatusCode" {
				if v, ok := f.evalInt(x.Y, 0); ok {
					statusCmp = "(" + leanStr(x.Op.String()) + ", " + strconv.FormatInt(v, 10) + ")"
				}
			}
			if ce, ok := x.X.(*ast.CallExpr); ok && exprName(ce.Fun) == "len" && len(ce.Args) == 1 && exprName(ce.Args[0]) == "body" {
				if v, ok := f.evalInt(x.Y, 0); ok {
					lenCmp = "(" + leanStr(x.Op.String()) + ", " + strconv.FormatInt(v, 10) + ")"
				}
			}
		case *ast.CompositeLit:
			if exprName(x.Type) == "io.LimitedReader" {
				for _, el := range x.Elts {
					if kv, ok := el.(*ast.KeyValueExpr); ok && exprName(kv.Key) == "N" {
						if v, ok := f.evalInt(kv.Value, 0); ok {
							limitN = strconv.FormatInt(v, 10)
						}
					}
				}
			}
		}
		return true
	})
	if layout == "" || path == "" || statusCmp == "" || limitN == "" || lenCmp == "" {
		fail("C16: LookupWellKnown has left the shape the model mirrors (layout=%q path=%q status=%q limit=%q len=%q)", layout, path, statusCmp, limitN, lenCmp)
	}
	fmt.Fprintf(w, "/-- time layout LookupWellKnown parses the Expires header with -/\ndef wellKnownExpiresLayout : String := %s\n\n", leanStr(layout))
	fmt.Fprintf(w, "def wellKnownPath : String := %s\n\n", leanStr(path))
	fmt.Fprintf(w, "/-- the comparison `resp.StatusCode <op> <n>` that refuses a reply -/\ndef wellKnownStatusCheck : String × Int := %s\n\n", statusCmp)
	fmt.Fprintf(w, "/-- N of the io.LimitedReader the body is read through -/\ndef wellKnownReadLimit : Nat := %s\n\n", limitN)
	fmt.Fprintf(w, "/-- the comparison `len(body) <op> <n>` that refuses a body -/\ndef wellKnownBodyCheck : String × Int := %s\n\n", lenCmp)
	// --- client.go: network names the dial control accepts ---------------------------------------
	ac := f.findFunc("allowDenyNetworksControl")
	if ac == nil {
		fail("C16: fclient.allowDenyNetworksControl not found")
	}
	var nets []string
	ast.Inspect(ac.Body, func(n ast.Node) bool {
		if be, ok := n.(*ast.BinaryExpr); ok && exprName(be.X) == "network" {
			if s, ok := f.evalStr(be.Y); ok {
				nets = append(nets, "("+leanStr(be.Op.String())+", "+leanStr(s)+")")
			}
		}
		return true
	})
	fmt.Fprintf(w, "/-- comparisons of `network` with string literals in allowDenyNetworksControl -/\ndef controlNetworkChecks : List (String × String) := [%s]\n\n", strings.Join(nets, ", "))
}
