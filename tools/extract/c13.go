package main

// Emitter for C13 (VGen/C13.lean): the literals of fclient/request.go the hand-written model
// (VModel.FedReq) repeats: the JSON tags of FederationRequest.fields, the X-Matrix header format
// string, the byte ranges of isSafeInHTTPQuotedString, the parameter names ParseAuthorization
// recognises, the scheme and the media type readHTTPRequest insists on.

import (
	"fmt"
	"go/ast"
	"go/token"
	"reflect"
	"strconv"
	"strings"
)

func init() { emitters["C13"] = emitC13 }

func (p *pkg) findMethod(recv, name string) *ast.FuncDecl {
	for _, f := range p.files {
		for _, d := range f.Decls {
			fd, ok := d.(*ast.FuncDecl)
			if !ok || fd.Recv == nil || fd.Name.Name != name || len(fd.Recv.List) != 1 {
				continue
			}
			t := fd.Recv.List[0].Type
			if se, ok := t.(*ast.StarExpr); ok {
				t = se.X
			}
			if exprName(t) == recv {
				return fd
			}
		}
	}
	return nil
}

func emitC13(p *Pkgs, w *strings.Builder) {
	f := p.Fclient
	// --- fields struct tags -------------------------------------------------------------------
	ts := f.findType("FederationRequest")
	if ts == nil {
		fail("C13: FederationRequest not found")
	}
	st, ok := ts.Type.(*ast.StructType)
	if !ok || len(st.Fields.List) != 1 || len(st.Fields.List[0].Names) != 1 || st.Fields.List[0].Names[0].Name != "fields" {
		fail("C13: FederationRequest is not `struct { fields struct{...} }`")
	}
	inner, ok := st.Fields.List[0].Type.(*ast.StructType)
	if !ok {
		fail("C13: FederationRequest.fields is not a struct")
	}
	var tags []string
	for _, fl := range inner.Fields.List {
		if fl.Tag == nil || len(fl.Names) != 1 {
			fail("C13: fields member without a json tag")
		}
		tag, _ := strconv.Unquote(fl.Tag.Value)
		j := reflect.StructTag(tag).Get("json")
		parts := strings.Split(j, ",")
		omit := len(parts) > 1 && parts[1] == "omitempty"
		tags = append(tags, "("+leanStr(fl.Names[0].Name)+", "+leanStr(parts[0])+", "+leanBool(omit)+")")
	}
	fmt.Fprintf(w, "/-- FederationRequest.fields: (Go field, JSON name, omitempty) in declaration order -/\ndef fedReqFields : List (String × String × Bool) := [\n  %s\n]\n\n", strings.Join(tags, ",\n  "))
	// --- header format string --------------------------------------------------------------------
	hr := f.findMethod("FederationRequest", "HTTPRequest")
	if hr == nil {
		fail("C13: (*FederationRequest).HTTPRequest not found")
	}
	var formats []string
	var contentTypes []string
	ast.Inspect(hr.Body, func(n ast.Node) bool {
		ce, ok := n.(*ast.CallExpr)
		if !ok {
			return true
		}
		if exprName(ce.Fun) == "fmt.Sprintf" && len(ce.Args) > 0 {
			if s, ok := f.evalStr(ce.Args[0]); ok && strings.HasPrefix(s, "X-Matrix") {
				var args []string
				for _, a := range ce.Args[1:] {
					args = append(args, leanStr(exprName(a)))
				}
				formats = append(formats, "("+leanStr(s)+", ["+strings.Join(args, ", ")+"])")
			}
		}
		if exprName(ce.Fun) == "httpReq.Header.Set" && len(ce.Args) == 2 {
			k, ok1 := f.evalStr(ce.Args[0])
			v, ok2 := f.evalStr(ce.Args[1])
			if ok1 && ok2 {
				contentTypes = append(contentTypes, "("+leanStr(k)+", "+leanStr(v)+")")
			}
		}
		return true
	})
	if len(formats) != 1 {
		fail("C13: expected exactly one X-Matrix format string in HTTPRequest, found %d", len(formats))
	}
	fmt.Fprintf(w, "/-- the Sprintf format of the Authorization header and the names of its arguments -/\ndef authHeaderFormat : String × List String := %s\n\n", formats[0])
	fmt.Fprintf(w, "/-- headers HTTPRequest sets with literal values -/\ndef httpRequestHeaders : List (String × String) := [%s]\n\n", strings.Join(contentTypes, ", "))
	// --- isSafeInHTTPQuotedString ---------------------------------------------------------------
	sf := f.findFunc("isSafeInHTTPQuotedString")
	if sf == nil {
		fail("C13: isSafeInHTTPQuotedString not found")
	}
	var ranges []string
	lit := func(e ast.Expr) (int64, bool) { return f.evalInt(e, 0) }
	isC := func(e ast.Expr) bool { id, ok := e.(*ast.Ident); return ok && id.Name == "c" }
	var sw *ast.SwitchStmt
	ast.Inspect(sf.Body, func(n ast.Node) bool {
		if s, ok := n.(*ast.SwitchStmt); ok && sw == nil {
			sw = s
		}
		return true
	})
	if sw == nil || sw.Tag != nil {
		fail("C13: isSafeInHTTPQuotedString has no tagless switch")
	}
	sawDefault := false
	for _, cc := range sw.Body.List {
		cl := cc.(*ast.CaseClause)
		if cl.List == nil {
			// default: return false
			if len(cl.Body) != 1 {
				fail("C13: default clause shape")
			}
			if rs, ok := cl.Body[0].(*ast.ReturnStmt); !ok || len(rs.Results) != 1 || exprName(rs.Results[0]) != "false" {
				fail("C13: default clause is not `return false`")
			}
			sawDefault = true
			continue
		}
		if len(cl.Body) != 1 {
			fail("C13: case body shape")
		}
		if bs, ok := cl.Body[0].(*ast.BranchStmt); !ok || bs.Tok != token.CONTINUE {
			fail("C13: case body is not `continue`")
		}
		for _, e := range cl.List {
			be, ok := e.(*ast.BinaryExpr)
			if !ok {
				fail("C13: case expression shape")
			}
			switch {
			case be.Op == token.EQL && isC(be.X):
				v, ok := lit(be.Y)
				if !ok {
					fail("C13: case literal")
				}
				ranges = append(ranges, fmt.Sprintf("(%d, %d)", v, v))
			case be.Op == token.LEQ && isC(be.Y): // lo <= c
				v, ok := lit(be.X)
				if !ok {
					fail("C13: case literal")
				}
				ranges = append(ranges, fmt.Sprintf("(%d, 255)", v))
			case be.Op == token.LAND:
				l, ok1 := be.X.(*ast.BinaryExpr)
				r, ok2 := be.Y.(*ast.BinaryExpr)
				if !ok1 || !ok2 || l.Op != token.LEQ || r.Op != token.LEQ || !isC(l.Y) || !isC(r.X) {
					fail("C13: range case shape")
				}
				lo, ok3 := lit(l.X)
				hi, ok4 := lit(r.Y)
				if !ok3 || !ok4 {
					fail("C13: range literals")
				}
				ranges = append(ranges, fmt.Sprintf("(%d, %d)", lo, hi))
			default:
				fail("C13: unknown case expression")
			}
		}
	}
	if !sawDefault {
		fail("C13: isSafeInHTTPQuotedString lost its default clause")
	}
	fmt.Fprintf(w, "/-- byte ranges (inclusive) isSafeInHTTPQuotedString lets through; everything else is refused -/\ndef safeRanges : List (Nat × Nat) := [%s]\n\n", strings.Join(ranges, ", "))
	// --- ParseAuthorization -----------------------------------------------------------------------
	pa := f.findFunc("ParseAuthorization")
	if pa == nil {
		fail("C13: ParseAuthorization not found")
	}
	var names, schemes []string
	ast.Inspect(pa.Body, func(n ast.Node) bool {
		if be, ok := n.(*ast.BinaryExpr); ok {
			if s, ok := f.evalStr(be.Y); ok {
				switch exprName(be.X) {
				case "name":
					names = append(names, "("+leanStr(be.Op.String())+", "+leanStr(s)+")")
				case "scheme":
					schemes = append(schemes, "("+leanStr(be.Op.String())+", "+leanStr(s)+")")
				}
			}
		}
		return true
	})
	fmt.Fprintf(w, "/-- comparisons of a parameter name with a literal in ParseAuthorization, in source order -/\ndef authParamNames : List (String × String) := [%s]\n\n", strings.Join(names, ", "))
	fmt.Fprintf(w, "def authSchemeChecks : List (String × String) := [%s]\n\n", strings.Join(schemes, ", "))
	// --- readHTTPRequest: the media type ----------------------------------------------------------
	rr := f.findFunc("readHTTPRequest")
	if rr == nil {
		fail("C13: readHTTPRequest not found")
	}
	var mts []string
	ast.Inspect(rr.Body, func(n ast.Node) bool {
		if be, ok := n.(*ast.BinaryExpr); ok && exprName(be.X) == "mimetype" {
			if s, ok := f.evalStr(be.Y); ok {
				mts = append(mts, "("+leanStr(be.Op.String())+", "+leanStr(s)+")")
			}
		}
		return true
	})
	fmt.Fprintf(w, "def mediaTypeChecks : List (String × String) := [%s]\n\n", strings.Join(mts, ", "))
}
