package main

// trans.go — a statement-by-statement translator from a small, total subset of Go into Lean 4 definitions
// over the vocabulary of lean/VModel/GoSem.lean.  It is the *semantic* half of the regenerated tie: for the
// whitelisted functions below, the Lean definition in lean/VGen/Trans<P>.lean is printed from /repo's CURRENT
// source on every run, and lean/VProps/Trans<P>.lean proves — for all inputs — that it equals the
// corresponding definition of the hand-written model.
//
// Subset (anything else makes the function "untranslatable": the definition is NOT emitted, a marker
// `def <name>_untranslatable : String` is, and the theorems that mention the definition stop compiling —
// the tie of the properties that list them is broken, fail-closed, and nothing else is):
//   types      int int64 uint64 rune spec.Timestamp (→ Int) · uint32 (→ Nat, wrapping ops) · byte (→ UInt8) · bool
//              · string / []byte (→ List UInt8) · *T / T for a struct T whose used fields have those types
//              · a function-typed parameter SignatureValidityCheckFunc (→ Int → Int → Bool)
//   statements if / else · return · switch { case cond: … default: … } · x := e · x op= e (re-binding)
//              · `for i := 0; i < len(s); i++ { c := s[i]; … }` whose body only continues or returns
//   exprs      literals, identifiers, package constants, field selection, + - < <= > >= == != && || ! & | >> <<,
//              len(s), s[i], s[:], calls of strings.Compare / bytes.Compare / binary.BigEndian.Uint32,
//              conversions rune(x) / int(x), calls of other translated functions, calls of a function parameter
//
// Partiality: an index expression or Uint32 can panic, so a function that contains one is translated into
// `Option` (none = panic) with explicit short-circuit combinators; all other functions are total definitions.

import (
	"fmt"
	"go/ast"
	"go/token"
	"strconv"
	"strings"
)

type ty string

const (
	tInt   ty = "int"
	tU32   ty = "u32"
	tByte  ty = "byte"
	tBool  ty = "bool"
	tBytes ty = "bytes"
	tFn    ty = "fn"
	tMap   ty = "map" // map[string]int64
	tErr   ty = "err" // an error value, as the Bool "is not nil"
	tUnk   ty = "?"
)

func leanTy(t ty) string {
	switch t {
	case tInt:
		return "Int"
	case tU32:
		return "Nat"
	case tByte:
		return "UInt8"
	case tBool:
		return "Bool"
	case tBytes:
		return "GoSem.Bytes"
	case tFn:
		return "Int → Int → Bool"
	case tMap:
		return "List (GoSem.Bytes × Int)"
	case tErr:
		return "Bool"
	}
	if strings.HasPrefix(string(t), "struct:") {
		return strings.TrimPrefix(string(t), "struct:")
	}
	return "?"
}

type untrans struct{ why string }

type tr struct {
	p       *pkg
	vars    map[string]ty
	structs map[string]map[string]ty // struct name -> field -> type (only fields of translatable type)
	funcs   map[string]trSig         // already translated functions
	consts  map[string]int64
}

type trSig struct {
	res ty
	mon bool
}

func (t *tr) bad(f string, a ...interface{}) { panic(untrans{fmt.Sprintf(f, a...)}) }

func (t *tr) goType(e ast.Expr) ty {
	switch x := e.(type) {
	case *ast.Ident:
		switch x.Name {
		case "int", "int64", "uint64", "rune", "Timestamp":
			return tInt
		case "uint32":
			return tU32
		case "byte", "uint8":
			return tByte
		case "bool":
			return tBool
		case "string", "ServerName", "SenderID":
			return tBytes
		case "SignatureValidityCheckFunc":
			return tFn
		}
		if _, ok := t.structs[x.Name]; ok {
			return ty("struct:" + x.Name)
		}
		if ts := t.p.findType(x.Name); ts != nil {
			if st, ok := ts.Type.(*ast.StructType); ok {
				t.addStruct(x.Name, st)
				return ty("struct:" + x.Name)
			}
			return t.goType(ts.Type)
		}
	case *ast.SelectorExpr:
		if exprName(x) == "spec.Timestamp" {
			return tInt
		}
		if exprName(x) == "spec.ServerName" || exprName(x) == "spec.SenderID" {
			return tBytes
		}
	case *ast.StarExpr:
		return t.goType(x.X)
	case *ast.MapType:
		if exprName(x.Key) == "string" && exprName(x.Value) == "int64" {
			return tMap
		}
	case *ast.ArrayType:
		// []byte, and [N]byte (only ever sliced with [:] and compared in the translated functions)
		if id, ok := x.Elt.(*ast.Ident); ok && (id.Name == "byte" || id.Name == "uint8") {
			return tBytes
		}
		// a named slice of structs: the element type (see the @pair form in translate)
		if x.Len == nil {
			if et := t.goType(x.Elt); strings.HasPrefix(string(et), "struct:") {
				return ty("slice:" + strings.TrimPrefix(string(et), "struct:"))
			}
		}
	}
	return tUnk
}

func (t *tr) addStruct(name string, st *ast.StructType) {
	fs := map[string]ty{}
	t.structs[name] = fs
	for _, f := range st.Fields.List {
		ft := t.goType(f.Type)
		if ft == tUnk || ft == tFn {
			continue
		}
		for _, n := range f.Names {
			fs[n.Name] = ft
		}
	}
}

// expression result
type ex struct {
	s   string
	t   ty
	mon bool // s : Option <t>
	lit bool // untyped constant
	val int64
}

func (t *tr) lift(e ex) string {
	if e.mon {
		return e.s
	}
	return "(some (" + e.s + "))"
}

// bytesLit prints a Go string constant as the list of its UTF-8 bytes.
func bytesLit(v string) string {
	parts := make([]string, 0, len(v))
	for _, b := range []byte(v) {
		parts = append(parts, strconv.Itoa(int(b)))
	}
	return "([" + strings.Join(parts, ", ") + "] : GoSem.Bytes)"
}

func litFor(v int64, want ty) string {
	switch want {
	case tByte:
		return fmt.Sprintf("(%d : UInt8)", v)
	case tU32:
		return fmt.Sprintf("(%d : Nat)", v)
	default:
		if v < 0 {
			return fmt.Sprintf("(%d : Int)", v)
		}
		return fmt.Sprintf("(%d : Int)", v)
	}
}

func (t *tr) coerce(e ex, want ty) ex {
	if e.lit {
		return ex{s: litFor(e.val, want), t: want}
	}
	return e
}

func (t *tr) expr(e ast.Expr) ex {
	switch x := e.(type) {
	case *ast.ParenExpr:
		r := t.expr(x.X)
		return r
	case *ast.BasicLit:
		switch x.Kind {
		case token.INT:
			v, err := strconv.ParseInt(x.Value, 0, 64)
			if err != nil {
				t.bad("integer literal %s", x.Value)
			}
			return ex{lit: true, val: v, t: tInt, s: litFor(v, tInt)}
		case token.CHAR:
			s, err := strconv.Unquote(x.Value)
			if err != nil || len([]rune(s)) != 1 {
				t.bad("char literal %s", x.Value)
			}
			v := int64([]rune(s)[0])
			return ex{lit: true, val: v, t: tInt, s: litFor(v, tInt)}
		case token.STRING:
			sv, err := strconv.Unquote(x.Value)
			if err != nil {
				t.bad("string literal %s", x.Value)
			}
			return ex{s: bytesLit(sv), t: tBytes}
		}
		t.bad("literal %s", x.Value)
	case *ast.Ident:
		if x.Name == "true" || x.Name == "false" {
			return ex{s: x.Name, t: tBool}
		}
		if vt, ok := t.vars[x.Name]; ok {
			return ex{s: x.Name, t: vt}
		}
		if v, ok := t.p.cInt[x.Name]; ok {
			return ex{lit: true, val: v, t: tInt, s: litFor(v, tInt)}
		}
		if v, ok := t.p.cStr[x.Name]; ok {
			return ex{s: bytesLit(v), t: tBytes}
		}
		t.bad("identifier %s", x.Name)
	case *ast.SelectorExpr:
		if id, ok := x.X.(*ast.Ident); ok && id.Name == "spec" {
			if v, ok := extern[x.Sel.Name]; ok {
				return ex{s: bytesLit(v), t: tBytes}
			}
		}
		base := t.expr(x.X)
		if strings.HasPrefix(string(base.t), "struct:") && !base.mon {
			fs := t.structs[strings.TrimPrefix(string(base.t), "struct:")]
			if ft, ok := fs[x.Sel.Name]; ok {
				return ex{s: base.s + "." + x.Sel.Name, t: ft}
			}
		}
		t.bad("selector %s", exprName(x))
	case *ast.UnaryExpr:
		a := t.expr(x.X)
		switch x.Op {
		case token.NOT:
			if a.t != tBool {
				t.bad("! on non-bool")
			}
			if a.mon {
				return ex{s: "((" + a.s + ").map (!·))", t: tBool, mon: true}
			}
			return ex{s: "(!" + a.s + ")", t: tBool}
		case token.SUB:
			if a.lit {
				return ex{lit: true, val: -a.val, t: tInt, s: litFor(-a.val, tInt)}
			}
		}
		t.bad("unary %s", x.Op)
	case *ast.SliceExpr:
		if x.Low == nil && x.High == nil && x.Max == nil {
			return t.expr(x.X) // s[:] is s
		}
		t.bad("slice expression")
	case *ast.IndexExpr:
		s := t.expr(x.X)
		i := t.coerce(t.expr(x.Index), tInt)
		if s.t != tBytes || i.t != tInt || s.mon {
			t.bad("index expression on %s", s.t)
		}
		if i.mon {
			return ex{s: "((" + i.s + ").bind (fun i_ => GoSem.idx " + s.s + " i_))", t: tByte, mon: true}
		}
		return ex{s: "(GoSem.idx " + s.s + " " + i.s + ")", t: tByte, mon: true}
	case *ast.CallExpr:
		return t.call(x)
	case *ast.BinaryExpr:
		return t.binary(x)
	}
	t.bad("expression %T", e)
	return ex{}
}

func (t *tr) call(x *ast.CallExpr) ex {
	name := exprName(x.Fun)
	args := make([]ex, len(x.Args))
	for i, a := range x.Args {
		args[i] = t.expr(a)
	}
	pure := func() {
		for _, a := range args {
			if a.mon {
				t.bad("call %s with an argument that can panic", name)
			}
		}
	}
	switch name {
	case "len":
		pure()
		if len(args) == 1 && args[0].t == tBytes {
			return ex{s: "(GoSem.len " + args[0].s + ")", t: tInt}
		}
	case "strings.Compare", "bytes.Compare":
		pure()
		if len(args) == 2 && args[0].t == tBytes && args[1].t == tBytes {
			return ex{s: "(GoSem.compareBytes " + args[0].s + " " + args[1].s + ")", t: tInt}
		}
	case "binary.BigEndian.Uint32":
		pure()
		if len(args) == 1 && args[0].t == tBytes {
			return ex{s: "(GoSem.beUint32 " + args[0].s + ")", t: tU32, mon: true}
		}
	case "string":
		pure()
		if len(args) == 1 && args[0].t == tBytes {
			return args[0]
		}
	case "rune", "int", "int64":
		pure()
		if len(args) == 1 {
			switch args[0].t {
			case tU32:
				return ex{s: "(Int.ofNat " + args[0].s + ")", t: tInt}
			case tByte:
				return ex{s: "(Int.ofNat " + args[0].s + ".toNat)", t: tInt}
			case tInt:
				return args[0]
			}
		}
	}
	if vt, ok := t.vars[name]; ok && vt == tFn && len(args) == 2 {
		pure()
		a, b := t.coerce(args[0], tInt), t.coerce(args[1], tInt)
		return ex{s: "(" + name + " " + a.s + " " + b.s + ")", t: tBool}
	}
	if sig, ok := t.funcs[name]; ok {
		pure()
		parts := []string{name}
		for _, a := range args {
			parts = append(parts, t.coerce(a, tInt).s)
		}
		return ex{s: "(" + strings.Join(parts, " ") + ")", t: sig.res, mon: sig.mon}
	}
	t.bad("call of %s", name)
	return ex{}
}

func (t *tr) binary(x *ast.BinaryExpr) ex {
	if id, ok := x.Y.(*ast.Ident); ok && id.Name == "nil" {
		if a := t.expr(x.X); a.t == tErr && !a.mon {
			switch x.Op {
			case token.NEQ:
				return ex{s: a.s, t: tBool}
			case token.EQL:
				return ex{s: "(!" + a.s + ")", t: tBool}
			}
		}
		t.bad("comparison with nil")
	}
	a, b := t.expr(x.X), t.expr(x.Y)
	// untyped constants take the type of the other operand
	if a.lit && b.lit {
		switch x.Op {
		case token.ADD:
			return ex{lit: true, val: a.val + b.val, t: tInt, s: litFor(a.val+b.val, tInt)}
		case token.SUB:
			return ex{lit: true, val: a.val - b.val, t: tInt, s: litFor(a.val-b.val, tInt)}
		}
		t.bad("constant expression %s", x.Op)
	}
	if a.lit {
		a = t.coerce(a, b.t)
	}
	if b.lit {
		b = t.coerce(b, a.t)
	}
	if x.Op == token.LAND || x.Op == token.LOR {
		if a.t != tBool || b.t != tBool {
			t.bad("&&/|| on non-bool")
		}
		if !a.mon && !b.mon {
			op := "&&"
			if x.Op == token.LOR {
				op = "||"
			}
			return ex{s: "(" + a.s + " " + op + " " + b.s + ")", t: tBool}
		}
		f := "GoSem.andM"
		if x.Op == token.LOR {
			f = "GoSem.orM"
		}
		return ex{s: "(" + f + " " + t.lift(a) + " " + t.lift(b) + ")", t: tBool, mon: true}
	}
	if a.t != b.t {
		t.bad("operands of %s have types %s and %s", x.Op, a.t, b.t)
	}
	var body string
	res := a.t
	switch x.Op {
	case token.LSS, token.LEQ, token.GTR, token.GEQ:
		if a.t != tInt && a.t != tByte && a.t != tU32 {
			t.bad("ordering on %s", a.t)
		}
		body = "decide (%s " + x.Op.String() + " %s)"
		body = strings.Replace(strings.Replace(body, "<=", "≤", 1), ">=", "≥", 1)
		res = tBool
	case token.EQL:
		body = "(%s == %s)"
		res = tBool
	case token.NEQ:
		body = "(%s != %s)"
		res = tBool
	case token.ADD:
		switch a.t {
		case tInt:
			body = "(%s + %s)"
		case tU32:
			body = "(GoSem.u32add %s %s)"
		default:
			t.bad("+ on %s", a.t)
		}
	case token.SUB:
		switch a.t {
		case tInt:
			body = "(%s - %s)"
		case tU32:
			body = "(GoSem.u32sub %s %s)"
		default:
			t.bad("- on %s", a.t)
		}
	case token.AND:
		if a.t != tU32 {
			t.bad("& on %s", a.t)
		}
		body = "(Nat.land %s %s)"
	case token.OR:
		if a.t != tU32 {
			t.bad("| on %s", a.t)
		}
		body = "(Nat.lor %s %s)"
	default:
		t.bad("operator %s", x.Op)
	}
	if !a.mon && !b.mon {
		return ex{s: fmt.Sprintf(body, a.s, b.s), t: res}
	}
	// evaluate left to right in Option
	return ex{s: "((" + t.lift(a) + ").bind (fun a_ => (" + t.lift(b) + ").bind (fun b_ => some (" + fmt.Sprintf(body, "a_", "b_") + "))))", t: res, mon: true}
}

// shift handles `x >> k` (k a constant) on uint32 separately from binary(): the shift count is an untyped constant.
func (t *tr) shift(x *ast.BinaryExpr) (ex, bool) {
	if x.Op != token.SHR {
		return ex{}, false
	}
	a, k := t.expr(x.X), t.expr(x.Y)
	if a.t != tU32 || !k.lit || a.mon {
		t.bad(">> outside uint32 >> constant")
	}
	return ex{s: fmt.Sprintf("(Nat.shiftRight %s %d)", a.s, k.val), t: tU32}, true
}

// ---- statements ----
//
// stmts translates a statement list into a Lean term of the function's result type (wrapped in Option when the
// function is monadic).  `k` is the term to continue with when control falls off the end of the list (empty = the
// list must end in a return on every path).  In loop bodies ret wraps returned values in `some` and `continue`
// is `none`.

type sctx struct {
	res    ty
	mon    bool                  // function result is Option
	inLoop bool                  // inside a for body: result type Option (Option? res)
	ret    func(v string) string // wrap a returned (already lifted) value
	cont   string                // term for `continue` / falling off the loop body
}

func (t *tr) cond(e ast.Expr, thenS, elseS string, c *sctx) string {
	ce := t.expr(e)
	if ce.t != tBool {
		t.bad("condition is not bool")
	}
	if ce.mon {
		if !c.mon {
			t.bad("internal: monadic condition in a total function")
		}
		return "match " + ce.s + " with\n  | none => none\n  | some c_ => if c_ then " + thenS + " else " + elseS
	}
	return "if " + ce.s + " then " + thenS + " else " + elseS
}

func (t *tr) retVal(e ast.Expr, c *sctx) string {
	v := t.coerce(t.exprTop(e), c.res)
	if v.t != c.res {
		t.bad("return of %s where %s is expected", v.t, c.res)
	}
	if c.mon {
		return c.ret(t.lift(v))
	}
	if v.mon {
		t.bad("internal: monadic value in a total function")
	}
	return c.ret(v.s)
}

func (t *tr) exprTop(e ast.Expr) ex {
	if b, ok := e.(*ast.BinaryExpr); ok {
		if r, ok := t.shift(b); ok {
			return r
		}
	}
	return t.expr(e)
}

func (t *tr) stmts(list []ast.Stmt, k string, c *sctx) string {
	if len(list) == 0 {
		if k == "" {
			t.bad("control reaches the end of the function")
		}
		return k
	}
	rest := func() string { return t.stmts(list[1:], k, c) }
	switch s := list[0].(type) {
	case *ast.ReturnStmt:
		if len(s.Results) != 1 {
			t.bad("return with %d results", len(s.Results))
		}
		return t.retVal(s.Results[0], c)
	case *ast.BranchStmt:
		if s.Tok == token.CONTINUE && c.inLoop && s.Label == nil {
			return c.cont
		}
		t.bad("branch statement %s", s.Tok)
	case *ast.IfStmt:
		if s.Init != nil {
			t.bad("if with init statement")
		}
		r := rest0(t, list, k, c)
		thenS := "(" + t.stmts(s.Body.List, r, c) + ")"
		elseS := "(" + r + ")"
		if s.Else != nil {
			switch e := s.Else.(type) {
			case *ast.BlockStmt:
				elseS = "(" + t.stmts(e.List, r, c) + ")"
			case *ast.IfStmt:
				elseS = "(" + t.stmts([]ast.Stmt{e}, r, c) + ")"
			}
		}
		return t.cond(s.Cond, thenS, elseS, c)
	case *ast.SwitchStmt:
		if s.Init != nil || s.Tag != nil {
			t.bad("switch with tag / init")
		}
		r := rest0(t, list, k, c)
		out := "(" + r + ")"
		var def *ast.CaseClause
		var cases []*ast.CaseClause
		for _, cc := range s.Body.List {
			cl := cc.(*ast.CaseClause)
			if cl.List == nil {
				def = cl
			} else {
				cases = append(cases, cl)
			}
		}
		if def != nil {
			out = "(" + t.stmts(def.Body, r, c) + ")"
		}
		for i := len(cases) - 1; i >= 0; i-- {
			cl := cases[i]
			if len(cl.List) != 1 {
				t.bad("case with several expressions")
			}
			out = "(" + t.cond(cl.List[0], "("+t.stmts(cl.Body, r, c)+")", out, c) + ")"
		}
		return out
	case *ast.AssignStmt:
		if len(s.Lhs) == 2 && len(s.Rhs) == 1 && s.Tok == token.DEFINE {
			// v, ok := m[k]
			ix, isIx := s.Rhs[0].(*ast.IndexExpr)
			v, ok1 := s.Lhs[0].(*ast.Ident)
			okv, ok2 := s.Lhs[1].(*ast.Ident)
			if isIx && ok1 && ok2 {
				m, k := t.expr(ix.X), t.expr(ix.Index)
				if m.t == tMap && k.t == tBytes && !m.mon && !k.mon {
					t.vars[v.Name], t.vars[okv.Name] = tInt, tBool
					return "let " + v.Name + " := (GoSem.mapGet " + m.s + " " + k.s + ").getD 0;\n  let " + okv.Name + " := (GoSem.mapGet " + m.s + " " + k.s + ").isSome;\n  " + rest()
				}
			}
			if call, isCall := s.Rhs[0].(*ast.CallExpr); isCall && ok1 && ok2 && exprName(call.Fun) == "strconv.Atoi" && len(call.Args) == 1 {
				a := t.expr(call.Args[0])
				if a.t == tBytes && !a.mon {
					t.vars[v.Name], t.vars[okv.Name] = tInt, tErr
					return "let " + v.Name + " := (GoSem.atoi " + a.s + ").getD 0;\n  let " + okv.Name + " := (GoSem.atoi " + a.s + ").isNone;\n  " + rest()
				}
			}
			t.bad("two-value assignment other than v, ok := m[k] / v, err := strconv.Atoi(s)")
		}
		if len(s.Lhs) != 1 || len(s.Rhs) != 1 {
			t.bad("multiple assignment")
		}
		id, ok := s.Lhs[0].(*ast.Ident)
		if !ok {
			t.bad("assignment to a non-identifier")
		}
		var v ex
		switch s.Tok {
		case token.DEFINE, token.ASSIGN:
			v = t.exprTop(s.Rhs[0])
		case token.SUB_ASSIGN, token.ADD_ASSIGN, token.AND_ASSIGN, token.OR_ASSIGN:
			op := map[token.Token]token.Token{token.SUB_ASSIGN: token.SUB, token.ADD_ASSIGN: token.ADD, token.AND_ASSIGN: token.AND, token.OR_ASSIGN: token.OR}[s.Tok]
			rhs := s.Rhs[0]
			if b, ok := rhs.(*ast.BinaryExpr); ok && b.Op == token.SHR {
				// x op= y >> k : keep the shift as one operand
				sh, _ := t.shift(b)
				tmp := "sh_"
				t.vars[tmp] = sh.t
				inner := t.binary(&ast.BinaryExpr{X: id, Op: op, Y: ast.NewIdent(tmp)})
				delete(t.vars, tmp)
				v = ex{s: "(let sh_ := " + sh.s + "; " + inner.s + ")", t: inner.t, mon: inner.mon}
			} else {
				v = t.binary(&ast.BinaryExpr{X: id, Op: op, Y: rhs})
			}
		default:
			t.bad("assignment operator %s", s.Tok)
		}
		if v.lit {
			t.bad("untyped constant bound to a variable")
		}
		if old, ok := t.vars[id.Name]; ok && s.Tok != token.DEFINE && old != v.t {
			t.bad("assignment changes the type of %s", id.Name)
		}
		t.vars[id.Name] = v.t
		if v.mon {
			if !c.mon {
				t.bad("internal: monadic binding in a total function")
			}
			return "match " + v.s + " with\n  | none => none\n  | some " + id.Name + " => " + rest()
		}
		return "let " + id.Name + " := " + v.s + ";\n  " + rest()
	case *ast.ForStmt:
		// for i := 0; i < len(s); i++ { c := s[i]; body }
		sv, iv := t.loopHeader(s)
		if len(s.Body.List) == 0 {
			t.bad("empty loop body")
		}
		first, ok := s.Body.List[0].(*ast.AssignStmt)
		if !ok || first.Tok != token.DEFINE || len(first.Lhs) != 1 {
			t.bad("loop body does not start with c := s[i]")
		}
		ix, ok := first.Rhs[0].(*ast.IndexExpr)
		if !ok || exprName(ix.X) != sv || exprName(ix.Index) != iv {
			t.bad("loop body does not start with c := s[i]")
		}
		cv := first.Lhs[0].(*ast.Ident).Name
		if usesIdent(&ast.BlockStmt{List: s.Body.List[1:]}, iv) {
			t.bad("loop index used beyond s[i]")
		}
		if c.inLoop {
			t.bad("nested loop")
		}
		t.vars[cv] = tByte
		inner := &sctx{res: c.res, mon: c.mon, inLoop: true, cont: "none"}
		if c.mon {
			inner.ret = func(v string) string { return "(some " + v + ")" }
		} else {
			inner.ret = func(v string) string { return "(some " + v + ")" }
		}
		body := t.stmts(s.Body.List[1:], "none", inner)
		delete(t.vars, cv)
		after := rest()
		if c.mon {
			// body : Option (Option res): outer none = continue, some none = panic
			t.bad("loop in a function that can panic")
		}
		return "GoSem.afterLoop (GoSem.forBytes " + sv + " (fun " + cv + " => " + body + ")) (" + after + ")"
	}
	t.bad("statement %T", list[0])
	return ""
}

// rest0 translates the statements after list[0] (shared continuation of both branches of an if / switch).
func rest0(t *tr, list []ast.Stmt, k string, c *sctx) string {
	if len(list) == 1 {
		return k
	}
	// Branches that fall through share the continuation; variables bound inside a branch are not visible
	// after it in Go either, so translating the tail once with the current variable table is sound.
	saved := map[string]ty{}
	for n, v := range t.vars {
		saved[n] = v
	}
	r := t.stmts(list[1:], k, c)
	t.vars = saved
	return r
}

func (t *tr) loopHeader(s *ast.ForStmt) (string, string) {
	init, ok := s.Init.(*ast.AssignStmt)
	if !ok || init.Tok != token.DEFINE || len(init.Lhs) != 1 {
		t.bad("loop init")
	}
	iv := exprName(init.Lhs[0])
	if l, ok := init.Rhs[0].(*ast.BasicLit); !ok || l.Value != "0" {
		t.bad("loop does not start at 0")
	}
	cond, ok := s.Cond.(*ast.BinaryExpr)
	if !ok || cond.Op != token.LSS || exprName(cond.X) != iv {
		t.bad("loop condition")
	}
	call, ok := cond.Y.(*ast.CallExpr)
	if !ok || exprName(call.Fun) != "len" || len(call.Args) != 1 {
		t.bad("loop bound is not len(s)")
	}
	sv := exprName(call.Args[0])
	if t.vars[sv] != tBytes {
		t.bad("loop over a non-byte sequence")
	}
	post, ok := s.Post.(*ast.IncDecStmt)
	if !ok || post.Tok != token.INC || exprName(post.X) != iv {
		t.bad("loop post statement")
	}
	return sv, iv
}

func usesIdent(n ast.Node, name string) bool {
	found := false
	ast.Inspect(n, func(m ast.Node) bool {
		if id, ok := m.(*ast.Ident); ok && id.Name == name {
			found = true
		}
		return !found
	})
	return found
}

// isMapLookup: x is the right-hand side of a `v, ok := m[k]` somewhere in n (a map read cannot panic).
func isMapLookup(n ast.Node, x *ast.IndexExpr) bool {
	res := false
	ast.Inspect(n, func(m ast.Node) bool {
		if a, ok := m.(*ast.AssignStmt); ok && len(a.Lhs) == 2 && len(a.Rhs) == 1 && a.Rhs[0] == ast.Expr(x) {
			res = true
		}
		return !res
	})
	return res
}

func hasPartial(n ast.Node) bool {
	found := false
	ast.Inspect(n, func(m ast.Node) bool {
		switch x := m.(type) {
		case *ast.IndexExpr:
			if !isMapLookup(n, x) {
				found = true
			}
		case *ast.CallExpr:
			if exprName(x.Fun) == "binary.BigEndian.Uint32" {
				found = true
			}
		}
		return !found
	})
	return found
}

// loopIndexOnly reports whether every index expression of fd is the `c := s[i]` of a recognised loop (then the
// function is total although it contains an index expression).
func loopIndexOnly(fd *ast.FuncDecl) bool {
	n := 0
	ast.Inspect(fd.Body, func(m ast.Node) bool {
		if _, ok := m.(*ast.IndexExpr); ok {
			n++
		}
		if c, ok := m.(*ast.CallExpr); ok && exprName(c.Fun) == "binary.BigEndian.Uint32" {
			n += 2
		}
		return true
	})
	if n != 1 {
		return false
	}
	ok := false
	ast.Inspect(fd.Body, func(m ast.Node) bool {
		if f, isFor := m.(*ast.ForStmt); isFor && len(f.Body.List) > 0 {
			if a, isA := f.Body.List[0].(*ast.AssignStmt); isA && len(a.Rhs) == 1 {
				if _, isIx := a.Rhs[0].(*ast.IndexExpr); isIx {
					ok = true
				}
			}
		}
		return true
	})
	return ok
}

// translate prints the Lean definition of one function (or its untranslatable marker).
func translate(p *pkg, t *tr, spec string, w *strings.Builder) {
	name := spec
	var fd *ast.FuncDecl
	if i := strings.Index(spec, "."); i >= 0 {
		fd = findMethod(p, spec[:i], spec[i+1:])
		name = spec[i+1:]
	} else {
		fd = p.findFunc(spec)
	}
	pair := false
	if strings.HasSuffix(name, "@pair") {
		// `func (s T) Less(i, j int) bool` on a slice type T = []E whose body reads s only as s[i] and s[j]:
		// translated as a function of the two elements (sort.Interface comparators).
		pair = true
		name = strings.TrimSuffix(name, "@pair")
		spec = strings.TrimSuffix(spec, "@pair")
		fd = findMethod(p, spec[:strings.Index(spec, ".")], name)
	}
	marker := func(why string) {
		fmt.Fprintf(w, "/-- `%s` has left the translatable subset: %s -/\ndef %s_untranslatable : String := %s\n\n", spec, why, name, leanStr(why))
	}
	if fd == nil || fd.Body == nil {
		marker("function not found")
		return
	}
	var out strings.Builder
	var undo []func() // the @pair form rewrites the AST, which other emitters read too
	defer func() {
		for _, u := range undo {
			u()
		}
	}()
	func() {
		defer func() {
			if r := recover(); r != nil {
				if u, ok := r.(untrans); ok {
					out.Reset()
					marker(u.why) // written to w directly
					return
				}
				panic(r)
			}
		}()
		t.vars = map[string]ty{}
		var params []string
		if pair {
			rt := t.goType(fd.Recv.List[0].Type)
			if !strings.HasPrefix(string(rt), "slice:") || len(fd.Type.Params.List) != 1 || len(fd.Type.Params.List[0].Names) != 2 {
				t.bad("@pair: not a method (i, j int) on a slice of structs")
			}
			et := ty("struct:" + strings.TrimPrefix(string(rt), "slice:"))
			sv := fd.Recv.List[0].Names[0].Name
			for _, n := range fd.Type.Params.List[0].Names {
				en := sv + "_" + n.Name
				t.vars[en] = et
				params = append(params, fmt.Sprintf("(%s : %s)", en, leanTy(et)))
			}
			// rewrite s[i] / s[j] into the element variables; any other use of s, i or j is refused below
			iv, jv := fd.Type.Params.List[0].Names[0].Name, fd.Type.Params.List[0].Names[1].Name
			var rewrite func(n ast.Node) bool
			rewrite = func(n ast.Node) bool {
				if sel, ok := n.(*ast.SelectorExpr); ok {
					if ix, ok := sel.X.(*ast.IndexExpr); ok && exprName(ix.X) == sv && (exprName(ix.Index) == iv || exprName(ix.Index) == jv) {
						old := sel.X
						undo = append(undo, func() { sel.X = old })
						sel.X = ast.NewIdent(sv + "_" + exprName(ix.Index))
					}
				}
				return true
			}
			ast.Inspect(fd.Body, rewrite)
			if usesIdent(fd.Body, sv) || usesIdent(fd.Body, iv) || usesIdent(fd.Body, jv) {
				t.bad("@pair: the slice or an index is used other than as s[i].f / s[j].f")
			}
		} else if fd.Recv != nil {
			f := fd.Recv.List[0]
			pt := t.goType(f.Type)
			if pt == tUnk {
				t.bad("receiver type")
			}
			t.vars[f.Names[0].Name] = pt
			params = append(params, fmt.Sprintf("(%s : %s)", f.Names[0].Name, leanTy(pt)))
		}
		for _, f := range fd.Type.Params.List {
			if pair {
				break
			}
			pt := t.goType(f.Type)
			if pt == tUnk {
				t.bad("parameter type %s", exprName(f.Type))
			}
			for _, n := range f.Names {
				t.vars[n.Name] = pt
				params = append(params, fmt.Sprintf("(%s : %s)", n.Name, leanTy(pt)))
			}
		}
		if fd.Type.Results == nil || len(fd.Type.Results.List) != 1 || len(fd.Type.Results.List[0].Names) != 0 {
			t.bad("result list")
		}
		res := t.goType(fd.Type.Results.List[0].Type)
		if res == tUnk {
			t.bad("result type")
		}
		mon := hasPartial(fd.Body) && !loopIndexOnly(fd)
		c := &sctx{res: res, mon: mon, ret: func(v string) string { return v }}
		body := t.stmts(fd.Body.List, "", c)
		rt := leanTy(res)
		if mon {
			rt = "Option " + rt
		}
		// structures used by the parameters
		fmt.Fprintf(&out, "/-- translated from `%s` (%s) -/\ndef %s %s : %s :=\n  %s\n\n", spec, p.fset.Position(fd.Pos()).Filename[strings.LastIndex(p.fset.Position(fd.Pos()).Filename, "/")+1:], name, strings.Join(params, " "), rt, body)
		t.funcs[name] = trSig{res: res, mon: mon}
	}()
	w.WriteString(out.String())
}

func emitStructs(t *tr, done map[string]bool, w *strings.Builder) {
	names := make([]string, 0, len(t.structs))
	for n := range t.structs {
		names = append(names, n)
	}
	sortStrings(names)
	for _, n := range names {
		if done[n] || len(t.structs[n]) == 0 {
			continue
		}
		done[n] = true
		fmt.Fprintf(w, "/-- the fields of Go struct `%s` that have a translatable type -/\nstructure %s where\n", n, n)
		fs := t.structs[n]
		fn := make([]string, 0, len(fs))
		for f := range fs {
			fn = append(fn, f)
		}
		sortStrings(fn)
		for _, f := range fn {
			fmt.Fprintf(w, "  %s : %s\n", f, leanTy(fs[f]))
		}
		w.WriteString("\n")
	}
}

func sortStrings(s []string) {
	for i := 1; i < len(s); i++ {
		for j := i; j > 0 && s[j] < s[j-1]; j-- {
			s[j], s[j-1] = s[j-1], s[j]
		}
	}
}

// transModules: VGen module -> package selector + functions, in dependency order.
var transModules = []struct {
	mod   string
	pkg   func(*Pkgs) *pkg
	funcs []string
}{
	{"TransJson", func(p *Pkgs) *pkg { return p.Root }, []string{"readHexDigits", "isNegativeZeroLiteral"}},
	{"TransFedReq", func(p *Pkgs) *pkg { return p.Fclient }, []string{"isSafeInHTTPQuotedString"}},
	{"TransSpec", func(p *Pkgs) *pkg { return p.Spec }, []string{"isDNSNameChar"}},
	{"TransStateRes", func(p *Pkgs) *pkg { return p.Root }, []string{"sortStateResV2ConflictedPowerLevelHeap", "sortStateResV2ConflictedOtherHeap", "conflictedEventSorter.Less@pair"}},
	{"TransKeys", func(p *Pkgs) *pkg { return p.Root }, []string{"PublicKeyLookupResult.WasValidAt"}},
	{"TransTokens", func(p *Pkgs) *pkg { return p.Tokens }, []string{"verifyExpiry"}},
	{"TransLevels", func(p *Pkgs) *pkg { return p.Root }, []string{"PowerLevelContent.UserLevel", "PowerLevelContent.EventLevel", "PowerLevelContent.NotificationLevel"}},
}

func init() {
	for _, m := range transModules {
		m := m
		emitters[m.mod] = func(p *Pkgs, w *strings.Builder) {
			w.WriteString("--IMPORT VModel.GoSem\n")
			pk := m.pkg(p)
			t := &tr{p: pk, structs: map[string]map[string]ty{}, funcs: map[string]trSig{}}
			var defs strings.Builder
			for _, f := range m.funcs {
				translate(pk, t, f, &defs)
			}
			fmt.Fprintf(w, "namespace %s\n\n", m.mod)
			emitStructs(t, map[string]bool{}, w)
			w.WriteString(defs.String())
			fmt.Fprintf(w, "end %s\n", m.mod)
		}
	}
}

// transProps: the properties whose theorem lists contain the equivalence theorems of a translated module
// (props/Cxx.py); for those properties the translated functions are not pinned syntactically (skel.go).
var transProps = map[string][]string{
	"TransJson":     {"C01", "C18"},
	"TransFedReq":   {"C13"},
	"TransSpec":     {"C16", "C17"},
	"TransStateRes": {"C10", "C11"},
	"TransKeys":     {"C06", "C12", "C13"},
	"TransLevels":   {"C07", "C08"},
	"TransTokens":   {"C20"},
}

func translatedFor(prop, recv, name string) bool {
	for _, m := range transModules {
		listed := false
		for _, p := range transProps[m.mod] {
			if p == prop {
				listed = true
			}
		}
		if !listed {
			continue
		}
		for _, f := range m.funcs {
			want := strings.TrimSuffix(f, "@pair")
			if !strings.Contains(f, ".") {
				want = "." + f
			}
			if want == recv+"."+name {
				return true
			}
		}
	}
	return false
}
