package main

// Emitter for C19 (lean/VGen/Conc.lean): the synchronisation skeleton of the functions the interleaving
// models mirror, regenerated from the source on every run.  For each function: the calls that delimit
// its atomic regions (Lock / Unlock / WaitGroup / channel close / the unlocked oracle calls / map
// deletes), the loop conditions and the `if` conditions that mention the cache size or an expiry, in
// source order, printed as Go source.  VProps/C19.lean states what they must be (`by decide`): a change
// of the locking structure breaks a kernel-checked obligation even when no schedule shows a difference.

import (
	"bytes"
	"fmt"
	"go/ast"
	"go/printer"
	"go/token"
	"strings"
)

func init() { emitters["Conc"] = emitConc }

func findMethod(p *pkg, recv, name string) *ast.FuncDecl {
	for _, f := range p.files {
		for _, d := range f.Decls {
			fd, ok := d.(*ast.FuncDecl)
			if !ok || fd.Name.Name != name {
				continue
			}
			if recv == "" {
				if fd.Recv == nil {
					return fd
				}
				continue
			}
			if fd.Recv == nil || len(fd.Recv.List) != 1 {
				continue
			}
			t := fd.Recv.List[0].Type
			if st, ok := t.(*ast.StarExpr); ok {
				t = st.X
			}
			if id, ok := t.(*ast.Ident); ok && id.Name == recv {
				return fd
			}
		}
	}
	return nil
}

func src(fset *token.FileSet, n ast.Node) string {
	var b bytes.Buffer
	if err := printer.Fprint(&b, fset, n); err != nil {
		fail("print: %v", err)
	}
	return strings.Join(strings.Fields(b.String()), " ")
}

var concSyncSuffixes = []string{".Lock", ".Unlock", ".Wait", ".Add", ".Done", ".LookupIPAddr", ".GetServerKeys", ".LookupServerKeys", ".Store", ".Load"}

func concInteresting(fset *token.FileSet, call *ast.CallExpr) bool {
	fn := src(fset, call.Fun)
	if fn == "close" || fn == "delete" {
		return true
	}
	for _, s := range concSyncSuffixes {
		if strings.HasSuffix(fn, s) {
			// time.Now().Add / ts.Add are not synchronisation
			if s == ".Add" && !strings.HasPrefix(fn, "wait") {
				return false
			}
			return true
		}
	}
	return false
}

// skeleton lists the synchronisation-relevant events of a function body in source order.
func skeleton(p *pkg, fd *ast.FuncDecl) []string {
	var out []string
	var walk func(n ast.Node, prefix string)
	walk = func(n ast.Node, prefix string) {
		ast.Inspect(n, func(x ast.Node) bool {
			switch v := x.(type) {
			case *ast.DeferStmt:
				if concInteresting(p.fset, v.Call) {
					out = append(out, "defer "+src(p.fset, v.Call))
				}
				for _, a := range v.Call.Args {
					walk(a, prefix)
				}
				return false
			case *ast.GoStmt:
				out = append(out, "go "+src(p.fset, v.Call))
				return false
			case *ast.ForStmt:
				if v.Cond != nil {
					out = append(out, "for "+src(p.fset, v.Cond))
				}
			case *ast.RangeStmt:
				out = append(out, "range "+src(p.fset, v.X))
			case *ast.IfStmt:
				c := src(p.fset, v.Cond)
				if strings.Contains(c, "size") || strings.Contains(c, "Before") || strings.Contains(c, "EventIDRaw") || strings.Contains(c, "Since") || strings.Contains(c, "numWorkers") {
					out = append(out, "if "+c)
				}
			case *ast.AssignStmt:
				for _, l := range v.Lhs {
					ls := src(p.fset, l)
					if strings.HasSuffix(ls, ".EventIDRaw") || strings.HasPrefix(ls, "numWorkers") {
						out = append(out, "assign "+src(p.fset, v))
					}
				}
			case *ast.CallExpr:
				if concInteresting(p.fset, v) {
					out = append(out, src(p.fset, v))
				}
			}
			return true
		})
	}
	walk(fd.Body, "")
	return out
}

func emitConc(p *Pkgs, w *strings.Builder) {
	type target struct {
		lean string
		pk   *pkg
		recv string
		name string
	}
	targets := []target{
		{"concDnsLookup", p.Fclient, "DNSCache", "lookup"},
		{"concDnsDialContext", p.Fclient, "DNSCache", "dialContext"},
		{"concGetTransport", p.Fclient, "destinationTripper", "getTransport"},
		{"concReaper", p.Fclient, "destinationTripper", "reaper"},
		{"concFetchKeys", p.Root, "DirectKeyFetcher", "FetchKeys"},
		{"concEventIDV2", p.Root, "eventV2", "EventID"},
	}
	for _, t := range targets {
		fd := findMethod(t.pk, t.recv, t.name)
		if fd == nil || fd.Body == nil {
			fail("conc: method %s.%s not found", t.recv, t.name)
		}
		fmt.Fprintf(w, "/-- synchronisation skeleton of %s.%s -/\ndef %s : List String := [\n", t.recv, t.name, t.lean)
		sk := skeleton(t.pk, fd)
		for i, s := range sk {
			sep := ","
			if i == len(sk)-1 {
				sep = ""
			}
			fmt.Fprintf(w, "  %s%s\n", strconv_quote(s), sep)
		}
		fmt.Fprintf(w, "]\n\n")
	}
	// numWorkers := <literal> in FetchKeys
	fd := findMethod(p.Root, "DirectKeyFetcher", "FetchKeys")
	max := int64(-1)
	ast.Inspect(fd.Body, func(x ast.Node) bool {
		if as, ok := x.(*ast.AssignStmt); ok && as.Tok == token.DEFINE && len(as.Lhs) == 1 && len(as.Rhs) == 1 {
			if id, ok := as.Lhs[0].(*ast.Ident); ok && id.Name == "numWorkers" {
				if v, ok := p.Root.evalInt(as.Rhs[0], 0); ok {
					max = v
				}
			}
		}
		return true
	})
	if max < 0 {
		fail("conc: `numWorkers := <int literal>` not found in FetchKeys")
	}
	fmt.Fprintf(w, "/-- `numWorkers := %d` in DirectKeyFetcher.FetchKeys -/\ndef fetchMaxWorkers : Nat := %d\n\n", max, max)
}

func strconv_quote(s string) string {
	var b strings.Builder
	b.WriteByte('"')
	for _, r := range s {
		switch r {
		case '"':
			b.WriteString("\\\"")
		case '\\':
			b.WriteString("\\\\")
		default:
			b.WriteRune(r)
		}
	}
	b.WriteByte('"')
	return b.String()
}
