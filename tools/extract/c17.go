package main

// Emitter for C17 (identifiers, size limits, version traits): lean/VGen/C17.lean
//
//	maxIDLength, maxEventLength                       event.go constants
//	lenientByteLimitRoomVersions                      eventV2.go (keys of the map, sorted)
//	pseudoIDsVersion                                  the constant CheckFields switches on (RoomVersionPseudoIDs)
//	validUsernameRegex, domainlessRoomIDRegexp        the regexp source texts of spec/userid.go, spec/roomid.go
//	userSigil, roomSigil, localDomainSeparator        spec constants
//	userIDMinLen/MaxLen, roomIDMinLen/MaxLen          the literals of the length guards `idLength < a || idLength > b`

import (
	"fmt"
	"go/ast"
	"go/token"
	"sort"
	"strings"
)

func init() { emitters["C17"] = emitC17 }

func regexSource(p *pkg, name string) string {
	v := p.findVar(name)
	ce, ok := v.(*ast.CallExpr)
	if !ok || exprName(ce.Fun) != "regexp.MustCompile" || len(ce.Args) != 1 {
		fail("%s is not regexp.MustCompile(<literal>)", name)
	}
	s, ok := p.evalStr(ce.Args[0])
	if !ok {
		fail("%s: pattern is not a string literal", name)
	}
	return s
}

// lengthGuard finds, in function fn, the first `if idLength < A || idLength > B` and returns A, B.
func lengthGuard(p *pkg, fn string) (int64, int64) {
	fd := p.findFunc(fn)
	if fd == nil {
		fail("function %s not found", fn)
	}
	var a, b int64
	found := false
	ast.Inspect(fd.Body, func(n ast.Node) bool {
		is, ok := n.(*ast.IfStmt)
		if !ok || found {
			return true
		}
		be, ok := is.Cond.(*ast.BinaryExpr)
		if !ok || be.Op != token.LOR {
			return true
		}
		l, ok1 := be.X.(*ast.BinaryExpr)
		r, ok2 := be.Y.(*ast.BinaryExpr)
		if !ok1 || !ok2 || l.Op != token.LSS || r.Op != token.GTR || exprName(l.X) != "idLength" || exprName(r.X) != "idLength" {
			return true
		}
		x, okx := p.evalInt(l.Y, 0)
		y, oky := p.evalInt(r.Y, 0)
		if okx && oky {
			a, b, found = x, y, true
		}
		return true
	})
	if !found {
		fail("%s: length guard `idLength < a || idLength > b` not found", fn)
	}
	return a, b
}

func emitC17(p *Pkgs, w *strings.Builder) {
	for _, n := range []string{"maxIDLength", "maxEventLength"} {
		v, ok := p.Root.cInt[n]
		if !ok {
			fail("constant %s not found", n)
		}
		fmt.Fprintf(w, "def %s : Nat := %d\n", n, v)
	}
	for _, n := range []string{"userSigil", "roomSigil", "localDomainSeparator"} {
		v, ok := p.Spec.cInt[n]
		if !ok {
			fail("constant spec.%s not found", n)
		}
		fmt.Fprintf(w, "def %s : Nat := %d\n", n, v)
	}
	ps, ok := p.Root.cStr["RoomVersionPseudoIDs"]
	if !ok {
		fail("RoomVersionPseudoIDs not found")
	}
	fmt.Fprintf(w, "def pseudoIDsVersion : String := %s\n\n", leanStr(ps))

	// CheckFields must still switch on RoomVersionPseudoIDs only
	cf := p.Root.findFunc("CheckFields")
	if cf == nil {
		fail("CheckFields not found")
	}
	var cases []string
	ast.Inspect(cf.Body, func(n ast.Node) bool {
		if sw, ok := n.(*ast.SwitchStmt); ok {
			for _, c := range sw.Body.List {
				for _, e := range c.(*ast.CaseClause).List {
					cases = append(cases, exprName(e))
				}
			}
		}
		return true
	})
	fmt.Fprintf(w, "/-- the room versions CheckFields exempts from the sender check (case labels of its switch) -/\n")
	var cl []string
	for _, c := range cases {
		s, ok := p.Root.cStr[c]
		if !ok {
			fail("CheckFields: case label %s is not a string constant", c)
		}
		cl = append(cl, leanStr(s))
	}
	fmt.Fprintf(w, "def senderCheckExempt : List String := [%s]\n\n", strings.Join(cl, ", "))

	lv := p.Root.findVar("lenientByteLimitRoomVersions")
	lit, ok := lv.(*ast.CompositeLit)
	if !ok {
		fail("lenientByteLimitRoomVersions is not a composite literal")
	}
	var keys []string
	for _, el := range lit.Elts {
		kv, ok := el.(*ast.KeyValueExpr)
		if !ok {
			fail("lenientByteLimitRoomVersions: element is not key: value")
		}
		s, ok := p.Root.evalStr(kv.Key)
		if !ok {
			fail("lenientByteLimitRoomVersions: key is not a string constant")
		}
		keys = append(keys, s)
	}
	sort.Strings(keys)
	var ql []string
	for _, k := range keys {
		ql = append(ql, leanStr(k))
	}
	fmt.Fprintf(w, "def lenientByteLimitRoomVersions : List String := [%s]\n\n", strings.Join(ql, ", "))

	fmt.Fprintf(w, "def validUsernameRegex : String := %s\n", leanStr(regexSource(p.Spec, "validUsernameRegex")))
	fmt.Fprintf(w, "def domainlessRoomIDRegexp : String := %s\n\n", leanStr(regexSource(p.Spec, "domainlessRoomIDRegexp")))

	a, b := lengthGuard(p.Spec, "parseAndValidateUserID")
	fmt.Fprintf(w, "def userIDMinLen : Nat := %d\ndef userIDMaxLen : Nat := %d\n", a, b)
	a, b = lengthGuard(p.Spec, "parseAndValidateRoomID")
	fmt.Fprintf(w, "def roomIDMinLen : Nat := %d\ndef roomIDMaxLen : Nat := %d\n\n", a, b)
}
