// Command vextract reads /repo's current working tree (go/ast only, no type checking) and prints the
// regenerated Lean facts under <out>/VGen/*.lean.  It fails closed: anything it is asked to extract
// that has left the subset it understands makes it exit non-zero.
//
//	vextract <repo> <leandir>
package main

import (
	"fmt"
	"go/ast"
	"go/parser"
	"go/token"
	"os"
	"path/filepath"
	"reflect"
	"sort"
	"strconv"
	"strings"
)

type pkg struct {
	fset  *token.FileSet
	files map[string]*ast.File
	// consts: name -> literal (Lean syntax) and kind "int"|"string"
	cInt map[string]int64
	cStr map[string]string
}

func fail(f string, a ...interface{}) {
	fmt.Fprintf(os.Stderr, "vextract: "+f+"\n", a...)
	os.Exit(3)
}

func load(dir string) *pkg {
	p := &pkg{fset: token.NewFileSet(), files: map[string]*ast.File{}, cInt: map[string]int64{}, cStr: map[string]string{}}
	ents, err := os.ReadDir(dir)
	if err != nil {
		fail("%v", err)
	}
	for _, e := range ents {
		n := e.Name()
		if e.IsDir() || !strings.HasSuffix(n, ".go") || strings.HasSuffix(n, "_test.go") || strings.HasSuffix(n, "_verif.go") {
			continue
		}
		f, err := parser.ParseFile(p.fset, filepath.Join(dir, n), nil, parser.ParseComments)
		if err != nil {
			fail("parse %s: %v", n, err)
		}
		p.files[n] = f
	}
	p.collectConsts()
	return p
}

// collectConsts evaluates top-level const blocks made of literals, iota, iota+k, and typed conversions.
func (p *pkg) collectConsts() {
	for _, f := range p.files {
		for _, d := range f.Decls {
			gd, ok := d.(*ast.GenDecl)
			if !ok || gd.Tok != token.CONST {
				continue
			}
			var last ast.Expr
			for i, s := range gd.Specs {
				vs := s.(*ast.ValueSpec)
				var e ast.Expr
				if len(vs.Values) > 0 {
					e = vs.Values[0]
					last = e
				} else {
					e = last
				}
				if e == nil || len(vs.Names) != 1 {
					continue
				}
				name := vs.Names[0].Name
				if iv, ok := p.evalInt(e, int64(i)); ok {
					p.cInt[name] = iv
				} else if sv, ok := p.evalStr(e); ok {
					p.cStr[name] = sv
				}
			}
		}
	}
}

func (p *pkg) evalInt(e ast.Expr, iota int64) (int64, bool) {
	switch x := e.(type) {
	case *ast.BasicLit:
		if x.Kind == token.INT {
			v, err := strconv.ParseInt(x.Value, 0, 64)
			return v, err == nil
		}
		if x.Kind == token.CHAR {
			r, _, _, err := strconv.UnquoteChar(x.Value[1:len(x.Value)-1], '\'')
			return int64(r), err == nil
		}
	case *ast.Ident:
		if x.Name == "iota" {
			return iota, true
		}
		if v, ok := p.cInt[x.Name]; ok {
			return v, true
		}
	case *ast.ParenExpr:
		return p.evalInt(x.X, iota)
	case *ast.UnaryExpr:
		if v, ok := p.evalInt(x.X, iota); ok && x.Op == token.SUB {
			return -v, true
		}
	case *ast.CallExpr: // typed conversion T(x)
		if len(x.Args) == 1 {
			return p.evalInt(x.Args[0], iota)
		}
	case *ast.BinaryExpr:
		a, ok1 := p.evalInt(x.X, iota)
		b, ok2 := p.evalInt(x.Y, iota)
		if ok1 && ok2 {
			switch x.Op {
			case token.ADD:
				return a + b, true
			case token.SUB:
				return a - b, true
			case token.MUL:
				return a * b, true
			case token.SHL:
				return a << uint(b), true
			case token.QUO:
				if b != 0 {
					return a / b, true
				}
			}
		}
	}
	return 0, false
}

func (p *pkg) evalStr(e ast.Expr) (string, bool) {
	switch x := e.(type) {
	case *ast.BasicLit:
		if x.Kind == token.STRING {
			s, err := strconv.Unquote(x.Value)
			return s, err == nil
		}
	case *ast.Ident:
		if v, ok := p.cStr[x.Name]; ok {
			return v, true
		}
	case *ast.CallExpr:
		if len(x.Args) == 1 {
			return p.evalStr(x.Args[0])
		}
	case *ast.SelectorExpr: // spec.X : resolved by caller-provided table
		if v, ok := extern[x.Sel.Name]; ok {
			return v, true
		}
	}
	return "", false
}

// extern holds string constants of package spec, so that root-package tables can use spec.MRoomCreate etc.
var extern = map[string]string{}

func leanStr(s string) string {
	var sb strings.Builder
	sb.WriteByte('"')
	for _, c := range s {
		switch {
		case c == '"':
			sb.WriteString("\\\"")
		case c == '\\':
			sb.WriteString("\\\\")
		case c == '\n':
			sb.WriteString("\\n")
		case c == '\t':
			sb.WriteString("\\t")
		case c < 0x20 || c == 0x7f:
			sb.WriteString(fmt.Sprintf("\\x%02x", c))
		default:
			sb.WriteRune(c)
		}
	}
	sb.WriteByte('"')
	return sb.String()
}

func leanBool(b bool) string {
	if b {
		return "true"
	}
	return "false"
}

func (p *pkg) findVar(name string) ast.Expr {
	for _, f := range p.files {
		for _, d := range f.Decls {
			gd, ok := d.(*ast.GenDecl)
			if !ok || gd.Tok != token.VAR {
				continue
			}
			for _, s := range gd.Specs {
				vs := s.(*ast.ValueSpec)
				for i, n := range vs.Names {
					if n.Name == name && i < len(vs.Values) {
						return vs.Values[i]
					}
				}
			}
		}
	}
	return nil
}

func (p *pkg) findType(name string) *ast.TypeSpec {
	for _, f := range p.files {
		for _, d := range f.Decls {
			gd, ok := d.(*ast.GenDecl)
			if !ok || gd.Tok != token.TYPE {
				continue
			}
			for _, s := range gd.Specs {
				ts := s.(*ast.TypeSpec)
				if ts.Name.Name == name {
					return ts
				}
			}
		}
	}
	return nil
}

func (p *pkg) findFunc(name string) *ast.FuncDecl {
	for _, f := range p.files {
		for _, d := range f.Decls {
			fd, ok := d.(*ast.FuncDecl)
			if ok && fd.Recv == nil && fd.Name.Name == name {
				return fd
			}
		}
	}
	return nil
}

func exprName(e ast.Expr) string {
	switch x := e.(type) {
	case *ast.Ident:
		return x.Name
	case *ast.SelectorExpr:
		return exprName(x.X) + "." + x.Sel.Name
	}
	return ""
}

// ---- room version table ----

var versionCols = []string{"stable", "stateResAlgorithm", "eventFormat", "eventIDFormat", "redactionAlgorithm",
	"signatureValidityCheckFunc", "canonicalJSONCheck", "checkPowerLevelEvent", "restrictedJoinServernameFunc",
	"checkRestrictedJoin", "parsePowerLevelsFunc", "checkKnockingAllowedFunc", "checkRestrictedJoinAllowedFunc",
	"checkCreateEvent", "newEventFromUntrustedJSONFunc", "newEventFromTrustedJSONFunc",
	"newEventFromTrustedJSONWithEventIDFunc", "domainlessRoomID", "privilegedCreators"}

func (p *pkg) versions(w *strings.Builder) {
	v := p.findVar("roomVersionMeta")
	cl, ok := v.(*ast.CompositeLit)
	if !ok {
		fail("roomVersionMeta is not a composite literal")
	}
	// the struct must have exactly the columns we know (plus ver): a new column is a new trait to model
	ts := p.findType("RoomVersionImpl")
	st, ok := ts.Type.(*ast.StructType)
	if !ok {
		fail("RoomVersionImpl is not a struct")
	}
	have := map[string]bool{}
	for _, f := range st.Fields.List {
		for _, n := range f.Names {
			have[n.Name] = true
		}
	}
	for _, c := range append([]string{"ver"}, versionCols...) {
		if !have[c] {
			fail("RoomVersionImpl lost column %s", c)
		}
		delete(have, c)
	}
	if len(have) != 0 {
		fail("RoomVersionImpl has columns the model does not know: %v", have)
	}
	type row struct {
		key  string
		cols map[string]string
	}
	var rows []row
	for _, el := range cl.Elts {
		kv := el.(*ast.KeyValueExpr)
		key, ok := p.evalStr(kv.Key)
		if !ok {
			fail("room version key not a string constant")
		}
		rl, ok := kv.Value.(*ast.CompositeLit)
		if !ok {
			fail("room version %s: not a composite literal", key)
		}
		r := row{key: key, cols: map[string]string{}}
		for _, fe := range rl.Elts {
			fkv := fe.(*ast.KeyValueExpr)
			col := exprName(fkv.Key)
			switch col {
			case "ver":
				s, ok := p.evalStr(fkv.Value)
				if !ok {
					fail("ver of %s", key)
				}
				r.cols["ver"] = s
			case "stable", "domainlessRoomID", "privilegedCreators":
				r.cols[col] = exprName(fkv.Value)
			case "stateResAlgorithm", "eventFormat", "eventIDFormat":
				iv, ok := p.evalInt(fkv.Value, 0)
				if !ok {
					fail("%s of %s", col, key)
				}
				r.cols[col] = fmt.Sprint(iv)
			default:
				n := exprName(fkv.Value)
				if n == "" {
					fail("column %s of %s is not a function name", col, key)
				}
				r.cols[col] = n
			}
		}
		rows = append(rows, r)
	}
	sort.Slice(rows, func(i, j int) bool { return rows[i].key < rows[j].key })
	w.WriteString("/-- one row of roomVersionMeta (eventversion.go); function-valued columns are the function's name, \"\" = nil -/\n")
	w.WriteString("structure VersionRow where\n  key : String\n  ver : String\n")
	for _, c := range versionCols {
		switch c {
		case "stable", "domainlessRoomID", "privilegedCreators":
			w.WriteString("  " + c + " : Bool\n")
		case "stateResAlgorithm", "eventFormat", "eventIDFormat":
			w.WriteString("  " + c + " : Nat\n")
		default:
			w.WriteString("  " + c + " : String\n")
		}
	}
	w.WriteString("  deriving Repr, DecidableEq\n\n")
	w.WriteString("def roomVersions : List VersionRow := [\n")
	for i, r := range rows {
		w.WriteString("  { key := " + leanStr(r.key) + ", ver := " + leanStr(r.cols["ver"]))
		for _, c := range versionCols {
			val := r.cols[c]
			switch c {
			case "stable", "domainlessRoomID", "privilegedCreators":
				if val == "" {
					val = "false"
				}
			case "stateResAlgorithm", "eventFormat", "eventIDFormat":
				if val == "" {
					val = "0"
				}
			default:
				val = leanStr(val)
			}
			w.WriteString(", " + c + " := " + val)
		}
		w.WriteString(" }")
		if i+1 < len(rows) {
			w.WriteString(",")
		}
		w.WriteString("\n")
	}
	w.WriteString("]\n\n")
}

// ---- redaction tables ----

func (p *pkg) structTags(name string, w *strings.Builder) {
	ts := p.findType(name)
	if ts == nil {
		fail("type %s not found", name)
	}
	st := ts.Type.(*ast.StructType)
	w.WriteString("/-- json tags of " + name + ": (json name, omitempty, Go type) -/\n")
	w.WriteString("def " + name + " : List (String × Bool × String) := [\n")
	var items []string
	for _, f := range st.Fields.List {
		if f.Tag == nil {
			fail("%s: field without tag", name)
		}
		tag, _ := strconv.Unquote(f.Tag.Value)
		j := reflect.StructTag(tag).Get("json")
		parts := strings.Split(j, ",")
		omit := false
		for _, o := range parts[1:] {
			if o == "omitempty" {
				omit = true
			}
		}
		typ := ""
		switch t := f.Type.(type) {
		case *ast.Ident:
			typ = t.Name
		case *ast.SelectorExpr:
			typ = exprName(t)
		case *ast.MapType:
			typ = "map"
		case *ast.StarExpr:
			typ = "*" + exprName(t.X)
		case *ast.ArrayType:
			typ = "[]" + exprName(t.Elt)
		default:
			typ = "?"
		}
		items = append(items, "  ("+leanStr(parts[0])+", "+leanBool(omit)+", "+leanStr(typ)+")")
	}
	w.WriteString(strings.Join(items, ",\n") + "\n]\n\n")
}

func (p *pkg) stringListMap(name string, w *strings.Builder) {
	v := p.findVar(name)
	cl, ok := v.(*ast.CompositeLit)
	if !ok {
		fail("%s is not a composite literal", name)
	}
	w.WriteString("def " + name + " : List (String × List String) := [\n")
	var items []string
	for _, el := range cl.Elts {
		kv := el.(*ast.KeyValueExpr)
		k, ok := p.evalStr(kv.Key)
		if !ok {
			fail("%s: key", name)
		}
		var vals []string
		for _, ve := range kv.Value.(*ast.CompositeLit).Elts {
			s, ok := p.evalStr(ve)
			if !ok {
				fail("%s: value", name)
			}
			vals = append(vals, leanStr(s))
		}
		items = append(items, "  ("+leanStr(k)+", ["+strings.Join(vals, ", ")+"])")
	}
	sort.Strings(items)
	w.WriteString(strings.Join(items, ",\n") + "\n]\n\n")
}

// redactFuncs: each redactEventJSONVn must be `return redactEventJSON(eventJSON, &T{}, table)`.
func (p *pkg) redactFuncs(w *strings.Builder) {
	w.WriteString("/-- redaction algorithm name ↦ (top-level keep struct, content keep table) -/\n")
	w.WriteString("def redactionAlgorithms : List (String × String × String) := [\n")
	var items []string
	for _, f := range p.files {
		for _, d := range f.Decls {
			fd, ok := d.(*ast.FuncDecl)
			if !ok || fd.Recv != nil || !strings.HasPrefix(fd.Name.Name, "redactEventJSONV") {
				continue
			}
			if len(fd.Body.List) != 1 {
				fail("%s: body is not a single return", fd.Name.Name)
			}
			rs, ok := fd.Body.List[0].(*ast.ReturnStmt)
			if !ok || len(rs.Results) != 1 {
				fail("%s: body is not a single return", fd.Name.Name)
			}
			ce, ok := rs.Results[0].(*ast.CallExpr)
			if !ok || exprName(ce.Fun) != "redactEventJSON" || len(ce.Args) != 3 {
				fail("%s: not a call of redactEventJSON", fd.Name.Name)
			}
			ue, ok := ce.Args[1].(*ast.UnaryExpr)
			if !ok {
				fail("%s: second argument", fd.Name.Name)
			}
			items = append(items, "  ("+leanStr(fd.Name.Name)+", "+leanStr(exprName(ue.X.(*ast.CompositeLit).Type))+", "+leanStr(exprName(ce.Args[2]))+")")
		}
	}
	sort.Strings(items)
	w.WriteString(strings.Join(items, ",\n") + "\n]\n\n")
}

func (p *pkg) constsOut(prefix string, w *strings.Builder) {
	var names []string
	for n := range p.cInt {
		names = append(names, n)
	}
	sort.Strings(names)
	w.WriteString("def " + prefix + "IntConsts : List (String × Int) := [\n")
	var items []string
	for _, n := range names {
		items = append(items, fmt.Sprintf("  (%s, %d)", leanStr(n), p.cInt[n]))
	}
	w.WriteString(strings.Join(items, ",\n") + "\n]\n\n")
	names = names[:0]
	for n := range p.cStr {
		names = append(names, n)
	}
	sort.Strings(names)
	w.WriteString("def " + prefix + "StrConsts : List (String × String) := [\n")
	items = items[:0]
	for _, n := range names {
		items = append(items, fmt.Sprintf("  (%s, %s)", leanStr(n), leanStr(p.cStr[n])))
	}
	w.WriteString(strings.Join(items, ",\n") + "\n]\n\n")
}

func write(leandir, name, body string) {
	imp := ""
	for strings.HasPrefix(body, "--IMPORT ") {
		nl := strings.Index(body, "\n")
		imp += "import " + body[len("--IMPORT "):nl] + "\n"
		body = body[nl+1:]
	}
	hdr := imp + "/- GENERATED by tools/extract from /repo's working tree on every run. Do not edit. -/\nnamespace VGen\n\n"
	if err := os.WriteFile(filepath.Join(leandir, "VGen", name+".lean"), []byte(hdr+body+"end VGen\n"), 0o644); err != nil {
		fail("%v", err)
	}
}

func main() {
	if len(os.Args) < 3 {
		fail("usage: vextract <repo> <leandir>")
	}
	pins := false
	if os.Args[1] == "-pins" {
		pins = true
		os.Args = append(os.Args[:1], os.Args[2:]...)
	}
	repo, leandir := os.Args[1], os.Args[2]
	_ = os.MkdirAll(filepath.Join(leandir, "VGen"), 0o755)
	specp := load(filepath.Join(repo, "spec"))
	for k, v := range specp.cStr {
		extern[k] = v
	}
	root := load(repo)
	fcl := load(filepath.Join(repo, "fclient"))
	tok := load(filepath.Join(repo, "tokens"))

	var w strings.Builder
	root.versions(&w)
	write(leandir, "Versions", w.String())

	w.Reset()
	root.structTags("unredactableEventFieldsV1", &w)
	root.structTags("unredactableEventFieldsV2", &w)
	for _, n := range []string{"unredactableContentFieldsV1", "unredactableContentFieldsV2", "unredactableContentFieldsV3", "unredactableContentFieldsV4", "unredactableContentFieldsV5"} {
		root.stringListMap(n, &w)
	}
	root.redactFuncs(&w)
	write(leandir, "Redact", w.String())

	w.Reset()
	root.constsOut("root", &w)
	specp.constsOut("spec", &w)
	fcl.constsOut("fclient", &w)
	tok.constsOut("tokens", &w)
	write(leandir, "Consts", w.String())

	// per-area emitters (tools/extract/<area>.go register themselves in init())
	names := make([]string, 0, len(emitters))
	for n := range emitters {
		names = append(names, n)
	}
	sort.Strings(names)
	pk := &Pkgs{Root: root, Spec: specp, Fclient: fcl, Tokens: tok, Repo: repo}
	if pins {
		writePins(pk, leandir)
		return
	}
	for _, n := range names {
		w.Reset()
		emitters[n](pk, &w)
		write(leandir, n, w.String())
	}
}

// Pkgs are the parsed packages of /repo handed to the emitters.
type Pkgs struct {
	Root, Spec, Fclient, Tokens *pkg
	Repo                        string
}

// emitters maps a VGen module name (file lean/VGen/<name>.lean, namespace VGen) to the function
// that writes its body. An emitter calls fail(...) when the source has left the subset it understands.
var emitters = map[string]func(p *Pkgs, w *strings.Builder){}
