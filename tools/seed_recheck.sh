#!/bin/bash
# usage: seed_recheck.sh <seed-id> [quick-only]  — re-runs only the property's checks against a stored seeded change (the
# build / suite / demonstration confirmation of seed_confirm.sh is kept as recorded) and updates caught_by + tails in meta.json.
set -u
ID=$1; QO=${2:-}
P=${ID%%-*}
cd "$(dirname "$0")/.."
D=seeded/$ID
[ -f $D/patch.diff ] || { echo "RESULT $ID: no patch"; exit 0; }
export GOFLAGS=-mod=mod GOPROXY=off GOSUMDB=off GOTOOLCHAIN=local
WT=$(mktemp -d /tmp/seedrc_XXXXXX); rmdir $WT
git -C /repo worktree add -q $WT HEAD
cleanup() { git -C /repo worktree remove --force $WT 2>/dev/null; git -C /repo worktree prune; }
trap cleanup EXIT
if ! (cd $WT && (git apply /verif/$D/patch.diff 2>/dev/null || patch -p1 -s -F3 --no-backup-if-mismatch < /verif/$D/patch.diff >/dev/null 2>&1) && go build ./... >/dev/null 2>&1); then
  echo "RESULT $ID: patch does not apply / build any more"; exit 0
fi
E=/tmp/verif_scratch_evidence_$$; R=/tmp/verif_scratch_replays_$$
QUICK=$(VERIF_EVIDENCE_DIR=$E VERIF_REPLAY_DIR=$R VERIF_REPO=$WT ./check $P quick 2>&1 | tail -4)
kind() { if echo "$1" | grep VIOLATION | grep -qv no-failing-input-found; then echo concrete; elif echo "$1" | grep -q VIOLATION; then echo tie-only; else echo none; fi; }
KQ=$(kind "$QUICK"); CAUGHT="quick:$KQ"; THOR=""
if [ "$KQ" != concrete ]; then
  if [ -z "$QO" ]; then
    THOR=$(VERIF_EVIDENCE_DIR=$E VERIF_REPLAY_DIR=$R VERIF_REPO=$WT ./check $P thorough 2>&1 | tail -4)
    KT=$(kind "$THOR")
  else KT=none; fi
  if [ "$KT" = concrete ]; then CAUGHT="thorough:concrete"; elif [ "$KQ" = tie-only ] || [ "$KT" = tie-only ]; then CAUGHT="tie-only"; else CAUGHT=missed; fi
fi
rm -rf $E $R
python3 - "$D/meta.json" "$CAUGHT" "$QUICK" "$THOR" <<'PY'
import json,sys
p,caught,quick,thor=sys.argv[1:]
m=json.load(open(p))
m.pop('applies',None)
m['caught_by']=caught; m['check_quick_tail']=quick.split("\n"); m['check_thorough_tail']=thor.split("\n") if thor else []
json.dump(m,open(p,'w'),indent=1)
PY
echo "RESULT $ID: caught=$CAUGHT"
