#!/bin/sh
# Re-pin the source skeletons: run after the models have been (re)validated against the current /repo
# (all checks green). Writes lean/VPins/*.lean, lean/VProps/Pin*.lean, lean/VAudit/Pin*.lean.
set -e
cd "$(dirname "$0")/.."
export GOFLAGS=-mod=mod GOPROXY=off GOSUMDB=off GOTOOLCHAIN=local
mkdir -p work/bin
(cd tools/extract && go build -o ../../work/bin/vextract .)
work/bin/vextract -pins "${VERIF_REPO:-/repo}" lean
echo pinned
