#!/bin/bash
# usage: tools/seed_round.sh <prefix e.g. /tmp/mut8_> <suffix e.g. r8> <parallel> <wait-minutes> <prop>...
# Like seed_queue.sh, but waits (polling) until <prefix><prop>/out/DONE exists for each property, so that it can be
# started (e.g. under `vp run` from a snapshot after ./setup.sh) while the sub-agents are still writing their changes.
PFX=$1; SUF=$2; PAR=$3; WAITM=$4; shift 4
cd "$(dirname "$0")/.."
todo="$*"; deadline=$(( $(date +%s) + WAITM*60 ))
emit() { p=$1; for i in 1 2 3; do
  d=$PFX$p/out/m$i
  [ -f $d/patch.diff ] && [ -f $d/demo_test.go ] || continue
  pk=$(grep -m1 '^package ' $d/demo_test.go | awk '{print $2}')
  case "$pk" in fclient*) sub=fclient;; spec*) sub=spec;; tokens*) sub=tokens;; *) sub=.;; esac
  echo "$p $d $p-${SUF}m$i $sub"
done; }
while [ -n "$todo" ] && [ $(date +%s) -lt $deadline ]; do
  next=""
  for p in $todo; do
    if [ -f $PFX$p/out/DONE ]; then emit $p; else next="$next $p"; fi
  done
  todo=$next
  [ -n "$todo" ] && sleep 20
done | xargs -P $PAR -L 1 ./seed_confirm.sh 2>&1 | grep --line-buffered RESULT
