#!/bin/bash
# usage: seed_queue.sh <round-prefix e.g. /tmp/mut2_> <id-suffix e.g. r2> <parallel> <prop>...
# Confirms out/m1..m3 of each listed property's mutation worktree with seed_confirm.sh, N at a time.
PFX=$1; SUF=$2; PAR=$3; shift 3
cd "$(dirname "$0")/.."
for p in "$@"; do for i in 1 2 3; do
  d=$PFX$p/out/m$i
  [ -f $d/patch.diff ] || continue
  pk=$(grep -m1 '^package ' $d/demo_test.go | awk '{print $2}')
  case "$pk" in fclient*) sub=fclient;; spec*) sub=spec;; tokens*) sub=tokens;; *) sub=.;; esac
  echo "$p $d $p-${SUF}m$i $sub"
done; done | xargs -P $PAR -L 1 ./seed_confirm.sh 2>&1 | grep --line-buffered RESULT
