#!/bin/bash
# usage: seed_reconfirm.sh <parallel> [id-glob]   — re-runs seed_confirm.sh for every stored seeded change against the
# current /repo and /verif (meta.json is rewritten). A change whose patch no longer applies (the code it touched was
# repaired since) keeps its files; meta.json gets "applies": false and its previous result under "previous".
PAR=${1:-4}; GLOB=${2:-*}
cd "$(dirname "$0")/.."
rm -rf /tmp/reseed; mkdir -p /tmp/reseed
for d in seeded/$GLOB; do
  id=$(basename $d); p=${id%%-*}
  [ -f $d/patch.diff ] || continue
  cp -r $d /tmp/reseed/$id
  pk=$(grep -m1 '^package ' $d/demo_test.go | awk '{print $2}')
  case "$pk" in fclient*) sub=fclient;; spec*) sub=spec;; tokens*) sub=tokens;; *) sub=.;; esac
  echo "$p /tmp/reseed/$id $id $sub"
done | grep -v '^RESULT' | xargs -P $PAR -L 1 ./seed_confirm.sh 2>&1 | grep --line-buffered RESULT
rm -rf /tmp/reseed
