#!/bin/bash
# usage: seed_reconfirm.sh <parallel> [id-glob]   — re-runs seed_confirm.sh for every stored seeded change against the
# current /repo and /verif (meta.json is rewritten). A change whose patch no longer applies (the code it touched was
# repaired since) keeps its files; meta.json gets "applies": false and its previous result under "previous".
PAR=${1:-4}; GLOB=${2:-*}
cd "$(dirname "$0")/.."
rm -rf /tmp/reseed; mkdir -p /tmp/reseed
for d in seeded/$GLOB; do
  id=$(basename $d); p=${id%%-*}
  [ -f $d/patch.diff ] || continue
  cp -r $d /tmp/reseed/$id
  if ! git -C /repo apply --check $d/patch.diff 2>/dev/null; then
    python3 - $d <<'PY'
import json,sys
p=sys.argv[1]+'/meta.json'
try: m=json.load(open(p))
except Exception: m={}
if m.get('applies') is not False:
    m={'property':m.get('property'),'id':m.get('id'),'applies':False,'note':'the patch no longer applies to /repo HEAD: the code it changed was repaired since (see known_findings.txt)','previous':{k:m.get(k) for k in ('caught_by','check_quick_tail','check_thorough_tail')}}
    json.dump(m,open(p,'w'),indent=1)
PY
    echo "RESULT $id: patch does not apply (kept, marked)"
    continue
  fi
  pk=$(grep -m1 '^package ' $d/demo_test.go | awk '{print $2}')
  case "$pk" in fclient*) sub=fclient;; spec*) sub=spec;; tokens*) sub=tokens;; *) sub=.;; esac
  echo "$p /tmp/reseed/$id $id $sub"
done | grep -v '^RESULT' | xargs -P $PAR -L 1 ./seed_confirm.sh 2>&1 | grep --line-buffered RESULT
rm -rf /tmp/reseed
