#!/usr/bin/env python3
"""Prints the DESIGN.md §13 table from seeded/*/meta.json and the first line of each README."""
import glob, json, os, re
here = os.path.join(os.path.dirname(os.path.abspath(__file__)), "..", "seeded")
rows = []
for d in sorted(glob.glob(os.path.join(here, "*"))):
    try:
        m = json.load(open(os.path.join(d, "meta.json")))
    except (OSError, ValueError):
        continue
    what = ""
    try:
        for l in open(os.path.join(d, "patch.diff")):
            if l.startswith("+++ b/"):
                what = l[6:].strip(); break
    except OSError:
        pass
    title = ""
    try:
        for l in open(os.path.join(d, "README.md")):
            l = l.strip()
            if l:
                title = re.sub(r"^#+\s*", "", l); break
    except OSError:
        pass
    tail = (m.get("check_quick_tail") or [""])[-1]
    if m.get("check_thorough_tail"):
        tail = m["check_thorough_tail"][-1]
    mm = re.search(r"(\d+)/(\d+) obligations.* (\d+) violations, (\d+) tie", tail)
    detail = "%s/%s obligations, %s concrete, %s ties" % mm.groups() if mm else ""
    rows.append((m["id"], what, title[:110], m.get("caught_by", "?"), detail))
print("| seed | file | change | caught by | last run |")
print("|---|---|---|---|---|")
for r in rows:
    print("| %s | `%s` | %s | %s | %s |" % r)
