package main

import (
	"encoding/json"
	"fmt"
	"strings"

	gmsl "github.com/matrix-org/gomatrixserverlib"
	"github.com/matrix-org/gomatrixserverlib/spec"
)

// Ev is one generated event: the real PDU plus what the driver needs (ID and canonical JSON).
type Ev struct {
	PDU  gmsl.PDU
	ID   string
	JSON []byte
}

func (e *Ev) Arg() string { return hx([]byte(e.ID)) + ":" + hx(e.JSON) }

var b64url = "ABCDEFGHIJKLMNOPQRSTUVWXYZabcdefghijklmnopqrstuvwxyz0123456789-_"

func (r *Rng) id43() string {
	var sb strings.Builder
	for i := 0; i < 43; i++ {
		sb.WriteByte(b64url[r.Intn(64)])
	}
	return sb.String()
}

func verFormat(ver string) (eventFormat int, v3 bool) {
	v := gmsl.MustGetRoomVersion(gmsl.RoomVersion(ver))
	return int(v.EventFormat()), v.DomainlessRoomIDs()
}

// RoomGen builds events for one room of one version.
type RoomGen struct {
	r      *Rng
	Ver    string
	RoomID string
	n      int
	fmtV   int
	v3     bool
	Create *Ev
}

func NewRoomGen(r *Rng, ver string) *RoomGen {
	f, v3 := verFormat(ver)
	g := &RoomGen{r: r, Ver: ver, fmtV: f, v3: v3, RoomID: "!room:hs1"}
	return g
}

func (g *RoomGen) nextID(domain string) string {
	g.n++
	switch {
	case g.v3 || g.fmtV == 2:
		return "$" + g.r.id43()
	default:
		return fmt.Sprintf("$e%d:%s", g.n, domain)
	}
}

func (g *RoomGen) refs(ids []string) interface{} {
	if g.fmtV == 1 {
		out := make([]interface{}, 0, len(ids))
		for _, id := range ids {
			out = append(out, []interface{}{id, map[string]interface{}{"sha256": "47DEQpj8HBSa+/TImW+5JCeuQeRkm5NMpJWZG3hSuFU"}})
		}
		return out
	}
	if ids == nil {
		return []string{}
	}
	return ids
}

// Mk builds an event from explicit fields. content may be any JSON-marshalable value or json.RawMessage;
// stateKey nil = not a state event. extra are additional top-level members. Returns nil if the library refuses it.
func (g *RoomGen) Mk(typ string, sender string, stateKey *string, content interface{}, prev, auth []string, extra map[string]interface{}) *Ev {
	return g.MkID(g.nextID(domainOf(sender)), typ, sender, stateKey, content, prev, auth, extra)
}

// MkID is Mk with a chosen event ID (the trusted constructors take the ID as given: two different events can carry one ID).
func (g *RoomGen) MkID(id string, typ string, sender string, stateKey *string, content interface{}, prev, auth []string, extra map[string]interface{}) *Ev {
	m := map[string]interface{}{
		"type": typ, "sender": sender, "room_id": g.RoomID, "content": content,
		"origin_server_ts": 1000 + g.n, "depth": g.n,
		"prev_events": g.refs(prev), "auth_events": g.refs(auth),
	}
	if g.fmtV == 1 {
		m["event_id"] = id
	}
	if stateKey != nil {
		m["state_key"] = *stateKey
	}
	isCreate := typ == spec.MRoomCreate && stateKey != nil && *stateKey == ""
	if g.v3 && isCreate {
		delete(m, "room_id")
	}
	for k, v := range extra {
		if v == nil {
			delete(m, k)
		} else {
			m[k] = v
		}
	}
	raw, err := json.Marshal(m)
	if err != nil {
		return nil
	}
	cj, err := gmsl.CanonicalJSON(raw)
	if err != nil {
		return nil
	}
	v := gmsl.MustGetRoomVersion(gmsl.RoomVersion(g.Ver))
	pdu, err := v.NewEventFromTrustedJSONWithEventID(id, cj, false)
	if err != nil {
		return nil
	}
	return &Ev{PDU: pdu, ID: id, JSON: cj}
}

func domainOf(user string) string {
	if i := strings.IndexByte(user, ':'); i >= 0 {
		return user[i+1:]
	}
	return "hs1"
}

func sp(s string) *string { return &s }

// MkCreate makes the create event; for domainless versions the room ID is derived from its ID.
func (g *RoomGen) MkCreate(creator string, content map[string]interface{}) *Ev {
	e := g.Mk(spec.MRoomCreate, creator, sp(""), content, nil, nil, nil)
	if e != nil && g.v3 {
		g.RoomID = "!" + e.ID[1:]
	}
	g.Create = e
	return e
}

// StdQuerier is the standard userIDForSender.
func StdQuerier(roomID spec.RoomID, senderID spec.SenderID) (*spec.UserID, error) {
	return spec.NewUserID(string(senderID), true)
}

func coarse(err error) string {
	if err == nil {
		return "ok"
	}
	return "rej"
}
