package main

// Area b64 (C17): spec.Base64Bytes Encode / Decode / MarshalJSON / UnmarshalJSON, both alphabets.

import (
	"bytes"
	"strings"

	"github.com/matrix-org/gomatrixserverlib/spec"
)

func init() { areas["b64"] = Area{Gen: genB64, Exec: execB64} }

func execB64(op string, args []string) string {
	switch op {
	case "decode":
		var b spec.Base64Bytes
		if err := b.Decode(string(unhx(args[0]))); err != nil {
			return "err"
		}
		return "ok:" + hx(b)
	case "encode":
		return "ok:" + hx([]byte(spec.Base64Bytes(unhx(args[0])).Encode()))
	case "reenc":
		var b, b2 spec.Base64Bytes
		if err := b.Decode(string(unhx(args[0]))); err != nil {
			return "err"
		}
		t := b.Encode()
		same := "differs"
		if err := b2.Decode(t); err == nil && bytes.Equal(b, b2) {
			same = "same"
		}
		return "ok:" + hx(b) + ":" + hx([]byte(t)) + ":" + same
	case "unmarshal":
		var b spec.Base64Bytes
		if err := b.UnmarshalJSON(unhx(args[0])); err != nil {
			return "err"
		}
		return "ok:" + hx(b)
	case "marshal":
		out, err := spec.Base64Bytes(unhx(args[0])).MarshalJSON()
		if err != nil {
			return "err"
		}
		return "ok:" + hx(out)
	}
	return "bad-op"
}

const b64Std = "ABCDEFGHIJKLMNOPQRSTUVWXYZabcdefghijklmnopqrstuvwxyz0123456789+/"
const b64URL = "ABCDEFGHIJKLMNOPQRSTUVWXYZabcdefghijklmnopqrstuvwxyz0123456789-_"

func (r *Rng) b64RandBytes(n int) []byte {
	b := make([]byte, n)
	for i := range b {
		switch r.Intn(6) {
		case 0:
			b[i] = 0
		case 1:
			b[i] = 0xff
		case 2:
			b[i] = Pick(r, []byte{0xfb, 0xef, 0xbe, 0x3e, 0x3f, 0xfa, 0xf8}) // bytes that yield '+', '/', '-', '_'
		default:
			b[i] = byte(r.Intn(256))
		}
	}
	return b
}

func genB64(o *Out, tier string, r *Rng) {
	thorough := tier == "thorough"
	dec := func(s string) {
		res := o.Do("decode", hx([]byte(s)))
		o.Do("reenc", hx([]byte(s)))
		if res == "err" {
			o.Count("decode.rejected")
		} else {
			o.Count("decode.accepted")
		}
		o.Count("decode.len%4=" + istr(len(s)%4))
	}
	um := func(raw string) {
		res := o.Do("unmarshal", hx([]byte(raw)))
		if res == "err" {
			o.Count("unmarshal.rejected")
		} else {
			o.Count("unmarshal.accepted")
		}
	}
	// 1. every byte string of length 0..2 (thorough: all pairs; quick: a sample), random longer ones
	o.Do("encode", "-")
	o.Do("marshal", "-")
	for a := 0; a < 256; a++ {
		o.Do("encode", hx([]byte{byte(a)}))
		if thorough {
			for b := 0; b < 256; b++ {
				if b%3 == a%3 {
					o.Do("encode", hx([]byte{byte(a), byte(b)}))
				}
			}
		}
	}
	n := 600
	if thorough {
		n = 25000
	}
	for i := 0; i < n; i++ {
		k := r.Intn(40)
		if r.Chance(10) {
			k = 32 // sha256 / ed25519 key sizes
		}
		if r.Chance(3) {
			k = 64
		}
		b := r.b64RandBytes(k)
		o.Do("encode", hx(b))
		if r.Chance(30) {
			o.Do("marshal", hx(b))
		}
		// decode what the two encoders produce, canonical and with mutations
		std := spec.Base64Bytes(b).Encode()
		url := strings.NewReplacer("+", "-", "/", "_").Replace(std)
		dec(std)
		dec(url)
		um("\"" + std + "\"")
		um("\"" + url + "\"")
		if len(std) > 0 {
			p := r.Intn(len(std))
			// non-canonical trailing bits, foreign characters, padding, whitespace, mixed alphabets
			for _, c := range []string{"=", "\n", "\r", " ", "\t", "-", "_", "+", "/", ".", "\x00", "\x80", "é", "A", "B", "/"} {
				if r.Chance(25) {
					dec(std[:p] + c + std[p+1:])
					dec(std[:p] + c + std[p:])
				}
			}
			dec(std[:len(std)-1])
			dec(std + "=")
			dec(std + "==")
			dec(url + "+")
			dec(std + "-")
			dec(std + "\n")
			dec("\r\n" + std)
			last := std[len(std)-1]
			idx := strings.IndexByte(b64Std, last)
			dec(std[:len(std)-1] + string(b64Std[(idx+1)%64])) // other trailing bits
			dec(url[:len(url)-1] + string(b64URL[(idx+3)%64]))
		}
		if i < 4 {
			o.Sample("decode " + std)
		}
	}
	// 2. bounded-exhaustive texts over a small alphabet (both alphabets' special characters, a newline, padding)
	alpha := []byte("AQ/+-_=\n")
	maxLen := 4
	if thorough {
		maxLen = 6
	}
	enumerate(alpha, maxLen, func(s string) { dec(s) })
	o.Stats["exhaustive.decode.maxlen"] = maxLen
	// every single character as a 2-character text: which bytes are in the alphabets
	for c := 0; c < 256; c++ {
		dec("A" + string([]byte{byte(c)}))
		dec("-" + string([]byte{byte(c)}))
	}
	// 3. JSON forms
	for _, raw := range []string{
		`""`, `null`, ` null `, `"QUJD"`, ` "QUJD" `, "\t\"QUJD\"\n", `"QUJD" x`, `"QUJD",`, `"QUJD`, `QUJD`, `'QUJD'`, `["QUJD"]`, `{"a":"QUJD"}`, `1`, `true`, `false`,
		`"QUJD"`, `"QUJD"`, `"J"`, `"QUJD\n"`, `"QUJD\r\n"`, `"QU\nJD"`, "\"QU\nJD\"", `"QUJD\u000a"`, `"QUJD\t"`, `"QUJD "`,
		`"a\/b"`, `"a/b+"`, `"a\/b\/"`, `"-_-_"`, `"-_+\/"`, `"-_"`, `"😀"`, `"\ud83d"`, `"é"`, "\"é\"", "\"\xff\"", `"\x41"`, `"\u00zz"`, `"\u004"`, `"\`, `"\"`,
		`"QUJD"null`, `nul`, `nulll`, `"QQ=="`, `"QQ"`, `"Q"`, `"QUI"`, `"QUJDRA"`, ``, ` `, `""""`, `"\b"`, `"\f"`, `"\\"`, `"\""`, "\"\x1f\"", "\"\x7f\"",
	} {
		um(raw)
	}
	for i := 0; i < n/4; i++ {
		b := r.b64RandBytes(r.Intn(12))
		std := spec.Base64Bytes(b).Encode()
		// escape some characters
		var sb strings.Builder
		sb.WriteByte('"')
		for _, c := range []byte(std) {
			switch {
			case c == '/' && r.Chance(50):
				sb.WriteString(`\/`)
			case r.Chance(10):
				sb.WriteString(`\u00` + string("0123456789abcdef"[c>>4]) + string("0123456789ABCDEF"[c&15]))
			case r.Chance(3):
				sb.WriteString(Pick(r, []string{`\n`, `\r`, `\t`, `\\`, `\"`, " ", "\n", `\u000A`, `\u000d`, `\b`}))
				sb.WriteByte(c)
			default:
				sb.WriteByte(c)
			}
		}
		sb.WriteByte('"')
		raw := sb.String()
		if r.Chance(20) {
			raw = Pick(r, []string{" ", "\n", "\t\r "}) + raw + Pick(r, []string{" ", "\n", "", "x", ","})
		}
		um(raw)
	}
}
