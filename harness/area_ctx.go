package main

import (
	"strconv"
	"strings"

	gmsl "github.com/matrix-org/gomatrixserverlib"
	"github.com/matrix-org/gomatrixserverlib/spec"
)

func init() { areas["ctx"] = Area{Gen: genCtx, Exec: execCtx} }

// ctx.seq <ver> <providers: p0|p1|..  each = ev,ev,..> <events: ev,ev,..> <steps: u<i> | a<j>:<sig> | m<i>:<j> | c<i> | f<i>:<j>:<sig>>
// outcome: verdict of every a-step, comma separated. The checker is ONE allowerContext for the whole sequence
// (created by the first u-step), exactly as state resolution reuses it.
func execCtx(op string, args []string) string {
	if op == "needed" {
		return execNeeded(args) // C09: full / shuffled+extended / restricted-to-needed providers (gen_authneeded.go)
	}
	if op == "addauth" {
		return execAddAuth(args) // C09: the real EventBuilder.AddAuthEvents selection (gen_authneeded.go)
	}
	if op != "seq" {
		return "bad-op"
	}
	ver := args[0]
	var provs []*gmsl.AuthEvents
	for _, p := range strings.Split(args[1], "|") {
		var evs []gmsl.PDU
		if p != "-" && p != "" {
			for _, a := range strings.Split(p, ",") {
				e, err := parseEvArg(ver, a)
				if err != nil {
					return "err:construct"
				}
				evs = append(evs, e)
			}
		}
		ae, err := gmsl.NewAuthEvents(evs)
		if err != nil {
			return "err:provider"
		}
		provs = append(provs, ae)
	}
	var evs []gmsl.PDU
	for _, a := range strings.Split(args[2], ",") {
		e, err := parseEvArg(ver, a)
		if err != nil {
			return "err:construct"
		}
		evs = append(evs, e)
	}
	var ctx *gmsl.VerifAllowerContext
	var out []string
	for _, st := range strings.Split(args[3], ",") {
		switch st[0] {
		case 'u':
			i, _ := strconv.Atoi(st[1:])
			if ctx == nil {
				ctx = gmsl.VerifNewAllowerContext(provs[i], StdQuerier, evs[0].RoomID())
			} else {
				ctx.Update(provs[i])
			}
		case 'c':
			i, _ := strconv.Atoi(st[1:])
			provs[i].Clear()
		case 'm':
			parts := strings.Split(st[1:], ":")
			i, _ := strconv.Atoi(parts[0])
			j, _ := strconv.Atoi(parts[1])
			if err := provs[i].AddEvent(evs[j]); err != nil {
				out = append(out, "adderr")
			}
		case 'a':
			parts := strings.Split(st[1:], ":")
			j, _ := strconv.Atoi(parts[0])
			out = append(out, coarse(ctx.Allowed(evs[j])))
		case 'f':
			// f<i>:<j>:<sig> — the standalone Allowed(event j, provider OBJECT i) (whatever the object remembers)
			parts := strings.Split(st[1:], ":")
			i, _ := strconv.Atoi(parts[0])
			j, _ := strconv.Atoi(parts[1])
			out = append(out, coarse(gmsl.Allowed(evs[j], provs[i], StdQuerier)))
		}
	}
	return strings.Join(out, ",")
}

func evArgs(evs []*Ev) string {
	if len(evs) == 0 {
		return "-"
	}
	var a []string
	for _, e := range evs {
		a = append(a, e.Arg())
	}
	return strings.Join(a, ",")
}

// ctxWitnesses (tier "witness", run by hand to regenerate corpus/C09/ctx.ops): the inputs of the defects A5 / A6.
func ctxWitnesses(o *Out, r *Rng) {
	cr := "@c:hs1"
	g := NewRoomGen(r, "10")
	createA := g.MkCreate(cr, map[string]interface{}{"creator": cr, "room_version": "10"})
	plA := g.Mk(spec.MRoomPowerLevels, cr, sp(""), map[string]interface{}{"users": map[string]interface{}{cr: 100}}, nil, nil, nil)
	joinA := memberEv(g, "@b:hs1", "join")
	msg := g.Mk("m.room.message", "@b:hs1", nil, map[string]interface{}{"body": "x"}, []string{"$p:hs1"}, nil, nil)
	g2 := NewRoomGen(r, "10")
	g2.RoomID = "!elsewhere:hs1"
	joinB := memberEv(g2, "@b:hs1", "join")
	evs := evArgs([]*Ev{msg, createA, plA, joinB, joinA})
	// A5: the sender's only membership event is a join in ANOTHER room; one reused checker, updated with that provider
	o.Count("witness.A5." + o.Do("seq", "10", evArgs([]*Ev{createA, plA, joinB}), evs, "u0,a0:0,f0:0:0"))
	// A5, as state resolution drives it: one provider object, Clear + AddEvent + update + check
	o.Count("witness.A5b." + o.Do("seq", "10", "-", evs, "u0,c0,m0:1,m0:2,m0:3,u0,a0:0"))
	// A6: a provider that once held an event of another room, cleared, then filled with one-room state
	o.Count("witness.A6." + o.Do("seq", "10", evArgs([]*Ev{joinB}), evs, "c0,m0:1,m0:2,m0:4,f0:0:0"))
}

func genCtx(o *Out, tier string, r *Rng) {
	if tier == "witness" {
		ctxWitnesses(o, r)
		genAuthNeeded(o, tier, r)
		return
	}
	n := 1200
	if tier == "thorough" {
		n = 40000
	}
	for i := 0; i < n; i++ {
		ver := Pick(r, allVersions)
		verImpl := gmsl.MustGetRoomVersion(gmsl.RoomVersion(ver))
		g := NewRoomGen(r, ver)
		creator := authUsers[0]
		cc := map[string]interface{}{"room_version": ver}
		if !verImpl.PrivilegedCreators() {
			cc["creator"] = creator
		}
		create := g.MkCreate(creator, cc)
		if create == nil {
			continue
		}
		// variants of the cached events
		mkPL := func() *Ev {
			c := r.genCleanPL(authUsers, !verImpl.PrivilegedCreators())
			if r.Chance(15) {
				c["ban"] = "x" // unparseable
			}
			return g.Mk(spec.MRoomPowerLevels, creator, sp(""), c, nil, nil, nil)
		}
		mkJR := func() *Ev {
			c := map[string]interface{}{"join_rule": Pick(r, []string{"restricted", "knock_restricted", "public", "invite", "knock"})}
			if r.Chance(10) {
				c["join_rule"] = 5 // unparseable
			}
			return g.Mk(spec.MRoomJoinRules, creator, sp(""), c, nil, nil, nil)
		}
		badCreate := g.Mk(spec.MRoomCreate, creator, sp(""), map[string]interface{}{"creator": 5, "m.federate": "no"}, nil, nil, nil)
		members := []*Ev{}
		for _, u := range authUsers {
			m := Pick(r, []string{"join", "join", "leave", "invite", "ban", "knock"})
			if u == creator {
				m = "join"
			}
			if e := g.Mk(spec.MRoomMember, u, sp(u), map[string]interface{}{"membership": m}, nil, nil, nil); e != nil {
				members = append(members, e)
			}
		}
		// providers
		np := 1 + r.Intn(3)
		var provs [][]*Ev
		for p := 0; p < np; p++ {
			var evs []*Ev
			switch r.Intn(10) {
			case 0:
				// no create event at all
			case 1:
				if badCreate != nil {
					evs = append(evs, badCreate)
				}
			default:
				evs = append(evs, create)
			}
			if r.Chance(80) {
				if e := mkPL(); e != nil {
					evs = append(evs, e)
				}
			}
			if r.Chance(85) {
				if e := mkJR(); e != nil {
					evs = append(evs, e)
				}
			}
			for _, m := range members {
				if r.Chance(85) {
					evs = append(evs, m)
				}
			}
			provs = append(provs, evs)
		}
		// events under test
		var evs []*Ev
		ne := 2 + r.Intn(5)
		for k := 0; k < ne; k++ {
			sender := Pick(r, authUsers)
			var e *Ev
			switch r.Intn(6) {
			case 0, 1, 2: // joins, with and without authoriser
				c := map[string]interface{}{"membership": "join"}
				if r.Chance(55) {
					c["join_authorised_via_users_server"] = Pick(r, authUsers)
				}
				e = g.Mk(spec.MRoomMember, sender, sp(sender), c, []string{"$p:hs1"}, nil, nil)
			case 3:
				e = g.Mk("m.room.message", sender, nil, map[string]interface{}{"body": "x"}, []string{"$p:hs1"}, nil, nil)
			case 4:
				e = mkPL()
			case 5:
				e = mkJR()
			}
			if e != nil {
				evs = append(evs, e)
			}
		}
		if len(evs) == 0 {
			continue
		}
		// steps
		var steps []string
		cur := r.Intn(np)
		steps = append(steps, "u"+strconv.Itoa(cur))
		ns := 2 + r.Intn(8)
		for k := 0; k < ns; k++ {
			switch r.Intn(10) {
			case 0, 1:
				cur = r.Intn(np)
				steps = append(steps, "u"+strconv.Itoa(cur))
			case 2:
				// state resolution's pattern: add an accepted state event to the provider, then update
				j := r.Intn(len(evs))
				if evs[j].PDU.StateKey() != nil {
					steps = append(steps, "m"+strconv.Itoa(cur)+":"+strconv.Itoa(j), "u"+strconv.Itoa(cur))
				}
			default:
				steps = append(steps, "a"+strconv.Itoa(r.Intn(len(evs)))+":0")
			}
		}
		if r.Chance(50) {
			// state resolution's pattern: ONE provider object; for every checked event: Clear, add the state it
			// needs (a varying subset: sometimes no join rules / power levels / create at all), update, check
			pool := append([]*Ev{}, provs[0]...)
			for _, p := range provs[1:] {
				pool = append(pool, p...)
			}
			base := len(evs)
			evs = append(evs, pool...) // pool events are addressed by index base+k
			steps = []string{"u0"}
			for k := 0; k < 3+r.Intn(6); k++ {
				steps = append(steps, "c0")
				for pi := range pool {
					if r.Chance(45) {
						steps = append(steps, "m0:"+strconv.Itoa(base+pi))
					}
				}
				steps = append(steps, "u0", "a"+strconv.Itoa(r.Intn(base))+":0")
			}
		}
		if r.Chance(25) {
			// toggle pattern: the SAME create / power-levels / join-rules event object is present, then absent (nothing of
			// its type in the provider), then present again, with the same events checked after each refresh — a checker
			// that remembers "already parsed" by object identity must notice the gap
			pool := append([]*Ev{}, provs[0]...)
			for _, p := range provs[1:] {
				pool = append(pool, p...)
			}
			typ := Pick(r, []string{spec.MRoomPowerLevels, spec.MRoomCreate, spec.MRoomJoinRules})
			toggled := -1
			for pi, e := range pool {
				if e.PDU.Type() == typ && e.PDU.StateKeyEquals("") {
					toggled = pi
					break
				}
			}
			if toggled >= 0 {
				base := len(evs)
				evs = append(evs, pool...)
				steps = []string{"u0"}
				checks := []int{r.Intn(base), r.Intn(base), r.Intn(base)}
				for _, present := range []bool{true, false, true, true, false, true} {
					steps = append(steps, "c0")
					seen := map[string]bool{}
					for pi, e := range pool {
						if e.PDU.Type() == typ {
							continue
						}
						k := e.PDU.Type() + "\x00" + *e.PDU.StateKey()
						if !seen[k] {
							seen[k] = true
							steps = append(steps, "m0:"+strconv.Itoa(base+pi))
						}
					}
					if present {
						steps = append(steps, "m0:"+strconv.Itoa(base+toggled))
					}
					steps = append(steps, "u0")
					for _, c := range checks {
						steps = append(steps, "a"+strconv.Itoa(c)+":0")
					}
				}
				o.Count("pattern.toggle." + typ)
			}
		}
		if r.Chance(20) {
			// same-ID pattern: two DIFFERENT events carrying ONE event ID (the trusted constructors take the ID as given; in
			// versions 1 and 2 it is a free JSON field) on the power-levels / join-rules slot, swapped between refreshes of
			// one provider object, with checks whose verdict depends on the differing content after each refresh - a checker
			// that decides "already parsed" by event ID instead of by object keeps the first content
			typ := Pick(r, []string{spec.MRoomPowerLevels, spec.MRoomJoinRules})
			id := g.nextID("hs1")
			var ea, eb *Ev
			var probe *Ev
			u := Pick(r, authUsers[1:])
			if typ == spec.MRoomPowerLevels {
				users := map[string]interface{}{}
				if !verImpl.PrivilegedCreators() {
					users[creator] = 100
				}
				ea = g.MkID(id, typ, creator, sp(""), map[string]interface{}{"users": users, "events_default": 0}, nil, nil, nil)
				eb = g.MkID(id, typ, creator, sp(""), map[string]interface{}{"users": users, "events_default": 50}, nil, nil, nil)
				probe = g.Mk("m.room.message", u, nil, map[string]interface{}{"body": "x"}, []string{"$p:hs1"}, nil, nil)
			} else {
				ea = g.MkID(id, typ, creator, sp(""), map[string]interface{}{"join_rule": "public"}, nil, nil, nil)
				eb = g.MkID(id, typ, creator, sp(""), map[string]interface{}{"join_rule": "invite"}, nil, nil, nil)
				probe = g.Mk(spec.MRoomMember, u, sp(u), map[string]interface{}{"membership": "join"}, []string{"$p:hs1"}, nil, nil)
			}
			um := g.Mk(spec.MRoomMember, u, sp(u), map[string]interface{}{"membership": Pick(r, []string{"join", "leave"})}, nil, nil, nil)
			if ea != nil && eb != nil && probe != nil && um != nil {
				var rest []*Ev
				for _, e := range distinctKeys(append([]*Ev{create, um}, provs[0]...)) {
					if e.PDU.Type() != typ {
						rest = append(rest, e)
					}
				}
				evs = append([]*Ev{probe}, rest...)
				ia := len(evs)
				evs = append(evs, ea, eb)
				steps = []string{"u0"}
				for _, which := range []int{0, 1, 1, 0, 1} {
					steps = append(steps, "c0")
					for k := range rest {
						steps = append(steps, "m0:"+strconv.Itoa(1+k))
					}
					steps = append(steps, "m0:"+strconv.Itoa(ia+which), "u0", "a0:0", "f0:0:0")
				}
				o.Count("pattern.sameid." + typ)
			}
		} else if r.Chance(20) {
			// foreign pattern: state resolution's Clear / AddEvent / update / check cycle in which some rounds also add an
			// event of ANOTHER room (a join of the sender, a permissive power-levels or join-rules event); every check is
			// made through the reused checker AND by the standalone Allowed on the same provider object, so a provider
			// that remembers a room it no longer holds, or a checker that never asks, shows
			g2 := NewRoomGen(r, ver)
			if g2.v3 {
				g2.MkCreate(creator, cc)
			} else {
				g2.RoomID = "!elsewhere:hs1"
			}
			var foreign []*Ev
			for _, u := range authUsers {
				if e := g2.Mk(spec.MRoomMember, u, sp(u), map[string]interface{}{"membership": "join"}, nil, nil, nil); e != nil {
					foreign = append(foreign, e)
				}
			}
			if e := g2.Mk(spec.MRoomPowerLevels, creator, sp(""), map[string]interface{}{"users_default": 100}, nil, nil, nil); e != nil {
				foreign = append(foreign, e)
			}
			if e := g2.Mk(spec.MRoomJoinRules, creator, sp(""), map[string]interface{}{"join_rule": "public"}, nil, nil, nil); e != nil {
				foreign = append(foreign, e)
			}
			pool := distinctKeys(provs[0])
			base := len(evs)
			evs = append(evs, pool...)
			fbase := len(evs)
			evs = append(evs, foreign...)
			steps = []string{"u0"}
			for k := 0; k < 3+r.Intn(5); k++ {
				steps = append(steps, "c0")
				for pi := range pool {
					if r.Chance(85) {
						steps = append(steps, "m0:"+strconv.Itoa(base+pi))
					}
				}
				if r.Chance(45) && len(foreign) > 0 {
					steps = append(steps, "m0:"+strconv.Itoa(fbase+r.Intn(len(foreign))))
				}
				j := strconv.Itoa(r.Intn(base))
				steps = append(steps, "u0", "a"+j+":0", "f0:"+j+":0")
			}
			o.Count("pattern.foreign")
		}
		var ps []string
		for _, p := range provs {
			ps = append(ps, evArgs(p))
		}
		res := o.Do("seq", ver, strings.Join(ps, "|"), evArgs(evs), strings.Join(steps, ","))
		if strings.Contains(res, "ok") {
			o.Count("has-accept")
		}
		if i < 3 {
			o.Sample(ver + " steps=" + strings.Join(steps, ","))
		}
	}
	genAuthNeeded(o, tier, r) // C09: verdict on full / shuffled+extended / restricted-to-needed providers (gen_authneeded.go)
}
