package main

// Area fedcheck (C14): CheckStateResponse, CheckSendJoinResponse, VerifyEventAuthChain,
// VerifyAuthRulesAtState, EventsLoader.LoadAndVerify, RequestBackfill run on responses built from small
// generated rooms, with a scripted JSONVerifier, EventProvider and StateProvider. Argument encodings
// are documented at the top of lean/VDriver/Fedcheck.lean.

import (
	"context"
	"crypto/sha256"
	"encoding/base64"
	"encoding/json"
	"errors"
	"fmt"
	"io"
	"sort"
	"strconv"
	"strings"

	gmsl "github.com/matrix-org/gomatrixserverlib"
	"github.com/matrix-org/gomatrixserverlib/spec"
	"github.com/sirupsen/logrus"
)

func init() {
	logrus.SetOutput(io.Discard)
	logrus.SetLevel(logrus.PanicLevel)
	areas["fedcheck"] = Area{Gen: genFedcheck, Exec: execFedcheck}
}

// ---------------------------------------------------------------- scripted oracles

// fcDiverge is raised by a scripted provider when the code under test keeps calling it: the
// `goto retryEvent` loop of checkAllowedByAuthEvents does not terminate.
type fcDiverge struct{}

const fcMaxCalls = 400

type fcVerifier struct{ bad map[string]bool }

func (v *fcVerifier) VerifyJSONs(ctx context.Context, reqs []gmsl.VerifyJSONRequest) ([]gmsl.VerifyJSONResult, error) {
	res := make([]gmsl.VerifyJSONResult, len(reqs))
	for i, r := range reqs {
		if v.bad[string(r.Message)] {
			res[i].Error = errors.New("bad signature (scripted)")
		}
	}
	return res, nil
}

type fcEnv struct {
	ver   string
	impl  gmsl.IRoomVersion
	pool  []gmsl.PDU
	first map[string]int
	log   []string
	calls int
}

func newFcEnv(ver, pool string) (*fcEnv, error) {
	impl, err := gmsl.GetRoomVersion(gmsl.RoomVersion(ver))
	if err != nil {
		return nil, err
	}
	env := &fcEnv{ver: ver, impl: impl, first: map[string]int{}}
	for _, a := range splitList(pool, ",") {
		e, err := parseEvArg(ver, a)
		if err != nil {
			return nil, err
		}
		if _, ok := env.first[e.EventID()]; !ok {
			env.first[e.EventID()] = len(env.pool)
		}
		env.pool = append(env.pool, e)
	}
	return env, nil
}

func splitList(s, sep string) []string {
	if s == "-" || s == "" {
		return nil
	}
	return strings.Split(s, sep)
}

func natList(s string) []int {
	var out []int
	for _, x := range splitList(s, ",") {
		n, _ := strconv.Atoi(x)
		out = append(out, n)
	}
	return out
}

func (env *fcEnv) showID(id string) string {
	if i, ok := env.first[id]; ok {
		return "#" + strconv.Itoa(i)
	}
	return "h" + hx([]byte(id))
}

func (env *fcEnv) showEvs(es []gmsl.PDU) string {
	var out []string
	for _, e := range es {
		out = append(out, env.showID(e.EventID()))
	}
	return strings.Join(out, ",")
}

// showEv identifies an EVENT (not just an ID): the first pool entry with the same ID and the same JSON. In room
// versions 1 and 2 two different events can carry one event ID, so the ID alone does not say which one came back.
func (env *fcEnv) showEv(e gmsl.PDU) string {
	for i, p := range env.pool {
		if p.EventID() == e.EventID() && string(p.JSON()) == string(e.JSON()) {
			return "#" + strconv.Itoa(i)
		}
	}
	return env.showID(e.EventID())
}

func (env *fcEnv) showEvsX(es []gmsl.PDU) string {
	var out []string
	for _, e := range es {
		out = append(out, env.showEv(e))
	}
	return strings.Join(out, ",")
}

// sigClasses: for every pool entry the index of the first pool entry with the same redacted JSON -- the message
// VerifyEventSignatures hands to the JSONVerifier, hence the granularity of the scripted signature oracle.
func (env *fcEnv) sigClasses() (string, error) {
	var reds []string
	var out []string
	for i, p := range env.pool {
		red, err := env.impl.RedactEventJSON(p.JSON())
		if err != nil {
			return "", err
		}
		reds = append(reds, string(red))
		c := i
		for j := 0; j < i; j++ {
			if reds[j] == reds[i] {
				c = j
				break
			}
		}
		out = append(out, strconv.Itoa(c))
	}
	return joinOrDash(out, ","), nil
}

func (env *fcEnv) showLog() string {
	l := append([]string{}, env.log...)
	sort.Strings(l)
	return "|log:" + strings.Join(l, ",")
}

func (env *fcEnv) tick() {
	env.calls++
	if env.calls > fcMaxCalls {
		panic(fcDiverge{})
	}
}

var fcBadRaws = [][]byte{[]byte(`{`), []byte(`{}`), []byte(`[]`), []byte(`{"type":5,"room_id":"!room:hs1"}`), []byte(`{"_x":1}`)}

// raws turns an entries argument into raw messages, checking that the library classifies them as the token says.
func (env *fcEnv) raws(entries string) ([]json.RawMessage, error) {
	var out []json.RawMessage
	for _, t := range splitList(entries, ",") {
		switch t[0] {
		case 'o', 'p':
			i, _ := strconv.Atoi(t[1:])
			raw := env.pool[i].JSON()
			ev, err := env.impl.NewEventFromUntrustedJSON(raw)
			cls := "x"
			if err == nil {
				cls = "o"
			} else if ve, ok := err.(gmsl.EventValidationError); ok && ve.Persistable && ev != nil {
				cls = "p"
			}
			if cls != t[:1] || ev.EventID() != env.pool[i].EventID() || string(ev.JSON()) != string(raw) {
				return nil, fmt.Errorf("pool event %d does not re-parse as %s (got %s)", i, t[:1], cls)
			}
			out = append(out, raw)
		default:
			k, _ := strconv.Atoi(t[1:])
			raw := fcBadRaws[k%len(fcBadRaws)]
			if _, err := env.impl.NewEventFromUntrustedJSON(raw); err == nil {
				return nil, fmt.Errorf("bad raw %d parses", k)
			} else if ve, ok := err.(gmsl.EventValidationError); ok && ve.Persistable {
				return nil, fmt.Errorf("bad raw %d is persistable", k)
			}
			out = append(out, raw)
		}
	}
	return out, nil
}

func (env *fcEnv) verifier(badsig string) (*fcVerifier, error) {
	v := &fcVerifier{bad: map[string]bool{}}
	for _, i := range natList(badsig) {
		red, err := env.impl.RedactEventJSON(env.pool[i].JSON())
		if err != nil {
			return nil, err
		}
		v.bad[string(red)] = true
	}
	return v, nil
}

type fcKind struct {
	kind byte // 'n', 'e', 'r'
	ret  []int
}

func (env *fcEnv) provider(s string) gmsl.EventProvider {
	if s == "nil" {
		return nil
	}
	table := map[string]fcKind{}
	limit := -1 // `max=<k>`: at most k events per call
	for _, ent := range splitList(s, ",") {
		kv := strings.SplitN(ent, "=", 2)
		if len(kv) != 2 {
			continue
		}
		if kv[0] == "max" {
			if limit < 0 {
				limit, _ = strconv.Atoi(kv[1])
			}
			continue
		}
		var id string
		if kv[0][0] == '#' {
			i, _ := strconv.Atoi(kv[0][1:])
			id = env.pool[i].EventID()
		} else {
			id = string(unhx(kv[0][1:]))
		}
		if _, dup := table[id]; dup {
			continue // first entry wins (List.lookup in the driver)
		}
		k := fcKind{kind: kv[1][0]}
		if k.kind == 'r' {
			for _, x := range strings.Split(kv[1][1:], "+") {
				n, _ := strconv.Atoi(x)
				k.ret = append(k.ret, n)
			}
		}
		table[id] = k
	}
	return func(ver gmsl.RoomVersion, ids []string) ([]gmsl.PDU, error) {
		env.tick()
		var shown []string
		for _, id := range ids {
			shown = append(shown, env.showID(id))
		}
		fail := false
		var out []gmsl.PDU
		for _, id := range ids {
			k := table[id]
			switch k.kind {
			case 'e':
				fail = true
			case 'r':
				for _, i := range k.ret {
					out = append(out, env.pool[i])
				}
			}
		}
		if fail {
			// the driver logs a failed batch request too
			env.log = append(env.log, "E"+strings.Join(shown, "+"))
			return nil, errors.New("provider error (scripted)")
		}
		env.log = append(env.log, "E"+strings.Join(shown, "+"))
		if limit >= 0 && len(out) > limit {
			out = out[:limit]
		}
		return out, nil
	}
}

type fcStateProvider struct {
	env *fcEnv
	ids map[string]*[]int // nil pointer = error
	st  map[string]*[]int
}

func (env *fcEnv) stateProvider(s string) *fcStateProvider {
	sp := &fcStateProvider{env: env, ids: map[string]*[]int{}, st: map[string]*[]int{}}
	seen := map[string]bool{}
	for _, ent := range splitList(s, "|") {
		p := strings.Split(ent, ";")
		if len(p) != 3 {
			continue
		}
		i, _ := strconv.Atoi(p[0])
		id := env.pool[i].EventID()
		if seen[id] {
			continue
		}
		seen[id] = true
		if p[1] != "e" {
			l := natList(p[1])
			sp.ids[id] = &l
		} else {
			sp.ids[id] = nil
		}
		if p[2] != "e" {
			l := natList(p[2])
			sp.st[id] = &l
		} else {
			sp.st[id] = nil
		}
	}
	return sp
}

func (sp *fcStateProvider) StateIDsBeforeEvent(ctx context.Context, event gmsl.PDU) ([]string, error) {
	sp.env.tick()
	sp.env.log = append(sp.env.log, "I"+sp.env.showID(event.EventID()))
	l, ok := sp.ids[event.EventID()]
	if !ok {
		return []string{}, nil
	}
	if l == nil {
		return nil, errors.New("state ids error (scripted)")
	}
	out := []string{}
	for _, i := range *l {
		out = append(out, sp.env.pool[i].EventID())
	}
	return out, nil
}

func (sp *fcStateProvider) StateBeforeEvent(ctx context.Context, roomVer gmsl.RoomVersion, event gmsl.PDU, eventIDs []string) (map[string]gmsl.PDU, error) {
	sp.env.tick()
	sp.env.log = append(sp.env.log, "S"+sp.env.showID(event.EventID()))
	l, ok := sp.st[event.EventID()]
	if !ok {
		return map[string]gmsl.PDU{}, nil
	}
	if l == nil {
		return nil, errors.New("state error (scripted)")
	}
	out := map[string]gmsl.PDU{}
	for _, i := range *l {
		if _, dup := out[sp.env.pool[i].EventID()]; dup {
			continue // first binding wins (List.lookup in the driver)
		}
		out[sp.env.pool[i].EventID()] = sp.env.pool[i]
	}
	return out, nil
}

type fcStateResponse struct{ auth, state gmsl.EventJSONs }

func (r *fcStateResponse) GetAuthEvents() gmsl.EventJSONs  { return r.auth }
func (r *fcStateResponse) GetStateEvents() gmsl.EventJSONs { return r.state }

// fcBackfill implements gmsl.BackfillRequester.
type fcBackfill struct {
	*fcStateProvider
	env     *fcEnv
	servers []*[]json.RawMessage // nil = error
	prov    gmsl.EventProvider
}

func (b *fcBackfill) ServersAtEvent(ctx context.Context, roomID, eventID string) []spec.ServerName {
	var out []spec.ServerName
	for i := range b.servers {
		out = append(out, spec.ServerName("s"+strconv.Itoa(i)))
	}
	return out
}
func (b *fcBackfill) Backfill(ctx context.Context, origin, server spec.ServerName, roomID string, limit int, fromEventIDs []string) (gmsl.Transaction, error) {
	b.env.tick()
	i, _ := strconv.Atoi(string(server)[1:])
	b.env.log = append(b.env.log, "B"+strconv.Itoa(i))
	if b.servers[i] == nil {
		return gmsl.Transaction{}, errors.New("backfill error (scripted)")
	}
	return gmsl.Transaction{PDUs: *b.servers[i]}, nil
}
func (b *fcBackfill) ProvideEvents(roomVer gmsl.RoomVersion, eventIDs []string) ([]gmsl.PDU, error) {
	return b.prov(roomVer, eventIDs)
}

// ---------------------------------------------------------------- exec

func execFedcheck(op string, args []string) (res string) {
	defer func() {
		if r := recover(); r != nil {
			if _, ok := r.(fcDiverge); ok {
				// regression guard for 778c3d3: reported in the panic class so that it is always a concrete violation
				res = "panic:nontermination:scripted provider called more than " + strconv.Itoa(fcMaxCalls) + " times (checkAllowedByAuthEvents retry loop)"
				return
			}
			panic(r)
		}
	}()
	ctx := context.Background()
	env, err := newFcEnv(args[0], args[1])
	if err != nil {
		return "err:construct"
	}
	rv := gmsl.RoomVersion(env.ver)
	switch op {
	case "state", "sendjoin":
		auth, err := env.raws(args[2])
		if err != nil {
			return "err:construct:" + err.Error()
		}
		state, err := env.raws(args[3])
		if err != nil {
			return "err:construct:" + err.Error()
		}
		v, err := env.verifier(args[4])
		if err != nil {
			return "err:construct"
		}
		resp := &fcStateResponse{auth: toEventJSONs(auth), state: toEventJSONs(state)}
		prov := env.provider(args[5])
		// optional last argument: the signature classes of the pool (checked against the library's redaction)
		if k := map[string]int{"state": 6, "sendjoin": 7}[op]; len(args) > k {
			cls, err := env.sigClasses()
			if err != nil || cls != args[k] {
				return "err:construct:signature classes"
			}
		}
		if op == "state" {
			a, s, err := gmsl.CheckStateResponse(ctx, resp, rv, v, prov, StdQuerier)
			if err != nil {
				return fcStateErr(err)
			}
			return "ok:" + env.showEvsX(a) + "|" + env.showEvsX(s) + env.showLog()
		}
		j, _ := strconv.Atoi(args[6])
		out, err := gmsl.CheckSendJoinResponse(ctx, rv, resp, v, env.pool[j], prov, StdQuerier)
		if err != nil {
			return fcStateErr(err)
		}
		return "ok:" + env.showEvsX(out.GetAuthEvents().TrustedEvents(rv, false)) + "|" + env.showEvsX(out.GetStateEvents().TrustedEvents(rv, false)) + env.showLog()
	case "chain":
		root, _ := strconv.Atoi(args[2])
		err := gmsl.VerifyEventAuthChain(ctx, env.pool[root], env.provider(args[3]), StdQuerier)
		switch {
		case err == nil:
			return "ok" + env.showLog()
		case strings.Contains(err.Error(), "failed to obtain auth events"):
			return "err:provider" + env.showLog()
		case strings.Contains(err.Error(), "failed auth check"):
			return "err:auth" + env.showLog()
		}
		return "err:other"
	case "atstate":
		i, _ := strconv.Atoi(args[2])
		once := func() string {
			env.log, env.calls = nil, 0
			err := gmsl.VerifyAuthRulesAtState(ctx, env.stateProvider(args[4]), env.pool[i], args[3] == "1", StdQuerier)
			switch {
			case err == nil:
				return "ok" + env.showLog()
			case strings.Contains(err.Error(), "cannot fetch state IDs"):
				return "err:ids" + env.showLog()
			case strings.Contains(err.Error(), "cannot get state at event"):
				return "err:state" + env.showLog()
			case strings.Contains(err.Error(), "is not allowed at state"):
				return "err:auth" + env.showLog()
			}
			return "err:other"
		}
		// "the same on every evaluation": the call is repeated inside the op and has to give ONE answer.  The state the
		// provider returns is a Go map (iterated in a random order); when it holds several events for one
		// (type, state_key) the call is repeated often enough for an order-dependent answer to show
		// (`unstable:<answers>`: never a model or specification outcome).
		repeats := 3
		if fcStateHasSlotClash(env, args[4]) {
			repeats = 96
		}
		seen := map[string]bool{}
		var answers []string
		for k := 0; k < repeats; k++ {
			if a := once(); !seen[a] {
				seen[a] = true
				answers = append(answers, a)
			}
		}
		if len(answers) == 1 {
			return answers[0]
		}
		sort.Strings(answers)
		return "unstable:" + strings.Join(answers, "/")
	case "load":
		raws, err := env.raws(args[2])
		if err != nil {
			return "err:construct:" + err.Error()
		}
		v, err := env.verifier(args[3])
		if err != nil {
			return "err:construct"
		}
		l := gmsl.NewEventsLoader(rv, v, env.stateProvider(args[5]), env.provider(args[4]), false)
		results, err := l.LoadAndVerify(ctx, raws, gmsl.TopologicalOrderByPrevEvents, StdQuerier)
		if err != nil {
			return "err:other"
		}
		var out []string
		for _, r := range results {
			out = append(out, fcLoadClass(env, r))
		}
		sort.Strings(out)
		return "ok:" + strconv.Itoa(len(results)) + ":" + strings.Join(out, ",") + env.showLog()
	case "backfill_props":
		return "ok" // the driver evaluates the property's clauses on the implementation's answer carried in the op
	case "backfill":
		v, err := env.verifier(args[3])
		if err != nil {
			return "err:construct"
		}
		b := &fcBackfill{fcStateProvider: env.stateProvider(args[5]), env: env, prov: env.provider(args[4])}
		for _, s := range splitList(args[2], "|") {
			if s == "e" {
				b.servers = append(b.servers, nil)
				continue
			}
			raws, err := env.raws(s)
			if err != nil {
				return "err:construct:" + err.Error()
			}
			b.servers = append(b.servers, &raws)
		}
		limit, _ := strconv.Atoi(args[7])
		evs, err := gmsl.RequestBackfill(ctx, "me", b, v, "!room:hs1", rv, []string{"$from"}, limit, StdQuerier)
		var ids []string
		for _, e := range evs {
			ids = append(ids, env.showEv(e))
		}
		sort.Strings(ids)
		s := "ok:" + strings.Join(ids, ",")
		if err != nil {
			s += "|lasterr"
		}
		return s + env.showLog()
	}
	return "bad-op"
}

func fcLoadClass(env *fcEnv, r gmsl.EventLoadResult) string {
	cls := "ok"
	switch r.Error.(type) {
	case nil:
		if r.Event == nil {
			cls = "empty"
		}
	case gmsl.SignatureErr:
		cls = "sig"
	case gmsl.AuthChainErr:
		cls = "chain"
	case gmsl.AuthRulesErr:
		cls = "rules"
	default:
		cls = "parse"
	}
	if r.Event != nil {
		return cls + ":" + env.showEv(r.Event)
	}
	return cls
}

func fcStateErr(err error) string {
	m := err.Error()
	switch {
	case strings.Contains(m, "does not have a state key") && strings.Contains(m, "AddEvent"):
		return "err:state-add"
	case strings.Contains(m, "does not have a state key"), strings.Contains(m, "duplicate state key tuple"):
		return "err:malformed"
	case strings.Contains(m, "is not allowed by its auth events"):
		return "err:join-auth"
	case strings.Contains(m, "is not allowed by the current room state"):
		return "err:join-state"
	}
	return "err:other"
}

func toEventJSONs(raws []json.RawMessage) gmsl.EventJSONs {
	out := make(gmsl.EventJSONs, 0, len(raws))
	for _, r := range raws {
		out = append(out, spec.RawJSON(r))
	}
	return out
}

// ---------------------------------------------------------------- generation

// MkU builds an event with a valid content hash and reads it back through NewEventFromUntrustedJSON, as a
// remote server's message would be. class is "o" (clean), "p" (too large but persistable) or "" (refused).
func (g *RoomGen) MkU(typ string, sender string, stateKey *string, content interface{}, prev, auth []string, extra map[string]interface{}) (*Ev, string) {
	id := g.nextID(domainOf(sender))
	m := map[string]interface{}{
		"type": typ, "sender": sender, "room_id": g.RoomID, "content": content,
		"origin_server_ts": 1000 + g.n, "depth": g.n, "origin": domainOf(sender),
		"prev_events": g.refs(prev), "auth_events": g.refs(auth),
	}
	if g.fmtV == 1 {
		m["event_id"] = id
	}
	if stateKey != nil {
		m["state_key"] = *stateKey
	}
	if g.v3 && typ == spec.MRoomCreate && stateKey != nil && *stateKey == "" {
		delete(m, "room_id")
	}
	for k, v := range extra {
		if v == nil {
			delete(m, k)
		} else {
			m[k] = v
		}
	}
	raw, err := json.Marshal(m)
	if err != nil {
		return nil, ""
	}
	cj, err := gmsl.CanonicalJSON(raw)
	if err != nil {
		return nil, ""
	}
	sum := sha256.Sum256(cj)
	m["hashes"] = map[string]string{"sha256": base64.RawStdEncoding.EncodeToString(sum[:])}
	m["signatures"] = map[string]interface{}{domainOf(sender): map[string]string{"ed25519:1": base64.RawStdEncoding.EncodeToString(make([]byte, 64))}}
	raw, _ = json.Marshal(m)
	cj, err = gmsl.CanonicalJSON(raw)
	if err != nil {
		return nil, ""
	}
	v := gmsl.MustGetRoomVersion(gmsl.RoomVersion(g.Ver))
	pdu, err := v.NewEventFromUntrustedJSON(cj)
	cls := "o"
	if err != nil {
		ve, ok := err.(gmsl.EventValidationError)
		if !ok || !ve.Persistable || pdu == nil {
			return nil, ""
		}
		cls = "p"
	}
	return &Ev{PDU: pdu, ID: pdu.EventID(), JSON: pdu.JSON()}, cls
}

// fcRoom is a small room history with proper auth_events / prev_events.
type fcRoom struct {
	g       *RoomGen
	r       *Rng
	ver     string
	v3      bool
	pool    []*Ev
	idx     map[*Ev]int
	cls     map[*Ev]string
	create  *Ev
	pl, jr  *Ev
	member  map[string]*Ev
	last    string
	admin   string
	history []*Ev // every event in creation order
	before  map[*Ev][]*Ev
}

func (rm *fcRoom) add(e *Ev, cls string) *Ev {
	if e == nil {
		return nil
	}
	rm.idx[e] = len(rm.pool)
	rm.cls[e] = cls
	rm.pool = append(rm.pool, e)
	return e
}

func (rm *fcRoom) tok(e *Ev) string { return rm.cls[e] + strconv.Itoa(rm.idx[e]) }

// authFor picks the auth events the way StateNeededForAuth would, from the room's current state.
func (rm *fcRoom) authFor(typ, sender string, stateKey *string) []string {
	var out []string
	add := func(e *Ev) {
		if e == nil {
			return
		}
		if rm.v3 && e == rm.create {
			return // implicit in domainless-room-ID versions
		}
		for _, x := range out {
			if x == e.ID {
				return
			}
		}
		out = append(out, e.ID)
	}
	if typ == spec.MRoomCreate {
		return []string{}
	}
	add(rm.create)
	add(rm.pl)
	add(rm.member[sender])
	if typ == spec.MRoomMember {
		add(rm.jr)
		if stateKey != nil {
			add(rm.member[*stateKey])
		}
	}
	if out == nil {
		out = []string{}
	}
	return out
}

func (rm *fcRoom) prev() []string {
	if rm.last == "" {
		return []string{}
	}
	return []string{rm.last}
}

// send builds an event on top of the current state and (if apply) makes it part of the state.
func (rm *fcRoom) send(typ, sender string, stateKey *string, content interface{}, apply bool, extra map[string]interface{}) *Ev {
	e, cls := rm.g.MkU(typ, sender, stateKey, content, rm.prev(), rm.authFor(typ, sender, stateKey), extra)
	if e == nil {
		return nil
	}
	rm.add(e, cls)
	if rm.before == nil {
		rm.before = map[*Ev][]*Ev{}
	}
	rm.before[e] = rm.state()
	if apply {
		rm.history = append(rm.history, e)
		rm.last = e.ID
		if stateKey != nil {
			switch {
			case typ == spec.MRoomCreate:
				rm.create = e
			case typ == spec.MRoomPowerLevels:
				rm.pl = e
			case typ == spec.MRoomJoinRules:
				rm.jr = e
			case typ == spec.MRoomMember:
				rm.member[*stateKey] = e
			}
		}
	}
	return e
}

// fcCreateVersionOverride, when set, replaces content.room_version of generated create events (PerformJoin's
// sanity check of the create event).
var fcCreateVersionOverride interface{}

func newFcRoom(r *Rng, ver string) *fcRoom {
	g := NewRoomGen(r, ver)
	verImpl := gmsl.MustGetRoomVersion(gmsl.RoomVersion(ver))
	rm := &fcRoom{g: g, r: r, ver: ver, v3: g.v3, idx: map[*Ev]int{}, cls: map[*Ev]string{}, member: map[string]*Ev{}}
	creator := authUsers[0]
	cc := map[string]interface{}{"room_version": ver}
	if fcCreateVersionOverride != nil {
		cc["room_version"] = fcCreateVersionOverride
	}
	if !verImpl.PrivilegedCreators() {
		cc["creator"] = creator
	}
	if rm.send(spec.MRoomCreate, creator, sp(""), cc, true, nil) == nil {
		return nil
	}
	if g.v3 {
		g.RoomID = "!" + rm.create.ID[1:]
	}
	if rm.send(spec.MRoomMember, creator, sp(creator), map[string]interface{}{"membership": "join"}, true, nil) == nil {
		return nil
	}
	users := map[string]interface{}{}
	rm.admin = creator
	if !verImpl.PrivilegedCreators() {
		users[creator] = 100
	}
	users[authUsers[1]] = 50
	plc := map[string]interface{}{"users": users, "users_default": 0, "events_default": 0, "state_default": 50, "ban": 50, "kick": 50, "invite": 0, "redact": 50}
	if rm.send(spec.MRoomPowerLevels, creator, sp(""), plc, true, nil) == nil {
		return nil
	}
	if rm.send(spec.MRoomJoinRules, creator, sp(""), map[string]interface{}{"join_rule": "public"}, true, nil) == nil {
		return nil
	}
	n := 2 + r.Intn(4)
	for i := 1; i <= n && i < len(authUsers); i++ {
		u := authUsers[i]
		if rm.send(spec.MRoomMember, u, sp(u), map[string]interface{}{"membership": "join"}, true, nil) == nil {
			return nil
		}
	}
	return rm
}

func (rm *fcRoom) state() []*Ev {
	out := []*Ev{rm.create, rm.pl, rm.jr}
	for _, u := range authUsers {
		if m := rm.member[u]; m != nil {
			out = append(out, m)
		}
	}
	var res []*Ev
	for _, e := range out {
		if e != nil {
			res = append(res, e)
		}
	}
	return res
}

func (rm *fcRoom) poolArg() string { return evArgs(rm.pool) }

func (rm *fcRoom) joined() []string {
	var out []string
	for _, u := range authUsers {
		if m := rm.member[u]; m != nil {
			if ms, _ := m.PDU.Membership(); ms == "join" {
				out = append(out, u)
			}
		}
	}
	return out
}

// fcVersions: every registered version except the pseudo-ID one, where VerifyEventSignatures replaces the
// caller's verifier by real ed25519 verification against the sender key (the signature oracle cannot be scripted).
var fcVersions = []string{"1", "2", "3", "4", "5", "6", "7", "8", "9", "10", "11", "12", "org.matrix.hydra.11", "org.matrix.msc3667", "org.matrix.msc3787"}

type fcScenario struct {
	rm      *fcRoom
	auth    []string // entry tokens
	state   []string
	badsig  []int
	prov    []string // key=kind
	nilProv bool
	labels  []string
}

func fcIdxList(xs []int) string {
	if len(xs) == 0 {
		return "-"
	}
	var s []string
	for _, x := range xs {
		s = append(s, strconv.Itoa(x))
	}
	return strings.Join(s, ",")
}

func joinOrDash(xs []string, sep string) string {
	if len(xs) == 0 {
		return "-"
	}
	return strings.Join(xs, sep)
}

var fcFaults = []string{"badsig", "disallowed", "missing", "wrongroom", "nonstate", "dupkey", "malformed", "persistable", "tampered", "selfref", "none"}

// fcStateScenario builds a /state-shaped response from a room and injects the given faults.
func fcStateScenario(r *Rng, ver string, faults []string, provMode string) *fcScenario {
	rm := newFcRoom(r, ver)
	if rm == nil {
		return nil
	}
	sc := &fcScenario{rm: rm}
	// some superseded state so that the auth chain differs from the current state
	if r.Chance(60) {
		u := Pick(r, rm.joined())
		rm.send(spec.MRoomMember, u, sp(u), map[string]interface{}{"membership": "join", "displayname": "again"}, true, nil)
	}
	authL := append([]*Ev{}, rm.history...)
	stateL := rm.state()
	other := NewRoomGen(r, ver) // a second room for wrong-room faults
	other.n = 500               // v1/v2 event IDs are free text: keep the two rooms' IDs apart
	var otherCreate *Ev
	drop := map[*Ev]bool{}
	for _, f := range faults {
		sc.labels = append(sc.labels, f)
		switch f {
		case "badsig":
			e := Pick(r, rm.history)
			sc.badsig = append(sc.badsig, rm.idx[e])
		case "disallowed":
			switch r.Intn(3) {
			case 0: // a member without power sets the topic
				u := rm.joined()[len(rm.joined())-1]
				if e := rm.send("m.room.topic", u, sp(""), map[string]interface{}{"topic": "x"}, false, nil); e != nil {
					stateL = append(stateL, e)
				}
			case 1: // a user who never joined changes the name, citing nothing of their own
				if e := rm.send("m.room.name", "@mallory:hs9", sp(""), map[string]interface{}{"name": "x"}, false, nil); e != nil {
					stateL = append(stateL, e)
				}
			default: // banned user joins
				us := rm.joined()
				u := us[len(us)-1]
				if u != rm.admin {
					if b := rm.send(spec.MRoomMember, rm.admin, sp(u), map[string]interface{}{"membership": "ban"}, true, nil); b != nil {
						authL = append(authL, b)
						if e := rm.send(spec.MRoomMember, u, sp(u), map[string]interface{}{"membership": "join"}, false, nil); e != nil {
							stateL = rm.state()
							for i, x := range stateL {
								if x == b {
									stateL[i] = e
								}
							}
						}
					}
				}
			}
		case "missing":
			// an event some other event cites is left out of the response
			cands := []*Ev{rm.pl, rm.jr}
			for _, u := range rm.joined() {
				cands = append(cands, rm.member[u])
			}
			if r.Chance(15) {
				cands = append(cands, rm.create)
			}
			drop[Pick(r, cands)] = true
		case "wrongroom":
			if otherCreate == nil {
				oc := map[string]interface{}{"room_version": ver, "creator": authUsers[0]}
				if gmsl.MustGetRoomVersion(gmsl.RoomVersion(ver)).PrivilegedCreators() {
					delete(oc, "creator")
				}
				other.RoomID = "!other:hs1"
				e, cls := other.MkU(spec.MRoomCreate, authUsers[0], sp(""), oc, []string{}, []string{}, nil)
				if e != nil {
					if other.v3 {
						other.RoomID = "!" + e.ID[1:]
					}
					otherCreate = rm.add(e, cls)
				}
			}
			if otherCreate != nil {
				u := Pick(r, authUsers)
				auth := []string{otherCreate.ID}
				if other.v3 {
					auth = []string{}
				}
				e, cls := other.MkU(spec.MRoomMember, u, sp(u), map[string]interface{}{"membership": "join"}, []string{otherCreate.ID}, auth, nil)
				if e != nil {
					rm.add(e, cls)
					if r.Bool() {
						stateL = append(stateL, e)
					} else {
						authL = append(authL, e)
					}
				}
			}
		case "nonstate":
			u := Pick(r, rm.joined())
			if e := rm.send("m.room.message", u, nil, map[string]interface{}{"body": "hi"}, false, nil); e != nil {
				if r.Bool() {
					stateL = append(stateL, e)
				} else {
					authL = append(authL, e)
				}
			}
		case "dupkey":
			u := Pick(r, rm.joined())
			if e := rm.send(spec.MRoomMember, u, sp(u), map[string]interface{}{"membership": "join", "displayname": "dup"}, false, nil); e != nil {
				if r.Chance(75) {
					stateL = append(stateL, e) // second event for (member, u) in the state list
				} else {
					authL = append(authL, e) // duplicates among auth events are fine
				}
			}
		case "persistable":
			u := Pick(r, rm.joined())
			long := strings.Repeat("é", 200) // 200 code points, 400 bytes
			lvl := 0
			if u == rm.admin || u == authUsers[1] {
				lvl = 1
			}
			_ = lvl
			if e := rm.send("x.long", u, sp(long), map[string]interface{}{"a": 1}, false, nil); e != nil {
				stateL = append(stateL, e)
			}
		case "tampered":
			// same event ID, content changed after hashing: the library reads it back redacted
			if rm.g.fmtV == 2 {
				e := Pick(r, rm.history[1:])
				var m map[string]interface{}
				_ = json.Unmarshal(e.JSON, &m)
				c, _ := m["content"].(map[string]interface{})
				if c != nil {
					c["injected"] = "x"
					raw, _ := json.Marshal(m)
					cj, _ := gmsl.CanonicalJSON(raw)
					pdu, err := gmsl.MustGetRoomVersion(gmsl.RoomVersion(ver)).NewEventFromUntrustedJSON(cj)
					if err == nil && pdu.EventID() == e.ID {
						t := rm.add(&Ev{PDU: pdu, ID: pdu.EventID(), JSON: pdu.JSON()}, "o")
						if r.Bool() {
							authL = append(authL, t)
						} else {
							stateL = append(stateL, t)
						}
					}
				}
			}
		case "selfref":
			// an event citing an ID nobody has (and, in v1/v2 where IDs are free text, itself)
			u := Pick(r, rm.joined())
			auth := append(rm.authFor("x.self", u, sp("")), "$unknown:hs1")
			e, cls := rm.g.MkU("x.self", u, sp(u), map[string]interface{}{"a": 1}, rm.prev(), auth, nil)
			if e != nil {
				rm.add(e, cls)
				stateL = append(stateL, e)
			}
		case "malformed":
			// handled below (raw entries)
		}
	}
	for _, e := range authL {
		if !drop[e] {
			sc.auth = append(sc.auth, rm.tok(e))
		}
	}
	for _, e := range stateL {
		if !drop[e] {
			sc.state = append(sc.state, rm.tok(e))
		}
	}
	for _, f := range faults {
		if f == "malformed" {
			t := "x" + strconv.Itoa(r.Intn(len(fcBadRaws)))
			if r.Bool() {
				sc.auth = append(sc.auth, t)
			} else {
				sc.state = append(sc.state, t)
			}
		}
	}
	if r.Chance(12) {
		r.shuffleStrings(sc.auth)
	}
	if r.Chance(12) {
		r.shuffleStrings(sc.state)
	}
	// provider script for the IDs that may be asked for: dropped events, bad-signature events, unknown IDs
	ask := []*Ev{}
	for e := range drop {
		ask = append(ask, e)
	}
	sort.Slice(ask, func(i, j int) bool { return rm.idx[ask[i]] < rm.idx[ask[j]] })
	for _, i := range sc.badsig {
		ask = append(ask, rm.pool[i])
	}
	switch provMode {
	case "nil":
		sc.nilProv = true
	case "empty":
	default:
		for _, e := range ask {
			key := "#" + strconv.Itoa(rm.idx[e])
			mode := provMode
			if mode == "mixed" {
				mode = Pick(r, []string{"ret", "ret", "nothing", "error", "other", "extra", "nonstate"})
			}
			switch mode {
			case "ret":
				sc.prov = append(sc.prov, key+"=r"+strconv.Itoa(rm.idx[e]))
			case "nothing":
				sc.prov = append(sc.prov, key+"=n")
			case "error":
				sc.prov = append(sc.prov, key+"=e")
			case "other": // answers with some OTHER event: outside the provider contract
				o := Pick(r, rm.history)
				sc.prov = append(sc.prov, key+"=r"+strconv.Itoa(rm.idx[o]))
			case "extra": // the requested event plus another one
				o := Pick(r, rm.history)
				sc.prov = append(sc.prov, key+"=r"+strconv.Itoa(rm.idx[e])+"+"+strconv.Itoa(rm.idx[o]))
			case "nonstate": // a message event under the requested ID cannot exist; answer with a non-state event
				u := Pick(r, rm.joined())
				if m := rm.send("m.room.message", u, nil, map[string]interface{}{"body": "p"}, false, nil); m != nil {
					sc.prov = append(sc.prov, key+"=r"+strconv.Itoa(rm.idx[m]))
				}
			}
		}
		if r.Chance(30) {
			sc.prov = append(sc.prov, "h"+hx([]byte("$unknown:hs1"))+"="+Pick(r, []string{"n", "e", "r0"}))
		}
	}
	return sc
}

func (r *Rng) shuffleStrings(xs []string) {
	for i := len(xs) - 1; i > 0; i-- {
		j := r.Intn(i + 1)
		xs[i], xs[j] = xs[j], xs[i]
	}
}

func (sc *fcScenario) provArg() string {
	if sc.nilProv {
		return "nil"
	}
	return joinOrDash(sc.prov, ",")
}

func pickFaults(r *Rng) []string {
	n := []int{0, 1, 1, 1, 2, 2, 3}[r.Intn(7)]
	var out []string
	for i := 0; i < n; i++ {
		out = append(out, Pick(r, fcFaults[:len(fcFaults)-1]))
	}
	return out
}

// fcTwinKinds / fcTwinPlaces: room versions 1 and 2 take the event ID from the event's own `event_id` member, so a
// response can carry two DIFFERENT events under one ID. kinds: badsig (the twin's signature does not verify),
// disallowed-other (verified, another (type, state_key), refused by the auth rules), disallowed-same (verified, the
// genuine event's (type, state_key), refused). places: where the genuine event G and its twin T sit --
// 0: G in auth_events, T in state_events (in G's slot when it had one); 1: T in G's slot of auth_events, G in
// state_events; 2: both in auth_events, G first; 3: both in auth_events, T first.
var fcTwinKinds = []string{"badsig", "disallowed-other", "disallowed-same"}

const fcTwinPlaces = 4

func fcTwinScenario(r *Rng, ver string, kind string, place int, provMode string) *fcScenario {
	var extra []string
	if r.Chance(20) {
		extra = []string{Pick(r, []string{"badsig", "missing", "disallowed"})}
	}
	sc := fcStateScenario(r, ver, extra, provMode)
	if sc == nil || (sc.rm.g.fmtV != 1 && kind != "resigned") {
		return nil
	}
	if kind == "resigned" {
		return fcResignedTwin(r, sc, place, provMode)
	}
	rm := sc.rm
	// the genuine event: part of the current state (so it is in both lists), not the create event
	var cands []*Ev
	for _, e := range rm.state() {
		if e != rm.create {
			cands = append(cands, e)
		}
	}
	g := Pick(r, cands)
	var content map[string]interface{}
	if json.Unmarshal(g.PDU.Content(), &content) != nil || content == nil {
		return nil
	}
	typ, sender, sk := g.PDU.Type(), string(g.PDU.SenderID()), g.PDU.StateKey()
	switch kind {
	case "badsig":
		// the content an attacker would like to see accepted; it was never signed
		if typ == spec.MRoomPowerLevels {
			us, _ := content["users"].(map[string]interface{})
			if us == nil {
				us = map[string]interface{}{}
			}
			us["@mallory:hs9"] = 100
			content["users"] = us
		} else {
			content["displayname"] = "twin"
			content["join_rule"] = "public"
		}
	case "disallowed-other":
		typ, sender, sk = "m.room.name", "@mallory:hs9", sp("")
		content = map[string]interface{}{"name": "twin"}
	case "disallowed-same":
		sender = "@mallory:hs9" // never joined: refused whatever the type
		content["displayname"] = "twin"
	}
	t, cls := rm.g.MkU(typ, sender, sk, content, g.PDU.PrevEventIDs(), g.PDU.AuthEventIDs(), map[string]interface{}{"event_id": g.ID})
	if t == nil || t.ID != g.ID || string(t.JSON) == string(g.JSON) {
		return nil
	}
	rm.add(t, cls)
	gTok, tTok := rm.tok(g), rm.tok(t)
	sameTuple := kind != "disallowed-other"
	replace := func(l []string, old, new string) ([]string, bool) {
		out := append([]string{}, l...)
		for i, x := range out {
			if x == old {
				out[i] = new
				return out, true
			}
		}
		return out, false
	}
	switch place {
	case 0:
		var ok bool
		if sameTuple {
			sc.state, ok = replace(sc.state, gTok, tTok)
		}
		if !ok {
			sc.state = append(sc.state, tTok)
		}
	case 1:
		var ok bool
		if sc.auth, ok = replace(sc.auth, gTok, tTok); !ok {
			sc.auth = append([]string{tTok}, sc.auth...)
		}
	case 2:
		sc.auth = append(sc.auth, tTok)
	default:
		var out []string
		for _, x := range sc.auth {
			if x == gTok {
				out = append(out, tTok)
			}
			out = append(out, x)
		}
		sc.auth = out
	}
	if kind == "badsig" {
		sc.badsig = append(sc.badsig, rm.idx[t])
		if !sc.nilProv && provMode != "empty" {
			// what the provider has under the shared ID, should the code ask: the genuine event, the twin, nothing
			key := "#" + strconv.Itoa(rm.idx[g])
			switch r.Intn(3) {
			case 0:
				sc.prov = append(sc.prov, key+"=r"+strconv.Itoa(rm.idx[g]))
			case 1:
				sc.prov = append(sc.prov, key+"=r"+strconv.Itoa(rm.idx[t]))
			default:
				sc.prov = append(sc.prov, key+"=n")
			}
		}
	}
	sc.labels = append(sc.labels, "twin-"+kind, "twin-place"+strconv.Itoa(place))
	return sc
}

// fcResignedTwin: EVERY room version. The twin is the genuine event with its signature replaced: the event ID is the
// same (a member of the event in versions 1 and 2, a reference hash that does not cover the signatures in the later
// ones), the content hash is intact, the signature check fails. Placements as for the other twins.
func fcResignedTwin(r *Rng, sc *fcScenario, place int, provMode string) *fcScenario {
	rm := sc.rm
	var cands []*Ev
	for _, e := range rm.state() {
		if e != rm.create {
			cands = append(cands, e)
		}
	}
	g := Pick(r, cands)
	var m map[string]interface{}
	if json.Unmarshal(g.JSON, &m) != nil {
		return nil
	}
	forged := make([]byte, 64)
	for i := range forged {
		forged[i] = 1
	}
	m["signatures"] = map[string]interface{}{domainOf(string(g.PDU.SenderID())): map[string]string{"ed25519:1": base64.RawStdEncoding.EncodeToString(forged)}}
	raw, _ := json.Marshal(m)
	cj, err := gmsl.CanonicalJSON(raw)
	if err != nil {
		return nil
	}
	pdu, err := gmsl.MustGetRoomVersion(gmsl.RoomVersion(rm.ver)).NewEventFromUntrustedJSON(cj)
	if err != nil || pdu.EventID() != g.ID || string(pdu.JSON()) == string(g.JSON) {
		return nil
	}
	t := rm.add(&Ev{PDU: pdu, ID: pdu.EventID(), JSON: pdu.JSON()}, "o")
	gTok, tTok := rm.tok(g), rm.tok(t)
	replace := func(l []string, old, new string) ([]string, bool) {
		out := append([]string{}, l...)
		for i, x := range out {
			if x == old {
				out[i] = new
				return out, true
			}
		}
		return out, false
	}
	switch place {
	case 0:
		var ok bool
		if sc.state, ok = replace(sc.state, gTok, tTok); !ok {
			sc.state = append(sc.state, tTok)
		}
	case 1:
		var ok bool
		if sc.auth, ok = replace(sc.auth, gTok, tTok); !ok {
			sc.auth = append([]string{tTok}, sc.auth...)
		}
	case 2:
		sc.auth = append(sc.auth, tTok)
	default:
		var out []string
		for _, x := range sc.auth {
			if x == gTok {
				out = append(out, tTok)
			}
			out = append(out, x)
		}
		sc.auth = out
	}
	sc.badsig = append(sc.badsig, rm.idx[t])
	if !sc.nilProv && provMode != "empty" {
		key := "#" + strconv.Itoa(rm.idx[g])
		switch r.Intn(3) {
		case 0:
			sc.prov = append(sc.prov, key+"=r"+strconv.Itoa(rm.idx[g]))
		case 1:
			sc.prov = append(sc.prov, key+"=r"+strconv.Itoa(rm.idx[t]))
		default:
			sc.prov = append(sc.prov, key+"=n")
		}
	}
	sc.labels = append(sc.labels, "twin-resigned", "twin-place"+strconv.Itoa(place))
	return sc
}

// sigClassArg computes the signature classes of a pool the way the harness will check them.
func fcSigClassArg(ver string, pool []*Ev) string {
	impl := gmsl.MustGetRoomVersion(gmsl.RoomVersion(ver))
	var reds, out []string
	for i, e := range pool {
		red, err := impl.RedactEventJSON(e.JSON)
		if err != nil {
			red = []byte("unredactable:" + strconv.Itoa(i))
		}
		reds = append(reds, string(red))
		c := i
		for j := 0; j < i; j++ {
			if reds[j] == reds[i] {
				c = j
				break
			}
		}
		out = append(out, strconv.Itoa(c))
	}
	return joinOrDash(out, ",")
}

// fcRogueKinds: auth chains in which a FETCHED auth event cites no auth events at all and is refused by the auth rules
// (only m.room.create may have an empty auth_events list).
//   join      an outsider's join citing nothing, cited by the outsider's message (the root)
//   join-deep the same join, cited by the outsider's profile change, cited by the message (two levels down)
//   levels    an outsider's power-levels event citing nothing that makes everybody an admin, cited by a member's topic change
//   create    a second create event by the outsider with a prev event (refused: a create event has none)
//   root      control: the refused, citation-free join is itself the event to verify
var fcRogueKinds = []string{"join", "join-deep", "levels", "create", "root"}

func fcRogueChain(r *Rng, ver string, kind string) (rm *fcRoom, root *Ev, rogue *Ev) {
	rm = fcHistory(r, ver)
	if rm == nil {
		return nil, nil, nil
	}
	intruder := "@intruder:hs7"
	place := func(e *Ev, cls string) *Ev {
		if e == nil {
			return nil
		}
		rm.add(e, cls)
		rm.before[e] = rm.state()
		rm.history = append(rm.history, e)
		rm.last = e.ID
		return e
	}
	switch kind {
	case "join", "join-deep", "root":
		e, cls := rm.g.MkU(spec.MRoomMember, intruder, sp(intruder), map[string]interface{}{"membership": "join"}, rm.prev(), []string{}, nil)
		if rogue = place(e, cls); rogue == nil {
			return nil, nil, nil
		}
		rm.member[intruder] = rogue
		if kind == "root" {
			return rm, rogue, rogue
		}
		if kind == "join-deep" {
			if rm.send(spec.MRoomMember, intruder, sp(intruder), map[string]interface{}{"membership": "join", "displayname": "I"}, true, nil) == nil {
				return nil, nil, nil
			}
		}
		root = rm.send("m.room.message", intruder, nil, map[string]interface{}{"body": "hello"}, true, nil)
	case "levels":
		plc := map[string]interface{}{"users": map[string]interface{}{intruder: 100}, "users_default": 100, "events_default": 0, "state_default": 50}
		e, cls := rm.g.MkU(spec.MRoomPowerLevels, intruder, sp(""), plc, rm.prev(), []string{}, nil)
		if rogue = place(e, cls); rogue == nil {
			return nil, nil, nil
		}
		rm.pl = rogue
		us := rm.joined()
		root = rm.send("m.room.topic", us[len(us)-1], sp(""), map[string]interface{}{"topic": "ours"}, true, nil)
	case "create":
		if rm.v3 {
			return nil, nil, nil // the create event is implicit there: nothing cites it
		}
		cc := map[string]interface{}{"room_version": ver, "creator": intruder}
		e, cls := rm.g.MkU(spec.MRoomCreate, intruder, sp(""), cc, rm.prev(), []string{}, nil)
		if rogue = place(e, cls); rogue == nil {
			return nil, nil, nil
		}
		rm.create = rogue
		u := Pick(r, rm.joined())
		root = rm.send("m.room.message", u, nil, map[string]interface{}{"body": "hello"}, true, nil)
	}
	if root == nil {
		return nil, nil, nil
	}
	return rm, root, rogue
}

var fcProvModes = []string{"nil", "empty", "ret", "ret", "nothing", "error", "mixed", "mixed", "other"}

func genFedcheck(o *Out, tier string, r *Rng) {
	nState, nJoin := 260, 200
	if tier == "thorough" {
		nState, nJoin = 9000, 7000
	}
	record := func(kind string, sc *fcScenario, res string) {
		o.Count(kind + ".out." + strings.SplitN(strings.SplitN(res, "|", 2)[0], ":", 2)[0])
		if strings.HasPrefix(res, "err:") {
			o.Count(kind + "." + strings.SplitN(res, "|", 2)[0])
		}
		for _, l := range sc.labels {
			o.Count(kind + ".fault." + l)
		}
		o.Count(kind + ".nfaults." + strconv.Itoa(len(sc.labels)))
	}
	for i := 0; i < nState; i++ {
		ver := Pick(r, fcVersions)
		mode := Pick(r, fcProvModes)
		sc := fcStateScenario(r, ver, pickFaults(r), mode)
		if sc == nil {
			o.Count("gen-failed")
			continue
		}
		res := o.Do("state", ver, sc.rm.poolArg(), joinOrDash(sc.auth, ","), joinOrDash(sc.state, ","), fcIdxList(sc.badsig), sc.provArg(), fcSigClassArg(ver, sc.rm.pool))
		record("state", sc, res)
		o.Count("state.prov." + mode)
		if i < 2 {
			o.Sample("state " + ver + " faults=" + strings.Join(sc.labels, "+") + " prov=" + sc.provArg() + " -> " + res)
		}
	}
	for i := 0; i < nJoin; i++ {
		ver := Pick(r, fcVersions)
		mode := Pick(r, fcProvModes)
		faults := pickFaults(r)
		sc := fcStateScenario(r, ver, faults, mode)
		if sc == nil {
			o.Count("gen-failed")
			continue
		}
		rm := sc.rm
		// the joining user: a newcomer (allowed in the public room), or someone banned / from nowhere
		var join *Ev
		switch r.Intn(8) {
		case 0: // banned
			us := rm.joined()
			u := us[len(us)-1]
			if u != rm.admin {
				if b := rm.send(spec.MRoomMember, rm.admin, sp(u), map[string]interface{}{"membership": "ban"}, true, nil); b != nil {
					join = rm.send(spec.MRoomMember, u, sp(u), map[string]interface{}{"membership": "join"}, false, nil)
					sc.labels = append(sc.labels, "join-banned")
					if r.Chance(70) { // the ban is part of the returned state
						sc.state = append(sc.state, rm.tok(b))
						// remove the superseded member event of u from the state list
						var st []string
						for _, t := range sc.state {
							if t[0] != 'x' {
								e := rm.pool[mustAtoi(t[1:])]
								if e != b && e.PDU.Type() == spec.MRoomMember && e.PDU.StateKeyEquals(u) {
									continue
								}
							}
							st = append(st, t)
						}
						sc.state = st
						sc.auth = append(sc.auth, rm.tok(b))
					}
				}
			}
		case 2, 3: // joined before being banned: allowed by the auth events it cites, refused by the returned state
			us := rm.joined()
			u := us[len(us)-1]
			if u != rm.admin {
				join = rm.send(spec.MRoomMember, u, sp(u), map[string]interface{}{"membership": "join", "displayname": "stale"}, false, nil)
				if b := rm.send(spec.MRoomMember, rm.admin, sp(u), map[string]interface{}{"membership": "ban"}, true, nil); b != nil && join != nil {
					sc.labels = append(sc.labels, "join-stale")
					var st []string
					for _, t := range sc.state {
						if t[0] != 'x' {
							e := rm.pool[mustAtoi(t[1:])]
							if e.PDU.Type() == spec.MRoomMember && e.PDU.StateKeyEquals(u) {
								continue
							}
						}
						st = append(st, t)
					}
					sc.state = append(st, rm.tok(b))
					if r.Bool() {
						sc.auth = append(sc.auth, rm.tok(b))
					}
				}
			}
		case 4: // a newcomer banned before ever joining: the join cites create / power levels / join rules only (all of them in the
			// returned state), the ban sits in the returned state uncited — allowed by its auth events, refused by the state
			// (seeded change C14-r8m1 skipped the second check when every cited event is in the state)
			u := "@outcast:hs5"
			auth := rm.authFor(spec.MRoomMember, u, sp(u))
			if b := rm.send(spec.MRoomMember, rm.admin, sp(u), map[string]interface{}{"membership": "ban"}, true, nil); b != nil {
				e, cls := rm.g.MkU(spec.MRoomMember, u, sp(u), map[string]interface{}{"membership": "join"}, rm.prev(), auth, nil)
				if e != nil {
					join = rm.add(e, cls)
					sc.labels = append(sc.labels, "join-banned-uncited")
					sc.state = append(sc.state, rm.tok(b))
					if r.Bool() {
						sc.auth = append(sc.auth, rm.tok(b))
					}
				}
			}
		case 1: // cites auth events the response does not contain
			u := "@newcomer:hs5"
			e, cls := rm.g.MkU(spec.MRoomMember, u, sp(u), map[string]interface{}{"membership": "join"}, rm.prev(), []string{"$nowhere:hs1"}, nil)
			if e != nil {
				join = rm.add(e, cls)
				sc.labels = append(sc.labels, "join-noauth")
			}
		default:
			u := "@newcomer:hs5"
			join = rm.send(spec.MRoomMember, u, sp(u), map[string]interface{}{"membership": "join"}, false, nil)
		}
		if join == nil {
			u := "@newcomer:hs5"
			join = rm.send(spec.MRoomMember, u, sp(u), map[string]interface{}{"membership": "join"}, false, nil)
		}
		if join == nil {
			continue
		}
		res := o.Do("sendjoin", ver, rm.poolArg(), joinOrDash(sc.auth, ","), joinOrDash(sc.state, ","), fcIdxList(sc.badsig), sc.provArg(), strconv.Itoa(rm.idx[join]), fcSigClassArg(ver, rm.pool))
		record("sendjoin", sc, res)
		if i < 2 {
			o.Sample("sendjoin " + ver + " faults=" + strings.Join(sc.labels, "+") + " -> " + res)
		}
	}
	// ---- two different events under one event ID (room versions 1 and 2): every kind x placement, systematically
	twinRounds := 2
	if tier == "thorough" {
		twinRounds = 40
	}
	twinModes := []string{"nil", "empty", "ret", "ret", "nothing", "error", "mixed"}
	for round := 0; round < twinRounds; round++ {
		for _, ver := range []string{"1", "2"} {
			for _, kind := range fcTwinKinds {
				for place := 0; place < fcTwinPlaces; place++ {
					mode := Pick(r, twinModes)
					sc := fcTwinScenario(r, ver, kind, place, mode)
					if sc == nil {
						o.Count("twin.gen-failed")
						continue
					}
					rm := sc.rm
					if round%2 == 0 {
						res := o.Do("state", ver, rm.poolArg(), joinOrDash(sc.auth, ","), joinOrDash(sc.state, ","), fcIdxList(sc.badsig), sc.provArg(), fcSigClassArg(ver, rm.pool))
						record("state", sc, res)
						if round == 0 && place == 0 {
							o.Sample("state(twin) " + ver + " faults=" + strings.Join(sc.labels, "+") + " auth=" + joinOrDash(sc.auth, ",") + " state=" + joinOrDash(sc.state, ",") + " badsig=" + fcIdxList(sc.badsig) + " -> " + res)
						}
						continue
					}
					u := "@newcomer:hs5"
					join := rm.send(spec.MRoomMember, u, sp(u), map[string]interface{}{"membership": "join"}, false, nil)
					if join == nil {
						continue
					}
					res := o.Do("sendjoin", ver, rm.poolArg(), joinOrDash(sc.auth, ","), joinOrDash(sc.state, ","), fcIdxList(sc.badsig), sc.provArg(), strconv.Itoa(rm.idx[join]), fcSigClassArg(ver, rm.pool))
					record("sendjoin", sc, res)
				}
			}
		}
	}
	// ---- the same event twice, once with its signature replaced (every room version): the copy whose signature
	// verifies passes both checks and must stay; exactly the failing copy is dropped
	for round := 0; round < twinRounds; round++ {
		for _, ver := range fcVersions {
			for place := 0; place < fcTwinPlaces; place++ {
				mode := Pick(r, twinModes)
				sc := fcTwinScenario(r, ver, "resigned", place, mode)
				if sc == nil {
					o.Count("twin.gen-failed")
					continue
				}
				rm := sc.rm
				if round%2 == 0 {
					res := o.Do("state", ver, rm.poolArg(), joinOrDash(sc.auth, ","), joinOrDash(sc.state, ","), fcIdxList(sc.badsig), sc.provArg(), fcSigClassArg(ver, rm.pool))
					record("state", sc, res)
					if round == 0 && place == 0 && ver == "10" {
						o.Sample("state(twin) " + ver + " faults=" + strings.Join(sc.labels, "+") + " auth=" + joinOrDash(sc.auth, ",") + " state=" + joinOrDash(sc.state, ",") + " badsig=" + fcIdxList(sc.badsig) + " -> " + res)
					}
					continue
				}
				u := "@newcomer:hs5"
				join := rm.send(spec.MRoomMember, u, sp(u), map[string]interface{}{"membership": "join"}, false, nil)
				if join == nil {
					continue
				}
				res := o.Do("sendjoin", ver, rm.poolArg(), joinOrDash(sc.auth, ","), joinOrDash(sc.state, ","), fcIdxList(sc.badsig), sc.provArg(), strconv.Itoa(rm.idx[join]), fcSigClassArg(ver, rm.pool))
				record("sendjoin", sc, res)
			}
		}
	}
	genFedcheckMore(o, tier, r)
}

func mustAtoi(s string) int { n, _ := strconv.Atoi(s); return n }

// fcHistory builds a room with some extra traffic: messages, a re-join, optionally a disallowed branch.
func fcHistory(r *Rng, ver string) *fcRoom {
	rm := newFcRoom(r, ver)
	if rm == nil {
		return nil
	}
	n := 1 + r.Intn(4)
	for i := 0; i < n; i++ {
		u := Pick(r, rm.joined())
		switch r.Intn(4) {
		case 0:
			rm.send(spec.MRoomMember, u, sp(u), map[string]interface{}{"membership": "join", "displayname": "n" + strconv.Itoa(i)}, true, nil)
		case 1:
			rm.send("m.room.topic", rm.admin, sp(""), map[string]interface{}{"topic": "t" + strconv.Itoa(i)}, true, nil)
		default:
			rm.send("m.room.message", u, nil, map[string]interface{}{"body": "m" + strconv.Itoa(i)}, true, nil)
		}
	}
	return rm
}

// provTable scripts the provider for the given events.
func (rm *fcRoom) provTable(r *Rng, evs []*Ev, mode string) []string {
	var out []string
	for _, e := range evs {
		key := "#" + strconv.Itoa(rm.idx[e])
		m := mode
		if m == "mixed" {
			m = Pick(r, []string{"ret", "ret", "ret", "ret", "ret", "nothing", "error", "other", "extra", "nonstate"})
		}
		switch m {
		case "ret":
			out = append(out, key+"=r"+strconv.Itoa(rm.idx[e]))
		case "nothing":
			out = append(out, key+"=n")
		case "error":
			out = append(out, key+"=e")
		case "other":
			out = append(out, key+"=r"+strconv.Itoa(rm.idx[Pick(r, rm.history)]))
		case "extra":
			out = append(out, key+"=r"+strconv.Itoa(rm.idx[e])+"+"+strconv.Itoa(rm.idx[Pick(r, rm.history)]))
		case "nonstate":
			var msgs []*Ev
			for _, h := range rm.pool {
				if h.PDU.StateKey() == nil {
					msgs = append(msgs, h)
				}
			}
			if len(msgs) > 0 {
				out = append(out, key+"=r"+strconv.Itoa(rm.idx[Pick(r, msgs)]))
			} else {
				out = append(out, key+"=n")
			}
		}
	}
	return out
}

// stateEntry scripts the StateProvider for one event: mode ok (its true state), short (an auth event missing from
// the IDs: slow path), wrong (slow path against a state that refuses it), iderr, sterr, nonstate.
func (rm *fcRoom) stateEntry(r *Rng, e *Ev, mode string) string {
	st := rm.before[e]
	ids := []int{}
	for _, x := range st {
		ids = append(ids, rm.idx[x])
	}
	stl := append([]int{}, ids...)
	switch mode {
	case "short":
		if len(ids) > 0 {
			k := r.Intn(len(ids))
			ids = append(ids[:k:k], ids[k+1:]...)
		}
	case "empty":
		ids = nil
	case "wrong":
		ids = nil
		// the state lacks the sender's membership (or, for the first events, everything)
		var keep []int
		for _, x := range st {
			if x.PDU.Type() == spec.MRoomMember && x.PDU.StateKeyEquals(string(e.PDU.SenderID())) {
				continue
			}
			keep = append(keep, rm.idx[x])
		}
		stl = keep
	case "nonstate":
		ids = nil
		for _, h := range rm.pool {
			if h.PDU.StateKey() == nil {
				stl = append(stl, rm.idx[h])
				break
			}
		}
	case "dupslot":
		// the answer of a remote /state request is not a state: next to events of the true state it holds superseded
		// events of the same (type, state_key) - the previous power levels, the membership before the ban, ...
		slots, inState := map[[2]string]bool{}, map[*Ev]bool{}
		for _, x := range st {
			if sk := x.PDU.StateKey(); sk != nil {
				slots[[2]string{x.PDU.Type(), *sk}] = true
			}
			inState[x] = true
		}
		var cands []int
		for _, h := range rm.pool {
			if sk := h.PDU.StateKey(); sk != nil && !inState[h] && h != e && slots[[2]string{h.PDU.Type(), *sk}] {
				cands = append(cands, rm.idx[h])
			}
		}
		if len(cands) > 0 {
			for i := len(cands) - 1; i > 0; i-- {
				j := r.Intn(i + 1)
				cands[i], cands[j] = cands[j], cands[i]
			}
			k := 1 + r.Intn(len(cands))
			if r.Bool() {
				stl = append(stl, cands[:k]...)
			} else {
				stl = append(append([]int{}, cands[:k]...), stl...)
			}
		}
	case "iderr":
		return strconv.Itoa(rm.idx[e]) + ";e;" + fcIdxList(stl)
	case "sterr":
		return strconv.Itoa(rm.idx[e]) + ";-;e"
	}
	return strconv.Itoa(rm.idx[e]) + ";" + fcIdxList(ids) + ";" + fcIdxList(stl)
}

// fcOmitKinds: an event whose auth_events leave out ONE event of the state before it -- the one that decides.
//   levels-message  events_default is 50; a member without power sends a message citing create and membership only
//   levels-state    the same member sets the topic (state_default 50) without citing the power levels
//   join-rules      a newcomer joins the public room without citing the join rules
//   membership      a member sends a message without citing their own membership
//   ban             a banned user joins the public room citing everything but the ban
//   none            control: nothing is left out
var fcOmitKinds = []string{"levels-message", "levels-state", "join-rules", "membership", "ban", "none"}

func fcOmitScenario(r *Rng, ver, kind string) (*fcRoom, *Ev) {
	rm := fcHistory(r, ver)
	if rm == nil {
		return nil, nil
	}
	us := rm.joined()
	u := us[len(us)-1] // the last of the joined users: no power
	if u == rm.admin || u == authUsers[1] {
		return nil, nil
	}
	mk := func(typ, sender string, stateKey *string, content interface{}, omit *Ev) *Ev {
		var auth []string
		for _, id := range rm.authFor(typ, sender, stateKey) {
			if omit == nil || id != omit.ID {
				auth = append(auth, id)
			}
		}
		if auth == nil {
			auth = []string{}
		}
		e, cls := rm.g.MkU(typ, sender, stateKey, content, rm.prev(), auth, nil)
		if e == nil || cls != "o" {
			return nil
		}
		rm.add(e, cls)
		rm.before[e] = rm.state()
		return e
	}
	switch kind {
	case "levels-message", "levels-state":
		var plc map[string]interface{}
		if json.Unmarshal(rm.pl.PDU.Content(), &plc) != nil {
			return nil, nil
		}
		plc["events_default"] = 50
		plc["state_default"] = 50
		if rm.send(spec.MRoomPowerLevels, rm.admin, sp(""), plc, true, nil) == nil {
			return nil, nil
		}
		if kind == "levels-message" {
			return rm, mk("m.room.message", u, nil, map[string]interface{}{"body": "quiet"}, rm.pl)
		}
		return rm, mk("m.room.topic", u, sp(""), map[string]interface{}{"topic": "mine"}, rm.pl)
	case "join-rules":
		n := "@newcomer:hs5"
		return rm, mk(spec.MRoomMember, n, sp(n), map[string]interface{}{"membership": "join"}, rm.jr)
	case "membership":
		return rm, mk("m.room.message", u, nil, map[string]interface{}{"body": "hi"}, rm.member[u])
	case "ban":
		if rm.send(spec.MRoomMember, rm.admin, sp(u), map[string]interface{}{"membership": "ban"}, true, nil) == nil {
			return nil, nil
		}
		return rm, mk(spec.MRoomMember, u, sp(u), map[string]interface{}{"membership": "join"}, rm.member[u])
	}
	return rm, mk("m.room.message", u, nil, map[string]interface{}{"body": "hi"}, nil)
}

var fcStateModes = []string{"ok", "ok", "ok", "ok", "short", "empty", "wrong", "nonstate", "iderr", "sterr", "dupslot"}

// fcStateHasSlotClash: does some scripted state (third field of a StateProvider entry) hold two events for one
// (type, state_key)?
func fcStateHasSlotClash(env *fcEnv, sprov string) bool {
	for _, ent := range splitList(sprov, "|") {
		p := strings.Split(ent, ";")
		if len(p) != 3 || p[2] == "e" {
			continue
		}
		slots := map[[2]string]bool{}
		for _, i := range natList(p[2]) {
			if i < 0 || i >= len(env.pool) {
				continue
			}
			if sk := env.pool[i].StateKey(); sk != nil {
				t := [2]string{env.pool[i].Type(), *sk}
				if slots[t] {
					return true
				}
				slots[t] = true
			}
		}
	}
	return false
}

func genFedcheckMore(o *Out, tier string, r *Rng) {
	nChain, nAt, nLoad, nBf := 200, 200, 160, 120
	if tier == "thorough" {
		nChain, nAt, nLoad, nBf = 6000, 6000, 4000, 3000
	}
	// ---- VerifyEventAuthChain
	for i := 0; i < nChain; i++ {
		ver := Pick(r, fcVersions)
		rm := fcHistory(r, ver)
		if rm == nil {
			continue
		}
		label := "plain"
		root := rm.history[len(rm.history)-1]
		switch r.Intn(8) {
		case 0: // a refused event deep in the chain: a banned user's join, cited by their later message
			us := rm.joined()
			u := us[len(us)-1]
			if u != rm.admin {
				if b := rm.send(spec.MRoomMember, rm.admin, sp(u), map[string]interface{}{"membership": "ban"}, true, nil); b != nil {
					if j := rm.send(spec.MRoomMember, u, sp(u), map[string]interface{}{"membership": "join"}, true, nil); j != nil {
						if m := rm.send("m.room.message", u, nil, map[string]interface{}{"body": "x"}, true, nil); m != nil {
							root, label = m, "refused-in-chain"
						}
					}
				}
			}
		case 1: // the root itself is refused
			if m := rm.send("m.room.topic", rm.joined()[len(rm.joined())-1], sp(""), map[string]interface{}{"topic": "x"}, false, nil); m != nil {
				root, label = m, "refused-root"
			}
		case 2: // a cycle (only where event IDs are free text)
			if rm.g.fmtV == 1 {
				u := Pick(r, rm.joined())
				idA := "$e" + strconv.Itoa(rm.g.n+1) + ":" + domainOf(u)
				idB := "$e" + strconv.Itoa(rm.g.n+2) + ":" + domainOf(u)
				a, ca := rm.g.MkU("x.a", u, sp("a"), map[string]interface{}{}, rm.prev(), append(rm.authFor("x.a", u, sp("a")), idB), nil)
				b, cb := rm.g.MkU("x.b", u, sp("b"), map[string]interface{}{}, rm.prev(), append(rm.authFor("x.b", u, sp("b")), idA), nil)
				if a != nil && b != nil && a.ID == idA && b.ID == idB {
					rm.add(a, ca)
					rm.add(b, cb)
					rm.history = append(rm.history, a, b)
					root, label = b, "cycle"
				}
			}
		case 3: // cites itself / an unknown event / the same event twice
			u := Pick(r, rm.joined())
			auth := rm.authFor("x.s", u, sp(""))
			auth = append(auth, Pick(r, []string{"$unknown:hs1", auth[0]}))
			e, c := rm.g.MkU("x.s", u, sp("s"), map[string]interface{}{}, rm.prev(), auth, nil)
			if e != nil {
				rm.add(e, c)
				root, label = e, "odd-refs"
			}
		case 4:
			root = Pick(r, rm.history)
		}
		mode := Pick(r, []string{"ret", "ret", "ret", "mixed", "mixed", "nothing", "error"})
		prov := rm.provTable(r, rm.history, mode)
		if r.Chance(30) {
			prov = append(prov, "h"+hx([]byte("$unknown:hs1"))+"="+Pick(r, []string{"n", "e", "r0"}))
		}
		if r.Chance(35) {
			// a provider that hands out at most k events per call: what the batch request leaves out is fetched by
			// the single-ID retry inside checkAllowedByAuthEvents
			k := Pick(r, []int{0, 1, 1, 2, 2, 3})
			prov = append(prov, "max="+strconv.Itoa(k))
			o.Count("chain.prov.max" + strconv.Itoa(k))
		}
		res := o.Do("chain", ver, rm.poolArg(), strconv.Itoa(rm.idx[root]), joinOrDash(prov, ","))
		o.Count("chain." + strings.SplitN(res, "|", 2)[0])
		o.Count("chain.case." + label)
		o.Count("chain.prov." + mode)
	}
	// ---- auth chains through a fetched auth event that cites nothing and is refused: every kind x every room version
	rogueRounds := 1
	if tier == "thorough" {
		rogueRounds = 12
	}
	for round := 0; round < rogueRounds; round++ {
		for _, ver := range fcVersions {
			for _, kind := range fcRogueKinds {
				rm, root, _ := fcRogueChain(r, ver, kind)
				if rm == nil {
					o.Count("chain.rogue.gen-failed")
					continue
				}
				prov := rm.provTable(r, rm.history, "ret")
				if r.Chance(40) {
					// entries for IDs nobody cites may say anything: they are never asked for
					prov = append(prov, "h"+hx([]byte("$nobody:hs1"))+"=r0")
				}
				res := o.Do("chain", ver, rm.poolArg(), strconv.Itoa(rm.idx[root]), joinOrDash(prov, ","))
				o.Count("chain." + strings.SplitN(res, "|", 2)[0])
				o.Count("chain.case.rogue-" + kind)
				if round == 0 && ver == "6" {
					o.Sample("chain(rogue-" + kind + ") " + ver + " -> " + res)
				}
				// the same chain against the same provider handing out at most 1 / 2 events per call: the refused
				// event then reaches the lookup table through the single-ID retry, and must be verified all the same
				for _, k := range []string{"1", "2"} {
					res := o.Do("chain", ver, rm.poolArg(), strconv.Itoa(rm.idx[root]), joinOrDash(append(append([]string{}, prov...), "max="+k), ","))
					o.Count("chain." + strings.SplitN(res, "|", 2)[0])
					o.Count("chain.case.rogue-" + kind + ".max" + k)
				}
			}
		}
	}
	// ---- VerifyAuthRulesAtState
	for i := 0; i < nAt; i++ {
		ver := Pick(r, fcVersions)
		rm := fcHistory(r, ver)
		if rm == nil {
			continue
		}
		e := Pick(r, rm.history)
		if r.Chance(20) {
			if m := rm.send("m.room.topic", rm.joined()[len(rm.joined())-1], sp(""), map[string]interface{}{"topic": "x"}, false, nil); m != nil {
				e = m // refused by the state before it
			}
		}
		mode := Pick(r, fcStateModes)
		allow := Pick(r, []string{"0", "1"})
		res := o.Do("atstate", ver, rm.poolArg(), strconv.Itoa(rm.idx[e]), allow, rm.stateEntry(r, e, mode))
		o.Count("atstate." + strings.SplitN(res, "|", 2)[0])
		o.Count("atstate.mode." + mode + ".allow" + allow)
	}
	// ---- events whose auth_events leave out a state event that decides the verdict (power levels, join rules, the
	// sender's membership, a ban): the state before the event decides, not the event's own choice of auth events
	omitRounds := 1
	if tier == "thorough" {
		omitRounds = 10
	}
	for round := 0; round < omitRounds; round++ {
		for _, ver := range fcVersions {
			for _, kind := range fcOmitKinds {
				rm, e := fcOmitScenario(r, ver, kind)
				if rm == nil || e == nil {
					o.Count("atstate.omit.gen-failed")
					continue
				}
				for _, allow := range []string{"0", "1"} {
					mode := "ok"
					if allow == "1" && r.Bool() {
						mode = "short" // an auth event ID missing from the state IDs: validation does not short-circuit
					}
					res := o.Do("atstate", ver, rm.poolArg(), strconv.Itoa(rm.idx[e]), allow, rm.stateEntry(r, e, mode))
					o.Count("atstate." + strings.SplitN(res, "|", 2)[0])
					o.Count("atstate.omit." + kind + ".allow" + allow + "." + strings.SplitN(res, "|", 2)[0])
					if round == 0 && ver == "10" && allow == "0" {
						o.Sample("atstate(omit-" + kind + ") " + ver + " -> " + res)
					}
				}
			}
		}
	}
	// ---- a returned "state" with several events for one (type, state_key): the superseded event next to the current one
	// (the power levels before events_default / state_default were raised to 50, the membership before the ban, an older
	// member event of the sender).  One answer on every evaluation, and that answer is a refusal: such a set is no state.
	for round := 0; round < omitRounds; round++ {
		for _, ver := range fcVersions {
			for _, kind := range fcOmitKinds {
				rm, e := fcOmitScenario(r, ver, kind)
				if rm == nil || e == nil {
					o.Count("atstate.dupslot.gen-failed")
					continue
				}
				ent := rm.stateEntry(r, e, "dupslot")
				for _, allow := range []string{"0", "1"} {
					res := o.Do("atstate", ver, rm.poolArg(), strconv.Itoa(rm.idx[e]), allow, ent)
					o.Count("atstate.dupslot." + kind + ".allow" + allow + "." + strings.SplitN(res, "|", 2)[0])
				}
			}
		}
	}
	// ---- LoadAndVerify / RequestBackfill
	mkLoad := func(rm *fcRoom) (raws []string, badsig []int, prov []string, sprov []string) {
		evs := append([]*Ev{}, rm.history...)
		nf := []int{0, 0, 1, 1, 2, 3}[r.Intn(6)]
		for k := 0; k < nf; k++ {
			switch r.Intn(7) {
			case 0:
				badsig = append(badsig, rm.idx[Pick(r, rm.history)])
			case 1:
				raws = append(raws, "x"+strconv.Itoa(r.Intn(len(fcBadRaws))))
			case 2: // the same event twice
				evs = append(evs, Pick(r, rm.history))
			case 3: // refused by its auth events
				if m := rm.send("m.room.topic", rm.joined()[len(rm.joined())-1], sp(""), map[string]interface{}{"topic": "x"}, false, nil); m != nil {
					evs = append(evs, m)
				}
			case 4: // too large but persistable: an error for LoadAndVerify
				if m := rm.send("x.long", rm.admin, sp(strings.Repeat("é", 200)), map[string]interface{}{}, false, nil); m != nil {
					evs = append(evs, m)
				}
			case 5: // from another room
				other := NewRoomGen(r, rm.ver)
				other.n = 500 + k
				other.RoomID = "!other:hs1"
				if m, c := other.MkU("m.room.message", authUsers[1], nil, map[string]interface{}{"body": "o"}, []string{"$p:hs1"}, []string{}, nil); m != nil {
					evs = append(evs, rm.add(m, c))
				}
			case 6:
			}
		}
		if r.Chance(40) {
			for i := len(evs) - 1; i > 0; i-- {
				j := r.Intn(i + 1)
				evs[i], evs[j] = evs[j], evs[i]
			}
		}
		if r.Chance(50) && len(evs) > 3 {
			evs = evs[r.Intn(3):]
		}
		for _, e := range evs {
			raws = append(raws, rm.tok(e))
		}
		r.shuffleStrings(raws[:min(len(raws), 2)])
		prov = rm.provTable(r, rm.history, Pick(r, []string{"ret", "ret", "ret", "mixed", "nothing"}))
		seen := map[*Ev]bool{}
		for _, e := range evs {
			if !seen[e] && rm.before[e] != nil {
				seen[e] = true
				sprov = append(sprov, rm.stateEntry(r, e, Pick(r, fcStateModes)))
			}
		}
		return
	}
	orderOf := func(rm *fcRoom, raws []string) string {
		// what ReverseTopologicalOrdering makes of the events LoadAndVerify hands it
		impl := gmsl.MustGetRoomVersion(gmsl.RoomVersion(rm.ver))
		var evs []gmsl.PDU
		seen := map[string]bool{}
		for _, t := range raws {
			if t[0] != 'o' {
				continue
			}
			e := rm.pool[mustAtoi(t[1:])]
			pdu, err := impl.NewEventFromUntrustedJSON(e.JSON)
			if err != nil || seen[pdu.EventID()] {
				continue
			}
			seen[pdu.EventID()] = true
			evs = append(evs, pdu)
		}
		var out []int
		for _, p := range gmsl.ReverseTopologicalOrdering(evs, gmsl.TopologicalOrderByPrevEvents) {
			for i, e := range rm.pool {
				if e.ID == p.EventID() && string(e.JSON) == string(p.JSON()) {
					out = append(out, i)
					break
				}
			}
		}
		return fcIdxList(out)
	}
	for i := 0; i < nLoad; i++ {
		ver := Pick(r, fcVersions)
		rm := fcHistory(r, ver)
		if rm == nil {
			continue
		}
		raws, badsig, prov, sprov := mkLoad(rm)
		res := o.Do("load", ver, rm.poolArg(), joinOrDash(raws, ","), fcIdxList(badsig), joinOrDash(prov, ","), joinOrDash(sprov, "|"), orderOf(rm, raws))
		for _, c := range []string{"ok:", "sig:", "chain:", "rules:", "parse", "empty"} {
			if strings.Contains(res, c) {
				o.Count("load.has." + strings.TrimSuffix(c, ":"))
			}
		}
		if strings.HasPrefix(res, "diverge") || strings.HasPrefix(res, "panic") {
			o.Count("load." + res[:6])
		}
	}
	// the same chains through LoadAndVerify and RequestBackfill: the transaction carries the root alone, the root and
	// the refused event, or the whole history; the provider has every event; the state before each event is its true state
	backfillProps := func(args []string, res string) {
		if strings.HasPrefix(res, "ok:") {
			o.Do("backfill_props", append(append([]string{}, args...), hx([]byte(res)))...)
		}
	}
	for round := 0; round < rogueRounds; round++ {
		for _, ver := range fcVersions {
			for _, kind := range fcRogueKinds {
				rm, root, rogue := fcRogueChain(r, ver, kind)
				if rm == nil {
					continue
				}
				var evs []*Ev
				switch r.Intn(3) {
				case 0:
					evs = []*Ev{root}
				case 1:
					evs = []*Ev{rogue, root}
					if root == rogue {
						evs = []*Ev{root}
					}
				default:
					evs = append(evs, rm.history...)
				}
				var raws, sprov []string
				for _, e := range evs {
					raws = append(raws, rm.tok(e))
					if rm.before[e] != nil {
						sprov = append(sprov, rm.stateEntry(r, e, "ok"))
					}
				}
				prov := rm.provTable(r, rm.history, "ret")
				if r.Chance(50) {
					prov = append(prov, "max="+Pick(r, []string{"1", "2"}))
					o.Count("load.case.rogue-capped-provider")
				}
				if round%2 == 0 {
					res := o.Do("load", ver, rm.poolArg(), joinOrDash(raws, ","), "-", joinOrDash(prov, ","), joinOrDash(sprov, "|"), orderOf(rm, raws))
					o.Count("load.case.rogue-" + kind)
					if strings.Contains(res, "chain:") {
						o.Count("load.has.chain")
					}
					if round == 0 && ver == "6" {
						o.Sample("load(rogue-" + kind + ") " + ver + " raws=" + strings.Join(raws, ",") + " -> " + res)
					}
				}
				if round%2 == 1 || tier != "thorough" {
					args := []string{ver, rm.poolArg(), strings.Join(raws, ","), "-", joinOrDash(prov, ","), joinOrDash(sprov, "|"), orderOf(rm, raws), "100"}
					res := o.Do("backfill", args...)
					o.Count("backfill.case.rogue-" + kind)
					backfillProps(args, res)
				}
			}
		}
	}
	for i := 0; i < nBf; i++ {
		ver := Pick(r, fcVersions)
		rm := fcHistory(r, ver)
		if rm == nil {
			continue
		}
		ns := 1 + r.Intn(3)
		var servers, orders []string
		var badsig []int
		var prov, sprov []string
		for k := 0; k < ns; k++ {
			if r.Chance(15) {
				servers = append(servers, "e")
				continue
			}
			raws, bs, pv, sp := mkLoad(rm)
			if len(raws) == 0 {
				raws = []string{rm.tok(rm.history[0])}
			}
			servers = append(servers, strings.Join(raws, ","))
			orders = append(orders, orderOf(rm, raws))
			badsig = append(badsig, bs...)
			if k == 0 {
				prov = pv
			}
			sprov = append(sprov, sp...)
		}
		limit := strconv.Itoa(Pick(r, []int{1, 3, 5, 100}))
		bargs := []string{ver, rm.poolArg(), strings.Join(servers, "|"), fcIdxList(badsig), joinOrDash(prov, ","), joinOrDash(sprov, "|"), joinOrDash(orders, "|"), limit}
		res := o.Do("backfill", bargs...)
		backfillProps(bargs, res)
		o.Count("backfill." + strings.SplitN(res, ":", 2)[0])
		if strings.Contains(res, "|lasterr") {
			o.Count("backfill.lasterr")
		}
	}
}
