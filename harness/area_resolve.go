package main

// Area `resolve` (C16): fclient.ResolveServer with the process-wide http.DefaultTransport and
// net.DefaultResolver replaced by in-process stubs (the approach of /repo/fclient/resolve_test.go,
// without sockets): a scripted RoundTripper for /.well-known/matrix/server and a fake DNS server
// (miekg/dns messages over an in-memory connection handed to Go's pure-Go resolver).

import (
	"bytes"
	"context"
	"crypto/tls"
	"crypto/x509"
	"sort"
	"syscall"
	"net/http/httptest"
	"os"
	"encoding/binary"
	"encoding/json"
	"errors"
	"fmt"
	"io"
	"net"
	"net/http"
	"strconv"
	"strings"
	"sync"
	"time"

	"github.com/matrix-org/gomatrixserverlib/fclient"
	"github.com/matrix-org/gomatrixserverlib/spec"
	"github.com/miekg/dns"
)

func init() {
	areas["resolve"] = Area{Gen: genResolve, Exec: execResolve}
	_ = os.Setenv("NO_PROXY", "*")
	_ = os.Setenv("no_proxy", "*")
}

// ---- the network of the RoundTrip op: four listeners on every loopback address ----
//
//	port 1 = A  answers every request
//	port 2 = B  refuses every TLS handshake (after reading the ClientHello)
//	port 3 = C  accepts the TCP connection and closes it at once
//	port 4 = F  flaky: drops the first K connections of each request after reading the request head, answers later ones
//	            (K is an argument of the op)
//
// The fake DNS gives every host name its own loopback address, so each server knows -- from the local address of the
// accepted connection -- which NAME was dialled. Every connection attempt is recorded as
// <server>,<hx dialled host>[,<hx SNI>[,<hx Host header>]]  (D = dropped by F, F = answered by F).

var (
	c16RtOnce   sync.Once
	c16RtMu     sync.Mutex
	c16RtTrace  []string
	c16RtPorts  [5]string // real ports of 1..4
	c16RtNames_ = map[string]string{} // loopback address -> name it was handed out for (per op)
	c16RtFlakyK int
	c16RtFlakyN int
)

func c16RtRecord(s string) {
	c16RtMu.Lock()
	c16RtTrace = append(c16RtTrace, s)
	c16RtMu.Unlock()
}

// c16RtUnmap replaces the real ports by the symbolic ones in an observed string.
func c16RtUnmap(s string) string {
	for k := 1; k <= 4; k++ {
		s = strings.ReplaceAll(s, ":"+c16RtPorts[k], ":"+strconv.Itoa(k))
	}
	return s
}

func c16RtMap(s string) string {
	for k := 1; k <= 4; k++ {
		if strings.HasSuffix(s, ":"+strconv.Itoa(k)) {
			return s[:len(s)-1] + c16RtPorts[k]
		}
	}
	return s
}

// c16RtAddrOf: the loopback address the fake DNS answers with for a name (a function of the name).
func c16RtAddrOf(name string) net.IP {
	name = strings.ToLower(strings.TrimSuffix(name, "."))
	h := uint32(2166136261)
	for i := 0; i < len(name); i++ {
		h = (h ^ uint32(name[i])) * 16777619
	}
	ip := net.IPv4(127, byte(1+h%100), byte((h>>8)%250), byte(1+(h>>16)%250))
	c16RtMu.Lock()
	c16RtNames_[ip.String()] = name
	c16RtMu.Unlock()
	return ip
}

// c16RtDialled names what was dialled, given the local address of an accepted connection.
func c16RtDialled(a net.Addr) string {
	host, _, err := net.SplitHostPort(a.String())
	if err != nil {
		return "?"
	}
	c16RtMu.Lock()
	defer c16RtMu.Unlock()
	if n, ok := c16RtNames_[host]; ok {
		return hx([]byte(n))
	}
	return hx([]byte(host))
}

func c16RtServers() {
	c16RtOnce.Do(func() {
		listen := func() net.Listener {
			l, err := net.Listen("tcp4", "0.0.0.0:0")
			if err != nil {
				panic("harness: cannot listen: " + err.Error())
			}
			return l
		}
		var pendingSNI sync.Map // remote address -> SNI, so that a handler can report the SNI of its connection
		sniOf := func(r *http.Request) string {
			sni, _ := pendingSNI.Load(r.RemoteAddr)
			return hx([]byte(fmt.Sprint(sni)))
		}
		dialOf := func(r *http.Request) string {
			if a, ok := r.Context().Value(http.LocalAddrContextKey).(net.Addr); ok {
				return c16RtDialled(a)
			}
			return "?"
		}
		keepSNI := &tls.Config{GetConfigForClient: func(h *tls.ClientHelloInfo) (*tls.Config, error) {
			pendingSNI.Store(h.Conn.RemoteAddr().String(), h.ServerName)
			return nil, nil
		}}
		start := func(srv *httptest.Server, cfg *tls.Config) string {
			srv.Listener.Close()
			srv.Listener = listen()
			srv.Config.ErrorLog = nil
			srv.TLS = cfg
			srv.StartTLS()
			_, port, _ := net.SplitHostPort(srv.Listener.Addr().String())
			return port
		}
		a := httptest.NewUnstartedServer(http.HandlerFunc(func(w http.ResponseWriter, r *http.Request) {
			c16RtRecord("A," + dialOf(r) + "," + sniOf(r) + "," + hx([]byte(c16RtUnmap(r.Host))))
			w.Header().Set("Content-Type", "application/json")
			_, _ = w.Write([]byte("{}"))
		}))
		c16RtPorts[1] = start(a, keepSNI)
		b := httptest.NewUnstartedServer(http.HandlerFunc(func(w http.ResponseWriter, r *http.Request) {}))
		c16RtPorts[2] = start(b, &tls.Config{GetConfigForClient: func(h *tls.ClientHelloInfo) (*tls.Config, error) {
			c16RtRecord("B," + c16RtDialled(h.Conn.LocalAddr()) + "," + hx([]byte(h.ServerName)))
			return nil, errors.New("stub: handshake refused")
		}})
		cl := listen()
		_, c16RtPorts[3], _ = net.SplitHostPort(cl.Addr().String())
		go func() {
			for {
				conn, err := cl.Accept()
				if err != nil {
					return
				}
				c16RtRecord("C," + c16RtDialled(conn.LocalAddr()))
				_ = conn.Close()
			}
		}()
		f := httptest.NewUnstartedServer(http.HandlerFunc(func(w http.ResponseWriter, r *http.Request) {
			c16RtMu.Lock()
			c16RtFlakyN++
			drop := c16RtFlakyN <= c16RtFlakyK
			c16RtMu.Unlock()
			rec := "," + dialOf(r) + "," + sniOf(r) + "," + hx([]byte(c16RtUnmap(r.Host)))
			if drop {
				c16RtRecord("D" + rec)
				if hj, ok := w.(http.Hijacker); ok {
					if conn, _, err := hj.Hijack(); err == nil {
						_ = conn.Close()
						return
					}
				}
				panic(http.ErrAbortHandler)
			}
			c16RtRecord("F" + rec)
			w.Header().Set("Connection", "close") // one request per connection: K counts connections
			w.Header().Set("Content-Type", "application/json")
			_, _ = w.Write([]byte("{}"))
		}))
		c16RtPorts[4] = start(f, keepSNI)
	})
}

// ---- the network of the policy op: REAL clients with allow / deny lists, real listeners on loopback addresses ----
//
// All of 127.0.0.0/8 is local. Hosts (fake DNS):
//	h1.example.com 127.16.1.1   h2.example.com 127.16.1.2   h3.example.com 127.16.2.1   h6.example.com ::1
//	hh.example.com 127.16.1.1 and 127.16.2.1 (in this order)
// Listeners: F = federation server on 0.0.0.0:<ephemeral> (symbolic port 5), G = the same on [::1]:<ephemeral>
// (symbolic port 6), W = an HTTPS server on port 443 of the three IPv4 addresses, serving /.well-known/matrix/server
// by script (per Host: 404, a delegation, a redirect to another host's document) and {} elsewhere. Nothing listens on
// 8448. Every listener records each connection it ACCEPTS as <local address>/<F|G|W>: that is where a connection
// was made, whatever happened on it afterwards. The servers present the httptest certificate (*.example.com,
// 127.0.0.1, ::1); it is the only root the well-known fetch trusts (http.DefaultTransport is a real transport with
// that root), the federation requests skip verification.
// The listeners on port 443 are opened per op under a file lock, so that checks running side by side do not collide.

var c16PolHosts = map[string][]string{
	"h1.example.com": {"127.16.1.1"}, "h2.example.com": {"127.16.1.2"}, "h3.example.com": {"127.16.2.1"},
	"h6.example.com": {"::1"}, "hh.example.com": {"127.16.1.1", "127.16.2.1"},
}

var c16PolWAddrs = []string{"127.16.1.1", "127.16.1.2", "127.16.2.1"}

var (
	c16PolOnce     sync.Once
	c16PolMu       sync.Mutex
	c16PolArrivals []string
	c16PolWK       map[string]string // lower-case host -> n | s<m.server> | r<host>
	c16PolPortF    string
	c16PolPortG    string
	c16PolTLS      *tls.Config
	c16PolRoots    *x509.CertPool
)

type c16PolListener struct {
	net.Listener
	sym string
}

func (l c16PolListener) Accept() (net.Conn, error) {
	c, err := l.Listener.Accept()
	if err == nil {
		if host, _, e := net.SplitHostPort(c.LocalAddr().String()); e == nil {
			c16PolMu.Lock()
			c16PolArrivals = append(c16PolArrivals, host+"/"+l.sym)
			c16PolMu.Unlock()
		}
	}
	return c, err
}

// c16PolMap replaces the symbolic ports 5 and 6 at the end of a server name by the real ones.
func c16PolMap(s string) string {
	switch {
	case strings.HasSuffix(s, ":5"):
		return s[:len(s)-1] + c16PolPortF
	case strings.HasSuffix(s, ":6"):
		return s[:len(s)-1] + c16PolPortG
	}
	return s
}

func c16PolHandler(w http.ResponseWriter, r *http.Request) {
	if r.URL.Path == "/.well-known/matrix/server" {
		host := strings.ToLower(r.Host)
		if h, _, err := net.SplitHostPort(host); err == nil {
			host = h
		}
		c16PolMu.Lock()
		k := c16PolWK[host]
		c16PolMu.Unlock()
		switch {
		case strings.HasPrefix(k, "s"):
			b, _ := json.Marshal(map[string]string{"m.server": c16PolMap(k[1:])})
			w.Header().Set("Content-Type", "application/json")
			_, _ = w.Write(b)
		case strings.HasPrefix(k, "r"):
			http.Redirect(w, r, "https://"+k[1:]+"/.well-known/matrix/server", http.StatusFound)
		default:
			http.NotFound(w, r)
		}
		return
	}
	w.Header().Set("Content-Type", "application/json")
	_, _ = w.Write([]byte("{}"))
}

func c16PolServers() {
	c16PolOnce.Do(func() {
		f := httptest.NewUnstartedServer(http.HandlerFunc(c16PolHandler))
		f.Listener.Close()
		l4, err := net.Listen("tcp4", "0.0.0.0:0")
		if err != nil {
			panic("harness: cannot listen: " + err.Error())
		}
		f.Listener = c16PolListener{l4, "F"}
		f.Config.ErrorLog = nil
		f.StartTLS()
		_, c16PolPortF, _ = net.SplitHostPort(l4.Addr().String())
		c16PolTLS = &tls.Config{Certificates: f.TLS.Certificates}
		c16PolRoots = x509.NewCertPool()
		c16PolRoots.AddCert(f.Certificate())
		l6, err := net.Listen("tcp6", "[::1]:0")
		if err != nil {
			panic("harness: cannot listen on ::1: " + err.Error())
		}
		_, c16PolPortG, _ = net.SplitHostPort(l6.Addr().String())
		g := &http.Server{Handler: http.HandlerFunc(c16PolHandler), TLSConfig: c16PolTLS.Clone()}
		g.ErrorLog = nil
		go func() { _ = g.ServeTLS(c16PolListener{l6, "G"}, "", "") }()
	})
}

// c16PolPermitted: in no denied range and in at least one allowed range (entries that are not CIDRs name no range).
func c16PolPermitted(ip net.IP, allow, deny []string) bool {
	in := func(l []string) bool {
		for _, c := range l {
			if _, n, err := net.ParseCIDR(c); err == nil && n.Contains(ip) {
				return true
			}
		}
		return false
	}
	return ip != nil && !in(deny) && in(allow)
}

func c16PolList(arg string) []string {
	if arg == "-" {
		return nil
	}
	var out []string
	for _, e := range strings.Split(arg, ",") {
		out = append(out, string(unhx(e)))
	}
	return out
}

// policy <opts> <allow> <deny> <cache lists> <hx server name> <well-known script>
//
//	opts         letters: w = WithWellKnownSRVLookups(true), c = WithDNSCache; - = neither; p (with c) = a second, unrestricted
//	             client sharing the cache object made the same request first
//	allow, deny  - (nil) | hx(cidr),hx(cidr)…   the client's WithAllowDenyNetworks lists
//	cache lists  same | open | nil   the lists NewDNSCache is given: the client's / allow everything / nil, nil
//	server name  with the symbolic ports 5 (F) and 6 (G)
//	script       . | host=kind,…   kind = n (404) | s<hx m.server> | r<hx host to redirect to>
//
// -> arr:<sorted set of <address>/<F|G|W> where a connection was accepted>|ok or |err (the request's outcome)
func c16ExecPolicy(args []string) string {
	c16PolServers()
	lock, err := os.OpenFile("/tmp/verif-c16-policy.lock", os.O_CREATE|os.O_RDWR, 0o666)
	if err != nil {
		return "err:harness-lock"
	}
	defer lock.Close()
	if err := syscall.Flock(int(lock.Fd()), syscall.LOCK_EX); err != nil {
		return "err:harness-lock"
	}
	defer func() { _ = syscall.Flock(int(lock.Fd()), syscall.LOCK_UN) }()
	var ws []*http.Server
	defer func() {
		for _, w := range ws {
			_ = w.Close()
		}
	}()
	for _, a := range c16PolWAddrs {
		var l net.Listener
		for try := 0; try < 50; try++ {
			if l, err = net.Listen("tcp4", a+":443"); err == nil {
				break
			}
			time.Sleep(100 * time.Millisecond)
		}
		if err != nil {
			return "err:harness-cannot-listen-on-443"
		}
		w := &http.Server{Handler: http.HandlerFunc(c16PolHandler), TLSConfig: c16PolTLS.Clone()}
		w.ErrorLog = nil
		ws = append(ws, w)
		go func(w *http.Server, l net.Listener) { _ = w.ServeTLS(c16PolListener{l, "W"}, "", "") }(w, l)
	}
	wk := map[string]string{}
	if args[5] != "." {
		for _, e := range strings.Split(args[5], ",") {
			kv := strings.SplitN(e, "=", 2)
			k := kv[1]
			if len(k) > 1 {
				k = k[:1] + string(unhx(k[1:]))
			}
			wk[kv[0]] = k
		}
	}
	c16PolMu.Lock()
	c16PolArrivals = nil
	c16PolWK = wk
	c16PolMu.Unlock()
	hosts := map[string][]net.IP{}
	for n, as := range c16PolHosts {
		for _, a := range as {
			hosts[n] = append(hosts[n], net.ParseIP(a))
		}
	}
	allow, deny := c16PolList(args[1]), c16PolList(args[2])
	name := c16PolMap(string(unhx(args[4])))
	oldT, oldR := http.DefaultTransport, net.DefaultResolver
	wkTransport := &http.Transport{TLSClientConfig: &tls.Config{RootCAs: c16PolRoots}, DisableKeepAlives: true}
	http.DefaultTransport = wkTransport
	net.DefaultResolver = &net.Resolver{PreferGo: true, Dial: func(ctx context.Context, network, address string) (net.Conn, error) {
		return &c16MemConn{f: &c16FakeDNS{hosts: hosts, script: map[string]c16SrvAnswer{}}}, nil
	}}
	defer func() { http.DefaultTransport, net.DefaultResolver = oldT, oldR }()
	opts := []fclient.ClientOption{fclient.WithSkipVerify(true), fclient.WithTimeout(5 * time.Second), fclient.WithAllowDenyNetworks(allow, deny)}
	if strings.Contains(args[0], "w") {
		opts = append(opts, fclient.WithWellKnownSRVLookups(true))
	}
	if strings.Contains(args[0], "c") {
		ca, cd := allow, deny
		switch args[3] {
		case "open":
			ca, cd = []string{"0.0.0.0/0", "::/0"}, nil
		case "nil":
			ca, cd = nil, nil
		}
		cache := fclient.NewDNSCache(16, time.Minute, ca, cd)
		opts = append(opts, fclient.WithDNSCache(cache))
		if strings.Contains(args[0], "p") {
			// p: ANOTHER client, permitted to go anywhere, shares the cache object and asks for the same name first; the lists
			// of the client under test must still govern its own connections (seeded change C16-r8m1: the cache memoised the
			// first client's dialer with its control function)
			first := fclient.NewClient(fclient.WithSkipVerify(true), fclient.WithTimeout(5*time.Second),
				fclient.WithAllowDenyNetworks([]string{"0.0.0.0/0", "::/0"}, nil), fclient.WithDNSCache(cache))
			if req0, err := http.NewRequest("GET", "matrix://"+name+"/_matrix/federation/v1/version", nil); err == nil {
				if resp0, err := first.DoHTTPRequest(context.Background(), req0); err == nil {
					_, _ = io.Copy(io.Discard, resp0.Body)
					_ = resp0.Body.Close()
				}
			}
			wkTransport.CloseIdleConnections()
			time.Sleep(15 * time.Millisecond)
			c16PolMu.Lock()
			c16PolArrivals = nil
			c16PolMu.Unlock()
		}
	}
	client := fclient.NewClient(opts...)
	res := "|ok"
	req, err := http.NewRequest("GET", "matrix://"+name+"/_matrix/federation/v1/version", nil)
	if err != nil {
		return "err:request"
	}
	resp, err := client.DoHTTPRequest(context.Background(), req)
	if err != nil {
		res = "|err"
	} else {
		_, _ = io.Copy(io.Discard, resp.Body)
		_ = resp.Body.Close()
	}
	wkTransport.CloseIdleConnections()
	time.Sleep(15 * time.Millisecond) // a connection the client gave up on may still be on its way through Accept
	c16PolMu.Lock()
	seen := map[string]bool{}
	var arr []string
	for _, a := range c16PolArrivals {
		if !seen[a] {
			seen[a] = true
			arr = append(arr, a)
		}
	}
	c16PolMu.Unlock()
	sort.Strings(arr)
	return "arr:" + strings.Join(arr, ",") + res
}

// ---- scripted well-known transport ----

type c16WkReply struct {
	status int
	header http.Header
	body   []byte
	fail   bool // transport error
}

type c16WkTransport struct {
	mu      sync.Mutex
	replies map[string]c16WkReply // by URL host
	asked   []string
}

func (t *c16WkTransport) RoundTrip(r *http.Request) (*http.Response, error) {
	t.mu.Lock()
	defer t.mu.Unlock()
	t.asked = append(t.asked, r.URL.Host)
	rep, ok := t.replies[r.URL.Host]
	if !ok || r.URL.Path != "/.well-known/matrix/server" || r.URL.Scheme != "https" {
		rep = c16WkReply{status: 404}
	}
	if rep.fail {
		return nil, errors.New("stub: connection refused")
	}
	h := http.Header{}
	for k, v := range rep.header {
		h[k] = v
	}
	return &http.Response{StatusCode: rep.status, Status: strconv.Itoa(rep.status), Proto: "HTTP/1.1", ProtoMajor: 1, ProtoMinor: 1,
		Header: h, Body: io.NopCloser(bytes.NewReader(rep.body)), ContentLength: -1, Request: r}, nil
}

// ---- fake DNS over an in-memory stream connection ----

type c16SrvRec struct {
	target string
	port   uint16
}

type c16SrvAnswer struct {
	kind string // nf nd err lame r
	recs []c16SrvRec
}

type c16FakeDNS struct {
	hosts   map[string][]net.IP // names with fixed addresses (policy op); asked first
	answerA bool // every name has an address: its own loopback address (RoundTrip op)
	mu     sync.Mutex
	script map[string]c16SrvAnswer // lower-case "_svc._tcp.name." -> answer
	asked  []string
}

func (f *c16FakeDNS) answer(q *dns.Msg) *dns.Msg {
	m := new(dns.Msg)
	m.SetReply(q)
	m.RecursionAvailable = true
	m.Authoritative = true
	if len(q.Question) != 1 {
		m.Rcode = dns.RcodeFormatError
		return m
	}
	qn := strings.ToLower(q.Question[0].Name)
	f.mu.Lock()
	f.asked = append(f.asked, qn)
	var ans c16SrvAnswer
	found := false
	// exact match only: a resolv.conf search list would append suffixes to names that were not found, and those
	// queries are rightly answered NXDOMAIN
	ans, found = f.script[qn]
	f.mu.Unlock()
	if ips, ok := f.hosts[strings.TrimSuffix(qn, ".")]; ok && (q.Question[0].Qtype == dns.TypeA || q.Question[0].Qtype == dns.TypeAAAA) {
		for _, ip := range ips {
			hdr := dns.RR_Header{Name: q.Question[0].Name, Rrtype: q.Question[0].Qtype, Class: dns.ClassINET, Ttl: 60}
			if v4 := ip.To4(); v4 != nil && q.Question[0].Qtype == dns.TypeA {
				m.Answer = append(m.Answer, &dns.A{Hdr: hdr, A: v4})
			} else if v4 == nil && q.Question[0].Qtype == dns.TypeAAAA {
				m.Answer = append(m.Answer, &dns.AAAA{Hdr: hdr, AAAA: ip})
			}
		}
		return m // no records of the family asked for: NOERROR, no data
	}
	if q.Question[0].Qtype == dns.TypeA && f.answerA {
		m.Answer = append(m.Answer, &dns.A{Hdr: dns.RR_Header{Name: q.Question[0].Name, Rrtype: dns.TypeA, Class: dns.ClassINET, Ttl: 60}, A: c16RtAddrOf(q.Question[0].Name)})
		return m
	}
	if q.Question[0].Qtype == dns.TypeAAAA && f.answerA {
		return m // no data
	}
	if !found || q.Question[0].Qtype != dns.TypeSRV {
		m.Rcode = dns.RcodeNameError
		return m
	}
	switch ans.kind {
	case "nf":
		m.Rcode = dns.RcodeNameError
	case "nd": // the name exists, no SRV data
	case "err":
		m.Rcode = dns.RcodeServerFailure
	case "lame": // NOERROR, empty, neither authoritative nor recursive: Go reports a lame referral
		m.Authoritative = false
		m.RecursionAvailable = false
	case "r":
		// distinct priorities in script order, sent in reverse: LookupSRV sorts by priority
		for i := len(ans.recs) - 1; i >= 0; i-- {
			rec := ans.recs[i]
			m.Answer = append(m.Answer, &dns.SRV{
				Hdr:      dns.RR_Header{Name: q.Question[0].Name, Rrtype: dns.TypeSRV, Class: dns.ClassINET, Ttl: 60},
				Priority: uint16(10 * (i + 1)), Weight: 0, Port: rec.port, Target: rec.target,
			})
		}
	}
	return m
}

// c16MemConn is a stream connection (not a net.PacketConn, so Go frames messages with a 2-byte length).
type c16MemConn struct {
	f    *c16FakeDNS
	in   bytes.Buffer
	out  bytes.Buffer
	mu   sync.Mutex
	done bool
}

func (c *c16MemConn) Write(p []byte) (int, error) {
	c.mu.Lock()
	defer c.mu.Unlock()
	c.in.Write(p)
	for c.in.Len() >= 2 {
		b := c.in.Bytes()
		n := int(binary.BigEndian.Uint16(b[:2]))
		if c.in.Len() < 2+n {
			break
		}
		q := new(dns.Msg)
		err := q.Unpack(b[2 : 2+n])
		c.in.Next(2 + n)
		if err != nil {
			continue
		}
		packed, err := c.f.answer(q).Pack()
		if err != nil {
			continue
		}
		var l [2]byte
		binary.BigEndian.PutUint16(l[:], uint16(len(packed)))
		c.out.Write(l[:])
		c.out.Write(packed)
	}
	return len(p), nil
}
func (c *c16MemConn) Read(p []byte) (int, error) {
	c.mu.Lock()
	defer c.mu.Unlock()
	if c.out.Len() == 0 {
		return 0, io.EOF
	}
	return c.out.Read(p)
}
func (c *c16MemConn) Close() error                       { return nil }
func (c *c16MemConn) LocalAddr() net.Addr                { return &net.TCPAddr{IP: net.IPv4(127, 0, 0, 1), Port: 1} }
func (c *c16MemConn) RemoteAddr() net.Addr               { return &net.TCPAddr{IP: net.IPv4(127, 0, 0, 1), Port: 53} }
func (c *c16MemConn) SetDeadline(t time.Time) error      { return nil }
func (c *c16MemConn) SetReadDeadline(t time.Time) error  { return nil }
func (c *c16MemConn) SetWriteDeadline(t time.Time) error { return nil }

// c16WithStubs runs f with the default transport and resolver replaced.
func c16WithStubs(t *c16WkTransport, d *c16FakeDNS, f func()) {
	oldT, oldR := http.DefaultTransport, net.DefaultResolver
	http.DefaultTransport = t
	net.DefaultResolver = &net.Resolver{PreferGo: true, Dial: func(ctx context.Context, network, address string) (net.Conn, error) {
		return &c16MemConn{f: d}, nil
	}}
	defer func() { http.DefaultTransport, net.DefaultResolver = oldT, oldR }()
	f()
}

// ---- op encoding ----

func c16WkReplyOf(code string) c16WkReply {
	switch {
	case strings.HasPrefix(code, "S"):
		b, _ := json.Marshal(map[string]string{"m.server": string(unhx(code[1:]))})
		return c16WkReply{status: 200, body: b}
	case code == "N404":
		return c16WkReply{status: 404, body: []byte(`{"m.server":"evil.example:1"}`)}
	case code == "N500":
		return c16WkReply{status: 500}
	case code == "N301":
		return c16WkReply{status: 301, body: []byte(`{"m.server":"evil.example:1"}`)}
	case code == "Nbig": // > 50 KiB, no Content-Length, starts with a valid document
		b := append([]byte(`{"m.server":"evil.example:1"}`), bytes.Repeat([]byte(" "), 52000)...)
		return c16WkReply{status: 200, body: b}
	case code == "NbigCL":
		b := []byte(`{"m.server":"evil.example:1"}`)
		return c16WkReply{status: 200, body: b, header: http.Header{"Content-Length": {"51201"}}}
	case code == "Nbad":
		return c16WkReply{status: 200, body: []byte(`{"m.server":"evil.example:1"`)}
	case code == "Nempty":
		return c16WkReply{status: 200, body: []byte(`{"m.server":""}`)}
	case code == "Nmissing":
		return c16WkReply{status: 200, body: []byte(`{"server":"evil.example:1"}`)}
	case code == "Ntype":
		return c16WkReply{status: 200, body: []byte(`{"m.server":5}`)}
	case code == "Nerr":
		return c16WkReply{fail: true}
	}
	panic("harness: bad well-known code " + code)
}

func c16ParseSrvScript(s string) map[string]c16SrvAnswer {
	out := map[string]c16SrvAnswer{}
	if s == "." {
		return out
	}
	for _, e := range strings.Split(s, ",") {
		p := strings.Split(e, "|")
		key := strings.ToLower("_" + p[0] + "._tcp." + string(unhx(p[1])) + ".")
		a := c16SrvAnswer{kind: p[2]}
		if strings.HasPrefix(p[2], "r:") {
			a.kind = "r"
			for _, r := range strings.Split(p[2][2:], ";") {
				tp := strings.Split(r, "~")
				port, _ := strconv.Atoi(tp[1])
				a.recs = append(a.recs, c16SrvRec{target: string(unhx(tp[0])), port: uint16(port)})
			}
		}
		out[key] = a
	}
	return out
}

func execResolve(op string, args []string) string {
	switch op {
	case "resolve", "resolve_after":
		// resolve_after <name> <wk1> <wk2> <srv script> <first>: the same resolution, made AFTER the name `first` was resolved in
		// this process on the same network, with every well-known reply carrying a cache lifetime (max-age) - the answer
		// for <name> is the one a first resolution gives (resolution carries no state from call to call)
		name := string(unhx(args[0]))
		t := &c16WkTransport{replies: map[string]c16WkReply{}}
		t.replies[name] = c16WkReplyOf(args[1])
		if strings.HasPrefix(args[1], "S") {
			// what a second well-known lookup (on the delegated name) would be served
			d := string(unhx(args[1][1:]))
			if d != name {
				t.replies[d] = c16WkReplyOf(args[2])
			}
		}
		d := &c16FakeDNS{script: c16ParseSrvScript(args[3])}
		var res []fclient.ResolutionResult
		var err error
		if op == "resolve_after" {
			for k, rep := range t.replies {
				h := http.Header{}
				for hk, hv := range rep.header {
					h[hk] = hv
				}
				h.Set("Cache-Control", "public, max-age=3600")
				rep.header = h
				t.replies[k] = rep
			}
			first := string(unhx(args[4]))
			c16WithStubs(t, d, func() {
				for i := 0; i < 2; i++ {
					_, _ = fclient.ResolveServer(context.Background(), spec.ServerName(first))
				}
			})
			t.mu.Lock()
			t.asked = nil
			t.mu.Unlock()
		}
		c16WithStubs(t, d, func() { res, err = fclient.ResolveServer(context.Background(), spec.ServerName(name)) })
		var out string
		if err != nil {
			if err.Error() == "Invalid server name" {
				out = "err:invalid-server-name"
			} else {
				out = "err:other"
			}
		} else {
			parts := make([]string, len(res))
			for i, r := range res {
				parts[i] = hx([]byte(r.Destination)) + "," + hx([]byte(r.Host)) + "," + hx([]byte(r.TLSServerName))
			}
			out = "ok:" + strings.Join(parts, ";")
		}
		asked := make([]string, len(t.asked))
		for i, a := range t.asked {
			asked[i] = hx([]byte(a))
		}
		return out + "|wk=" + strings.Join(asked, ",")
	case "policy":
		return c16ExecPolicy(args)
	case "policy_forbidden":
		// the property's clause, evaluated on what the implementation did: the connections that arrived on addresses the
		// configured lists do not permit (membership by the standard library's net.ParseCIDR / IPNet.Contains)
		res := c16ExecPolicy(args)
		if !strings.HasPrefix(res, "arr:") {
			return res
		}
		allow, deny := c16PolList(args[1]), c16PolList(args[2])
		var bad []string
		for _, a := range strings.Split(strings.SplitN(res[4:], "|", 2)[0], ",") {
			if a == "" {
				continue
			}
			ip := net.ParseIP(strings.SplitN(a, "/", 2)[0])
			ok := (len(allow) == 0 && len(deny) == 0) || c16PolPermitted(ip, allow, deny)
			if strings.Contains(args[0], "c") {
				ca, cd := allow, deny
				switch args[3] {
				case "open":
					ca, cd = []string{"0.0.0.0/0", "::/0"}, nil
				case "nil":
					ca, cd = nil, nil
				}
				ok = ok && c16PolPermitted(ip, ca, cd)
			}
			if !ok {
				bad = append(bad, a)
			}
		}
		return "forbidden:" + strings.Join(bad, ",")
	case "roundtrip_props":
		return "ok" // the driver evaluates the property's clauses on the implementation's answer carried in the op
	case "roundtrip":
		c16RtServers()
		name := c16RtMap(string(unhx(args[0])))
		t := &c16WkTransport{replies: map[string]c16WkReply{}}
		if strings.HasPrefix(args[1], "S") {
			b, _ := json.Marshal(map[string]string{"m.server": c16RtMap(string(unhx(args[1][1:])))})
			t.replies[name] = c16WkReply{status: 200, body: b}
		} else {
			t.replies[name] = c16WkReplyOf(args[1])
		}
		script := c16ParseSrvScript(args[2])
		for k, a := range script {
			for i := range a.recs {
				if p := int(a.recs[i].port); p >= 1 && p <= 4 {
					rp, _ := strconv.Atoi(c16RtPorts[p])
					a.recs[i].port = uint16(rp)
				}
			}
			script[k] = a
		}
		flakyK := 0
		if len(args) > 3 {
			flakyK, _ = strconv.Atoi(args[3])
		}
		d := &c16FakeDNS{script: script, answerA: true}
		var out []string
		c16WithStubs(t, d, func() {
			client := fclient.NewClient(fclient.WithWellKnownSRVLookups(true), fclient.WithSkipVerify(true), fclient.WithTimeout(5*time.Second))
			c16RtMu.Lock()
			c16RtNames_ = map[string]string{}
			c16RtMu.Unlock()
			for i := 0; i < 2; i++ {
				c16RtMu.Lock()
				c16RtTrace = nil
				c16RtFlakyK, c16RtFlakyN = flakyK, 0
				c16RtMu.Unlock()
				t.mu.Lock()
				t.asked = nil
				t.mu.Unlock()
				req, err := http.NewRequest("GET", "matrix://"+name+"/_matrix/federation/v1/version", nil)
				if err != nil {
					out = append(out, "err:request")
					continue
				}
				resp, err := client.DoHTTPRequest(context.Background(), req)
				res := "|ok"
				if err != nil {
					res = "|err"
					if strings.Contains(err.Error(), "Invalid server name") {
						out = append(out, "err:invalid-server-name")
						continue
					}
				} else {
					_, _ = io.Copy(io.Discard, resp.Body)
					_ = resp.Body.Close()
				}
				c16RtMu.Lock()
				tr := strings.Join(c16RtTrace, ";")
				c16RtMu.Unlock()
				out = append(out, tr+res+"|wk="+strconv.Itoa(len(t.asked)))
			}
		})
		return "rt:" + strings.Join(out, "#")
	case "validate":
		h, p, ok := spec.ParseAndValidateServerName(spec.ServerName(unhx(args[0])))
		if !ok {
			return "invalid"
		}
		return "ok:" + hx([]byte(h)) + ":" + strconv.Itoa(p)
	}
	return "bad-op"
}

// ---- generator ----

var c16DNSNames = []string{
	"example.com", "matrix.org", "a.b.c", "localhost", "xn--p1ai.test", "UPPER.Example", "a-b.example", "1.2.3.4.5", "01.2.3.4",
	"999.1.1.1", "hs.example.org", "x", "a1", "1a", "123", "1.2.3", "0x7f.0.0.1", "matrix-fed.example", "sub.sub.sub.example.net",
}
var c16OddNames = []string{ // DNS-char strings that are not domain names, and strings that are not server names at all
	"a..b", "-a.b", "a.b.", ".", "..", "a.-b", ".a", ".:8448", "..:1", "a.b.:8448",
	"a_b.example", "exa mple.com", "é.com", "", "http://example.com", "example.com/", "example.com:80/", "a/b", "a@b", "a:b", "a:b:80",
	"example.com:", "example.com:80a", "example.com:-1", "example.com:+80", "example.com:65536", "example.com:99999999999999999999",
	"[::1", "::1", "[::1]x", "[]", "[", "]", "[]:80", "[::1]:", "[::g]", "[::1]]", "[[::1]]", "::ffff:1.2.3.4", "::ffff:1.2.3.4:80", "1::",
	"[fe80::1%eth0]", "[fe80::1%25eth0]:8448", "1.2.3.4:", "1.2.3.4::80", "example.com:000080", "example.com:00080", "example.com:0",
	" example.com", "example.com ", "exa\tmple", "a\x00b", "\xff\xfe", "[::ffff:1.2.3.4]x:1",
}
var c16IPLiterals = []string{
	"1.2.3.4", "42.42.42.42", "127.0.0.1", "0.0.0.0", "255.255.255.255", "10.0.0.1", "[::1]", "[42:42::42]", "[2001:db8::1]", "[::]",
	"[::ffff:1.2.3.4]", "[1:2:3:4:5:6:7:8]", "[1:2:3:4:5:6:1.2.3.4]", "[0:0::1]", "[2001:DB8::A]", "[1.2.3.4]", "[fe80::1]",
}
var c16PortSuffixes = []string{"", "", "", ":8448", ":443", ":0", ":65535", ":1", ":80", ":08448"}

func (r *Rng) c16GenServerName() string {
	switch {
	case r.Chance(12):
		return Pick(r, c16OddNames)
	case r.Chance(20):
		return Pick(r, c16IPLiterals) + Pick(r, c16PortSuffixes)
	}
	n := Pick(r, c16DNSNames)
	if r.Chance(15) {
		n = fmt.Sprintf("h%d.%s", r.Intn(50), n)
	}
	if r.Chance(55) {
		return n
	}
	return n + Pick(r, c16PortSuffixes)
}

var c16WkNoCodes = []string{"N404", "N404", "N500", "N301", "Nbig", "NbigCL", "Nbad", "Nempty", "Nmissing", "Ntype", "Nerr"}

var c16SrvTargets = []string{"matrix.otherexample.com.", "a.example.", "b.example.", "srv1.hs.example.org.", "x.", ".", "UP.Example.", "n1.2.3.4.", "t-1.example.net."}

func (r *Rng) c16GenSrvAnswer() string {
	switch r.Intn(9) {
	case 0:
		return "nf"
	case 1:
		return "nd"
	case 2:
		return "err"
	case 3:
		return "lame"
	case 4, 5:
		return fmt.Sprintf("r:%s~%d", hx([]byte(Pick(r, c16SrvTargets))), Pick(r, []int{4242, 8448, 443, 0, 65535, 1}))
	case 6:
		n := 2 + r.Intn(3)
		parts := make([]string, n)
		for i := range parts {
			parts[i] = fmt.Sprintf("%s~%d", hx([]byte(Pick(r, c16SrvTargets))), 1+r.Intn(65535))
		}
		return "r:" + strings.Join(parts, ";")
	}
	return "" // not scripted: NXDOMAIN
}

// c16IsDomainName mirrors what Go's resolver requires before sending a query (RFC 1035 labels); for other
// names it answers "no such host" without asking, so the generator only scripts names that reach the server.
func c16IsDomainName(s string) bool {
	if s == "." {
		return true
	}
	l := len(s)
	if l == 0 || l > 254 || l == 254 && s[l-1] != '.' {
		return false
	}
	last := byte('.')
	nonNumeric := false
	partlen := 0
	for i := 0; i < len(s); i++ {
		c := s[i]
		switch {
		default:
			return false
		case 'a' <= c && c <= 'z' || 'A' <= c && c <= 'Z' || c == '_':
			nonNumeric = true
			partlen++
		case '0' <= c && c <= '9':
			partlen++
		case c == '-':
			if last == '.' {
				return false
			}
			partlen++
			nonNumeric = true
		case c == '.':
			if last == '.' || last == '-' {
				return false
			}
			if partlen > 63 || partlen == 0 {
				return false
			}
			partlen = 0
		}
		last = c
	}
	if last == '-' || partlen > 63 {
		return false
	}
	return nonNumeric
}

func (r *Rng) c16GenSrvScript(names ...string) string {
	var parts []string
	seen := map[string]bool{}
	for _, n := range names {
		ln := strings.ToLower(n)
		if n == "" || seen[ln] || !c16IsDomainName("_matrix-fed._tcp."+n) || strings.HasSuffix(n, ".") {
			continue
		}
		seen[ln] = true
		for _, svc := range []string{"matrix-fed", "matrix"} {
			if a := r.c16GenSrvAnswer(); a != "" {
				parts = append(parts, svc+"|"+hx([]byte(n))+"|"+a)
			}
		}
	}
	if len(parts) == 0 {
		return "."
	}
	return strings.Join(parts, ",")
}

var c16RtNames = []string{"hs.test", "hs.test", "hs.test", "other.test", "other.test", "hs.test", "127.0.0.1:1", "127.0.0.1:2", "127.0.0.1:3", "127.0.0.1:4", "localhost:1", "hs.test:1", "hs.test:2", "hs.test:4", "hs.test", "other.test", "127.0.0.1", "hs.test:3", "a_b.test"}
var c16RtDelegates = []string{"127.0.0.1:1", "127.0.0.1:2", "127.0.0.1:4", "deleg.test:1", "deleg.test:2", "deleg.test:4", "deleg.test", "deleg.test:3", "127.0.0.1", "[::1", "localhost:1"}
var c16RtTargets = []string{"t1.test.", "t2.test.", "localhost.", "t3.sub.test."}

func (r *Rng) c16GenRtAnswer() string {
	switch r.Intn(6) {
	case 0:
		return "nf"
	case 1:
		return "err"
	case 2, 3:
		return fmt.Sprintf("r:%s~%d", hx([]byte(Pick(r, c16RtTargets))), 1+r.Intn(4))
	case 4:
		n := 2 + r.Intn(3)
		parts := make([]string, n)
		for i := range parts {
			parts[i] = fmt.Sprintf("%s~%d", hx([]byte(Pick(r, c16RtTargets))), 1+r.Intn(4))
		}
		return "r:" + strings.Join(parts, ";")
	}
	return ""
}

// c16DoRoundTrip runs one roundtrip op and the property op that carries its answer.
func c16DoRoundTrip(o *Out, name, wk, script string, flaky int) string {
	args := []string{hx([]byte(name)), wk, script, strconv.Itoa(flaky)}
	res := o.Do("roundtrip", args...)
	if strings.Contains(res, "|ok") {
		o.Count("roundtrip.reached")
	} else {
		o.Count("roundtrip.failed")
	}
	if strings.Contains(res, ";") {
		o.Count("roundtrip.several-attempts")
	}
	if strings.HasPrefix(res, "rt:") {
		o.Do("roundtrip_props", append(args, hx([]byte(res)))...)
	}
	return res
}

// c16GenRetry: every target of the first pass fails -- once (the retry pass then gets through), or for good -- for
// names reached through SRV records, through a well-known delegation (to a name with SRV records, to a name with an
// explicit port, to an address literal) and directly (explicit port: the control). K = number of connections the
// flaky server (port 4) drops per request.
func c16GenRetry(o *Out, r *Rng, rounds int) {
	srv := func(svc, name string, targets ...string) string {
		var recs []string
		for _, t := range targets {
			recs = append(recs, hx([]byte(t))+"~4")
		}
		return svc + "|" + hx([]byte(name)) + "|r:" + strings.Join(recs, ";")
	}
	for round := 0; round < rounds; round++ {
		for n := 1; n <= 3; n++ {
			targets := append([]string{}, c16RtTargets[:2]...)
			targets = append(targets, "t3.sub.test.")
			r.shuffleStrings(targets)
			targets = targets[:n]
			for _, k := range []int{n - 1, n, n + 1, 2 * n} {
				svc := Pick(r, []string{"matrix-fed", "matrix"})
				// through SRV
				res := c16DoRoundTrip(o, "hs.test", Pick(r, []string{"N404", "N500", "Nbad"}), srv(svc, "hs.test", targets...), k)
				o.Count("retry.srv")
				if round == 0 && n == 1 && k == 1 {
					o.Sample(fmt.Sprintf("roundtrip(retry) hs.test srv -> %s:4 flaky=1 -> %s", targets[0], res))
				}
				// through a well-known delegation to a name that has SRV records
				c16DoRoundTrip(o, "hs.test", "S"+hx([]byte("deleg.test")), srv(svc, "deleg.test", targets...), k)
				o.Count("retry.wellknown-srv")
			}
		}
		for _, k := range []int{0, 1, 2} {
			// delegation to a name with an explicit port / to an address literal / no delegation, explicit port
			c16DoRoundTrip(o, "hs.test", "S"+hx([]byte("deleg.test:4")), ".", k)
			c16DoRoundTrip(o, "other.test", "S"+hx([]byte("127.0.0.1:4")), ".", k)
			c16DoRoundTrip(o, "hs.test:4", "N404", ".", k)
			c16DoRoundTrip(o, "127.0.0.1:4", "N404", ".", k)
			o.Count("retry.direct")
		}
	}
}

// c16GenRoundTrip: RoundTrip of a fresh client, twice per op (the second request sees the resolution cache).
func c16GenRoundTrip(o *Out, r *Rng, n int) {
	for i := 0; i < n; i++ {
		name := Pick(r, c16RtNames)
		wk := Pick(r, []string{"N404", "N500", "Nbad"})
		deleg := ""
		if r.Chance(50) {
			deleg = Pick(r, c16RtDelegates)
			wk = "S" + hx([]byte(deleg))
		}
		var parts []string
		for _, nm := range []string{name, deleg} {
			if nm == "" || strings.ContainsAny(nm, ":[ ") || net.ParseIP(nm) != nil {
				continue
			}
			for _, svc := range []string{"matrix-fed", "matrix"} {
				if a := r.c16GenRtAnswer(); a != "" {
					parts = append(parts, svc+"|"+hx([]byte(nm))+"|"+a)
				}
			}
		}
		script := "."
		if len(parts) > 0 {
			script = strings.Join(parts, ",")
		}
		res := c16DoRoundTrip(o, name, wk, script, Pick(r, []int{0, 0, 1, 1, 2, 3}))
		if i < 2 {
			o.Sample(fmt.Sprintf("roundtrip %q wk=%q srv=%s -> %s", name, deleg, script, res))
		}
	}
}

// ---- policy: real clients with allow / deny lists (see the network above c16ExecPolicy) ----

var c16PolAll = []string{"0.0.0.0/0", "::/0"}

// allow / deny configurations over the addresses of the policy network
var c16PolLists = [][2][]string{
	{nil, nil},                                      // no lists: no control function at all
	{c16PolAll, nil},                                // everything permitted
	{c16PolAll, {"127.16.1.0/24"}},                  // h1, h2 denied; h3 and ::1 permitted
	{{"127.16.2.0/24", "::1/128"}, nil},             // only h3 and ::1 allowed
	{c16PolAll, {"127.0.0.0/8", "::1/128"}},         // every address of the network denied
	{c16PolAll, {"garbage", "127.16.1.1/32"}},       // an unparsable entry before the one that matters
	{{"127.16.1.2/32"}, nil},                        // only h2 allowed
	{c16PolAll, {"::1/128"}},                        // only the IPv6 loopback denied
	{c16PolAll, {"::ffff:127.16.1.1/128", "127.16.2.1/32"}}, // h1 (as an IPv4-mapped range) and h3 denied
	{{"0.0.0.0/0"}, {"127.16.1.1/31"}},              // IPv6 not allowed at all; 127.16.1.0 and .1 denied
}

var c16PolNames = []string{
	"h1.example.com:5", "h2.example.com:5", "h3.example.com:5", "hh.example.com:5", "H1.Example.COM:5", "127.16.1.1:5", "127.16.2.1:5",
	"[::1]:6", "h6.example.com:6", "h1.example.com", "h3.example.com", "hh.example.com", "127.16.1.1", "h1.example.com:443", "h1.example.com:8448",
}

func c16PolListArg(l []string) string {
	if len(l) == 0 {
		return "-"
	}
	out := make([]string, len(l))
	for i, e := range l {
		out[i] = hx([]byte(e))
	}
	return strings.Join(out, ",")
}

// c16PolScripts: what the hosts serve under /.well-known/matrix/server when `name` (a DNS name without port) is asked
func c16PolScripts(name string) []string {
	n := strings.ToLower(name)
	other := "h3.example.com"
	if n == other {
		other = "h2.example.com"
	}
	return []string{
		".",
		n + "=s" + hx([]byte("h2.example.com:5")),
		n + "=s" + hx([]byte("127.16.2.1:5")),
		n + "=s" + hx([]byte("h3.example.com")),
		n + "=s" + hx([]byte("[::1]:6")),
		n + "=r" + hx([]byte(other)) + "," + other + "=s" + hx([]byte("h2.example.com:5")),
		n + "=r" + hx([]byte(other)),
	}
}

func c16DoPolicy(o *Out, opts string, lists [2][]string, cacheLists, name, script string) string {
	args := []string{opts, c16PolListArg(lists[0]), c16PolListArg(lists[1]), cacheLists, hx([]byte(name)), script}
	res := o.Do("policy", args...)
	o.Count("policy.opts." + opts)
	if strings.HasPrefix(res, "arr:") {
		if f := o.Do("policy_forbidden", args...); f != "forbidden:" {
			o.Count("policy.forbidden-connection")
		}
		if strings.HasPrefix(res, "arr:|") {
			o.Count("policy.no-connection")
		} else {
			o.Count("policy.connections." + strconv.Itoa(1+strings.Count(strings.SplitN(res, "|", 2)[0], ",")))
		}
		o.Count("policy.request" + res[strings.LastIndex(res, "|"):])
	} else {
		o.Count("policy." + res)
	}
	return res
}

// c16GenPolicy: client options x list configurations x server names x well-known documents. thorough: the whole
// product; quick: the configurations that matter for every option (deny-everything, deny h1, allow h3 only) on every name,
// plus a random sample of the rest.
func c16GenPolicy(o *Out, r *Rng, tier string) {
	type combo struct {
		opts, cache string
	}
	combos := []combo{{"-", "same"}, {"w", "same"}, {"c", "same"}, {"c", "open"}, {"wc", "same"}, {"wc", "open"}, {"cp", "open"}, {"wcp", "open"}, {"c", "nil"}}
	run := func(c combo, li int, name string) {
		scripts := []string{"."}
		if strings.Contains(c.opts, "w") && !strings.Contains(name, ":") && !strings.HasPrefix(name, "127.") {
			scripts = c16PolScripts(name)
		}
		for _, sc := range scripts {
			res := c16DoPolicy(o, c.opts, c16PolLists[li], c.cache, name, sc)
			if li == 4 && name == "h1.example.com" && sc == "." {
				o.Sample("policy opts=" + c.opts + " cache=" + c.cache + " deny=127.0.0.0/8,::1/128 " + name + " -> " + res)
			}
		}
	}
	if tier == "thorough" {
		for _, c := range combos {
			for li := range c16PolLists {
				for _, name := range c16PolNames {
					run(c, li, name)
				}
			}
		}
		return
	}
	for _, c := range combos[:8] {
		for _, li := range []int{4, 2, 3} {
			for _, name := range []string{"h1.example.com:5", "127.16.2.1:5", "h6.example.com:6", "h1.example.com", "hh.example.com:5"} {
				run(c, li, name)
			}
		}
	}
	for i := 0; i < 120; i++ {
		run(Pick(r, combos), r.Intn(len(c16PolLists)), Pick(r, c16PolNames))
	}
}

func genResolve(o *Out, tier string, r *Rng) {
	n := 4000
	if tier == "thorough" {
		n = 60000
	}
	c16GenPolicy(o, r, tier)
	// every pool name once, alone (no well-known, no SRV) and through ParseAndValidateServerName
	var all []string
	all = append(all, c16OddNames...)
	for _, l := range c16IPLiterals {
		for _, p := range c16PortSuffixes {
			all = append(all, l+p)
		}
	}
	for _, d := range c16DNSNames {
		all = append(all, d, d+":8448")
	}
	for _, nm := range all {
		o.Do("validate", hx([]byte(nm)))
		o.Do("resolve", hx([]byte(nm)), "N404", "N404", ".")
	}
	// bounded-exhaustive (thorough): names x well-known outcomes x SRV answers of the name and of the delegate
	if tier == "thorough" {
		names := []string{"example.com", "example.com:8448", "1.2.3.4", "1.2.3.4:443", "[::1]", "[::1]:443", "a..b", "bad_name", "UPPER.Example", "01.2.3.4", "::1", ""}
		wks := []string{"N404", "Nbig", "S" + hx([]byte("9.9.9.9")), "S" + hx([]byte("[2001:db8::9]:1")), "S" + hx([]byte("d.example:4443")), "S" + hx([]byte("d.example")), "S" + hx([]byte("not valid")), "S" + hx([]byte("example.com"))}
		answers := []string{"", "nf", "err", "lame", "r:" + hx([]byte("t.example.")) + "~4242", "r:" + hx([]byte("t1.example.")) + "~1;" + hx([]byte("t2.example.")) + "~2"}
		for _, nm := range names {
			for _, wk := range wks {
				for _, f1 := range answers {
					for _, m1 := range answers {
						for _, f2 := range answers[:4] {
							for _, m2 := range answers[3:5] {
								var parts []string
								add := func(svc, name, a string) {
									if a != "" && c16IsDomainName("_"+svc+"._tcp."+name) {
										parts = append(parts, svc+"|"+hx([]byte(name))+"|"+a)
									}
								}
								add("matrix-fed", nm, f1)
								add("matrix", nm, m1)
								if nm != "d.example" {
									add("matrix-fed", "d.example", f2)
									add("matrix", "d.example", m2)
								}
								script := "."
								if len(parts) > 0 {
									script = strings.Join(parts, ",")
								}
								o.Do("resolve", hx([]byte(nm)), wk, "S"+hx([]byte("second.level.example:1")), script)
							}
						}
					}
				}
			}
		}
		o.Count("exhaustive.resolve-product")
	}
	if tier == "thorough" {
		c16GenRetry(o, r, 20)
	} else {
		c16GenRetry(o, r, 2)
	}
	c16GenRoundTrip(o, r, n/8)
	for i := 0; i < n; i++ {
		name := r.c16GenServerName()
		wk1 := Pick(r, c16WkNoCodes)
		deleg := ""
		if r.Chance(55) {
			deleg = r.c16GenServerName()
			if r.Chance(6) {
				deleg = Pick(r, []string{".", ".:8448", "a.b.", "..", ":8448", "[]:1"}) // what a hostile well-known document may name
			}
			if deleg == name {
				// self-delegation is harmless for the code as it is (no second lookup) but would recurse without
				// bound -- a fatal stack overflow, not a recoverable panic -- if a change made it look again
				deleg = "other." + deleg
			}
			wk1 = "S" + hx([]byte(deleg))
		}
		// a second-level document that must never be consulted
		wk2 := "S" + hx([]byte("second.level.example:1"))
		if r.Chance(30) {
			wk2 = Pick(r, c16WkNoCodes)
		}
		script := r.c16GenSrvScript(name, deleg, "second.level.example")
		res := o.Do("resolve", hx([]byte(name)), wk1, wk2, script)
		o.Count("resolve." + strings.SplitN(strings.SplitN(res, "|", 2)[0], ":", 2)[0])
		if strings.HasPrefix(wk1, "S") {
			// state carried between calls (a well-known cache, ...): the delegated name, or the name itself, resolved first
			first := Pick(r, []string{deleg, deleg, name})
			o.Do("resolve_after", hx([]byte(name)), wk1, wk2, script, hx([]byte(first)))
			o.Count("resolve_after." + map[bool]string{true: "delegate-first", false: "self-first"}[first == deleg])
		}
		if strings.HasSuffix(res, "|wk=") {
			o.Count("no-wellknown-lookup")
		} else {
			o.Count("wellknown-lookup")
		}
		if deleg != "" {
			o.Count("delegated")
		}
		if i < 4 {
			o.Sample(fmt.Sprintf("resolve %q wk=%q srv=%s -> %s", name, deleg, script, res))
		}
		if r.Chance(10) {
			o.Do("validate", hx([]byte(c16MutateText(r, name))))
		}
	}
}
