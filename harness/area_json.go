package main

import (
	"encoding/hex"

	gmsl "github.com/matrix-org/gomatrixserverlib"
)

func init() { areas["json"] = Area{Gen: genJSON, Exec: execJSON} }

func unhx(s string) []byte {
	if s == "-" {
		return nil
	}
	b, err := hex.DecodeString(s)
	if err != nil {
		panic("harness: bad hex")
	}
	return b
}

func execJSON(op string, args []string) string {
	switch op {
	case "canon":
		out, err := gmsl.CanonicalJSON(unhx(args[0]))
		if err != nil {
			if _, ok := err.(gmsl.BadJSONError); ok {
				return "err:badjson"
			}
			return "err:other"
		}
		return "ok:" + hx(out)
	case "compact":
		return "ok:" + hx(gmsl.CompactJSON(unhx(args[0]), nil))
	case "enforced":
		v, err := gmsl.GetRoomVersion(gmsl.RoomVersion(args[0]))
		if err != nil {
			return "err:version"
		}
		if err := v.CheckCanonicalJSON(unhx(args[1])); err != nil {
			return "err:range"
		}
		return "ok"
	}
	return "bad-op"
}

var allVersions = []string{"1", "2", "3", "4", "5", "6", "7", "8", "9", "10", "11", "12",
	"org.matrix.msc4014", "org.matrix.msc3667", "org.matrix.msc3787", "org.matrix.hydra.11"}

func genJSON(o *Out, tier string, r *Rng) {
	n := 1500
	if tier == "thorough" {
		n = 60000
	}
	emitAll := func(t []byte, valid bool) {
		c := o.Do("canon", hx(t))
		if valid {
			o.Do("compact", hx(t))
			o.Do("enforced", Pick(r, allVersions), hx(t))
		}
		if len(c) > 3 && c[:3] == "ok:" {
			o.Count("canon.accepted")
		} else {
			o.Count("canon.rejected")
		}
	}
	for i := 0; i < n; i++ {
		v := r.GenValue(1+r.Intn(4), true)
		if r.Chance(60) && v.Kind != 'o' {
			v = r.GenObject(1+r.Intn(4), true)
		}
		// several presentations of the same value
		k := 1 + r.Intn(3)
		for j := 0; j < k; j++ {
			t := r.RenderText(v, r.RandStyle())
			emitAll(t, true)
			if i < 6 && j == 0 {
				o.Sample(string(t))
			}
			if r.Chance(25) {
				m := r.Malform(t)
				emitAll(m, false)
				o.Count("malformed")
			}
		}
	}
}
