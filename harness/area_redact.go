package main

// Area `redact` (C05): IRoomVersion.RedactEventJSON on generated event texts, PDU.Redact() on
// trusted events.

import (
	"crypto/ed25519"
	"encoding/json"
	"fmt"
	"sort"
	"strings"

	gmsl "github.com/matrix-org/gomatrixserverlib"
	"github.com/tidwall/gjson"
)

func init() { areas["redact"] = Area{Gen: genRedact, Exec: execRedact} }

func execRedact(op string, args []string) string {
	switch op {
	case "json":
		v, err := gmsl.GetRoomVersion(gmsl.RoomVersion(args[0]))
		if err != nil {
			return "err:version"
		}
		out, err := v.RedactEventJSON(unhx(args[2]))
		if err != nil {
			return "err"
		}
		c, err := gmsl.CanonicalJSON(out)
		if err != nil {
			return "err:canon"
		}
		return "ok:" + hx(c)
	case "pdu":
		return execRedactPDU(args[0], args[1])
	case "pdu_props":
		return execRedactPDUProps(args[0], args[1], string(unhx(args[2])), string(unhx(args[3])), unhx(args[4]))
	case "pdu_check":
		// everything but a failed predicate is the one outcome `ok` (the classes are counted by the generator)
		im, _, _ := execRedactPDUCheck(args[0], args[1], args[2], args[3])
		if strings.HasPrefix(im, "bad") {
			return im
		}
		return "ok"
	case "pdu_after":
		return "ok"
	}
	return "bad-op"
}

// every event type some room version's algorithm singles out, and some it does not
var redactTypes = []string{
	"m.room.member", "m.room.create", "m.room.join_rules", "m.room.power_levels", "m.room.aliases",
	"m.room.history_visibility", "m.room.redaction",
	"m.room.message", "m.room.name", "", "M.ROOM.MEMBER", "m.room.member ", "m.room.third_party_invite", "x.y",
}

// every content key some algorithm lists for some type
var redactContentKeys = []string{
	"membership", "join_authorised_via_users_server", "third_party_invite", "creator", "join_rule", "allow",
	"ban", "events", "events_default", "kick", "redact", "state_default", "users", "users_default", "invite",
	"aliases", "history_visibility", "redacts",
}

// keys next to the listed ones that no algorithm keeps
var redactNeighbourKeys = []string{
	"Membership", "membership_", "displayname", "avatar_url", "reason", "is_direct", "room_version", "predecessor",
	"m.federate", "additional_creators", "join_rules", "allowed", "notifications", "user", "users_defaults",
	"alias", "body", "msgtype", "name", "signed", "redact_", "", "ſigned",
}

// top-level keys: the union of all keep lists, the keys dropped from v11 on, keys never kept
var redactTopKeys = []string{
	"event_id", "room_id", "sender", "state_key", "hashes", "signatures", "depth", "prev_events", "prev_state",
	"auth_events", "origin", "origin_server_ts", "membership",
	"unsigned", "age_ts", "redacts", "outlier", "destinations", "replaces_state", "prev_content", "user_id", "age",
	"Hashes", "Sender", "ROOM_ID", "ſender", "ſtate_key", "origin_server_tſ", "Kind", "extra", "",
	// case variants (ASCII, U+017F long s, U+212A Kelvin sign) of every kind of protected key: redaction compares keys exactly
	"Event_id", "EVENT_ID", "event_ıd", "Type", "Content", "State_key", "STATE_KEY", "Signatures", "ſignatureſ", "HASHES", "haſhes",
	"Depth", "Prev_events", "Auth_events", "Origin", "Membership", "Prev_state", "Origin_server_ts", "Kind",
}

func jstr(s string) *JV           { return &JV{Kind: 's', Str: s} }
func jnum(s string) *JV           { return &JV{Kind: '#', Num: s} }
func jobj() *JV                   { return &JV{Kind: 'o'} }
func (v *JV) put(k string, x *JV) { v.Keys = append(v.Keys, k); v.Vals = append(v.Vals, x) }
func (v *JV) has(k string) bool {
	for _, x := range v.Keys {
		if x == k {
			return true
		}
	}
	return false
}

// contentValue returns a plausible value for a protected content key.
func (r *Rng) contentValue(key string, safe bool) *JV {
	switch key {
	case "membership":
		return jstr(Pick(r, memberships))
	case "join_rule":
		return jstr(Pick(r, joinRules))
	case "creator", "join_authorised_via_users_server":
		return jstr(Pick(r, authUsers))
	case "history_visibility":
		return jstr(Pick(r, []string{"shared", "joined", "invited", "world_readable"}))
	case "redacts":
		return jstr("$" + r.id43())
	case "aliases":
		return &JV{Kind: 'a', Arr: []*JV{jstr("#a:hs1"), jstr("#b:hs1")}}
	case "allow":
		o := jobj()
		o.put("type", jstr("m.room_membership"))
		o.put("room_id", jstr("!other:hs1"))
		return &JV{Kind: 'a', Arr: []*JV{o}}
	case "users", "events":
		o := jobj()
		for _, u := range authUsers {
			if r.Chance(50) {
				o.put(u, jnum(r.genNum(!safe)))
			}
		}
		return o
	case "third_party_invite":
		switch r.Intn(6) {
		case 0:
			return jstr("notanobject")
		case 1:
			return &JV{Kind: 'n'}
		case 2:
			o := jobj()
			o.put("display_name", jstr("alice"))
			return o
		case 3:
			return jobj()
		default:
			o := jobj()
			o.put("display_name", jstr("alice"))
			s := jobj()
			s.put("mxid", jstr("@alice:hs1"))
			s.put("token", jstr("tok"))
			sg := jobj()
			hs := jobj()
			hs.put("ed25519:1", jstr("c2ln"))
			sg.put("hs1", hs)
			s.put("signatures", sg)
			o.put("signed", s)
			if r.Bool() {
				o.put("Signed", jstr("case variant"))
			}
			return o
		}
	}
	if r.Chance(70) {
		return jnum(r.genNum(!safe))
	}
	return r.GenValue(2, !safe)
}

// baseEvent returns the top-level members of a plausible event (without type and content).
func (r *Rng) baseEvent(ver string) *JV {
	e := jobj()
	f, _ := verFormat(ver)
	e.put("room_id", jstr("!room:hs1"))
	e.put("sender", jstr(Pick(r, authUsers)))
	e.put("origin_server_ts", jnum(fmt.Sprint(1000+r.Intn(100000))))
	e.put("depth", jnum(Pick(r, intPool)))
	if f == 1 {
		e.put("event_id", jstr("$abc:hs1"))
		ref := &JV{Kind: 'a', Arr: []*JV{jstr("$p:hs1"), func() *JV { o := jobj(); o.put("sha256", jstr("47DEQpj8HBSa+/TImW+5JCeuQeRkm5NMpJWZG3hSuFU")); return o }()}}
		e.put("prev_events", &JV{Kind: 'a', Arr: []*JV{ref}})
		e.put("auth_events", &JV{Kind: 'a'})
	} else {
		e.put("prev_events", &JV{Kind: 'a', Arr: []*JV{jstr("$" + r.id43())}})
		e.put("auth_events", &JV{Kind: 'a', Arr: []*JV{jstr("$" + r.id43()), jstr("$" + r.id43())}})
	}
	h := jobj()
	h.put("sha256", jstr("47DEQpj8HBSa+/TImW+5JCeuQeRkm5NMpJWZG3hSuFU"))
	e.put("hashes", h)
	sg := jobj()
	s1 := jobj()
	s1.put("ed25519:k1", jstr("c2lnbmF0dXJl"))
	sg.put("hs1", s1)
	e.put("signatures", sg)
	if r.Bool() {
		e.put("state_key", jstr(Pick(r, []string{"", "@alice:hs1", "other"})))
	}
	return e
}

// enumContent: all listed keys and their neighbours at once.
func (r *Rng) fullContent(safe bool) *JV {
	c := jobj()
	for _, k := range redactContentKeys {
		c.put(k, r.contentValue(k, safe))
	}
	for _, k := range redactNeighbourKeys {
		c.put(k, r.contentValue(k, safe))
	}
	return c
}

func redactLabel(impl string) string {
	if i := strings.IndexByte(impl, ':'); i >= 0 {
		return impl[:i]
	}
	return impl
}

func genRedact(o *Out, tier string, r *Rng) {
	plain := Style{}
	do := func(label, ver string, ev *JV, st Style) string {
		t := r.RenderText(ev, st)
		impl := o.Do("json", ver, redactShapeTag(t), hx(t))
		o.Count(label + "." + redactLabel(impl))
		return impl
	}
	// ---- 1. bounded-exhaustive: version x type x (all keys at once | one listed key + one neighbour) ----
	for _, ver := range allVersions {
		for _, ty := range redactTypes {
			ev := r.baseEvent(ver)
			ev.put("type", jstr(ty))
			ev.put("content", r.fullContent(true))
			// every top-level key of the union, to see which ones survive
			for _, k := range []string{"prev_state", "origin", "membership", "unsigned", "age_ts", "redacts", "extra"} {
				if !ev.has(k) {
					ev.put(k, r.contentValue(k, true))
				}
			}
			do("enum.full", ver, ev, plain)
			perKey := tier == "thorough" || strings.HasPrefix(ty, "m.room.") && !strings.Contains(ty, "message") && !strings.Contains(ty, "name")
			if !perKey {
				continue
			}
			for i, k := range redactContentKeys {
				ev := r.baseEvent(ver)
				ev.put("type", jstr(ty))
				c := jobj()
				c.put(k, r.contentValue(k, true))
				c.put(redactNeighbourKeys[i%len(redactNeighbourKeys)], jstr("neighbour"))
				ev.put("content", c)
				do("enum.key", ver, ev, plain)
			}
		}
	}
	// the hand-picked shapes of the experiments (every version)
	fixed := []string{
		`null`, ` null `, `[]`, `1`, `"x"`, `{}`, `true`,
		`{"type":"a","type":null}`, `{"type":null}`, `{"type":1}`, `{"type":"a","type":1}`, `{"type":"a","Type":"b"}`,
		`{"TYPE":"a","type":"b","tYpe":"c"}`, `{"sender":null}`, `{"sender":"x","sender":null}`, `{"sender":"x","Sender":[1, 2]}`,
		`{"ſender":"long s"}`, `{"content":{"a":1},"content":{"b":2},"type":"m.room.create"}`,
		`{"content":{"creator":1},"content":null,"type":"m.room.create"}`, `{"content":null,"content":{"creator":"x"},"type":"m.room.create"}`,
		`{"content":{"creator":"x"},"content":[],"type":"m.room.create"}`, `{"content":[]}`, `{"content":1}`, `{"content":"x"}`,
		`{"content":{"a":1e999}}`, `{"content":{"a":1e308}}`, `{"content":{"a":1e309}}`, `{"content":{"a":17e307}}`, `{"content":{"a":0.00001e314}}`,
		`{"content":{"a":-1e-400}}`, `{"content":{"a":0e999}}`, `{"content":{"a":[{"b":-1E+999}]}}`, `{"x":1e999}`,
		`{"depth":1e999, "origin_server_ts": 1.0, "hashes": {"a" : "<>&` + " " + `"}}`,
		`{"content":{"creator":"<` + " " + `"},"type":"m.room.create"}`,
		`{"content":{"Creator":1, "creator": 2},"type":"m.room.create"}`, `{"content":{"creator":1, "creator": 2},"type":"m.room.create"}`,
		`{"content":{"membership":"join","membership":"leave"},"type":"m.room.member"}`,
		`{"content":{"membership":"join"},"Content":{"membership":"leave","x":1},"type":"m.room.member"}`,
		`{"content":{"membership":"join"},"CONTENT":null,"type":"m.room.member"}`,
		`{"type":"m.room.create\u0000"}`, "{\"type\":\"a\xffb\"}", "{\"sender\":\"a\xffb\"}", ` {"type" : "x" } `, `{"type":"x"} x`,
		`{"unsigned":{"a":1},"membership":"join","prev_state":[],"origin":"x"}`,
		`{"type":"m.room.member","content":{"membership":-0,"x":-0}}`, `{"type":"m.room.power_levels","content":{"ban":9007199254740991,"kick":-9007199254740991,"redact":9007199254740992}}`,
		`{"type":"m.room.power_levels","content":{"ban":1.0}}`, `{"type":"m.room.power_levels","content":{"ban":1e2}}`, `{"type":"m.room.power_levels","content":{"x":1.5,"ban":7}}`,
		`{"type":"m.room.member","content":{"membership":"join","third_party_invite":{"signed":{"mxid":"@a:b","token":"t","signatures":{}},"display_name":"a"}}}`,
		`{"type":"m.room.member","content":{"third_party_invite":{"display_name":"a"}}}`,
		`{"type":"m.room.member","content":{"third_party_invite":"x"}}`,
		`{"type":"m.room.create","content":null}`, `{"type":"m.room.create"}`, `{"type":"m.room.create","content":{}}`,
		// case variants of protected keys are unlisted keys (exact matching); of duplicate exact keys the last one counts
		`{"Event_id":"$x","type":"m.room.message","content":{}}`,
		`{"Event_id":"$x","event_id":"$y","type":"m.room.message","content":{"body":"b"}}`,
		`{"event_id":"$y","Event_id":"$x","EVENT_ID":null,"type":"m.room.message","content":{}}`,
		`{"TYPE":"m.room.member","type":"m.room.create","content":{"creator":"@a:b","membership":"join"}}`,
		`{"Type":"m.room.member","content":{"membership":"join"}}`,
		`{"type":"m.room.member","Content":{"membership":"join"}}`, `{"type":"m.room.member","Content":{"membership":"join"},"content":{"membership":"leave","x":1}}`,
		`{"type":"m.room.member","content":{"membership":"leave"},"CONTENT":7}`, `{"type":"m.room.member","content":{"membership":"leave"},"CONTENT":{"a":1e999}}`,
		`{"Sender":"@a:b","SENDER":"@b:b","ſender":"@c:b","type":"x","content":{}}`, `{"sender":"@a:b","Sender":"@b:b","type":"x","content":{}}`,
		`{"State_key":"","ſtate_key":"@a:b","type":"m.room.member","content":{"membership":"join"}}`,
		`{"state_key":"@a:b","STATE_KEY":"","type":"m.room.member","content":{"membership":"join"}}`,
		`{"Hashes":{"sha256":"x"},"HASHES":null,"haſhes":1,"type":"x","content":{}}`, `{"hashes":{"sha256":"y"},"Hashes":{"sha256":"x"},"type":"x","content":{}}`,
		`{"Signatures":{"a":{"ed25519:1":"c2ln"}},"ſignatureſ":{},"type":"x","content":{}}`,
		`{"signatures":{"b":{"ed25519:1":"c2ln"}},"SIGNATURES":{"a":{"ed25519:1":"c2ln"}},"type":"x","content":{}}`,
		`{"Depth":1,"Room_id":"!r:b","Origin_server_ts":2,"Prev_events":[],"Auth_events":[],"Origin":"b","Membership":"join","Prev_state":[],"type":"x","content":{}}`,
		`{"type":5,"type":"x","content":{}}`, `{"type":"x","type":5,"content":{}}`, `{"type":null,"type":"x","content":7,"content":{"a":1}}`,
		`{"content":{"a":1},"content":{"b":2},"type":"m.room.create"}`, `{"sender":"@a:b","sender":"@b:b","type":"x","content":{}}`,
		`{"hashes":1,"hashes":null,"signatures":{"a":{}},"signatures":{"b":{}},"type":"x","content":{}}`,
		`{"event_id":"$a","event_id":"$b","state_key":"a","state_key":"b","type":"x","content":{}}`,
	}
	for _, ver := range allVersions {
		for _, t := range fixed {
			impl := o.Do("json", ver, redactShapeTag([]byte(t)), hx([]byte(t)))
			o.Count("fixed." + redactLabel(impl))
		}
	}
	// ---- 2. random events ----
	n := 1200
	if tier == "thorough" {
		n = 120000
	}
	for i := 0; i < n; i++ {
		ver := Pick(r, allVersions)
		safe := r.Chance(80)
		ev := jobj()
		if r.Chance(85) {
			ev = r.baseEvent(ver)
		}
		// extra / unusual top-level members
		for k := r.Intn(5); k > 0; k-- {
			key := Pick(r, redactTopKeys)
			if r.Chance(15) {
				key = r.genKey()
			}
			if ev.has(key) {
				continue
			}
			var v *JV
			switch r.Intn(5) {
			case 0:
				v = &JV{Kind: 'n'}
			case 1:
				v = r.GenValue(2, !safe)
			default:
				v = r.contentValue(key, safe)
			}
			ev.put(key, v)
		}
		// type
		switch r.Intn(20) {
		case 0:
			ev.put("type", Pick(r, []*JV{{Kind: 'n'}, jnum("1"), {Kind: 'b', B: true}, {Kind: 'a'}, jobj()}))
		case 1:
			// absent
		case 2:
			ev.put(Pick(r, []string{"Type", "TYPE", "tYpe"}), jstr(Pick(r, redactTypes)))
		case 3:
			ev.put("type", jstr(r.genStr()))
		default:
			ev.put("type", jstr(Pick(r, redactTypes[:9])))
		}
		// content
		switch r.Intn(20) {
		case 0:
			ev.put("content", Pick(r, []*JV{{Kind: 'n'}, jnum("1"), jstr("x"), {Kind: 'a'}, {Kind: 'b'}}))
		case 1:
			// absent
		case 2:
			ev.put(Pick(r, []string{"Content", "CONTENT", "contenT"}), r.fullContent(safe))
		default:
			c := jobj()
			for k := r.Intn(6); k > 0; k-- {
				key := Pick(r, redactContentKeys)
				if r.Chance(30) {
					key = Pick(r, redactNeighbourKeys)
				} else if r.Chance(10) {
					key = r.genKey()
				}
				if !c.has(key) {
					if r.Chance(25) {
						c.put(key, r.GenValue(3, !safe))
					} else {
						c.put(key, r.contentValue(key, safe))
					}
				}
			}
			ev.put("content", c)
		}
		// a second, case-variant or duplicate, member for one of the protected keys
		if r.Chance(12) {
			key := Pick(r, []string{"type", "content", "sender", "hashes", "Type", "Content", "ſender", "SENDER", "state_key", "State_Key",
				"event_id", "Event_id", "EVENT_ID", "signatures", "Signatures", "ſignatures", "HASHES", "haſhes", "ſtate_key", "room_id", "Room_ID", "depth", "Depth"})
			var v *JV
			switch {
			case strings.EqualFold(key, "type"):
				v = Pick(r, []*JV{jstr(Pick(r, redactTypes)), {Kind: 'n'}, jnum("3")})
			case strings.EqualFold(key, "content"):
				v = Pick(r, []*JV{r.fullContent(safe), {Kind: 'n'}, jobj(), {Kind: 'a'}})
			default:
				v = r.GenValue(1, !safe)
			}
			ev.Keys = append(ev.Keys, key) // duplicates allowed here on purpose
			ev.Vals = append(ev.Vals, v)
			o.Count("random.dup-or-variant")
		}
		st := r.RandStyle()
		impl := do("random", ver, ev, st)
		if i < 4 {
			o.Sample(ver + " " + string(r.RenderText(ev, plain)) + " -> " + sampleOut(impl))
		}
		if r.Chance(6) {
			t := r.Malform(r.RenderText(ev, st))
			im := o.Do("json", ver, redactShapeTag(t), hx(t))
			o.Count("malformed." + redactLabel(im))
		}
	}
	genRedactPDU(o, tier, r)
	genRedactPDUCheck(o, tier, r)
}

// redactShapeTag names the one input shape a known finding is about (computed from the text alone,
// recomputed by the driver): a m.room.member event whose content has an object third_party_invite
// with a "signed" member.
func redactShapeTag(text []byte) string {
	var ev struct {
		Type    json.RawMessage `json:"-"`
		Members map[string]json.RawMessage
	}
	if err := json.Unmarshal(text, &ev.Members); err != nil {
		return "-"
	}
	var ty string
	if json.Unmarshal(ev.Members["type"], &ty) != nil || ty != "m.room.member" {
		return "-"
	}
	var content map[string]json.RawMessage
	if c := ev.Members["content"]; len(c) == 0 || c[0] != '{' || json.Unmarshal(c, &content) != nil {
		return "-"
	}
	var tpi map[string]json.RawMessage
	if c := content["third_party_invite"]; len(c) == 0 || c[0] != '{' || json.Unmarshal(c, &tpi) != nil {
		return "-"
	}
	if _, ok := tpi["signed"]; ok {
		return "member-tpi-signed"
	}
	return "-"
}

func sampleOut(impl string) string {
	if strings.HasPrefix(impl, "ok:") {
		return string(unhx(impl[3:]))
	}
	return impl
}

// sortedKeys is a helper for deterministic iteration over maps in generators.
func sortedKeys(m map[string]interface{}) []string {
	ks := make([]string, 0, len(m))
	for k := range m {
		ks = append(ks, k)
	}
	sort.Strings(ks)
	return ks
}

var _ = json.Marshal

// ---- redact.pdu_check / redact.pdu_after: PDU.Redact() against RedactEventJSON of the JSON the event has at that moment ----
//
// C05 speaks about "redacting an event": whatever route the event took (trusted / untrusted constructor, with an `event_id`
// member or without, after EventID(), Sign(), SetUnsigned()), Redact() must leave exactly RedactEventJSON(JSON()) in canonical
// form, flagged redacted, same type / sender / room / state key, same ID in hashed formats (unless the trusted JSON itself
// carries an `event_id` member, which those formats re-read: caller's contract), signatures that verified still verifying, and a
// second Redact() changes nothing.  A panic is the documented answer for trusted JSON that Build / the untrusted constructor
// would have refused; on an event the untrusted constructor accepted it is a violation.
//
// pdu_check <ver> <ctor t|w|u> <hex id>:<hex json> <prep: comma list of eid,sign,unsigned,json>
//     -> ok | ok:panic-documented | err:construct | err:prep | bad:<vector>
// pdu_after <ver> <hex json before Redact()> <hex json after | PANIC>   (implementation outcome: the constant ok; the driver
//     recomputes the redaction of `before` with the model and compares)

func redactPrep(v gmsl.IRoomVersion, ver, ctor, ev, prep string) (gmsl.PDU, string) {
	id, js := splitEv(ev)
	var p gmsl.PDU
	var err error
	switch ctor {
	case "t":
		p, err = v.NewEventFromTrustedJSON(js, false)
	case "w":
		p, err = v.NewEventFromTrustedJSONWithEventID(id, js, false)
	case "u":
		p, err = v.NewEventFromUntrustedJSON(js)
	default:
		return nil, "bad-op"
	}
	if err != nil || p == nil {
		return nil, "err:construct"
	}
	sg := signers[1]
	for _, step := range strings.Split(prep, ",") {
		switch step {
		case "", "-":
		case "eid":
			_ = safeStr(func() string { return p.EventID() })
		case "json":
			_ = p.JSON()
		case "sign":
			q := p
			if r := Guard(func() string { q = p.Sign(sg.name, sg.kid, sg.sk); return "" }); r != "" {
				return nil, "err:prep"
			}
			p = q
		case "unsigned":
			var q gmsl.PDU
			var e2 error
			if r := Guard(func() string { q, e2 = p.SetUnsigned(map[string]interface{}{"age": 7, "prev_content": map[string]interface{}{"body": "old"}}); return "" }); r != "" || e2 != nil || q == nil {
				return nil, "err:prep"
			}
			p = q
		default:
			return nil, "bad-op"
		}
	}
	return p, ""
}

func execRedactPDUCheck(ver, ctor, ev, prep string) (string, []byte, []byte) {
	v, err := gmsl.GetRoomVersion(gmsl.RoomVersion(ver))
	if err != nil {
		return "err:version", nil, nil
	}
	p, why := redactPrep(v, ver, ctor, ev, prep)
	if p == nil {
		return why, nil, nil
	}
	sg := signers[1]
	pub := sg.sk.Public().(ed25519.PublicKey)
	before := append([]byte{}, p.JSON()...)
	ids0 := strings.Join([]string{p.Type(), string(p.SenderID()), safeStr(func() string { r := p.RoomID(); return r.String() }), showOptStr(p.StateKey())}, "\x00")
	eid0 := safeStr(func() string { return p.EventID() })
	sig0 := verifyEventSig(v, before, sg.name, string(sg.kid), pub)
	want, err := v.RedactEventJSON(before)
	if err != nil {
		return "err:redact", nil, nil
	}
	if want, err = gmsl.CanonicalJSON(want); err != nil {
		return "err:redact", nil, nil
	}
	if r := Guard(func() string { p.Redact(); return "" }); r != "" {
		if ctor == "u" {
			return "bad:panic-on-accepted-event", before, []byte("PANIC")
		}
		return "ok:panic-documented", before, []byte("PANIC")
	}
	after := append([]byte{}, p.JSON()...)
	ids1 := strings.Join([]string{p.Type(), string(p.SenderID()), safeStr(func() string { r := p.RoomID(); return r.String() }), showOptStr(p.StateKey())}, "\x00")
	eid1 := safeStr(func() string { return p.EventID() })
	sig1 := verifyEventSig(v, after, sg.name, string(sg.kid), pub)
	red1 := p.Redacted()
	idem := true
	if r := Guard(func() string { p.Redact(); return "" }); r != "" || string(p.JSON()) != string(after) || !p.Redacted() {
		idem = false
	}
	// the ID: hashed formats only; a trusted event whose JSON carries an exact `event_id` member re-reads it (caller's contract)
	eidOK := true
	if v.EventIDFormat() != gmsl.EventIDFormatV1 && !gjson.GetBytes(before, "event_id").Exists() {
		eidOK = eid0 == eid1
	}
	idsOK := ids0 == ids1
	if !idsOK && v.EventIDFormat() != gmsl.EventIDFormatV1 && gjson.GetBytes(before, "event_id").Exists() && v.DomainlessRoomIDs() {
		// same contract: the room ID of a room-version-12 create event is its event ID with the sigil swapped, so it follows
		// the ID such a trusted event re-reads from its `event_id` member; type, sender and state key must still agree
		strip := func(t string) string {
			p := strings.Split(t, "\x00")
			if len(p) == 4 {
				p[2] = ""
			}
			return strings.Join(p, "\x00")
		}
		idsOK = strip(ids0) == strip(ids1)
	}
	vec := "json=" + bit01(string(after) == string(want)) + "|red=" + bit01(red1) + "|ids=" + bit01(idsOK) + "|eid=" + bit01(eidOK) +
		"|sig=" + bit01(!sig0 || sig1) + "|idem=" + bit01(idem)
	if strings.Contains(vec, "=0") {
		return "bad:" + vec, before, after
	}
	return "ok", before, after
}

// genRedactPDUCheck: every constructor x preparation sequence on built and hand-made events
func genRedactPDUCheck(o *Out, tier string, r *Rng) {
	n := 2
	if tier == "thorough" {
		n = 40
	}
	preps := []string{"-", "eid", "sign", "unsigned", "eid,sign", "sign,unsigned", "eid,unsigned,sign", "json,sign,eid"}
	emit := func(ver, ctor, ev, prep string) {
		o.Do("pdu_check", ver, ctor, ev, prep)
		im, before, after := execRedactPDUCheck(ver, ctor, ev, prep)
		o.Count("pdu_check." + ctor + "." + strings.SplitN(im, "|", 2)[0])
		if before != nil {
			a := "PANIC"
			if string(after) != "PANIC" {
				a = hx(after)
			}
			o.Do("pdu_after", ver, hx(before), a)
		}
	}
	for round := 0; round < n; round++ {
		for _, ver := range allVersions {
			if b := r.buildEvent(o, ver); b != nil {
				ev := hx([]byte(b.pdu.EventID())) + ":" + hx(b.json)
				emit(ver, Pick(r, []string{"t", "w", "u"}), ev, Pick(r, preps))
				emit(ver, "u", ev, Pick(r, preps))
			}
			// hand-made trusted events: with / without an `event_id` member in every format, numbers the strict
			// canonical form refuses in kept and in dropped positions
			e := r.baseEvent(ver)
			typ := Pick(r, evTypes)
			e.put("type", jstr(typ))
			e.put("content", r.evContent(typ, r.Chance(70)))
			if !e.has("event_id") && r.Chance(50) {
				e.put("event_id", jstr(Pick(r, []string{"$abc:hs1", "$" + r.id43()})))
			}
			switch r.Intn(8) {
			case 0:
				e.put("depth", jnum(Pick(r, []string{"1.5", "9007199254740992", "1e3", "-0"})))
			case 1:
				e.put("origin_server_ts", jnum(Pick(r, []string{"9007199254740993", "12.0"})))
			case 2:
				u := jobj()
				u.put("age", jnum("1.25"))
				e.put("unsigned", u)
			case 3:
				if typ == "m.room.power_levels" {
					c := jobj()
					c.put("users_default", jnum(Pick(r, []string{"0.5", "1e2", "9007199254740992"})))
					c.put("zz_dropped", jnum("7"))
					e.put("content", c)
				}
			}
			t := r.RenderText(e, Style{})
			ev := hx([]byte("$hand:hs1")) + ":" + hx(t)
			emit(ver, Pick(r, []string{"t", "w"}), ev, Pick(r, preps))
		}
	}
}
