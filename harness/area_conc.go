package main

// Area `conc` (C19): schedule-for-schedule correspondence between the real concurrent code and the
// Lean interleaving models (lean/VModel/ConcDns.lean, ConcFetch.lean).
//
// The harness controls interleavings of the REAL code at exactly the model's atomic-region
// granularity without any hook inside the code: the only place where a goroutine is not inside a
// mutex-protected region is the unlocked call it makes to the resolver (DNSCache.lookup) or to the
// KeyClient (DirectKeyFetcher workers).  Both are scripted: the script signals "goroutine g reached
// the call" and blocks until the harness releases it.  At every instant at most one goroutine of
// the scenario is runnable, so the run is deterministic given the schedule.

import (
	"context"
	"errors"
	"fmt"
	"net"
	"os"
	"os/exec"
	"sort"
	"strconv"
	"strings"
	"time"

	"github.com/matrix-org/gomatrixserverlib/fclient"
)

func init() { areas["conc"] = Area{Gen: genConc, Exec: execConc} }

const concStepTimeout = 1500 * time.Millisecond

func execConc(op string, args []string) string {
	switch op {
	case "dns":
		// the last argument (the implementation's trace, for the driver's spec stream) is not an input
		if len(args) < 4 {
			return "bad-op"
		}
		cap, err := strconv.Atoi(args[0])
		if err != nil {
			return "bad-op"
		}
		return runDNSSchedule(cap, args[1], args[2], args[3])
	case "dns_size0":
		// size <= 0 makes the eviction loop spin forever with the mutex held: run it in a child
		// process so that the spinning goroutine dies with it.
		if len(args) < 4 {
			return "bad-op"
		}
		return execInChild("conc.dns\t" + strings.Join(args[:4], "\t"))
	case "fetch", "fetchbig":
		if len(args) < 2 {
			return "bad-op"
		}
		return runFetchSchedule(args[0], args[1], op)
	case "fetch2":
		if len(args) < 2 {
			return "bad-op"
		}
		return runFetch2(args[0], args[1])
	case "transport":
		if len(args) < 1 {
			return "bad-op"
		}
		return runTransportScript(args[0])
	case "verify2":
		if len(args) < 2 {
			return "bad-op"
		}
		return runVerify2(args[0], args[1])
	case "race_dns", "race_fetch", "race_transport", "race_eventid", "race_event_readonly":
		return runRaceOp(op, args)
	}
	return "bad-op"
}

// execInChild runs one op line in a fresh `vharness exec` process.
func execInChild(line string) string {
	self, err := os.Executable()
	if err != nil {
		return "harness-error:executable"
	}
	ctx, cancel := context.WithTimeout(context.Background(), 20*time.Second)
	defer cancel()
	cmd := exec.CommandContext(ctx, self, "exec")
	cmd.Stdin = strings.NewReader(line + "\n")
	out, err := cmd.Output()
	if err != nil {
		return "harness-error:child:" + oneLine(err.Error())
	}
	return strings.TrimSuffix(string(out), "\n")
}

// ---------------------------------------------------------------------------------------------
// DNS cache scheduler

type gidKey struct{}

type dnsEvent struct {
	g    int
	kind byte // 'B' blocked in resolver, 'R' returned entry, 'F' returned nil, 'D' deleted
	name string
	hit  bool
	addr []net.IPAddr
}

type schedResolver struct {
	events  chan dnsEvent
	release []chan int // 0: the call fails; 1: the answer of the name; k >= 2: variant k of it (a later state of the zone)
}

func dnsNameIdx(n string) int {
	if len(n) == 1 && n[0] >= 'a' && n[0] <= 'z' {
		return int(n[0] - 'a')
	}
	return 25
}

// dnsAnswer is the scripted resolver's answer: a function of the name (same convention as ansOf in VDriver/Conc.lean).
func dnsAnswer(n string) []net.IPAddr { return dnsAnswerV(n, 1) }

// dnsAnswerV: variant k >= 2 is the same host seen at another time (third octet + 2k): two resolver calls for one name can
// be told apart, so that serving ANOTHER call's answer past its expiry is observable (seeded change C19-r6m1)
func dnsAnswerV(n string, k int) []net.IPAddr {
	i := dnsNameIdx(n)
	off := 0
	if k >= 2 {
		off = 2 * k
	}
	out := []net.IPAddr{{IP: net.IPv4(10, 0, byte(off), byte(i+1))}}
	if i%2 == 1 {
		out = append(out, net.IPAddr{IP: net.IPv4(10, 0, byte(off+1), byte(i+1))})
	}
	return out
}

func showIPs(a []net.IPAddr) string {
	var parts []string
	for _, ip := range a {
		v4 := ip.IP.To4()
		if v4 == nil {
			parts = append(parts, "?")
			continue
		}
		parts = append(parts, strconv.Itoa(int(v4[2])*256+int(v4[3])))
	}
	return strings.Join(parts, "+")
}

func (r *schedResolver) LookupIPAddr(ctx context.Context, name string) ([]net.IPAddr, error) {
	g, _ := ctx.Value(gidKey{}).(int)
	r.events <- dnsEvent{g: g, kind: 'B', name: name}
	k := <-r.release[g]
	if k == 0 {
		return nil, errors.New("scripted resolver failure")
	}
	return dnsAnswerV(name, k), nil
}

type dnsOp struct {
	del     bool
	name    string
	fail    bool
	variant int // 0 / 1: the plain answer; 2..9: variant
	dial    bool // DNSCache.DialContext(name:443): lookup, every connection refused (no allowed network), and - after a cache
	// hit - delete and look up once more
}

func parseDNSOps(s string) ([][]dnsOp, bool) {
	var out [][]dnsOp
	for _, g := range strings.Split(s, ";") {
		var ops []dnsOp
		if g != "" {
			for _, o := range strings.Split(g, ",") {
				switch {
				case len(o) == 2 && o[0] == '-':
					ops = append(ops, dnsOp{del: true, name: o[1:]})
				case len(o) == 2 && o[0] == '~':
					ops = append(ops, dnsOp{dial: true, name: o[1:]})
				case len(o) == 2 && o[1] == '!':
					ops = append(ops, dnsOp{name: o[:1], fail: true})
				case len(o) == 2 && o[1] >= '2' && o[1] <= '9':
					ops = append(ops, dnsOp{name: o[:1], variant: int(o[1] - '0')})
				case len(o) == 1:
					ops = append(ops, dnsOp{name: o})
				default:
					return nil, false
				}
			}
		}
		out = append(out, ops)
	}
	return out, true
}

// clockTick returns once time.Now() has strictly advanced: consecutive atomic regions of the
// scenario read strictly increasing clock values (the model's moves carry strictly increasing times).
func clockTick() {
	t0 := time.Now()
	for !time.Now().After(t0) {
	}
}

func runDNSSchedule(size int, regime, opsS, sched string) string {
	todos, ok := parseDNSOps(opsS)
	if !ok {
		return "bad-op"
	}
	var dur, sleep time.Duration
	switch regime {
	case "h":
		dur = time.Hour
	case "n":
		dur = -time.Second
	case "s":
		dur, sleep = 500*time.Millisecond, 650*time.Millisecond
	default:
		return "bad-op"
	}
	k := len(todos)
	res := &schedResolver{events: make(chan dnsEvent, 4*k+4), release: make([]chan int, k)}
	cache := fclient.VerifNewDNSCache(size, dur, res)
	start := make([]chan dnsOp, k)
	for g := 0; g < k; g++ {
		res.release[g] = make(chan int, 1)
		start[g] = make(chan dnsOp)
		go func(g int) {
			ctx := context.WithValue(context.Background(), gidKey{}, g)
			for op := range start[g] {
				if op.del {
					cache.VerifDelete(op.name)
					res.events <- dnsEvent{g: g, kind: 'D', name: op.name}
					continue
				}
				if op.dial {
					conn, err := cache.DialContext(ctx, "tcp", op.name+":443")
					if err == nil && conn != nil {
						_ = conn.Close()
					}
					res.events <- dnsEvent{g: g, kind: 'X', name: op.name, hit: err == nil}
					continue
				}
				addrs, _, cached, found := cache.VerifLookup(ctx, op.name)
				if !found {
					res.events <- dnsEvent{g: g, kind: 'F', name: op.name}
				} else {
					res.events <- dnsEvent{g: g, kind: 'R', name: op.name, hit: cached, addr: addrs}
				}
			}
		}(g)
	}
	next := make([]int, k)       // index of the next op to start
	blocked := make([]bool, k)   // goroutine sits in the resolver
	curFail := make([]bool, k)   // fail flag of the op in flight
	curVar := make([]int, k)     // answer variant of the op in flight
	hung := false
	defer func() {
		if hung {
			return // a goroutine spins with the mutex held: leave everything as it is
		}
		for g := 0; g < k; g++ {
			if blocked[g] {
				res.release[g] <- 0
				<-res.events
			}
			close(start[g])
		}
	}()
	keys := func() string {
		m := cache.VerifEntries()
		ks := make([]string, 0, len(m))
		for n := range m {
			ks = append(ks, n)
		}
		sort.Strings(ks)
		return "[" + strings.Join(ks, ",") + "]"
	}
	wait := func(g int) (dnsEvent, bool) {
		select {
		case ev := <-res.events:
			if ev.g != g {
				return ev, false
			}
			return ev, true
		case <-time.After(concStepTimeout):
			return dnsEvent{}, false
		}
	}
	var trace []string
	for _, ch := range sched {
		clockTick()
		if ch == 'z' {
			time.Sleep(sleep)
			trace = append(trace, "Z"+keys())
			continue
		}
		g := int(ch - 'p')
		if g < 0 || g >= k {
			return "bad-op"
		}
		if !blocked[g] && next[g] >= len(todos[g]) {
			trace = append(trace, "-"+keys())
			continue
		}
		if blocked[g] {
			switch {
			case curFail[g]:
				res.release[g] <- 0
			case curVar[g] >= 2:
				res.release[g] <- curVar[g]
			default:
				res.release[g] <- 1
			}
		} else {
			op := todos[g][next[g]]
			next[g]++
			curFail[g], curVar[g] = op.fail, op.variant
			start[g] <- op
		}
		ev, ok := wait(g)
		if !ok {
			hung = true
			trace = append(trace, fmt.Sprintf("H%d", g))
			break
		}
		blocked[g] = ev.kind == 'B'
		var obs string
		switch ev.kind {
		case 'B':
			obs = fmt.Sprintf("B%d:%s", g, ev.name)
		case 'D':
			obs = fmt.Sprintf("D%d:%s", g, ev.name)
		case 'F':
			obs = fmt.Sprintf("F%d:%s", g, ev.name)
		case 'X':
			obs = fmt.Sprintf("X%d:%s", g, ev.name)
			if ev.hit {
				obs = fmt.Sprintf("C%d:%s", g, ev.name) // connected (never with no allowed network)
			}
		case 'R':
			hm := "m"
			if ev.hit {
				hm = "h"
			}
			obs = fmt.Sprintf("R%d:%s:%s:%s", g, ev.name, hm, showIPs(ev.addr))
		}
		trace = append(trace, obs+keys())
	}
	return strings.Join(trace, "|")
}

// ---------------------------------------------------------------------------------------------
// generators

// interleavings enumerates every sequence over goroutines 0..k-1 (written p, q, r, …: letters that can never be mistaken
// for a hex-encoded argument) in which g occurs cnt[g] times.
func interleavings(cnt []int, f func(s string)) {
	total := 0
	for _, c := range cnt {
		total += c
	}
	buf := make([]byte, 0, total)
	var rec func()
	rec = func() {
		if len(buf) == total {
			f(string(buf))
			return
		}
		for g := range cnt {
			if cnt[g] > 0 {
				cnt[g]--
				buf = append(buf, byte('p'+g))
				rec()
				buf = buf[:len(buf)-1]
				cnt[g]++
			}
		}
	}
	rec()
}

func randomInterleaving(r *Rng, cnt []int) string {
	c := append([]int(nil), cnt...)
	total := 0
	for _, x := range c {
		total += x
	}
	buf := make([]byte, 0, total)
	for total > 0 {
		x := r.Intn(total)
		for g := range c {
			if x < c[g] {
				buf = append(buf, byte('p'+g))
				c[g]--
				total--
				break
			}
			x -= c[g]
		}
	}
	return string(buf)
}

// dnsOpLists enumerates the op lists of length 1..maxLen over the given atoms.
func dnsOpLists(atoms []string, maxLen int) []string {
	var out []string
	var rec func(prefix []string)
	rec = func(prefix []string) {
		if len(prefix) > 0 {
			out = append(out, strings.Join(prefix, ","))
		}
		if len(prefix) == maxLen {
			return
		}
		for _, a := range atoms {
			rec(append(append([]string(nil), prefix...), a))
		}
	}
	rec(nil)
	return out
}

func movesOf(ops string) []int {
	var cnt []int
	for _, g := range strings.Split(ops, ";") {
		if g == "" {
			cnt = append(cnt, 0)
			continue
		}
		cnt = append(cnt, 2*len(strings.Split(g, ",")))
	}
	return cnt
}

// concHangs counts scenarios that ended in a timeout; after a few of them the generators stop producing more of the
// same kind (each costs a timeout), the ones emitted so far are enough to fail the check.
var concHangs = map[string]int{}

const concMaxHangs = 8

func emitDNS(o *Out, op string, size int, regime, ops, sched string) {
	if concHangs["dns"] >= concMaxHangs && op == "dns" {
		o.Count("dns.skipped-after-hangs")
		return
	}
	args := []string{strconv.Itoa(size), regime, ops, sched}
	impl := Guard(func() string { return execConc(op, args) })
	o.Emit(op, append(args, impl), impl)
	o.Count("dns.regime." + regime)
	o.Count("dns.cap." + strconv.Itoa(size))
	o.Count("dns.goroutines." + strconv.Itoa(len(strings.Split(ops, ";"))))
	if strings.Contains(impl, ":h:") {
		o.Count("dns.trace.has-hit")
	}
	if strings.Contains(impl, "F") {
		o.Count("dns.trace.has-failure")
	}
	if strings.Contains(impl, "H") {
		o.Count("dns.trace.hang")
		concHangs["dns"]++
	}
}

func genConc(o *Out, tier string, r *Rng) {
	genConcDNS(o, tier, r)
	genConcFetch(o, tier, r)
	genConcFetch2(o, tier, r)
	genConcVerify2(o, tier, r)
	genConcTransport(o, tier, r)
	genConcRace(o, tier, r)
}

func genConcDNS(o *Out, tier string, r *Rng) {
	atoms2 := []string{"a", "b", "a!", "-a", "a2", "~a"}
	atoms3 := []string{"a", "b", "c", "b!", "-b", "b3", "a2", "~a", "~b"}
	lists2 := dnsOpLists(atoms2, 2)
	lists3 := dnsOpLists(atoms3, 3)
	regimes := []string{"h", "n"}
	if tier == "thorough" {
		// bounded-exhaustive: 2 goroutines x op lists of length <= 2 over {a,b,a!,-a} x cap 1,2 x both regimes x ALL schedules
		for _, l0 := range lists2 {
			for _, l1 := range lists2 {
				ops := l0 + ";" + l1
				for _, size := range []int{1, 2} {
					for _, rg := range regimes {
						interleavings(movesOf(ops), func(s string) { emitDNS(o, "dns", size, rg, ops, s) })
					}
				}
			}
		}
		// 3 goroutines x one op each x cap 1,2 x both regimes x ALL schedules
		one := []string{"a", "b", "a!", "-a", "c", "a2", "~a"}
		for _, x := range one {
			for _, y := range one {
				for _, z := range one {
					ops := x + ";" + y + ";" + z
					for _, size := range []int{1, 2} {
						for _, rg := range regimes {
							interleavings(movesOf(ops), func(s string) { emitDNS(o, "dns", size, rg, ops, s) })
						}
					}
				}
			}
		}
	}
	// seeded sample of the same space and of a larger one (3 goroutines, lists <= 3, 3 names, cap 1..3)
	n := 1500
	if tier == "thorough" {
		n = 20000
	}
	for i := 0; i < n; i++ {
		var ops string
		size := 1 + r.Intn(2)
		if r.Chance(40) {
			ops = Pick(r, lists2) + ";" + Pick(r, lists2)
		} else {
			k := 2 + r.Intn(2)
			var gs []string
			for g := 0; g < k; g++ {
				gs = append(gs, Pick(r, lists3))
			}
			ops = strings.Join(gs, ";")
			size = 1 + r.Intn(3)
		}
		emitDNS(o, "dns", size, Pick(r, regimes), ops, randomInterleaving(r, movesOf(ops)))
		if i < 4 {
			o.Sample("conc.dns cap=" + strconv.Itoa(size) + " ops=" + ops)
		}
	}
	// real-sleep cases (thorough): entries expire between moves; run concurrently, emitted in order
	if tier == "thorough" {
		type job struct {
			args []string
			out  chan string
		}
		var jobs []job
		for i := 0; i < 12; i++ {
			ops := Pick(r, lists2) + ";" + Pick(r, lists2)
			base := randomInterleaving(r, movesOf(ops))
			pos := 1 + r.Intn(len(base)-1)
			sched := base[:pos] + "z" + base[pos:]
			if r.Bool() {
				sched += "zp"
			}
			j := job{args: []string{strconv.Itoa(1 + r.Intn(2)), "s", ops, sched}, out: make(chan string, 1)}
			jobs = append(jobs, j)
			go func(j job) { j.out <- Guard(func() string { return execConc("dns", j.args) }) }(j)
		}
		for _, j := range jobs {
			impl := <-j.out
			o.Emit("dns", append(j.args, impl), impl)
			o.Count("dns.regime.s")
		}
	}
	// size <= 0: the eviction loop can never make `len(entries) >= size` false
	emitDNS(o, "dns_size0", 0, "h", "a", "pp")
	emitDNS(o, "dns_size0", 0, "n", "a,a;a", "pqpqpp")
	if tier == "thorough" {
		emitDNS(o, "dns_size0", -1, "h", "a;b", "pqpq")
	}
}
