package main

import (
	"crypto/ed25519"
	"encoding/base64"
	"encoding/json"
	"strings"

	gmsl "github.com/matrix-org/gomatrixserverlib"
	"github.com/matrix-org/gomatrixserverlib/spec"
)

func init() { areas["auth"] = Area{Gen: genAuth, Exec: execAuth} }

// parseEvArg rebuilds an event from "<hex id>:<hex json>".
func parseEvArg(ver, arg string) (gmsl.PDU, error) {
	i := strings.IndexByte(arg, ':')
	id, js := string(unhx(arg[:i])), unhx(arg[i+1:])
	v, err := gmsl.GetRoomVersion(gmsl.RoomVersion(ver))
	if err != nil {
		return nil, err
	}
	return v.NewEventFromTrustedJSONWithEventID(id, js, false)
}

// overrides for the directed scenarios of `allowed_nilq` (nil / negative = none): the sender of the event under test and
// the roll that selects its class
var authSenderOverride *string
var authKindOverride = -1

// auth.allowed <ver> <sig3pid> <event> <authevent>...
func execAuth(op string, args []string) string {
	switch op {
	// allowed_nilq: the same check asked with NilQuerier (area_fuzz.go): (nil, nil) for a sender that is not a user ID
	case "allowed", "allowed_nilq":
		ver := args[0]
		ev, err := parseEvArg(ver, args[2])
		if err != nil {
			return "err:construct"
		}
		var auth []gmsl.PDU
		for _, a := range args[3:] {
			e, err := parseEvArg(ver, a)
			if err != nil {
				return "err:construct"
			}
			auth = append(auth, e)
		}
		prov, err := gmsl.NewAuthEvents(auth)
		if err != nil {
			return "err:provider"
		}
		if op == "allowed_nilq" {
			return coarse(gmsl.Allowed(ev, prov, NilQuerier))
		}
		return coarse(gmsl.Allowed(ev, prov, StdQuerier))
	}
	return "bad-op"
}

// (two IDs differ from others only in letter case — of the server name, of the localpart: equality of user IDs and of
// server names is byte equality everywhere in the auth rules)
var authUsers = []string{"@creator:hs1", "@alice:hs1", "@bob:hs2", "@carol:hs3", "@dave:hs2", "@eve:HS1", "@Alice:hs1"}
var memberships = []string{"join", "leave", "invite", "ban", "knock"}
var joinRules = []string{"public", "invite", "knock", "restricted", "knock_restricted", "private", ""}
var levelVals = []int64{-1, 0, 1, 25, 49, 50, 51, 75, 99, 100, 101}

// genLevel returns a JSON level value: mostly ints, sometimes strings / floats / junk (coerced before v10).
func (r *Rng) genLevel() interface{} {
	v := Pick(r, levelVals)
	switch r.Intn(42) {
	case 40, 41:
		// decimal strings only: a leading zero is not octal, prefixes and digit separators are not numbers
		// (seeded change C08-r8m2 parsed them with base 0)
		a := v
		if a < 0 {
			a = -a
		}
		return json.RawMessage(`"` + Pick(r, []string{"0" + itoa(a), "00" + itoa(a), "-0" + itoa(a), "+" + itoa(a), "+0" + itoa(a),
			"0x" + itoa(a), "0X1f", "0b11", "0o" + itoa(a), "1_0", "0_" + itoa(a), "٥٠"}) + `"`)
	case 0:
		return json.RawMessage(`"` + itoa(v) + `"`)
	case 1:
		return json.RawMessage(`" ` + itoa(v) + ` "`)
	case 2:
		return json.RawMessage(itoa(v) + ".5")
	case 3:
		return json.RawMessage(itoa(v) + ".0")
	case 4:
		return json.RawMessage(`1e2`)
	case 5:
		return Pick(r, []json.RawMessage{json.RawMessage(`"x"`), json.RawMessage(`null`), json.RawMessage(`true`), json.RawMessage(`[]`), json.RawMessage(`{}`), json.RawMessage(`""`), json.RawMessage(`9007199254740992`), json.RawMessage(`-9223372036854775808`), json.RawMessage(`9223372036854775808`)})
	}
	return v
}

func itoa(v int64) string { b, _ := json.Marshal(v); return string(b) }

var plEventTypes = []string{"m.room.name", "m.room.power_levels", "m.room.message", "m.room.member", "m.room.redaction", "m.room.third_party_invite", "x.custom",
	// event types spelled like the named thresholds / other keys of the content (they share no namespace with them)
	"ban", "kick", "invite", "redact", "users_default", "events_default", "state_default", "users", "events", "notifications", "room"}

// genPL generates a power_levels content.
func (r *Rng) genPL(users []string) map[string]interface{} {
	c := map[string]interface{}{}
	for _, k := range []string{"ban", "kick", "invite", "redact", "events_default", "state_default", "users_default"} {
		if r.Chance(55) {
			c[k] = r.genLevel()
		}
	}
	if r.Chance(85) {
		u := map[string]interface{}{}
		for _, name := range users {
			if r.Chance(60) {
				u[name] = r.genLevel()
			}
		}
		if r.Chance(3) {
			u[Pick(r, []string{"notauser", "@nodomain", "@:hs1", "alice:hs1", "@x:bad domain"})] = int64(1)
		}
		c["users"] = u
	}
	if r.Chance(50) {
		e := map[string]interface{}{}
		for _, t := range plEventTypes {
			if r.Chance(35) {
				e[t] = r.genLevel()
			}
		}
		c["events"] = e
	}
	if r.Chance(30) {
		n := map[string]interface{}{}
		for _, t := range []string{"room", "other"} {
			if r.Chance(60) {
				n[t] = r.genLevel()
			}
		}
		c["notifications"] = n
	}
	if r.Chance(2) {
		c[Pick(r, []string{"users", "events", "notifications"})] = Pick(r, []interface{}{nil, []int{}, "x", 5})
	}
	return c
}

func clonePL(c map[string]interface{}) map[string]interface{} {
	b, _ := json.Marshal(c)
	var out map[string]interface{}
	d := json.NewDecoder(strings.NewReader(string(b)))
	d.UseNumber()
	_ = d.Decode(&out)
	// keep raw numbers as json.Number (marshals back verbatim)
	return out
}

// mutatePL changes a few entries of a content.
func (r *Rng) mutatePL(old map[string]interface{}, users []string) map[string]interface{} {
	c := clonePL(old)
	n := 1 + r.Intn(3)
	for i := 0; i < n; i++ {
		switch r.Intn(6) {
		case 0, 1:
			k := Pick(r, []string{"ban", "kick", "invite", "redact", "events_default", "state_default", "users_default"})
			if r.Chance(25) {
				delete(c, k)
			} else {
				c[k] = r.genLevel()
			}
		case 2, 3:
			u, _ := c["users"].(map[string]interface{})
			if u == nil {
				u = map[string]interface{}{}
			}
			name := Pick(r, users)
			if r.Chance(30) {
				delete(u, name)
			} else {
				u[name] = r.genLevel()
			}
			c["users"] = u
		case 4:
			e, _ := c["events"].(map[string]interface{})
			if e == nil {
				e = map[string]interface{}{}
			}
			t := Pick(r, plEventTypes)
			if r.Chance(30) {
				delete(e, t)
			} else {
				e[t] = r.genLevel()
			}
			c["events"] = e
		case 5:
			e, _ := c["notifications"].(map[string]interface{})
			if e == nil {
				e = map[string]interface{}{}
			}
			t := Pick(r, []string{"room", "other"})
			if r.Chance(30) {
				delete(e, t)
			} else {
				e[t] = r.genLevel()
			}
			c["notifications"] = e
		}
	}
	return c
}

// genCleanPL: all-integer content in which the listed users have distinct well-defined levels.
func (r *Rng) genCleanPL(users []string, creatorInUsers bool) map[string]interface{} {
	lv := []int64{0, 25, 50, 75, 100}
	c := map[string]interface{}{}
	for _, k := range []string{"ban", "kick", "invite", "redact", "events_default", "state_default", "users_default"} {
		if r.Chance(60) {
			c[k] = Pick(r, lv)
		}
	}
	u := map[string]interface{}{}
	for i, name := range users {
		if i == 0 {
			if creatorInUsers {
				u[name] = int64(100)
			}
			continue
		}
		if r.Chance(70) {
			u[name] = Pick(r, lv)
		}
	}
	c["users"] = u
	if r.Chance(50) {
		e := map[string]interface{}{}
		for _, t := range plEventTypes {
			if r.Chance(30) {
				e[t] = Pick(r, lv)
			}
		}
		c["events"] = e
	}
	if r.Chance(30) {
		c["notifications"] = map[string]interface{}{"room": Pick(r, lv)}
	}
	return c
}

func asInt(v interface{}) (int64, bool) {
	switch x := v.(type) {
	case int64:
		return x, true
	case json.Number:
		n, err := x.Int64()
		return n, err == nil
	case float64:
		return int64(x), true
	}
	return 0, false
}

// tweakPL changes exactly one entry of a clean content to a value around level L.
func (r *Rng) tweakPL(old map[string]interface{}, users []string, L int64) map[string]interface{} {
	c := clonePL(old)
	around := []interface{}{L - 1, L, L + 1, int64(0), int64(100)}
	if r.Chance(6) {
		// a JSON null where a level, or an object of levels, belongs (never an integer; refused from version 10 on)
		switch r.Intn(4) {
		case 0:
			c[Pick(r, []string{"ban", "kick", "invite", "redact", "events_default", "state_default", "users_default"})] = nil
		case 1:
			c[Pick(r, []string{"users", "events", "notifications"})] = nil
		default:
			k := Pick(r, []string{"users", "events", "notifications"})
			m, _ := c[k].(map[string]interface{})
			if m == nil {
				m = map[string]interface{}{}
			}
			m[Pick(r, map[string][]string{"users": users[1:], "events": plEventTypes, "notifications": {"room", "other"}}[k])] = nil
			c[k] = m
		}
		return c
	}
	switch r.Intn(5) {
	case 0, 1:
		k := Pick(r, []string{"ban", "kick", "invite", "redact", "events_default", "state_default", "users_default"})
		if r.Chance(25) {
			delete(c, k)
		} else {
			c[k] = Pick(r, around)
		}
	case 2:
		u, _ := c["users"].(map[string]interface{})
		if u == nil {
			u = map[string]interface{}{}
		}
		name := Pick(r, users)
		if r.Chance(30) {
			delete(u, name)
		} else {
			u[name] = Pick(r, around)
		}
		c["users"] = u
	case 3:
		e, _ := c["events"].(map[string]interface{})
		if e == nil {
			e = map[string]interface{}{}
		}
		t := Pick(r, plEventTypes)
		if r.Chance(30) {
			delete(e, t)
		} else {
			e[t] = Pick(r, around)
		}
		c["events"] = e
	case 4:
		e, _ := c["notifications"].(map[string]interface{})
		if e == nil {
			e = map[string]interface{}{}
		}
		t := Pick(r, []string{"room", "other"})
		if r.Chance(30) {
			delete(e, t)
		} else {
			e[t] = Pick(r, around)
		}
		c["notifications"] = e
	}
	return c
}

// AuthScenario is one room state + one event under test.
type AuthScenario struct {
	G       *RoomGen
	Auth    []*Ev
	Event   *Ev
	Sig3pid bool
	Label   string
}

// caseVariant returns the content key under another spelling now and then (Capitalised, UPPER, U+017F for an s, one
// other letter raised): encoding/json would match such a member with the struct field, but member names are exact —
// every reader of a member content (the auth check, StateNeededForAuth, Membership(), the signature requirements,
// state resolution) has to ignore `Membership`, `Join_authorised_via_users_server`, `Third_party_invite`, `Mxid_mapping`.
func (r *Rng) caseVariant(key string) string { return r.caseVariantP(key, 4) }

func (r *Rng) caseVariantP(key string, pct int) string {
	if !r.Chance(pct) {
		return key
	}
	return r.otherSpelling(key)
}

// otherSpelling: a spelling of key that differs from it and folds to it.  As keys of a Go map the variants are
// marshalled in byte order: the ones with an upper-case letter BEFORE the exact key, the U+017F one AFTER it.
func (r *Rng) otherSpelling(key string) string {
	switch r.Intn(4) {
	case 0:
		return strings.ToUpper(key[:1]) + key[1:]
	case 1:
		return strings.ToUpper(key)
	case 2:
		if i := strings.LastIndex(key, "s"); i >= 0 {
			return key[:i] + "ſ" + key[i+1:]
		}
	}
	return key[:len(key)-1] + strings.ToUpper(key[len(key)-1:])
}

// variantBeside adds, next to members of c with an exact member-content name, a member under another spelling of that
// name with a DIFFERENT value (what a folded reader would take instead of / in place of the exact member).
func (r *Rng) variantBeside(c map[string]interface{}, pct int) bool {
	added := false
	for _, key := range []string{"membership", "join_authorised_via_users_server", "third_party_invite", "mxid_mapping"} {
		cur, ok := c[key]
		if !ok || !r.Chance(pct) {
			continue
		}
		var other interface{}
		switch key {
		case "membership":
			other = Pick(r, memberships)
			if other == cur {
				other = "leave"
				if cur == "leave" {
					other = "join"
				}
			}
			if r.Chance(10) {
				other = 5 // ill-typed under the other spelling: no error for a reader of exact names
			}
		case "join_authorised_via_users_server":
			other = Pick(r, append([]string{"", "@ghost:hs1"}, authUsers...))
		default:
			other = Pick(r, []interface{}{5, nil, map[string]interface{}{}})
		}
		c[r.otherSpelling(key)] = other
		added = true
	}
	return added
}

func (r *Rng) memberContent(membership string) map[string]interface{} {
	c := map[string]interface{}{r.caseVariant("membership"): membership}
	if r.Chance(15) {
		c["displayname"] = "x"
	}
	if r.Chance(2) {
		c["displayname"] = 5 // full decode fails, partial succeeds
	}
	return c
}

// genAuthScenario builds a room state and an event to check. Returns nil when the library refuses to construct an event.
func genAuthScenario(r *Rng, ver string) *AuthScenario {
	g := NewRoomGen(r, ver)
	s := &AuthScenario{G: g}
	verImpl := gmsl.MustGetRoomVersion(gmsl.RoomVersion(ver))
	creator := authUsers[0]
	coherent := r.Chance(55)
	// --- create event
	cc := map[string]interface{}{}
	if !verImpl.PrivilegedCreators() || r.Chance(30) {
		cc["creator"] = creator
		// from version 11 on the member means nothing: whoever it names is no creator (seeded change C08-r5m2)
		if verImpl.PrivilegedCreators() && r.Chance(60) {
			cc["creator"] = Pick(r, authUsers[1:])
		}
	}
	if r.Chance(70) {
		cc["room_version"] = ver
	}
	if !coherent && r.Chance(4) {
		cc["room_version"] = Pick(r, []interface{}{"1", "2", "3", "99", 5, nil})
	}
	if !coherent && r.Chance(25) {
		cc["m.federate"] = r.Chance(40)
	}
	if verImpl.PrivilegedCreators() && r.Chance(40) {
		cc["additional_creators"] = []string{"@alice:hs1"}
	}
	create := g.MkCreate(creator, cc)
	if create == nil {
		return nil
	}
	authSpelled = nil
	create = r.maybeRespell(g, create, 4) // a member name of the content in a variant spelling (gen_authvariants.go)
	g.Create = create
	haveCreate := coherent || !r.Chance(4)
	if haveCreate {
		s.Auth = append(s.Auth, create)
	}
	// --- power levels
	var oldPL map[string]interface{}
	if coherent && r.Chance(85) {
		oldPL = r.genCleanPL(authUsers, !verImpl.PrivilegedCreators())
		if e := r.maybeRespell(g, g.Mk(spec.MRoomPowerLevels, creator, sp(""), oldPL, nil, nil, nil), 6); e != nil {
			s.Auth = append(s.Auth, e)
		}
	} else if !coherent && r.Chance(75) {
		oldPL = r.genPL(authUsers)
		if verImpl.PrivilegedCreators() {
			if u, ok := oldPL["users"].(map[string]interface{}); ok {
				delete(u, creator)
			}
		}
		if e := r.maybeRespell(g, g.Mk(spec.MRoomPowerLevels, creator, sp(""), oldPL, nil, nil, nil), 6); e != nil {
			s.Auth = append(s.Auth, e)
		}
	}
	// --- join rules
	jr := ""
	pseudoAuth := ver == "org.matrix.msc4014" && r.Chance(50)
	if r.Chance(75) || pseudoAuth {
		jr = Pick(r, joinRules)
		if coherent {
			jr = Pick(r, joinRules[:5])
		}
		if pseudoAuth && r.Chance(70) {
			jr = Pick(r, []string{"restricted", "knock_restricted"})
		}
		c := map[string]interface{}{"join_rule": jr}
		if !coherent && r.Chance(3) {
			c["join_rule"] = Pick(r, []interface{}{5, nil, []string{}})
		}
		if jr == "restricted" || jr == "knock_restricted" {
			c["allow"] = []map[string]interface{}{{"type": "m.room_membership", "room_id": "!other:hs1"}}
		}
		if e := r.maybeRespell(g, g.Mk(spec.MRoomJoinRules, creator, sp(""), c, nil, nil, nil), 8); e != nil {
			s.Auth = append(s.Auth, e)
		}
	}
	// --- memberships
	mem := map[string]string{}
	for _, u := range authUsers {
		if r.Chance(70) {
			m := Pick(r, memberships)
			if (u == creator && r.Chance(70)) || (coherent && r.Chance(45)) {
				m = "join"
			}
			mem[u] = m
			c := r.memberContent(m)
			if e := g.Mk(spec.MRoomMember, u, sp(u), c, nil, nil, nil); e != nil {
				s.Auth = append(s.Auth, e)
			}
		}
	}
	if pseudoAuth {
		// pseudo-ID rooms: an authoriser need not look like a user ID — `notauser` is a member there, and a restricted join
		// naming it reads its membership, which StateNeededForAuth has to name (seeded change C09-r8m2)
		m := Pick(r, []string{"join", "join", "join", "leave", "invite"})
		mem["notauser"] = m
		if e := g.Mk(spec.MRoomMember, "notauser", sp("notauser"), r.memberContent(m), nil, nil, nil); e != nil {
			s.Auth = append(s.Auth, e)
		}
	}
	sender := Pick(r, authUsers)
	if r.Chance(40) || coherent {
		// bias towards a joined sender
		for _, u := range authUsers {
			if mem[u] == "join" && r.Chance(50) {
				sender = u
			}
		}
	}
	if authSenderOverride != nil {
		sender = *authSenderOverride
	}
	prev := []string{"$prev:hs1"}
	if r.Chance(10) {
		prev = []string{create.ID}
	}
	kindRoll := r.Intn(100)
	if authKindOverride >= 0 {
		kindRoll = authKindOverride
	}
	switch k := kindRoll; {
	case k < 40: // membership change
		target := Pick(r, authUsers)
		if r.Chance(45) {
			target = sender
		}
		newM := Pick(r, memberships)
		if r.Chance(3) {
			newM = Pick(r, []string{"", "JOIN", "kick"})
		}
		c := r.memberContent(newM)
		besideExact := false // set below: a case variant of a member name next to the exact name
		if r.Chance(10) && len(c) == 1 {
			// the event under test spells `membership` in another letter case (StateNeededForAuth must read what the check reads)
			c = map[string]interface{}{r.caseVariantP("membership", 100): newM}
		}
		if newM == "join" && r.Chance(45) {
			c[r.caseVariant("join_authorised_via_users_server")] = Pick(r, append([]string{"", "notauser", "@ghost:hs1"}, authUsers...))
			if pseudoAuth && r.Chance(60) {
				c["join_authorised_via_users_server"] = "notauser"
			}
		}
		if r.Chance(2) {
			for k := range c {
				if strings.EqualFold(k, "membership") {
					delete(c, k)
				}
			}
			c["membership"] = Pick(r, []interface{}{5, nil, []string{}})
		}
		var content interface{} = c
		if r.Chance(1) {
			content = Pick(r, []interface{}{nil, "x", []int{1}})
		}
		if newM == "invite" && r.Chance(35) {
			// third party invite
			pub, priv, _ := ed25519.GenerateKey(newDetReader(r))
			signed := map[string]interface{}{"mxid": target, "token": "tok1"}
			if r.Chance(15) {
				signed["mxid"] = "@other:hs1"
			}
			sb, _ := json.Marshal(signed)
			signedJSON, err := gmsl.SignJSON("idserver", "ed25519:0", priv, sb)
			valid := err == nil
			if r.Chance(20) { // corrupt: sign something else
				sb2, _ := json.Marshal(map[string]interface{}{"mxid": target, "token": "tok2"})
				s2, _ := gmsl.SignJSON("idserver", "ed25519:0", priv, sb2)
				var m2 map[string]interface{}
				_ = json.Unmarshal(s2, &m2)
				var m1 map[string]interface{}
				_ = json.Unmarshal(signedJSON, &m1)
				m1["signatures"] = m2["signatures"]
				signedJSON, _ = json.Marshal(m1)
				valid = false
			}
			if r.Chance(40) {
				// further signatures under the identity server's name that do not verify (a rotated key, a junk entry, another
				// algorithm): the block is signed when SOME ed25519 signature verifies under SOME listed key, whichever entry a
				// map iteration yields first (seeded change C09-r5m1)
				var m1 map[string]interface{}
				if json.Unmarshal(signedJSON, &m1) == nil {
					if sigs, ok := m1["signatures"].(map[string]interface{}); ok {
						if mine, ok := sigs["idserver"].(map[string]interface{}); ok {
							junk := base64.RawStdEncoding.EncodeToString(make([]byte, 64))
							for _, kid := range [][]string{{"ed25519:1"}, {"ed25519:00", "ed25519:z"}, {"ed25519:1", "rsa:1"}, {"ed25519:", "ed25519:0a", "ed25519:9"}}[r.Intn(4)] {
								mine[kid] = junk
							}
							if r.Chance(15) {
								mine["ed25519:short"] = "AAAA"
							}
							signedJSON, _ = json.Marshal(m1)
						}
					}
				}
			}
			c[r.caseVariant("third_party_invite")] = map[string]interface{}{"display_name": "x", "signed": json.RawMessage(signedJSON)}
			// the m.room.third_party_invite event
			keys := []map[string]interface{}{}
			include := r.Chance(80)
			if include {
				keys = append(keys, map[string]interface{}{"public_key": base64.RawStdEncoding.EncodeToString(pub), "key_validity_url": "https://x"})
			}
			if r.Chance(30) {
				other, _, _ := ed25519.GenerateKey(newDetReader(r))
				keys = append([]map[string]interface{}{{"public_key": base64.RawStdEncoding.EncodeToString(other), "key_validity_url": "https://y"}}, keys...)
			}
			if r.Chance(10) {
				keys = append(keys, map[string]interface{}{"public_key": "AAAA", "key_validity_url": "https://z"}) // 3-byte key
			}
			tpc := map[string]interface{}{"display_name": "x", "key_validity_url": "https://x", "public_key": base64.RawStdEncoding.EncodeToString(pub), "public_keys": keys}
			tok := "tok1"
			if r.Chance(10) {
				tok = "tok9"
			}
			if r.Chance(92) {
				if e := r.maybeRespell(g, g.Mk(spec.MRoomThirdPartyInvite, creator, sp(tok), tpc, nil, nil, nil), 15); e != nil {
					s.Auth = append(s.Auth, e)
				}
			}
			s.Sig3pid = valid && include
		}
		if r.Chance(8) {
			// another spelling of a member name NEXT TO the exact one, with another value: readers take the exact member
			besideExact = r.variantBeside(c, 70)
		}
		s.Event = g.Mk(spec.MRoomMember, sender, sp(target), content, prev, nil, nil)
		s.Label = "member"
		if besideExact {
			s.Label = "member+variant-beside-exact"
		}
	case k < 62: // power levels
		base := oldPL
		if base == nil {
			base = map[string]interface{}{}
		}
		var np map[string]interface{}
		if coherent {
			// the sender's level in the old content
			L := int64(0)
			if v, ok := asInt(base["users_default"]); ok {
				L = v
			}
			if u, ok := base["users"].(map[string]interface{}); ok {
				if v, ok := asInt(u[sender]); ok {
					L = v
				}
			}
			if oldPL == nil && sender == creator {
				L = 100
			}
			if verImpl.PrivilegedCreators() && (sender == creator || (sender == "@alice:hs1" && cc["additional_creators"] != nil)) {
				L = Pick(r, []int64{50, 75, 100}) // creators outrank every level: any value may be set
			}
			np = r.tweakPL(base, authUsers, L)
		} else if r.Chance(75) {
			np = r.mutatePL(base, authUsers)
		} else {
			np = r.genPL(authUsers)
		}
		s.Event = r.maybeRespell(g, g.Mk(spec.MRoomPowerLevels, sender, sp(""), np, prev, nil, nil), 8)
		s.Label = "power_levels"
	case k < 70: // create
		c := map[string]interface{}{"creator": sender}
		if r.Chance(30) {
			delete(c, "creator")
		}
		if r.Chance(50) {
			c["room_version"] = Pick(r, []interface{}{ver, "1", "99", 7})
		}
		if r.Chance(30) {
			c["additional_creators"] = Pick(r, []interface{}{[]string{"@alice:hs1"}, []string{"bad"}, "x", []string{"@:hs1"}})
		}
		var pv []string
		if r.Chance(20) {
			pv = prev
		}
		sk := sp("")
		if r.Chance(10) {
			sk = sp("x")
		}
		extra := map[string]interface{}{}
		if g.v3 && r.Chance(30) {
			extra["room_id"] = g.RoomID
		}
		if !g.v3 && r.Chance(20) {
			extra["room_id"] = "!room:hs2"
		}
		s.Event = r.maybeRespell(g, g.Mk(spec.MRoomCreate, sender, sk, c, pv, nil, extra), 12)
		s.Label = "create"
	case k < 76: // aliases
		sk := sp(domainOf(sender))
		if r.Chance(30) {
			sk = sp(Pick(r, []string{"hs1", "hs2", "", "other"}))
		}
		s.Event = g.Mk(spec.MRoomAliases, sender, sk, map[string]interface{}{"aliases": []string{}}, prev, nil, nil)
		s.Label = "aliases"
	case k < 84: // redaction
		extra := map[string]interface{}{"redacts": Pick(r, []string{"$x:hs1", "$x:hs2", "$x:hs3", "$nodomain", ""})}
		s.Event = g.Mk(spec.MRoomRedaction, sender, nil, map[string]interface{}{}, prev, nil, extra)
		s.Label = "redaction"
	default: // other events
		typ := Pick(r, []string{"m.room.message", "m.room.name", "m.room.third_party_invite", "x.custom", "m.room.join_rules"})
		var sk *string
		if r.Chance(60) {
			sk = sp(Pick(r, []string{"", sender, "@other:hs1", "@", "x"}))
		}
		s.Event = g.Mk(typ, sender, sk, map[string]interface{}{"body": "x"}, prev, nil, nil)
		s.Label = "other"
	}
	if s.Event == nil {
		return nil
	}
	if r.Chance(2) {
		// an auth event from a different room
		g2 := NewRoomGen(r, ver)
		g2.RoomID = "!elsewhere:hs1"
		if !g.v3 {
			if e := g2.Mk("m.room.name", creator, sp(""), map[string]interface{}{}, nil, nil, nil); e != nil {
				s.Auth = append(s.Auth, e)
			}
		}
	}
	if r.Chance(3) && !g.v3 {
		// several auth events from a different room, some on (type, state_key) pairs the right room also fills: whatever
		// order the provider receives them in, and whichever of them end up replaced, the set stays refused
		g2 := NewRoomGen(r, ver)
		g2.RoomID = "!elsewhere:hs1"
		k := 1 + r.Intn(3)
		for i := 0; i < k; i++ {
			var e *Ev
			switch r.Intn(4) {
			case 0:
				u := Pick(r, authUsers)
				e = g2.Mk(spec.MRoomMember, u, sp(u), map[string]interface{}{"membership": "join"}, nil, nil, nil)
			case 1:
				e = g2.Mk(spec.MRoomPowerLevels, creator, sp(""), map[string]interface{}{"users": map[string]interface{}{creator: 100}}, nil, nil, nil)
			case 2:
				e = g2.Mk(spec.MRoomJoinRules, creator, sp(""), map[string]interface{}{"join_rule": "public"}, nil, nil, nil)
			case 3:
				e = g2.Mk("m.room.name", creator, sp(""), map[string]interface{}{}, nil, nil, nil)
			}
			if e != nil {
				s.Auth = append(s.Auth, e)
			}
		}
		s.Label += "+foreign"
	}
	s.Label += takeSpelled()
	// shuffle auth events
	for i := len(s.Auth) - 1; i > 0; i-- {
		j := r.Intn(i + 1)
		s.Auth[i], s.Auth[j] = s.Auth[j], s.Auth[i]
	}
	return s
}

func (s *AuthScenario) Args() []string {
	sig := "0"
	if s.Sig3pid {
		sig = "1"
	}
	args := []string{s.G.Ver, sig, s.Event.Arg()}
	for _, a := range s.Auth {
		args = append(args, a.Arg())
	}
	return args
}

// detReader feeds ed25519.GenerateKey from the run's PRNG.
type detReader struct{ r *Rng }

func newDetReader(r *Rng) *detReader { return &detReader{r} }
func (d *detReader) Read(p []byte) (int, error) {
	for i := range p {
		p[i] = byte(d.r.Next())
	}
	return len(p), nil
}

func genAuth(o *Out, tier string, r *Rng) {
	if tier == "witness" { // run by hand: prints the named witnesses only (corpus/C07/auth.ops)
		genAuthSpace(o, tier, r)
		return
	}
	if tier == "spellings" { // run by hand: the directed spelling-variant scenarios only (gen_authvariants.go)
		genAuthSpellings(o, "quick", r)
		return
	}
	n := 4000
	if tier == "thorough" {
		n = 150000
	}
	for i := 0; i < n; i++ {
		ver := Pick(r, allVersions)
		s := genAuthScenario(r, ver)
		if s == nil {
			o.Count("construct-refused")
			continue
		}
		res := o.Do("allowed", s.Args()...)
		o.Count("class." + s.Label + "." + res)
		if i < 4 {
			o.Sample(s.Label + " " + ver + " " + string(s.Event.JSON))
		}
	}
	genAuthSpellings(o, tier, r) // C07: variant spellings of content member names, directed scenarios (gen_authvariants.go)
	genAuthSpace(o, tier, r) // C07: named witnesses + bounded-exhaustive membership rule space (gen_authspace.go)
	// C18 / C07 (second audit round): the check asked with a querier that answers (nil, nil) — no user, no error — for a
	// sender that is not a user ID (what a pseudo-ID homeserver's querier does for a key it does not know).  Two thirds of
	// the scenarios have such a sender (the empty string, a base64 key, a localpart alone, …), most of those are create /
	// aliases events (the two checks that look the sender up before anything else); the rest are the ordinary scenarios.
	nq := 600
	if tier == "thorough" {
		nq = 20000
	}
	for i := 0; i < nq; i++ {
		ver := Pick(r, allVersions)
		if r.Chance(25) {
			ver = "org.matrix.msc4014"
		}
		if r.Chance(66) {
			authSenderOverride = sp(Pick(r, []string{"", "Zm9v", "notauser", "@nodomain", "abc:def", "@:hs1", "@x:bad domain", "AAAAAAAAAAAAAAAAAAAAAAAAAAAAAAAAAAAAAAAAAAA"}))
			if r.Chance(70) {
				authKindOverride = Pick(r, []int{62, 65, 69, 70, 73, 75}) // create, aliases
			}
		}
		s := genAuthScenario(r, ver)
		bad := authSenderOverride != nil
		authSenderOverride, authKindOverride = nil, -1
		if s == nil {
			o.Count("construct-refused")
			continue
		}
		res := o.Do("allowed_nilq", s.Args()...)
		if bad {
			o.Count("nilq.sender-not-a-user-id." + s.Label + "." + res)
		} else {
			o.Count("nilq.ordinary." + s.Label + "." + res)
		}
	}
}
