package main

// Area `sign` (C02): SignJSON / VerifyJSON / ListKeyIDs against the Lean model with symbolic cryptography.
//
// ops (see lean/VDriver/Sign.lean):
//
//	sign   <label> <hex text> <hex name> <hex kid> <key index>
//	verify <label> <hex text> <hex name> <hex kid> <hex pk> <facts> <expect>   fine verdict classes
//	accept <label> <hex text> <hex name> <hex kid> <hex pk> <facts> <expect>   ok | rej (+ specification)
//	list   <label> <hex text> <hex name>
//
// facts = "sig:pk:payload,..." (hex): signature bytes that really are ed25519 signatures by the key with
// public half pk over payload.  The payloads are computed here by specPayload (Go maps + CanonicalJSON),
// independently of SignJSON / VerifyJSON.

import (
	"bytes"
	"context"
	"crypto/ed25519"
	"encoding/base64"
	"encoding/json"
	"fmt"
	"os"
	"os/exec"
	"sort"
	"strconv"
	"strings"
	"time"

	gmsl "github.com/matrix-org/gomatrixserverlib"
	"github.com/matrix-org/gomatrixserverlib/spec"
)

func init() { areas["sign"] = Area{Gen: genSign, Exec: execSign} }

// signKey returns the i-th deterministic key pair.
func signKey(i int) (ed25519.PublicKey, ed25519.PrivateKey) {
	priv := ed25519.NewKeyFromSeed(bytes.Repeat([]byte{byte(i + 1)}, 32))
	return priv.Public().(ed25519.PublicKey), priv
}

var sigMarker = base64.RawStdEncoding.EncodeToString(bytes.Repeat([]byte{0xFF}, 64))

func marshalNoHTML(v interface{}) ([]byte, error) {
	var buf bytes.Buffer
	enc := json.NewEncoder(&buf)
	enc.SetEscapeHTML(false)
	if err := enc.Encode(v); err != nil {
		return nil, err
	}
	return buf.Bytes(), nil
}

// specPayload: canonical JSON of the object minus the exact keys "signatures" and "unsigned".
func specPayload(text []byte) ([]byte, bool) {
	var obj map[string]json.RawMessage
	if err := json.Unmarshal(text, &obj); err != nil || obj == nil {
		return nil, false
	}
	delete(obj, "signatures")
	delete(obj, "unsigned")
	b, err := marshalNoHTML(obj)
	if err != nil {
		return nil, false
	}
	c, err := gmsl.CanonicalJSON(b)
	if err != nil {
		return nil, false
	}
	return c, true
}

func classifyVerify(err error) string {
	if err == nil {
		return "ok"
	}
	m := err.Error()
	switch {
	case strings.HasPrefix(m, "No signatures"):
		return "err:nosigs"
	case strings.HasPrefix(m, "No signature from"):
		return "err:nosig"
	case strings.HasPrefix(m, "Bad signature length"):
		return "err:siglen"
	case strings.HasPrefix(m, "Bad public key length"):
		return "err:pklen"
	case strings.HasPrefix(m, "Bad signature from"):
		return "err:badsig"
	}
	return "err:json"
}

func execSign(op string, args []string) string {
	switch op {
	case "sign":
		text, name, kid := unhx(args[1]), string(unhx(args[2])), string(unhx(args[3]))
		idx, _ := strconv.Atoi(args[4])
		pub, priv := signKey(idx)
		out, err := gmsl.SignJSON(name, gmsl.KeyID(kid), priv, text)
		if err != nil {
			return "err"
		}
		// the signature SignJSON stored for (name, kid), read with exact keys
		var obj map[string]json.RawMessage
		var sigs map[string]map[string]spec.Base64Bytes
		if err := json.Unmarshal(out, &obj); err != nil {
			return "ok-unparseable:" + hx(out)
		}
		if raw, ok := obj["signatures"]; ok {
			_ = json.Unmarshal(raw, &sigs)
		}
		sig, ok := sigs[name][kid]
		if !ok {
			return "ok-nosig:" + hx(out)
		}
		marked := bytes.ReplaceAll(out, []byte(`"`+sig.Encode()+`"`), []byte(`"`+sigMarker+`"`))
		// which message does the signature verify over?
		payload := "unknown"
		var cands [][]byte
		if p, ok := specPayload(text); ok {
			cands = append(cands, p)
		}
		if c, err := gmsl.CanonicalJSON(text); err == nil {
			cands = append(cands, c) // covers non-object top levels
		}
		for _, c := range cands {
			if len(sig) == ed25519.SignatureSize && ed25519.Verify(pub, c, sig) {
				payload = hx(c)
				break
			}
		}
		return "ok:" + hx(marked) + ":" + payload + ":" + classifyVerify(gmsl.VerifyJSON(name, gmsl.KeyID(kid), pub, out))
	case "verify":
		return classifyVerify(gmsl.VerifyJSON(string(unhx(args[2])), gmsl.KeyID(unhx(args[3])), ed25519.PublicKey(unhx(args[4])), unhx(args[1])))
	case "accept":
		if gmsl.VerifyJSON(string(unhx(args[2])), gmsl.KeyID(unhx(args[3])), ed25519.PublicKey(unhx(args[4])), unhx(args[1])) == nil {
			return "ok"
		}
		return "rej"
	case "deep_verify", "deep_sign":
		// in a child process under a time budget: a fatal stack overflow or a run over the budget is the OUTCOME
		// `panic:fatal-stack-overflow` / `panic:timeout`, not the end of the harness
		return runSignChild(op+"_child", args)
	case "deep_verify_child":
		depth, _ := strconv.Atoi(args[1])
		pub, priv := signKey(0)
		text, payload := deepSignedText(args[0], depth, priv)
		if text == nil {
			return "bad-op"
		}
		_ = payload
		if gmsl.VerifyJSON("srv", "ed25519:1", pub, text) == nil {
			return "ok"
		}
		return "rej"
	case "deep_sign_child":
		depth, _ := strconv.Atoi(args[1])
		pub, priv := signKey(0)
		text := deepUnsignedText(args[0], depth)
		if text == nil {
			return "bad-op"
		}
		out, err := gmsl.SignJSON("srv", "ed25519:1", priv, text)
		if err != nil {
			return "err"
		}
		return "ok:" + classifyVerify(gmsl.VerifyJSON("srv", "ed25519:1", pub, out))
	case "list":
		ids, err := gmsl.ListKeyIDs(string(unhx(args[2])), unhx(args[1]))
		if err != nil {
			return "err"
		}
		var hs []string
		for _, id := range ids {
			hs = append(hs, hx([]byte(id)))
		}
		sort.Strings(hs)
		if len(hs) == 0 {
			return "ok:-"
		}
		return "ok:" + strings.Join(hs, ",")
	}
	return "bad-op"
}

// signOpBudget: the time one deep_* op may take (a signed object of a few hundred KB is verified in milliseconds).
const signOpBudget = 5 * time.Second

// runSignChild executes one op of this area in a child `vharness exec` (as runIsolated of area_stateres.go does, but with
// the Go runtime's own stack limit - 1 GB -: the library's recursions over a document nested 10000 deep, the most
// encoding/json reads, legitimately need more than the 32 MB runIsolated grants).
func runSignChild(op string, args []string) string {
	exe, err := os.Executable()
	if err != nil {
		return "err:no-executable"
	}
	ctx, cancel := context.WithTimeout(context.Background(), signOpBudget)
	defer cancel()
	cmd := exec.CommandContext(ctx, exe, "exec")
	for _, kv := range os.Environ() {
		if !strings.HasPrefix(kv, "VHARNESS_MAXSTACK=") {
			cmd.Env = append(cmd.Env, kv)
		}
	}
	cmd.Env = append(cmd.Env, "GOMEMLIMIT=2GiB", "GOTRACEBACK=single")
	cmd.Stdin = strings.NewReader("sign." + op + "\t" + strings.Join(args, "\t") + "\n")
	var stdout, stderr bytes.Buffer
	cmd.Stdout, cmd.Stderr = &stdout, &stderr
	runErr := cmd.Run()
	if ctx.Err() == context.DeadlineExceeded {
		return "panic:timeout"
	}
	if out := stdout.String(); runErr == nil && strings.HasSuffix(out, "\n") && strings.Count(out, "\n") == 1 {
		return strings.TrimSuffix(out, "\n")
	}
	msg := stderr.String()
	switch {
	case strings.Contains(msg, "stack overflow") || strings.Contains(msg, "goroutine stack exceeds"):
		return "panic:fatal-stack-overflow"
	case strings.Contains(msg, "out of memory"):
		return "panic:fatal-out-of-memory"
	}
	if i := strings.IndexByte(msg, '\n'); i >= 0 {
		msg = msg[:i]
	}
	return "panic:fatal:" + oneLine(msg)
}

// deepSignedText: an object correctly signed by (srv, ed25519:1) one member of which is nested `depth` deep (the same
// bytes as `deepText` of lean/VDriver/Sign.lean, with the real signature).  The signed form is written out by hand:
// nothing of the library is involved in making the input.
func deepSignedText(kind string, depth int, priv ed25519.PrivateKey) (text, payload []byte) {
	br := strings.Repeat("[", depth) + strings.Repeat("]", depth)
	var member string
	switch kind {
	case "arr", "open":
		member = br
	case "obj":
		member = strings.Repeat(`{"a":`, depth) + "1" + strings.Repeat("}", depth)
	case "uns", "sigs":
		member = "1"
	default:
		return nil, nil
	}
	payload = []byte(`{"a":` + member + `}`)
	sig := base64.RawStdEncoding.EncodeToString(ed25519.Sign(priv, payload))
	block := `"signatures":{"srv":{"ed25519:1":"` + sig + `"}}`
	switch kind {
	case "arr", "obj":
		return []byte(`{"a":` + member + `,` + block + `}`), payload
	case "uns":
		return []byte(`{"a":1,` + block + `,"unsigned":` + br + `}`), payload
	case "sigs":
		return []byte(`{"a":1,"signatures":{"srv":{"ed25519:1":"` + sig + `"},"zz":` + br + `}}`), payload
	}
	return []byte(`{"a":` + strings.Repeat("[", depth)), payload // open: never closed
}

// deepUnsignedText: the objects of `deep_sign` (= `deepSignText` of lean/VDriver/Sign.lean)
func deepUnsignedText(kind string, depth int) []byte {
	br := strings.Repeat("[", depth) + strings.Repeat("]", depth)
	switch kind {
	case "arr":
		return []byte(`{"a":` + br + `}`)
	case "obj":
		return []byte(`{"a":` + strings.Repeat(`{"a":`, depth) + "1" + strings.Repeat("}", depth) + `}`)
	case "uns":
		return []byte(`{"a":1,"unsigned":` + br + `}`)
	}
	return nil
}

// ---------------------------------------------------------------- JV helpers

func jvStr(s string) *JV { return &JV{Kind: 's', Str: s} }
func jvNum(s string) *JV { return &JV{Kind: '#', Num: s} }
func jvNull() *JV        { return &JV{Kind: 'n'} }
func jvObj() *JV         { return &JV{Kind: 'o'} }
func (v *JV) clone() *JV {
	c := *v
	c.Arr = nil
	for _, x := range v.Arr {
		c.Arr = append(c.Arr, x.clone())
	}
	c.Keys = append([]string{}, v.Keys...)
	c.Vals = nil
	for _, x := range v.Vals {
		c.Vals = append(c.Vals, x.clone())
	}
	return &c
}
func (v *JV) get(k string) *JV {
	for i, kk := range v.Keys {
		if kk == k {
			return v.Vals[i]
		}
	}
	return nil
}
func (v *JV) set(k string, x *JV) {
	for i, kk := range v.Keys {
		if kk == k {
			v.Vals[i] = x
			return
		}
	}
	v.Keys = append(v.Keys, k)
	v.Vals = append(v.Vals, x)
}
func (v *JV) del(k string) {
	for i, kk := range v.Keys {
		if kk == k {
			v.Keys = append(v.Keys[:i], v.Keys[i+1:]...)
			v.Vals = append(v.Vals[:i], v.Vals[i+1:]...)
			return
		}
	}
}
func (v *JV) rename(k, k2 string) {
	for i, kk := range v.Keys {
		if kk == k {
			v.Keys[i] = k2
		}
	}
}

var signNames = []string{"srv", "hs1", "example.org", "a.b:8448", "other", "", "<&>", "é.org", "[::1]:80", "x y", "SRV", "Example.org", "42", ":8448", "a.b", "-1", "a*b", "#x", "@u:srv"}
// (key IDs are opaque strings compared byte for byte: spellings that differ only in letter case are different keys)
var signKids = []string{"ed25519:1", "ed25519:a_b", "ed25519:auto", "k", "", "ed25519:<", "curve25519:1", "ED25519:auto", "Ed25519:1", "ed25519:AUTO", "ed25519:ſ"}

func (r *Rng) randBytes(n int) []byte {
	b := make([]byte, n)
	for i := range b {
		b[i] = byte(r.Next())
	}
	return b
}

// genB64 writes some byte string in one of the spellings Base64Bytes accepts (label says which).
func (r *Rng) genB64() (string, bool) {
	n := Pick(r, []int{0, 1, 2, 3, 4, 5, 31, 32, 63, 64, 64, 64, 65})
	b := r.randBytes(n)
	s := base64.RawStdEncoding.EncodeToString(b)
	switch r.Intn(12) {
	case 0:
		return base64.RawURLEncoding.EncodeToString(b), true
	case 1:
		if len(s) > 2 {
			return s[:2] + "\n" + s[2:], true
		}
	case 2:
		return s + "\r\n", true
	case 3: // non-zero trailing bits
		if len(s)%4 == 2 || len(s)%4 == 3 {
			bs := []byte(s)
			bs[len(bs)-1] = "BCDEFGHIJKLMNOP"[r.Intn(15)]
			return string(bs), true
		}
	case 4: // invalid
		return Pick(r, []string{"!", "A", "AAAAA", "AA==", "AAA=", "A A", "-+", "_/", "é", "AA\tAA", "AAAA.", " "}), false
	}
	return s, true
}

// genSigMap: a `signatures` value; ok = it is a well-formed signature object.
func (r *Rng) genSigMap(wellFormedOnly bool) (*JV, bool) {
	ok := true
	m := jvObj()
	nn := r.Intn(4)
	for i := 0; i < nn; i++ {
		name := Pick(r, signNames)
		if m.get(name) != nil {
			continue
		}
		inner := jvObj()
		nk := r.Intn(3)
		for j := 0; j < nk; j++ {
			kid := Pick(r, signKids)
			if inner.get(kid) != nil {
				continue
			}
			s, good := r.genB64()
			if wellFormedOnly && !good {
				s = "AAAA"
				good = true
			}
			ok = ok && good
			inner.set(kid, jvStr(s))
			if !wellFormedOnly && r.Chance(4) {
				inner.set(kid, Pick(r, []*JV{jvNull(), jvNum("5"), jvObj(), {Kind: 'a'}, {Kind: 'b', B: true}}))
				ok = false
			}
		}
		m.set(name, inner)
		if !wellFormedOnly && r.Chance(6) {
			m.set(name, Pick(r, []*JV{jvNull(), jvNull(), jvNum("5"), jvStr("x"), {Kind: 'a'}}))
			ok = false
		}
	}
	if !wellFormedOnly && r.Chance(6) {
		return Pick(r, []*JV{jvNull(), jvNull(), jvNum("5"), jvStr("x"), {Kind: 'a'}, {Kind: 'b'}}), false
	}
	return m, ok
}

var sigVariants = []string{"Signatures", "SIGNATURES", "signatureſ", "sIgnatures", "ſignatures"}
var unsVariants = []string{"Unsigned", "UNSIGNED", "unſigned", "unsigneD"}

// genSignBase: an object to sign. Returns the value and a label of its class.
func (r *Rng) genSignBase() (*JV, string) {
	v := r.GenObject(1+r.Intn(3), true)
	v.del("signatures")
	v.del("unsigned")
	label := "plain"
	if r.Chance(55) {
		m, ok := r.genSigMap(r.Chance(70))
		v.set("signatures", m)
		if ok {
			label = "sigs"
		} else {
			label = "badsigs"
		}
	}
	if r.Chance(45) {
		v.set("unsigned", r.GenValue(2, true))
		label += "+unsigned"
	}
	if r.Chance(12) {
		// case-variant keys: renamed, or in addition to the exact key
		label = "casevar-" + label
		switch r.Intn(4) {
		case 0:
			v.rename("signatures", Pick(r, sigVariants))
		case 1:
			m, _ := r.genSigMap(r.Chance(80))
			v.set(Pick(r, sigVariants), m)
		case 2:
			v.rename("unsigned", Pick(r, unsVariants))
		case 3:
			v.set(Pick(r, unsVariants), r.GenValue(1, true))
		}
	}
	// shuffle member order (case variants before/after the exact key matters for the merge)
	for i := len(v.Keys) - 1; i > 0; i-- {
		j := r.Intn(i + 1)
		v.Keys[i], v.Keys[j] = v.Keys[j], v.Keys[i]
		v.Vals[i], v.Vals[j] = v.Vals[j], v.Vals[i]
	}
	return v, label
}

// mutateValue changes one leaf or member somewhere inside v (never a no-op on the denoted value).
func (r *Rng) mutateValue(v *JV, depth int) {
	switch v.Kind {
	case 'o':
		if len(v.Keys) > 0 && r.Chance(60) {
			i := r.Intn(len(v.Keys))
			switch r.Intn(3) {
			case 0:
				v.Keys = append(v.Keys[:i], v.Keys[i+1:]...)
				v.Vals = append(v.Vals[:i], v.Vals[i+1:]...)
			case 1:
				r.mutateValue(v.Vals[i], depth+1)
			case 2:
				nk := v.Keys[i] + "x"
				if v.get(nk) == nil {
					v.Keys[i] = nk
				} else {
					r.mutateValue(v.Vals[i], depth+1)
				}
			}
			return
		}
		k := "zz" + strconv.Itoa(r.Intn(1000))
		for v.get(k) != nil {
			k += "z"
		}
		v.set(k, r.GenValue(1, false))
	case 'a':
		if len(v.Arr) > 0 && r.Chance(50) {
			r.mutateValue(v.Arr[r.Intn(len(v.Arr))], depth+1)
			return
		}
		if len(v.Arr) > 1 && r.Chance(30) && (v.Arr[0].Kind != v.Arr[1].Kind || v.Arr[0].Kind == 's' && v.Arr[0].Str != v.Arr[1].Str) {
			v.Arr[0], v.Arr[1] = v.Arr[1], v.Arr[0] // order of array elements is significant
			return
		}
		v.Arr = append(v.Arr, jvStr("extra"))
	case 's':
		v.Str += Pick(r, []string{"x", " ", "\u0000", "é", "<"})
	case '#':
		if v.Num == "1" {
			v.Num = "2"
		} else if v.Num == "0" || v.Num == "-0" {
			v.Num = "1"
		} else {
			v.Num = Pick(r, []string{"1", "0"})
		}
	case 'b':
		v.B = !v.B
	case 'n':
		*v = *jvStr("null")
	}
}


// ---------------------------------------------------------------- texts readers disagree on
//
// signScan finds, in a valid JSON text whose top level is an object, every string token and every object,
// each tagged with the top-level member it lies in ("" = the top-level object itself).

type signStrTok struct {
	start, end int // the token with its quotes: text[start:end]
	top        string
	isKey      bool
	topKey     bool // a member name of the top-level object
}
type signObjTok struct {
	open, close int // positions of '{' and '}'
	top         string
	keys        [][2]int // raw member names (with quotes)
}
type signScan struct {
	t    []byte
	strs []signStrTok
	objs []signObjTok
}

func (s *signScan) ws(i int) int {
	for i < len(s.t) && (s.t[i] == ' ' || s.t[i] == '\t' || s.t[i] == '\n' || s.t[i] == '\r') {
		i++
	}
	return i
}
func (s *signScan) str(i int) int { // i at the opening quote; returns the index after the closing quote
	i++
	for s.t[i] != '"' {
		if s.t[i] == '\\' {
			i++
		}
		i++
	}
	return i + 1
}
func (s *signScan) value(i int, top string, depth int) int {
	i = s.ws(i)
	switch s.t[i] {
	case '"':
		e := s.str(i)
		s.strs = append(s.strs, signStrTok{i, e, top, false, false})
		return e
	case '{':
		idx := len(s.objs)
		s.objs = append(s.objs, signObjTok{open: i, top: top})
		i = s.ws(i + 1)
		for s.t[i] != '}' {
			if s.t[i] == ',' {
				i = s.ws(i + 1)
			}
			ke := s.str(i)
			mtop := top
			if depth == 0 {
				var name string
				_ = json.Unmarshal(s.t[i:ke], &name)
				mtop = name
			}
			s.strs = append(s.strs, signStrTok{i, ke, mtop, true, depth == 0})
			s.objs[idx].keys = append(s.objs[idx].keys, [2]int{i, ke})
			i = s.ws(ke) + 1 // ':'
			i = s.ws(s.value(i, mtop, depth+1))
		}
		s.objs[idx].close = i
		return i + 1
	case '[':
		i = s.ws(i + 1)
		for s.t[i] != ']' {
			if s.t[i] == ',' {
				i++
			}
			i = s.ws(s.value(i, top, depth+1))
		}
		return i + 1
	}
	for i < len(s.t) && !strings.ContainsRune(",]} \t\r\n", rune(s.t[i])) {
		i++
	}
	return i
}

func splice(t []byte, at int, ins string, del int) []byte {
	out := append([]byte{}, t[:at]...)
	out = append(out, ins...)
	return append(out, t[at+del:]...)
}

func signExcluded(top string) bool { return top == "signatures" || top == "unsigned" }

var loneSurrogates = []string{`\ud800`, `\udc00`, `\uDBFF`, `\udfff`, `\ud83d`, `\uD83DA`, `\ude00\ud83d`, `\ud800\ud800`}

// signAmbiguate rewrites a valid text into one its readers disagree on. kind: 0 lone surrogate escape in a
// string / member name, 1 duplicate member (first or last), 2 invalid UTF-8 in a string / member name.
// signedPart selects where: inside the signed members (true) or inside `signatures` / `unsigned`, or as a
// second `signatures` / `unsigned` member (false).  Returns nil when the text offers no such place.
func (r *Rng) signAmbiguate(text []byte, kind int, signedPart bool) ([]byte, string) {
	if len(text) == 0 || bytes.IndexByte(text, '{') < 0 {
		return nil, ""
	}
	sc := &signScan{t: text}
	func() {
		defer func() { _ = recover() }()
		sc.value(0, "", 0)
	}()
	if len(sc.objs) == 0 || sc.objs[0].close == 0 {
		return nil, ""
	}
	where := "signed"
	if !signedPart {
		where = "excluded"
	}
	switch kind {
	case 0, 2:
		var cands []signStrTok
		for _, st := range sc.strs {
			if signExcluded(st.top) != signedPart && !(st.topKey && signExcluded(st.top)) {
				cands = append(cands, st)
			}
		}
		if len(cands) == 0 {
			return nil, ""
		}
		st := Pick(r, cands)
		at := st.start + 1
		if r.Bool() {
			at = st.end - 1
		}
		what := "value"
		if st.isKey {
			what = "name"
		}
		if kind == 0 {
			return splice(text, at, Pick(r, loneSurrogates), 0), "surrogate-" + what + "-" + where
		}
		// invalid UTF-8: where the string holds U+FFFD write a byte every Go reader turns into U+FFFD, else insert one
		if i := bytes.Index(text[st.start:st.end], []byte("\xef\xbf\xbd")); i >= 0 {
			return splice(text, st.start+i, Pick(r, []string{"\xff", "\xc0", "\xed\xa0\x80", "\x80"}), 3), "utf8-fffd-" + what + "-" + where
		}
		return splice(text, at, Pick(r, []string{"\xff", "\xc3", "\xed\xa0\x80", "\xc0\xaf"}), 0), "utf8-" + what + "-" + where
	default:
		var cands []signObjTok
		for _, ob := range sc.objs {
			if len(ob.keys) > 0 && (signExcluded(ob.top) != signedPart) {
				cands = append(cands, ob)
			}
		}
		top := sc.objs[0]
		if !signedPart && (len(cands) == 0 || r.Chance(50)) {
			// a second `signatures` / `unsigned` member of the top-level object
			m := Pick(r, []string{`"signatures":{}`, `"unsigned":{}`, `"signatures":null`, `"unsigned":{"age":1}`, `"signatures":{}`})
			present := false
			for _, k := range top.keys {
				var name string
				_ = json.Unmarshal(text[k[0]:k[1]], &name)
				present = present || strings.HasPrefix(m, `"`+name+`"`)
			}
			if !present {
				return splice(text, top.open+1, m+","+m+",", 0), "dup-excluded-member-twice"
			}
			if r.Bool() {
				return splice(text, top.open+1, m+",", 0), "dup-excluded-member-first"
			}
			return splice(text, top.close, ","+m, 0), "dup-excluded-member-last"
		}
		if len(cands) == 0 {
			return nil, ""
		}
		ob := Pick(r, cands)
		var keys [][2]int
		for _, k := range ob.keys {
			var name string
			_ = json.Unmarshal(text[k[0]:k[1]], &name)
			if ob.open != top.open || signExcluded(name) != signedPart {
				keys = append(keys, k)
			}
		}
		if len(keys) == 0 {
			return nil, ""
		}
		k := Pick(r, keys)
		raw := string(text[k[0]:k[1]])
		if len(raw) > 2 && raw[1] >= 'a' && raw[1] <= 'z' && r.Chance(30) {
			raw = `"` + fmt.Sprintf(`\u%04x`, raw[1]) + raw[2:] // the same name in another spelling
		}
		m := raw + ":" + Pick(r, []string{`"EVIL"`, `0`, `null`, `{}`, `[1]`})
		depth := "nested"
		if ob.open == top.open {
			depth = "top"
		}
		if r.Bool() {
			return splice(text, ob.open+1, m+",", 0), "dup-first-" + depth + "-" + where
		}
		return splice(text, ob.close, ","+m, 0), "dup-last-" + depth + "-" + where
	}
}

type signFact struct {
	sig, pk, payload []byte
}

func factsArg(fs []signFact) string {
	if len(fs) == 0 {
		return "-"
	}
	var parts []string
	for _, f := range fs {
		parts = append(parts, hx(f.sig)+":"+hx(f.pk)+":"+hx(f.payload))
	}
	return strings.Join(parts, ",")
}

// setSig stores a signature in v.signatures[name][kid] (creating maps as needed).
func setSig(v *JV, name, kid string, sig []byte) {
	m := v.get("signatures")
	if m == nil || m.Kind != 'o' {
		m = jvObj()
		v.set("signatures", m)
	}
	inner := m.get(name)
	if inner == nil || inner.Kind != 'o' {
		inner = jvObj()
		m.set(name, inner)
	}
	inner.set(kid, jvStr(base64.RawStdEncoding.EncodeToString(sig)))
}

func genVerifyCase(o *Out, r *Rng) {
	v := r.GenObject(1+r.Intn(3), true)
	v.del("signatures")
	v.del("unsigned")
	if r.Chance(30) {
		v.set("html", jvStr(Pick(r, []string{"<>&", "  ", "<script>alert('&')</script>", "a b"})))
	}
	if r.Chance(10) {
		v.set(Pick(r, []string{"<", "&amp;", " ", ">k"}), jvNum("1"))
	}
	if r.Chance(40) {
		m, _ := r.genSigMap(true)
		v.set("signatures", m)
	}
	if r.Chance(40) {
		v.set("unsigned", r.GenValue(2, true))
	}
	name, kid, keyIdx := Pick(r, signNames), Pick(r, signKids), r.Intn(4)
	pub, priv := signKey(keyIdx)
	text0 := r.RenderText(v, Style{})
	p0, ok := specPayload(text0)
	if !ok {
		o.Count("verify.payload-unavailable")
		return
	}
	sig := ed25519.Sign(priv, p0)
	facts := []signFact{{sig, pub, p0}}
	setSig(v, name, kid, sig)

	vname, vkid, vpk := name, kid, []byte(pub)
	expect := "ok"
	label := "intact"
	style := Style{}
	amb, ambSigned := -1, true
	switch k := r.Intn(27); k {
	case 0:
	case 1, 2: // re-serialised
		label = "reserialised"
		style = Style{Ws: Pick(r, []int{20, 50}), Escape: Pick(r, []int{10, 40, 100}), Shuffle: true}
	case 3, 4, 5: // a signed member changed / inserted / deleted / nested edit
		label = "tampered"
		sigs, uns := v.get("signatures"), v.get("unsigned")
		v.del("signatures")
		v.del("unsigned")
		r.mutateValue(v, 0)
		v.set("signatures", sigs)
		if uns != nil {
			v.set("unsigned", uns)
		}
		expect = "rej"
	case 6: // other name
		label = "other-name"
		for vname == name {
			vname = Pick(r, signNames)
		}
		if m := v.get("signatures").get(vname); m != nil && m.get(kid) != nil {
			expect = "rej" // a pre-existing random signature: never valid
		}
		expect = "rej"
	case 7: // other key ID
		label = "other-kid"
		for vkid == kid {
			vkid = Pick(r, signKids)
		}
		expect = "rej"
	case 8: // other public key
		label = "other-key"
		p2, _ := signKey((keyIdx + 1 + r.Intn(3)) % 4)
		vpk = p2
		expect = "rej"
	case 9: // public key of the wrong length
		label = "key-length"
		vpk = Pick(r, [][]byte{nil, vpk[:31], append(append([]byte{}, vpk...), 0), vpk[:1]})
		expect = "rej"
	case 10, 11: // further signers
		label = "extra-signers"
		for i := 0; i < 1+r.Intn(2); i++ {
			n2, k2, i2 := Pick(r, signNames), Pick(r, signKids), r.Intn(4)
			if n2 == name && k2 == kid {
				continue
			}
			pub2, priv2 := signKey(i2)
			s2 := ed25519.Sign(priv2, p0)
			facts = append(facts, signFact{s2, pub2, p0})
			setSig(v, n2, k2, s2)
		}
	case 12, 13: // unsigned changed / added / removed
		label = "unsigned-edit"
		if v.get("unsigned") != nil && r.Chance(30) {
			v.del("unsigned")
		} else {
			v.set("unsigned", r.GenValue(2, true))
		}
	case 14: // case-variant members: they are ordinary (signed) members for VerifyJSON
		label = "casevar"
		switch r.Intn(3) {
		case 0:
			v.rename("signatures", Pick(r, sigVariants))
			expect = "rej"
		case 1:
			m, _ := r.genSigMap(true)
			v.set(Pick(r, sigVariants), m)
			expect = "rej"
		case 2:
			v.set(Pick(r, unsVariants), r.GenValue(1, true))
			expect = "rej"
		}
	case 15: // signature of the wrong length
		label = "sig-length"
		setSig(v, name, kid, Pick(r, [][]byte{sig[:63], append(append([]byte{}, sig...), 0), nil, sig[:32]}))
		expect = "rej"
	case 16: // corrupted signature
		label = "sig-corrupt"
		s2 := append([]byte{}, sig...)
		s2[r.Intn(64)] ^= 1 << uint(r.Intn(8))
		setSig(v, name, kid, s2)
		expect = "rej"
	case 17: // a genuine signature by the same key over another object
		label = "sig-transplant"
		w := v.clone()
		w.del("signatures")
		w.del("unsigned")
		r.mutateValue(w, 0)
		if p2, ok := specPayload(r.RenderText(w, Style{})); ok && !bytes.Equal(p2, p0) {
			s2 := ed25519.Sign(priv, p2)
			facts = append(facts, signFact{s2, pub, p2})
			setSig(v, name, kid, s2)
			expect = "rej"
		}
	case 18: // `signatures` no longer a signature map
		label = "sigs-broken"
		switch r.Intn(4) {
		case 0:
			v.set("signatures", Pick(r, []*JV{jvNull(), jvNum("5"), jvStr("x"), {Kind: 'a'}}))
			expect = "rej"
		case 1:
			v.get("signatures").set("zz-other", Pick(r, []*JV{jvNum("5"), jvStr("x"), {Kind: 'a'}}))
			expect = "any"
		case 2:
			v.get("signatures").set("zz-other", jvNull())
			expect = "any"
		case 3:
			in := jvObj()
			in.set("k", Pick(r, []*JV{jvStr("!"), jvNum("1"), jvNull(), jvStr("A")}))
			v.get("signatures").set("zz-other", in)
			expect = "any"
		}
	case 19: // -0 and 0 are the same value; 1 and 1.0 are not
		label = "number-spelling"
		if r.Bool() {
			v.set("n0", jvNum("0"))
			text := r.RenderText(v, Style{})
			// re-sign with n0 present, then respell
			v2 := v.clone()
			v2.del("signatures")
			v2.del("unsigned")
			p1, _ := specPayload(r.RenderText(v2, Style{}))
			_ = text
			s1 := ed25519.Sign(priv, p1)
			facts = append(facts, signFact{s1, pub, p1})
			setSig(v, name, kid, s1)
			v.set("n0", jvNum("-0"))
		} else {
			v.set("n1", jvNum("1"))
			v2 := v.clone()
			v2.del("signatures")
			v2.del("unsigned")
			p1, _ := specPayload(r.RenderText(v2, Style{}))
			s1 := ed25519.Sign(priv, p1)
			facts = append(facts, signFact{s1, pub, p1})
			setSig(v, name, kid, s1)
			v.set("n1", jvNum(Pick(r, []string{"1.0", "1e0", "1.00"})))
			expect = "rej"
		}
	case 20: // the signature entry removed / signatures removed
		label = "sig-removed"
		if r.Bool() {
			v.del("signatures")
		} else {
			v.get("signatures").get(name).del(kid)
		}
		expect = "rej"
	case 21: // non-canonical spelling of the base64 signature
		label = "sig-respelled"
		s := base64.RawStdEncoding.EncodeToString(sig)
		switch r.Intn(3) {
		case 0:
			s = base64.RawURLEncoding.EncodeToString(sig)
		case 1:
			s = s[:40] + "\r\n" + s[40:]
		case 2:
			s = s + "="
			expect = "rej"
		}
		v.get("signatures").get(name).set(kid, jvStr(s))
	case 22, 23, 24: // the signed members rewritten so that readers disagree on them: a lone surrogate escape (CompactJSON
		// drops it, the decoders read U+FFFD), a duplicate member (encoding/json keeps the last, gjson / sjson the first),
		// invalid UTF-8 (encoding/json rewrites member names to U+FFFD)
		amb, expect = k-22, "rej"
		if k == 24 && r.Bool() {
			amb = 1
		}
	case 25, 26: // the same inside `signatures` / `unsigned`, or a second `signatures` / `unsigned` member
		amb, ambSigned, expect = r.Intn(3), false, "any"
		if r.Chance(60) {
			v.set("unsigned", r.GenObject(1, true))
		}
	}
	text := r.RenderText(v, style)
	if amb >= 0 {
		if r.Chance(40) {
			text = r.RenderText(v, Style{Ws: 20, Escape: 10, Shuffle: true})
		}
		t2, what := r.signAmbiguate(text, amb, ambSigned)
		if t2 == nil {
			o.Count("verify.ambiguous-not-applicable")
			return
		}
		text, label = t2, "ambiguous-"+what
	}
	args := []string{label, hx(text), hx([]byte(vname)), hx([]byte(vkid)), hx(vpk), factsArg(facts), expect}
	res := o.Do("verify", args...)
	o.Do("accept", args...)
	o.Count("verify." + label + "." + res)
	if r.Chance(20) {
		o.Do("list", label, hx(text), hx([]byte(vname)))
	}
}

func genSignCase(o *Out, r *Rng, i int) {
	v, label := r.genSignBase()
	name, kid, keyIdx := Pick(r, signNames), Pick(r, signKids), r.Intn(4)
	if m := v.get("signatures"); m != nil && m.Kind == 'o' && len(m.Keys) > 0 && r.Chance(40) {
		name = Pick(r, m.Keys) // sign under a name that already has an entry
	}
	// the two nil-map shapes (exact key): `"signatures": null` and `"signatures": {"<signer>": null}`
	if m := v.get("signatures"); m != nil {
		if m.Kind == 'n' {
			label = "nullsigs-" + label
		} else if in := m.get(name); m.Kind == 'o' && in != nil && in.Kind == 'n' {
			label = "nullinner-" + label
		}
	}
	if i := strings.Index(label, "casevar-"); i > 0 { // class prefix first: casevar, then the nil-map shape
		label = "casevar-" + label[:i] + label[i+len("casevar-"):]
	}
	text := r.RenderText(v, r.RandStyle())
	if r.Chance(12) {
		// a text readers disagree on: signing it would bind nothing definite
		if t2, what := r.signAmbiguate(text, r.Intn(3), r.Chance(75)); t2 != nil {
			text, label = t2, "ambiguous-"+what
		}
	}
	res := o.Do("sign", label, hx(text), hx([]byte(name)), hx([]byte(kid)), strconv.Itoa(keyIdx))
	cls := res
	if j := strings.IndexByte(res, ':'); j >= 0 {
		cls = res[:j]
		if strings.HasPrefix(res, "panic") {
			cls = "panic"
		}
	}
	o.Count("sign." + label + "." + cls)
	if i < 4 {
		o.Sample("sign " + name + " " + kid + " " + string(text))
	}
	if r.Chance(25) {
		o.Do("list", label, hx(text), hx([]byte(name)))
	}
	// sign the result again as somebody else, and list / verify through the ops
	if strings.HasPrefix(res, "ok:") {
		_, priv := signKey(keyIdx)
		out, err := gmsl.SignJSON(name, gmsl.KeyID(kid), priv, text)
		if err != nil {
			return
		}
		if r.Chance(50) {
			n2, k2 := Pick(r, signNames), Pick(r, signKids)
			o.Do("sign", label+"-resigned", hx(out), hx([]byte(n2)), hx([]byte(k2)), strconv.Itoa((keyIdx+1+r.Intn(3))%4)) // another key: ed25519 is deterministic
		}
		if r.Chance(30) {
			o.Do("list", label+"-signed", hx(out), hx([]byte(name)))
		}
	}
}

func genSign(o *Out, tier string, r *Rng) {
	n := 900
	if tier == "thorough" {
		n = 60000
	}
	// hand-picked corner cases first
	pubA, _ := signKey(0)
	for _, c := range [][2]string{
		{"corner", `{"a":1}`}, {"corner", `{}`},
		{"nullsigs-corner", `{"a":1,"signatures":null}`}, {"nullinner-corner", `{"a":1,"signatures":{"srv":null}}`},
		{"corner", `{"a":1,"signatures":{"other":null}}`},
		{"casevar-corner", `{"a":1,"Signatures":{"evil":{"k":"AAAA"}}}`},
		{"casevar-corner", `{"a":1,"signatures":{"x":{"k":"AAAA"}},"Signatures":{"x":{"k2":"AAAA"}}}`},
		{"casevar-corner", `{"Signatures":null,"a":1,"signatures":{"x":{"k":"AAAA"}}}`},
		{"casevar-corner", `{"a":1,"signatures":{"x":{"k":"AAAA"}},"Signatures":null}`},
		{"casevar-corner", `{"a":1,"Signatures":5}`}, {"casevar-corner", `{"a":1,"Unsigned":{"x":1}}`},
		{"corner", `{"a":1,"unsigned":null}`}, {"corner", `{"a":1,"unsigned":""}`},
		{"corner", `{"a":1,"signatures":{"srv":{"ed25519:1":null}}}`}, {"corner", `{"a":1,"signatures":{"srv":{"k":"AB"}}}`},
		{"corner", `{"a":1,"signatures":{"srv":{"k":"-_"}}}`},
		{"corner", `null`}, {"corner", `[1]`}, {"corner", `true`}, {"corner", `"x"`}, {"corner", `5`}, {"corner", ``},
		{"corner", `{"a":"<>&\u2028"}`}, {"corner", `{"a":-0,"b":1.0,"c":1e5}`}, {"corner", `{"a":1,"signatures":{"x":{"k":"AAAA"}}}`},
		{"corner", `{"a":1,"unsigned":{"x":1}}`}, {"corner", `{"a":1,"signatures":{"srv":{"k":"AA\nAA"}}}`},
		{"corner", `{"a":1,"signatures":{}}`}, {"corner", `{"a":1,"signatures":{"srv":{}}}`},
		{"ambiguous-corner", `{"a":"a\ud800b"}`}, {"ambiguous-corner", `{"a":1,"a":2}`}, {"ambiguous-corner", `{"n":{"x":1,"x":2}}`},
		{"ambiguous-corner", `{"a":1,"signatures":{},"signatures":{}}`}, {"ambiguous-corner", `{"a":1,"unsigned":{},"unsigned":{"x":1}}`},
		{"ambiguous-corner", "{\"a\":\"\xff\"}"}, {"ambiguous-corner", "{\"\xff\":1}"}, {"ambiguous-corner", `{"a\udc00":1}`},
		{"ambiguous-corner", `{"a":[{"k":1,"\u006b":2}]}`}, {"ambiguous-corner", `{"a":1,"unsigned":{"x":"\ud800"}}`},
		{"corner", `{"a":"\ud83d\ude00"}`}, {"corner", `{"\ud83d\ude00":"😀"}`},
	} {
		label, t := c[0], c[1]
		o.Do("sign", label, hx([]byte(t)), hx([]byte("srv")), hx([]byte("ed25519:1")), "0")
		o.Do("list", label, hx([]byte(t)), hx([]byte("srv")))
		o.Do("verify", label, hx([]byte(t)), hx([]byte("srv")), hx([]byte("ed25519:1")), hx(pubA), "-", "rej")
		o.Do("accept", label, hx([]byte(t)), hx([]byte("srv")), hx([]byte("ed25519:1")), hx(pubA), "-", "rej")
	}
	// C18 (and C02): documents nested up to and far beyond what encoding/json reads (10000 levels), in every part of a
	// signed object, each run in a child process under a time budget: refused or verified, never a crash or a hang
	deepDepths := []int{100, 5000, 9999, 10000, 20000, 100000}
	if tier == "thorough" {
		deepDepths = append(deepDepths, 9998, 10001, 300000, 1000000, 8000000)
	}
	for _, d := range deepDepths {
		for _, kind := range []string{"arr", "obj", "uns", "sigs", "open"} {
			dk := d
			if kind == "obj" && d < 10000 && d > 2000 && tier != "thorough" {
				dk = d / 5 // (the MODEL is quadratic in the depth of nested objects: 9999 takes it 14 s)
			}
			res := o.Do("deep_verify", kind, strconv.Itoa(dk))
			o.Count("deep_verify." + kind + "." + res)
			if kind == "arr" || kind == "obj" || kind == "uns" {
				res := o.Do("deep_sign", kind, strconv.Itoa(dk))
				o.Count("deep_sign." + kind + "." + res)
			}
		}
	}
	for i := 0; i < n; i++ {
		genSignCase(o, r, i)
		genVerifyCase(o, r)
	}
}
