package main

// Area `cidr` (C16): the dialer control function built by fclient.allowDenyNetworksControl
// (through the `verif` hook fclient.VerifAllowDenyControl), isAllowed, and the std-lib text parsers
// it relies on (net.ParseIP / net.ParseCIDR / net.SplitHostPort), whose results are sent along so
// that the Lean side can check its own text layer against Go's.

import (
	"context"
	"encoding/hex"
	"fmt"
	"math/big"
	"net"
	"strings"

	"github.com/matrix-org/gomatrixserverlib/fclient"
)

func init() { areas["cidr"] = Area{Gen: genCidr, Exec: execCidr} }

// cidrNumOf renders what net.ParseCIDR keeps of a text: <bitLen>/<addr16 hex>/<ones>, or x.
func cidrNumOf(text string) string {
	ip, n, err := net.ParseCIDR(text)
	if err != nil {
		return "x"
	}
	ones, bits := n.Mask.Size()
	return fmt.Sprintf("%d/%s/%d", bits, hex.EncodeToString(ip.To16()), ones)
}

func cidrIPNum(text string) string {
	ip := net.ParseIP(text)
	if ip == nil {
		return "x"
	}
	return hex.EncodeToString(ip.To16())
}

func cidrEncList(l []string) string {
	if len(l) == 0 {
		return "."
	}
	parts := make([]string, len(l))
	for i, t := range l {
		parts[i] = hx([]byte(t)) + "=" + cidrNumOf(t)
	}
	return strings.Join(parts, ",")
}

func cidrDecList(s string) []string {
	if s == "." {
		return nil
	}
	var out []string
	for _, e := range strings.Split(s, ",") {
		out = append(out, string(unhx(strings.SplitN(e, "=", 2)[0])))
	}
	return out
}

func cidrClassifyErr(err error) string {
	if err == nil {
		return "ok"
	}
	m := err.Error()
	switch {
	case strings.HasSuffix(m, " is not a safe network type"):
		return "err:network"
	case strings.Contains(m, " is not a valid host/port pair: "):
		return "err:hostport"
	case strings.HasSuffix(m, " is not a valid IP address"):
		return "err:ip"
	case strings.HasSuffix(m, " is denied"):
		return "err:denied"
	}
	return "err:other"
}

func execCidr(op string, args []string) string {
	switch op {
	case "control":
		network, address := string(unhx(args[0])), string(unhx(args[1]))
		allow, deny := cidrDecList(args[4]), cidrDecList(args[5])
		ctl := fclient.VerifAllowDenyControl(allow, deny)
		return cidrClassifyErr(ctl(context.Background(), network, address, nil))
	case "allowed":
		b, err := hex.DecodeString(args[0])
		if err != nil || len(b) != 16 {
			return "bad-op"
		}
		return fmt.Sprint(fclient.VerifIsAllowed(net.IP(b), cidrDecList(args[1]), cidrDecList(args[2])))
	case "parseip":
		return "ip:" + cidrIPNum(string(unhx(args[0])))
	case "parsecidr":
		return "cidr:" + cidrNumOf(string(unhx(args[0])))
	}
	return "bad-op"
}

var cidrGood = []string{
	"10.0.0.0/8", "192.168.0.0/16", "127.0.0.0/8", "0.0.0.0/0", "1.2.3.4/32", "1.2.3.4/31", "1.2.3.5/24", "100.64.0.0/10",
	"169.254.0.0/16", "255.255.255.255/32", "128.0.0.0/1", "0.0.0.0/1", "1.2.3.4/0", "172.16.0.0/12", "1.2.3.128/25", "1.2.3.4/08",
	"::/0", "::1/128", "fe80::/10", "fc00::/7", "2001:db8::/32", "2001:db8::1/127", "::ffff:0:0/96", "::ffff:10.0.0.0/104",
	"::ffff:1.2.3.4/128", "::ffff:1.2.3.4/64", "::ffff:1.2.3.4/90", "::ffff:1.2.3.4/95", "::ffff:1.2.3.4/96", "::ffff:1.2.3.4/97",
	"::ffff:1.2.3.4/33", "::ffff:1.2.3.4/80", "::ffff:1.2.3.4/81", "::ffff:1.2.3.4/0", "::/96", "::/95", "::/97", "64:ff9b::/96",
	"::fffe:1.2.3.4/96", "0:0:0:0:0:ffff:102:304/120", "8000::/1", "::/1", "ff00::/8", "2001:DB8:0:0:8:800:200C:417A/64", "1::/16",
	"::1.2.3.4/96", "::ffff:255.255.255.255/128", "ffff:ffff:ffff:ffff:ffff:ffff:ffff:ffff/128", "::ffff:0.0.0.0/127",
}

var cidrBad = []string{
	"", "garbage", "10.0.0.0", "10.0.0.0/33", "10.0.0.0/-1", "::/129", "10.0.0.0/8/9", "10.0.0.0/ 8", " 10.0.0.0/8", "10.0.0.0/8 ",
	"010.0.0.0/8", "10.0.0/8", "fe80::1%eth0/64", "1.2.3.4/+8", "1.2.3.4/16777215", "1.2.3.4/99999999999", "/8", "1.2.3.4/", "::1",
	"1.2.3.4.5/8", "1.2.3.256/8", "1..2.3/8", "::g/8", "1:2:3:4:5:6:7:8:9/8", "1:2:3:4:5:6:7/8", "::1::2/8", "12345::/8", "1.2.3.4/8x",
	"1.2.3.4\\8", "::ffff:1.2.3/100", "1.2.3.4/٣", "0x10.0.0.0/8", "1.2.3.4/0x8", "*", "all", "localhost/8", "::1.2.3.4.5/96", ":/0", ":::/0",
	"1:2:3:4:5:6:1.2.3.4.5/96", "1:2:3:4:5:6:7:1.2.3.4/96", "::1.02.3.4/96", "1.2.3.4/32/", "%/8", "1.2.3.4%eth0/8",
}

// c16BigOf / c16IPOf convert between 16-byte addresses and numbers.
func c16BigOf(ip net.IP) *big.Int { return new(big.Int).SetBytes(ip.To16()) }
func c16IPOf(n *big.Int) net.IP {
	b := n.Bytes()
	if len(b) > 16 {
		b = b[len(b)-16:]
	}
	out := make([]byte, 16)
	copy(out[16-len(b):], b)
	return net.IP(out)
}

// c16RenderIP writes an address in one of its textual forms.
func (r *Rng) c16RenderIP(ip net.IP) string {
	if v4 := ip.To4(); v4 != nil {
		switch r.Intn(4) {
		case 0:
			return "::ffff:" + v4.String()
		case 1:
			return fmt.Sprintf("::ffff:%02x%02x:%02x%02x", v4[0], v4[1], v4[2], v4[3])
		}
		return v4.String()
	}
	s := ip.String()
	if r.Chance(15) {
		s = strings.ToUpper(s)
	}
	return s
}

// c16Candidates returns addresses inside, outside and on the edges of the range of a parsable CIDR text.
func (r *Rng) c16Candidates(text string) []net.IP {
	_, n, err := net.ParseCIDR(text)
	if err != nil {
		return nil
	}
	ones, bits := n.Mask.Size()
	var base *big.Int
	if len(n.IP) == 4 {
		base = c16BigOf(n.IP) // mapped form
	} else {
		base = c16BigOf(n.IP)
	}
	size := new(big.Int).Lsh(big.NewInt(1), uint(bits-ones))
	last := new(big.Int).Add(base, new(big.Int).Sub(size, big.NewInt(1)))
	out := []net.IP{c16IPOf(base), c16IPOf(last)}
	max := new(big.Int).Sub(new(big.Int).Lsh(big.NewInt(1), 128), big.NewInt(1))
	if base.Sign() > 0 {
		out = append(out, c16IPOf(new(big.Int).Sub(base, big.NewInt(1))))
	}
	if last.Cmp(max) < 0 {
		out = append(out, c16IPOf(new(big.Int).Add(last, big.NewInt(1))))
	}
	// a random member
	off := new(big.Int).SetUint64(r.Next())
	off.Mod(off, size)
	out = append(out, c16IPOf(new(big.Int).Add(base, off)))
	// the same low 32 bits in the other family (IPv4 <-> non-mapped IPv6)
	low := new(big.Int).And(base, big.NewInt(0xFFFFFFFF))
	out = append(out, c16IPOf(low))
	out = append(out, c16IPOf(new(big.Int).Add(new(big.Int).Lsh(big.NewInt(0xFFFF), 32), low)))
	return out
}

func (r *Rng) c16RandIP() net.IP {
	b := make([]byte, 16)
	switch r.Intn(4) {
	case 0: // IPv4
		copy(b, []byte{0, 0, 0, 0, 0, 0, 0, 0, 0, 0, 0xff, 0xff})
		for i := 12; i < 16; i++ {
			b[i] = byte(r.Next())
		}
	case 1: // sparse IPv6
		b[0], b[1] = byte(r.Next()), byte(r.Next())
		b[15] = byte(r.Next())
	case 2: // near the mapped prefix
		copy(b, []byte{0, 0, 0, 0, 0, 0, 0, 0, 0, 0, 0xff, byte(0xfe + r.Intn(2))})
		for i := 12; i < 16; i++ {
			b[i] = byte(r.Next())
		}
	default:
		for i := range b {
			b[i] = byte(r.Next())
		}
	}
	return net.IP(b)
}

func (r *Rng) c16RandCIDR() string {
	ip := r.c16RandIP()
	if v4 := ip.To4(); v4 != nil && r.Chance(70) {
		return fmt.Sprintf("%s/%d", v4.String(), r.Intn(33))
	}
	if ip.To4() != nil {
		return fmt.Sprintf("::ffff:%s/%d", ip.To4().String(), Pick(r, []int{0, 1, 64, 79, 80, 81, 95, 96, 97, 104, 120, 127, 128, r.Intn(129)}))
	}
	return fmt.Sprintf("%s/%d", ip.String(), r.Intn(129))
}

func (r *Rng) c16GenCIDRList(maxLen int) []string {
	n := r.Intn(maxLen + 1)
	out := make([]string, 0, n)
	for i := 0; i < n; i++ {
		switch {
		case r.Chance(22):
			out = append(out, Pick(r, cidrBad))
		case r.Chance(25):
			out = append(out, r.c16RandCIDR())
		default:
			out = append(out, Pick(r, cidrGood))
		}
	}
	return out
}

var cidrNetworks = []string{"tcp4", "tcp6", "tcp4", "tcp6", "tcp4", "tcp6", "tcp4", "tcp6", "tcp4", "tcp6", "tcp4", "tcp6", "tcp4", "tcp6", "tcp", "udp", "udp4", "udp6", "unix", "ip4", "", "TCP4", "tcp4 ", "tcp46"}

var cidrBadAddresses = []string{
	"1.2.3.4", "[::1]", "::1:80", "example.com:80", "1.2.3.4:", "[fe80::1%eth0]:80", ":80", "", "[1.2.3.4]:80", "1.2.3.4:80:90",
	"[::1]:80:90", "[::1]80", "[::1", "::1]:80", "localhost:8448", "01.2.3.4:80", "1.2.3:80", "1.2.3.4.:80", "[::ffff:1.2.3.4]:80",
	"[0:0:0:0:0:ffff:0102:0304]:80", "[::ffff:1.2.3.4%lo]:1", "1.2.3.4 :80", " 1.2.3.4:80", "[ ::1]:80", "256.1.1.1:80", "[::1:]:80",
	"[1::2::3]:80", "[12345::]:1", "[::1.2.3.4]:80", "[1:2:3:4:5:6:7:8]:80", "[1:2:3:4:5:6:7::]:80", "[::2:3:4:5:6:7:8]:80", "[1:2:3:4:5:6:7:8:9]:80",
	"[1:2:3:4:5:6:1.2.3.4]:80", "[1:2:3:4:5:1.2.3.4]:80", "[::1.2.3.04]:80", "[::FFFF:1.2.3.4]:80", "[fe80::1%]:80", "0.0.0.0:0", "[::]:0",
	"1.2.3.4:http", "１.2.3.4:80",
}

func (o *Out) c16DoControl(network, address string, allow, deny []string) string {
	split := "E"
	goip := "x"
	if h, _, err := net.SplitHostPort(address); err == nil {
		split = "H" + hx([]byte(h))
		goip = cidrIPNum(h)
	}
	res := o.Do("control", hx([]byte(network)), hx([]byte(address)), split, goip, cidrEncList(allow), cidrEncList(deny))
	o.Count("control." + res)
	return res
}

func c16HostPort(r *Rng, ip string) string {
	port := Pick(r, []string{"80", "443", "8448", "0", "65535"})
	if strings.Contains(ip, ":") {
		return "[" + ip + "]:" + port
	}
	return ip + ":" + port
}

func genCidr(o *Out, tier string, r *Rng) {
	n := 1500
	if tier == "thorough" {
		n = 20000
	}
	// 1. text layer: every pool entry, plus mutations
	for _, t := range append(append([]string{}, cidrGood...), cidrBad...) {
		o.Do("parsecidr", hx([]byte(t)))
		if i := strings.IndexByte(t, '/'); i >= 0 {
			o.Do("parseip", hx([]byte(t[:i])))
		}
	}
	for _, a := range cidrBadAddresses {
		if h, _, err := net.SplitHostPort(a); err == nil {
			o.Do("parseip", hx([]byte(h)))
		}
		o.Do("parseip", hx([]byte(a)))
	}
	for i := 0; i < n; i++ {
		t := r.c16RandCIDR()
		if r.Chance(40) {
			t = c16MutateText(r, t)
		}
		o.Do("parsecidr", hx([]byte(t)))
		ip := r.c16RenderIP(r.c16RandIP())
		if r.Chance(40) {
			ip = c16MutateText(r, ip)
		}
		o.Do("parseip", hx([]byte(ip)))
	}
	// 2. systematic: an unparsable entry at every position of the deny and of the allow list
	baseDeny := []string{"10.0.0.0/8", "fc00::/7", "192.168.0.0/16"}
	baseAllow := []string{"0.0.0.0/0", "::/0"}
	probe := []string{"10.1.2.3", "192.168.1.1", "fd00::1", "8.8.8.8", "2001:db8::1", "::ffff:10.0.0.1", "::ffff:8.8.8.8", "9.255.255.255", "11.0.0.0"}
	for pos := 0; pos <= len(baseDeny); pos++ {
		for _, bad := range []string{"garbage", "", "10.0.0.0/33"} {
			deny := append(append(append([]string{}, baseDeny[:pos]...), bad), baseDeny[pos:]...)
			for _, p := range probe {
				o.c16DoControl(Pick(r, []string{"tcp4", "tcp6"}), c16HostPort(r, p), baseAllow, deny)
			}
		}
	}
	for pos := 0; pos <= len(baseAllow); pos++ {
		allow := append(append(append([]string{}, baseAllow[:pos]...), "not-a-cidr"), baseAllow[pos:]...)
		for _, p := range probe {
			o.c16DoControl(Pick(r, []string{"tcp4", "tcp6"}), c16HostPort(r, p), allow, baseDeny)
		}
	}
	// 2b. bounded-exhaustive (thorough): every prefix length of a few bases x edge addresses, as allow entry and as deny entry
	if tier == "thorough" {
		bases := []string{"1.2.3.4", "255.255.255.255", "0.0.0.0", "128.0.0.1", "::ffff:1.2.3.4", "::ffff:255.255.255.255", "2001:db8::1", "::", "ffff:ffff:ffff:ffff:ffff:ffff:ffff:ffff", "::fffe:1.2.3.4", "0:0:0:0:0:ffff::", "::1:0:0:0"}
		for _, b := range bases {
			max := 128
			if !strings.Contains(b, ":") {
				max = 32
			}
			for n := 0; n <= max; n++ {
				c := fmt.Sprintf("%s/%d", b, n)
				for _, ip := range r.c16Candidates(c) {
					txt := r.c16RenderIP(ip)
					o.c16DoControl("tcp4", c16HostPort(r, txt), []string{c}, nil)
					o.c16DoControl("tcp6", c16HostPort(r, txt), []string{"0.0.0.0/0", "::/0"}, []string{c})
				}
				o.Count("exhaustive.prefix")
			}
		}
	}
	// 3. random configurations x addresses inside / outside / on the edges
	for i := 0; i < n; i++ {
		allow, deny := r.c16GenCIDRList(4), r.c16GenCIDRList(4)
		if r.Chance(50) && len(allow) == 0 {
			allow = []string{Pick(r, []string{"0.0.0.0/0", "::/0"})}
		}
		var cands []net.IP
		for _, c := range append(append([]string{}, allow...), deny...) {
			cands = append(cands, r.c16Candidates(c)...)
		}
		cands = append(cands, r.c16RandIP(), r.c16RandIP())
		k := 4
		if tier == "thorough" {
			k = 8
		}
		for j := 0; j < k && len(cands) > 0; j++ {
			ip := cands[r.Intn(len(cands))]
			network := Pick(r, []string{"tcp4", "tcp6"})
			if r.Chance(12) {
				network = Pick(r, cidrNetworks)
			}
			res := o.c16DoControl(network, c16HostPort(r, r.c16RenderIP(ip)), allow, deny)
			if i < 3 && j == 0 {
				o.Sample(fmt.Sprintf("control %s %s allow=%q deny=%q -> %s", network, ip, allow, deny, res))
			}
			if r.Chance(30) {
				o.Do("allowed", hex.EncodeToString(ip.To16()), cidrEncList(allow), cidrEncList(deny))
			}
		}
		if r.Chance(35) {
			o.c16DoControl(Pick(r, cidrNetworks), Pick(r, cidrBadAddresses), allow, deny)
			o.Count("malformed-address")
		}
	}
}

// c16MutateText applies one small edit to a text (for the malformed streams of the text parsers).
func c16MutateText(r *Rng, s string) string {
	b := []byte(s)
	alphabet := []byte("0123456789abcdefABCDEFg.:/%[] -+x")
	switch r.Intn(5) {
	case 0: // delete
		if len(b) > 0 {
			i := r.Intn(len(b))
			b = append(b[:i:i], b[i+1:]...)
		}
	case 1: // insert
		i := r.Intn(len(b) + 1)
		b = append(b[:i:i], append([]byte{alphabet[r.Intn(len(alphabet))]}, b[i:]...)...)
	case 2: // replace
		if len(b) > 0 {
			b[r.Intn(len(b))] = alphabet[r.Intn(len(alphabet))]
		}
	case 3: // duplicate a character
		if len(b) > 0 {
			i := r.Intn(len(b))
			b = append(b[:i:i], append([]byte{b[i]}, b[i:]...)...)
		}
	default: // truncate
		if len(b) > 0 {
			b = b[:r.Intn(len(b))]
		}
	}
	return string(b)
}
