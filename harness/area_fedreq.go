package main

// Area `fedreq` (C13): NewFederationRequest -> SetContent -> Sign (real ed25519) -> HTTPRequest ->
// (tamper with one part of the transmitted request) -> VerifyHTTPRequest, in-process, against a real
// gomatrixserverlib.KeyRing backed by a key-table database (no fetchers).  Std-lib results the model
// takes as inputs (net/url RequestURI, mime.ParseMediaType) are computed here and sent along.
//
// verify arguments:
//   0 method 1 origin 2 destination 3 uri (hex)      as passed to NewFederationRequest
//   4 content  N | J<hex raw JSON>                   SetContent(spec.RawJSON(raw))
//   5 server name 6 key ID (hex) 7 key index          Sign(serverName, keyID, keys[index])
//   8 E | U<hex>                                      RequestURI() of url.Parse("matrix://"+dest+uri)
//   9 = | M<hex>                                      transmitted method
//  10 = | T<hex text>  11 = | U<hex RequestURI()>     transmitted URL (text for ParseRequestURI / its RequestURI())
//  12 = | A | V<hex>   13 = | E | T<hex media type>   transmitted Content-Type (absent / value) and mime.ParseMediaType of it
//  14 = | B<hex>                                      transmitted body
//  15 = | . | <hex>,<hex>...                          Authorization header values; $SIG = the real signature, $BADSIG = a wrong one
//  16 now (ms)  17 receiver's default server name (hex)  18 nil | . | <hex>,...  local server names
//  19 [!]<hexserver>|<hexkeyid>|<key index>|<valid_until_ts>|<expired_ts>,...    key database (! = database error)

import (
	"bytes"
	"context"
	"errors"
	"fmt"
	"io"
	"mime"
	"net/http"
	"net/url"
	"regexp"
	"strconv"
	"strings"
	"time"

	gmsl "github.com/matrix-org/gomatrixserverlib"
	"github.com/matrix-org/gomatrixserverlib/fclient"
	"github.com/matrix-org/gomatrixserverlib/spec"
	"github.com/sirupsen/logrus"
	"golang.org/x/crypto/ed25519"
)

func init() {
	areas["fedreq"] = Area{Gen: genFedreq, Exec: execFedreq}
	logrus.SetOutput(io.Discard)
}

var fedKeys = func() []ed25519.PrivateKey {
	var ks []ed25519.PrivateKey
	for i := 0; i < 4; i++ {
		ks = append(ks, ed25519.NewKeyFromSeed(bytes.Repeat([]byte{byte(i + 1)}, 32)))
	}
	return ks
}()

type fedTableDB struct {
	entries map[gmsl.PublicKeyLookupRequest]gmsl.PublicKeyLookupResult
	fail    bool
}

func (d *fedTableDB) FetcherName() string { return "fedTableDB" }
func (d *fedTableDB) FetchKeys(ctx context.Context, reqs map[gmsl.PublicKeyLookupRequest]spec.Timestamp) (map[gmsl.PublicKeyLookupRequest]gmsl.PublicKeyLookupResult, error) {
	if d.fail {
		return nil, errors.New("stub: database unavailable")
	}
	out := map[gmsl.PublicKeyLookupRequest]gmsl.PublicKeyLookupResult{}
	for r := range reqs {
		if e, ok := d.entries[r]; ok {
			out[r] = e
		}
	}
	return out, nil
}
func (d *fedTableDB) StoreKeys(ctx context.Context, results map[gmsl.PublicKeyLookupRequest]gmsl.PublicKeyLookupResult) error {
	return nil
}

func fedParseKeyTable(s string) *fedTableDB {
	db := &fedTableDB{entries: map[gmsl.PublicKeyLookupRequest]gmsl.PublicKeyLookupResult{}}
	if strings.HasPrefix(s, "!") {
		db.fail = true
		s = s[1:]
	}
	if s == "." {
		return db
	}
	for _, e := range strings.Split(s, ",") {
		p := strings.Split(e, "|")
		idx, _ := strconv.Atoi(p[2])
		vu, _ := strconv.ParseUint(p[3], 10, 64)
		ex, _ := strconv.ParseUint(p[4], 10, 64)
		db.entries[gmsl.PublicKeyLookupRequest{ServerName: spec.ServerName(unhx(p[0])), KeyID: gmsl.KeyID(unhx(p[1]))}] = gmsl.PublicKeyLookupResult{
			VerifyKey:    gmsl.VerifyKey{Key: spec.Base64Bytes(fedKeys[idx].Public().(ed25519.PublicKey))},
			ValidUntilTS: spec.Timestamp(vu), ExpiredTS: spec.Timestamp(ex),
		}
	}
	return db
}

var fedSigRx = regexp.MustCompile(`,sig="([A-Za-z0-9+/]+)",destination="`)

func fedContentOut(c []byte) string {
	if len(c) == 0 {
		return "N"
	}
	if cj, err := gmsl.CanonicalJSON(c); err == nil {
		return "C" + hx(cj)
	}
	return "R" + hx(c)
}

func execFedreq(op string, args []string) string {
	switch op {
	case "parseauth":
		sc, o, d, k, s := fclient.ParseAuthorization(string(unhx(args[0])))
		return "auth:" + hx([]byte(sc)) + "," + hx([]byte(o)) + "," + hx([]byte(d)) + "," + hx([]byte(k)) + "," + hx([]byte(s))
	case "verify":
	default:
		return "bad-op"
	}
	req := fclient.NewFederationRequest(string(unhx(args[0])), spec.ServerName(unhx(args[1])), spec.ServerName(unhx(args[2])), string(unhx(args[3])))
	if args[4] != "N" {
		if err := req.SetContent(spec.RawJSON(unhx(args[4][1:]))); err != nil {
			return "err:setcontent"
		}
	}
	kidx, _ := strconv.Atoi(args[7])
	if err := req.Sign(spec.ServerName(unhx(args[5])), gmsl.KeyID(unhx(args[6])), fedKeys[kidx]); err != nil {
		return "err:sign"
	}
	hr, err := req.HTTPRequest()
	if err != nil {
		return "err:build"
	}
	sig := ""
	for _, h := range hr.Header["Authorization"] {
		if ms := fedSigRx.FindAllStringSubmatch(h, -1); len(ms) > 0 {
			sig = ms[len(ms)-1][1]
		}
	}
	bad := []byte(sig)
	if len(bad) > 0 {
		if bad[0] == 'A' {
			bad[0] = 'B'
		} else {
			bad[0] = 'A'
		}
	}
	// ---- tamper with the transmitted request ----
	if args[9] != "=" {
		hr.Method = string(unhx(args[9][1:]))
	}
	if args[10] != "=" {
		u, err := url.ParseRequestURI(string(unhx(args[10][1:])))
		if err != nil {
			return "bad-op"
		}
		hr.URL = u
	}
	switch {
	case args[12] == "A":
		hr.Header.Del("Content-Type")
	case strings.HasPrefix(args[12], "V"):
		hr.Header["Content-Type"] = []string{string(unhx(args[12][1:]))}
	}
	if args[14] != "=" {
		hr.Body = io.NopCloser(bytes.NewReader(unhx(args[14][1:])))
	} else if hr.Body == nil {
		hr.Body = http.NoBody
	}
	if args[15] != "=" {
		delete(hr.Header, "Authorization")
		if args[15] != "." {
			for _, h := range strings.Split(args[15], ",") {
				v := strings.ReplaceAll(strings.ReplaceAll(string(unhx(h)), "$BADSIG", string(bad)), "$SIG", sig)
				hr.Header["Authorization"] = append(hr.Header["Authorization"], v)
			}
		}
	}
	// ---- receive ----
	now, _ := strconv.ParseInt(args[16], 10, 64)
	var isLocal func(spec.ServerName) bool
	if args[18] != "nil" {
		names := map[spec.ServerName]bool{}
		if args[18] != "." {
			for _, n := range strings.Split(args[18], ",") {
				names[spec.ServerName(unhx(n))] = true
			}
		}
		isLocal = func(n spec.ServerName) bool { return names[n] }
	}
	ring := gmsl.KeyRing{KeyDatabase: fedParseKeyTable(args[19])}
	fr, resp := fclient.VerifyHTTPRequest(hr, time.UnixMilli(now), spec.ServerName(unhx(args[17])), isLocal, ring)
	if fr == nil {
		return "err:" + strconv.Itoa(resp.Code)
	}
	// "reports exactly the ... body that was signed" - and keeps reporting it: the receiver goes on to its next requests while
	// the handler of this one still holds the report.  Two further requests with bodies of the same length (one refused for
	// lack of a header, one with a header that does not verify) are received before the report is read (seed C13-r6m1).
	for _, auth := range []string{"", `X-Matrix origin="decoy.example",key="ed25519:1",sig="AAAA"`} {
		n := len(fr.Content())
		if n < 12 {
			n = 12
		}
		decoyBody := []byte(`{"decoy":"` + strings.Repeat("x", n-12) + `"}`)
		decoy, derr := http.NewRequest("PUT", "/_matrix/federation/v1/send/decoy", bytes.NewReader(decoyBody))
		if derr == nil {
			decoy.Header.Set("Content-Type", "application/json")
			if auth != "" {
				decoy.Header.Set("Authorization", auth)
			}
			_, _ = fclient.VerifyHTTPRequest(decoy, time.UnixMilli(now), spec.ServerName(unhx(args[17])), isLocal, ring)
		}
	}
	return "ok:" + hx([]byte(fr.Method())) + "," + hx([]byte(fr.RequestURI())) + "," + hx([]byte(fr.Origin())) + "," +
		hx([]byte(fr.Destination())) + "," + fedContentOut(fr.Content())
}

// ---- generator ----

var fedMethods = []string{"GET", "PUT", "POST", "DELETE", "GET", "PUT", "get", "Put", "PATCH", "M-SEARCH", "OPTIONS", "HEAD"}
var fedBadMethods = []string{"", "G ET", "GE\nT", "GET/", "G@T", "(GET)"}
var fedNames = []string{"localhost:8800", "localhost:44033", "matrix.org", "example.com:8448", "[::1]:8448", "[2001:db8::1]", "1.2.3.4",
	"1.2.3.4:8448", "a.example", "hs1", "UPPER.example", "b.example", "xn--p1ai.test:443"}
var fedBadNames = []string{"", "bad name", "a,b", "a\"b", "a/b", "a?b", "é.example", "a\\b", "[::1", "a@b", "a\tb", "a=b", " a.example", "a.example ", "a#b", "::1", "a:b:c", "a.example:99999"}
var fedURIs = []string{
	"/_matrix/federation/v1/send/1493385816575/", "/_matrix/federation/v1/query/directory?room_alias=%23test%3Alocalhost%3A44033",
	"/", "/a%2Fb", "/a%2fb", "/a?b=c&d=e", "/a?", "/a?b=%zz", "//double", "/a/../b", "/a;b", "/_matrix/key/v2/server/ed25519:abc", "/a:b", "/a@b",
	"/a'b", "/*", "/~", "/%C3%A9", "/a?b=c+d", "/a?user=\xef\xbf\xbd", "/_matrix/x?q=\xef\xbf\xbd&r=\xef\xbf\xbd", "/a?\xc3\xa9=1", "/a?b=c%20d", "/a/", "/a", "/_matrix/federation/v2/invite/!room:a.example/$event", "/a?x=1&x=2", "/a=b", "/a,b",
}
var fedOddURIs = []string{"/_matrix/x?q=\xff", "/a?user=\xc0", "/a?b=\xed\xa0\x80", "/a?\xfe", "/a b", "/%zz", "/a#frag", "/é", "", "no-slash", "?q", "/a\"b", "/a\\b", "/a|b", "/a^b", "/a?b=c d", "/a?b=c#d", "/a\x7f", "/a\n", "/a{b}", "/a<b>", "/a`b", "/%", "/a%2", ":8448/a", "@x/a"}
var fedContents = []string{
	`{}`, `{"a":1}`, `{"b":2,"a":1}`, `{"a": [1, 2, {"c": null}]}`, `[1,2]`, `"str"`, `5`, `null`, `true`, `{"k":"<&>"}`, `{"k":"é"}`, `{"k":"é"}`,
	`{"edus":[{"content":{"device_id":"YHRUBZNPFS"},"edu_type":"m.device_list_update"}],"origin":"localhost:8800","origin_server_ts":1493385822396,"pdus":[]}`,
	` { "a" : 1 } `, `{"signatures":{"x":{"ed25519:1":"AAAA"}},"unsigned":{"a":1},"content":{}}`, `{"a":" "}`, `{"a":-0}`, `{"a":1.5}`, `{"a":1e3}`, `[]`, `""`, `0`,
	`{"method":"GET","uri":"/","origin":"x","destination":"y"}`, `{"a":"ab","n":{"x":1}}`, `{"k":"\ufffd","\ufffd":[{"x":"y"}]}`, `{"a":"\ud83d\ude00"}`, `{"a":"😀"}`, `{"a":"😀"}`, `{"z":{"y":{"x":[[],{}]}}}`,
}
// texts SignJSON / VerifyJSON refuse (readers disagree on them): duplicate member names, lone surrogate escapes, invalid UTF-8
var fedAmbiguousContents = []string{`{"a":1,"a":2}`, `{"a":"\ud800"}`, `{"n":{"x":1,"x":2}}`, "{\"a\":\"\xff\"}", `{"a\udc00":1}`, `[{"k":1,"\u006b":2}]`, `"\ud83d"`, "{\"\xff\":1}"}
var fedBadContents = []string{`{`, ``, `not json`, `{"a":1}}`, `{'a':1}`, `{"a":01}`, ` `, `{"a":1}{"a":1}`}
var fedKeyIDs = []string{"ed25519:a_Obwu", "ed25519:1", "ed25519:auto", "ed25519:AbC_09", "ed25519:a_Obwu", "ed25519:1"}
var fedOddKeyIDs = []string{"ed25519:", "ed25519:a,b", "ed25519:a\"b", "ed25519:a b", "curve25519:x", "ed25519:é", "", "ED25519:1", "ed25519:a=b", "ed25519: a", "ed25519:a\\b", "ed25519:a\x7f"}

// timestamps (ms): "past" values are before the wall clock, "far" values are beyond wall clock + 7 days
const (
	tsPast    = 1493142432096
	tsValid   = 1600000000000 // a valid_until_ts in the past of the wall clock but after tsPast
	tsFarNow  = 4000000000000
	tsFarUnti = 4102444800000
)

type fedScenario struct {
	method, origin, dest, uri string
	content                   *string
	signName, keyID           string
	keyIdx                    int
	txMethod, txURI           *string
	txCT                      *string // nil = as produced; "\x00absent" = absent
	txBody                    *string
	txAuth                    []string // nil = as produced
	txAuthSet                 bool
	now                       int64
	recvDest                  string
	local                     []string
	localNil                  bool
	table                     string
}

func fedStr(s string) *string { return &s }

func fedEncOpt(tag string, v *string) string {
	if v == nil {
		return "="
	}
	return tag + hx([]byte(*v))
}

func (o *Out) fedDo(s *fedScenario) string {
	content := "N"
	if s.content != nil {
		content = "J" + hx([]byte(*s.content))
	}
	up := "E"
	if u, err := url.Parse("matrix://" + s.dest + s.uri); err == nil {
		up = "U" + hx([]byte(u.RequestURI()))
	}
	txT, txU := "=", "="
	if s.txURI != nil {
		u, err := url.ParseRequestURI(*s.txURI)
		if err != nil {
			return "" // this text cannot be put into a *http.Request
		}
		txT, txU = "T"+hx([]byte(*s.txURI)), "U"+hx([]byte(u.RequestURI()))
	}
	ct, mt := "=", "="
	if s.txCT != nil {
		v := *s.txCT
		if v == "\x00absent" {
			ct, v = "A", ""
		} else {
			ct = "V" + hx([]byte(v))
		}
		if m, _, err := mime.ParseMediaType(v); err != nil {
			mt = "E"
		} else {
			mt = "T" + hx([]byte(m))
		}
	}
	auth := "="
	if s.txAuthSet {
		auth = "."
		if len(s.txAuth) > 0 {
			parts := make([]string, len(s.txAuth))
			for i, h := range s.txAuth {
				parts[i] = hx([]byte(h))
			}
			auth = strings.Join(parts, ",")
		}
	}
	local := "nil"
	if !s.localNil {
		local = "."
		if len(s.local) > 0 {
			parts := make([]string, len(s.local))
			for i, n := range s.local {
				parts[i] = hx([]byte(n))
			}
			local = strings.Join(parts, ",")
		}
	}
	res := o.Do("verify", hx([]byte(s.method)), hx([]byte(s.origin)), hx([]byte(s.dest)), hx([]byte(s.uri)), content,
		hx([]byte(s.signName)), hx([]byte(s.keyID)), strconv.Itoa(s.keyIdx), up,
		fedEncOpt("M", s.txMethod), txT, txU, ct, mt, fedEncOpt("B", s.txBody), auth,
		strconv.FormatInt(s.now, 10), hx([]byte(s.recvDest)), local, s.table)
	if strings.HasPrefix(res, "ok:") {
		o.Count("verify.ok")
	} else {
		o.Count("verify." + res)
	}
	return res
}

// fedTblAdd appends an entry to an encoded key table ("." = empty, leading "!" = failing database).
func fedTblAdd(t, entry string) string {
	prefix := ""
	if strings.HasPrefix(t, "!") {
		prefix, t = "!", t[1:]
	}
	if t == "." {
		return prefix + entry
	}
	return prefix + t + "," + entry
}

func fedKeyEntry(server, keyID string, idx int, validUntil, expired int64) string {
	return fmt.Sprintf("%s|%s|%d|%d|%d", hx([]byte(server)), hx([]byte(keyID)), idx, validUntil, expired)
}

// fedBaseScenario: a request that verifies when transmitted unchanged.
func (r *Rng) fedBaseScenario() *fedScenario {
	s := &fedScenario{method: Pick(r, fedMethods), origin: Pick(r, fedNames), dest: Pick(r, fedNames), uri: Pick(r, fedURIs),
		keyID: Pick(r, fedKeyIDs), keyIdx: r.Intn(4), now: tsPast, localNil: true}
	if r.Chance(55) {
		s.content = fedStr(Pick(r, fedContents))
	}
	s.signName = s.origin
	if r.Chance(15) {
		s.origin = "" // NewFederationRequest without origin: Sign sets it
	}
	s.recvDest = s.dest
	if r.Chance(35) {
		s.localNil = false
		s.local = []string{s.dest, "other.local.example"}
		if r.Bool() {
			s.local = []string{"other.local.example", s.dest, "third.example:8448"}
		}
		s.recvDest = Pick(r, []string{s.dest, "other.local.example"})
	}
	if r.Chance(8) {
		// the receiver's own name differs from the signed destination only in letter case: server names are compared
		// byte for byte, this request is addressed to somebody else
		switch r.Intn(3) {
		case 0:
			s.recvDest = strings.ToUpper(s.dest)
		case 1:
			s.recvDest = strings.ToLower(s.dest)
		case 2:
			s.recvDest = strings.Title(s.dest) //nolint:staticcheck
		}
		if !s.localNil && r.Bool() {
			s.local = []string{s.recvDest, "other.local.example"}
		}
	}
	s.table = fedKeyEntry(s.signName, s.keyID, s.keyIdx, tsFarUnti, 0)
	if r.Chance(30) {
		s.table += "," + fedKeyEntry(Pick(r, fedNames), "ed25519:zz", (s.keyIdx+1)%4, tsFarUnti, 0)
	}
	return s
}

// fedHeaderVariants renders X-Matrix headers for (o, k, d) in many spellings. $SIG stands for the signature.
func fedHeaderVariants(o, k, d string) []string {
	q := func(v string) string { return `"` + v + `"` }
	return []string{
		"X-Matrix origin=" + q(o) + ",key=" + q(k) + ",sig=" + q("$SIG") + ",destination=" + q(d),
		"X-Matrix destination=" + q(d) + ",sig=" + q("$SIG") + ",key=" + q(k) + ",origin=" + q(o),
		"X-Matrix origin=" + o + ",key=" + k + ",sig=$SIG,destination=" + d,
		"X-Matrix origin=" + q(o) + ", key=" + q(k) + ", sig=" + q("$SIG") + ", destination=" + q(d),
		"X-Matrix  origin = " + q(o) + " , key = " + q(k) + " , sig = " + q("$SIG") + " , destination = " + q(d) + " ",
		"X-Matrix origin=" + q(o) + ",key=" + q(k) + ",sig=" + q("$SIG"),
		"X-Matrix origin=" + q(o) + ",key=" + q(k) + ",sig=" + q("$SIG") + ",destination=\"\"",
		"X-Matrix origin=" + q(o) + ",key=" + q(k) + ",sig=" + q("$SIG") + ",destination=" + q(d) + ",",
		"X-Matrix origin=" + q(o) + ",key=" + q(k) + ",sig=" + q("$SIG") + ",destination=" + q(d) + ",junk",
		"X-Matrix origin=" + q(o) + ",key=" + q(k) + ",sig=" + q("$SIG") + ",destination=" + q(d) + ",extra=\"1\"",
		"X-Matrix origin=\"" + o + ",key=" + q(k) + ",sig=" + q("$SIG") + ",destination=" + q(d),
		"X-Matrix origin=\"\"" + o + "\"\",key=" + q(k) + ",sig=" + q("$SIG") + ",destination=" + q(d),
		"X-Matrix origin='" + o + "',key=" + q(k) + ",sig=" + q("$SIG") + ",destination=" + q(d),
		"X-Matrix origin=\"evil.example\",origin=" + q(o) + ",key=" + q(k) + ",sig=" + q("$SIG") + ",destination=" + q(d),
		"X-Matrix origin=" + q(o) + ",origin=\"evil.example\",key=" + q(k) + ",sig=" + q("$SIG") + ",destination=" + q(d),
		"X-Matrix\torigin=" + q(o) + ",key=" + q(k) + ",sig=" + q("$SIG") + ",destination=" + q(d),
		"X-Matrix origin=" + q(o) + ",\tkey=" + q(k) + ",\r\n sig=" + q("$SIG") + ",destination=" + q(d),
		"X-Matrix origin=" + q(o) + ",key=" + q(k) + ",sig=" + q("$SIG") + ",destination=" + q(d) + ",origin",
		"X-Matrix ORIGIN=" + q(o) + ",key=" + q(k) + ",sig=" + q("$SIG") + ",destination=" + q(d),
		"x-matrix origin=" + q(o) + ",key=" + q(k) + ",sig=" + q("$SIG") + ",destination=" + q(d),
		"X-MATRIX origin=" + q(o) + ",key=" + q(k) + ",sig=" + q("$SIG") + ",destination=" + q(d),
		"X-Matrix", "X-Matrix ", "X-Matrix ,,,", " X-Matrix origin=" + q(o) + ",key=" + q(k) + ",sig=" + q("$SIG") + ",destination=" + q(d),
		"X-Matrix key=" + q(k) + ",sig=" + q("$SIG") + ",destination=" + q(d),
		"X-Matrix origin=" + q(o) + ",sig=" + q("$SIG") + ",destination=" + q(d),
		"X-Matrix origin=" + q(o) + ",key=" + q(k) + ",destination=" + q(d),
		"X-Matrix origin=\"\",key=" + q(k) + ",sig=" + q("$SIG") + ",destination=" + q(d),
		"X-Matrix origin=" + q(o) + ",key=\"\",sig=" + q("$SIG") + ",destination=" + q(d),
		"X-Matrix origin=" + q(o) + ",key=" + q(k) + ",sig=\"\",destination=" + q(d),
		"X-Matrix origin=" + q(o) + ",key=" + q(k) + ",sig=" + q("$BADSIG") + ",destination=" + q(d),
		"X-Matrix origin=" + q(o) + ",key=" + q(k) + ",sig=" + q("$SIG=") + ",destination=" + q(d),
		"X-Matrix origin=" + q(o) + ",key=" + q(k) + ",sig=" + q("AAAA") + ",destination=" + q(d),
		"X-Matrix origin=" + q(o) + ",key=" + q(k) + ",sig=" + q("not base64!") + ",destination=" + q(d),
		"X-Matrix origin=" + q(o) + ";key=" + q(k) + ";sig=" + q("$SIG") + ";destination=" + q(d),
		"X-Matrix origin=" + q(o) + " key=" + q(k) + " sig=" + q("$SIG") + " destination=" + q(d),
		"X-Matrix origin=" + q(o) + ",key=" + q(k) + ",sig=" + q("$SIG") + ",destination=" + q(d) + ",sig=\"AAAA\"",
		"X-Matrix origin= " + q(o) + " ,key= " + q(k) + ",sig=" + q("$SIG") + "　,destination=" + q(d) + "\u0085",
		"Bearer abcdef", "Basic dXNlcjpwYXNz", "", "X-Matrixx origin=" + q(o) + ",key=" + q(k) + ",sig=" + q("$SIG") + ",destination=" + q(d),
	}
}

var fedContentTypes = []string{"\x00absent", "application/json; charset=utf-8", "APPLICATION/JSON", "text/plain", "application/json;", "application/json; charset",
	"", "application/jsonx", "application/x-www-form-urlencoded", " application/json ", "application/json ; charset=\"utf-8\"", "application/json;;", "application / json",
	"application/json, text/plain", "json", "*/*", "application/json; charset=utf-8; charset=latin1", "application/json; a=b; c", "application/json\t"}

func genFedreq(o *Out, tier string, r *Rng) {
	n := 2000
	if tier == "thorough" {
		n = 25000
	}
	// 1. header grammar stream against ParseAuthorization, for a few value sets
	valueSets := [][3]string{{"localhost:8800", "ed25519:a_Obwu", "localhost:44033"}, {"a.example", "ed25519:1", "[::1]:8448"}, {"o", "k", ""},
		{"a b", "k=1", "d,e"}, {"\"q\"", " k ", "\td\t"}, {"é.example", "ed25519:é", "d "}}
	for _, vs := range valueSets {
		for _, h := range fedHeaderVariants(vs[0], vs[1], vs[2]) {
			o.Do("parseauth", hx([]byte(h)))
		}
	}
	for i := 0; i < n; i++ {
		vs := Pick(r, valueSets)
		h := Pick(r, fedHeaderVariants(vs[0], vs[1], vs[2]))
		k := 1 + r.Intn(3)
		for j := 0; j < k; j++ {
			h = fedMutateHeader(r, h)
		}
		o.Do("parseauth", hx([]byte(h)))
	}
	// 1b. bounded-exhaustive (thorough): every sequence of up to 5 tokens after the scheme
	if tier == "thorough" {
		toks := []string{"origin", "key", "sig", "=", "\"", ",", " ", "a", "\t"}
		var rec func(prefix string, depth int)
		rec = func(prefix string, depth int) {
			o.Do("parseauth", hx([]byte("X-Matrix "+prefix)))
			if depth == 0 {
				return
			}
			for _, t := range toks {
				rec(prefix+t, depth-1)
			}
		}
		rec("", 5)
		o.Count("exhaustive.header-tokens")
	}
	// 2. requests
	for i := 0; i < n; i++ {
		s := r.fedBaseScenario()
		// untampered
		res := o.fedDo(s)
		if i < 3 {
			o.Sample(fmt.Sprintf("verify %s %s -> %s (origin %q key %q) : %s", s.method, s.uri, s.dest, s.signName, s.keyID, res))
		}
		// one tampering (sometimes two)
		k := 1
		if r.Chance(15) {
			k = 2
		}
		t := *s
		for j := 0; j < k; j++ {
			r.fedTamper(&t, o)
		}
		o.fedDo(&t)
	}
	// 3. sender-side oddities: odd names, methods, URIs, key IDs, contents (one at a time)
	for i := 0; i < n/2; i++ {
		s := r.fedBaseScenario()
		switch r.Intn(7) {
		case 6:
			s.content = fedStr(Pick(r, fedAmbiguousContents))
			o.Count("odd.ambiguous-content")
		case 0:
			s.method = Pick(r, fedBadMethods)
			o.Count("odd.method")
		case 1:
			s.uri = Pick(r, fedOddURIs)
			o.Count("odd.uri")
		case 2:
			s.keyID = Pick(r, fedOddKeyIDs)
			s.table = fedKeyEntry(s.signName, s.keyID, s.keyIdx, tsFarUnti, 0)
			o.Count("odd.keyid")
		case 3:
			s.content = fedStr(Pick(r, fedBadContents))
			o.Count("odd.content")
		case 4:
			bad := Pick(r, fedBadNames)
			s.origin, s.signName = bad, bad
			s.table = fedKeyEntry(s.signName, s.keyID, s.keyIdx, tsFarUnti, 0)
			o.Count("odd.origin")
		default:
			bad := Pick(r, fedBadNames)
			s.dest, s.recvDest = bad, bad
			if !s.localNil {
				s.local = []string{bad}
			}
			o.Count("odd.destination")
		}
		o.fedDo(s)
	}
}

func fedMutateHeader(r *Rng, s string) string {
	b := []byte(s)
	alphabet := []byte(" ,=\"\t;oksd'")
	switch r.Intn(4) {
	case 0:
		if len(b) > 0 {
			i := r.Intn(len(b))
			b = append(b[:i:i], b[i+1:]...)
		}
	case 1:
		i := r.Intn(len(b) + 1)
		b = append(b[:i:i], append([]byte{alphabet[r.Intn(len(alphabet))]}, b[i:]...)...)
	case 2:
		if len(b) > 0 {
			b[r.Intn(len(b))] = alphabet[r.Intn(len(alphabet))]
		}
	default:
		if len(b) > 0 {
			i := r.Intn(len(b))
			b = append(b[:i:i], append([]byte{b[i]}, b[i:]...)...)
		}
	}
	if !strings.Contains(string(b), "$SIG") && strings.Contains(s, "$SIG") && r.Chance(70) {
		return s // keep the placeholder intact most of the time
	}
	return string(b)
}

// tamper changes one aspect of the transmitted request or of the receiver's situation.
func (r *Rng) fedTamper(s *fedScenario, o *Out) {
	effOrigin := s.signName
	switch r.Intn(12) {
	case 0: // method
		m := Pick(r, append(append([]string{}, fedMethods...), "", strings.ToLower(s.method), "GETX", "G\xffT", s.method+"\xc3"))
		s.txMethod = &m
		o.Count("tamper.method")
	case 1: // URI
		u := Pick(r, append(append([]string{}, fedURIs...), s.uri+"/", s.uri+"?x=1", strings.ToLower(s.uri), s.uri+"#f", s.uri+"%20"))
		if strings.Contains(s.uri, "\xef\xbf\xbd") && r.Chance(70) {
			// the signed URI holds U+FFFD: transmit bytes that json.Marshal rewrites to U+FFFD (the signed JSON object is the same)
			u = strings.Replace(s.uri, "\xef\xbf\xbd", Pick(r, []string{"\xff", "\xc0", "\xed\xa0\x80", "\xfe\xfe"}), Pick(r, []int{1, -1}))
			o.Count("tamper.uri-fffd-to-invalid-utf8")
		} else if r.Chance(10) {
			u = Pick(r, []string{s.uri + "?q=\xff", "/a?\xc3", s.uri + "&\x80"})
		}
		s.txURI = &u
		o.Count("tamper.uri")
	case 2: // content type
		ct := Pick(r, fedContentTypes)
		s.txCT = &ct
		o.Count("tamper.content-type")
	case 3: // body
		var b string
		switch r.Intn(8) {
		case 6, 7:
			// the signed body rewritten into a text its readers disagree on (lone surrogate escape, duplicate member, invalid UTF-8)
			b = Pick(r, fedAmbiguousContents)
			if s.content != nil {
				if t2, what := r.signAmbiguate([]byte(*s.content), r.Intn(3), r.Chance(80)); t2 != nil {
					b = string(t2)
					o.Count("tamper.body-ambiguous-" + what)
				}
			}
		case 0:
			b = ""
		case 1:
			b = Pick(r, fedContents)
		case 2:
			b = Pick(r, fedBadContents)
		case 3:
			b = "{\"a\":\"\xff\"}"
		case 4:
			if s.content != nil {
				b = " " + *s.content + "\n" // same value, other spelling
			} else {
				b = "{}"
			}
		default:
			b = "\xc3\x28"
		}
		s.txBody = &b
		if s.content == nil && r.Chance(60) {
			s.txCT = fedStr("application/json")
		}
		o.Count("tamper.body")
	case 4: // header syntax
		s.txAuth = []string{Pick(r, fedHeaderVariants(effOrigin, s.keyID, s.dest))}
		s.txAuthSet = true
		o.Count("tamper.header-syntax")
	case 5: // header values: another origin / destination / key
		oo, kk, dd := effOrigin, s.keyID, s.dest
		switch r.Intn(4) {
		case 0:
			oo = Pick(r, append(append([]string{"a\xff.example", effOrigin + "\xc3"}, fedNames...), fedBadNames...))
		case 1:
			dd = Pick(r, append(append([]string{"\xff.example", s.dest + "\xc0"}, fedNames...), fedBadNames...))
		case 2:
			kk = Pick(r, append(append([]string{}, fedKeyIDs...), fedOddKeyIDs...))
		default:
			dd = ""
		}
		s.txAuth = []string{fedHeaderVariants(oo, kk, dd)[0]}
		s.txAuthSet = true
		o.Count("tamper.header-values")
	case 6: // several Authorization headers
		good := fedHeaderVariants(effOrigin, s.keyID, s.dest)[0]
		alts := []string{"Bearer abcdef", fedHeaderVariants(effOrigin, "ed25519:other", s.dest)[0], fedHeaderVariants("evil.example", s.keyID, s.dest)[0],
			fedHeaderVariants(effOrigin, s.keyID, "")[0], fedHeaderVariants(effOrigin, s.keyID, "other.local.example")[0],
			"X-Matrix origin=\"" + effOrigin + "\",key=\"" + s.keyID + "\",sig=\"$BADSIG\",destination=\"" + s.dest + "\"", "X-Matrix", good}
		a := Pick(r, alts)
		if r.Bool() {
			s.txAuth = []string{good, a}
		} else {
			s.txAuth = []string{a, good}
		}
		if r.Chance(15) {
			s.txAuth = nil // no Authorization header at all
		}
		s.txAuthSet = true
		o.Count("tamper.multi-header")
	case 7: // receiver: default name / local names
		switch r.Intn(4) {
		case 0:
			s.localNil, s.recvDest = true, Pick(r, fedNames)
		case 1:
			s.localNil, s.local = false, []string{Pick(r, fedNames)}
		case 2:
			s.localNil, s.local = false, nil
		default:
			s.localNil, s.local, s.recvDest = false, []string{"x.example", s.dest}, "x.example"
		}
		o.Count("tamper.receiver-names")
	case 8: // time of receipt against the key's validity
		switch r.Intn(8) {
		case 0:
			s.table = fedKeyEntry(s.signName, s.keyID, s.keyIdx, tsValid, 0)
			s.now = Pick(r, []int64{tsValid - 1, tsValid, tsValid + 1, tsPast})
		case 1:
			s.table = fedKeyEntry(s.signName, s.keyID, s.keyIdx, 0, 0)
		case 2:
			s.table = fedKeyEntry(s.signName, s.keyID, s.keyIdx, 0, tsValid)
			s.now = Pick(r, []int64{tsValid - 1, tsValid, tsValid + 1})
		case 3:
			s.table = fedKeyEntry(s.signName, s.keyID, s.keyIdx, tsFarUnti, tsValid)
			s.now = Pick(r, []int64{tsValid - 1, tsValid, tsFarNow})
		case 4:
			s.now = tsFarNow // within valid_until_ts but more than 7 days after the wall clock
		case 5:
			s.now = Pick(r, []int64{0, 1, tsFarUnti, tsFarUnti + 1})
		case 6:
			s.table = fedKeyEntry(s.signName, s.keyID, s.keyIdx, tsPast, 0)
			s.now = Pick(r, []int64{tsPast - 1, tsPast, tsPast + 1})
		default:
			s.table = fedKeyEntry(s.signName, s.keyID, s.keyIdx, tsPast-1, 0)
		}
		o.Count("tamper.key-validity")
	case 9: // key database: wrong key, other server, missing, failing
		switch r.Intn(5) {
		case 0:
			s.table = fedKeyEntry(s.signName, s.keyID, (s.keyIdx+1)%4, tsFarUnti, 0)
		case 1:
			s.table = fedKeyEntry("elsewhere.example", s.keyID, s.keyIdx, tsFarUnti, 0)
		case 2:
			s.table = "."
		case 3:
			if !strings.HasPrefix(s.table, "!") {
				s.table = "!" + s.table
			}
		default:
			s.table = fedTblAdd(s.table, fedKeyEntry(s.signName, "ed25519:other", s.keyIdx, tsFarUnti, 0))
		}
		o.Count("tamper.key-db")
	case 10: // same public key known under another key ID, header names that ID
		s.table = fedTblAdd(s.table, fedKeyEntry(s.signName, "ed25519:alias", s.keyIdx, tsFarUnti, 0))
		s.txAuth = []string{fedHeaderVariants(effOrigin, "ed25519:alias", s.dest)[0]}
		s.txAuthSet = true
		o.Count("tamper.key-alias")
	default: // no tampering of this kind: receiver is another server entirely
		s.recvDest = "unrelated.example"
		s.localNil = true
		o.Count("tamper.wrong-receiver")
	}
}
