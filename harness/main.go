// Command vharness runs the real gomatrixserverlib code (built from /repo's working tree, with
// -tags verif) on generated inputs and writes one operation per line, together with what the
// implementation answered.  The Lean driver evaluates the model on the same lines.
//
//	vharness <area> <tier> <seed> <outdir>
//
// writes <outdir>/<area>.ops (lines for the driver) and <outdir>/<area>.impl (one line per op:
// the implementation's canonicalised outcome) and <outdir>/<area>.stats.json (input distribution).
package main

import (
	"io"

	"github.com/sirupsen/logrus"

	"bufio"
	"encoding/hex"
	"encoding/json"
	"fmt"
	"os"
	"path/filepath"
	"runtime/debug"
	"sort"
	"strconv"
	"strings"
)

// Rng is SplitMix64: every random choice of a run derives from one state.
type Rng struct{ s uint64 }

func (r *Rng) Next() uint64 {
	r.s += 0x9E3779B97F4A7C15
	z := r.s
	z = (z ^ (z >> 30)) * 0xBF58476D1CE4E5B9
	z = (z ^ (z >> 27)) * 0x94D049BB133111EB
	return z ^ (z >> 31)
}
func (r *Rng) Intn(n int) int {
	if n <= 0 {
		return 0
	}
	return int(r.Next() % uint64(n))
}
func (r *Rng) Bool() bool          { return r.Next()&1 == 1 }
func (r *Rng) Chance(p int) bool   { return r.Intn(100) < p }
func Pick[T any](r *Rng, xs []T) T { return xs[r.Intn(len(xs))] }

// Out collects ops and implementation outcomes.
type Out struct {
	area  string
	ops   *bufio.Writer
	impl  *bufio.Writer
	n     int
	Stats map[string]int
	seen  map[string]bool
	// Samples keeps a few decoded ops for the evidence file.
	Samples []string
}

func hx(b []byte) string {
	if len(b) == 0 {
		return "-"
	}
	return hex.EncodeToString(b)
}

// Do executes one op on the implementation (through the area's Exec, under recover) and records it.
func (o *Out) Do(op string, args ...string) string {
	impl := Guard(func() string { return areas[o.area].Exec(op, args) })
	o.Emit(op, args, impl)
	return impl
}

// Emit writes one op (op name without area prefix, args already encoded, no tabs inside) and the
// implementation's outcome.
func (o *Out) Emit(op string, args []string, impl string) {
	line := o.area + "." + op
	for _, a := range args {
		line += "\t" + a
	}
	fmt.Fprintln(o.ops, line)
	fmt.Fprintln(o.impl, impl)
	o.n++
	o.Stats["ops."+op]++
	if !o.seen[line] {
		o.seen[line] = true
		o.Stats["distinct"]++
	}
}
func (o *Out) Count(k string) { o.Stats[k]++ }
func (o *Out) Sample(s string) {
	if len(o.Samples) < 12 {
		o.Samples = append(o.Samples, s)
	}
}

// Guard runs f and maps a Go panic to "panic:<top frame in the library>".
func Guard(f func() string) (res string) {
	defer func() {
		if r := recover(); r != nil {
			res = "panic:" + panicSite(string(debug.Stack())) + ":" + oneLine(fmt.Sprint(r))
		}
	}()
	return f()
}

func oneLine(s string) string {
	s = strings.ReplaceAll(s, "\n", " ")
	s = strings.ReplaceAll(s, "\t", " ")
	if len(s) > 120 {
		s = s[:120]
	}
	return s
}

func panicSite(stack string) string {
	lines := strings.Split(stack, "\n")
	for _, l := range lines {
		l = strings.TrimSpace(l)
		if strings.HasPrefix(l, "/repo/") {
			if i := strings.Index(l, " "); i > 0 {
				l = l[:i]
			}
			return strings.TrimPrefix(l, "/repo/")
		}
	}
	return "?"
}

// Area is one group of ops: a generator and an executor that runs a single op on the real code.
type Area struct {
	Gen  func(o *Out, tier string, r *Rng)
	Exec func(op string, args []string) string
}

var areas = map[string]Area{}

func main() {
	logrus.SetOutput(io.Discard) // the library logs through logrus: keep the streams clean
	if len(os.Args) >= 2 && os.Args[1] == "exec" {
		// vharness exec : read op lines "<area>.<op>\targs" on stdin, print the implementation's outcome per line
		sc := bufio.NewScanner(os.Stdin)
		sc.Buffer(make([]byte, 1<<20), 1<<28)
		w := bufio.NewWriter(os.Stdout)
		defer w.Flush()
		for sc.Scan() {
			parts := strings.Split(sc.Text(), "\t")
			ao := strings.SplitN(parts[0], ".", 2)
			a, ok := areas[ao[0]]
			if !ok || len(ao) != 2 {
				fmt.Fprintln(w, "bad-op")
				continue
			}
			fmt.Fprintln(w, Guard(func() string { return a.Exec(ao[1], parts[1:]) }))
		}
		return
	}
	if len(os.Args) < 5 {
		fmt.Fprintln(os.Stderr, "usage: vharness <area> <tier> <seed> <outdir> | vharness exec")
		os.Exit(2)
	}
	area, tier := os.Args[1], os.Args[2]
	seed, _ := strconv.ParseUint(os.Args[3], 10, 64)
	outdir := os.Args[4]
	f, ok := areas[area]
	if !ok {
		var names []string
		for k := range areas {
			names = append(names, k)
		}
		sort.Strings(names)
		fmt.Fprintln(os.Stderr, "unknown area; have:", names)
		os.Exit(2)
	}
	_ = os.MkdirAll(outdir, 0o755)
	fo, err := os.Create(filepath.Join(outdir, area+".ops"))
	if err != nil {
		panic(err)
	}
	fi, err := os.Create(filepath.Join(outdir, area+".impl"))
	if err != nil {
		panic(err)
	}
	o := &Out{area: area, ops: bufio.NewWriterSize(fo, 1<<20), impl: bufio.NewWriterSize(fi, 1<<20),
		Stats: map[string]int{}, seen: map[string]bool{}}
	// seeds k and k+1 must not give shifted copies of one stream: hash the seed first
	sm := &Rng{s: seed ^ 0xD6E8FEB86659FD93}
	sm.Next()
	r := &Rng{s: sm.Next() ^ (seed << 32)}
	f.Gen(o, tier, r)
	o.ops.Flush()
	o.impl.Flush()
	fo.Close()
	fi.Close()
	st := map[string]interface{}{"area": area, "tier": tier, "seed": seed, "ops": o.n, "stats": o.Stats, "samples": o.Samples}
	b, _ := json.MarshalIndent(st, "", " ")
	_ = os.WriteFile(filepath.Join(outdir, area+".stats.json"), b, 0o644)
}
