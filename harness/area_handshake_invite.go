package main

// Area handshake, second part (C15): PerformInvite (user-ID room versions and org.matrix.msc4014, local and remote
// invitees) and the pseudo-ID path of HandleSendJoin, run with mock queriers / federation clients built from the op
// line. Argument encodings are documented at the top of lean/VDriver/HandshakeInvite.lean.

import (
	"context"
	"crypto/ed25519"
	"encoding/json"
	"errors"
	"fmt"
	"sort"
	"strconv"
	"strings"
	"time"

	gmsl "github.com/matrix-org/gomatrixserverlib"
	"github.com/matrix-org/gomatrixserverlib/spec"
)

const piPseudoVer = "org.matrix.msc4014"

var piTime = time.Unix(1700000000, 0)

func piSID(key ed25519.PrivateKey) string { return string(spec.SenderIDFromPseudoIDKey(key)) }

// fixed identities of the pseudo-ID scenarios: key name -> user ID
var piKeyUsers = map[string]string{
	"p-creator": "@creator:hs1", "p-inviter": "@alice:hs1", "p-invitee-remote": "@zed:hs2", "p-invitee-local": "@zed:hs1",
	"p-other": "@mallory:hs1", "p-joiner": "@newcomer:hs5",
}

var piPseudoUsers = func() map[string]string {
	m := map[string]string{}
	for k, u := range piKeyUsers {
		m[piSID(hsKey(k))] = u
	}
	return m
}()

// piQuerier maps the sender IDs of the fixed identities to their users; anything else is read as a user ID.
func piQuerier(roomID spec.RoomID, senderID spec.SenderID) (*spec.UserID, error) {
	if u, ok := piPseudoUsers[string(senderID)]; ok {
		return spec.NewUserID(u, true)
	}
	return spec.NewUserID(string(senderID), true)
}

// piBadContentPDU is a PDU whose content does not marshal (stripped state built from it makes SetUnsigned fail).
type piBadContentPDU struct{ gmsl.PDU }

func (piBadContentPDU) Content() []byte { return []byte("{") }

type piStateQuerier struct {
	mode     string // GetState: "err" | <n> | "bad"
	ev       gmsl.PDU
	authq    string
	provider gmsl.AuthEventProvider
	seen     gmsl.PDU // the event handed to GetAuthEvents
}

func (s *piStateQuerier) GetAuthEvents(ctx context.Context, event gmsl.PDU) (gmsl.AuthEventProvider, error) {
	s.seen = event
	if s.authq == "err" {
		return nil, errors.New("auth events unavailable (scripted)")
	}
	return s.provider, nil
}

func (s *piStateQuerier) GetState(ctx context.Context, roomID spec.RoomID, stateWanted []gmsl.StateKeyTuple) ([]gmsl.PDU, error) {
	switch s.mode {
	case "err":
		return nil, errors.New("state query failed (scripted)")
	case "bad":
		return []gmsl.PDU{piBadContentPDU{s.ev}}, nil
	}
	n, _ := strconv.Atoi(s.mode)
	var out []gmsl.PDU
	for i := 0; i < n; i++ {
		out = append(out, s.ev)
	}
	return out, nil
}

type piFedClient struct {
	mode     string
	ver      gmsl.IRoomVersion
	raw      []byte   // SendInviteV3: the remote's answer
	other    gmsl.PDU // SendInvite, mode "other"
	sentV2   gmsl.PDU
	sentV3   *gmsl.ProtoEvent
	returned gmsl.PDU
	// PDU.Sign writes through to the event it is called on: what was returned is recorded at return time
	returnedJSON []byte
	returnedSelf string
}

func (c *piFedClient) SendInvite(ctx context.Context, event gmsl.PDU, strippedState []gmsl.InviteStrippedState) (gmsl.PDU, error) {
	c.sentV2, _ = c.ver.NewEventFromTrustedJSONWithEventID(event.EventID(), append([]byte{}, event.JSON()...), false)
	switch c.mode {
	case "err":
		return nil, errors.New("send_invite failed (scripted)")
	case "nil":
		return nil, nil
	case "other":
		c.returned = c.other
		if c.other == nil {
			return nil, nil
		}
		c.returnedJSON = append([]byte{}, c.other.JSON()...)
		return c.other, nil
	}
	// "echo": the invited server returns the event with its own signature added
	c.returned = event.Sign("hs2", "ed25519:r", hsRemoteKey)
	c.returnedJSON = append([]byte{}, c.returned.JSON()...)
	return c.returned, nil
}

func (c *piFedClient) SendInviteV3(ctx context.Context, event gmsl.ProtoEvent, userID spec.UserID, roomVersion gmsl.RoomVersion, strippedState []gmsl.InviteStrippedState) (gmsl.PDU, error) {
	c.sentV3 = &event
	switch c.mode {
	case "err":
		return nil, errors.New("send_invite v3 failed (scripted)")
	case "nil":
		return nil, nil
	}
	// like a real client: the response body is parsed as an untrusted event of the room version
	ev, err := c.ver.NewEventFromUntrustedJSON(c.raw)
	if err != nil {
		return nil, err
	}
	c.returned = ev
	c.returnedJSON = append([]byte{}, ev.JSON()...)
	c.returnedSelf = piHexList(piSelfSigners(c.ver, ev))
	return ev, nil
}

func piSigNames(raw []byte) []string {
	var s struct {
		Signatures map[string]json.RawMessage `json:"signatures"`
	}
	_ = json.Unmarshal(raw, &s)
	var out []string
	for k := range s.Signatures {
		out = append(out, k)
	}
	sort.Strings(out)
	return out
}

func piSigValid(ver gmsl.IRoomVersion, ev gmsl.PDU, name string, keyID gmsl.KeyID, key ed25519.PrivateKey) bool {
	red, err := ver.RedactEventJSON(ev.JSON())
	return err == nil && len(key) == ed25519.PrivateKeySize && gmsl.VerifyJSON(name, keyID, key.Public().(ed25519.PublicKey), red) == nil
}

func piStrippedCount(unsignedHolder []byte, top bool) string {
	var raw json.RawMessage
	if top {
		var u struct {
			S json.RawMessage `json:"invite_room_state"`
		}
		if json.Unmarshal(unsignedHolder, &u) != nil {
			return "?"
		}
		raw = u.S
	} else {
		var u struct {
			Unsigned struct {
				S json.RawMessage `json:"invite_room_state"`
			} `json:"unsigned"`
		}
		if json.Unmarshal(unsignedHolder, &u) != nil {
			return "?"
		}
		raw = u.Unsigned.S
	}
	if strings.HasPrefix(string(raw), "{") {
		return "0"
	}
	var arr []json.RawMessage
	if json.Unmarshal(raw, &arr) == nil {
		return strconv.Itoa(len(arr))
	}
	return "?"
}

func piCanon(b []byte) string {
	c, err := gmsl.CanonicalJSON(b)
	if err != nil {
		return "!" + string(b)
	}
	return string(c)
}

// piStripSig: the event JSON without the signature slot of `name` (and without empty signature objects).
func piStripSig(b []byte, name string) string {
	var m map[string]json.RawMessage
	if json.Unmarshal(b, &m) != nil {
		return "?"
	}
	var sigs map[string]json.RawMessage
	if json.Unmarshal(m["signatures"], &sigs) == nil {
		delete(sigs, name)
		if len(sigs) == 0 {
			delete(m, "signatures")
		} else {
			m["signatures"], _ = json.Marshal(sigs)
		}
	}
	o, _ := json.Marshal(m)
	return piCanon(o)
}

// selfSigners: the names (sender, state key, every name under "signatures") whose own key validly signed the event.
func piSelfSigners(ver gmsl.IRoomVersion, ev gmsl.PDU) []string {
	red, err := ver.RedactEventJSON(ev.JSON())
	if err != nil {
		return nil
	}
	names := append([]string{string(ev.SenderID())}, piSigNames(ev.JSON())...)
	if ev.StateKey() != nil {
		names = append(names, *ev.StateKey())
	}
	seen := map[string]bool{}
	var out []string
	for _, n := range names {
		if !seen[n] && selfOK(n, red) {
			out = append(out, n)
		}
		seen[n] = true
	}
	sort.Strings(out)
	return out
}

func piHexList(xs []string) string {
	if len(xs) == 0 {
		return "-"
	}
	var a []string
	for _, x := range xs {
		a = append(a, hx([]byte(x)))
	}
	return strings.Join(a, ",")
}

func piBool(b bool) string {
	if b {
		return "1"
	}
	return "0"
}

// handshake.perform_invite: see lean/VDriver/HandshakeInvite.lean for the argument list
func execPerformInvite(args []string) (res string) {
	ver := args[0]
	breach := map[string]bool{}
	for _, b := range splitList(args[1], ",") {
		breach[b] = true
	}
	runtimeBreach := ""
	for _, b := range []string{"store", "fed", "key", "nilstate"} {
		if breach[b] {
			runtimeBreach = b
		}
	}
	defer func() {
		if r := recover(); r != nil {
			// caller-contract breaches scripted by the op: the explicit panics of the entry check, and the unchecked ones
			if s, ok := r.(string); ok && s == "Missing valid Querier" {
				res = "abort:querier"
				return
			}
			if s, ok := r.(string); ok && s == "Missing valid Context" {
				res = "abort:context"
				return
			}
			if runtimeBreach != "" {
				res = "abort:" + runtimeBreach
				return
			}
			panic(r)
		}
	}()
	ever := ver
	verImpl, verr := gmsl.GetRoomVersion(gmsl.RoomVersion(ver))
	if verr != nil {
		ever = "10"
		verImpl = gmsl.MustGetRoomVersion("10")
	}
	pseudo := ver == piPseudoVer
	roomID, err := spec.NewRoomID(string(unhx(args[3])))
	if err != nil {
		return "err:construct:room"
	}
	inviter, err1 := spec.NewUserID(args[4], true)
	invitee, err2 := spec.NewUserID(args[5], true)
	if err1 != nil || err2 != nil {
		return "err:construct:user"
	}
	key := hsKey(args[6])
	if pseudo && piSID(key) != args[7] {
		return "err:construct:origin"
	}
	origin := args[7]
	if args[24] != "err" && args[24] != "ok:"+piSID(hsKey("p-invitee-local")) && args[24] != "mismatch:"+piSID(hsKey("p-invitee-local")) {
		return "err:construct:creator"
	}
	content := unhx(args[11])
	if args[23] == "1" {
		var m map[string]interface{}
		if json.Unmarshal(content, &m) != nil || m == nil {
			return "err:construct:big"
		}
		m["pad"] = strings.Repeat("x", 70000)
		content, _ = json.Marshal(m)
	}
	proto := gmsl.ProtoEvent{SenderID: args[9], RoomID: string(unhx(args[12])), Type: args[8], Content: content}
	if args[10] != "-" {
		sk := args[10][2:]
		proto.StateKey = &sk
	}
	// state events of LatestEvents
	var stateEvents, validState []gmsl.PDU
	for _, a := range splitList(args[20], ",") {
		if a == "nil" {
			stateEvents = append(stateEvents, nil)
			continue
		}
		e, err := parseEvArg(ever, a)
		if err != nil {
			return "err:construct:state"
		}
		stateEvents = append(stateEvents, e)
		if e.StateKey() != nil {
			validState = append(validState, e)
		}
	}
	var firstState gmsl.PDU
	for _, e := range stateEvents {
		if e != nil {
			firstState = e
			break
		}
	}
	if firstState == nil {
		g := NewRoomGen(&Rng{s: 7}, "10")
		firstState = g.Mk("m.room.name", "@bob:hs2", sp(""), map[string]interface{}{"name": "n"}, []string{}, []string{}, nil).PDU
	}
	var stripped []gmsl.InviteStrippedState
	switch args[13] {
	case "b":
		stripped = append(stripped, gmsl.NewInviteStrippedState(piBadContentPDU{firstState}))
	default:
		n, _ := strconv.Atoi(args[13])
		for i := 0; i < n; i++ {
			stripped = append(stripped, gmsl.NewInviteStrippedState(firstState))
		}
	}
	provider, err := gmsl.NewAuthEvents(validState)
	if err != nil {
		return "err:construct:provider"
	}
	sq := &piStateQuerier{mode: args[14], ev: firstState, authq: args[21], provider: provider}
	depth, _ := strconv.ParseInt(args[18], 10, 64)
	nprev, _ := strconv.Atoi(args[19])
	prev := []string{}
	for i := 0; i < nprev; i++ {
		prev = append(prev, piPrevID(ever, i))
	}
	var asked []gmsl.StateKeyTuple
	querier := spec.UserIDForSender(StdQuerier)
	if pseudo {
		querier = piQuerier
	}
	fed := &piFedClient{mode: args[25], ver: verImpl, other: firstState}
	if pseudo && args[25] != "err" && args[25] != "nil" {
		if args[25] == "x" {
			fed.raw = []byte(`{"type":`)
		} else {
			i := strings.IndexByte(args[25], ':')
			fed.raw = unhx(args[25][i+1:])
		}
	}
	in := gmsl.PerformInviteInput{
		RoomID: *roomID, RoomVersion: gmsl.RoomVersion(ver), Inviter: *inviter, Invitee: *invitee, IsTargetLocal: args[2] == "1",
		EventTemplate: proto, StrippedState: stripped, KeyID: hsKeyID, SigningKey: key, EventTime: piTime,
		MembershipQuerier: &hsMembership{cur: args[16]}, StateQuerier: sq, UserIDQuerier: querier,
		SenderIDQuerier: func(roomID spec.RoomID, userID spec.UserID) (*spec.SenderID, error) {
			switch {
			case args[15] == "err":
				return nil, errors.New("sender ID lookup failed (scripted)")
			case args[15] == "nil":
				return nil, nil
			}
			s := spec.SenderID(args[15][2:])
			return &s, nil
		},
		SenderIDCreator: func(ctx context.Context, userID spec.UserID, roomID spec.RoomID, roomVersion string) (spec.SenderID, ed25519.PrivateKey, error) {
			switch {
			case args[24] == "err":
				return "", nil, errors.New("sender ID creation failed (scripted)")
			case strings.HasPrefix(args[24], "mismatch"):
				return spec.SenderID(piSID(hsKey("p-invitee-local"))), hsKey("p-other"), nil
			}
			return spec.SenderID(piSID(hsKey("p-invitee-local"))), hsKey("p-invitee-local"), nil
		},
		EventQuerier: func(ctx context.Context, roomID spec.RoomID, eventsNeeded []gmsl.StateKeyTuple) (gmsl.LatestEvents, error) {
			asked = eventsNeeded
			if args[17] == "err" {
				return gmsl.LatestEvents{}, errors.New("latest events unavailable (scripted)")
			}
			return gmsl.LatestEvents{RoomExists: args[17] == "1", StateEvents: stateEvents, PrevEventIDs: prev, Depth: depth}, nil
		},
		StoreSenderIDFromPublicID: func(ctx context.Context, senderID spec.SenderID, userID string, id spec.RoomID) error {
			if args[27] == "err" {
				return errors.New("store failed (scripted)")
			}
			return nil
		},
	}
	if breach["mq"] {
		in.MembershipQuerier = nil
	}
	if breach["sq"] {
		in.StateQuerier = nil
	}
	if breach["uq"] {
		in.UserIDQuerier = nil
	}
	if breach["siq"] {
		in.SenderIDQuerier = nil
	}
	if breach["sic"] {
		in.SenderIDCreator = nil
	}
	if breach["eq"] {
		in.EventQuerier = nil
	}
	if breach["store"] {
		in.StoreSenderIDFromPublicID = nil
	}
	if breach["key"] {
		in.SigningKey = nil
	}
	ctx := context.Background()
	if breach["ctx"] {
		ctx = nil
	}
	var client gmsl.FederatedInviteClient = fed
	if breach["fed"] {
		client = nil
	}
	out, perr := gmsl.PerformInvite(ctx, in, client)
	// the declared oracle answers must be what the library computes on the event it showed the state querier
	if sq.seen != nil && args[21] != "err" {
		if (gmsl.Allowed(sq.seen, provider, querier) == nil) != (args[22] == "1") {
			return "err:construct:allowed"
		}
	}
	if fed.returned != nil && pseudo {
		if fed.returnedSelf != args[26] {
			return "err:construct:selfsigners"
		}
	}
	if perr != nil {
		return hsErrClass(perr)
	}
	askedS := strconv.Itoa(len(asked))
	for _, t := range asked {
		if t.EventType == spec.MRoomCreate {
			askedS += "c"
		}
	}
	builtReport := func(ev gmsl.PDU, expectSK string, cands [][2]string, keys map[string]ed25519.PrivateKey) string {
		valid := true
		for _, c := range cands {
			if !piSigValid(verImpl, ev, c[0], gmsl.KeyID(c[1]), keys[c[0]]) {
				valid = false
			}
		}
		shape := ev.Type() == proto.Type && string(ev.SenderID()) == proto.SenderID && ev.RoomID().String() == proto.RoomID &&
			ev.StateKeyEquals(expectSK) && piCanon(ev.Content()) == piCanon(content) && ev.Depth() == depth
		return "sigs=" + strings.Join(piSigNames(ev.JSON()), ",") + ":valid=" + piBool(valid) + ":shape=" + piBool(shape) +
			":ae=" + piArrayLen(ev.JSON(), "auth_events") + ":pe=" + piArrayLen(ev.JSON(), "prev_events") +
			":stripped=" + piStrippedCount(ev.JSON(), false) + ":asked=" + askedS
	}
	switch {
	case pseudo && args[2] == "1":
		if out == nil {
			return "ok:nil"
		}
		isid := piSID(hsKey("p-invitee-local"))
		return "ok:built:" + builtReport(out, isid, [][2]string{{isid, "ed25519:1"}, {origin, "ed25519:1"}},
			map[string]ed25519.PrivateKey{isid: hsKey("p-invitee-local"), origin: key})
	case pseudo:
		if out == nil || fed.returned == nil || fed.sentV3 == nil {
			return "ok:nil"
		}
		sent := fed.sentV3
		ae, _ := sent.AuthEvents.([]string)
		pe, _ := sent.PrevEvents.([]string)
		unmod := piStripSig(out.JSON(), origin) == piStripSig(fed.returnedJSON, origin)
		return "ok:v3:sigs=" + strings.Join(piSigNames(out.JSON()), ",") + ":valid=" + piBool(piSigValid(verImpl, out, origin, "ed25519:1", key)) +
			":unmod=" + piBool(unmod) + ":ae=" + strconv.Itoa(len(ae)) + ":pe=" + strconv.Itoa(len(pe)) + ":depth=" + piBool(sent.Depth == depth) +
			":stripped=" + piStrippedCount(sent.Unsigned, true) + ":asked=" + askedS
	case args[2] == "1":
		if out == nil {
			return "ok:nil"
		}
		return "ok:built:" + builtReport(out, invitee.String(), [][2]string{{string(inviter.Domain()), string(hsKeyID)}, {string(invitee.Domain()), string(hsKeyID)}},
			map[string]ed25519.PrivateKey{string(inviter.Domain()): key, string(invitee.Domain()): key})
	default:
		ret := "changed"
		switch {
		case out == nil && fed.returned == nil:
			ret = "nil"
		case out != nil && fed.returned != nil && string(out.JSON()) == string(fed.returnedJSON):
			ret = "asis"
		}
		if fed.sentV2 == nil {
			return "ok:v2:ret=" + ret + ":nothing-sent"
		}
		return "ok:v2:ret=" + ret + ":" + builtReport(fed.sentV2, invitee.String(), [][2]string{{string(inviter.Domain()), string(hsKeyID)}, {string(invitee.Domain()), string(hsKeyID)}},
			map[string]ed25519.PrivateKey{string(inviter.Domain()): key, string(invitee.Domain()): key})
	}
}

// piArrayLen: number of entries of a top-level array member of the event JSON (the accessors of domainless-room-ID
// versions add the create event to AuthEventIDs(); the template's own list is what is compared)
func piArrayLen(raw []byte, key string) string {
	var m map[string]json.RawMessage
	var arr []json.RawMessage
	if json.Unmarshal(raw, &m) != nil || json.Unmarshal(m[key], &arr) != nil {
		return "?"
	}
	return strconv.Itoa(len(arr))
}

func piPrevID(ver string, i int) string {
	if f, _ := verFormat(ver); f == 1 {
		return fmt.Sprintf("$prev%d:hs1", i)
	}
	return fmt.Sprintf("$prev%039d", i)
}

// ---------------------------------------------------------------- generation: PerformInvite

// piHappy: while set, every parameter stays on the accepting path (the fixed prologue of the generator deviates in exactly one)
var piHappy bool

func piPick[T any](r *Rng, p int, xs ...T) T {
	if piHappy {
		return xs[0]
	}
	return pickDev(r, p, xs...)
}

func piChance(r *Rng, p int) bool { return !piHappy && r.Chance(p) }

var piBreaches = []string{"mq", "sq", "uq", "siq", "sic", "eq", "ctx", "store", "fed", "key"}

func piPickBreach(r *Rng) string {
	if !piChance(r, 7) {
		return "-"
	}
	b := Pick(r, piBreaches)
	if piChance(r, 25) {
		b += "," + Pick(r, []string{"mq", "eq", "ctx"})
	}
	return b
}

// piTemplateContent returns (class, raw content) of the template
func piTemplateContent(r *Rng, typ string, p int) (string, []byte) {
	if typ != spec.MRoomMember {
		if piChance(r, 8) {
			return "bad", []byte("{")
		}
		return "obj", []byte(`{"body":"x"}`)
	}
	switch c := piPick(r, p, "invite", "join", "leave", "ban", "knock", "missing", "nonstring", "null", "bad", "empty", "via", "variant", "variant-after", "variant-before", "variant-via"); c {
	// member names under another spelling (a reader of exact names sees: no membership / a leave / an invite / an
	// invite without authorising user and third-party invite)
	case "variant":
		return c, []byte(`{"Membership":"invite"}`)
	case "variant-after":
		return c, []byte(`{"membership":"leave","memberſhip":"invite"}`)
	case "variant-before":
		return c, []byte(`{"MEMBERSHIP":"leave","membership":"invite"}`)
	case "variant-via":
		return c, []byte(`{"Join_authorised_via_users_server":"@carol:hs3","Third_party_invite":{"signed":{"token":"t"}},"membership":"invite"}`)
	case "missing":
		return c, []byte(`{}`)
	case "nonstring":
		return c, []byte(`{"membership":5}`)
	case "null":
		return c, []byte(`null`)
	case "bad":
		return c, []byte(`{`)
	case "empty":
		return c, nil
	case "via":
		return c, []byte(`{"membership":"invite","join_authorised_via_users_server":"@carol:hs3"}`)
	default:
		return c, []byte(`{"membership":"` + c + `"}`)
	}
}

type piCommon struct {
	stripped, stateq, sidq, cur, latest, depth, nprev, authq, big, store, breach string
}

func piGenCommon(r *Rng, p int, sid string, contentIsObj bool) piCommon {
	c := piCommon{
		stripped: piPick(r, 50, "0", "1", "3"),
		stateq:   piPick(r, 80, "2", "0", "err"),
		sidq:     piPick(r, 72, "s:"+sid, "nil", "nil", "nil", "err"),
		cur:      piPick(r, 75, "m:leave", "m:join", "m:invite", "m:", "err"),
		latest:   piPick(r, p, "1", "0", "err"),
		depth:    strconv.Itoa(r.Intn(50)),
		nprev:    Pick(r, []string{"1", "1", "2", "0", "20", "21", "25"}),
		authq:    piPick(r, 92, "ok", "err"),
		big:      "0",
		store:    piPick(r, 90, "ok", "err"),
		breach:   piPickBreach(r),
	}
	if contentIsObj && piChance(r, 4) {
		c.big = "1"
	}
	if piChance(r, 3) {
		c.stripped = "b"
	}
	if piChance(r, 4) {
		c.stateq = "bad"
	}
	return c
}

// piStateArg renders the state events of LatestEvents with the deviations: a non-state event, a nil PDU
func piStateArg(r *Rng, state []*Ev, nonState *Ev, breach *string) string {
	var a []string
	for _, e := range state {
		if e != nil {
			a = append(a, e.Arg())
		}
	}
	if nonState != nil && piChance(r, 5) {
		k := r.Intn(len(a) + 1)
		a = append(a[:k], append([]string{nonState.Arg()}, a[k:]...)...)
	}
	if *breach == "-" && piChance(r, 3) {
		k := r.Intn(len(a) + 1)
		a = append(a[:k], append([]string{"nil"}, a[k:]...)...)
		*breach = "nilstate"
	}
	if len(a) == 0 {
		return "-"
	}
	return strings.Join(a, ",")
}

func piProviderOf(state []*Ev) *gmsl.AuthEvents {
	var evs []gmsl.PDU
	for _, e := range state {
		if e != nil && e.PDU.StateKey() != nil {
			evs = append(evs, e.PDU)
		}
	}
	p, _ := gmsl.NewAuthEvents(evs)
	return p
}

func piPrevList(ver string, n int) []string {
	out := []string{}
	for i := 0; i < n && i < 20; i++ {
		out = append(out, piPrevID(ver, i))
	}
	return out
}

func genPerformInvite(o *Out, r *Rng, i int) {
	if piChance(r, 45) {
		genPerformInvitePseudo(o, r, i)
		return
	}
	genPerformInviteUserWith(o, r, i, piForce{})
}

// genPerformInviteFixed: run first, whatever the seed — every class of remote answer, and every caller-contract breach, alone
// on the otherwise accepting path (both room-version families, local and remote invitee).
func genPerformInviteFixed(o *Out, r *Rng) {
	piHappy = true
	defer func() { piHappy = false }()
	for _, rk := range piRemoteClasses {
		genPerformInvitePseudoWith(o, r, 100, piForce{local: "0", rk: rk})
	}
	genPerformInvitePseudoWith(o, r, 100, piForce{local: "1"})
	for _, fed := range []string{"echo", "err", "nil", "other"} {
		genPerformInviteUserWith(o, r, 100, piForce{local: "0", rk: fed})
	}
	genPerformInviteUserWith(o, r, 100, piForce{local: "1"})
	for _, b := range append(append([]string{}, piBreaches...), "nilstate") {
		genPerformInvitePseudoWith(o, r, 100, piForce{local: "0", rk: "ok", breach: b})
		genPerformInvitePseudoWith(o, r, 100, piForce{local: "1", breach: b})
		genPerformInviteUserWith(o, r, 100, piForce{local: "0", rk: "echo", breach: b})
	}
}

func genPerformInviteUserWith(o *Out, r *Rng, i int, f piForce) {
	ver := piPick(r, 92, Pick(r, hsVersions), "99", "")
	ever := ver
	if _, err := gmsl.GetRoomVersion(gmsl.RoomVersion(ver)); err != nil {
		ever = "10"
	}
	rm := hsRoom(r, ever, nil)
	if rm == nil {
		o.Count("gen-failed")
		return
	}
	p := 88
	if piChance(r, 25) {
		p = 60
	}
	if piChance(r, 12) { // inviting needs level 100: alice (50) may not
		plc := map[string]interface{}{"users": map[string]interface{}{authUsers[1]: 50}, "users_default": 0, "events_default": 0, "state_default": 50, "ban": 50, "kick": 50, "invite": 100, "redact": 50}
		if !gmsl.MustGetRoomVersion(gmsl.RoomVersion(ever)).PrivilegedCreators() {
			plc["users"].(map[string]interface{})[authUsers[0]] = 100
		}
		rm.send(spec.MRoomPowerLevels, rm.admin, sp(""), plc, true, nil)
	}
	inviter := piPick(r, p, authUsers[1], "@stranger:hs1", authUsers[0])
	invitee := piPick(r, 80, "@zed:hs2", "@zed:hs1", "@zed:vhost1", authUsers[2])
	if f.local == "1" {
		invitee = "@zed:hs1"
	}
	local := piBool(domainOf(invitee) != "hs2")
	if piChance(r, 6) {
		local = piBool(local == "0")
	}
	typ := piPick(r, 90, spec.MRoomMember, "m.room.message", spec.MRoomCreate, spec.MRoomAliases)
	cls, content := piTemplateContent(r, typ, p)
	tsk := piPick(r, 80, "s:"+invitee, "-", "s:@other:hs1")
	otherRoom := "!elsewhere:hs1"
	if rm.v3 {
		otherRoom = "!" + r.id43()
	}
	troom := piPick(r, p, rm.g.RoomID, otherRoom)
	var obj map[string]interface{}
	c := piGenCommon(r, p, invitee, json.Unmarshal(content, &obj) == nil && obj != nil)
	nonState := rm.send("m.room.message", authUsers[1], nil, map[string]interface{}{"body": "x"}, false, nil)
	if f.breach != "" {
		c.breach = f.breach
	}
	stateArg := piStateArg(r, rm.state(), nonState, &c.breach)
	if f.breach == "nilstate" {
		stateArg = "nil," + stateArg
	}
	// the Allowed oracle, computed on a look-alike of the event PerformInvite builds
	allowed := "0"
	nprev, _ := strconv.Atoi(c.nprev)
	saved := rm.g.RoomID
	rm.g.RoomID = troom
	if la := rm.g.Mk(typ, inviter, sp(invitee), json.RawMessage(content), piPrevList(ever, nprev), []string{}, nil); la != nil && len(content) > 0 {
		var provState []*Ev
		for _, a := range strings.Split(stateArg, ",") {
			for _, e := range append(rm.state(), nonState) {
				if e != nil && e.Arg() == a {
					provState = append(provState, e)
				}
			}
		}
		if gmsl.Allowed(la.PDU, piProviderOf(provState), StdQuerier) == nil {
			allowed = "1"
		}
	}
	rm.g.RoomID = saved
	fed := piPick(r, 75, "echo", "err", "nil", "other")
	if f.rk != "" {
		fed = f.rk
	}
	res := o.Do("perform_invite", ver, c.breach, local, hx([]byte(rm.g.RoomID)), inviter, invitee, "local", "-",
		typ, inviter, tsk, hx(content), hx([]byte(troom)), c.stripped, c.stateq, c.sidq, c.cur, c.latest, c.depth, c.nprev, stateArg,
		c.authq, allowed, c.big, "ok:"+piSID(hsKey("p-invitee-local")), fed, "-", c.store)
	o.Count("perform_invite." + strings.SplitN(res, ":sigs", 2)[0])
	if i < 3 {
		o.Sample("perform_invite " + ver + " local=" + local + " content=" + cls + " fed=" + fed + " -> " + res)
	}
}

// piRemoteAnswer builds the event a remote server returns to SendInviteV3 (class rk) from the template the inviter sent.
func piRemoteAnswer(r *Rng, verImpl gmsl.IRoomVersion, rk string, proto gmsl.ProtoEvent, prev []string) gmsl.PDU {
	inviteeKey := hsKey("p-invitee-remote")
	isid := piSID(inviteeKey)
	proto.PrevEvents, proto.AuthEvents, proto.Depth = prev, []string{}, 7
	proto.StateKey = &isid
	proto.Unsigned = nil
	signName, signKey := isid, inviteeKey
	switch rk {
	case "nonmember":
		proto.Type = "m.room.message"
	case "nostatekey-msg":
		proto.Type, proto.StateKey = "m.room.message", nil
	case "nostatekey-member":
		proto.StateKey = nil
	case "leave", "join", "ban", "knock":
		proto.Content = []byte(`{"membership":"` + rk + `"}`)
	case "nomembership":
		proto.Content = []byte(`{}`)
	case "membership-variant": // the remote answers with an event that is an invite only under a folded reading of its content
		proto.Content = []byte(`{"Membership":"invite"}`)
	case "membership-variant-after":
		proto.Content = []byte(`{"membership":"leave","memberſhip":"invite"}`)
	case "otherroom":
		proto.RoomID = "!elsewhere:hs1"
	case "othersender":
		proto.SenderID = piSID(hsKey("p-other"))
	case "wrongkey":
		signKey = hsKey("p-other")
	case "selfsigned": // the remote signs as the SENDER (with a key of its own): a forged inviter signature
		signName, signKey = proto.SenderID, hsKey("p-other")
	}
	if len(proto.Content) == 0 || proto.Content[0] != '{' {
		proto.Content = []byte(`{"membership":"invite"}`)
	}
	ev, err := verImpl.NewEventBuilderFromProtoEvent(&proto).Build(piTime, spec.ServerName(signName), "ed25519:1", signKey)
	if err != nil {
		return nil
	}
	raw := ev.JSON()
	if rk == "unsigned" {
		var m map[string]json.RawMessage
		_ = json.Unmarshal(raw, &m)
		delete(m, "signatures")
		raw, _ = json.Marshal(m)
	}
	if rk == "othersender" && r.Bool() { // … and signed by that sender too
		raw = ev.Sign(proto.SenderID, "ed25519:1", hsKey("p-other")).JSON()
	}
	back, err := verImpl.NewEventFromUntrustedJSON(raw)
	if err != nil {
		return nil
	}
	return back
}

var piRemoteClasses = []string{"ok", "nonmember", "nostatekey-msg", "nostatekey-member", "leave", "join", "ban", "knock", "nomembership",
	"membership-variant", "membership-variant-after",
	"otherroom", "othersender", "unsigned", "wrongkey", "selfsigned", "x", "err", "nil"}

// piForce: parameters fixed by the prologue ("" = generated)
type piForce struct{ local, rk, breach string }

func genPerformInvitePseudo(o *Out, r *Rng, i int) { genPerformInvitePseudoWith(o, r, i, piForce{}) }

func genPerformInvitePseudoWith(o *Out, r *Rng, i int, f piForce) {
	ver := piPseudoVer
	verImpl := gmsl.MustGetRoomVersion(gmsl.RoomVersion(ver))
	g := NewRoomGen(r, ver)
	g.RoomID = "!proom:hs1"
	creator, inviterSID, otherSID := piSID(hsKey("p-creator")), piSID(hsKey("p-inviter")), piSID(hsKey("p-other"))
	inviteLevel := piPick(r, 85, 0, 50, 100)
	create := g.Mk(spec.MRoomCreate, creator, sp(""), map[string]interface{}{"creator": creator, "room_version": ver}, []string{}, []string{}, nil)
	cm := g.Mk(spec.MRoomMember, creator, sp(creator), map[string]interface{}{"membership": "join"}, []string{}, []string{}, nil)
	pl := g.Mk(spec.MRoomPowerLevels, creator, sp(""), map[string]interface{}{"users": map[string]interface{}{creator: 100, inviterSID: 50},
		"users_default": 0, "events_default": 0, "state_default": 50, "ban": 50, "kick": 50, "invite": inviteLevel, "redact": 50}, []string{}, []string{}, nil)
	jr := g.Mk(spec.MRoomJoinRules, creator, sp(""), map[string]interface{}{"join_rule": "invite"}, []string{}, []string{}, nil)
	im := g.Mk(spec.MRoomMember, inviterSID, sp(inviterSID), map[string]interface{}{"membership": "join"}, []string{}, []string{}, nil)
	nonState := g.Mk("m.room.message", inviterSID, nil, map[string]interface{}{"body": "x"}, []string{}, []string{}, nil)
	state := []*Ev{create, pl, jr, cm, im}
	for _, e := range append(state, nonState) {
		if e == nil {
			o.Count("gen-failed")
			return
		}
	}
	p := 88
	if piChance(r, 25) {
		p = 60
	}
	local := piBool(r.Bool())
	if f.local != "" {
		local = f.local
	}
	invitee := "@zed:hs2"
	if local == "1" {
		invitee = "@zed:hs1"
	}
	keyname := piPick(r, 92, "p-inviter", "p-other")
	tsender := piPick(r, p, inviterSID, otherSID, "@alice:hs1")
	typ := piPick(r, 92, spec.MRoomMember, "m.room.message", spec.MRoomCreate)
	cls, content := piTemplateContent(r, typ, p)
	tsk := piPick(r, 70, "-", "s:placeholder")
	troom := piPick(r, p, g.RoomID, "!elsewhere:hs1")
	var obj map[string]interface{}
	c := piGenCommon(r, p, piSID(hsKey("p-invitee-local")), json.Unmarshal(content, &obj) == nil && obj != nil)
	if f.breach != "" {
		c.breach = f.breach
	}
	stateArg := piStateArg(r, state, nonState, &c.breach)
	if f.breach == "nilstate" {
		stateArg = "nil," + stateArg
	}
	var provState []*Ev
	for _, a := range strings.Split(stateArg, ",") {
		for _, e := range append(state, nonState) {
			if e.Arg() == a {
				provState = append(provState, e)
			}
		}
	}
	provider := piProviderOf(provState)
	nprev, _ := strconv.Atoi(c.nprev)
	prev := piPrevList(ver, nprev)
	allowed, fed, selfs, creatorMode := "0", "-", "-", "ok:"+piSID(hsKey("p-invitee-local"))
	if local == "1" {
		creatorMode = piPick(r, 85, "ok", "err", "mismatch")
		if creatorMode != "err" {
			creatorMode += ":" + piSID(hsKey("p-invitee-local"))
		}
		saved := g.RoomID
		g.RoomID = troom
		if la := g.Mk(typ, tsender, sp(piSID(hsKey("p-invitee-local"))), json.RawMessage(content), prev, []string{}, nil); la != nil && len(content) > 0 {
			if gmsl.Allowed(la.PDU, provider, piQuerier) == nil {
				allowed = "1"
			}
		}
		g.RoomID = saved
		fed = "err"
	} else {
		rk := piPick(r, 55, piRemoteClasses...)
		if f.rk != "" {
			rk = f.rk
		}
		fed = rk
		if rk != "x" && rk != "err" && rk != "nil" {
			proto := gmsl.ProtoEvent{SenderID: tsender, RoomID: troom, Type: typ, Content: content}
			ans := piRemoteAnswer(r, verImpl, rk, proto, prev)
			if ans == nil {
				o.Count("gen-failed")
				return
			}
			fed = hx([]byte(ans.EventID())) + ":" + hx(ans.JSON())
			selfs = piHexList(piSelfSigners(verImpl, ans))
			if gmsl.Allowed(ans, provider, piQuerier) == nil {
				allowed = "1"
			}
		}
		cls += "/" + rk
	}
	res := o.Do("perform_invite", ver, c.breach, local, hx([]byte(g.RoomID)), "@alice:hs1", invitee, keyname, piSID(hsKey(keyname)),
		typ, tsender, tsk, hx(content), hx([]byte(troom)), c.stripped, c.stateq, c.sidq, c.cur, c.latest, c.depth, c.nprev, stateArg,
		c.authq, allowed, c.big, creatorMode, fed, selfs, c.store)
	o.Count("perform_invite.pseudo." + strings.SplitN(res, ":sigs", 2)[0])
	if i < 6 {
		o.Sample("perform_invite pseudo local=" + local + " content=" + cls + " -> " + res)
	}
}

// ---------------------------------------------------------------- HandleSendJoin, room version org.matrix.msc4014

// handshake.sendjoin_pseudo ver cls ev evType roomID reqEventID origin local senderQ verify store selfok cur
func execSendJoinPseudo(args []string) string {
	ver, cls := args[0], args[1]
	verImpl, verr := gmsl.GetRoomVersion(gmsl.RoomVersion(ver))
	if verr != nil {
		return "err:construct:version"
	}
	var raw []byte
	var parsedJoin gmsl.PDU
	if cls == "x" {
		raw = []byte(`{"type":"m.room.member"`)
	} else {
		i := strings.IndexByte(args[2], ':')
		raw = unhx(args[2][i+1:])
		ev, err := verImpl.NewEventFromUntrustedJSON(raw)
		if err != nil {
			return "err:construct:class"
		}
		parsedJoin = ev
		want, _ := parseEvArg(ver, args[2])
		if want == nil || ev.EventID() != want.EventID() || string(ev.JSON()) != string(want.JSON()) {
			return "err:construct:reparse"
		}
		// the declared event type is the one the accessor reports
		if ev.Type() != string(unhx(args[3])) {
			return "err:construct:type"
		}
		red, rerr := verImpl.RedactEventJSON(ev.JSON())
		if (rerr == nil && selfOK(string(ev.SenderID()), red)) != (args[11] == "1") {
			return "err:construct:selfok"
		}
		// the declared answer of the sender lookup must be what the querier gives
		if args[8] != "err" && args[8] != "nil" {
			u, err := piQuerier(spec.RoomID{}, ev.SenderID())
			got := "none"
			if err == nil {
				got = "d:" + string(u.Domain())
			}
			if got != args[8] {
				return "err:construct:senderQ"
			}
		}
	}
	roomID, err := spec.NewRoomID(string(unhx(args[4])))
	if err != nil {
		return "err:construct:room"
	}
	local := args[7]
	querier := spec.UserIDForSender(piQuerier)
	if args[8] == "err" || args[8] == "nil" {
		querier = hsUserQuerier(args[8])
	}
	resp, err := gmsl.HandleSendJoin(gmsl.HandleSendJoinInput{
		Context: context.Background(), RoomID: *roomID, EventID: string(unhx(args[5])), JoinEvent: raw,
		RoomVersion: gmsl.RoomVersion(ver), RequestOrigin: spec.ServerName(args[6]), LocalServerName: spec.ServerName(local),
		KeyID: hsKeyID, PrivateKey: hsLocalKey, Verifier: &hsVerifier{mode: args[9]},
		MembershipQuerier: hsMembershipFor(args[12], *roomID, parsedJoin), UserIDQuerier: querier,
		StoreSenderIDFromPublicID: func(ctx context.Context, senderID spec.SenderID, userID string, id spec.RoomID) error {
			if args[10] == "err" {
				return errors.New("store failed (scripted)")
			}
			return nil
		},
	})
	if err != nil {
		return hsErrClass(err)
	}
	aj := "0"
	if resp.AlreadyJoined {
		aj = "1"
	}
	in, _ := verImpl.NewEventFromUntrustedJSON(raw)
	return "ok:aj=" + aj + sigReport(verImpl, in.JSON(), resp.JoinEvent, local)
}

func genSendJoinPseudo(o *Out, r *Rng, i int) { genSendJoinPseudoFix(o, r, i, hsFix{}) }

// genSendJoinPseudoFixed: every wrong event type and every class of planted local signature, each alone on the
// otherwise accepting path (see hsWrongTypes / hsForgeClasses in area_handshake.go).
func genSendJoinPseudoFixed(o *Out, r *Rng) {
	for _, typ := range hsWrongTypes {
		genSendJoinPseudoFix(o, r, 1000, hsFix{typ: "t:" + typ, happy: true})
	}
	for _, f := range hsForgeClasses {
		genSendJoinPseudoFix(o, r, 1000, hsFix{forge: f, happy: true})
	}
	genSendJoinPseudoFix(o, r, 1000, hsFix{happy: true, senderQ: "nil"})
}

func genSendJoinPseudoFix(o *Out, r *Rng, i int, fix hsFix) {
	ver := piPseudoVer
	verImpl := gmsl.MustGetRoomVersion(gmsl.RoomVersion(ver))
	p := 88
	if r.Chance(25) {
		p = 60
	}
	if fix.happy {
		p = 100
	}
	rare := func(pc int) bool { return !fix.happy && r.Chance(pc) }
	typ := spec.MRoomMember
	if strings.HasPrefix(fix.typ, "t:") {
		typ = fix.typ[2:]
	} else if rare(8) {
		typ = Pick(r, hsWrongTypes)
	}
	joinerKey := hsKey("p-joiner")
	joiner := piSID(joinerKey)
	sender := pickDev(r, p, joiner, piSID(hsKey("p-unknown")), "@newcomer:hs5")
	skMode := pickDev(r, p, "sender", "other", "empty", "none")
	var sk *string
	switch skMode {
	case "sender":
		sk = sp(sender)
	case "other":
		sk = sp(piSID(hsKey("p-other")))
	case "empty":
		sk = sp("")
	}
	content := map[string]interface{}{}
	switch m := pickDev(r, p, "join", "leave", "invite", "ban", "knock", "missing", "nonstring"); m {
	case "missing":
	case "nonstring":
		content["membership"] = 5
	default:
		content["membership"] = m
	}
	mapping := map[string]interface{}{"user_room_key": sender, "user_id": "@newcomer:hs5",
		"signatures": map[string]interface{}{"hs5": map[string]string{"ed25519:k": "c2lnbmF0dXJl"}}}
	mcls := pickDev(r, p, "ok", "absent", "null", "unsigned", "emptysigs", "othersigner", "baduser", "badtype", "extrasigner", "badsigs")
	switch mcls {
	case "unsigned":
		delete(mapping, "signatures")
	case "emptysigs":
		mapping["signatures"] = map[string]interface{}{}
	case "othersigner":
		mapping["signatures"] = map[string]interface{}{"evil.org": map[string]string{"ed25519:k": "c2lnbmF0dXJl"}}
	case "baduser":
		mapping["user_id"] = Pick(r, []string{"nouser", "", "@newcomer"})
	case "badtype":
		mapping[Pick(r, []string{"user_id", "user_room_key"})] = 5
	case "extrasigner":
		mapping["signatures"].(map[string]interface{})["hs9"] = map[string]string{"ed25519:x": "AAAA"}
	case "badsigs":
		mapping["signatures"] = Pick(r, []interface{}{5, map[string]interface{}{"hs5": 5}, map[string]interface{}{"hs5": map[string]interface{}{"k": 5}}})
	}
	switch mcls {
	case "absent":
	case "null":
		content["mxid_mapping"] = nil
	default:
		content["mxid_mapping"] = mapping
	}
	switch pickDev(r, p, "none", "local", "remote", "invalid") {
	case "local":
		content["join_authorised_via_users_server"] = "@alice:hs1"
	case "remote":
		content["join_authorised_via_users_server"] = "@alice:hs2"
	case "invalid":
		content["join_authorised_via_users_server"] = "alice"
	}
	if rare(5) {
		content["displayname"] = 5
	}
	if rare(6) {
		// a member name under another spelling only (no reader sees the member), or next to the exact name
		k := Pick(r, []string{"membership", "mxid_mapping", "join_authorised_via_users_server"})
		v, had := content[k]
		if had && r.Bool() {
			delete(content, k)
		}
		if !had {
			v = map[string]interface{}{"membership": "join", "mxid_mapping": mapping, "join_authorised_via_users_server": "@alice:hs2"}[k]
		}
		content[r.otherSpelling(k)] = v
		o.Count("sendjoin-pseudo.member-name-variant." + k)
	}
	cj, _ := json.Marshal(content)
	evRoom := pickDev(r, p, "!room:hs1", "!other:hs1")
	proto := gmsl.ProtoEvent{SenderID: sender, RoomID: evRoom, Type: typ, StateKey: sk,
		PrevEvents: []string{"$p"}, AuthEvents: []string{}, Depth: 5, Content: cj}
	selfCls := pickDev(r, p, "ok", "wrongkey", "unsigned", "corrupt")
	signKey := joinerKey
	if selfCls == "wrongkey" {
		signKey = hsKey("p-other")
	}
	cls, evArg, id, selfok, senderQ, typArg := "x", "-", "$none", "0", "none", "-"
	forge := fix.forge
	if forge == "" && rare(6) {
		forge = Pick(r, hsForgeClasses)
	}
	built, err := verImpl.NewEventBuilderFromProtoEvent(&proto).Build(piTime, spec.ServerName(sender), "ed25519:1", signKey)
	if err == nil && !rare(4) {
		raw := built.JSON()
		var m map[string]json.RawMessage
		_ = json.Unmarshal(raw, &m)
		switch selfCls {
		case "unsigned":
			delete(m, "signatures")
			raw, _ = json.Marshal(m)
		case "corrupt":
			m["signatures"], _ = json.Marshal(map[string]map[string]string{sender: {"ed25519:1": "c2lnbmF0dXJlc2lnbmF0dXJlc2lnbmF0dXJlc2lnbmF0dXJlc2lnbmF0dXJlc2lnbmF0dXJlc2lnbmF0dXJlc2lnbmF0dQ"}})
			raw, _ = json.Marshal(m)
		}
		if back, err := verImpl.NewEventFromUntrustedJSON(raw); err == nil {
			// a planted entry in the slot the local signature goes to
			if forge != "" {
				if f := hsForge(ver, &Ev{PDU: back, ID: back.EventID(), JSON: back.JSON()}, forge, "hs1"); f != nil {
					back = f.PDU
					o.Count("sendjoin_pseudo.planted-local-sig." + forge)
				} else {
					o.Count("sendjoin_pseudo.planted-local-sig.gen-failed")
				}
			}
			cls, id, typArg = "o", back.EventID(), hx([]byte(typ))
			evArg = hx([]byte(id)) + ":" + hx(back.JSON())
			if red, err := verImpl.RedactEventJSON(back.JSON()); err == nil && selfOK(string(back.SenderID()), red) {
				selfok = "1"
			}
			if u, err := piQuerier(spec.RoomID{}, back.SenderID()); err == nil {
				senderQ = "d:" + string(u.Domain())
			}
		}
	}
	if rare(4) {
		senderQ = "err"
	}
	// the querier has no user for this key and reports no error (a key the local server has no mapping for)
	if rare(4) || fix.senderQ == "nil" {
		senderQ = "nil"
		o.Count("sendjoin_pseudo.sender-querier-nil")
	}
	reqID := pickDev(r, p, id, "$different")
	origin := pickDev(r, p, "hs5", "hs2")
	verify := pickDev(r, p, "good", "bad", "err")
	store := pickDev(r, max(p, 92), "ok", "err")
	pcur := 75
	if fix.happy {
		pcur = 100
	}
	cur := pickDev(r, pcur, "m:leave", "m:join", "m:ban", "m:", "m:invite", "err")
	res := o.Do("sendjoin_pseudo", ver, cls, evArg, typArg, hx([]byte("!room:hs1")), hx([]byte(reqID)), origin, "hs1", senderQ, verify, store, selfok, cur)
	o.Count("sendjoin_pseudo." + strings.SplitN(res, ":sig", 2)[0])
	if typ != spec.MRoomMember && cls != "x" {
		o.Count("sendjoin_pseudo.type-not-member." + strings.SplitN(res, ":sig", 2)[0])
	}
	if i < 2 || (i == 1000 && fix.typ == "t:x.custom") {
		o.Sample("sendjoin_pseudo type=" + typ + " planted=" + forge + " mapping=" + mcls + " self=" + selfCls + " sk=" + skMode + " -> " + res)
	}
}

// ---------------------------------------------------------------- PerformJoin, room version org.matrix.msc4014 (round 5)

// identities of the pseudo-ID join scenarios: key name -> user ID (the joining user is p-joiner, @newcomer:hs5)
var pjKeyUsers = map[string]string{"p-creator": "@creator:hs1", "p-alice": "@alice:hs2", "p-mallory": "@mallory:hs3", "p-joiner": hsJoiner}

func pjServerKey(server string) ed25519.PrivateKey { return hsKey("server-key-" + server) }

func pjKeyName(sid spec.SenderID) string {
	for k := range pjKeyUsers {
		if piSID(hsKey(k)) == string(sid) {
			return k
		}
	}
	return "?" + string(sid)
}

// pjKeyDB: every server has its own key
type pjKeyDB struct{}

func (pjKeyDB) FetcherName() string { return "pjKeyDB" }
func (pjKeyDB) FetchKeys(ctx context.Context, requests map[gmsl.PublicKeyLookupRequest]spec.Timestamp) (map[gmsl.PublicKeyLookupRequest]gmsl.PublicKeyLookupResult, error) {
	res := map[gmsl.PublicKeyLookupRequest]gmsl.PublicKeyLookupResult{}
	for req := range requests {
		res[req] = gmsl.PublicKeyLookupResult{
			VerifyKey:    gmsl.VerifyKey{Key: spec.Base64Bytes(pjServerKey(string(req.ServerName)).Public().(ed25519.PublicKey))},
			ValidUntilTS: spec.Timestamp(4102444800000),
			ExpiredTS:    gmsl.PublicKeyNotExpired,
		}
	}
	return res, nil
}
func (pjKeyDB) StoreKeys(ctx context.Context, results map[gmsl.PublicKeyLookupRequest]gmsl.PublicKeyLookupResult) error {
	return nil
}

// pjMember: one m.room.member event of the send_join response, written
//
//	<sender key>/<mapping key | ->/<mapping user>/<mapping signatures>/<key the event is signed with>/<membership>
//
// sender key: the event's sender (and state key) is the sender ID of this key.  mapping key "-": no mxid_mapping in the
// content; else content.mxid_mapping = {user_room_key: sender ID of that key, user_id: mapping user}, signed per
// `mapping signatures`: ok (the user's server, validly) | none | other (hs9 validly, not the user's server) | bad (an entry of
// the user's server that does not verify) | extrabad (the user's server validly plus an entry of hs9 that does not verify).
// The event itself is signed under the sender's name with the given key (valid iff it is the sender key).
type pjMember struct{ sender, mapKey, mapUser, mapSig, evKey, membership string }

func pjParseMembers(s string) []pjMember {
	var out []pjMember
	for _, d := range splitList(s, ",") {
		f := strings.Split(d, "/")
		if len(f) == 6 {
			out = append(out, pjMember{f[0], f[1], f[2], f[3], f[4], f[5]})
		}
	}
	return out
}

func pjMapping(m pjMember) *gmsl.MXIDMapping {
	if m.mapKey == "-" {
		return nil
	}
	mp := &gmsl.MXIDMapping{UserRoomKey: spec.SenderID(piSID(hsKey(m.mapKey))), UserID: m.mapUser}
	server := spec.ServerName(domainOf(m.mapUser))
	sign := func(name spec.ServerName) spec.Base64Bytes {
		c := *mp
		_ = c.Sign(name, "ed25519:1", pjServerKey(string(name)))
		return c.Signatures[name]["ed25519:1"]
	}
	switch m.mapSig {
	case "ok":
		mp.Signatures = map[spec.ServerName]map[gmsl.KeyID]spec.Base64Bytes{server: {"ed25519:1": sign(server)}}
	case "other":
		mp.Signatures = map[spec.ServerName]map[gmsl.KeyID]spec.Base64Bytes{"hs9": {"ed25519:1": sign("hs9")}}
	case "bad":
		mp.Signatures = map[spec.ServerName]map[gmsl.KeyID]spec.Base64Bytes{server: {"ed25519:1": make([]byte, 64)}}
	case "extrabad":
		mp.Signatures = map[spec.ServerName]map[gmsl.KeyID]spec.Base64Bytes{server: {"ed25519:1": sign(server)}, "hs9": {"ed25519:1": make([]byte, 64)}}
	}
	return mp
}

func pjBuild(typ, senderKey string, stateKey *string, content interface{}, prev, auth []string, roomID, evKey string) gmsl.PDU {
	verImpl := gmsl.MustGetRoomVersion(piPseudoVer)
	cj, _ := json.Marshal(content)
	sid := piSID(hsKey(senderKey))
	proto := gmsl.ProtoEvent{SenderID: sid, RoomID: roomID, Type: typ, StateKey: stateKey, PrevEvents: prev, AuthEvents: auth, Depth: int64(len(prev) + len(auth) + 1), Content: cj}
	ev, err := verImpl.NewEventBuilderFromProtoEvent(&proto).Build(piTime, spec.ServerName(sid), "ed25519:1", hsKey(evKey))
	if err != nil {
		return nil
	}
	return ev
}

type pjClient struct {
	mjErr, sjErr bool
	create, jr   string
	authM, stM   []pjMember
	remote       string
	sent         gmsl.PDU
	bad          bool
}

const pjRoom = "!pseudoroom:hs1"

// pjBase: the events every scenario shares — create, the creator's join, power levels, join rules
type pjBase struct{ create, creatorJoin, pl, jr gmsl.PDU }

func (c *pjClient) member(b *pjBase, m pjMember, auth []string) gmsl.PDU {
	if m == pjCreator && b.creatorJoin != nil {
		return b.creatorJoin
	}
	content := map[string]interface{}{"membership": m.membership}
	if mp := pjMapping(m); mp != nil {
		content["mxid_mapping"] = mp
	}
	return pjBuild(spec.MRoomMember, m.sender, sp(piSID(hsKey(m.sender))), content, []string{b.create.EventID()}, auth, pjRoom, m.evKey)
}

func (c *pjClient) base() *pjBase {
	rv := gmsl.RoomVersion(piPseudoVer)
	if c.create == "badver" {
		rv = "99"
	}
	creatorSID := piSID(hsKey("p-creator"))
	b := &pjBase{}
	b.create = pjBuild(spec.MRoomCreate, "p-creator", sp(""), gmsl.CreateContent{Creator: creatorSID, RoomVersion: &rv}, []string{}, []string{}, pjRoom, "p-creator")
	if b.create == nil {
		return nil
	}
	b.creatorJoin = c.member(b, pjCreator, []string{b.create.EventID()})
	if b.creatorJoin == nil {
		return nil
	}
	b.pl = pjBuild(spec.MRoomPowerLevels, "p-creator", sp(""), map[string]interface{}{"users": map[string]interface{}{creatorSID: 100}, "users_default": 0,
		"events_default": 0, "state_default": 50, "ban": 50, "kick": 50, "invite": 0, "redact": 50}, []string{b.creatorJoin.EventID()},
		[]string{b.create.EventID(), b.creatorJoin.EventID()}, pjRoom, "p-creator")
	if b.pl == nil {
		return nil
	}
	b.jr = pjBuild(spec.MRoomJoinRules, "p-creator", sp(""), map[string]interface{}{"join_rule": c.jr}, []string{b.pl.EventID()},
		[]string{b.create.EventID(), b.creatorJoin.EventID(), b.pl.EventID()}, pjRoom, "p-creator")
	if b.jr == nil {
		return nil
	}
	return b
}

func (c *pjClient) MakeJoin(ctx context.Context, origin, s spec.ServerName, roomID, userID string) (gmsl.MakeJoinResponse, error) {
	if c.mjErr {
		return nil, errors.New("make_join failed (scripted)")
	}
	b := c.base()
	if b == nil {
		c.bad = true
		return nil, errors.New("construct")
	}
	sk := "placeholder"
	return &hsMakeJoinResp{ver: piPseudoVer, proto: gmsl.ProtoEvent{SenderID: "placeholder", RoomID: pjRoom, Type: spec.MRoomMember, StateKey: &sk,
		PrevEvents: []string{b.jr.EventID()}, AuthEvents: []string{b.create.EventID(), b.pl.EventID(), b.jr.EventID()}, Depth: 9,
		Content: spec.RawJSON(`{"membership":"join"}`)}}, nil
}

func (c *pjClient) SendJoin(ctx context.Context, origin, s spec.ServerName, event gmsl.PDU) (gmsl.SendJoinResponse, error) {
	c.sent = event
	if c.sjErr {
		return nil, errors.New("send_join failed (scripted)")
	}
	b := c.base()
	if b == nil {
		c.bad = true
		return nil, errors.New("construct")
	}
	memberAuth := []string{b.create.EventID(), b.pl.EventID(), b.jr.EventID()}
	auth := gmsl.EventJSONs{}
	if c.create != "missing" {
		auth = append(auth, b.create.JSON())
	}
	auth = append(auth, b.pl.JSON(), b.jr.JSON())
	for _, m := range c.authM {
		e := c.member(b, m, memberAuth)
		if e == nil {
			c.bad = true
			return nil, errors.New("construct")
		}
		auth = append(auth, e.JSON())
	}
	state := gmsl.EventJSONs{b.create.JSON(), b.pl.JSON(), b.jr.JSON()}
	for _, m := range c.stM {
		e := c.member(b, m, memberAuth)
		if e == nil {
			c.bad = true
			return nil, errors.New("construct")
		}
		state = append(state, e.JSON())
	}
	resp := &hsSendJoinResp{auth: auth, state: state}
	if c.remote == "forged" {
		// a join "by" our sender ID with content of the resident server's choosing, signed with somebody else's key
		f := pjBuild(spec.MRoomMember, "p-joiner", sp(piSID(hsKey("p-joiner"))), map[string]interface{}{"membership": "join", "displayname": "chosen by the resident server"},
			[]string{b.jr.EventID()}, memberAuth, pjRoom, "p-mallory")
		if f != nil {
			resp.event = spec.RawJSON(f.JSON())
		}
	}
	return resp, nil
}

// handshake.performjoin_pseudo mj sid sj create jr authMembers stateMembers storeFail remote
//
//	mj / sid / sj   make_join, GetOrCreateSenderID, send_join: ok | err
//	create          the create event of the auth chain: ok | missing | badver (room_version "99")
//	jr              the room's join rule (public: our join is allowed; invite: CheckSendJoinResponse refuses it)
//	authMembers, stateMembers   the m.room.member events of auth_chain / state (pjMember), in order
//	storeFail       "-" or k: the k-th call of StoreSenderIDFromPublicID fails
//	remote          the "event" of the send_join response: "-" | forged
//
// outcome: <result>|<trace>: result = err:<stage> | ok:join=…:oursig=<the returned event carries a valid signature of the
// joiner's room key>:same=…; trace = the calls of StoreSenderIDFromPublicID in order ("S:<key name of the sender ID>=<user ID>")
// and "Q" at the first call of the UserIDQuerier (the auth checks of CheckSendJoinResponse have begun).
func execPerformJoinPseudo(args []string) string {
	client := &pjClient{mjErr: args[0] == "err", sjErr: args[2] == "err", create: args[3], jr: args[4],
		authM: pjParseMembers(args[5]), stM: pjParseMembers(args[6]), remote: args[8]}
	failAt, _ := strconv.Atoi(args[7])
	var trace []string
	stores, asked := 0, false
	userID, _ := spec.NewUserID(hsJoiner, true)
	roomID, _ := spec.NewRoomID(pjRoom)
	joinerKey := hsKey("p-joiner")
	out, ferr := gmsl.PerformJoin(context.Background(), client, gmsl.PerformJoinInput{
		UserID: userID, RoomID: roomID, ServerName: "hs1", Content: map[string]interface{}{"displayname": "n"},
		PrivateKey: pjServerKey("hs5"), KeyID: "ed25519:1", KeyRing: &gmsl.KeyRing{KeyFetchers: nil, KeyDatabase: pjKeyDB{}}, EventProvider: nil,
		UserIDQuerier: func(roomID spec.RoomID, senderID spec.SenderID) (*spec.UserID, error) {
			if !asked {
				asked = true
				trace = append(trace, "Q")
			}
			if u, ok := pjKeyUsers[pjKeyName(senderID)]; ok {
				return spec.NewUserID(u, true)
			}
			return nil, errors.New("no user for this sender ID")
		},
		GetOrCreateSenderID: func(ctx context.Context, userID spec.UserID, roomID spec.RoomID, roomVersion string) (spec.SenderID, ed25519.PrivateKey, error) {
			if args[1] == "err" {
				return "", nil, errors.New("sender ID creation failed (scripted)")
			}
			return spec.SenderIDFromPseudoIDKey(joinerKey), joinerKey, nil
		},
		StoreSenderIDFromPublicID: func(ctx context.Context, senderID spec.SenderID, userID string, id spec.RoomID) error {
			stores++
			trace = append(trace, "S:"+pjKeyName(senderID)+"="+userID)
			if stores == failAt {
				return errors.New("store failed (scripted)")
			}
			return nil
		},
	})
	if client.bad {
		return "err:construct"
	}
	tr := "|" + strings.Join(trace, ",")
	if ferr != nil {
		return hsPJErrClass(ferr) + tr
	}
	rep := hsJoinReport(gmsl.MustGetRoomVersion(piPseudoVer), out.JoinEvent, client.sent, pjRoom, piSID(joinerKey), piSID(joinerKey), joinerKey)
	return "ok:" + strings.SplitN(rep, ":sigs=", 2)[0] + tr
}

func pjDesc(m pjMember) string {
	return strings.Join([]string{m.sender, m.mapKey, m.mapUser, m.mapSig, m.evKey, m.membership}, "/")
}

func pjDescs(ms []pjMember) string {
	var out []string
	for _, m := range ms {
		out = append(out, pjDesc(m))
	}
	return joinOrDash(out, ",")
}

var pjCreator = pjMember{"p-creator", "p-creator", "@creator:hs1", "ok", "p-creator", "join"}
var pjAlice = pjMember{"p-alice", "p-alice", "@alice:hs2", "ok", "p-alice", "join"}

// pjFaultyMembers: member events whose mxid_mapping must NOT be stored under the event's sender — and two that must
var pjFaultyMembers = map[string]pjMember{
	// sender = alice's key, signed with mallory's key, carrying MALLORY's own valid mapping
	"foreign-mapping": {"p-alice", "p-mallory", "@mallory:hs3", "ok", "p-mallory", "join"},
	// the same, properly signed with alice's key (alice vouching for nothing: the mapping is still not about her key)
	"foreign-mapping-selfsigned":  {"p-alice", "p-mallory", "@mallory:hs3", "ok", "p-alice", "join"},
	"unsigned-mapping":            {"p-alice", "p-alice", "@alice:hs2", "none", "p-alice", "join"},
	"mapping-of-other-server":     {"p-alice", "p-alice", "@alice:hs2", "other", "p-alice", "join"},
	"mapping-bad-signature":       {"p-alice", "p-alice", "@alice:hs2", "bad", "p-alice", "join"},
	"mapping-extra-bad-signature": {"p-alice", "p-alice", "@alice:hs2", "extrabad", "p-alice", "join"},
	// a valid mapping for the sender in an event that is NOT validly signed by the sender's key: what is stored is still true
	"event-signed-by-other-key": {"p-alice", "p-alice", "@alice:hs2", "ok", "p-mallory", "join"},
	"good":                      pjAlice,
	"no-mapping-join":           {"p-alice", "-", "-", "none", "p-alice", "join"},
	"no-mapping-leave":          {"p-alice", "-", "-", "none", "p-alice", "leave"},
	"mallory-good":              {"p-mallory", "p-mallory", "@mallory:hs3", "ok", "p-mallory", "join"},
}

var pjFaultNames = []string{"foreign-mapping", "foreign-mapping-selfsigned", "unsigned-mapping", "mapping-of-other-server", "mapping-bad-signature",
	"mapping-extra-bad-signature", "event-signed-by-other-key", "good", "no-mapping-join", "no-mapping-leave", "mallory-good"}

func genPerformJoinPseudo(o *Out, tier string, r *Rng) {
	do := func(label, mj, sid, sj, create, jr string, authM, stM []pjMember, storeFail, remote string) {
		res := o.Do("performjoin_pseudo", mj, sid, sj, create, jr, pjDescs(authM), pjDescs(stM), storeFail, remote)
		o.Count("performjoin_pseudo." + strings.SplitN(res, "|", 2)[0])
		if label != "" {
			o.Count("performjoin_pseudo." + label + "." + strings.SplitN(res, "|", 2)[0])
			if label == "foreign-mapping" || label == "good" {
				o.Sample("performjoin_pseudo state member " + label + " -> " + res)
			}
		}
	}
	base := []pjMember{pjCreator}
	// fixed prologue: every class of member event alone in the state, join allowed / refused
	for _, name := range pjFaultNames {
		for _, jr := range []string{"public", "invite"} {
			do(name, "ok", "ok", "ok", "ok", jr, base, []pjMember{pjCreator, pjFaultyMembers[name]}, "-", "-")
		}
	}
	for _, stage := range [][5]string{{"err", "ok", "ok", "ok", "-"}, {"ok", "err", "ok", "ok", "-"}, {"ok", "ok", "err", "ok", "-"},
		{"ok", "ok", "ok", "missing", "-"}, {"ok", "ok", "ok", "badver", "-"}, {"ok", "ok", "ok", "ok", "1"}, {"ok", "ok", "ok", "ok", "2"}, {"ok", "ok", "ok", "ok", "3"}} {
		do("stage", stage[0], stage[1], stage[2], stage[3], "public", base, []pjMember{pjCreator, pjAlice}, stage[4], "-")
	}
	do("remote-forged", "ok", "ok", "ok", "ok", "public", base, []pjMember{pjCreator, pjAlice}, "-", "forged")
	n := 40
	if tier == "thorough" {
		n = 1500
	}
	for i := 0; i < n; i++ {
		stM := []pjMember{pjCreator}
		used := map[string]bool{"p-creator": true}
		for _, name := range []string{Pick(r, pjFaultNames), Pick(r, pjFaultNames)} {
			m := pjFaultyMembers[name]
			if !used[m.sender] { // one member event per state key
				used[m.sender] = true
				stM = append(stM, m)
			}
		}
		authM := base
		if r.Chance(20) {
			authM = append([]pjMember{pjCreator}, pjFaultyMembers[Pick(r, pjFaultNames)])
		}
		do("", pickDev(r, 92, "ok", "err"), pickDev(r, 92, "ok", "err"), pickDev(r, 92, "ok", "err"), pickDev(r, 88, "ok", "missing", "badver"),
			pickDev(r, 75, "public", "invite"), authM, stM, pickDev(r, 85, "-", "1", "2", "3"), pickDev(r, 95, "-", "forged"))
	}
}
