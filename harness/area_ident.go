package main

// Area ident (C17): identifier grammars of /repo/spec, SplitID, and Go's net.ParseIP (the std-lib
// function ParseAndValidateServerName relies on; the Lean side carries a model of it).

import (
	"net"
	"strings"

	gmsl "github.com/matrix-org/gomatrixserverlib"
	"github.com/matrix-org/gomatrixserverlib/spec"
)

func init() { areas["ident"] = Area{Gen: genIdent, Exec: execIdent} }

// roomDomain returns the domain of a room ID, or ok=false for a domainless one (Domain() panics there;
// there is no public accessor for the flag).
func roomDomain(r *spec.RoomID) (d string, ok bool) {
	defer func() {
		if e := recover(); e != nil {
			d, ok = "", false
		}
	}()
	return string(r.Domain()), true
}

func execIdent(op string, args []string) string {
	switch op {
	case "servername":
		s := string(unhx(args[0]))
		host, port, ok := spec.ParseAndValidateServerName(spec.ServerName(s))
		if !ok {
			return "err"
		}
		return "ok:" + hx([]byte(host)) + ":" + istr(port)
	case "userid":
		s := string(unhx(args[1]))
		u, err := spec.NewUserID(s, args[0] == "1")
		if err != nil {
			return "err"
		}
		if u.String() != s {
			return "harness:raw-differs"
		}
		return "ok:" + hx([]byte(u.Local())) + ":" + hx([]byte(u.Domain()))
	case "roomid":
		s := string(unhx(args[0]))
		r, err := spec.NewRoomID(s)
		if err != nil {
			return "err"
		}
		if r.String() != s {
			return "harness:raw-differs"
		}
		if d, ok := roomDomain(r); ok {
			return "ok:" + hx([]byte(r.OpaqueID())) + ":" + hx([]byte(d))
		}
		return "ok:" + hx([]byte(r.OpaqueID())) + ":~"
	case "splitid":
		sg := unhx(args[0])
		local, domain, err := gmsl.SplitID(sg[0], string(unhx(args[1])))
		if err != nil {
			return "err"
		}
		return "ok:" + hx([]byte(local)) + ":" + hx([]byte(domain))
	case "parseip":
		ip := net.ParseIP(string(unhx(args[0])))
		if ip == nil {
			return "err"
		}
		return "ok:" + hx(ip.To16())
	case "isip":
		if net.ParseIP(string(unhx(args[0]))) == nil {
			return "err"
		}
		return "ip"
	}
	return "bad-op"
}

func genIdent(o *Out, tier string, r *Rng) {
	thorough := tier == "thorough"
	sn := func(s string) {
		res := o.Do("servername", hx([]byte(s)))
		if res == "err" {
			o.Count("servername.rejected")
		} else {
			o.Count("servername.accepted")
		}
	}
	ip := func(s string) {
		res := o.Do("parseip", hx([]byte(s)))
		o.Do("isip", hx([]byte(s)))
		if res == "err" {
			o.Count("parseip.rejected")
		} else {
			o.Count("parseip.accepted")
		}
	}
	uid := func(s string) {
		for _, h := range []string{"0", "1"} {
			res := o.Do("userid", h, hx([]byte(s)))
			if res == "err" {
				o.Count("userid" + h + ".rejected")
			} else {
				o.Count("userid" + h + ".accepted")
			}
		}
	}
	rid := func(s string) {
		res := o.Do("roomid", hx([]byte(s)))
		switch {
		case res == "err":
			o.Count("roomid.rejected")
		case strings.HasSuffix(res, ":~"):
			o.Count("roomid.accepted.domainless")
		default:
			o.Count("roomid.accepted")
		}
	}

	// 1. pools: every host x a few ports
	for _, h := range dnsHostPool {
		sn(h)
		ip(h)
	}
	for _, h := range ipv4Pool {
		sn(h)
		sn("[" + h + "]")
		ip(h)
	}
	for _, h := range append(append([]string{}, ipv6Pool...), badIPv6Pool...) {
		sn(h)
		sn("[" + h + "]")
		sn("[" + h + "]:8448")
		sn(h + ":8448")
		ip(h)
	}
	for _, p := range portPool {
		for _, h := range []string{"example.org", "1.2.3.4", "[::1]", "::1", "[::1", "", "é.org", "::ffff:1.2.3.4"} {
			sn(h + ":" + p)
		}
	}
	o.Sample("servername " + validServerNames[1])

	// 2. every single-character mutation of valid examples
	muts := 0
	for _, v := range validServerNames {
		for _, m := range mutations(v, mutAlphabet) {
			if thorough || r.Chance(8) {
				sn(m)
				muts++
			}
		}
	}
	for _, v := range ipv6Pool {
		for _, m := range mutations(v, mutAlphabet) {
			if thorough || r.Chance(6) {
				ip(m)
				if thorough || r.Chance(30) {
					sn("[" + m + "]")
				}
				muts++
			}
		}
	}
	for _, v := range ipv4Pool {
		for _, m := range mutations(v, mutAlphabet) {
			if thorough || r.Chance(10) {
				ip(m)
				muts++
			}
		}
	}
	o.Stats["mutations"] = muts

	// 3. bounded-exhaustive strings over a small alphabet
	ipAlpha := []byte("019af:.")
	snAlpha := []byte("019af:.[]-")
	ipLen, snLen := 4, 3
	if thorough {
		ipLen, snLen = 7, 5
	}
	enumerate(ipAlpha, ipLen, func(s string) { ip(s) })
	enumerate(snAlpha, snLen, func(s string) { sn(s) })
	// bracketed: the same enumeration inside [ ] (server-name path through net.ParseIP)
	enumerate(ipAlpha, ipLen-1, func(s string) { sn("[" + s + "]") })
	o.Stats["exhaustive.ip.maxlen"] = ipLen
	// the MODEL of net.ParseIP against net.ParseIP itself (16-byte result), second alphabet: a non-hex letter,
	// and a third one with an upper-case digit and the zone separator
	ip2Len, ip3Len := 5, 4
	if thorough {
		ip2Len, ip3Len = 8, 6
	}
	enumerate([]byte("01f:.g"), ip2Len, func(s string) {
		if o.Do("parseip", hx([]byte(s))) == "err" {
			o.Count("parseip.rejected")
		} else {
			o.Count("parseip.accepted")
		}
	})
	enumerate([]byte("1F:.%"), ip3Len, func(s string) { ip(s) })
	o.Stats["exhaustive.parseip.maxlen(01f:.g)"] = ip2Len
	// random long literals: 5-9 groups, optional ellipsis anywhere, optional dotted-quad tail, then at most one edit
	nl := 600
	if thorough {
		nl = 40000
	}
	for i := 0; i < nl; i++ {
		l := r.longIPv6()
		ip(l)
		if r.Chance(20) {
			sn("[" + l + "]")
		}
	}
	o.Stats["exhaustive.servername.maxlen"] = snLen

	// 4. random structured server names, user IDs, room IDs
	n := 800
	if thorough {
		n = 30000
	}
	for i := 0; i < n; i++ {
		s := r.genServerName()
		sn(s)
		if r.Chance(30) {
			ip(r.randIPish())
		}
		// user IDs
		lp := Pick(r, localPool)
		if r.Chance(30) {
			k := 1 + r.Intn(6)
			var sb strings.Builder
			for j := 0; j < k; j++ {
				sb.WriteByte("0123456789abcdefghijklmnopqrstuvwxyz_-=./"[r.Intn(41)])
			}
			lp = sb.String()
		}
		id := "@" + lp + ":" + s
		switch r.Intn(14) {
		case 0:
			id = lp + ":" + s // no sigil
		case 1:
			id = "@" + lp + s // maybe no colon
		case 2:
			id = "!" + lp + ":" + s
		case 3:
			id = "@" + ":" + s // empty localpart
		case 4:
			id = "@" + lp + ":" // empty domain
		}
		uid(id)
		// room IDs
		op := Pick(r, opaquePool)
		rm := "!" + op + ":" + s
		switch r.Intn(14) {
		case 0:
			rm = op + ":" + s
		case 1:
			rm = "!" + op + s
		case 2:
			rm = "#" + op + ":" + s
		case 3:
			rm = "!:" + s
		case 4:
			rm = "!" + op + ":"
		}
		rid(rm)
		if i < 3 {
			o.Sample("userid " + id)
			o.Sample("roomid " + rm)
		}
	}

	// 5. boundary lengths of user / room IDs (bytes): 3,4,5 and 254,255,256,257, ASCII and multi-byte
	for _, total := range []int{1, 2, 3, 4, 5, 43, 44, 45, 254, 255, 256, 257, 300, 1000} {
		for _, dom := range []string{"b", "example.org", "example.org:8448", "[::1]:1"} {
			for _, fill := range []string{"a", "é", "A"} {
				k := total - 2 - len(dom)
				if k < 0 {
					continue
				}
				lp := strings.Repeat(fill, k/len(fill)) + strings.Repeat("a", k%len(fill))
				uid("@" + lp + ":" + dom)
				rid("!" + lp + ":" + dom)
			}
		}
		// long domain, short localpart
		if total > 8 {
			d := padTo("a.", total-3, 'x')
			uid("@a:" + d)
			rid("!a:" + d)
			sn(d)
		}
	}

	// 6. domainless room IDs: 43 URL-safe base64 characters
	b64u := "ABCDEFGHIJKLMNOPQRSTUVWXYZabcdefghijklmnopqrstuvwxyz0123456789-_"
	for i := 0; i < 40 || (thorough && i < 3000); i++ {
		k := 43
		switch r.Intn(8) {
		case 0:
			k = 42
		case 1:
			k = 44
		case 2:
			k = r.Intn(60)
		}
		var sb strings.Builder
		for j := 0; j < k; j++ {
			sb.WriteByte(b64u[r.Intn(64)])
		}
		s := sb.String()
		if r.Chance(25) && len(s) > 0 {
			p := r.Intn(len(s))
			s = s[:p] + string([]byte{Pick(r, []byte{'+', '/', '=', ':', '.', ' ', '!', 0xc3, '~'})}) + s[p+1:]
		}
		rid("!" + s)
		if r.Chance(10) {
			rid("!" + s + ":example.org")
			uid("@" + s)
		}
	}
	for _, m := range mutations("!"+b64u[:43], []byte{'+', '/', '=', ':', '-', '_', 'a', '!', 0x80}) {
		if thorough || r.Chance(10) {
			rid(m)
		}
	}

	// 7. SplitID
	for i := 0; i < n/2; i++ {
		sig := Pick(r, []byte{'@', '!', '$', '#', '+'})
		body := Pick(r, localPool) + ":" + r.genServerName()
		var id string
		switch r.Intn(8) {
		case 0:
			id = ""
		case 1:
			id = string([]byte{sig})
		case 2:
			id = string([]byte{sig}) + Pick(r, localPool)
		case 3:
			id = body
		case 4:
			id = string([]byte{sig}) + ":" + body
		case 5:
			id = string([]byte{Pick(r, []byte{'@', '!', '$'})}) + body
		default:
			id = string([]byte{sig}) + body
		}
		res := o.Do("splitid", hx([]byte{sig}), hx([]byte(id)))
		if res == "err" {
			o.Count("splitid.rejected")
		} else {
			o.Count("splitid.accepted")
		}
	}
}
