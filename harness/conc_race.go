package main

// Race-detector runs (C19; supporting evidence, not proof).  The ops `conc.race_*` run N unscripted
// stress iterations of the real code in a second build of this harness made with
// `go build -race -tags verif` and report `clean` or `race-detected`.  In the ordinary build the op
// builds that binary (from the harness sources next to the executable) and runs the op in it.

import (
	"bytes"
	"context"
	"crypto/tls"
	"encoding/json"
	"fmt"
	"io"
	"log"
	"net"
	"net/http"
	"net/http/httptest"
	"os"
	"os/exec"
	"path/filepath"
	"strconv"
	"strings"
	"sync"
	"sync/atomic"
	"time"

	gmsl "github.com/matrix-org/gomatrixserverlib"
	"github.com/matrix-org/gomatrixserverlib/fclient"
	"github.com/matrix-org/gomatrixserverlib/spec"
)

var (
	raceBuildOnce sync.Once
	raceBin       string
	raceBuildErr  string
)

func buildRaceBinary() {
	self, err := os.Executable()
	if err != nil {
		raceBuildErr = "executable"
		return
	}
	dir := filepath.Dir(self)
	src := filepath.Join(dir, "harness_src")
	if _, err := os.Stat(filepath.Join(src, "go.mod")); err != nil {
		raceBuildErr = "no-harness-source"
		return
	}
	out := filepath.Join(dir, "vharness_race")
	cmd := exec.Command("go", "build", "-race", "-tags", "verif", "-o", out, ".")
	cmd.Dir = src
	cmd.Env = append(os.Environ(), "GOFLAGS=-mod=mod", "GOPROXY=off", "GOSUMDB=off", "GOTOOLCHAIN=local", "CGO_ENABLED=1")
	if b, err := cmd.CombinedOutput(); err != nil {
		raceBuildErr = "go-build-race:" + oneLine(string(b))
		return
	}
	raceBin = out
}

func runRaceOp(op string, args []string) string {
	if raceEnabled {
		n := 200
		if len(args) > 0 {
			if v, err := strconv.Atoi(args[0]); err == nil {
				n = v
			}
		}
		return raceStress(op, n)
	}
	raceBuildOnce.Do(buildRaceBinary)
	if raceBin == "" {
		return "harness-error:" + raceBuildErr
	}
	ctx, cancel := context.WithTimeout(context.Background(), 120*time.Second)
	defer cancel()
	cmd := exec.CommandContext(ctx, raceBin, "exec")
	cmd.Stdin = strings.NewReader("conc." + op + "\t" + strings.Join(args, "\t") + "\n")
	cmd.Env = append(os.Environ(), "GORACE=halt_on_error=1 exitcode=66")
	var stdout, stderr bytes.Buffer
	cmd.Stdout, cmd.Stderr = &stdout, &stderr
	err := cmd.Run()
	if strings.Contains(stderr.String(), "DATA RACE") {
		return "race-detected"
	}
	if err != nil {
		return "harness-error:race-child:" + oneLine(err.Error()+" "+stderr.String())
	}
	return strings.TrimSuffix(stdout.String(), "\n")
}

// immediate (unscripted) resolver / key client ------------------------------------------------------

type stressResolver struct{ calls atomic.Int64 }

func (r *stressResolver) LookupIPAddr(ctx context.Context, name string) ([]net.IPAddr, error) {
	c := r.calls.Add(1)
	if c%7 == 0 {
		return nil, errScripted
	}
	return dnsAnswer(name), nil
}

type stressKeyClient struct{ srvs []fetchSrv }

func (c *stressKeyClient) idx(s spec.ServerName) int {
	i, err := strconv.Atoi(strings.TrimPrefix(string(s), "s"))
	if err != nil || i < 0 || i >= len(c.srvs) {
		return -1
	}
	return i
}
func (c *stressKeyClient) GetServerKeys(ctx context.Context, s spec.ServerName) (gmsl.ServerKeys, error) {
	i := c.idx(s)
	if i < 0 {
		return gmsl.ServerKeys{}, errScripted
	}
	return concDirect(i, c.srvs[i].direct)
}
func (c *stressKeyClient) LookupServerKeys(ctx context.Context, s spec.ServerName, _ map[gmsl.PublicKeyLookupRequest]spec.Timestamp) ([]gmsl.ServerKeys, error) {
	i := c.idx(s)
	if i < 0 {
		return nil, errScripted
	}
	return concNotary(i, c.srvs[i].notary)
}

// memKeyDB is a KeyDatabase that is thread-safe on its own (the property is about the library, not about the database).
type memKeyDB struct {
	mu sync.Mutex
	m  map[gmsl.PublicKeyLookupRequest]gmsl.PublicKeyLookupResult
}

func (d *memKeyDB) FetcherName() string { return "memKeyDB" }
func (d *memKeyDB) FetchKeys(ctx context.Context, reqs map[gmsl.PublicKeyLookupRequest]spec.Timestamp) (map[gmsl.PublicKeyLookupRequest]gmsl.PublicKeyLookupResult, error) {
	d.mu.Lock()
	defer d.mu.Unlock()
	out := map[gmsl.PublicKeyLookupRequest]gmsl.PublicKeyLookupResult{}
	for r := range reqs {
		if v, ok := d.m[r]; ok {
			out[r] = v
		}
	}
	return out, nil
}
func (d *memKeyDB) StoreKeys(ctx context.Context, res map[gmsl.PublicKeyLookupRequest]gmsl.PublicKeyLookupResult) error {
	d.mu.Lock()
	defer d.mu.Unlock()
	for k, v := range res {
		d.m[k] = v
	}
	return nil
}

const raceEventJSON = `{"auth_events":[],"content":{"body":"x","msgtype":"m.text"},"depth":7,"hashes":{"sha256":"aaaaaaaaaaaaaaaaaaaaaaaaaaaaaaaaaaaaaaaaaaa"},"origin_server_ts":1700000000000,"prev_events":["$aaaaaaaaaaaaaaaaaaaaaaaaaaaaaaaaaaaaaaaaaaa"],"room_id":"!r:s0","sender":"@u:s0","signatures":{},"type":"m.room.message","unsigned":{"age":1}}`

func raceStress(op string, n int) string {
	switch op {
	case "race_dns":
		res := &stressResolver{}
		for _, cfg := range []struct {
			size int
			dur  time.Duration
		}{{1, time.Hour}, {2, time.Hour}, {2, 50 * time.Microsecond}, {3, -time.Second}} {
			cache := fclient.VerifNewDNSCache(cfg.size, cfg.dur, res)
			var wg sync.WaitGroup
			var bad atomic.Int64
			names := []string{"a", "b", "c", "d"}
			for g := 0; g < 8; g++ {
				wg.Add(1)
				go func(g int) {
					defer wg.Done()
					for i := 0; i < n; i++ {
						name := names[(g+i*(g+1))%len(names)]
						switch (g + i) % 9 {
						case 0:
							cache.VerifDelete(name)
						case 1:
							if len(cache.VerifEntries()) > cfg.size {
								bad.Add(1)
							}
						default:
							addrs, _, _, ok := cache.VerifLookup(context.Background(), name)
							if ok && showIPs(addrs) != showIPs(dnsAnswer(name)) {
								bad.Add(1)
							}
						}
					}
				}(g)
			}
			wg.Wait()
			if bad.Load() != 0 {
				return "wrong-result"
			}
		}
		return "clean"
	case "race_fetch":
		var srvs []fetchSrv
		codesD := []string{"G", "M", "E", "U", "W", "G", "G", "L"}
		codesN := []string{"G", "E", "M", "N"}
		for i := 0; i < 70; i++ {
			nt := codesN[i%len(codesN)]
			srvs = append(srvs, fetchSrv{[]string{"ed25519:a"}, codesD[i%len(codesD)], nt})
		}
		cl := &stressKeyClient{srvs}
		d := &gmsl.DirectKeyFetcher{Client: cl, LocalPublicKey: spec.Base64Bytes(concLocalKey.pub),
			IsLocalServerName: func(s spec.ServerName) bool { i := cl.idx(s); return i >= 0 && srvs[i].direct == "L" }}
		ring := gmsl.KeyRing{KeyFetchers: []gmsl.KeyFetcher{d}, KeyDatabase: &memKeyDB{m: map[gmsl.PublicKeyLookupRequest]gmsl.PublicKeyLookupResult{}}}
		// messages signed by the servers
		msgs := make([][]byte, len(srvs))
		for i := range srvs {
			m, err := gmsl.SignJSON("s"+strconv.Itoa(i), "ed25519:a", concKeyOf(i, 0).priv, []byte(`{"x":1}`))
			if err != nil {
				return "harness-error:sign"
			}
			msgs[i] = m
		}
		iters := n / 20
		if iters < 2 {
			iters = 2
		}
		var wg sync.WaitGroup
		var bad atomic.Int64
		var first string
		var firstMu sync.Mutex
		for g := 0; g < 6; g++ {
			wg.Add(1)
			go func(g int) {
				defer wg.Done()
				for it := 0; it < iters; it++ {
					if g%2 == 0 {
						reqs := map[gmsl.PublicKeyLookupRequest]spec.Timestamp{}
						for i := g; i < len(srvs); i += 1 + it%2 {
							reqs[gmsl.PublicKeyLookupRequest{ServerName: spec.ServerName("s" + strconv.Itoa(i)), KeyID: "ed25519:a"}] = 1
						}
						res, err := d.FetchKeys(context.Background(), reqs)
						if err != nil {
							bad.Add(1)
							continue
						}
						if it%2 == 1 && g == 0 {
							s := showFetchResults(res)
							firstMu.Lock()
							if first == "" {
								first = s
							} else if first != s {
								bad.Add(1)
							}
							firstMu.Unlock()
						}
					} else {
						var vr []gmsl.VerifyJSONRequest
						for i := g; i < len(srvs); i += 3 {
							vr = append(vr, gmsl.VerifyJSONRequest{ServerName: spec.ServerName("s" + strconv.Itoa(i)), AtTS: 1, Message: msgs[i],
								ValidityCheckingFunc: gmsl.StrictValiditySignatureCheck})
						}
						out, err := ring.VerifyJSONs(context.Background(), vr)
						if err != nil || len(out) != len(vr) {
							bad.Add(1)
						}
					}
				}
			}(g)
		}
		wg.Wait()
		if bad.Load() != 0 {
			return "wrong-result"
		}
		return "clean"
	case "race_transport":
		return raceTransport(n)
	case "race_eventid", "race_event_readonly":
		ver, err := gmsl.GetRoomVersion(gmsl.RoomVersionV10)
		if err != nil {
			return "harness-error:version"
		}
		iters := n
		for it := 0; it < iters; it++ {
			ev, err := ver.NewEventFromTrustedJSON([]byte(raceEventJSON), false)
			if err != nil {
				return "harness-error:event:" + oneLine(err.Error())
			}
			if op == "race_event_readonly" {
				_ = ev.EventID() // one sequential call before the event is shared
			}
			// race_eventid: the FIRST calls of EventID() happen concurrently (regression guard for /repo 69aec98:
			// the ID is computed at construction, the accessor must not write)
			var wg sync.WaitGroup
			ids := make([]string, 4)
			for g := 0; g < 4; g++ {
				wg.Add(1)
				go func(g int) {
					defer wg.Done()
					ids[g] = ev.EventID()
					_ = ev.Type()
					_ = ev.StateKey()
					_ = ev.Content()
					_ = ev.RoomID()
					_ = ev.SenderID()
					_ = ev.PrevEventIDs()
					_ = ev.AuthEventIDs()
					_ = ev.Depth()
					_ = ev.OriginServerTS()
					_ = ev.Redacted()
					_ = ev.Unsigned()
					_ = ev.JSON()
					_ = ev.Version()
					_ = ev.Redacts()
					_, _ = ev.ToHeaderedJSON()
				}(g)
			}
			wg.Wait()
			for g := 1; g < 4; g++ {
				if ids[g] != ids[0] {
					return "wrong-result"
				}
			}
		}
		return "clean"
	}
	return "bad-op"
}

// raceTransport: one fclient.Client (destinationTripper + DNS cache with DialContext) used by several goroutines
// against local TLS servers; DirectKeyFetcher on top of it.
func raceTransport(n int) string {
	const k = 3
	// the system resolver answers "localhost" and IP literals offline; the cache's dialer only allows loopback
	cache := fclient.NewDNSCache(1, 20*time.Millisecond, []string{"127.0.0.0/8", "::1/128"}, nil)
	client := fclient.NewClient(fclient.WithSkipVerify(true), fclient.WithDNSCache(cache), fclient.WithKeepAlives(n%2 == 0), fclient.WithTimeout(10*time.Second))
	var servers []*httptest.Server
	var names []string
	for i := 0; i < k; i++ {
		i := i
		var name string
		srv := httptest.NewUnstartedServer(http.HandlerFunc(func(w http.ResponseWriter, r *http.Request) {
			sk := concBuildResp(name, i, 1000, []concVK{{"ed25519:a", 0, true}}, nil)
			b, _ := json.Marshal(sk)
			w.Header().Set("Content-Type", "application/json")
			_, _ = w.Write(b)
		}))
		srv.TLS = &tls.Config{}
		srv.Config.ErrorLog = log.New(io.Discard, "", 0)
		srv.StartTLS()
		_, port, _ := net.SplitHostPort(srv.Listener.Addr().String())
		name = fmt.Sprintf("%s:%s", []string{"localhost", "127.0.0.1", "localhost"}[i], port)
		names = append(names, name)
		servers = append(servers, srv)
	}
	defer func() {
		for _, s := range servers {
			s.Close()
		}
	}()
	iters := n / 10
	if iters < 3 {
		iters = 3
	}
	var wg sync.WaitGroup
	var bad atomic.Int64
	for g := 0; g < 6; g++ {
		wg.Add(1)
		go func(g int) {
			defer wg.Done()
			for it := 0; it < iters; it++ {
				name := names[(g+it)%k]
				keys, err := client.GetServerKeys(context.Background(), spec.ServerName(name))
				if err != nil || string(keys.ServerName) != name {
					bad.Add(1)
					if os.Getenv("VERIF_DEBUG") != "" {
						fmt.Fprintln(os.Stderr, "race_transport:", err, keys.ServerName, name)
					}
				}
			}
		}(g)
	}
	wg.Wait()
	if bad.Load() != 0 {
		return "wrong-result"
	}
	return "clean"
}

func genConcRace(o *Out, tier string, r *Rng) {
	if tier != "thorough" {
		return
	}
	for _, op := range []string{"race_dns", "race_fetch", "race_transport", "race_event_readonly", "race_eventid"} {
		n := "300"
		o.Do(op, n)
		o.Count("race." + op)
	}
}
