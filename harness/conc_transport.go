package main

// destinationTripper's transport cache (fclient/client.go: getTransport, reaper) driven through time (C19).
//
// op line:  conc.transport  <script>  <impl trace>
//   script  moves separated by `,`:
//             g<n>   getTransport(<n>)                  n = a TLS server name, one letter
//             i<n>   the cached transport of <n> has not been used for 2 x destinationTripperLifetime (its lastUsed is
//                    moved back; the reaper only ever acts on transports idle for more than 5 minutes)
//             j<n>   … for destinationTripperLifetime minus one minute (not idle long enough on its own; idle periods add
//                    up until the next getTransport of <n>)
//             R      one pass of the reaper (what its timer does once a minute)
//   trace   per move  g<n>=<id>[names] | i<n>:<0|1>[names] | j<n>:<0|1>[names] | R[names]  joined by `|`
//           id = number of the transport in order of first appearance; names = the cached TLS server names, sorted;
//           the trace ends early with `H` when a move does not finish (every move runs under a timeout)
//
// Needs the in-package hook VerifTripper of fclient/export_verif.go.  The hook is looked up at run time (a method of
// *fclient.DNSCache), so that the harness also builds against a tree without it; then no op is generated.

import (
	"reflect"
	"sort"
	"strconv"
	"strings"
	"time"

	"github.com/matrix-org/gomatrixserverlib/fclient"
)

type verifTripper interface {
	VerifGetTransport(tlsServerName string) interface{}
	VerifReap()
	VerifIdleFor(tlsServerName string, d time.Duration) bool
	VerifTransportNames() []string
}

const transportStepTimeout = 4 * time.Second

// tripperLifetime mirrors destinationTripperLifetime (the extractor regenerates the reaper's skeleton, and
// sync_skeleton_transport pins the comparison against the constant's name)
const tripperLifetime = 5 * time.Minute

func newVerifTripper() verifTripper {
	var cache *fclient.DNSCache
	m := reflect.ValueOf(cache).MethodByName("VerifNewTripper")
	if !m.IsValid() {
		return nil
	}
	out := m.Call(nil)
	if len(out) != 1 {
		return nil
	}
	t, _ := out[0].Interface().(verifTripper)
	return t
}

func transportHookPresent() bool { return newVerifTripper() != nil }

func runTransportScript(script string) string {
	t := newVerifTripper()
	if t == nil {
		return "hook-missing"
	}
	var ids []interface{}
	idOf := func(tr interface{}) int {
		for i, x := range ids {
			if x == tr {
				return i
			}
		}
		ids = append(ids, tr)
		return len(ids) - 1
	}
	// every call into the tripper runs in its own goroutine under a timeout: a call that blocks for ever is an outcome
	timed := func(f func() string) (string, bool) {
		ch := make(chan string, 1)
		go func() { ch <- f() }()
		select {
		case s := <-ch:
			return s, true
		case <-time.After(transportStepTimeout):
			return "", false
		}
	}
	names := func() (string, bool) {
		return timed(func() string {
			ns := t.VerifTransportNames()
			sort.Strings(ns)
			return "[" + strings.Join(ns, ",") + "]"
		})
	}
	var trace []string
	for _, mv := range strings.Split(script, ",") {
		var obs string
		var ok bool
		switch {
		case mv == "R":
			obs, ok = timed(func() string { t.VerifReap(); return "R" })
		case len(mv) == 2 && mv[0] == 'g':
			var tr interface{}
			obs, ok = timed(func() string { tr = t.VerifGetTransport(mv[1:]); return "" })
			if ok {
				obs = mv + "=" + strconv.Itoa(idOf(tr))
			}
		case len(mv) == 2 && (mv[0] == 'i' || mv[0] == 'j'):
			d := 2 * tripperLifetime
			if mv[0] == 'j' {
				d = tripperLifetime - time.Minute
			}
			obs, ok = timed(func() string {
				if t.VerifIdleFor(mv[1:], d) {
					return mv + ":1"
				}
				return mv + ":0"
			})
		default:
			return "bad-op"
		}
		if !ok {
			trace = append(trace, "H")
			break
		}
		ns, ok := names()
		if !ok {
			trace = append(trace, obs, "H")
			break
		}
		trace = append(trace, obs+ns)
	}
	return strings.Join(trace, "|")
}

func emitTransport(o *Out, script string) {
	if concHangs["transport"] >= 3 {
		o.Count("transport.skipped-after-hangs")
		return
	}
	args := []string{script}
	impl := Guard(func() string { return execConc("transport", args) })
	o.Emit("transport", append(args, impl), impl)
	o.Count("transport.moves." + strconv.Itoa(len(strings.Split(script, ","))/4*4) + "+")
	if strings.Contains(script, "i") && strings.Contains(script, "R") {
		o.Count("transport.reaper-after-idle")
	}
	if strings.HasSuffix(impl, "H") {
		o.Count("transport.hang")
		concHangs["transport"]++
	}
}

func genConcTransport(o *Out, tier string, r *Rng) {
	if !transportHookPresent() {
		o.Count("transport.hook-missing(no ops)")
		return
	}
	// fixed: the reaper finds nothing to do / something to do; the cache is used afterwards
	for _, s := range []string{
		"ga,R,ga",
		"ga,ia,R,ga",
		"ga,gb,ia,R,ga,gb",
		"ga,ja,R,ga",
		"ga,ia,ga,R,ga",
		"R,ga,R",
		"ga,gb,ia,ib,R,R,gb,ga",
		"ia,R,ga",
	} {
		emitTransport(o, s)
	}
	n := 150
	if tier == "thorough" {
		n = 1500
	}
	for i := 0; i < n; i++ {
		k := 2 + r.Intn(9)
		var mv []string
		var used []string
		for j := 0; j < k; j++ {
			name := Pick(r, []string{"a", "b", "c"})
			x := r.Intn(10)
			if x >= 4 && x < 7 && len(used) > 0 && r.Chance(85) {
				name = Pick(r, used) // idle periods mostly for names that have a transport
			}
			switch {
			case x < 4:
				used = append(used, name)
				mv = append(mv, "g"+name)
			case x < 6:
				mv = append(mv, "i"+name)
			case x < 7:
				mv = append(mv, "j"+name)
			default:
				mv = append(mv, "R")
			}
		}
		emitTransport(o, strings.Join(mv, ","))
		if i < 2 {
			o.Sample("conc.transport " + strings.Join(mv, ","))
		}
	}
}
