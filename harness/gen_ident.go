package main

// Shared generator helpers for the C17 areas (ident, b64, limits, vertable).

import (
	"strings"

	"golang.org/x/crypto/ed25519"
)

// ed25519KeyFromSeed derives a fixed signing key from a 32-byte seed text (deterministic harness keys).
func ed25519KeyFromSeed(seed string) ed25519.PrivateKey {
	if len(seed) != ed25519.SeedSize {
		panic("harness: seed must be 32 bytes")
	}
	return ed25519.NewKeyFromSeed([]byte(seed))
}

// ---- pools -------------------------------------------------------------------------------------

var dnsHostPool = []string{
	"example.org", "a", "A", "a.b", "matrix.org", "localhost", "xn--bcher-kva.example", "a-b.c-d", "-", ".", "..", "a.", ".a",
	"0", "1", "255", "999", "1.2.3", "1.2.3.4.5", "256.1.1.1", "01.2.3.4", "1.2.3.04", "EXAMPLE.ORG", "a1", "1a", "0x7f.1",
	"aaaaaaaaaaaaaaaaaaaaaaaaaaaaaaaaaaaaaaaaaaaaaaaaaaaaaaaaaaaaaaaaaaaaaaaaaaaaaaaa.example.com",
}

var ipv4Pool = []string{
	"1.2.3.4", "0.0.0.0", "255.255.255.255", "127.0.0.1", "10.0.0.1", "192.168.1.254", "9.9.9.9", "100.200.100.200", "1.0.0.1",
}

// valid IPv6 text forms (RFC 4291 section 2.2), without brackets
var ipv6Pool = []string{
	"::", "::1", "1::", "1::2", "2001:db8::1", "fe80::1:2:3:4", "1:2:3:4:5:6:7:8", "1:2:3:4:5:6:7::", "::2:3:4:5:6:7:8",
	"1::3:4:5:6:7:8", "1:2:3:4:5:6::8", "ABCD:EF01:2345:6789:abcd:ef01:2345:6789", "0:0:0:0:0:0:0:0", "::ffff:1.2.3.4",
	"::1.2.3.4", "1:2:3:4:5:6:1.2.3.4", "64:ff9b::192.0.2.33", "1::1.2.3.4", "::ffff:102:304", "0000:0000:0000:0000:0000:0000:0000:0001",
	"a::f", "::a:b", "1:2::7:8", "::0.0.0.0", "::255.255.255.255", "1:2:3:4:5::1.2.3.4", "0::0", "::ffff:0:0",
}

// invalid IPv6 texts (each is one edit away from a valid one, or a classic trap)
var badIPv6Pool = []string{
	"", ":", ":::", "1:::2", "::1::", "1::2::3", "1:2:3:4:5:6:7", "1:2:3:4:5:6:7:8:9", "1:2:3:4:5:6:7:8::", "::1:2:3:4:5:6:7:8",
	"12345::", "g::", "1:2:3:4:5:6:7:", ":1:2:3:4:5:6:7", "::1.2.3", "::1.2.3.4.5", "::01.2.3.4", "::256.2.3.4", "1.2.3.4::",
	"1:2:3:4:5:6:7:1.2.3.4", "1:2:3:4:5:1.2.3.4", "::1.2.3.4:5", "fe80::1%eth0", "fe80::1%", "%", "::%", "::1 ", " ::1", "[::1]",
	"::ffff:1.2.3.4%x", "1:2:3:4:5:6:7:8%9", "::.1.2.3", "::1..2.3", "::1.2.3.", "0x1::", "::-1", "1::00000",
}

var portPool = []string{
	"0", "1", "80", "443", "8448", "65535", "65536", "65534", "99999", "100000", "00080", "000080", "0000000000000000000000080", "08448",
	"", "+1", "-1", "0x50", " 80", "80 ", "8_0", "８０", "80a", "a", "1e3", "4294967296", "18446744073709551616", "18446744073709551615", "655350",
	"065535", "0065536",
}

var localPool = []string{
	"alice", "a", "0", "_", "-", "=", ".", "/", "a.b-c_d=e/f", "0123456789", "abcdefghijklmnopqrstuvwxyz", "A", "Alice", "alice+tag", "al ice",
	"é", "\U0001F600", "a\x00b", "a\nb", "@", "a@b", "!", "#", "$", "~", "a~", "\xff", "+", "a+",
}

var opaquePool = []string{
	"abc", "a", "AbCdEfGhIjKlMnOpQr", "room id", "é", "\U0001F600", "!", "@", "#", "a!b", "\x00", "\xff\xfe", "0", "+/=",
}

// special characters used for single-character mutations
var mutAlphabet = []byte{'0', '1', '9', 'a', 'f', 'g', 'A', 'Z', ':', '.', '[', ']', '-', '_', '%', '@', '!', ' ', '+', '/', '=', 0x00, 0x7f, 0x80, 0xff}

// genHost returns a host text and whether the generator believes it to be valid.
func (r *Rng) genHost() string {
	switch r.Intn(10) {
	case 0, 1, 2:
		return Pick(r, dnsHostPool)
	case 3:
		return Pick(r, ipv4Pool)
	case 4, 5:
		return "[" + Pick(r, ipv6Pool) + "]"
	case 6:
		return "[" + Pick(r, badIPv6Pool) + "]"
	case 7:
		return Pick(r, ipv6Pool) // unbracketed
	case 8:
		return "[" + Pick(r, ipv4Pool) + "]"
	default:
		return r.randIPish()
	}
}

// randIPish builds a random IPv6/IPv4-looking text from groups and separators.
func (r *Rng) randIPish() string {
	var sb strings.Builder
	n := 1 + r.Intn(9)
	for i := 0; i < n; i++ {
		switch r.Intn(12) {
		case 0:
			sb.WriteString("::")
		case 1:
			sb.WriteString(Pick(r, ipv4Pool))
		case 2:
			sb.WriteByte('.')
		default:
			k := 1 + r.Intn(4)
			if r.Chance(5) {
				k = 5
			}
			for j := 0; j < k; j++ {
				sb.WriteByte("0123456789abcdefABCDEF"[r.Intn(22)])
			}
		}
		if i+1 < n && r.Chance(80) {
			sb.WriteByte(':')
		}
	}
	return sb.String()
}

// longIPv6 builds a long IPv6-looking literal: mostly well formed (right number of groups, at most one
// ellipsis, a dotted-quad tail in the right place), then with probability 1/2 one edit.
func (r *Rng) longIPv6() string {
	hexd := "0123456789abcdefABCDEF"
	group := func() string {
		k := 1 + r.Intn(4)
		b := make([]byte, k)
		for j := range b {
			b[j] = hexd[r.Intn(len(hexd))]
		}
		return string(b)
	}
	units := 8
	v4 := r.Chance(30)
	if v4 {
		units = 6
	}
	ell := r.Chance(60)
	n := units
	if ell {
		n = r.Intn(units) // 0..units-1 groups written, the ellipsis stands for the rest
	}
	if r.Chance(10) {
		n += 1 + r.Intn(2) // too many groups
	}
	gs := make([]string, n)
	for i := range gs {
		gs[i] = group()
	}
	var s string
	if ell {
		p := r.Intn(n + 1)
		if v4 {
			p = r.Intn(n + 1)
		}
		s = strings.Join(gs[:p], ":") + "::" + strings.Join(gs[p:], ":")
		if v4 {
			if p < n {
				s += ":"
			}
			s += Pick(r, ipv4Pool)
		}
	} else {
		s = strings.Join(gs, ":")
		if v4 {
			if n > 0 {
				s += ":"
			}
			s += Pick(r, ipv4Pool)
		}
	}
	if r.Chance(50) && len(s) > 0 {
		p := r.Intn(len(s) + 1)
		c := string([]byte{Pick(r, []byte{':', '.', '0', 'f', 'g', '%', '1', 'F', ' ', '[', ']'})})
		switch r.Intn(3) {
		case 0:
			s = s[:p] + c + s[p:]
		case 1:
			if p < len(s) {
				s = s[:p] + s[p+1:]
			}
		default:
			if p < len(s) {
				s = s[:p] + c + s[p+1:]
			}
		}
	}
	return s
}

func (r *Rng) genServerName() string {
	h := r.genHost()
	switch r.Intn(6) {
	case 0, 1, 2:
		return h
	case 3, 4:
		return h + ":" + Pick(r, portPool)
	default:
		return h + ":" + istr(r.Intn(70000))
	}
}

func istr(n int) string {
	if n == 0 {
		return "0"
	}
	neg := n < 0
	if neg {
		n = -n
	}
	var b []byte
	for n > 0 {
		b = append([]byte{byte('0' + n%10)}, b...)
		n /= 10
	}
	if neg {
		b = append([]byte{'-'}, b...)
	}
	return string(b)
}

// mutations returns every single-character deletion, and for each position a replacement and an
// insertion by each character of alpha.
func mutations(s string, alpha []byte) []string {
	var out []string
	for i := 0; i < len(s); i++ {
		out = append(out, s[:i]+s[i+1:])
		for _, c := range alpha {
			if s[i] != c {
				out = append(out, s[:i]+string([]byte{c})+s[i+1:])
			}
		}
	}
	for i := 0; i <= len(s); i++ {
		for _, c := range alpha {
			out = append(out, s[:i]+string([]byte{c})+s[i:])
		}
	}
	return out
}

// enumerate calls f on every string over alpha of length 0..maxLen (bounded-exhaustive).
func enumerate(alpha []byte, maxLen int, f func(s string)) {
	buf := make([]byte, 0, maxLen)
	var rec func(depth int)
	rec = func(depth int) {
		f(string(buf))
		if depth == maxLen {
			return
		}
		for _, c := range alpha {
			buf = append(buf, c)
			rec(depth + 1)
			buf = buf[:len(buf)-1]
		}
	}
	rec(0)
}

// padTo returns s extended with filler up to n bytes (or s if already longer).
func padTo(s string, n int, filler byte) string {
	if len(s) >= n {
		return s
	}
	return s + strings.Repeat(string([]byte{filler}), n-len(s))
}

var validServerNames = []string{
	"example.org", "example.org:8448", "a", "a:0", "a:65535", "1.2.3.4", "1.2.3.4:80", "[::1]", "[::1]:8448", "[2001:db8::1]:443",
	"[1:2:3:4:5:6:7:8]", "[::ffff:1.2.3.4]", "[1.2.3.4]", "[::]:1", "matrix.example.com:00080", "a-b.c:1",
}
