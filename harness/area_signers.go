package main

// Area `signers` (C06): VerifyEventSignatures against a scripted JSONVerifier.
//
//	verify <ver> <hex id>:<hex json> <script>   -> ok | rej
//	trace  <ver> <hex id>:<hex json> <script>   -> asked:<sorted "hexserver@ts/s<strict>/r<redacted>"> | none | -
//
// script = "<hexserver>=<0|1>,...;<default 0|1>;<verifier error 0|1>": what the verifier answers per server
// name (1 = signature valid, 0 = error: missing / corrupted / wrong key / key not valid at that time).

import (
	"bytes"
	"context"
	"encoding/json"
	"errors"
	"fmt"
	"sort"
	"strings"

	gmsl "github.com/matrix-org/gomatrixserverlib"
	"github.com/matrix-org/gomatrixserverlib/spec"
)

func init() { areas["signers"] = Area{Gen: genSigners, Exec: execSigners} }

type scriptedVerifier struct {
	table    map[string]bool
	dflt     bool
	verr     bool
	called   bool
	requests []gmsl.VerifyJSONRequest
}

func (s *scriptedVerifier) VerifyJSONs(ctx context.Context, reqs []gmsl.VerifyJSONRequest) ([]gmsl.VerifyJSONResult, error) {
	s.called = true
	s.requests = append(s.requests, reqs...)
	if s.verr {
		return nil, errors.New("scripted verifier failure")
	}
	res := make([]gmsl.VerifyJSONResult, len(reqs))
	for i, q := range reqs {
		ok, listed := s.table[string(q.ServerName)]
		if !listed {
			ok = s.dflt
		}
		if !ok {
			res[i].Error = fmt.Errorf("scripted: no valid signature from %q", q.ServerName)
		}
	}
	return res, nil
}

func parseScript(s string) *scriptedVerifier {
	parts := strings.Split(s, ";")
	v := &scriptedVerifier{table: map[string]bool{}, dflt: parts[1] == "1", verr: parts[2] == "1"}
	if parts[0] != "-" && parts[0] != "" {
		for _, e := range strings.Split(parts[0], ",") {
			kv := strings.SplitN(e, "=", 2)
			name := string(unhx(kv[0]))
			if _, dup := v.table[name]; !dup { // first entry wins, as in the driver
				v.table[name] = kv[1] == "1"
			}
		}
	}
	return v
}

func execSigners(op string, args []string) string {
	if op != "verify" && op != "trace" {
		return "bad-op"
	}
	ver := args[0]
	ev, err := parseEvArg(ver, args[1])
	if err != nil {
		return "err:construct"
	}
	sv := parseScript(args[2])
	verr := gmsl.VerifyEventSignatures(context.Background(), ev, sv, StdQuerier)
	if op == "verify" {
		return coarse(verr)
	}
	if !sv.called {
		return "none"
	}
	verImpl := gmsl.MustGetRoomVersion(gmsl.RoomVersion(ver))
	red, rerr := verImpl.RedactEventJSON(ev.JSON())
	seen := map[string]bool{}
	var out []string
	for _, q := range sv.requests {
		strict := "s1"
		// the two validity rules differ on a key that is no longer valid at the event's time
		if q.ValidityCheckingFunc == nil {
			strict = "s?"
		} else if q.ValidityCheckingFunc(spec.Timestamp(2000), spec.Timestamp(1000)) {
			strict = "s0"
		}
		r := "r0"
		if rerr == nil && bytes.Equal(q.Message, red) {
			r = "r1"
		}
		s := fmt.Sprintf("%s@%d/%s/%s", hx([]byte(q.ServerName)), uint64(q.AtTS), strict, r)
		if !seen[s] {
			seen[s] = true
			out = append(out, s)
		}
	}
	if len(out) == 0 {
		return "-"
	}
	sort.Strings(out)
	return "asked:" + strings.Join(out, ",")
}

// mkEventWithID builds an event like RoomGen.Mk but with an explicit event ID (room versions 1 and 2 carry
// the ID in the JSON; later versions get it passed to the constructor).
func mkEventWithID(r *Rng, ver, id string, fields map[string]interface{}) *Ev {
	f, v3 := verFormat(ver)
	m := map[string]interface{}{
		"room_id": "!room:hs1", "origin_server_ts": 1000 + r.Intn(5), "depth": 3,
	}
	g := &RoomGen{r: r, Ver: ver, fmtV: f, v3: v3}
	m["prev_events"] = g.refs([]string{"$prev:hs1"})
	m["auth_events"] = g.refs(nil)
	if f == 1 {
		m["event_id"] = id
	}
	for k, v := range fields {
		if v == nil {
			delete(m, k)
		} else {
			m[k] = v
		}
	}
	raw, err := json.Marshal(m)
	if err != nil {
		return nil
	}
	cj, err := gmsl.CanonicalJSON(raw)
	if err != nil {
		return nil
	}
	v := gmsl.MustGetRoomVersion(gmsl.RoomVersion(ver))
	pdu, err := v.NewEventFromTrustedJSONWithEventID(id, cj, false)
	if err != nil {
		return nil
	}
	return &Ev{PDU: pdu, ID: id, JSON: cj}
}

var signerUsers = []string{"@alice:hs1", "@bob:hs2", "@carol:hs3:8448", "@dave:example.org", "@eve:1.2.3.4", "@f:hs1", "@g:xn--bcher-kva.example:443"}
var badUsers = []string{"", "@", "alice:hs1", "@alice", "@:hs1", "@alice:", "@alice:bad domain", "!alice:hs1", "@alice:hs1:notaport", "@a:h:1:2"}
var otherServers = []string{"unrelated.org", "hs9", "hs1.evil", "HS1", "hs1:8448", "", "hs3"}

type signersCase struct {
	ver   string
	ev    *Ev
	label string
}

func genSignersEvent(r *Rng, ver string) *signersCase {
	f, _ := verFormat(ver)
	sender := Pick(r, signerUsers)
	if r.Chance(6) {
		sender = Pick(r, badUsers)
	}
	fields := map[string]interface{}{"sender": sender}
	label := "other"
	switch k := r.Intn(100); {
	case k < 70:
		label = "member"
		fields["type"] = "m.room.member"
		m := Pick(r, []string{"join", "join", "join", "invite", "invite", "invite", "leave", "ban", "knock"})
		if r.Chance(4) {
			m = Pick(r, []string{"", "JOIN", "Invite", "kick"})
		}
		label += "-" + m
		target := sender
		if m != "join" || r.Chance(15) {
			target = Pick(r, signerUsers)
			for k := 0; k < 3 && domainOf(target) == domainOf(sender); k++ {
				target = Pick(r, signerUsers) // mostly a user of another server
			}
		}
		if r.Chance(12) {
			target = Pick(r, badUsers)
			label += "-badkey"
		}
		fields["state_key"] = target
		c := map[string]interface{}{"membership": m}
		if r.Chance(3) {
			c["membership"] = Pick(r, []interface{}{5, nil, []string{}, true})
			label += "-badmembership"
		}
		if r.Chance(3) {
			delete(c, "membership")
			c[Pick(r, []string{"Membership", "MEMBERSHIP"})] = m // Go's struct decoding folds case
			label += "-casevar"
		}
		if (m == "join" && r.Chance(75)) || r.Chance(8) {
			switch r.Intn(10) {
			case 0, 1, 2, 3, 4:
				via := Pick(r, signerUsers)
				for k := 0; k < 3 && domainOf(via) == domainOf(sender); k++ {
					via = Pick(r, signerUsers)
				}
				c["join_authorised_via_users_server"] = via
				label += "-via"
			case 5, 6:
				c["join_authorised_via_users_server"] = Pick(r, badUsers)
				label += "-viabad"
			case 7:
				c["join_authorised_via_users_server"] = Pick(r, []interface{}{5, nil, true, []string{"@a:hs2"}, map[string]interface{}{"@a:hs2": 1}})
				label += "-vianonstring"
			case 8:
				c["Join_Authorised_Via_Users_Server"] = Pick(r, signerUsers) // gjson is case-sensitive
				label += "-viacasevar"
			case 9:
				c["join_authorised_via_users_server"] = sender
				label += "-viaself"
			}
		}
		var content interface{} = c
		if r.Chance(3) {
			content = Pick(r, []interface{}{nil, "x", []int{1}, 5})
			label += "-badcontent"
		}
		fields["content"] = content
		if content == nil {
			fields["content"] = json.RawMessage("null")
		}
		if r.Chance(3) {
			fields["state_key"] = nil // not a state event
			label += "-nostatekey"
		}
	default:
		fields["type"] = Pick(r, []string{"m.room.message", "m.room.name", "m.room.power_levels", "m.room.create", "m.room.join_rules", "x.custom", "m.room.Member"})
		fields["content"] = map[string]interface{}{"membership": Pick(r, []string{"invite", "join"}), "join_authorised_via_users_server": "@x:hs7"}
		if r.Chance(50) {
			fields["state_key"] = Pick(r, []string{"", "@bob:hs2", "x"})
		}
	}
	id := "$" + r.id43()
	if f == 1 {
		id = "$e1:" + domainOf(sender)
		switch r.Intn(10) {
		case 0, 1, 2, 3:
			id = "$e1:" + Pick(r, []string{"hs2", "hs4", "hs5:8448", "", "hs1", "example.org"})
			label += "-idother"
		case 4:
			id = Pick(r, []string{"$nocolon", "e1:hs1", "", "$", "!e1:hs1"})
			label += "-idbad"
		}
	}
	ev := mkEventWithID(r, ver, id, fields)
	if ev == nil {
		return nil
	}
	return &signersCase{ver: ver, ev: ev, label: label}
}

func scriptArg(table [][2]string, dflt, verr bool) string {
	var es []string
	for _, e := range table {
		es = append(es, hx([]byte(e[0]))+"="+e[1])
	}
	t := "-"
	if len(es) > 0 {
		t = strings.Join(es, ",")
	}
	b := func(x bool) string {
		if x {
			return "1"
		}
		return "0"
	}
	return t + ";" + b(dflt) + ";" + b(verr)
}

func genSigners(o *Out, tier string, r *Rng) {
	n := 450
	if tier == "thorough" {
		n = 25000
	}
	for i := 0; i < n; i++ {
		ver := allVersions[i%len(allVersions)]
		if r.Chance(20) {
			ver = Pick(r, []string{"1", "2"}) // the versions whose event IDs name a server
		}
		c := genSignersEvent(r, ver)
		if c == nil {
			o.Count("construct-refused")
			continue
		}
		arg := c.ev.Arg()
		// probe: which servers does the implementation ask when everybody answers ok?
		probe := &scriptedVerifier{table: map[string]bool{}, dflt: true}
		perr := Guard(func() string {
			return coarse(gmsl.VerifyEventSignatures(context.Background(), c.ev.PDU, probe, StdQuerier))
		})
		asked := map[string]bool{}
		var servers []string
		for _, q := range probe.requests {
			if !asked[string(q.ServerName)] {
				asked[string(q.ServerName)] = true
				servers = append(servers, string(q.ServerName))
			}
		}
		sort.Strings(servers)
		o.Count(fmt.Sprintf("asked.%d.%s", len(servers), perr))
		o.Count("class." + c.label)
		if i < 6 {
			o.Sample(c.label + " " + ver + " " + string(c.ev.JSON))
		}
		o.Do("trace", ver, arg, scriptArg(nil, true, false))
		// every subset of the asked servers answering ok, the others failing; unrelated servers in both roles
		for mask := 0; mask < 1<<uint(len(servers)); mask++ {
			var table [][2]string
			for j, s := range servers {
				b := "0"
				if mask&(1<<uint(j)) != 0 {
					b = "1"
				}
				table = append(table, [2]string{s, b})
			}
			for k := 0; k < r.Intn(3); k++ {
				table = append(table, [2]string{Pick(r, otherServers), Pick(r, []string{"0", "1"})})
			}
			// shuffle so that the first-entry-wins rule is exercised with unrelated duplicates
			dflt := r.Bool()
			o.Do("verify", ver, arg, scriptArg(table, dflt, false))
		}
		if len(servers) == 0 || r.Chance(10) {
			o.Do("verify", ver, arg, scriptArg(nil, r.Bool(), false))
		}
		if r.Chance(8) {
			o.Do("verify", ver, arg, scriptArg(nil, true, true))
			o.Do("trace", ver, arg, scriptArg(nil, false, true))
		}
	}
}
