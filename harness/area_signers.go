package main

// Area `signers` (C06): VerifyEventSignatures against a scripted JSONVerifier.
//
//	verify <ver> <hex id>:<hex json> <script>   -> ok | rej
//	trace  <ver> <hex id>:<hex json> <script>   -> asked:<sorted "hexserver@ts/s<strict>/r<redacted>"> | none | -
//	member_reading <ver> <hex id>:<hex json>    -> m=<hex membership>,via=<hex authoriser> | err
//	    (NewMemberContentFromEvent: what the AUTH RULES take for the membership and for the authoriser of a restricted join)
//
// script = "<hexserver>=<0|1>,...;<default 0|1>;<verifier error 0|1>[;<hexname>=<0|1>,...]": what the verifier
// answers per server name (1 = signature valid, 0 = error: missing / corrupted / wrong key / key not valid at that
// time).  The optional fourth section is for the pseudo-ID room version only and is read by the MODEL alone: for
// each name, whether the name is a base64 ed25519 key under which VerifyJSON(name, "ed25519:1", key, redacted event)
// succeeds (computed by the generator with VerifyJSON and RedactEventJSON; the implementation does the real thing).

import (
	"bytes"
	"context"
	"crypto/ed25519"
	"encoding/base64"
	"encoding/json"
	"errors"
	"fmt"
	"sort"
	"strings"

	gmsl "github.com/matrix-org/gomatrixserverlib"
	"github.com/matrix-org/gomatrixserverlib/spec"
)

func init() { areas["signers"] = Area{Gen: genSigners, Exec: execSigners} }

type scriptedVerifier struct {
	table    map[string]bool
	dflt     bool
	verr     bool
	called   bool
	requests []gmsl.VerifyJSONRequest
}

func (s *scriptedVerifier) VerifyJSONs(ctx context.Context, reqs []gmsl.VerifyJSONRequest) ([]gmsl.VerifyJSONResult, error) {
	s.called = true
	s.requests = append(s.requests, reqs...)
	if s.verr {
		return nil, errors.New("scripted verifier failure")
	}
	res := make([]gmsl.VerifyJSONResult, len(reqs))
	for i, q := range reqs {
		ok, listed := s.table[string(q.ServerName)]
		if !listed {
			ok = s.dflt
		}
		if !ok {
			res[i].Error = fmt.Errorf("scripted: no valid signature from %q", q.ServerName)
		}
	}
	return res, nil
}

func parseScript(s string) *scriptedVerifier {
	parts := strings.Split(s, ";")
	v := &scriptedVerifier{table: map[string]bool{}, dflt: parts[1] == "1", verr: parts[2] == "1"}
	if parts[0] != "-" && parts[0] != "" {
		for _, e := range strings.Split(parts[0], ",") {
			kv := strings.SplitN(e, "=", 2)
			name := string(unhx(kv[0]))
			if _, dup := v.table[name]; !dup { // first entry wins, as in the driver
				v.table[name] = kv[1] == "1"
			}
		}
	}
	return v
}

// execVerifyAll: VerifyAllEventSignatures (the entry point of CheckStateResponse / LoadAndVerify) on several events with one
// verifier: one verdict per event, in order; each must be the verdict VerifyEventSignatures gives for that event alone.
func execVerifyAll(ver, evs, script string) string {
	var pdus []gmsl.PDU
	for _, a := range strings.Split(evs, "|") {
		ev, err := parseEvArg(ver, a)
		if err != nil {
			return "err:construct"
		}
		pdus = append(pdus, ev)
	}
	sv := parseScript(script)
	errs := gmsl.VerifyAllEventSignatures(context.Background(), pdus, sv, StdQuerier)
	if len(errs) != len(pdus) {
		return fmt.Sprintf("bad:%d-results-for-%d-events", len(errs), len(pdus))
	}
	var out []string
	for _, e := range errs {
		out = append(out, coarse(e))
	}
	return strings.Join(out, ",")
}

func execSigners(op string, args []string) string {
	if op == "verify_all" {
		return execVerifyAll(args[0], args[1], args[2])
	}
	if op != "verify" && op != "trace" && op != "member_reading" {
		return "bad-op"
	}
	ver := args[0]
	ev, err := parseEvArg(ver, args[1])
	if err != nil {
		return "err:construct"
	}
	if op == "member_reading" {
		// the reading of the auth rules (eventauth.go: membershipAllower.newMember / NewMemberContentFromAuthEvents)
		mc, merr := gmsl.NewMemberContentFromEvent(ev)
		if merr != nil {
			return "err"
		}
		return "m=" + hx([]byte(mc.Membership)) + ",via=" + hx([]byte(mc.AuthorisedVia))
	}
	sv := parseScript(args[2])
	verr := gmsl.VerifyEventSignatures(context.Background(), ev, sv, StdQuerier)
	if op == "verify" {
		// The tie to the auth rules (C07), judged on the implementation itself: an event that verifies as a join which
		// the auth rules take for authorised by some user (NewMemberContentFromEvent(e).AuthorisedVia, in a room version
		// with restricted joins) must have needed a signature of THAT user's server.  Never an answer of the
		// specification: it shows as impl != spec (K1: the auth rules read a case variant of the member name).
		if verr == nil && restrictedJoinVersions[ver] && ver != pseudoVer && ev.Type() == spec.MRoomMember {
			if mc, merr := gmsl.NewMemberContentFromEvent(ev); merr == nil && mc.Membership == spec.Join && mc.AuthorisedVia != "" {
				_, srv, serr := gmsl.SplitID('@', mc.AuthorisedVia)
				asked := false
				for _, q := range sv.requests {
					asked = asked || q.ServerName == srv
				}
				if serr != nil || !asked {
					return "ok:authoriser-of-the-auth-rules-not-required"
				}
			}
		}
		return coarse(verr)
	}
	if !sv.called {
		return "none"
	}
	verImpl := gmsl.MustGetRoomVersion(gmsl.RoomVersion(ver))
	red, rerr := verImpl.RedactEventJSON(ev.JSON())
	seen := map[string]bool{}
	var out []string
	for _, q := range sv.requests {
		strict := "s1"
		// the two validity rules differ on a key that is no longer valid at the event's time
		if q.ValidityCheckingFunc == nil {
			strict = "s?"
		} else if q.ValidityCheckingFunc(spec.Timestamp(2000), spec.Timestamp(1000)) {
			strict = "s0"
		}
		r := "r0"
		if rerr == nil && bytes.Equal(q.Message, red) {
			r = "r1"
		}
		s := fmt.Sprintf("%s@%d/%s/%s", hx([]byte(q.ServerName)), uint64(q.AtTS), strict, r)
		if !seen[s] {
			seen[s] = true
			out = append(out, s)
		}
	}
	if len(out) == 0 {
		return "-"
	}
	sort.Strings(out)
	return "asked:" + strings.Join(out, ",")
}

// mkEventWithID builds an event like RoomGen.Mk but with an explicit event ID (room versions 1 and 2 carry
// the ID in the JSON; later versions get it passed to the constructor).
func mkEventWithID(r *Rng, ver, id string, fields map[string]interface{}) *Ev {
	f, v3 := verFormat(ver)
	m := map[string]interface{}{
		"room_id": "!room:hs1", "origin_server_ts": 1000 + r.Intn(5), "depth": 3,
	}
	g := &RoomGen{r: r, Ver: ver, fmtV: f, v3: v3}
	m["prev_events"] = g.refs([]string{"$prev:hs1"})
	m["auth_events"] = g.refs(nil)
	if f == 1 {
		m["event_id"] = id
	}
	for k, v := range fields {
		if v == nil {
			delete(m, k)
		} else {
			m[k] = v
		}
	}
	// a content given as rawContent keeps its own member order, spellings and repetitions (canonicalisation
	// would sort the members: "Membership" before "membership", "memberſhip" after it)
	var rawc []byte
	if rc, ok := m["content"].(rawContent); ok {
		rawc = []byte(rc)
		m["content"] = rawContentMark
	}
	raw, err := json.Marshal(m)
	if err != nil {
		return nil
	}
	cj, err := gmsl.CanonicalJSON(raw)
	if err != nil {
		return nil
	}
	if rawc != nil {
		cj = bytes.Replace(cj, []byte(`"`+rawContentMark+`"`), rawc, 1)
	}
	v := gmsl.MustGetRoomVersion(gmsl.RoomVersion(ver))
	pdu, err := v.NewEventFromTrustedJSONWithEventID(id, cj, false)
	if err != nil {
		return nil
	}
	return &Ev{PDU: pdu, ID: id, JSON: cj}
}

// room versions that support restricted joins (from the property text / the room version specifications, not from the code)
var restrictedJoinVersions = map[string]bool{"8": true, "9": true, "10": true, "11": true, "12": true,
	"org.matrix.msc3787": true, "org.matrix.hydra.11": true, "org.matrix.msc4014": true}

// rawContent is the literal JSON text of an event's content.
type rawContent []byte

const rawContentMark = "@@raw-content@@"

type rawMember struct {
	key string
	val interface{}
}

// a key with this prefix is written with \uXXXX escapes (the same JSON name, another spelling on the wire)
const escMark = "\x00esc:"

// escapedName spells a member name with JSON escapes for some of its characters: "join_authorised_via_users\u005fserver"
// IS the member join_authorised_via_users_server for every JSON reader (seeded change C06-r8m1 looked for the raw bytes).
func escapedName(k string, every int) []byte {
	var sb bytes.Buffer
	sb.WriteByte('"')
	for i := 0; i < len(k); i++ {
		if k[i] < 0x80 && (k[i] == '_' && i%every == 0 || i == len(k)/2 || every == 1) {
			fmt.Fprintf(&sb, "\\u%04x", k[i])
		} else {
			sb.WriteByte(k[i])
		}
	}
	sb.WriteByte('"')
	return sb.Bytes()
}

// rawObject writes the members in the given order (names and values JSON-encoded, nothing sorted or merged).
func rawObject(ms []rawMember) rawContent {
	var sb bytes.Buffer
	sb.WriteByte('{')
	for i, m := range ms {
		if i > 0 {
			sb.WriteByte(',')
		}
		k, _ := json.Marshal(m.key)
		if strings.HasPrefix(m.key, escMark) {
			k = escapedName(strings.TrimPrefix(m.key, escMark), 1+i%3)
		}
		v, err := json.Marshal(m.val)
		if err != nil {
			v = []byte("null")
		}
		sb.Write(k)
		sb.WriteByte(':')
		sb.Write(v)
	}
	sb.WriteByte('}')
	return rawContent(sb.Bytes())
}

// other spellings that encoding/json matches with a struct field of the exact name (simple case folding)
var membershipVariants = []string{"Membership", "MEMBERSHIP", "memberſhip", "membershiP", "MEMBERſHIP"}
var viaVariants = []string{"Join_authorised_via_users_server", "JOIN_AUTHORISED_VIA_USERS_SERVER", "join_authoriſed_via_uſers_ſerver",
	"join_authorised_via_users_Server", "Join_Authorised_Via_Users_Server"}

var signerUsers = []string{"@alice:hs1", "@bob:hs2", "@carol:hs3:8448", "@dave:example.org", "@eve:1.2.3.4", "@f:hs1", "@g:xn--bcher-kva.example:443",
	// server names are compared as written: a name with capitals is another server than its lower-case form (seed C06-r4m1)
	"@zoe:Example.ORG", "@h:Hs1"}
var badUsers = []string{"", "@", "alice:hs1", "@alice", "@:hs1", "@alice:", "@alice:bad domain", "!alice:hs1", "@alice:hs1:notaport", "@a:h:1:2"}
var otherServers = []string{"unrelated.org", "hs9", "hs1.evil", "HS1", "hs1:8448", "", "hs3"}

type signersCase struct {
	ver   string
	ev    *Ev
	label string
}

func genSignersEvent(r *Rng, ver string, variants bool) *signersCase {
	f, _ := verFormat(ver)
	sender := Pick(r, signerUsers)
	if r.Chance(6) {
		sender = Pick(r, badUsers)
	}
	fields := map[string]interface{}{"sender": sender}
	label := "other"
	switch k := r.Intn(100); {
	case k < 70 || variants:
		label = "member"
		fields["type"] = "m.room.member"
		m := Pick(r, []string{"join", "join", "join", "invite", "invite", "invite", "leave", "ban", "knock"})
		if r.Chance(4) {
			m = Pick(r, []string{"", "JOIN", "Invite", "kick"})
		}
		label += "-" + m
		target := sender
		if m != "join" || r.Chance(15) {
			target = Pick(r, signerUsers)
			for k := 0; k < 3 && domainOf(target) == domainOf(sender); k++ {
				target = Pick(r, signerUsers) // mostly a user of another server
			}
		}
		if r.Chance(12) {
			target = Pick(r, badUsers)
			label += "-badkey"
		}
		fields["state_key"] = target
		c := map[string]interface{}{"membership": m}
		if r.Chance(3) {
			c["membership"] = Pick(r, []interface{}{5, nil, []string{}, true})
			label += "-badmembership"
		}
		if r.Chance(3) {
			delete(c, "membership")
			c[Pick(r, []string{"Membership", "MEMBERSHIP"})] = m // Go's struct decoding folds case
			label += "-casevar"
		}
		if (m == "join" && r.Chance(75)) || r.Chance(8) {
			switch r.Intn(10) {
			case 0, 1, 2, 3, 4:
				via := Pick(r, signerUsers)
				for k := 0; k < 3 && domainOf(via) == domainOf(sender); k++ {
					via = Pick(r, signerUsers)
				}
				c["join_authorised_via_users_server"] = via
				label += "-via"
			case 5, 6:
				c["join_authorised_via_users_server"] = Pick(r, badUsers)
				label += "-viabad"
			case 7:
				c["join_authorised_via_users_server"] = Pick(r, []interface{}{5, nil, true, []string{"@a:hs2"}, map[string]interface{}{"@a:hs2": 1}})
				label += "-vianonstring"
			case 8:
				c["Join_Authorised_Via_Users_Server"] = Pick(r, signerUsers) // gjson is case-sensitive
				label += "-viacasevar"
			case 9:
				c["join_authorised_via_users_server"] = sender
				label += "-viaself"
			}
		}
		// the other members a real membership event carries: none of them may change who has to sign
		if r.Chance(35) {
			switch r.Intn(6) {
			case 0, 1:
				c["third_party_invite"] = map[string]interface{}{"display_name": "bob", "signed": map[string]interface{}{
					"mxid": target, "token": "tok", "signatures": map[string]interface{}{"id.example": map[string]interface{}{"ed25519:0": "c2ln"}}}}
				label += "-tpi"
			case 2:
				c["third_party_invite"] = Pick(r, []interface{}{map[string]interface{}{}, nil, true, "x"})
				label += "-tpiodd"
			case 3:
				c["is_direct"] = true
				c["displayname"] = "Bob"
				c["avatar_url"] = "mxc://hs1/abc"
			case 4:
				c["reason"] = "because"
				c["org.matrix.msc4014.mxid_mapping"] = map[string]interface{}{"user_id": target}
			case 5:
				c["mxid_mapping"] = map[string]interface{}{"user_id": Pick(r, signerUsers), "user_room_key": "k", "signatures": map[string]interface{}{}}
				label += "-mapping"
			}
		}
		var content interface{} = c
		// K1 / K2: members under another spelling of `membership` / `join_authorised_via_users_server`, alone and
		// next to the exact name, in either order; and the exact name twice.  They must not change who has to sign,
		// and the auth rules (member_reading) must not read them.
		if variants || r.Chance(14) {
			var ms []rawMember
			for k, v := range c {
				ms = append(ms, rawMember{k, v})
			}
			sort.Slice(ms, func(i, j int) bool { return ms[i].key < ms[j].key })
			otherUser := func() string {
				u := Pick(r, signerUsers)
				for k := 0; k < 4 && (domainOf(u) == domainOf(sender) || domainOf(u) == domainOf(target)); k++ {
					u = Pick(r, signerUsers)
				}
				return u
			}
			var extra []rawMember
			switch r.Intn(10) {
			case 8, 9: // the exact names, spelled with \uXXXX escapes on the wire: still the same members
				for i := range ms {
					if ms[i].key == "join_authorised_via_users_server" || (ms[i].key == "membership" && r.Chance(50)) {
						ms[i].key = escMark + ms[i].key
					}
				}
				label += "-escaped-names"
			case 0, 1: // another membership under a variant spelling, the exact one kept
				extra = append(extra, rawMember{Pick(r, membershipVariants), Pick(r, []string{"invite", "join", "leave", "ban"})})
				label += "-mvariant+exact"
			case 2: // only a variant spelling
				for i := range ms {
					if ms[i].key == "membership" {
						ms[i].key = Pick(r, membershipVariants)
					}
				}
				label += "-mvariant-alone"
			case 3, 4: // an authoriser under a variant spelling (next to the exact one if the content has it)
				extra = append(extra, rawMember{Pick(r, viaVariants), otherUser()})
				label += "-viavariant"
			case 5: // both
				extra = append(extra, rawMember{Pick(r, membershipVariants), Pick(r, []string{"invite", "join", "leave"})},
					rawMember{Pick(r, viaVariants), otherUser()})
				label += "-mvariant-viavariant"
			case 6: // the exact name twice
				extra = append(extra, rawMember{"membership", Pick(r, []string{"invite", "join", "leave"})})
				label += "-mdup"
			case 7:
				extra = append(extra, rawMember{"join_authorised_via_users_server", otherUser()})
				label += "-viadup"
			}
			// where the extra members go decides which one a folded, last-match reader would take
			for _, x := range extra {
				at := r.Intn(len(ms) + 1)
				ms = append(ms[:at], append([]rawMember{x}, ms[at:]...)...)
			}
			content = rawObject(ms)
		}
		if r.Chance(3) {
			content = Pick(r, []interface{}{nil, "x", []int{1}, 5})
			label += "-badcontent"
		}
		fields["content"] = content
		if content == nil {
			fields["content"] = json.RawMessage("null")
		}
		if r.Chance(3) {
			fields["state_key"] = nil // not a state event
			label += "-nostatekey"
		}
	default:
		fields["type"] = Pick(r, []string{"m.room.message", "m.room.name", "m.room.power_levels", "m.room.create", "m.room.join_rules", "x.custom", "m.room.Member"})
		fields["content"] = map[string]interface{}{"membership": Pick(r, []string{"invite", "join"}), "join_authorised_via_users_server": "@x:hs7"}
		if r.Chance(50) {
			fields["state_key"] = Pick(r, []string{"", "@bob:hs2", "x"})
		}
	}
	id := "$" + r.id43()
	if f == 1 {
		id = "$e1:" + domainOf(sender)
		switch r.Intn(10) {
		case 0, 1, 2, 3:
			id = "$e1:" + Pick(r, []string{"hs2", "hs4", "hs5:8448", "", "hs1", "example.org"})
			label += "-idother"
		case 4:
			id = Pick(r, []string{"$nocolon", "e1:hs1", "", "$", "!e1:hs1"})
			label += "-idbad"
		}
	}
	ev := mkEventWithID(r, ver, id, fields)
	if ev == nil {
		return nil
	}
	return &signersCase{ver: ver, ev: ev, label: label}
}

// ---------------------------------------------------------------- pseudo-ID room version (org.matrix.msc4014)

const pseudoVer = "org.matrix.msc4014"

type pseudoCase struct {
	signersCase
	self [][2]string // name -> "1" when its own key validly signed the redacted event
}

func pseudoKey(r *Rng) (string, ed25519.PrivateKey) {
	priv := ed25519.NewKeyFromSeed(r.randBytes(32))
	return base64.RawURLEncoding.EncodeToString(priv.Public().(ed25519.PublicKey)), priv
}

// selfOK: what JSONVerifierSelf decides for one name.
func selfOK(name string, red []byte) bool {
	key, err := spec.SenderID(name).RawBytes()
	if err != nil {
		return false
	}
	return gmsl.VerifyJSON(name, "ed25519:1", ed25519.PublicKey(key), red) == nil
}

func genPseudoEvent(r *Rng) *pseudoCase {
	ver := gmsl.MustGetRoomVersion(pseudoVer)
	sid, spriv := pseudoKey(r)
	label := "pseudo"
	type signer struct {
		name string
		priv ed25519.PrivateKey
		kid  string
	}
	signers := []signer{{sid, spriv, "ed25519:1"}}
	if r.Chance(8) {
		signers = nil
		label += "-unsigned"
	}
	if r.Chance(6) {
		sid = Pick(r, []string{"@alice:hs1", "", "AAAA", r.id43(), base64.RawStdEncoding.EncodeToString(spriv.Public().(ed25519.PublicKey))})
		if len(signers) > 0 {
			signers[0].name = sid
		}
		label += "-oddsender"
	}
	fields := map[string]interface{}{"sender": sid}
	names := []string{sid}
	switch k := r.Intn(100); {
	case k < 75:
		fields["type"] = "m.room.member"
		m := Pick(r, []string{"join", "join", "join", "invite", "invite", "leave", "ban", "knock"})
		label += "-" + m
		c := map[string]interface{}{"membership": m}
		fields["state_key"] = sid
		if m == "invite" || m == "ban" {
			tid, tpriv := pseudoKey(r)
			fields["state_key"] = tid
			names = append(names, tid)
			if m == "invite" && r.Chance(70) {
				signers = append(signers, signer{tid, tpriv, "ed25519:1"})
			}
			if r.Chance(5) {
				fields["state_key"] = "@bob:hs2"
				names = append(names, "@bob:hs2")
			}
		}
		if m == "join" {
			uid := Pick(r, signerUsers)
			mp := map[string]interface{}{"user_room_key": sid, "user_id": uid}
			switch r.Intn(12) {
			case 0:
				label += "-nomapping"
				mp = nil
			case 1, 2:
				label += "-mapping-unsigned"
				if r.Bool() {
					mp["signatures"] = map[string]interface{}{}
				}
			case 3:
				label += "-mapping-othersigner"
				mp["signatures"] = map[string]interface{}{"evil.org": map[string]string{"ed25519:1": "AAAA"}}
			case 4:
				label += "-mapping-bad"
				mp[Pick(r, []string{"user_id", "user_room_key", "signatures"})] = Pick(r, []interface{}{5, []string{}, true})
			case 5:
				label += "-mapping-badsig"
				mp["signatures"] = map[string]interface{}{domainOf(uid): Pick(r, []interface{}{map[string]interface{}{"ed25519:1": "!"}, map[string]interface{}{"k": 5}, 5, nil})}
			case 6, 7:
				// K3: somebody else's mapping (their key, their user ID, their server's signature — all public, copied
				// from any join of theirs) on a join sent and self-signed by THIS sender's key
				other, _ := pseudoKey(r)
				if r.Chance(15) {
					other = Pick(r, []string{"", "k", sid + "A", strings.ToLower(sid)})
				}
				mp["user_room_key"] = other
				mp["signatures"] = map[string]interface{}{domainOf(uid): map[string]string{"ed25519:1": base64.RawStdEncoding.EncodeToString(r.randBytes(64))}}
				label += "-mapping-otherkey"
			default:
				sg := map[string]interface{}{domainOf(uid): map[string]string{"ed25519:1": base64.RawStdEncoding.EncodeToString(r.randBytes(64))}}
				if r.Chance(25) {
					sg["hs9"] = map[string]string{"ed25519:x": "AAAA"}
				}
				mp["signatures"] = sg
				label += "-mapping"
			}
			if mp != nil {
				c["mxid_mapping"] = mp
			} else if r.Bool() {
				c["mxid_mapping"] = nil
			}
			if r.Chance(12) {
				via := Pick(r, append([]string{"@x:" + sid}, signerUsers...))
				c["join_authorised_via_users_server"] = via
				names = append(names, domainOf(via))
				label += "-via"
			}
			if r.Chance(4) {
				c[Pick(r, []string{"displayname", "is_direct", "third_party_invite", "reason"})] = 5
				label += "-badfield"
			}
		}
		fields["content"] = c
		if r.Chance(8) {
			// other spellings of the member names: not read (K2)
			switch r.Intn(3) {
			case 0:
				c[Pick(r, membershipVariants)] = Pick(r, []string{"invite", "join", "leave"})
				label += "-mvariant"
			case 1:
				if mpv, ok := c["mxid_mapping"]; ok {
					delete(c, "mxid_mapping")
					c[Pick(r, []string{"Mxid_mapping", "MXID_MAPPING", "mxid_mappinG"})] = mpv
					label += "-mappingvariant"
				}
			case 2:
				var ms []rawMember
				for k, v := range c {
					ms = append(ms, rawMember{k, v})
				}
				sort.Slice(ms, func(i, j int) bool { return ms[i].key < ms[j].key })
				ms = append(ms, rawMember{Pick(r, []string{"memberſhip", "membership", "Membership"}), Pick(r, []string{"invite", "join", "leave"})})
				fields["content"] = rawObject(ms)
				label += "-mlast"
			}
		}
		if r.Chance(3) {
			fields["content"] = Pick(r, []interface{}{"x", []int{1}, json.RawMessage("null")})
			label += "-badcontent"
		}
	default:
		fields["type"] = Pick(r, []string{"m.room.message", "m.room.name", "x.custom"})
		fields["content"] = map[string]interface{}{"body": "x"}
		if r.Bool() {
			fields["state_key"] = ""
		}
	}
	id := "$" + r.id43()
	unsignedEv := mkEventWithID(r, pseudoVer, id, fields)
	if unsignedEv == nil {
		return nil
	}
	red, err := ver.RedactEventJSON(unsignedEv.JSON)
	if err != nil {
		return nil
	}
	sigs := map[string]map[string]spec.Base64Bytes{}
	for _, sg := range signers {
		kid := sg.kid
		if r.Chance(5) {
			kid = "ed25519:2" // JSONVerifierSelf looks for ed25519:1 only
			label += "-otherkid"
		}
		out, err := gmsl.SignJSON(sg.name, gmsl.KeyID(kid), sg.priv, red)
		if err != nil {
			continue
		}
		var so struct {
			Signatures map[string]map[string]spec.Base64Bytes `json:"signatures"`
		}
		_ = json.Unmarshal(out, &so)
		b := so.Signatures[sg.name][kid]
		if r.Chance(6) && len(b) == 64 {
			b[r.Intn(64)] ^= 1
			label += "-corrupt"
		}
		if sigs[sg.name] == nil {
			sigs[sg.name] = map[string]spec.Base64Bytes{}
		}
		sigs[sg.name][kid] = b
	}
	var m map[string]json.RawMessage
	_ = json.Unmarshal(unsignedEv.JSON, &m)
	sb, _ := json.Marshal(sigs)
	m["signatures"] = sb
	raw, _ := json.Marshal(m)
	cj, err := gmsl.CanonicalJSON(raw)
	if err != nil {
		return nil
	}
	pdu, err := ver.NewEventFromTrustedJSONWithEventID(id, cj, false)
	if err != nil {
		return nil
	}
	ev := &Ev{PDU: pdu, ID: id, JSON: cj}
	red2, err := ver.RedactEventJSON(pdu.JSON())
	if err != nil {
		return nil
	}
	c := &pseudoCase{signersCase: signersCase{ver: pseudoVer, ev: ev, label: label}}
	seen := map[string]bool{}
	for _, n := range names {
		if seen[n] {
			continue
		}
		seen[n] = true
		b := "0"
		if selfOK(n, red2) {
			b = "1"
		}
		c.self = append(c.self, [2]string{n, b})
	}
	return c
}

func tableArg(table [][2]string) string {
	var es []string
	for _, e := range table {
		es = append(es, hx([]byte(e[0]))+"="+e[1])
	}
	if len(es) == 0 {
		return "-"
	}
	return strings.Join(es, ",")
}

func scriptArg(table [][2]string, dflt, verr bool) string {
	var es []string
	for _, e := range table {
		es = append(es, hx([]byte(e[0]))+"="+e[1])
	}
	t := "-"
	if len(es) > 0 {
		t = strings.Join(es, ",")
	}
	b := func(x bool) string {
		if x {
			return "1"
		}
		return "0"
	}
	return t + ";" + b(dflt) + ";" + b(verr)
}

func genSigners(o *Out, tier string, r *Rng) {
	n := 450
	if tier == "thorough" {
		n = 25000
	}
	for i := 0; i < n; i++ {
		ver := allVersions[i%len(allVersions)]
		if r.Chance(20) {
			ver = Pick(r, []string{"1", "2"}) // the versions whose event IDs name a server
		} else if r.Chance(8) {
			ver = pseudoVer
		}
		var c *signersCase
		selfSection := ""
		if ver == pseudoVer {
			pc := genPseudoEvent(r)
			if pc == nil {
				o.Count("construct-refused")
				continue
			}
			c = &pc.signersCase
			selfSection = ";" + tableArg(pc.self)
		} else {
			// every fifth event is of the member-name-variant classes (K1 / K2), mostly in restricted-join versions
			variants := i%5 == 4
			if variants && r.Chance(70) {
				ver = Pick(r, []string{"8", "9", "10", "11", "12"})
			}
			c = genSignersEvent(r, ver, variants)
		}
		if c == nil {
			o.Count("construct-refused")
			continue
		}
		arg := c.ev.Arg()
		// probe: which servers does the implementation ask when everybody answers ok?
		probe := &scriptedVerifier{table: map[string]bool{}, dflt: true}
		perr := Guard(func() string {
			return coarse(gmsl.VerifyEventSignatures(context.Background(), c.ev.PDU, probe, StdQuerier))
		})
		asked := map[string]bool{}
		var servers []string
		for _, q := range probe.requests {
			if !asked[string(q.ServerName)] {
				asked[string(q.ServerName)] = true
				servers = append(servers, string(q.ServerName))
			}
		}
		sort.Strings(servers)
		o.Count(fmt.Sprintf("asked.%d.%s", len(servers), perr))
		o.Count("class." + c.label)
		if i < 6 {
			o.Sample(c.label + " " + ver + " " + string(c.ev.JSON))
		}
		o.Do("trace", ver, arg, scriptArg(nil, true, false)+selfSection)
		if c.ev.PDU.Type() == "m.room.member" {
			o.Do("member_reading", ver, arg)
		}
		// every subset of the asked servers answering ok, the others failing; unrelated servers in both roles
		for mask := 0; mask < 1<<uint(len(servers)); mask++ {
			var table [][2]string
			for j, s := range servers {
				b := "0"
				if mask&(1<<uint(j)) != 0 {
					b = "1"
				}
				table = append(table, [2]string{s, b})
			}
			for k := 0; k < r.Intn(3); k++ {
				table = append(table, [2]string{Pick(r, otherServers), Pick(r, []string{"0", "1"})})
			}
			// the lower- / upper-case form of an asked name is an unrelated server: it answers the opposite
			for j, s := range servers {
				for _, cv := range []string{strings.ToLower(s), strings.ToUpper(s)} {
					if cv != s && !asked[cv] {
						b := "1"
						if mask&(1<<uint(j)) != 0 {
							b = "0"
						}
						table = append(table, [2]string{cv, b})
					}
				}
			}
			// shuffle so that the first-entry-wins rule is exercised with unrelated duplicates
			dflt := r.Bool()
			o.Do("verify", ver, arg, scriptArg(table, dflt, false)+selfSection)
		}
		if len(servers) == 0 || r.Chance(10) {
			o.Do("verify", ver, arg, scriptArg(nil, r.Bool(), false)+selfSection)
		}
		if r.Chance(8) {
			o.Do("verify", ver, arg, scriptArg(nil, true, true)+selfSection)
			o.Do("trace", ver, arg, scriptArg(nil, false, true)+selfSection)
		}
	}
	genVerifyAll(o, tier, r)
}

// genVerifyAll: the bulk entry point.  2-5 events of one room version to one verifier: events with several required servers
// (invites across servers, restricted joins, version 1-2 IDs naming another server), the same event twice, and - in the
// versions whose ID is a member of the event - two DIFFERENT events under one event ID sent from different servers; every
// asked server answers valid / invalid at random, so a verdict carried over from one request or one event to another shows.
func genVerifyAll(o *Out, tier string, r *Rng) {
	n := 120
	if tier == "thorough" {
		n = 6000
	}
	for i := 0; i < n; i++ {
		ver := allVersions[i%len(allVersions)]
		if ver == pseudoVer {
			continue
		}
		if r.Chance(25) {
			ver = Pick(r, []string{"1", "2"})
		}
		var cs []*signersCase
		for k := 2 + r.Intn(4); len(cs) < k; {
			c := genSignersEvent(r, ver, false)
			if c == nil {
				k--
				continue
			}
			cs = append(cs, c)
		}
		if len(cs) < 2 {
			continue
		}
		f, _ := verFormat(ver)
		if r.Chance(30) {
			cs = append(cs, cs[r.Intn(len(cs))]) // the same event again
			o.Count("all.repeat")
		}
		if f == 1 && r.Chance(50) {
			// another event under the ID of the first one (the ID is just a member in this format)
			for k := 0; k < 6; k++ {
				c := genSignersEvent(r, ver, false)
				if c == nil {
					continue
				}
				var m map[string]interface{}
				if json.Unmarshal(c.ev.JSON, &m) != nil {
					continue
				}
				m["event_id"] = cs[0].ev.ID
				js, err := json.Marshal(m)
				if err != nil {
					continue
				}
				cs = append(cs, &signersCase{ver: ver, ev: &Ev{ID: cs[0].ev.ID, JSON: js}, label: "twin"})
				o.Count("all.same-id-twin")
				break
			}
		}
		var args []string
		servers := map[string]bool{}
		ok := true
		for _, c := range cs {
			p, err := parseEvArg(ver, c.ev.Arg())
			if err != nil {
				ok = false
				break
			}
			args = append(args, c.ev.Arg())
			probe := &scriptedVerifier{table: map[string]bool{}, dflt: true}
			Guard(func() string { return coarse(gmsl.VerifyEventSignatures(context.Background(), p, probe, StdQuerier)) })
			for _, q := range probe.requests {
				servers[string(q.ServerName)] = true
			}
		}
		if !ok {
			o.Count("all.construct-refused")
			continue
		}
		var names []string
		for s := range servers {
			names = append(names, s)
		}
		sort.Strings(names)
		for rep := 0; rep < 3; rep++ {
			var table [][2]string
			for _, s := range names {
				table = append(table, [2]string{s, Pick(r, []string{"0", "1", "1"})})
			}
			im := o.Do("verify_all", ver, strings.Join(args, "|"), scriptArg(table, r.Bool(), false))
			o.Count(fmt.Sprintf("all.%d-events.%d-servers", len(args), len(names)))
			if strings.Contains(im, "ok") && strings.Contains(im, "rej") {
				o.Count("all.mixed-verdicts")
			}
		}
	}
}
