package main

// Bounded-exhaustive enumeration of the abstract rule space of m.room.member events (C07), each abstract
// scenario RENDERED to real events with RoomGen.Mk and run through `auth.allowed`; plus the named witnesses of
// VProps/C07.lean (one per departure D1–D17 of DESIGN.md §6.1, D7 excepted, and the five inputs F1–F5 that failed before
// the repairs 6fda2cc, 17893e1, 81e30aa, ba68227, c0fa8cc).
//
// Dimensions: version x (sender = target?) x sender's membership x target's previous membership x new membership
// x join rule (7 values incl. absent / unknown) x relation of the sender's level to the threshold (<,=,>) x relation of the
// target's level to the sender's (<,=,>) x create present x m.federate / domains x authoriser state (absent / not
// joined / joined without power / joined with power) x power-levels event present x third-party-invite state.
// Irrelevant combinations are pruned (levels only matter for invite / kick / ban by a joined sender, the authoriser only
// for joins under restricted rules, ...).  thorough = everything; quick = a seeded 5 % sample.

import (
	"crypto/ed25519"
	"encoding/base64"
	"encoding/json"

	gmsl "github.com/matrix-org/gomatrixserverlib"
	"github.com/matrix-org/gomatrixserverlib/spec"
)

var asMemberships = []string{"", "join", "leave", "invite", "ban", "knock"} // "" = no member event
var asNewMemberships = []string{"join", "leave", "invite", "ban", "knock", "bogus"}
var asJoinRules = []string{"public", "invite", "knock", "restricted", "knock_restricted", "private", ""} // "" = no join_rules event

type asScenario struct {
	ver        string
	self       bool
	sm, tm     string // sender's / target's current membership ("" = none)
	newM       string
	jr         string
	sRel, tRel int    // -1, 0, +1: sender level vs threshold (50); target level vs sender level
	create     bool   // create event among the auth events
	fed        int    // 0: m.federate absent, sender on the creator's server; 1: m.federate=false, other server; 2: m.federate=false, same server; 3: absent, other server
	auth       int    // authoriser: 0 absent, 1 not joined, 2 joined without power, 3 joined with power
	pl         bool   // power-levels event present
	senderIsCr bool   // the sender is the room creator
}

// render builds the events of one scenario and runs it.
func (s asScenario) run(o *Out, r *Rng) {
	g := NewRoomGen(r, s.ver)
	creator := "@creator:hs1"
	sender := "@alice:hs1"
	if s.fed == 1 || s.fed == 3 {
		sender = "@alice:hs2"
	}
	if s.senderIsCr {
		sender = creator
	}
	target := sender
	if !s.self {
		target = "@tim:hs1"
	}
	authoriser := "@auth:hs1"
	cc := map[string]interface{}{"creator": creator, "room_version": s.ver}
	// auth modes 4 / 5: the authorising user is the room creator / an additional creator (no entry in `users`:
	// privileged in version 12, an ordinary defaulted user elsewhere)
	if s.auth == 4 {
		authoriser = creator
	}
	if s.auth == 5 {
		authoriser = "@cocreator:hs1"
		cc["additional_creators"] = []string{authoriser}
	}
	if s.fed == 1 || s.fed == 2 {
		cc["m.federate"] = false
	}
	create := g.MkCreate(creator, cc)
	if create == nil {
		o.Count("authspace.construct-refused")
		return
	}
	var auth []*Ev
	if s.create {
		auth = append(auth, create)
	}
	add := func(e *Ev) {
		if e != nil {
			auth = append(auth, e)
		}
	}
	if s.pl {
		sl := int64(50 + s.sRel)
		users := map[string]interface{}{sender: sl}
		if !s.self {
			users[target] = sl + int64(s.tRel)
		}
		if s.auth < 4 {
			users[authoriser] = int64(0)
		}
		if s.auth == 3 {
			users[authoriser] = int64(50)
		}
		if sender == creator && (s.ver == "12" || s.ver == "org.matrix.hydra.11") {
			delete(users, creator)
		}
		plc := map[string]interface{}{"users": users, "ban": 50, "kick": 50, "invite": 50, "state_default": 50}
		add(g.Mk(spec.MRoomPowerLevels, creator, sp(""), plc, nil, nil, nil))
	}
	if s.jr != "" {
		c := map[string]interface{}{"join_rule": s.jr}
		if s.jr == "restricted" || s.jr == "knock_restricted" {
			c["allow"] = []map[string]interface{}{{"type": "m.room_membership", "room_id": "!other:hs1"}}
		}
		add(g.Mk(spec.MRoomJoinRules, creator, sp(""), c, nil, nil, nil))
	}
	if s.sm != "" {
		add(g.Mk(spec.MRoomMember, sender, sp(sender), map[string]interface{}{"membership": s.sm}, nil, nil, nil))
	}
	if !s.self && s.tm != "" {
		add(g.Mk(spec.MRoomMember, creator, sp(target), map[string]interface{}{"membership": s.tm}, nil, nil, nil))
	}
	content := map[string]interface{}{"membership": s.newM}
	if s.auth > 0 {
		content["join_authorised_via_users_server"] = authoriser
		switch s.auth {
		case 1:
			add(g.Mk(spec.MRoomMember, authoriser, sp(authoriser), map[string]interface{}{"membership": "leave"}, nil, nil, nil))
		case 2, 3, 4, 5:
			if authoriser != sender {
				add(g.Mk(spec.MRoomMember, authoriser, sp(authoriser), map[string]interface{}{"membership": "join"}, nil, nil, nil))
			}
		}
	}
	ev := g.Mk(spec.MRoomMember, sender, sp(target), content, []string{"$prev:hs1"}, nil, nil)
	if ev == nil {
		o.Count("authspace.construct-refused")
		return
	}
	args := []string{s.ver, "0", ev.Arg()}
	for _, a := range auth {
		args = append(args, a.Arg())
	}
	res := o.Do("allowed", args...)
	o.Count("authspace." + s.newM + "." + res)
}

// enumAuthSpace calls f on every scenario of the pruned product.
func enumAuthSpace(f func(asScenario)) {
	for _, ver := range allVersions {
		base := asScenario{ver: ver, create: true, pl: true}
		// the sender changes their own membership
		for _, sm := range asMemberships {
			for _, nm := range asNewMemberships {
				for _, jr := range asJoinRules {
					s := base
					s.self, s.sm, s.tm, s.newM, s.jr = true, sm, sm, nm, jr
					auths := []int{0}
					if nm == "join" && (jr == "restricted" || jr == "knock_restricted") {
						auths = []int{0, 1, 2, 3, 4, 5}
					}
					for _, a := range auths {
						s.auth = a
						for _, fed := range []int{0, 1, 2, 3} {
							s.fed = fed
							f(s)
						}
						// no power-levels event (defaults), no create event
						t := s
						t.pl = false
						f(t)
						t = s
						t.create = false
						f(t)
					}
				}
			}
		}
		// the sender changes somebody else's membership
		for _, sm := range asMemberships {
			for _, tm := range asMemberships {
				for _, nm := range asNewMemberships {
					for _, jr := range []string{"public", "invite"} {
						s := base
						s.sm, s.tm, s.newM, s.jr = sm, tm, nm, jr
						levels := [][2]int{{0, -1}}
						if sm == "join" && (nm == "invite" || nm == "leave" || nm == "ban") {
							levels = [][2]int{{-1, -1}, {-1, 0}, {-1, 1}, {0, -1}, {0, 0}, {0, 1}, {1, -1}, {1, 0}, {1, 1}}
						}
						for _, l := range levels {
							s.sRel, s.tRel = l[0], l[1]
							for _, fed := range []int{0, 1} {
								s.fed = fed
								f(s)
							}
						}
						if jr == "public" {
							// the creator acts without a power-levels event; no create event
							t := s
							t.pl, t.senderIsCr = false, true
							f(t)
							t = s
							t.create = false
							f(t)
						}
					}
				}
			}
		}
	}
}

// The named witnesses of VProps/C07.lean (same events, rendered by the real constructors).
type asWitness struct {
	name  string
	ver   string
	sig   bool
	build func(g *RoomGen) (ev *Ev, auth []*Ev)
}

func memberEv(g *RoomGen, u, m string) *Ev {
	return g.Mk(spec.MRoomMember, u, sp(u), map[string]interface{}{"membership": m}, nil, nil, nil)
}

func authWitnesses() []asWitness {
	cr := "@c:hs1"
	mkCreate := func(g *RoomGen, content map[string]interface{}) *Ev {
		if content == nil {
			content = map[string]interface{}{"creator": cr}
		}
		return g.MkCreate(cr, content)
	}
	prev := []string{"$p:hs1"}
	num := func(s string) json.RawMessage { return json.RawMessage(s) }
	return []asWitness{
		{"D1", "10", false, func(g *RoomGen) (*Ev, []*Ev) {
			c := mkCreate(g, nil)
			return g.Mk(spec.MRoomMember, "@a:hs1", sp("@a:hs1"), map[string]interface{}{"membership": "leave"}, prev, nil, nil),
				[]*Ev{c, memberEv(g, "@a:hs1", "leave")}
		}},
		{"D2", "10", false, func(g *RoomGen) (*Ev, []*Ev) {
			c := mkCreate(g, nil)
			return g.Mk(spec.MRoomPowerLevels, cr, sp(""), map[string]interface{}{"users": map[string]interface{}{cr: 150}}, prev, nil, nil),
				[]*Ev{c, memberEv(g, cr, "join")}
		}},
		{"D3", "10", false, func(g *RoomGen) (*Ev, []*Ev) {
			c := mkCreate(g, nil)
			return g.Mk(spec.MRoomPowerLevels, cr, sp(""), map[string]interface{}{"ban": num("9007199254740992")}, prev, nil, nil),
				[]*Ev{c, memberEv(g, cr, "join")}
		}},
		{"D4", "10", false, func(g *RoomGen) (*Ev, []*Ev) {
			c := mkCreate(g, nil)
			users := map[string]interface{}{"@a:hs1": 50, cr: 100}
			old := g.Mk(spec.MRoomPowerLevels, cr, sp(""), map[string]interface{}{"users": users, "events_default": 75}, nil, nil, nil)
			return g.Mk(spec.MRoomPowerLevels, "@a:hs1", sp(""), map[string]interface{}{"users": users, "events_default": 75, "events": map[string]interface{}{"x": 10}}, prev, nil, nil),
				[]*Ev{c, memberEv(g, "@a:hs1", "join"), old}
		}},
		{"D5", "10", false, func(g *RoomGen) (*Ev, []*Ev) {
			c := mkCreate(g, nil)
			return g.Mk(spec.MRoomRedaction, "@a:hs1", nil, map[string]interface{}{}, prev, nil, map[string]interface{}{"redacts": "$x:hs2"}),
				[]*Ev{c, memberEv(g, "@a:hs1", "join")}
		}},
		{"D6", "10", false, func(g *RoomGen) (*Ev, []*Ev) {
			c := mkCreate(g, nil)
			return g.Mk(spec.MRoomAliases, "@a:hs1", sp("hs1"), map[string]interface{}{}, prev, nil, nil), []*Ev{c}
		}},
		{"D8", "10", false, func(g *RoomGen) (*Ev, []*Ev) {
			c := mkCreate(g, nil)
			return g.Mk(spec.MRoomPowerLevels, cr, sp(""), map[string]interface{}{"users": map[string]interface{}{"@Alice:hs1": 0}}, prev, nil, nil),
				[]*Ev{c, memberEv(g, cr, "join")}
		}},
		{"D9", "8", false, func(g *RoomGen) (*Ev, []*Ev) {
			c := mkCreate(g, nil)
			jr := g.Mk(spec.MRoomJoinRules, cr, sp(""), map[string]interface{}{"join_rule": "knock_restricted"}, nil, nil, nil)
			return g.Mk(spec.MRoomMember, "@a:hs1", sp("@a:hs1"), map[string]interface{}{"membership": "knock"}, prev, nil, nil), []*Ev{c, jr}
		}},
		{"D10", "10", false, func(g *RoomGen) (*Ev, []*Ev) {
			c := mkCreate(g, nil)
			pl := g.Mk(spec.MRoomPowerLevels, cr, sp(""), map[string]interface{}{"users": map[string]interface{}{"@a:hs1": 50, "@t:hs1": 75}}, nil, nil, nil)
			tb := g.Mk(spec.MRoomMember, cr, sp("@t:hs1"), map[string]interface{}{"membership": "ban"}, nil, nil, nil)
			return g.Mk(spec.MRoomMember, "@a:hs1", sp("@t:hs1"), map[string]interface{}{"membership": "leave"}, prev, nil, nil),
				[]*Ev{c, memberEv(g, "@a:hs1", "join"), tb, pl}
		}},
		{"D11", "10", false, func(g *RoomGen) (*Ev, []*Ev) {
			c := mkCreate(g, nil)
			users := map[string]interface{}{"@a:hs1": 50}
			old := g.Mk(spec.MRoomPowerLevels, cr, sp(""), map[string]interface{}{"users": users, "notifications": map[string]interface{}{"room": 50}}, nil, nil, nil)
			return g.Mk(spec.MRoomPowerLevels, "@a:hs1", sp(""), map[string]interface{}{"users": users, "notifications": map[string]interface{}{"room": 40}}, prev, nil, nil),
				[]*Ev{c, memberEv(g, "@a:hs1", "join"), old}
		}},
		{"D12", "10", false, func(g *RoomGen) (*Ev, []*Ev) {
			c := mkCreate(g, nil)
			return g.Mk(spec.MRoomMember, "@a:hs1", sp(cr), map[string]interface{}{"membership": "join"}, []string{c.ID}, nil, nil), []*Ev{c}
		}},
		{"D13", "10", false, func(g *RoomGen) (*Ev, []*Ev) {
			return g.Mk(spec.MRoomCreate, cr, sp(""), map[string]interface{}{"creator": nil}, nil, nil, nil), nil
		}},
		{"D14", "org.matrix.msc4014", false, func(g *RoomGen) (*Ev, []*Ev) {
			c := mkCreate(g, map[string]interface{}{"creator": cr, "m.federate": false})
			jr := g.Mk(spec.MRoomJoinRules, cr, sp(""), map[string]interface{}{"join_rule": "public"}, nil, nil, nil)
			return g.Mk(spec.MRoomMember, "@a:hs2", sp("@a:hs2"), map[string]interface{}{"membership": "join",
				"mxid_mapping": map[string]interface{}{"user_room_key": "k", "user_id": "@a:hs1"}}, prev, nil, nil), []*Ev{c, jr}
		}},
		{"D15", "9", false, func(g *RoomGen) (*Ev, []*Ev) {
			c := mkCreate(g, nil)
			return g.Mk(spec.MRoomPowerLevels, cr, sp(""), map[string]interface{}{"ban": "50"}, prev, nil, nil), []*Ev{c, memberEv(g, cr, "join")}
		}},
		{"D16", "10", false, func(g *RoomGen) (*Ev, []*Ev) {
			c := mkCreate(g, nil)
			jr := g.Mk(spec.MRoomJoinRules, cr, sp(""), map[string]interface{}{"join_rule": "private"}, nil, nil, nil)
			inv := g.Mk(spec.MRoomMember, cr, sp("@a:hs1"), map[string]interface{}{"membership": "invite"}, nil, nil, nil)
			return g.Mk(spec.MRoomMember, "@a:hs1", sp("@a:hs1"), map[string]interface{}{"membership": "join"}, prev, nil, nil), []*Ev{c, jr, inv}
		}},
		{"F1", "10", false, func(g *RoomGen) (*Ev, []*Ev) {
			c := mkCreate(g, nil)
			jr := g.Mk(spec.MRoomJoinRules, cr, sp(""), map[string]interface{}{"join_rule": "public"}, nil, nil, nil)
			return g.Mk(spec.MRoomMember, "@a:hs1", sp("@a:hs1"), map[string]interface{}{"membership": "join"}, prev, nil, nil),
				[]*Ev{c, jr, memberEv(g, "@a:hs1", "knock")}
		}},
		{"F2", "10", false, func(g *RoomGen) (*Ev, []*Ev) {
			c := mkCreate(g, nil)
			return g.Mk(spec.MRoomThirdPartyInvite, cr, sp("@o:hs1"), map[string]interface{}{}, prev, nil, nil), []*Ev{c, memberEv(g, cr, "join")}
		}},
		{"D17", "10", false, func(g *RoomGen) (*Ev, []*Ev) {
			c := mkCreate(g, nil)
			return g.Mk(spec.MRoomRedaction, cr, nil, map[string]interface{}{}, prev, nil, nil), []*Ev{c, memberEv(g, cr, "join")}
		}},
		{"F3", "11", false, func(g *RoomGen) (*Ev, []*Ev) {
			return g.Mk(spec.MRoomCreate, cr, sp(""), map[string]interface{}{"room_version": "99"}, nil, nil, nil), nil
		}},
		{"F4", "10", false, func(g *RoomGen) (*Ev, []*Ev) {
			c := mkCreate(g, nil)
			jr := g.Mk(spec.MRoomJoinRules, cr, sp(""), map[string]interface{}{"join_rule": "public"}, nil, nil, nil)
			return g.Mk(spec.MRoomMember, "@a:hs1", sp("@a:hs1"), map[string]interface{}{"membership": "join", "third_party_invite": map[string]interface{}{}}, prev, nil, nil), []*Ev{c, jr}
		}},
		{"F5", "10", false, func(g *RoomGen) (*Ev, []*Ev) {
			c := mkCreate(g, map[string]interface{}{"creator": cr, "m.federate": false})
			jr := g.Mk(spec.MRoomJoinRules, cr, sp(""), map[string]interface{}{"join_rule": "public"}, nil, nil, nil)
			return g.Mk(spec.MRoomMember, "@a:hs2", sp("@a:hs2"), map[string]interface{}{"membership": "join",
				"mxid_mapping": map[string]interface{}{"user_room_key": "k", "user_id": "@a:hs1"}}, prev, nil, nil), []*Ev{c, jr}
		}},
		// --- round 4: the inputs of the defects A1-A4 (audit), each a concrete violation before its repair
		// A1: version 12, the creator (not listed in `users`: privileged) changes a NOTIFICATION level
		{"A1", "12", false, func(g *RoomGen) (*Ev, []*Ev) {
			c := mkCreate(g, map[string]interface{}{"room_version": "12"})
			users := map[string]interface{}{"@a:hs1": 50}
			old := g.Mk(spec.MRoomPowerLevels, cr, sp(""), map[string]interface{}{"users": users}, nil, nil, nil)
			return g.Mk(spec.MRoomPowerLevels, cr, sp(""), map[string]interface{}{"users": users, "notifications": map[string]interface{}{"room": 60}}, prev, nil, nil),
				[]*Ev{c, memberEv(g, cr, "join"), old}
		}},
		// A1 (additional creator, no power-levels event at all)
		{"A1b", "12", false, func(g *RoomGen) (*Ev, []*Ev) {
			c := mkCreate(g, map[string]interface{}{"room_version": "12", "additional_creators": []string{"@b:hs1"}})
			return g.Mk(spec.MRoomPowerLevels, "@b:hs1", sp(""), map[string]interface{}{"notifications": map[string]interface{}{"room": 100}}, prev, nil, nil),
				[]*Ev{c, memberEv(g, "@b:hs1", "join")}
		}},
		// A2: version 10 and later: `null` where an integer level / an object of integer levels is required
		{"A2a", "10", false, func(g *RoomGen) (*Ev, []*Ev) {
			c := mkCreate(g, nil)
			return g.Mk(spec.MRoomPowerLevels, cr, sp(""), map[string]interface{}{"ban": nil}, prev, nil, nil), []*Ev{c, memberEv(g, cr, "join")}
		}},
		{"A2b", "11", false, func(g *RoomGen) (*Ev, []*Ev) {
			c := mkCreate(g, nil)
			return g.Mk(spec.MRoomPowerLevels, cr, sp(""), map[string]interface{}{"users": map[string]interface{}{"@a:hs1": nil}}, prev, nil, nil), []*Ev{c, memberEv(g, cr, "join")}
		}},
		{"A2c", "10", false, func(g *RoomGen) (*Ev, []*Ev) {
			c := mkCreate(g, nil)
			return g.Mk(spec.MRoomPowerLevels, cr, sp(""), map[string]interface{}{"events": nil}, prev, nil, nil), []*Ev{c, memberEv(g, cr, "join")}
		}},
		{"A2d", "org.matrix.msc3667", false, func(g *RoomGen) (*Ev, []*Ev) {
			c := mkCreate(g, nil)
			return g.Mk(spec.MRoomPowerLevels, cr, sp(""), map[string]interface{}{"events": map[string]interface{}{"m.room.name": nil}}, prev, nil, nil), []*Ev{c, memberEv(g, cr, "join")}
		}},
		{"A2e", "10", false, func(g *RoomGen) (*Ev, []*Ev) {
			c := mkCreate(g, nil)
			return g.Mk(spec.MRoomPowerLevels, cr, sp(""), map[string]interface{}{"notifications": map[string]interface{}{"room": nil}}, prev, nil, nil), []*Ev{c, memberEv(g, cr, "join")}
		}},
		{"A2f", "12", false, func(g *RoomGen) (*Ev, []*Ev) {
			c := mkCreate(g, map[string]interface{}{"room_version": "12"})
			return g.Mk(spec.MRoomPowerLevels, cr, sp(""), map[string]interface{}{"users": nil, "state_default": nil}, prev, nil, nil), []*Ev{c, memberEv(g, cr, "join")}
		}},
		// A3: a power-levels AUTH event that does not parse (`"ban":"x"`): a level-0 member changes the join rules
		{"A3", "10", false, func(g *RoomGen) (*Ev, []*Ev) {
			c := mkCreate(g, nil)
			pl := g.Mk(spec.MRoomPowerLevels, cr, sp(""), map[string]interface{}{"users": map[string]interface{}{cr: 100}, "ban": "x"}, nil, nil, nil)
			return g.Mk(spec.MRoomJoinRules, "@a:hs1", sp(""), map[string]interface{}{"join_rule": "public"}, prev, nil, nil),
				[]*Ev{c, memberEv(g, "@a:hs1", "join"), pl}
		}},
		{"A3b", "6", false, func(g *RoomGen) (*Ev, []*Ev) {
			c := mkCreate(g, nil)
			pl := g.Mk(spec.MRoomPowerLevels, cr, sp(""), map[string]interface{}{"users": map[string]interface{}{cr: 100}, "ban": "x"}, nil, nil, nil)
			return g.Mk("m.room.topic", "@a:hs1", sp(""), map[string]interface{}{"topic": "t"}, prev, nil, nil),
				[]*Ev{c, memberEv(g, "@a:hs1", "join"), pl}
		}},
		// A3 (version 10: a float is not an integer there)
		{"A3c", "10", false, func(g *RoomGen) (*Ev, []*Ev) {
			c := mkCreate(g, nil)
			pl := g.Mk(spec.MRoomPowerLevels, cr, sp(""), map[string]interface{}{"users": map[string]interface{}{cr: 100}, "state_default": num("50.5")}, nil, nil, nil)
			return g.Mk("m.room.name", "@a:hs1", sp(""), map[string]interface{}{"name": "n"}, prev, nil, nil),
				[]*Ev{c, memberEv(g, "@a:hs1", "join"), pl}
		}},
		// A7 (DECISION, no defect under the D3 / D4 reading): state_default 100, the sender at 50 may send power levels
		// (events[m.room.power_levels] = 50) and ADDS events[m.room.join_rules] = 0 - the effective level of that type for a
		// non-state event was events_default = 0, so "no change"; for the state event it was state_default = 100
		{"A7", "10", false, func(g *RoomGen) (*Ev, []*Ev) {
			c := mkCreate(g, nil)
			users := map[string]interface{}{cr: 100, "@a:hs1": 50}
			old := g.Mk(spec.MRoomPowerLevels, cr, sp(""), map[string]interface{}{"users": users, "state_default": 100,
				"events": map[string]interface{}{"m.room.power_levels": 50}}, nil, nil, nil)
			return g.Mk(spec.MRoomPowerLevels, "@a:hs1", sp(""), map[string]interface{}{"users": users, "state_default": 100,
					"events": map[string]interface{}{"m.room.power_levels": 50, "m.room.join_rules": 0}}, prev, nil, nil),
				[]*Ev{c, memberEv(g, "@a:hs1", "join"), old}
		}},
		// A4: a version without knocking: `knock` -> `leave` by the user themselves
		{"A4", "5", false, func(g *RoomGen) (*Ev, []*Ev) {
			c := mkCreate(g, nil)
			return g.Mk(spec.MRoomMember, "@a:hs1", sp("@a:hs1"), map[string]interface{}{"membership": "leave"}, prev, nil, nil),
				[]*Ev{c, memberEv(g, "@a:hs1", "knock")}
		}},
	}
}

// run3pid renders one third-party-invite scenario (rule 5.4.1 / D7) with a real ed25519 signature.
// sigOK: the signature verifies; key: the signing key is listed in public_keys; mxid: signed.mxid is the target;
// tm: the target's membership; tpe: the m.room.third_party_invite event exists; sj: the sender is joined.
func run3pid(o *Out, r *Rng, ver string, sigOK, key, mxid bool, tm string, tpe, sj bool) {
	g := NewRoomGen(r, ver)
	creator, sender, target := "@creator:hs1", "@alice:hs1", "@tim:hs1"
	create := g.MkCreate(creator, map[string]interface{}{"creator": creator, "room_version": ver})
	if create == nil {
		return
	}
	auth := []*Ev{create}
	add := func(e *Ev) {
		if e != nil {
			auth = append(auth, e)
		}
	}
	if sj {
		add(g.Mk(spec.MRoomMember, sender, sp(sender), map[string]interface{}{"membership": "join"}, nil, nil, nil))
	}
	if tm != "" {
		add(g.Mk(spec.MRoomMember, creator, sp(target), map[string]interface{}{"membership": tm}, nil, nil, nil))
	}
	pub, priv, _ := ed25519.GenerateKey(newDetReader(r))
	signed := map[string]interface{}{"mxid": target, "token": "tok1"}
	if !mxid {
		signed["mxid"] = "@other:hs1"
	}
	sb, _ := json.Marshal(signed)
	signedJSON, err := gmsl.SignJSON("idserver", "ed25519:0", priv, sb)
	if err != nil {
		return
	}
	if !sigOK { // signature over a different object
		sb2, _ := json.Marshal(map[string]interface{}{"mxid": signed["mxid"], "token": "tok2"})
		s2, _ := gmsl.SignJSON("idserver", "ed25519:0", priv, sb2)
		var m1, m2 map[string]interface{}
		_ = json.Unmarshal(signedJSON, &m1)
		_ = json.Unmarshal(s2, &m2)
		m1["signatures"] = m2["signatures"]
		signedJSON, _ = json.Marshal(m1)
	}
	keys := []map[string]interface{}{}
	other, _, _ := ed25519.GenerateKey(newDetReader(r))
	keys = append(keys, map[string]interface{}{"public_key": base64.RawStdEncoding.EncodeToString(other), "key_validity_url": "https://y"})
	if key {
		keys = append(keys, map[string]interface{}{"public_key": base64.RawStdEncoding.EncodeToString(pub), "key_validity_url": "https://x"})
	}
	if tpe {
		add(g.Mk(spec.MRoomThirdPartyInvite, creator, sp("tok1"), map[string]interface{}{"display_name": "x", "key_validity_url": "https://x",
			"public_key": base64.RawStdEncoding.EncodeToString(pub), "public_keys": keys}, nil, nil, nil))
	}
	content := map[string]interface{}{"membership": "invite",
		"third_party_invite": map[string]interface{}{"display_name": "x", "signed": json.RawMessage(signedJSON)}}
	ev := g.Mk(spec.MRoomMember, sender, sp(target), content, []string{"$prev:hs1"}, nil, nil)
	if ev == nil {
		return
	}
	sig := "0"
	if sigOK && key {
		sig = "1"
	}
	args := []string{ver, sig, ev.Arg()}
	for _, a := range auth {
		args = append(args, a.Arg())
	}
	res := o.Do("allowed", args...)
	o.Count("authspace.3pid." + res)
}

func enum3pid(f func(ver string, sigOK, key, mxid bool, tm string, tpe, sj bool)) {
	bools := []bool{true, false}
	for _, ver := range allVersions {
		for _, sigOK := range bools {
			for _, key := range bools {
				for _, mxid := range bools {
					for _, tm := range []string{"", "ban", "join"} {
						for _, tpe := range bools {
							for _, sj := range bools {
								f(ver, sigOK, key, mxid, tm, tpe, sj)
							}
						}
					}
				}
			}
		}
	}
}

// genAuthSpace: named witnesses, then the enumeration (thorough: all of it; quick: a seeded 5 % sample).
func genAuthSpace(o *Out, tier string, r *Rng) {
	for _, w := range authWitnesses() {
		g := NewRoomGen(r, w.ver)
		ev, auth := w.build(g)
		if ev == nil {
			o.Count("authspace.witness-refused." + w.name)
			continue
		}
		sig := "0"
		if w.sig {
			sig = "1"
		}
		args := []string{w.ver, sig, ev.Arg()}
		for _, a := range auth {
			if a != nil {
				args = append(args, a.Arg())
			}
		}
		res := o.Do("allowed", args...)
		o.Count("authspace.witness." + w.name + "." + res)
	}
	if tier == "witness" {
		return
	}
	enumAuthSpace(func(s asScenario) {
		if tier != "thorough" && r.Intn(100) >= 5 {
			return
		}
		s.run(o, r)
	})
	enum3pid(func(ver string, sigOK, key, mxid bool, tm string, tpe, sj bool) {
		if tier != "thorough" && r.Intn(100) >= 5 {
			return
		}
		run3pid(o, r, ver, sigOK, key, mxid, tm, tpe, sj)
	})
}
