package main

// Area limits (C17): event size / field-length limits on receipt (NewEventFromUntrustedJSON), on the
// trusted path (NewEventFromTrustedJSON + CheckFields) and on build (EventBuilder.Build), for every
// registered room version.
//
// op line:  limits.<trusted|untrusted|build> <ver> <shape> <jsonlen> <type> <state_key|~> <sender> <room_id>
// The event is reconstructed deterministically from the arguments: the fields as given, and a content
// {"p":"xxx…"} padded so that the event JSON has exactly <jsonlen> bytes.
//           limits.<build_unsigned|trusted_setunsigned> (same arguments): the padding sits under `unsigned` instead
// ({"p":"xxx…"} as the proto-event's Unsigned handed to Build; resp. SetUnsigned on a small trusted event, then
// CheckFields): the JSON of the event — what JSON() returns, what is stored and sent — has <jsonlen> bytes all the same.

import (
	"crypto/sha256"
	"encoding/base64"
	"encoding/json"
	"errors"
	"strconv"
	"strings"
	"time"
	"unicode/utf8"

	gmsl "github.com/matrix-org/gomatrixserverlib"
	"github.com/matrix-org/gomatrixserverlib/spec"
	"golang.org/x/crypto/ed25519"
)

func init() { areas["limits"] = Area{Gen: genLimits, Exec: execLimits} }

func classifyEventErr(err error) string {
	if err == nil {
		return "ok"
	}
	var ve gmsl.EventValidationError
	if errors.As(err, &ve) && ve.Code == gmsl.EventValidationTooLarge {
		if ve.Persistable {
			return "err:toolarge-persistable"
		}
		return "err:toolarge"
	}
	return "err:other"
}

func jsonStr(s string) string {
	b, _ := json.Marshal(s)
	// json.Marshal escapes <, >, & and U+2028/9: the generator never uses them
	return string(b)
}

// eventJSON writes the canonical JSON of the probe event (keys sorted, no spaces); hash = "" omits "hashes".
func limitsEventJSON(format int, typ string, sk *string, sender, room string, pad int, hash string) string {
	var sb strings.Builder
	if pad < 0 { // the redacted form: empty content
		sb.WriteString(`{"auth_events":[],"content":{},"depth":1,`)
	} else {
		sb.WriteString(`{"auth_events":[],"content":{"p":"`)
		sb.WriteString(strings.Repeat("x", pad))
		sb.WriteString(`"},"depth":1,`)
	}
	if format == 1 {
		sb.WriteString(`"event_id":"$e:b",`)
	}
	if hash != "" {
		sb.WriteString(`"hashes":{"sha256":"` + hash + `"},`)
	}
	sb.WriteString(`"origin_server_ts":1,"prev_events":[],"room_id":` + jsonStr(room) + `,"sender":` + jsonStr(sender))
	if sk != nil {
		sb.WriteString(`,"state_key":` + jsonStr(*sk))
	}
	sb.WriteString(`,"type":` + jsonStr(typ) + `}`)
	return sb.String()
}

// limitsMinLen is the JSON length with an empty pad.
func limitsMinLen(format int, typ string, sk *string, sender, room string) int {
	return len(limitsEventJSON(format, typ, sk, sender, room, 0, strings.Repeat("A", 43)))
}

var limitsKey = ed25519.NewKeyFromSeed([]byte("verif-limits-harness-seed-000001"))

func limitsBuild(verImpl gmsl.IRoomVersion, typ string, sk *string, sender, room string, pad int) (gmsl.PDU, error) {
	eb := verImpl.NewEventBuilderFromProtoEvent(&gmsl.ProtoEvent{
		SenderID: sender, RoomID: room, Type: typ, StateKey: sk, Depth: 1,
		Content: spec.RawJSON(`{"p":"` + strings.Repeat("x", pad) + `"}`),
	})
	return eb.Build(time.UnixMilli(1700000000000), "b", "ed25519:1", limitsKey)
}

// limitsBuildU: the same proto-event with an empty content pad and the padding under `unsigned`
func limitsBuildU(verImpl gmsl.IRoomVersion, typ string, sk *string, sender, room string, pad int) (gmsl.PDU, error) {
	eb := verImpl.NewEventBuilderFromProtoEvent(&gmsl.ProtoEvent{
		SenderID: sender, RoomID: room, Type: typ, StateKey: sk, Depth: 1,
		Content:  spec.RawJSON(`{"p":""}`),
		Unsigned: spec.RawJSON(`{"p":"` + strings.Repeat("x", pad) + `"}`),
	})
	return eb.Build(time.UnixMilli(1700000000000), "b", "ed25519:1", limitsKey)
}

// the bytes SetUnsigned({"p":""}) adds to an event without an unsigned member: `"unsigned":{"p":""},`
const limitsUnsignedOverhead = len(`"unsigned":{"p":""},`)

// coarseClass maps an error kind to the three classes the property distinguishes.
func coarseClass(fine string) string {
	switch fine {
	case "ok":
		return "ok"
	case "err:toolarge-persistable":
		return "persistable"
	case "err:other", "err:toolarge":
		return "refused"
	}
	return fine
}

func execLimits(op string, args []string) string {
	if strings.HasSuffix(op, "_fine") {
		return execLimitsFine(strings.TrimSuffix(op, "_fine"), args)
	}
	return coarseClass(execLimitsFine(op, args))
}

func execLimitsFine(op string, args []string) string {
	if op == "receipt_text" && len(args) == 2 {
		// limits.receipt_text <ver> <text>: receipt of an arbitrary event text
		verImpl, err := gmsl.GetRoomVersion(gmsl.RoomVersion(args[0]))
		if err != nil {
			return "err:version"
		}
		_, err = verImpl.NewEventFromUntrustedJSON(unhx(args[1]))
		return classifyEventErr(err)
	}
	if op == "untrusted_badhash" && len(args) == 8 {
		return execLimitsBadHash(args)
	}
	if len(args) != 7 {
		return "bad-op"
	}
	verImpl, err := gmsl.GetRoomVersion(gmsl.RoomVersion(args[0]))
	if err != nil {
		return "err:version"
	}
	jsonLen, _ := strconv.Atoi(args[2])
	typ := string(unhx(args[3]))
	var sk *string
	if args[4] != "~" {
		s := string(unhx(args[4]))
		sk = &s
	}
	sender, room := string(unhx(args[5])), string(unhx(args[6]))
	format := int(verImpl.EventFormat())
	switch op {
	case "trusted", "untrusted":
		pad := jsonLen - limitsMinLen(format, typ, sk, sender, room)
		if pad < 0 {
			return "harness:jsonlen-too-small"
		}
		// content hash over the event without "hashes" (it has no signatures / unsigned)
		sum := sha256.Sum256([]byte(limitsEventJSON(format, typ, sk, sender, room, pad, "")))
		js := []byte(limitsEventJSON(format, typ, sk, sender, room, pad, base64.RawStdEncoding.EncodeToString(sum[:])))
		if len(js) != jsonLen {
			return "harness:len-mismatch"
		}
		var ev gmsl.PDU
		if op == "trusted" {
			ev, err = verImpl.NewEventFromTrustedJSON(js, false)
			if err == nil {
				err = gmsl.CheckFields(ev)
			}
		} else {
			ev, err = verImpl.NewEventFromUntrustedJSON(js)
			if err == nil && ev.Redacted() {
				return "harness:hash-mismatch-redacted"
			}
		}
		if err == nil && len(ev.JSON()) != jsonLen {
			return "harness:len-mismatch-after-parse"
		}
		return classifyEventErr(err)
	case "build":
		// reference event with short fields to learn the fixed overhead of this version's built events
		empty := ""
		var refSK *string
		if sk != nil {
			refSK = &empty
		}
		ref, err := limitsBuild(verImpl, "t", refSK, "@s:b", "!r:b", 0)
		if err != nil {
			return "harness:reference-build-failed"
		}
		skLen := 0
		if sk != nil {
			skLen = len(*sk)
		}
		pad := jsonLen - (len(ref.JSON()) + len(typ) - 1 + len(sender) - 4 + len(room) - 4 + skLen)
		if pad < 0 {
			return "harness:jsonlen-too-small"
		}
		ev, err := limitsBuild(verImpl, typ, sk, sender, room, pad)
		if err == nil && len(ev.JSON()) != jsonLen {
			return "harness:len-mismatch-after-build"
		}
		return classifyEventErr(err)
	case "build_unsigned":
		empty := ""
		var refSK *string
		if sk != nil {
			refSK = &empty
		}
		ref, err := limitsBuildU(verImpl, "t", refSK, "@s:b", "!r:b", 0)
		if err != nil {
			return "harness:reference-build-failed"
		}
		if len(ref.Unsigned()) == 0 {
			return "harness:reference-build-without-unsigned"
		}
		skLen := 0
		if sk != nil {
			skLen = len(*sk)
		}
		pad := jsonLen - (len(ref.JSON()) + len(typ) - 1 + len(sender) - 4 + len(room) - 4 + skLen)
		if pad < 0 {
			return "harness:jsonlen-too-small"
		}
		ev, err := limitsBuildU(verImpl, typ, sk, sender, room, pad)
		if err == nil && len(ev.JSON()) != jsonLen {
			return "harness:len-mismatch-after-build"
		}
		return classifyEventErr(err)
	case "trusted_setunsigned":
		pad := jsonLen - limitsUnsignedOverhead - limitsMinLen(format, typ, sk, sender, room)
		if pad < 0 {
			return "harness:jsonlen-too-small"
		}
		sum := sha256.Sum256([]byte(limitsEventJSON(format, typ, sk, sender, room, 0, "")))
		js := []byte(limitsEventJSON(format, typ, sk, sender, room, 0, base64.RawStdEncoding.EncodeToString(sum[:])))
		ev, err := verImpl.NewEventFromTrustedJSON(js, false)
		if err != nil {
			return classifyEventErr(err)
		}
		ev2, err := ev.SetUnsigned(map[string]string{"p": strings.Repeat("x", pad)})
		if err != nil {
			return "harness:setunsigned-failed"
		}
		if len(ev2.JSON()) != jsonLen {
			return "harness:len-mismatch-after-setunsigned"
		}
		return classifyEventErr(gmsl.CheckFields(ev2))
	}
	return "bad-op"
}

// execLimitsBadHash: receipt of an event whose content hash does not match.  args: ver shape jsonlen
// redactedlen type sk sender room.  The library redacts such an event and goes on with the redacted form.
func execLimitsBadHash(args []string) string {
	verImpl, err := gmsl.GetRoomVersion(gmsl.RoomVersion(args[0]))
	if err != nil {
		return "err:version"
	}
	jsonLen, _ := strconv.Atoi(args[2])
	rLen, _ := strconv.Atoi(args[3])
	typ := string(unhx(args[4]))
	var sk *string
	if args[5] != "~" {
		s := string(unhx(args[5]))
		sk = &s
	}
	sender, room := string(unhx(args[6])), string(unhx(args[7]))
	format := int(verImpl.EventFormat())
	wrong := strings.Repeat("A", 43)
	pad := jsonLen - limitsMinLen(format, typ, sk, sender, room)
	if pad < 0 {
		return "harness:jsonlen-too-small"
	}
	js := []byte(limitsEventJSON(format, typ, sk, sender, room, pad, wrong))
	if len(js) != jsonLen || len(limitsEventJSON(format, typ, sk, sender, room, -1, wrong)) != rLen {
		return "harness:len-mismatch"
	}
	ev, err := verImpl.NewEventFromUntrustedJSON(js)
	if err == nil && (!ev.Redacted() || len(ev.JSON()) != rLen) {
		return "harness:not-the-redacted-form"
	}
	return classifyEventErr(err)
}

// ---- generator ----------------------------------------------------------------------------------

// a field value of exactly cp code points whose UTF-8 length is as close as possible to `bytes`
// (using 1-, 2-, 3- and 4-byte characters that need no JSON escaping)
func sizedText(prefix, suffix string, cp, bytes int) string {
	cp -= utf8.RuneCountInString(prefix) + utf8.RuneCountInString(suffix)
	bytes -= len(prefix) + len(suffix)
	if cp < 0 {
		cp = 0
	}
	var sb strings.Builder
	sb.WriteString(prefix)
	for cp > 0 {
		extra := bytes - cp // bytes still to spend on top of one per remaining code point
		switch {
		case extra >= 3:
			sb.WriteString("\U0001F600")
			bytes -= 4
		case extra == 2:
			sb.WriteString("€")
			bytes -= 3
		case extra == 1:
			sb.WriteString("é")
			bytes -= 2
		default:
			sb.WriteString("a")
			bytes--
		}
		cp--
	}
	sb.WriteString(suffix)
	return sb.String()
}

// (code points, bytes) pairs around the two limits
var limitSizes = [][2]int{
	{6, 6}, {254, 254}, {255, 255}, // within both
	{128, 256}, {200, 300}, {255, 256}, {255, 1020}, {86, 256}, {64, 256}, // bytes over, code points within
	{256, 256}, {256, 300}, {300, 300}, {256, 1024}, {1000, 1000}, // code points over
}

func limitsShape(jsonLen int, typ string, sk *string, sender, room string) string {
	var parts []string
	if jsonLen > 65536 {
		parts = append(parts, "json")
	}
	f := func(name, v string) {
		if utf8.RuneCountInString(v) > 255 {
			parts = append(parts, name+".cp")
		} else if len(v) > 255 {
			parts = append(parts, name+".b")
		}
	}
	f("type", typ)
	if sk != nil {
		f("sk", *sk)
	}
	f("sender", sender)
	f("room", room)
	if len(parts) == 0 {
		return "within"
	}
	return strings.Join(parts, "+")
}

func genLimits(o *Out, tier string, r *Rng) {
	thorough := tier == "thorough"
	emit := func(op, ver string, jsonLen int, typ string, sk *string, sender, room string) {
		verImpl, err := gmsl.GetRoomVersion(gmsl.RoomVersion(ver))
		if err != nil {
			return
		}
		min := limitsMinLen(int(verImpl.EventFormat()), typ, sk, sender, room)
		switch op {
		case "build":
			min += 400 // signatures, origin, hashes, prev_state: the exact overhead is measured in Exec
		case "build_unsigned":
			min += 400 + limitsUnsignedOverhead
		case "trusted_setunsigned":
			min += limitsUnsignedOverhead
		}
		if jsonLen < min {
			jsonLen = min
		}
		skArg := "~"
		if sk != nil {
			skArg = hx([]byte(*sk))
		}
		shape := limitsShape(jsonLen, typ, sk, sender, room)
		a := []string{ver, shape, istr(jsonLen), hx([]byte(typ)), skArg, hx([]byte(sender)), hx([]byte(room))}
		o.Do(op, a...)
		res := o.Do(op+"_fine", a...)
		o.Count(op + "." + res)
		o.Count("shape." + shape)
	}
	emitBad := func(ver string, jsonLen int, typ string, sk *string, sender, room string) {
		verImpl, err := gmsl.GetRoomVersion(gmsl.RoomVersion(ver))
		if err != nil {
			return
		}
		format := int(verImpl.EventFormat())
		if min := limitsMinLen(format, typ, sk, sender, room); jsonLen < min {
			jsonLen = min
		}
		rLen := len(limitsEventJSON(format, typ, sk, sender, room, -1, strings.Repeat("A", 43)))
		skArg := "~"
		if sk != nil {
			skArg = hx([]byte(*sk))
		}
		shape := limitsShape(jsonLen, typ, sk, sender, room)
		a := []string{ver, shape, istr(jsonLen), istr(rLen), hx([]byte(typ)), skArg, hx([]byte(sender)), hx([]byte(room))}
		o.Do("untrusted_badhash", a...)
		res := o.Do("untrusted_badhash_fine", a...)
		o.Count("untrusted_badhash." + res)
	}
	ops := []string{"trusted", "untrusted", "build"}
	jsonLens := []int{0, 65535, 65536, 65537, 70000}
	mkType := func(s [2]int) string { return sizedText("m.", "", s[0], s[1]) }
	mkSender := func(s [2]int) string { return sizedText("@", ":b", s[0], s[1]) }
	mkRoom := func(s [2]int) string { return sizedText("!", ":b", s[0], s[1]) }
	mkSK := func(s [2]int) *string { v := sizedText("", "", s[0], s[1]); return &v }
	small := [2]int{6, 6}

	// 1. one field at a time at every boundary size x JSON length classes x versions x entry points
	for _, ver := range allVersions {
		for _, op := range ops {
			for _, jl := range jsonLens {
				if !thorough && !r.Chance(35) {
					continue
				}
				emit(op, ver, jl, "m.x", nil, "@s:b", "!r:b")
				e := ""
				emit(op, ver, jl, "m.x", &e, "@s:b", "!r:b")
			}
			for _, sz := range limitSizes {
				if !thorough && !r.Chance(25) {
					continue
				}
				jl := Pick(r, []int{0, 0, 0, 65536, 65537})
				emit(op, ver, jl, mkType(sz), nil, "@s:b", "!r:b")
				emit(op, ver, jl, "m.x", mkSK(sz), "@s:b", "!r:b")
				emit(op, ver, jl, "m.x", nil, mkSender(sz), "!r:b")
				emit(op, ver, jl, "m.x", nil, "@s:b", mkRoom(sz))
			}
		}
	}
	o.Sample("limits.trusted 10 type=" + mkType([2]int{128, 256})[:20] + "… (128 code points, 256 bytes)")

	// 1a. the size limit is a limit on the event's JSON, whichever member carries the bytes: the padding under `unsigned`
	// (the proto-event's Unsigned on build; SetUnsigned + CheckFields on an event at hand), JSON length at the boundary
	for _, ver := range allVersions {
		for _, op := range []string{"build_unsigned", "trusted_setunsigned"} {
			for _, jl := range []int{0, 65535, 65536, 65537, 70000, 300000} {
				if !thorough && !r.Chance(50) {
					continue
				}
				e := ""
				if r.Bool() {
					emit(op, ver, jl, "m.x", nil, "@s:b", "!r:b")
				} else {
					emit(op, ver, jl, "m.x", &e, "@s:b", "!r:b")
				}
				o.Count("padding-under-unsigned")
			}
			if thorough || r.Chance(40) {
				sz := Pick(r, limitSizes)
				jl := Pick(r, []int{0, 65536, 65537})
				emit(op, ver, jl, mkType(sz), mkSK(Pick(r, limitSizes)), "@s:b", "!r:b")
				emit(op, ver, jl, "m.x", nil, mkSender(sz), "!r:b")
			}
		}
	}

	// 1b. receipt of events whose content hash does not match (they are redacted before the checks)
	for _, ver := range allVersions {
		for _, jl := range jsonLens {
			if !thorough && !r.Chance(40) {
				continue
			}
			emitBad(ver, jl, "m.x", nil, "@s:b", "!r:b")
			sz := Pick(r, limitSizes)
			e := ""
			emitBad(ver, jl, mkType(sz), &e, "@s:b", "!r:b")
			emitBad(ver, jl, "m.x", mkSK(sz), mkSender(Pick(r, limitSizes)), "!r:b")
			emitBad(ver, jl, "m.x", nil, "@s:b", mkRoom(sz))
		}
	}

	// 1c. create events of the room versions whose room IDs derive from the create event's ID (12, hydra): a room_id
	// member that is present anyway is still the event's room_id field and subject to the limits.  (Build refuses
	// any room ID on such an event — an API contract, not a size decision — so only the parse paths are driven.)
	for _, ver := range allVersions {
		if _, v3 := verFormat(ver); !v3 {
			continue
		}
		e := ""
		for _, sz := range limitSizes {
			if !thorough && !r.Chance(50) {
				continue
			}
			jl := Pick(r, []int{0, 0, 65536})
			emit("untrusted", ver, jl, "m.room.create", &e, "@s:b", mkRoom(sz))
			emit("untrusted", ver, jl, "m.room.create", &e, "@s:b", sizedText("!", "", sz[0], sz[1]))
			emit("trusted", ver, jl, "m.room.create", &e, "@s:b", mkRoom(sz))
			o.Count("create-with-room_id")
		}
	}

	// 1d. the limits apply to the members of the event's JSON: an over-long `type` / `state_key` / `sender` / `room_id`
	// is refused whatever other members (case variants of the name, decoded into the same struct field) say
	for _, ver := range allVersions {
		format, v3 := verFormat(ver)
		room := "!r:b"
		if v3 {
			room = "!" + strings.Repeat("A", 43)
		}
		e := ""
		for _, fam := range structNameVariants {
			name := fam[0]
			if name != "type" && name != "state_key" && name != "sender" && name != "room_id" {
				continue
			}
			if !thorough && !r.Chance(60) {
				continue
			}
			base := []byte(limitsEventJSON(format, "m.x", &e, "@s:b", room, 3, strings.Repeat("A", 43)))
			mode := Pick(r, []int{2, 2, 2, 3, 4, 0})
			t, lab := r.foldVariantText(ver, base, name, fam[1+r.Intn(len(fam)-1)], mode, r.Chance(85))
			res := o.Do("receipt_text", ver, hx(t))
			o.Count("receipt_text." + lab + "." + res)
		}
	}

	// 2. combinations: every field independently within / bytes-over / code-points-over
	classes := [][2]int{{6, 6}, {255, 255}, {128, 256}, {256, 256}}
	n := 400
	if thorough {
		n = 12000
	}
	for i := 0; i < n; i++ {
		ver := Pick(r, allVersions)
		op := Pick(r, ops)
		pick := func() [2]int {
			if r.Chance(55) {
				return small
			}
			if r.Chance(30) {
				return Pick(r, limitSizes)
			}
			return Pick(r, classes)
		}
		var sk *string
		if r.Chance(60) {
			sk = mkSK(pick())
		}
		jl := Pick(r, []int{0, 0, 0, 65535, 65536, 65537, 66000})
		emit(op, ver, jl, mkType(pick()), sk, mkSender(pick()), mkRoom(pick()))
	}

	// 3. malformed sender / room IDs (plain errors), domainless room IDs, pseudo-ID senders
	bad := []string{"", "s", "@s", "s:b", "!s:b", "@", ":", "@:", "#s:b"}
	for _, ver := range allVersions {
		for _, b := range bad {
			if !thorough && !r.Chance(30) {
				continue
			}
			op := Pick(r, ops)
			emit(op, ver, 0, "m.x", nil, b, "!r:b")
			rb := strings.Replace(strings.Replace(b, "@", "!", 1), "#", "$", 1)
			emit(op, ver, 0, "m.x", nil, "@s:b", rb)
			emit(op, ver, 0, "m.x", nil, sizedText(b, "", 300, 300), "!r:b")
			emit(op, ver, 0, "m.x", nil, "@s:b", sizedText(rb, "", 300, 300))
		}
		emit(Pick(r, ops), ver, 0, "m.x", nil, "@s:b", "!"+strings.Repeat("A", 43))
		emit(Pick(r, ops), ver, 0, "m.x", nil, strings.Repeat("A", 43), "!r:b")
		emit(Pick(r, ops), ver, 0, "m.x", nil, sizedText("", "", 300, 300), "!r:b")
		emit(Pick(r, ops), ver, 0, "m.x", nil, "@s:b", sizedText("!", "", 300, 300))
	}
}
