package main

// Concurrent KeyRing.VerifyJSONs calls on ONE KeyRing with ONE shared KeyDatabase (op conc.verify2, C19 / C12).
//
// op line:  conc.verify2  <cfg>  <sched>  <impl outcome>
//   cfg     <db>|<world>|<caller>;<caller>[;<caller>]
//           db, world   one entry per server s0, s1, … (`,`-separated), for the key (s<i>, ed25519:a):
//                       `-` no entry | <slot><validity>: slot 0 = the key s<i> signs with, 1 = another key;
//                       validity F = valid_until_ts now+1h | S = valid_until_ts now-1h (past its validity) |
//                       X = expired_ts now-2h (an old key)
//                       db = the initial content of the shared database; world = what the remote side answers
//           caller      <fetch>:<request>+<request>…    fetch: what the key ring's fetcher does for THIS caller:
//                       E the call fails | W it answers the whole world | _ it answers nothing
//                       request <i><at><rule>: a message signed by s<i> (key slot 0, key ID ed25519:a),
//                       at: o = now-3h | n = now-1min;  rule: s = StrictValiditySignatureCheck | l = NoStrictValidityCheck
//   sched   one letter per move: p, q, r = let caller 0, 1, 2 run to its next barrier.  A caller's first move starts its
//           VerifyJSONs call.  The barriers are the three calls that leave the key ring: KeyDatabase.FetchKeys (R),
//           the fetcher's FetchKeys (F), KeyDatabase.StoreKeys (S); the call behind a barrier is executed by the caller's
//           NEXT move.  After the schedule every caller that has not returned is moved until it has, caller 0 first (these moves
//           are part of the trace).
//   outcome <trace>#<verdicts of caller 0>/<caller 1>/…#<final database>
//           trace: one letter per move: R F S = the caller now waits before that call, D = VerifyJSONs returned, - = it had
//           returned before, H = nothing happened within the timeout (the trace ends there)
//           verdicts: one bit per request (1 = Error == nil), `err` = VerifyJSONs returned an error
//
// At every instant at most one goroutine of the scenario is runnable; the database is a map behind a mutex (each of its
// two methods is one critical section); nothing depends on timing.

import (
	"context"
	"errors"
	"strconv"
	"strings"
	"sync"
	"time"

	gmsl "github.com/matrix-org/gomatrixserverlib"
	"github.com/matrix-org/gomatrixserverlib/spec"
)

const (
	v2Hour     = int64(3600000)
	v2AtOld    = -3 * v2Hour
	v2AtNew    = -60000
	v2Fresh    = v2Hour
	v2Stale    = -v2Hour
	v2Expired  = -2 * v2Hour
	v2KeyID    = "ed25519:a"
	v2MaxMoves = 4
)

type v2Req struct {
	srv    int
	at     int64
	strict bool
}

type v2Caller struct {
	fetch byte
	reqs  []v2Req
}

type v2Cfg struct {
	db, world []string
	callers   []v2Caller
}

func v2ParseEntries(s string) ([]string, bool) {
	es := strings.Split(s, ",")
	for _, e := range es {
		if e == "-" {
			continue
		}
		if len(e) != 2 || (e[0] != '0' && e[0] != '1') || !strings.ContainsRune("FSX", rune(e[1])) {
			return nil, false
		}
	}
	return es, true
}

func v2Parse(cfg string) (v2Cfg, bool) {
	var c v2Cfg
	parts := strings.Split(cfg, "|")
	if len(parts) != 3 {
		return c, false
	}
	var ok bool
	if c.db, ok = v2ParseEntries(parts[0]); !ok {
		return c, false
	}
	if c.world, ok = v2ParseEntries(parts[1]); !ok || len(c.world) != len(c.db) || len(c.db) > 3 {
		return c, false
	}
	for _, cs := range strings.Split(parts[2], ";") {
		f := strings.Split(cs, ":")
		if len(f) != 2 || len(f[0]) != 1 || !strings.Contains("EW_", f[0]) {
			return c, false
		}
		k := v2Caller{fetch: f[0][0]}
		if f[1] != "" {
			for _, rs := range strings.Split(f[1], "+") {
				if len(rs) != 3 {
					return c, false
				}
				i := int(rs[0] - '0')
				if i < 0 || i >= len(c.db) || (rs[1] != 'o' && rs[1] != 'n') || (rs[2] != 's' && rs[2] != 'l') {
					return c, false
				}
				at := v2AtOld
				if rs[1] == 'n' {
					at = v2AtNew
				}
				k.reqs = append(k.reqs, v2Req{srv: i, at: at, strict: rs[2] == 's'})
			}
		}
		c.callers = append(c.callers, k)
	}
	if len(c.callers) < 1 || len(c.callers) > 3 {
		return c, false
	}
	return c, true
}

func v2Entry(base int64, i int, code string) gmsl.PublicKeyLookupResult {
	r := gmsl.PublicKeyLookupResult{VerifyKey: gmsl.VerifyKey{Key: spec.Base64Bytes(concKeyOf(100+i, int(code[0]-'0')).pub)}}
	switch code[1] {
	case 'F':
		r.ValidUntilTS = spec.Timestamp(base + v2Fresh)
	case 'S':
		r.ValidUntilTS = spec.Timestamp(base + v2Stale)
	case 'X':
		r.ExpiredTS = spec.Timestamp(base + v2Expired)
	}
	return r
}

func v2ShowEntry(base int64, i int, r gmsl.PublicKeyLookupResult) string {
	slot := "?"
	for j := 0; j < 2; j++ {
		if string(r.Key) == string(concKeyOf(100+i, j).pub) {
			slot = strconv.Itoa(j)
		}
	}
	switch {
	case r.ExpiredTS == 0 && int64(r.ValidUntilTS) == base+v2Fresh:
		return slot + "F"
	case r.ExpiredTS == 0 && int64(r.ValidUntilTS) == base+v2Stale:
		return slot + "S"
	case int64(r.ExpiredTS) == base+v2Expired && r.ValidUntilTS == 0:
		return slot + "X"
	}
	return slot + "?"
}

func v2KeyOf(i int) gmsl.PublicKeyLookupRequest {
	return gmsl.PublicKeyLookupRequest{ServerName: spec.ServerName("s" + strconv.Itoa(i)), KeyID: v2KeyID}
}

var (
	v2MsgMu sync.Mutex
	v2Msgs  = map[int][]byte{}
)

// v2Message is a message signed by s<i> with its key of slot 0 under ed25519:a.
func v2Message(i int) []byte {
	v2MsgMu.Lock()
	defer v2MsgMu.Unlock()
	if m, ok := v2Msgs[i]; ok {
		return m
	}
	m, err := gmsl.SignJSON("s"+strconv.Itoa(i), v2KeyID, concKeyOf(100+i, 0).priv, []byte(`{"verif":"c19","server":`+strconv.Itoa(i)+`}`))
	if err != nil {
		panic("harness: sign message")
	}
	v2Msgs[i] = m
	return m
}

type v2Ev struct {
	g    int
	kind byte
	res  []gmsl.VerifyJSONResult
	err  error
}

type v2Shared struct {
	events  chan v2Ev
	release []chan struct{}
	mu      sync.Mutex
	db      map[gmsl.PublicKeyLookupRequest]gmsl.PublicKeyLookupResult
	world   map[gmsl.PublicKeyLookupRequest]gmsl.PublicKeyLookupResult
	fetch   []byte
}

func (s *v2Shared) barrier(ctx context.Context, kind byte) int {
	g, _ := ctx.Value(gidKey{}).(int)
	s.events <- v2Ev{g: g, kind: kind}
	<-s.release[g]
	return g
}

// the shared KeyDatabase: a map behind a mutex
type v2DB struct{ *v2Shared }

func (d v2DB) FetcherName() string { return "shared-db" }
func (d v2DB) FetchKeys(ctx context.Context, reqs map[gmsl.PublicKeyLookupRequest]spec.Timestamp) (map[gmsl.PublicKeyLookupRequest]gmsl.PublicKeyLookupResult, error) {
	d.barrier(ctx, 'R')
	d.mu.Lock()
	defer d.mu.Unlock()
	out := map[gmsl.PublicKeyLookupRequest]gmsl.PublicKeyLookupResult{}
	for k := range reqs {
		if v, ok := d.db[k]; ok {
			out[k] = v
		}
	}
	return out, nil
}
func (d v2DB) StoreKeys(ctx context.Context, m map[gmsl.PublicKeyLookupRequest]gmsl.PublicKeyLookupResult) error {
	d.barrier(ctx, 'S')
	d.mu.Lock()
	defer d.mu.Unlock()
	for k, v := range m {
		d.db[k] = v
	}
	return nil
}

// the key ring's fetcher: answers per caller as scripted
type v2Fetcher struct{ *v2Shared }

func (f v2Fetcher) FetcherName() string { return "scripted" }
func (f v2Fetcher) FetchKeys(ctx context.Context, _ map[gmsl.PublicKeyLookupRequest]spec.Timestamp) (map[gmsl.PublicKeyLookupRequest]gmsl.PublicKeyLookupResult, error) {
	g := f.barrier(ctx, 'F')
	switch f.fetch[g] {
	case 'W':
		out := map[gmsl.PublicKeyLookupRequest]gmsl.PublicKeyLookupResult{}
		for k, v := range f.world {
			out[k] = v
		}
		return out, nil
	case '_':
		return map[gmsl.PublicKeyLookupRequest]gmsl.PublicKeyLookupResult{}, nil
	}
	return nil, errors.New("scripted fetcher failure")
}

func runVerify2(cfgS, sched string) string {
	cfg, ok := v2Parse(cfgS)
	if !ok {
		return "bad-op"
	}
	k := len(cfg.callers)
	for _, ch := range sched {
		if g := int(ch - 'p'); g < 0 || g >= k {
			return "bad-op"
		}
	}
	base := time.Now().UnixMilli()
	sh := &v2Shared{
		events: make(chan v2Ev, 4*k+4), release: make([]chan struct{}, k),
		db:    map[gmsl.PublicKeyLookupRequest]gmsl.PublicKeyLookupResult{},
		world: map[gmsl.PublicKeyLookupRequest]gmsl.PublicKeyLookupResult{},
	}
	for i := range cfg.db {
		if cfg.db[i] != "-" {
			sh.db[v2KeyOf(i)] = v2Entry(base, i, cfg.db[i])
		}
		if cfg.world[i] != "-" {
			sh.world[v2KeyOf(i)] = v2Entry(base, i, cfg.world[i])
		}
	}
	ring := gmsl.KeyRing{KeyFetchers: []gmsl.KeyFetcher{v2Fetcher{sh}}, KeyDatabase: v2DB{sh}}
	reqs := make([][]gmsl.VerifyJSONRequest, k)
	for g, c := range cfg.callers {
		sh.fetch = append(sh.fetch, c.fetch)
		sh.release[g] = make(chan struct{}, 1)
		for _, r := range c.reqs {
			f := gmsl.NoStrictValidityCheck
			if r.strict {
				f = gmsl.StrictValiditySignatureCheck
			}
			reqs[g] = append(reqs[g], gmsl.VerifyJSONRequest{
				ServerName: spec.ServerName("s" + strconv.Itoa(r.srv)), AtTS: spec.Timestamp(base + r.at),
				Message: v2Message(r.srv), ValidityCheckingFunc: f,
			})
		}
	}
	const (
		stIdle = iota
		stBlocked
		stDone
	)
	state := make([]int, k)
	verdict := make([]string, k)
	for g := range verdict {
		verdict[g] = "?"
	}
	hung := false
	defer func() {
		if hung {
			return
		}
		// unreachable on a complete run (every caller has returned); kept for bad schedules
		for g := 0; g < k; g++ {
			for state[g] == stBlocked {
				sh.release[g] <- struct{}{}
				if ev := <-sh.events; ev.kind == 'D' {
					state[ev.g] = stDone
				}
			}
		}
	}()
	var trace []byte
	move := func(g int) bool {
		switch state[g] {
		case stDone:
			trace = append(trace, '-')
			return true
		case stIdle:
			go func(g int) {
				ctx := context.WithValue(context.Background(), gidKey{}, g)
				res, err := ring.VerifyJSONs(ctx, reqs[g])
				sh.events <- v2Ev{g: g, kind: 'D', res: res, err: err}
			}(g)
		case stBlocked:
			sh.release[g] <- struct{}{}
		}
		select {
		case ev := <-sh.events:
			if ev.g != g {
				trace = append(trace, 'H')
				return false
			}
			trace = append(trace, ev.kind)
			if ev.kind == 'D' {
				state[g] = stDone
				if ev.err != nil {
					verdict[g] = "err"
				} else {
					bits := ""
					for _, r := range ev.res {
						bits += krB01(r.Error == nil)
					}
					if bits == "" {
						bits = "_"
					}
					verdict[g] = bits
				}
			} else {
				state[g] = stBlocked
			}
			return true
		case <-time.After(concStepTimeout):
			trace = append(trace, 'H')
			return false
		}
	}
	for _, ch := range sched {
		if !move(int(ch - 'p')) {
			hung = true
			break
		}
	}
	// run every caller to completion, caller 0 first
	for g := 0; g < k && !hung; g++ {
		for n := 0; n < v2MaxMoves && state[g] != stDone; n++ {
			if !move(g) {
				hung = true
				break
			}
		}
	}
	sh.mu.Lock()
	var ents []string
	for i := range cfg.db {
		if v, ok := sh.db[v2KeyOf(i)]; ok {
			ents = append(ents, v2ShowEntry(base, i, v))
		} else {
			ents = append(ents, "-")
		}
	}
	extra := len(sh.db)
	for i := range cfg.db {
		if _, ok := sh.db[v2KeyOf(i)]; ok {
			extra--
		}
	}
	sh.mu.Unlock()
	out := string(trace) + "#" + strings.Join(verdict, "/") + "#" + strings.Join(ents, ",")
	if extra != 0 {
		out += "!foreign-entries"
	}
	return out
}

// ---------------------------------------------------------------------------------------------
// generator

func emitVerify2(o *Out, cfg, sched string) {
	if concHangs["verify2"] >= concMaxHangs {
		o.Count("verify2.skipped-after-hangs")
		return
	}
	args := []string{cfg, sched}
	impl := Guard(func() string { return execConc("verify2", args) })
	o.Emit("verify2", append(args, impl), impl)
	parts := strings.Split(impl, "#")
	c, _ := v2Parse(cfg)
	o.Count("verify2.callers." + strconv.Itoa(len(c.callers)))
	writers := 0
	for _, k := range c.callers {
		if k.fetch == 'W' {
			writers++
		}
	}
	o.Count("verify2.answering-fetchers." + strconv.Itoa(writers))
	if len(parts) == 3 {
		if strings.Contains(parts[0], "H") {
			o.Count("verify2.hang")
			concHangs["verify2"]++
		}
		if v2Overlapping(parts[0], sched, len(c.callers)) {
			o.Count("verify2.schedule.overlapping")
		} else {
			o.Count("verify2.schedule.sequential")
		}
		if parts[2] != strings.Split(cfg, "|")[0] {
			o.Count("verify2.database-changed")
		}
	}
}

// v2FullSchedule appends the completion moves the run made after the schedule (caller 0 first, each until it returned).
func v2FullSchedule(trace, sched string, k int) string {
	full := sched
	done := make([]bool, k)
	for i := 0; i < len(sched) && i < len(trace); i++ {
		if trace[i] == 'D' {
			done[int(sched[i]-'p')] = true
		}
	}
	pos := len(sched)
	for g := 0; g < k; g++ {
		for n := 0; n < v2MaxMoves && !done[g] && pos < len(trace); n++ {
			full += string(rune('p' + g))
			if trace[pos] == 'D' {
				done[g] = true
			}
			pos++
		}
	}
	return full
}

// v2Overlapping: some caller starts before another one, started earlier, has returned
func v2Overlapping(trace, sched string, k int) bool {
	full := v2FullSchedule(trace, sched, k)
	running := map[int]bool{}
	for i := 0; i < len(trace) && i < len(full); i++ {
		g := int(full[i] - 'p')
		switch trace[i] {
		case 'D':
			delete(running, g)
		case 'R', 'F', 'S':
			if !running[g] && len(running) > 0 {
				return true
			}
			running[g] = true
		}
	}
	return false
}

var v2Entries = []string{"-", "0F", "0S", "0X", "1F", "1S"}

func randV2Caller(r *Rng, n int, fetch string) string {
	nr := 1 + r.Intn(2)
	var rs []string
	for j := 0; j < nr; j++ {
		rs = append(rs, strconv.Itoa(r.Intn(n))+Pick(r, []string{"o", "n", "n"})+Pick(r, []string{"s", "s", "l"}))
	}
	return fetch + ":" + strings.Join(rs, "+")
}

func genConcVerify2(o *Out, tier string, r *Rng) {
	// the audit's scenario and its neighbours: the database holds s0's key past its validity; caller 0's fetch fails,
	// caller 1's brings the fresh key; every interleaving of the two calls, then a third caller (its fetch fails too)
	fixed := []string{
		"0S|0F|E:0ns;W:0ns;E:0ns",
		"0S|0F|W:0ns;E:0ns;E:0ns",
		"0S|0F|E:0nl;W:0ns;E:0ns",
		"0S,-|0F,0F|E:0ns+1ns;W:0ns;E:0ns",
	}
	for _, cfg := range fixed {
		interleavings([]int{v2MaxMoves, v2MaxMoves}, func(s string) { emitVerify2(o, cfg, s) })
	}
	o.Sample("conc.verify2 cfg=" + fixed[0] + " sched=ppqqqqpp")
	n := 700
	if tier == "thorough" {
		n = 20000
		// bounded-exhaustive: one server, two callers with one request each, every database / world entry, at most one
		// answering fetcher, ALL schedules
		for _, d := range v2Entries {
			for _, w := range []string{"-", "0F", "1F", "0S"} {
				for _, fa := range []string{"E", "W", "_"} {
					for _, fb := range []string{"E", "W"} {
						for _, ra := range []string{"0ns", "0nl", "0os"} {
							cfg := d + "|" + w + "|" + fa + ":" + ra + ";" + fb + ":0ns;E:0ns"
							interleavings([]int{v2MaxMoves, v2MaxMoves}, func(s string) { emitVerify2(o, cfg, s) })
						}
					}
				}
			}
		}
		// three overlapping callers: all schedules of 3 x 3 moves for the audit's configuration and one with two servers
		for _, cfg := range []string{fixed[0], "0S,1S|0F,0F|E:0ns+1ns;W:1ns;E:0nl"} {
			interleavings([]int{3, 3, 3}, func(s string) { emitVerify2(o, cfg, s) })
		}
	}
	for i := 0; i < n; i++ {
		ns := 1 + r.Intn(2)
		var db, world []string
		for j := 0; j < ns; j++ {
			db = append(db, Pick(r, v2Entries))
			world = append(world, Pick(r, []string{"-", "0F", "0F", "0F", "1F", "0S"}))
		}
		k := 2 + r.Intn(2)
		// at most one caller's fetcher answers in 3 of 4 scenarios (the others fail or answer nothing)
		writer := -1
		many := r.Chance(25)
		if !many && r.Chance(85) {
			writer = r.Intn(k)
		}
		var callers []string
		cnt := make([]int, k)
		for g := 0; g < k; g++ {
			f := Pick(r, []string{"E", "E", "_"})
			if g == writer || (many && r.Chance(70)) {
				f = "W"
			}
			callers = append(callers, randV2Caller(r, ns, f))
			cnt[g] = 2 + r.Intn(3)
		}
		cfg := strings.Join(db, ",") + "|" + strings.Join(world, ",") + "|" + strings.Join(callers, ";")
		emitVerify2(o, cfg, randomInterleaving(r, cnt))
	}
}
