package main

// Area `keyring` (C12): KeyRing.VerifyJSONs with a scripted KeyDatabase and scripted KeyFetchers
// (real ed25519 keys, real SignJSON / VerifyJSON), PublicKeyLookupResult.WasValidAt, CheckKeys,
// ServerKeys.PublicKey, mapServerKeysToPublicKeyLookupResult.
//
// The code reads the wall clock (pruning of database answers, the 7-day cap).  Timestamps in op lines
// are therefore written relative to `now` (`r<offset>`; `a<abs>` for far values such as 0): Exec resolves
// them against the clock it reads, the driver against the op's first argument, and outcomes are
// printed in the same relative form.  Comparisons against the clock get margins of >= 10 minutes,
// comparisons between two timestamps (at_ts vs expired_ts / valid_until_ts) are exact.

import (
	"context"
	"encoding/base64"
	"encoding/json"
	"errors"
	"fmt"
	"io"
	"sort"
	"strconv"
	"strings"
	"time"

	gmsl "github.com/matrix-org/gomatrixserverlib"
	"github.com/matrix-org/gomatrixserverlib/spec"
	"github.com/sirupsen/logrus"
	"golang.org/x/crypto/ed25519"
)

func init() {
	areas["keyring"] = Area{Gen: genKeyring, Exec: execKeyring}
	logrus.SetOutput(io.Discard) // VerifyJSONs warns about unfetched keys on the standard logger
}

// ---- timestamps ----

type kts struct {
	rel bool
	v   int64 // relative: offset from now; absolute: the uint64 value, bit for bit (values >= 2^63 are negative here)
}

func (t kts) String() string {
	if t.rel {
		return "r" + strconv.FormatInt(t.v, 10)
	}
	return "a" + strconv.FormatUint(uint64(t.v), 10)
}
func (t kts) resolve(now int64) uint64 {
	if t.rel {
		return uint64(now + t.v)
	}
	return uint64(t.v)
}
func krParseKts(s string) kts {
	if s[0] == 'a' {
		u, err := strconv.ParseUint(s[1:], 10, 64)
		if err != nil {
			panic("harness: bad ts " + s)
		}
		return kts{rel: false, v: int64(u)}
	}
	v, err := strconv.ParseInt(s[1:], 10, 64)
	if err != nil || s[0] != 'r' {
		panic("harness: bad ts " + s)
	}
	return kts{rel: true, v: v}
}
func krShowKts(now int64, v uint64) string {
	const span = uint64(100000000000)
	n := uint64(now)
	if v >= n && v-n < span {
		return "r" + strconv.FormatUint(v-n, 10)
	}
	if v < n && n-v < span {
		return "r-" + strconv.FormatUint(n-v, 10)
	}
	return "a" + strconv.FormatUint(v, 10)
}
func krRelTs(off int64) kts { return kts{rel: true, v: off} }
func krAbsTs(v int64) kts   { return kts{rel: false, v: v} }
func krAbsU(u uint64) kts   { return kts{rel: false, v: int64(u)} }

// timestamps at and beyond the int64 range: spec.Timestamp is a uint64, and a conversion through int64
// (time.Time) must not move such an instant into the past
var krHuge = []kts{krAbsU(1<<63 - 1), krAbsU(1 << 63), krAbsU(1<<64 - 1)}

// ---- scripted database / fetchers ----

type krEntry struct {
	server, keyID string
	key           []byte
	expired, vu   kts
}

func (e krEntry) String() string {
	return hx([]byte(e.server)) + "," + hx([]byte(e.keyID)) + "," + hx(e.key) + "," + e.expired.String() + "," + e.vu.String()
}

type krScript struct {
	fail    bool
	entries []krEntry
}

func (s krScript) String() string {
	if s.fail {
		return "E"
	}
	if len(s.entries) == 0 {
		return "_"
	}
	var p []string
	for _, e := range s.entries {
		p = append(p, e.String())
	}
	return strings.Join(p, ";")
}

func krParseScript(s string) krScript {
	if s == "E" {
		return krScript{fail: true}
	}
	if s == "_" {
		return krScript{}
	}
	var out krScript
	for _, e := range strings.Split(s, ";") {
		f := strings.Split(e, ",")
		if len(f) != 5 {
			panic("harness: bad entry")
		}
		out.entries = append(out.entries, krEntry{string(unhx(f[0])), string(unhx(f[1])), unhx(f[2]), krParseKts(f[3]), krParseKts(f[4])})
	}
	return out
}

type krScriptedFetcher struct {
	name   string
	script krScript
	now    int64
	asked  []map[gmsl.PublicKeyLookupRequest]spec.Timestamp
}

func (f *krScriptedFetcher) FetcherName() string { return f.name }
func (f *krScriptedFetcher) FetchKeys(_ context.Context, requests map[gmsl.PublicKeyLookupRequest]spec.Timestamp) (map[gmsl.PublicKeyLookupRequest]gmsl.PublicKeyLookupResult, error) {
	cp := map[gmsl.PublicKeyLookupRequest]spec.Timestamp{}
	for k, v := range requests {
		cp[k] = v
	}
	f.asked = append(f.asked, cp)
	if f.script.fail {
		return nil, errors.New("scripted failure")
	}
	out := map[gmsl.PublicKeyLookupRequest]gmsl.PublicKeyLookupResult{}
	for _, e := range f.script.entries {
		out[gmsl.PublicKeyLookupRequest{ServerName: spec.ServerName(e.server), KeyID: gmsl.KeyID(e.keyID)}] = gmsl.PublicKeyLookupResult{
			VerifyKey:    gmsl.VerifyKey{Key: spec.Base64Bytes(e.key)},
			ExpiredTS:    spec.Timestamp(e.expired.resolve(f.now)),
			ValidUntilTS: spec.Timestamp(e.vu.resolve(f.now)),
		}
	}
	return out, nil
}

type krScriptedDB struct {
	krScriptedFetcher
	storeFail bool
	stored    []map[gmsl.PublicKeyLookupRequest]gmsl.PublicKeyLookupResult
}

func (d *krScriptedDB) StoreKeys(_ context.Context, results map[gmsl.PublicKeyLookupRequest]gmsl.PublicKeyLookupResult) error {
	cp := map[gmsl.PublicKeyLookupRequest]gmsl.PublicKeyLookupResult{}
	for k, v := range results {
		cp[k] = v
	}
	d.stored = append(d.stored, cp)
	if d.storeFail {
		return errors.New("scripted store failure")
	}
	return nil
}

func krJoinOr(xs []string) string {
	if len(xs) == 0 {
		return "_"
	}
	sort.Strings(xs)
	return strings.Join(xs, ",")
}

func krShowAsked(now int64, m map[gmsl.PublicKeyLookupRequest]spec.Timestamp) string {
	var xs []string
	for k, ts := range m {
		xs = append(xs, hx([]byte(k.ServerName))+"/"+hx([]byte(k.KeyID))+"@"+krShowKts(now, uint64(ts)))
	}
	return krJoinOr(xs)
}

func krShowStored(now int64, m map[gmsl.PublicKeyLookupRequest]gmsl.PublicKeyLookupResult) string {
	var xs []string
	for k, r := range m {
		xs = append(xs, hx([]byte(k.ServerName))+"/"+hx([]byte(k.KeyID))+"="+hx(r.Key)+"."+krShowKts(now, uint64(r.ExpiredTS))+"."+krShowKts(now, uint64(r.ValidUntilTS)))
	}
	return krJoinOr(xs)
}

// ---- requests ----

type krSig struct {
	keyID   string
	reaches bool
	signer  []byte // public key the signature verifies under, nil = none
}

type krRequest struct {
	server string
	at     kts
	strict bool
	listOk bool
	sigs   []krSig
	raw    []byte
}

func (r krRequest) String() string {
	sg := "_"
	if len(r.sigs) > 0 {
		var p []string
		for _, s := range r.sigs {
			signer := "x"
			if s.signer != nil {
				signer = hx(s.signer)
			}
			p = append(p, hx([]byte(s.keyID))+":"+krB01(s.reaches)+":"+signer)
		}
		sg = strings.Join(p, "|")
	}
	return hx([]byte(r.server)) + "," + r.at.String() + "," + krB01(r.strict) + "," + krB01(r.listOk) + "," + sg + "," + hx(r.raw)
}

func krB01(b bool) string {
	if b {
		return "1"
	}
	return "0"
}

type krRawReq struct {
	server string
	at     kts
	strict bool
	raw    []byte
}

func krParseRawReqs(s string) []krRawReq {
	var out []krRawReq
	if s == "_" {
		return nil
	}
	for _, e := range strings.Split(s, ";") {
		f := strings.Split(e, ",")
		if len(f) != 6 {
			panic("harness: bad request")
		}
		out = append(out, krRawReq{string(unhx(f[0])), krParseKts(f[1]), f[2] == "1", unhx(f[5])})
	}
	return out
}

// ---- server keys (keys.go ops) ----

func krParseServerKeysRaw(raw []byte) (gmsl.ServerKeys, bool) {
	var sk gmsl.ServerKeys
	if err := json.Unmarshal(raw, &sk); err != nil {
		return sk, false
	}
	return sk, true
}

func execKeyring(op string, args []string) string {
	switch op {
	case "verify_jsons": // now reqs db storeOk fetchers [impl]
		now := time.Now().UnixMilli()
		rr := krParseRawReqs(args[1])
		db := &krScriptedDB{krScriptedFetcher: krScriptedFetcher{name: "db", script: krParseScript(args[2]), now: now}, storeFail: args[3] != "1"}
		var fetchers []*krScriptedFetcher
		var kf []gmsl.KeyFetcher
		if args[4] != "none" {
			for i, s := range strings.Split(args[4], "/") {
				f := &krScriptedFetcher{name: fmt.Sprintf("f%d", i), script: krParseScript(s), now: now}
				fetchers = append(fetchers, f)
				kf = append(kf, f)
			}
		}
		var reqs []gmsl.VerifyJSONRequest
		for _, r := range rr {
			f := gmsl.NoStrictValidityCheck
			if r.strict {
				f = gmsl.StrictValiditySignatureCheck
			}
			reqs = append(reqs, gmsl.VerifyJSONRequest{ServerName: spec.ServerName(r.server), AtTS: spec.Timestamp(r.at.resolve(now)), Message: r.raw, ValidityCheckingFunc: f})
		}
		ring := gmsl.KeyRing{KeyFetchers: kf, KeyDatabase: db}
		res, err := ring.VerifyJSONs(context.Background(), reqs)
		head := ""
		if err != nil {
			switch err.Error() {
			case "scripted failure":
				head = "err:db"
			case "scripted store failure":
				head = "err:store"
			default:
				head = "err:other"
			}
		} else {
			bits := ""
			for _, r := range res {
				bits += krB01(r.Error == nil)
			}
			if bits == "" {
				bits = "_"
			}
			head = "ok:" + bits
		}
		out := head + "|db:"
		switch len(db.asked) {
		case 0:
			out += "none"
		case 1:
			out += krShowAsked(now, db.asked[0])
		default:
			out += "called-more-than-once"
		}
		for i, f := range fetchers {
			for _, a := range f.asked {
				out += fmt.Sprintf("|f%d:", i) + krShowAsked(now, a)
			}
		}
		out += "|store:"
		switch len(db.stored) {
		case 0:
			out += "none"
		case 1:
			out += krShowStored(now, db.stored[0])
		default:
			out += "called-more-than-once"
		}
		return out
	case "was_valid_at": // now expired valid_until at strict
		now := time.Now().UnixMilli()
		r := gmsl.PublicKeyLookupResult{ExpiredTS: spec.Timestamp(krParseKts(args[1]).resolve(now)), ValidUntilTS: spec.Timestamp(krParseKts(args[2]).resolve(now))}
		f := gmsl.NoStrictValidityCheck
		if args[4] == "1" {
			f = gmsl.StrictValiditySignatureCheck
		}
		return krB01(r.WasValidAt(spec.Timestamp(krParseKts(args[3]).resolve(now)), f))
	case "check_keys": // now reqName parsed name vu vks oks raw
		sk, ok := krParseServerKeysRaw(unhx(args[7]))
		if !ok {
			return "err:json"
		}
		now, _ := strconv.ParseInt(args[0], 10, 64)
		c, keys := gmsl.CheckKeys(spec.ServerName(unhx(args[1])), time.UnixMilli(now), sk)
		all := "n"
		if c.AllEd25519ChecksOK != nil {
			all = krB01(*c.AllEd25519ChecksOK)
		}
		var per []string
		for k, e := range c.Ed25519Checks {
			per = append(per, hx([]byte(k))+":"+krB01(e.ValidEd25519)+krB01(e.MatchingSignature))
		}
		ks := "nil"
		if keys != nil {
			var xs []string
			for k, v := range keys {
				xs = append(xs, hx([]byte(k))+"="+hx(v))
			}
			ks = krJoinOr(xs)
		}
		return "ok:" + krB01(c.AllChecksOK) + krB01(c.MatchingServerName) + krB01(c.FutureValidUntilTS) + krB01(c.HasEd25519Key) + all + "|" + krJoinOr(per) + "|" + ks
	case "public_key": // now name vu vks oks kid at raw
		sk, ok := krParseServerKeysRaw(unhx(args[7]))
		if !ok {
			return "err:json"
		}
		now, _ := strconv.ParseInt(args[0], 10, 64)
		k := sk.PublicKey(gmsl.KeyID(unhx(args[5])), spec.Timestamp(krParseKts(args[6]).resolve(now)))
		if len(k) == 0 {
			return "none"
		}
		return "ok:" + hx(k)
	case "direct_fetch", "direct_history": // now reqName direct(E|response) notary(E|_|responses) : DirectKeyFetcher on a scripted KeyClient
		now, _ := strconv.ParseInt(args[0], 10, 64)
		cl := &krClient{}
		if l, fail := krParseResponses(args[2]); !fail && len(l) == 1 {
			cl.direct = &l[0]
		}
		cl.notary, cl.notaryErr = krParseResponses(args[3])
		d := &gmsl.DirectKeyFetcher{Client: cl, IsLocalServerName: func(spec.ServerName) bool { return false }}
		req := map[gmsl.PublicKeyLookupRequest]spec.Timestamp{{ServerName: spec.ServerName(unhx(args[1])), KeyID: "ed25519:1"}: 0}
		m, err := d.FetchKeys(context.Background(), req)
		if err != nil {
			return "err:fetch"
		}
		return "ok:" + krShowStored(now, m)
	case "perspective_fetch", "perspective_history": // now notaryName knownKeys(keyid:pub|…) responses(E|_|…)
		// (perspective_history: the same operation; the generator's key-rotation histories, every document acceptable)
		now, _ := strconv.ParseInt(args[0], 10, 64)
		cl := &krClient{}
		cl.notary, cl.notaryErr = krParseResponses(args[3])
		known := map[gmsl.KeyID]ed25519.PublicKey{}
		for _, e := range strings.Split(args[2], "|") {
			f := strings.Split(e, ":")
			known[gmsl.KeyID(unhx(f[0]))] = ed25519.PublicKey(unhx(f[1]))
		}
		pf := &gmsl.PerspectiveKeyFetcher{PerspectiveServerName: spec.ServerName(unhx(args[1])), PerspectiveServerKeys: known, Client: cl}
		m, err := pf.FetchKeys(context.Background(), map[gmsl.PublicKeyLookupRequest]spec.Timestamp{{ServerName: "a.example", KeyID: "ed25519:1"}: 0})
		if err != nil {
			return "err:fetch"
		}
		return "ok:" + krShowStored(now, m)
	}
	return "bad-op"
}

// ---- generator ----

type krKey struct {
	pub  ed25519.PublicKey
	priv ed25519.PrivateKey
}

func (r *Rng) krKey() krKey {
	seed := make([]byte, 32)
	for i := range seed {
		seed[i] = byte(r.Next())
	}
	priv := ed25519.NewKeyFromSeed(seed)
	return krKey{pub: priv.Public().(ed25519.PublicKey), priv: priv}
}

const (
	krMin  = int64(60 * 1000)
	krHour = 60 * krMin
	krDay  = 24 * krHour
)

// a message of `server` with the given signature kinds per key ID
//
//	'g' good signature by keys[keyID]; 'w' good signature by a different private key; 'r' 64 random bytes;
//	's' 10 bytes; 'n' not a string (breaks VerifyJSON's decoding of "signatures", not ListKeyIDs)
func (r *Rng) krMessage(server string, kinds map[string]byte, keys map[string]krKey, shape int) (raw []byte, listOk bool, sigs []krSig) {
	switch shape {
	case 1:
		return []byte(`{"a":1`), false, nil // not JSON
	case 2:
		return []byte(`[1,2]`), false, nil // not an object
	case 3:
		return []byte(`{"a":1,"signatures":[]}`), false, nil // signatures of the wrong shape
	case 4:
		return []byte(`{"a":1,"signatures":{"` + server + `":"x"}}`), false, nil
	case 5:
		return []byte(`{"a":1}`), true, nil // unsigned
	case 6:
		return []byte(`{"a":1,"signatures":{"other.example":{"ed25519:1":"AAAA"}}}`), true, nil // signed by somebody else only
	}
	base := []byte(fmt.Sprintf(`{"content":{"n":%d,"s":"x"},"origin":%q,"type":"m.test"}`, r.Intn(1000), server))
	msg := base
	var ids []string
	for id := range kinds {
		ids = append(ids, id)
	}
	sort.Strings(ids)
	other := r.krKey()
	for _, id := range ids {
		var err error
		switch kinds[id] {
		case 'g':
			msg, err = gmsl.SignJSON(server, gmsl.KeyID(id), keys[id].priv, msg)
		case 'w':
			msg, err = gmsl.SignJSON(server, gmsl.KeyID(id), other.priv, msg)
		}
		if err != nil {
			panic("harness: SignJSON: " + err.Error())
		}
	}
	var obj map[string]interface{}
	if err := json.Unmarshal(msg, &obj); err != nil {
		panic("harness: message: " + err.Error())
	}
	sg, _ := obj["signatures"].(map[string]interface{})
	if sg == nil {
		sg = map[string]interface{}{}
	}
	mine, _ := sg[server].(map[string]interface{})
	if mine == nil {
		mine = map[string]interface{}{}
	}
	broken := false
	for _, id := range ids {
		switch kinds[id] {
		case 'r':
			b := make([]byte, 64)
			for i := range b {
				b[i] = byte(r.Next())
			}
			mine[id] = base64.RawStdEncoding.EncodeToString(b)
		case 's':
			mine[id] = base64.RawStdEncoding.EncodeToString([]byte("0123456789"))
		case 'n':
			mine[id] = 5
			broken = true
		}
	}
	if len(mine) > 0 {
		sg[server] = mine
	}
	if r.Chance(20) {
		sg["other.example"] = map[string]interface{}{"ed25519:zz": "AAAA"}
	}
	if len(sg) > 0 {
		obj["signatures"] = sg
	}
	if r.Chance(20) {
		obj["unsigned"] = map[string]interface{}{"age": 5}
	}
	raw, _ = json.Marshal(obj)
	for _, id := range ids {
		s := krSig{keyID: id}
		switch kinds[id] {
		case 'g':
			s.reaches, s.signer = !broken, keys[id].pub
		case 'w':
			s.reaches, s.signer = !broken, other.pub
		case 'r':
			s.reaches = !broken
		}
		if broken {
			s.signer = nil
		}
		sigs = append(sigs, s)
	}
	return raw, true, sigs
}

// crossCheck confirms the annotation of a message with the real VerifyJSON.
func krCrossCheck(req krRequest, candidates [][]byte) {
	for _, s := range req.sigs {
		for _, c := range candidates {
			if len(c) != ed25519.PublicKeySize {
				continue
			}
			got := gmsl.VerifyJSON(req.server, gmsl.KeyID(s.keyID), c, req.raw) == nil
			want := s.reaches && s.signer != nil && string(s.signer) == string(c)
			if got != want {
				panic(fmt.Sprintf("harness: annotation of %q/%q disagrees with VerifyJSON", req.server, s.keyID))
			}
		}
	}
}

func genKeyring(o *Out, tier string, r *Rng) {
	// main.go seeds SplitMix64 with seed*increment+c, so the streams of seeds k and k+1 are the same stream
	// shifted by one draw; restart from a drawn state to decorrelate the seeds
	r = &Rng{s: r.Next()}
	rounds := 220
	if tier == "thorough" {
		rounds = 9000
	}
	nowStr := func() string { return strconv.FormatInt(time.Now().UnixMilli(), 10) }
	servers := []string{"a.example", "b.example:8448", "c"}
	keyIDs := []string{"ed25519:1", "ed25519:old", "ed25519:a_b"}
	badAlg := []string{"rsa:1", "ed25519", "ED25519:1", "curve25519:x"}

	// fixed scenarios first (also kept in corpus/C12/keyring.ops)
	for _, line := range krFixedScenarios(r, nowStr()) {
		impl := Guard(func() string { return execKeyring("verify_jsons", line) })
		o.Emit("verify_jsons", append(line, impl), impl)
		o.Count("verify_jsons.fixed")
	}

	for round := 0; round < rounds; round++ {
		// real key pairs per (server, key ID)
		keys := map[string]map[string]krKey{}
		for _, s := range servers {
			keys[s] = map[string]krKey{}
			for _, k := range append(append([]string{}, keyIDs...), badAlg...) {
				keys[s][k] = r.krKey()
			}
		}
		wrong := r.krKey()
		var candidates [][]byte
		candidates = append(candidates, wrong.pub)
		for _, s := range servers {
			for _, k := range keyIDs {
				candidates = append(candidates, keys[s][k].pub)
			}
		}

		// each requested (server,key) gets a validity profile shared by the sources, and the request's
		// timestamp is placed on a boundary of that profile
		nreq := 1 + r.Intn(4)
		if r.Chance(5) {
			nreq = 0
		}
		var reqs []krRequest
		type want struct{ server, keyID string }
		var wanted []want
		for i := 0; i < nreq; i++ {
			srv := Pick(r, servers)
			if i > 0 && r.Chance(35) {
				srv = reqs[r.Intn(len(reqs))].server // same server again: duplicate (server,key) across requests
			}
			kinds := map[string]byte{}
			shape := 0
			switch r.Intn(20) {
			case 0:
				shape = 1 + r.Intn(6)
			default:
				nk := 1
				if r.Chance(35) {
					nk = 2 + r.Intn(2)
				}
				for j := 0; j < nk; j++ {
					kinds[Pick(r, keyIDs)] = Pick(r, []byte{'g', 'g', 'g', 'g', 'g', 'g', 'w', 'r', 's'})
				}
				if r.Chance(4) {
					kinds[Pick(r, keyIDs)] = 'n'
				}
				if r.Chance(20) {
					kinds[Pick(r, badAlg)] = 'g'
				}
				if r.Chance(4) { // only unsupported algorithms
					kinds = map[string]byte{Pick(r, badAlg): 'g'}
				}
			}
			raw, listOk, sigs := r.krMessage(srv, kinds, keys[srv], shape)
			req := krRequest{server: srv, strict: r.Chance(60), listOk: listOk, sigs: sigs, raw: raw}
			krCrossCheck(req, candidates)
			for _, s := range sigs {
				if strings.HasPrefix(s.keyID, "ed25519:") {
					wanted = append(wanted, want{srv, s.keyID})
				}
			}
			reqs = append(reqs, req)
		}

		// validity profile per wanted key
		type profile struct {
			expired, vu kts // as a good source would report it
			boundary    []kts
		}
		prof := map[want]profile{}
		for _, w := range wanted {
			if _, ok := prof[w]; ok {
				continue
			}
			var p profile
			switch r.Intn(8) {
			case 7: // valid_until_ts at / beyond the int64 range: the 7 day cap decides
				p = profile{expired: krAbsTs(0), vu: Pick(r, krHuge), boundary: []kts{krRelTs(7*krDay - 10*krMin), krRelTs(7*krDay + 10*krMin), krRelTs(0), krAbsU(1 << 63)}}
			case 0: // expired key
				e := -krDay * int64(1+r.Intn(20))
				p = profile{expired: krRelTs(e), vu: krAbsTs(0), boundary: []kts{krRelTs(e - 1), krRelTs(e), krRelTs(e + 1), krRelTs(e - krDay), krAbsTs(0)}}
			case 1: // current, short validity (inside the 7 day window)
				v := krHour * int64(1+r.Intn(100))
				p = profile{expired: krAbsTs(0), vu: krRelTs(v), boundary: []kts{krRelTs(v - 1), krRelTs(v), krRelTs(v + 1), krRelTs(0), krRelTs(-krDay), krAbsTs(0)}}
			case 2: // current, long validity: the 7 day cap decides
				v := 8*krDay + krHour*int64(r.Intn(500))
				p = profile{expired: krAbsTs(0), vu: krRelTs(v), boundary: []kts{krRelTs(7*krDay - 10*krMin), krRelTs(7*krDay + 10*krMin), krRelTs(v), krRelTs(v + 1), krRelTs(0)}}
			case 3: // stale: validity ended in the past
				v := -krHour * int64(1+r.Intn(100))
				p = profile{expired: krAbsTs(0), vu: krRelTs(v), boundary: []kts{krRelTs(v - 1), krRelTs(v), krRelTs(v + 1), krRelTs(0)}}
			case 4: // validity ends around now (margins)
				v := Pick(r, []int64{-10 * krMin, 10 * krMin})
				p = profile{expired: krAbsTs(0), vu: krRelTs(v), boundary: []kts{krRelTs(v - 1), krRelTs(v), krRelTs(v + 1)}}
			case 5: // no validity at all (both magic values)
				p = profile{expired: krAbsTs(0), vu: krAbsTs(0), boundary: []kts{krAbsTs(0), krRelTs(0), krAbsTs(1)}}
			case 6: // valid_until exactly at the cap region is not testable without the clock: far future
				p = profile{expired: krAbsTs(0), vu: krRelTs(365 * krDay), boundary: []kts{krRelTs(7*krDay - 10*krMin), krRelTs(7*krDay + 10*krMin), krRelTs(-krDay)}}
			}
			prof[w] = p
		}
		for i := range reqs {
			reqs[i].at = krRelTs(-int64(r.Intn(1000000)))
			for _, s := range reqs[i].sigs {
				if p, ok := prof[want{reqs[i].server, s.keyID}]; ok && r.Chance(85) {
					reqs[i].at = Pick(r, p.boundary)
					break
				}
			}
			if r.Chance(8) { // a request timestamp at / beyond the int64 range lies after every validity period
				reqs[i].at = Pick(r, krHuge)
				o.Count("verify_jsons.at>=2^63-1")
			}
		}

		// a source's entry for a wanted key
		entry := func(w want, kind int) krEntry {
			p := prof[w]
			e := krEntry{server: w.server, keyID: w.keyID, key: keys[w.server][w.keyID].pub, expired: p.expired, vu: p.vu}
			switch kind {
			case 0: // as the profile says (the good key)
			case 1: // wrong key
				e.key = wrong.pub
			case 2: // wrong length
				e.key = Pick(r, [][]byte{{1, 2, 3}, {}, append(append([]byte{}, e.key...), 0), e.key[:31]})
			case 3: // good key reported as expired long ago
				e.expired, e.vu = krRelTs(-300*krDay), krAbsTs(0)
			case 4: // good key reported stale
				e.expired, e.vu = krAbsTs(0), krRelTs(-krHour)
			case 5: // good key, fresh for an hour
				e.expired, e.vu = krAbsTs(0), krRelTs(krHour)
			case 6: // good key, both magic values
				e.expired, e.vu = krAbsTs(0), krAbsTs(0)
			}
			return e
		}
		extra := func() krEntry {
			s := Pick(r, []string{"z.example", "a.example", "b.example:8448"})
			k := Pick(r, []string{"ed25519:extra", "ed25519:1", "ed25519:old"})
			return krEntry{server: s, keyID: k, key: wrong.pub, expired: krAbsTs(0), vu: krRelTs(krHour)}
		}
		uniq := func(es []krEntry) []krEntry { // a Go map has one entry per key: keep the first
			seen := map[string]bool{}
			var out []krEntry
			for _, e := range es {
				id := e.server + "\x00" + e.keyID
				if !seen[id] {
					seen[id] = true
					out = append(out, e)
				}
			}
			return out
		}
		source := func(mode int) krScript {
			var s krScript
			switch mode {
			case 0:
				s.fail = true
				return s
			case 1: // empty
				return s
			}
			for _, w := range wanted {
				switch mode {
				case 2: // everything, good
					s.entries = append(s.entries, entry(w, 0))
				case 3: // partial
					if r.Bool() {
						s.entries = append(s.entries, entry(w, 0))
					}
				case 4: // mixed quality
					if r.Chance(80) {
						s.entries = append(s.entries, entry(w, Pick(r, []int{0, 0, 0, 1, 2, 3, 4, 5, 6})))
					}
				}
			}
			if r.Chance(25) {
				s.entries = append(s.entries, extra())
			}
			s.entries = uniq(s.entries)
			return s
		}
		db := source(Pick(r, []int{1, 1, 2, 2, 3, 3, 4, 4, 4, 0}))
		if round%17 == 0 && len(db.entries) > 0 { // database copy is stale although the key is the right one
			for i := range db.entries {
				db.entries[i].expired, db.entries[i].vu = krAbsTs(0), krRelTs(-krHour)
			}
		}
		nf := r.Intn(4)
		var fs []string
		for i := 0; i < nf; i++ {
			fs = append(fs, source(Pick(r, []int{0, 1, 2, 2, 3, 3, 4, 4, 4})).String())
		}
		fetchers := "none"
		if nf > 0 {
			fetchers = strings.Join(fs, "/")
		}
		storeOk := "1"
		if r.Chance(4) {
			storeOk = "0"
		}
		var rs []string
		for _, q := range reqs {
			rs = append(rs, q.String())
		}
		reqArg := "_"
		if len(rs) > 0 {
			reqArg = strings.Join(rs, ";")
		}
		args := []string{nowStr(), reqArg, db.String(), storeOk, fetchers}
		impl := Guard(func() string { return execKeyring("verify_jsons", args) })
		o.Emit("verify_jsons", append(args, impl), impl)
		head := impl
		if i := strings.Index(impl, "|"); i > 0 {
			head = impl[:i]
		}
		if strings.HasPrefix(head, "ok:") {
			if strings.Contains(head, "1") && strings.Contains(head, "0") {
				o.Count("verify_jsons.mixed")
			} else if strings.Contains(head, "1") {
				o.Count("verify_jsons.all-ok")
			} else {
				o.Count("verify_jsons.all-fail")
			}
		} else {
			o.Count("verify_jsons." + strings.SplitN(head, ":", 3)[0] + ":" + strings.SplitN(head+":", ":", 3)[1])
		}
		o.Count(fmt.Sprintf("verify_jsons.fetchers-called=%d", strings.Count(impl, "|f")))
		if strings.Contains(impl, "|store:none") {
			o.Count("verify_jsons.no-store")
		}
		if round < 3 {
			o.Sample("verify_jsons -> " + impl)
		}

		// --- WasValidAt at every boundary ---
		for j := 0; j < 3; j++ {
			var ex, vu, at kts
			switch r.Intn(8) {
			case 6: // request timestamps at / beyond the int64 range: after every valid_until_ts and every cap
				ex = krAbsTs(0)
				vu = Pick(r, []kts{krRelTs(-365 * krDay), krRelTs(-krHour), krRelTs(krHour), krRelTs(400 * krDay), krAbsU(1<<63 - 1)})
				at = Pick(r, krHuge)
			case 7: // valid_until_ts / expired_ts at / beyond the int64 range
				if r.Bool() {
					ex, vu = krAbsTs(0), Pick(r, krHuge)
					at = Pick(r, []kts{krRelTs(0), krRelTs(7*krDay - 10*krMin), krRelTs(7*krDay + 10*krMin), krAbsTs(0), krAbsU(1 << 63)})
				} else {
					e := Pick(r, krHuge)
					ex, vu = e, krAbsTs(0)
					at = Pick(r, []kts{krAbsU(uint64(e.v) - 1), e, krAbsU(uint64(e.v) + 1), krRelTs(0)})
				}
			case 0:
				e := -int64(r.Intn(1000000)) - 5
				ex, vu = krRelTs(e), Pick(r, []kts{krAbsTs(0), krRelTs(krHour)})
				at = Pick(r, []kts{krRelTs(e - 1), krRelTs(e), krRelTs(e + 1), krAbsTs(0)})
			case 1:
				ex, vu = krAbsTs(1), krAbsTs(0)
				at = Pick(r, []kts{krAbsTs(0), krAbsTs(1), krAbsTs(2)})
			case 2:
				v := Pick(r, []int64{-krDay, krHour, 6 * krDay, 7*krDay - 10*krMin})
				ex, vu = krAbsTs(0), krRelTs(v)
				at = Pick(r, []kts{krRelTs(v - 1), krRelTs(v), krRelTs(v + 1), krAbsTs(0)})
			case 3:
				v := Pick(r, []int64{7*krDay + 10*krMin, 8 * krDay, 400 * krDay})
				ex, vu = krAbsTs(0), krRelTs(v)
				at = Pick(r, []kts{krRelTs(7*krDay - 10*krMin), krRelTs(7*krDay + 10*krMin), krRelTs(v), krRelTs(v + 1), krRelTs(0)})
			case 4:
				ex, vu = krAbsTs(0), krAbsTs(0)
				at = Pick(r, []kts{krAbsTs(0), krAbsTs(1), krRelTs(0)})
			case 5:
				ex, vu = krAbsTs(0), krAbsTs(5)
				at = Pick(r, []kts{krAbsTs(4), krAbsTs(5), krAbsTs(6)})
			}
			o.Do("was_valid_at", nowStr(), ex.String(), vu.String(), at.String(), krB01(r.Bool()))
		}

		// --- key responses: CheckKeys / PublicKey / mapServerKeysToPublicKeyLookupResult ---
		genServerKeysOps(o, r, round)
		// --- a notary answering with SEVERAL documents of one server (its key-rotation history), in either order ---
		if tier == "thorough" || round%2 == 0 {
			genKeyHistoryOps(o, r, round)
		}
	}
}

// krFixedScenarios: hand-picked cases.
//  1. wrong-length old key: the only source returns, for the signing key ID, a 3-byte key marked expired in
//     the future (an old_verify_keys entry of a key response is not length-checked); VerifyJSON used to
//     panic in ed25519.Verify on it (fixed in /repo 3a8a708) and must now just fail that signature.
//  2. the same with a second key ID on the message whose key is fine: the request must succeed.
//  3. the fixed override (20aee4f): fetcher 0 supplies A's key, fetcher 1, asked only for B's, also offers a wrong key for A.
//  4./5. a stale database key and a fetcher that replaces it / has nothing.
//  6. a request timestamp beyond the int64 range against a key whose validity ended a year ago.
func krFixedScenarios(r *Rng, now string) [][]string {
	k1, k2, wrong := r.krKey(), r.krKey(), r.krKey()
	keys := map[string]krKey{"ed25519:1": k1, "ed25519:2": k2}
	mk := func(server string, kinds map[string]byte) krRequest {
		raw, listOk, sigs := (&Rng{s: 7}).krMessage(server, kinds, keys, 0)
		return krRequest{server: server, at: krRelTs(-1000), strict: true, listOk: listOk, sigs: sigs, raw: raw}
	}
	short := krEntry{server: "a.example", keyID: "ed25519:1", key: []byte{1, 2, 3}, expired: krRelTs(krDay), vu: krAbsTs(0)}
	good2 := krEntry{server: "a.example", keyID: "ed25519:2", key: k2.pub, expired: krAbsTs(0), vu: krRelTs(krHour)}
	goodA := krEntry{server: "a.example", keyID: "ed25519:1", key: k1.pub, expired: krAbsTs(0), vu: krRelTs(krHour)}
	wrongA := krEntry{server: "a.example", keyID: "ed25519:1", key: wrong.pub, expired: krAbsTs(0), vu: krRelTs(krHour)}
	goodB := krEntry{server: "b.example:8448", keyID: "ed25519:1", key: k1.pub, expired: krAbsTs(0), vu: krRelTs(krHour)}
	a1 := mk("a.example", map[string]byte{"ed25519:1": 'g'})
	a12 := mk("a.example", map[string]byte{"ed25519:1": 'g', "ed25519:2": 'g'})
	b1 := mk("b.example:8448", map[string]byte{"ed25519:1": 'g'})
	a1old := a1
	a1old.at = krRelTs(-2 * krHour) // signed two hours ago: inside the validity of the stale key
	staleA := krEntry{server: "a.example", keyID: "ed25519:1", key: k1.pub, expired: krAbsTs(0), vu: krRelTs(-krHour)}
	a1huge := a1
	a1huge.at = krAbsU(1 << 63)
	yearOldA := krEntry{server: "a.example", keyID: "ed25519:1", key: k1.pub, expired: krAbsTs(0), vu: krRelTs(-365 * krDay)}
	return [][]string{
		{now, a1.String(), "_", "1", krScript{entries: []krEntry{short}}.String()},
		{now, a12.String(), "_", "1", krScript{entries: []krEntry{short, good2}}.String()},
		{now, a1.String() + ";" + b1.String(), "_", "1", krScript{entries: []krEntry{goodA}}.String() + "/" + krScript{entries: []krEntry{goodB, wrongA}}.String()},
		// 4. side condition of success_complete: the database holds A's right key, valid at the requested time but an
		//    hour past its valid_until_ts; it is re-requested, the fetcher answers with a different key, A fails
		{now, a1old.String() + ";" + b1.String(), krScript{entries: []krEntry{staleA}}.String(), "1", krScript{entries: []krEntry{wrongA}}.String()},
		// 5. the same database entry when the fetcher has nothing: the stale key is used, A succeeds
		{now, a1old.String() + ";" + b1.String(), krScript{entries: []krEntry{staleA}}.String(), "1", "_"},
		// 6. a request timestamp of 2^63 ms (spec.Timestamp is a uint64) under the strict rule, the database holding the
		//    right key with a valid_until_ts a year in the past: the instant is after every validity period, A must fail
		//    (StrictValiditySignatureCheck used to convert through int64 / time.Time, which put 2^63 far in the past)
		{now, a1huge.String(), krScript{entries: []krEntry{yearOldA}}.String(), "1", "none"},
	}
}

// krResponse is one crafted key response: the raw JSON and what it abstractly is.
type krResponse struct {
	parsed bool
	name   string
	vu     kts
	vkArg  string // `_` | `|`-separated  keyid:key:selfSigned
	okArg  string // `_` | `|`-separated  keyid:key:expired_ts
	nsArg  string // `_` | `|`-separated  keyid:known:sigOk      (signatures of the notary on the response)
	raw    []byte
	goodEd int // number of self-signed 32-byte ed25519 keys
	olds   []krOld
}

// krOld is one old_verify_keys entry of a crafted response (for the boundaries of ServerKeys.PublicKey)
type krOld struct {
	id string
	ex kts
}

// String is the response as an op argument: `parsed,name,vu,vks,oks,nsigs,raw`
func (k krResponse) String() string {
	return krB01(k.parsed) + "," + hx([]byte(k.name)) + "," + k.vu.String() + "," + k.vkArg + "," + k.okArg + "," + k.nsArg + "," + hx(k.raw)
}

type krNotary struct {
	name  string
	keys  map[string]krKey // key IDs the fetcher is configured with
	extra krKey            // a key of the notary the fetcher does NOT know
}

// krGenResponse crafts a ServerKeys JSON for `name` whose timestamps are relative to n0.
// quality: 0 = anything, 1 = mostly acceptable.
func (r *Rng) krGenResponse(n0 int64, name string, vu kts, quality int, notary *krNotary) krResponse {
	// an old key with the ID of a current key replaces it in the mapped result and hides the response's
	// valid_until_ts from the outcome; the known findings about past valid_until_ts select on the outcome, so
	// responses with a past valid_until_ts avoid that collision (it is exercised with future ones)
	collide := !(vu.rel && vu.v < 0)
	type vk struct {
		id         string
		key        []byte
		selfSigned bool
	}
	type ok struct {
		id  string
		key []byte
		ex  kts
	}
	type signer struct {
		as   string
		id   string
		priv ed25519.PrivateKey
	}
	var vks []vk
	var oks []ok
	var signers []signer
	ids := []string{"ed25519:1", "ed25519:2", "ed25519", "ed25519:", "rsa:1", "ed25519x:1"}
	nv := r.Intn(4)
	if quality == 1 {
		nv = 1 + r.Intn(2)
		ids = []string{"ed25519:1", "ed25519:2", "rsa:1"}
	}
	used := map[string]bool{}
	broken := false
	signAs := name
	if r.Chance(6) && quality == 0 {
		signAs = "evil.example" // signatures under another name do not count
	}
	for i := 0; i < nv; i++ {
		id := Pick(r, ids)
		if used[id] {
			continue
		}
		used[id] = true
		k := r.krKey()
		e := vk{id: id, key: k.pub}
		c := r.Intn(9)
		if quality == 1 && r.Chance(85) {
			c = 8
		}
		switch c {
		case 0: // not self-signed
		case 1: // signed with a different private key
			signers = append(signers, signer{signAs, id, r.krKey().priv})
		case 2: // wrong length (and signed: the signature cannot match)
			e.key = Pick(r, [][]byte{k.pub[:31], append(append([]byte{}, k.pub...), 1), {1, 2, 3}})
			signers = append(signers, signer{signAs, id, k.priv})
		default:
			e.selfSigned = signAs == name
			signers = append(signers, signer{signAs, id, k.priv})
		}
		vks = append(vks, e)
	}
	no := r.Intn(3)
	usedOld := map[string]bool{}
	for i := 0; i < no; i++ {
		id := Pick(r, []string{"ed25519:old", "ed25519:1", "ed25519:older"})
		if !collide && id == "ed25519:1" {
			id = "ed25519:old"
		}
		if usedOld[id] {
			continue
		}
		usedOld[id] = true
		key := []byte(r.krKey().pub)
		if r.Chance(25) {
			key = []byte{1, 2, 3} // old_verify_keys are not length-checked by CheckKeys
		}
		oks = append(oks, ok{id: id, key: key, ex: Pick(r, []kts{krRelTs(-krDay), krRelTs(-1), krRelTs(0), krAbsTs(0), krAbsTs(7)})})
	}
	obj := map[string]interface{}{"server_name": name, "valid_until_ts": vu.resolve(n0)}
	if len(vks) > 0 || r.Bool() {
		m := map[string]interface{}{}
		for _, e := range vks {
			m[e.id] = map[string]interface{}{"key": base64.RawStdEncoding.EncodeToString(e.key)}
		}
		obj["verify_keys"] = m
	}
	if len(oks) > 0 || r.Bool() {
		m := map[string]interface{}{}
		for _, e := range oks {
			m[e.id] = map[string]interface{}{"key": base64.RawStdEncoding.EncodeToString(e.key), "expired_ts": e.ex.resolve(n0)}
		}
		obj["old_verify_keys"] = m
	}
	if r.Chance(4) && quality == 0 { // a key that is not base64: the response does not even decode
		obj["verify_keys"] = map[string]interface{}{"ed25519:1": map[string]interface{}{"key": "!!!"}}
		broken = true
	}
	raw, _ := json.Marshal(obj)
	for _, s := range signers {
		var err error
		raw, err = gmsl.SignJSON(s.as, gmsl.KeyID(s.id), s.priv, raw)
		if err != nil {
			panic("harness: sign server keys: " + err.Error())
		}
	}
	// signatures of the notary: at most one key ID the fetcher knows (the loop over a Go map stops at the
	// first known one, so two known IDs of different validity would make the outcome order-dependent)
	nsArg := "_"
	if notary != nil {
		var ns []string
		mode := r.Intn(8)
		var err error
		switch mode {
		case 0: // not signed by the notary at all
		case 1: // signed only with a key the fetcher does not know
			raw, err = gmsl.SignJSON(notary.name, "ed25519:unknown", notary.extra.priv, raw)
			ns = append(ns, hx([]byte("ed25519:unknown"))+":0:0")
		case 2: // known key ID, but the signature is by another key
			raw, err = gmsl.SignJSON(notary.name, "ed25519:n1", notary.extra.priv, raw)
			ns = append(ns, hx([]byte("ed25519:n1"))+":1:0")
		default: // properly signed (plus, sometimes, an unknown one)
			raw, err = gmsl.SignJSON(notary.name, "ed25519:n1", notary.keys["ed25519:n1"].priv, raw)
			ns = append(ns, hx([]byte("ed25519:n1"))+":1:1")
			if r.Chance(30) && err == nil {
				raw, err = gmsl.SignJSON(notary.name, "ed25519:unknown", notary.extra.priv, raw)
				ns = append(ns, hx([]byte("ed25519:unknown"))+":0:0")
			}
		}
		if err != nil {
			panic("harness: notary signature: " + err.Error())
		}
		if len(ns) > 0 {
			nsArg = strings.Join(ns, "|")
		}
	}
	_, parsed := krParseServerKeysRaw(raw)
	if parsed == broken {
		panic("harness: server keys decodability is not what the generator intended")
	}
	res := krResponse{parsed: parsed, name: name, vu: vu, vkArg: "_", okArg: "_", nsArg: nsArg, raw: raw}
	if len(vks) > 0 {
		var p []string
		for _, e := range vks {
			// cross-check the annotation with the real VerifyJSON
			if parsed && len(e.key) == 32 {
				got := gmsl.VerifyJSON(name, gmsl.KeyID(e.id), e.key, raw) == nil
				if got != e.selfSigned {
					panic("harness: selfSigned annotation disagrees with VerifyJSON")
				}
				if got && strings.SplitN(e.id, ":", 2)[0] == "ed25519" {
					res.goodEd++
				}
			}
			p = append(p, hx([]byte(e.id))+":"+hx(e.key)+":"+krB01(e.selfSigned))
		}
		res.vkArg = strings.Join(p, "|")
	}
	if len(oks) > 0 {
		var p []string
		for _, e := range oks {
			p = append(p, hx([]byte(e.id))+":"+hx(e.key)+":"+e.ex.String())
			res.olds = append(res.olds, krOld{e.id, e.ex})
		}
		res.okArg = strings.Join(p, "|")
	}
	return res
}

// scripted notary client for the fetcher ops
type krClient struct {
	direct    *gmsl.ServerKeys // nil: GetServerKeys fails
	notary    []gmsl.ServerKeys
	notaryErr bool
}

func (c *krClient) GetServerKeys(context.Context, spec.ServerName) (gmsl.ServerKeys, error) {
	if c.direct == nil {
		return gmsl.ServerKeys{}, errors.New("scripted: no direct answer")
	}
	return *c.direct, nil
}
func (c *krClient) LookupServerKeys(context.Context, spec.ServerName, map[gmsl.PublicKeyLookupRequest]spec.Timestamp) ([]gmsl.ServerKeys, error) {
	if c.notaryErr {
		return nil, errors.New("scripted: notary lookup failed")
	}
	return c.notary, nil
}

// krParseResponses decodes `E` | `_` | `~`-separated responses back into what the client returns.
func krParseResponses(s string) (list []gmsl.ServerKeys, fail bool) {
	if s == "E" {
		return nil, true
	}
	if s == "_" {
		return nil, false
	}
	for _, e := range strings.Split(s, "~") {
		f := strings.Split(e, ",")
		if len(f) != 7 {
			panic("harness: bad response")
		}
		sk, ok := krParseServerKeysRaw(unhx(f[6]))
		if !ok {
			return nil, true // the client fails to decode the whole reply
		}
		list = append(list, sk)
	}
	return list, false
}

func krJoinResponses(rs []krResponse) string {
	if len(rs) == 0 {
		return "_"
	}
	var p []string
	for _, x := range rs {
		p = append(p, x.String())
	}
	return strings.Join(p, "~")
}

// genServerKeysOps crafts key responses and runs the keys.go / fetcher ops on them.  CheckKeys takes its
// `now` as a parameter (exact boundaries); the fetchers check against the epoch, so their outcome does
// not depend on the clock at all — the property's "valid_until_ts in the future" is judged by the driver
// against the op's first argument (the wall clock at generation; margins of an hour).
func genServerKeysOps(o *Out, r *Rng, round int) {
	n0 := time.Now().UnixMilli()
	n := strconv.FormatInt(n0, 10)
	name := Pick(r, []string{"a.example", "b.example:8448"})
	reqName := name
	if r.Chance(12) {
		reqName = Pick(r, []string{"A.example", "a.example ", "c", ""})
	}
	vu := Pick(r, []kts{krRelTs(-1), krRelTs(0), krRelTs(1), krRelTs(krHour), krRelTs(-krHour), krAbsTs(0)})
	resp := r.krGenResponse(n0, name, vu, round%2, nil)
	res := o.Do("check_keys", n, hx([]byte(reqName)), krB01(resp.parsed), hx([]byte(name)), vu.String(), resp.vkArg, resp.okArg, hx(resp.raw))
	if strings.HasPrefix(res, "ok:1") {
		o.Count("check_keys.all-ok")
	} else {
		o.Count("check_keys.refused")
	}
	if round < 2 {
		o.Sample("check_keys " + string(resp.raw) + " -> " + res)
	}
	if resp.parsed {
		kid := Pick(r, []string{"ed25519:1", "ed25519:old", "ed25519:2", "nope"})
		var at kts
		c := r.Intn(3)
		if len(resp.olds) > 0 && r.Chance(50) {
			c = 3
		}
		switch c {
		case 3: // an old key at the boundary of its expired_ts: valid BEFORE expired_ts, not at it
			old := Pick(r, resp.olds)
			kid = old.id
			at = Pick(r, []kts{{old.ex.rel, old.ex.v - 1}, old.ex, {old.ex.rel, old.ex.v + 1}})
			if at.v < 0 && !at.rel {
				at = krAbsTs(0)
			}
			o.Count("public_key.old-key-boundary")
		case 0:
			at = Pick(r, []kts{{vu.rel, vu.v - 1}, vu, {vu.rel, vu.v + 1}})
			if at.v < 0 && !at.rel {
				at = krAbsTs(0)
			}
		case 1:
			at = Pick(r, []kts{krRelTs(-krDay - 1), krRelTs(-krDay), krRelTs(-krDay + 1), krRelTs(-2), krRelTs(-1), krRelTs(0), krAbsTs(0), krAbsTs(7), krAbsTs(8)})
		default:
			at = Pick(r, []kts{krAbsTs(0), krRelTs(0), krRelTs(10 * krDay)})
		}
		o.Do("public_key", n, hx([]byte(name)), vu.String(), resp.vkArg, resp.okArg, hx([]byte(kid)), at.String(), hx(resp.raw))
	}

	// DirectKeyFetcher for one server: direct answer, then the notary fallback
	fvu := func() kts { return Pick(r, []kts{krRelTs(krHour), krRelTs(krDay), krRelTs(-krHour), krRelTs(-krDay), krAbsTs(0)}) }
	direct := "E"
	if r.Chance(75) {
		direct = r.krGenResponse(n0, name, fvu(), 1, nil).String()
	} else if r.Chance(50) {
		direct = r.krGenResponse(n0, name, fvu(), 0, nil).String()
	}
	notaryList := "E"
	if r.Chance(70) {
		var rs []krResponse
		k := r.Intn(3)
		for i := 0; i < k; i++ {
			rs = append(rs, r.krGenResponse(n0, Pick(r, []string{name, name, "z.example"}), fvu(), 1, nil))
		}
		ok := true
		for _, x := range rs {
			ok = ok && x.parsed
		}
		if ok {
			notaryList = krJoinResponses(rs)
		}
	}
	// the implementation's outcome is appended as the last argument (Exec ignores it): the driver compares it with
	// the model before judging the property, and the known findings select on what the code ACCEPTED
	dargs := []string{n, hx([]byte(reqName)), direct, notaryList}
	res = Guard(func() string { return execKeyring("direct_fetch", dargs) })
	o.Emit("direct_fetch", append(dargs, res), res)
	if res == "ok:_" {
		o.Count("direct_fetch.nothing")
	} else {
		o.Count("direct_fetch.keys")
	}

	// PerspectiveKeyFetcher: every response must carry a known signature of the notary and pass the checks
	nk := r.krKey()
	notary := &krNotary{name: "notary.example", keys: map[string]krKey{"ed25519:n1": nk}, extra: r.krKey()}
	plist := "E"
	if r.Chance(85) {
		var rs []krResponse
		k := r.Intn(3)
		for i := 0; i < k; i++ {
			q := 1
			if r.Chance(15) {
				q = 0
			}
			rs = append(rs, r.krGenResponse(n0, []string{"a.example", "b.example:8448", "z.example"}[(i+round)%3], fvu(), q, notary)) // distinct names: no response hides another
		}
		ok := true
		for _, x := range rs {
			ok = ok && x.parsed
		}
		if ok {
			plist = krJoinResponses(rs)
		}
	}
	pargs := []string{n, hx([]byte(notary.name)), hx([]byte("ed25519:n1")) + ":" + hx(nk.pub), plist}
	res = Guard(func() string { return execKeyring("perspective_fetch", pargs) })
	o.Emit("perspective_fetch", append(pargs, res), res)
	o.Count("perspective_fetch." + strings.SplitN(res, ":", 2)[0] + map[bool]string{true: ".nothing", false: ""}[res == "ok:_"])
}

// ---- key-rotation histories: several documents of ONE server in one notary answer ----

type krVK struct {
	id string
	k  krKey
}
type krOK struct {
	id string
	k  krKey
	ex kts
}

// krCraftResponse builds exactly the key response described: every verify key signs the response, and so does the
// notary (under the key ID the fetcher is configured with) when one is given.
func krCraftResponse(n0 int64, name string, vu kts, vks []krVK, oks []krOK, notary *krNotary) krResponse {
	vm := map[string]interface{}{}
	for _, e := range vks {
		vm[e.id] = map[string]interface{}{"key": base64.RawStdEncoding.EncodeToString(e.k.pub)}
	}
	om := map[string]interface{}{}
	for _, e := range oks {
		om[e.id] = map[string]interface{}{"key": base64.RawStdEncoding.EncodeToString(e.k.pub), "expired_ts": e.ex.resolve(n0)}
	}
	raw, err := json.Marshal(map[string]interface{}{"server_name": name, "valid_until_ts": vu.resolve(n0), "verify_keys": vm, "old_verify_keys": om})
	if err != nil {
		panic("harness: marshal key response")
	}
	for _, e := range vks {
		if raw, err = gmsl.SignJSON(name, gmsl.KeyID(e.id), e.k.priv, raw); err != nil {
			panic("harness: sign key response: " + err.Error())
		}
	}
	res := krResponse{name: name, vu: vu, vkArg: "_", okArg: "_", nsArg: "_"}
	if notary != nil {
		if raw, err = gmsl.SignJSON(notary.name, "ed25519:n1", notary.keys["ed25519:n1"].priv, raw); err != nil {
			panic("harness: notary signature: " + err.Error())
		}
		res.nsArg = hx([]byte("ed25519:n1")) + ":1:1"
	}
	if _, res.parsed = krParseServerKeysRaw(raw); !res.parsed {
		panic("harness: crafted key response does not decode")
	}
	res.raw = raw
	var p []string
	for _, e := range vks {
		if gmsl.VerifyJSON(name, gmsl.KeyID(e.id), e.k.pub, raw) != nil {
			panic("harness: crafted key response is not self-signed")
		}
		res.goodEd++
		p = append(p, hx([]byte(e.id))+":"+hx(e.k.pub)+":1")
	}
	if len(p) > 0 {
		res.vkArg = strings.Join(p, "|")
	}
	p = nil
	for _, e := range oks {
		p = append(p, hx([]byte(e.id))+":"+hx(e.k.pub)+":"+e.ex.String())
		res.olds = append(res.olds, krOld{e.id, e.ex})
	}
	if len(p) > 0 {
		res.okArg = strings.Join(p, "|")
	}
	return res
}

// genKeyHistoryOps: a server rotated its signing key once or twice; the notary holds one document per stored response
// and answers with all of them.  Document i lists key i under verify_keys and the keys before it under
// old_verify_keys with their expired_ts (in the past); every document is self-signed, signed by the notary and has a
// valid_until_ts in the future (the older ones' validity period has not run out yet), so each of them is acceptable on
// its own.  The answer lists them oldest first, newest first, or shuffled, sometimes with another server's document
// in between.  What the fetcher returns for a key ID that moved from verify_keys to old_verify_keys decides whether a
// signature made with the retired key still verifies (keyring.go: PerspectiveKeyFetcher.FetchKeys,
// fetchNotaryKeysForServer, mapServerKeysToPublicKeyLookupResult).
func genKeyHistoryOps(o *Out, r *Rng, round int) {
	n0 := time.Now().UnixMilli()
	n := strconv.FormatInt(n0, 10)
	name := Pick(r, []string{"a.example", "a.example", "b.example:8448"})
	nk := r.krKey()
	notary := &krNotary{name: "notary.example", keys: map[string]krKey{"ed25519:n1": nk}, extra: r.krKey()}
	gens := 2 + r.Intn(2)
	ids := []string{"ed25519:1", "ed25519:2", "ed25519:3"}
	keys := []krKey{r.krKey(), r.krKey(), r.krKey()}
	retired := make([]kts, gens) // expired_ts of key i (i < gens-1), increasing with i
	for i := 0; i < gens-1; i++ {
		retired[i] = krRelTs(-krDay*int64(gens-1-i) + Pick(r, []int64{0, krHour, -krHour, 12 * krHour}))
		if i == gens-2 && r.Chance(50) {
			retired[i] = Pick(r, []kts{krRelTs(-krHour), krRelTs(-1), krRelTs(-10 * krMin)})
		}
	}
	build := func(withNotary bool) []krResponse {
		var docs []krResponse
		for i := 0; i < gens; i++ {
			vu := Pick(r, []kts{krRelTs(krHour), krRelTs(krDay), krRelTs(2 * krDay)})
			if i == gens-1 {
				vu = Pick(r, []kts{krRelTs(krDay), krRelTs(2 * krDay), krRelTs(6 * krDay)})
			}
			var oks []krOK
			for j := 0; j < i; j++ {
				if j == i-1 || r.Chance(70) {
					oks = append(oks, krOK{ids[j], keys[j], retired[j]})
				}
			}
			nt := notary
			if !withNotary {
				nt = nil
			}
			docs = append(docs, krCraftResponse(n0, name, vu, []krVK{{ids[i], keys[i]}}, oks, nt))
		}
		return docs
	}
	order := func(docs []krResponse, withNotary bool) ([]krResponse, string) {
		lab := "oldest-first"
		switch r.Intn(3) {
		case 1:
			lab = "newest-first"
			for i, j := 0, len(docs)-1; i < j; i, j = i+1, j-1 {
				docs[i], docs[j] = docs[j], docs[i]
			}
		case 2:
			lab = "shuffled"
			for i := len(docs) - 1; i > 0; i-- {
				j := r.Intn(i + 1)
				docs[i], docs[j] = docs[j], docs[i]
			}
		}
		if r.Chance(25) {
			nt := notary
			if !withNotary {
				nt = nil
			}
			other := krCraftResponse(n0, "z.example", krRelTs(krDay), []krVK{{"ed25519:1", r.krKey()}}, nil, nt)
			at := r.Intn(len(docs) + 1)
			docs = append(docs[:at], append([]krResponse{other}, docs[at:]...)...)
		}
		return docs, lab
	}
	// PerspectiveKeyFetcher
	docs, lab := order(build(true), true)
	pargs := []string{n, hx([]byte(notary.name)), hx([]byte("ed25519:n1")) + ":" + hx(nk.pub), krJoinResponses(docs)}
	res := Guard(func() string { return execKeyring("perspective_history", pargs) })
	o.Emit("perspective_history", append(pargs, res), res)
	o.Count("perspective_history." + lab + "." + strconv.Itoa(gens) + "-documents")
	if round < 4 {
		o.Sample("perspective_history (" + lab + ") " + string(docs[0].raw) + " ; " + string(docs[len(docs)-1].raw) + " -> " + res)
	}
	// DirectKeyFetcher whose direct request fails: the notary fallback takes the first document naming the server
	docs, lab = order(build(false), false)
	dargs := []string{n, hx([]byte(name)), "E", krJoinResponses(docs)}
	res = Guard(func() string { return execKeyring("direct_history", dargs) })
	o.Emit("direct_history", append(dargs, res), res)
	o.Count("direct_history." + lab)
}
