package main

// C09: the verdict needs only the needed state.
//
//	ctx.needed <ver> <sig3pid> <event> <n> <auth event>*n <extra event>*
//
// runs the REAL code three times:
//
//	full       Allowed(event, NewAuthEvents(auth))
//	shuffled   Allowed(event, NewAuthEvents(reverse(auth ++ extra)))   (insertion order reversed, unrelated state added)
//	restricted Allowed(event, NewAuthEvents(the events StateNeededForAuth(event).Tuples() names, looked up in the full provider))
//
// and answers "<full>,<shuffled>,<restricted>".  The driver computes the same triple from the model and, as the
// specification stream, the model's verdict on the restricted provider three times.

import (
	"crypto/ed25519"
	"encoding/base64"
	"encoding/json"
	"sort"
	"strconv"
	"strings"

	gmsl "github.com/matrix-org/gomatrixserverlib"
	"github.com/matrix-org/gomatrixserverlib/spec"
)

// restrictToNeeded returns the events of provider p that StateNeededForAuth(ev) names (the selection
// AuthEventReferences / AddAuthEvents make, as events).
func restrictToNeeded(ev gmsl.PDU, p *gmsl.AuthEvents) []gmsl.PDU {
	needed := gmsl.StateNeededForAuth([]gmsl.PDU{ev})
	var out []gmsl.PDU
	add := func(e gmsl.PDU, _ error) {
		if e != nil {
			out = append(out, e)
		}
	}
	for _, t := range needed.Tuples() {
		switch t.EventType {
		case spec.MRoomCreate:
			add(p.Create())
		case spec.MRoomJoinRules:
			add(p.JoinRules())
		case spec.MRoomPowerLevels:
			add(p.PowerLevels())
		case spec.MRoomMember:
			add(p.Member(spec.SenderID(t.StateKey)))
		case spec.MRoomThirdPartyInvite:
			add(p.ThirdPartyInvite(t.StateKey))
		}
	}
	return out
}

func execNeeded(args []string) string {
	ver := args[0]
	ev, err := parseEvArg(ver, args[2])
	if err != nil {
		return "err:construct"
	}
	n, _ := strconv.Atoi(args[3])
	var all []gmsl.PDU
	for _, a := range args[4:] {
		e, err := parseEvArg(ver, a)
		if err != nil {
			return "err:construct"
		}
		all = append(all, e)
	}
	if n > len(all) {
		return "bad-op"
	}
	auth := all[:n]
	full, err := gmsl.NewAuthEvents(auth)
	if err != nil {
		return "err:provider"
	}
	rev := make([]gmsl.PDU, 0, len(all))
	for i := len(all) - 1; i >= 0; i-- {
		rev = append(rev, all[i])
	}
	shuffled, err := gmsl.NewAuthEvents(rev)
	if err != nil {
		return "err:provider"
	}
	restricted, err := gmsl.NewAuthEvents(restrictToNeeded(ev, full))
	if err != nil {
		return "err:provider"
	}
	return coarse(gmsl.Allowed(ev, full, StdQuerier)) + "," + coarse(gmsl.Allowed(ev, shuffled, StdQuerier)) + "," +
		coarse(gmsl.Allowed(ev, restricted, StdQuerier))
}

// ctx.addauth <ver> <sig3pid> <event> <auth event>* — C09's last sentence on the REAL code: EventBuilder.AddAuthEvents
// (StateNeededForProtoEvent + AuthEventReferences + the create-stripping branch of room versions with domainless room
// IDs) selects the auth events of a new event that has the given event's type / sender / state key / content; answers
//
//	<Allowed on the full provider>,<Allowed on a provider holding EXACTLY the selected references>,<hex of the references>
//
// (in a version with domainless room IDs the create event is not listed: it is named by the room ID, and is handed to the
// second check when the provider's create event is that event).  "builderr" when AddAuthEvents itself fails (the
// generator emits the op only when it succeeds).
func execAddAuth(args []string) string {
	ver := args[0]
	ev, err := parseEvArg(ver, args[2])
	if err != nil {
		return "err:construct"
	}
	var auth []gmsl.PDU
	for _, a := range args[3:] {
		e, err := parseEvArg(ver, a)
		if err != nil {
			return "err:construct"
		}
		auth = append(auth, e)
	}
	full, err := gmsl.NewAuthEvents(auth)
	if err != nil {
		return "err:provider"
	}
	refs, sel, ok := addAuthSelection(ver, ev, auth, full)
	if !ok {
		return "builderr"
	}
	selP, err := gmsl.NewAuthEvents(sel)
	if err != nil {
		return "err:provider"
	}
	// the references as a set (AuthEventReferences lists members in sorted order, once each)
	set := append([]string{}, refs...)
	sort.Strings(set)
	uniq := set[:0]
	for i, id := range set {
		if i == 0 || id != set[i-1] {
			uniq = append(uniq, id)
		}
	}
	return coarse(gmsl.Allowed(ev, full, StdQuerier)) + "," + coarse(gmsl.Allowed(ev, selP, StdQuerier)) + "," + hx([]byte(strings.Join(uniq, ",")))
}

// addAuthSelection runs the real AddAuthEvents for a new event shaped like ev against provider full (built from auth).
func addAuthSelection(ver string, ev gmsl.PDU, auth []gmsl.PDU, full *gmsl.AuthEvents) (refs []string, sel []gmsl.PDU, ok bool) {
	verImpl := gmsl.MustGetRoomVersion(gmsl.RoomVersion(ver))
	eb := verImpl.NewEventBuilderFromProtoEvent(&gmsl.ProtoEvent{
		SenderID: string(ev.SenderID()), RoomID: ev.RoomID().String(), Type: ev.Type(), StateKey: ev.StateKey(), Content: ev.Content(),
	})
	if err := eb.AddAuthEvents(full); err != nil {
		return nil, nil, false
	}
	refs, _ = eb.AuthEvents.([]string)
	// the events the references stand for: the provider's own events (event IDs of format-1 versions are free text and may
	// repeat across rooms, so an ID alone does not name an event of the list)
	inRefs := map[string]bool{}
	for _, id := range refs {
		inRefs[id] = true
	}
	for _, e := range auth {
		if e.StateKey() == nil || !inRefs[e.EventID()] {
			continue
		}
		var held gmsl.PDU
		switch e.Type() {
		case spec.MRoomCreate:
			held, _ = full.Create()
		case spec.MRoomJoinRules:
			held, _ = full.JoinRules()
		case spec.MRoomPowerLevels:
			held, _ = full.PowerLevels()
		case spec.MRoomMember:
			held, _ = full.Member(spec.SenderID(*e.StateKey()))
		case spec.MRoomThirdPartyInvite:
			held, _ = full.ThirdPartyInvite(*e.StateKey())
		}
		if held == e && (e.Type() == spec.MRoomMember || e.Type() == spec.MRoomThirdPartyInvite || *e.StateKey() == "") {
			sel = append(sel, e)
		}
	}
	if verImpl.DomainlessRoomIDs() {
		if c, _ := full.Create(); c != nil && len(ev.RoomID().String()) > 0 && c.EventID() == "$"+ev.RoomID().String()[1:] {
			sel = append(sel, c)
		}
	}
	return refs, sel, true
}

// unrelatedEvents: same-room state events whose (type, state_key) no check of the generated scenarios needs.
func unrelatedEvents(g *RoomGen, r *Rng) []*Ev {
	var out []*Ev
	add := func(e *Ev) {
		if e != nil {
			out = append(out, e)
		}
	}
	creator := authUsers[0]
	if r.Chance(70) {
		add(g.Mk("m.room.name", creator, sp(""), map[string]interface{}{"name": "n"}, nil, nil, nil))
	}
	if r.Chance(50) {
		add(g.Mk("m.room.topic", creator, sp(""), map[string]interface{}{"topic": "t"}, nil, nil, nil))
	}
	if r.Chance(60) {
		add(g.Mk(spec.MRoomMember, "@zed:hs1", sp("@zed:hs1"), map[string]interface{}{"membership": Pick(r, memberships)}, nil, nil, nil))
	}
	if r.Chance(40) {
		add(g.Mk(spec.MRoomMember, creator, sp("@yan:hs3"), map[string]interface{}{"membership": "ban"}, nil, nil, nil))
	}
	if r.Chance(40) {
		add(g.Mk(spec.MRoomThirdPartyInvite, creator, sp("unrelated-token"), map[string]interface{}{"display_name": "x", "public_keys": []interface{}{}}, nil, nil, nil))
	}
	if r.Chance(30) {
		add(g.Mk("x.custom", creator, sp("@zed:hs1"), map[string]interface{}{}, nil, nil, nil))
	}
	if r.Chance(30) {
		add(g.Mk(spec.MRoomAliases, creator, sp("hs1"), map[string]interface{}{"aliases": []string{}}, nil, nil, nil))
	}
	return out
}

// distinctKeys drops events whose (type, state_key) already occurred (the op reverses the list, so a provider must not
// depend on which duplicate comes last).
func distinctKeys(evs []*Ev) []*Ev {
	seen := map[string]bool{}
	var out []*Ev
	for _, e := range evs {
		if e == nil || e.PDU.StateKey() == nil {
			continue
		}
		k := e.PDU.Type() + "\x00" + *e.PDU.StateKey()
		if seen[k] {
			continue
		}
		seen[k] = true
		out = append(out, e)
	}
	return out
}

func neededArgs(s *AuthScenario, extra []*Ev) []string {
	sig := "0"
	if s.Sig3pid {
		sig = "1"
	}
	auth := distinctKeys(s.Auth)
	all := distinctKeys(append(append([]*Ev{}, auth...), extra...))
	args := []string{s.G.Ver, sig, s.Event.Arg(), strconv.Itoa(len(auth))}
	for _, a := range all {
		args = append(args, a.Arg())
	}
	return args
}

// genAuthNeeded: the random room states of area `auth` (every event class, restricted joins with authorisers, third-party
// invites with real signatures) plus restricted-join scenarios, each with unrelated same-room state added.
func genAuthNeeded(o *Out, tier string, r *Rng) {
	if tier == "witness" {
		neededWitnesses(o, r)
		return
	}
	neededCaseVariants(o, r)
	n := 1500
	if tier == "thorough" {
		n = 30000
	}
	for i := 0; i < n; i++ {
		ver := Pick(r, allVersions)
		s := genAuthScenario(r, ver)
		if s == nil {
			continue
		}
		// (the 2 % of scenarios with an auth event from another room stay in: the driver answers `unspecified` for them)
		res := o.Do("needed", neededArgs(s, unrelatedEvents(s.G, r))...)
		o.Count("needed." + s.Label + "." + res)
		// the same scenario through the real EventBuilder.AddAuthEvents (when it can select at all)
		auth := distinctKeys(s.Auth)
		var pdus []gmsl.PDU
		for _, a := range auth {
			pdus = append(pdus, a.PDU)
		}
		if full, err := gmsl.NewAuthEvents(pdus); err == nil {
			if _, _, ok := addAuthSelection(ver, s.Event.PDU, pdus, full); ok {
				sig := "0"
				if s.Sig3pid {
					sig = "1"
				}
				args := []string{ver, sig, s.Event.Arg()}
				for _, a := range auth {
					args = append(args, a.Arg())
				}
				res := o.Do("addauth", args...)
				if i := strings.LastIndexByte(res, ','); i >= 0 {
					res = res[:i]
				}
				o.Count("addauth." + s.Label + "." + res)
			} else {
				o.Count("addauth.builder-refused." + s.Label)
			}
		}
	}
}

// neededCaseVariants: member events under test whose content spells `membership` / `join_authorised_via_users_server`
// another way (Capitalised, UPPER, one letter raised, U+017F for an s) — alone, or next to the exact name with another
// value — in rooms where the verdict hangs on exactly the state those keys make StateNeededForAuth name (the join rules
// for a join; the authorising user's membership for a restricted join).  Member names are exact for the auth check
// (NewMemberContentFromEvent) and for StateNeededForAuth alike: both have to ignore the other spellings, and
// StateNeededForAuth has to name the state the check reads (seeded change C09-r4m2: it read the keys differently from
// the check, the restricted provider lost the join rules and the verdict changed).
func neededCaseVariants(o *Out, r *Rng) {
	cr := authUsers[0]
	for _, ver := range allVersions {
		verImpl := gmsl.MustGetRoomVersion(gmsl.RoomVersion(ver))
		for _, key := range []string{"Membership", "MEMBERSHIP", "membershiP", "memberſhip", "membership"} {
			g := NewRoomGen(r, ver)
			cc := map[string]interface{}{"room_version": ver}
			if !verImpl.PrivilegedCreators() {
				cc["creator"] = cr
			}
			create := g.MkCreate(cr, cc)
			if create == nil {
				continue
			}
			users := map[string]interface{}{"@auth:hs1": 50}
			if !verImpl.PrivilegedCreators() {
				users[cr] = 100
			}
			pl := g.Mk(spec.MRoomPowerLevels, cr, sp(""), map[string]interface{}{"users": users, "invite": 50}, nil, nil, nil)
			// (a) a join in a public room
			jr := g.Mk(spec.MRoomJoinRules, cr, sp(""), map[string]interface{}{"join_rule": "public"}, nil, nil, nil)
			// the variant alone ({"Membership":"join"}: no membership), or next to the exact name with another value
			// (before it in the JSON text for the spellings with an upper-case letter, after it for the U+017F one)
			jc := map[string]interface{}{key: "join"}
			if key == "membership" || r.Chance(35) {
				jc = map[string]interface{}{"membership": Pick(r, []string{"join", "leave", "invite"}), r.otherSpelling("membership"): Pick(r, []string{"join", "leave", "knock"})}
			}
			join := g.Mk(spec.MRoomMember, "@alice:hs1", sp("@alice:hs1"), jc, []string{"$p:hs1"}, nil, nil)
			if jr != nil && pl != nil && join != nil {
				s := &AuthScenario{G: g, Auth: []*Ev{create, pl, jr, memberEv(g, cr, "join")}, Event: join}
				o.Count("needed.casevariant.public." + o.Do("needed", neededArgs(s, unrelatedEvents(g, r))...))
			}
			// (b) a restricted join authorised by a joined user with the power to invite
			rj := g.Mk(spec.MRoomJoinRules, cr, sp(""), map[string]interface{}{"join_rule": "restricted",
				"allow": []map[string]interface{}{{"type": "m.room_membership", "room_id": "!other:hs1"}}}, nil, nil, nil)
			akey := Pick(r, []string{"Join_authorised_via_users_server", "JOIN_AUTHORISED_VIA_USERS_SERVER", "join_authoriſed_via_users_server", "join_authorised_via_users_server"})
			rc := map[string]interface{}{key: "join", akey: "@auth:hs1"}
			if r.Chance(35) {
				rc["join_authorised_via_users_server"] = Pick(r, []string{"@auth:hs1", cr, ""})
				rc[r.otherSpelling("join_authorised_via_users_server")] = Pick(r, []string{"@auth:hs1", cr})
			}
			if r.Chance(20) {
				rc[r.otherSpelling("third_party_invite")] = map[string]interface{}{"signed": map[string]interface{}{"token": "tok1", "mxid": "@alice:hs1"}}
			}
			rjoin := g.Mk(spec.MRoomMember, "@alice:hs1", sp("@alice:hs1"), rc, []string{"$p:hs1"}, nil, nil)
			if rj != nil && pl != nil && rjoin != nil {
				s := &AuthScenario{G: g, Auth: []*Ev{create, pl, rj, memberEv(g, "@auth:hs1", "join")}, Event: rjoin}
				o.Count("needed.casevariant.restricted." + o.Do("needed", neededArgs(s, unrelatedEvents(g, r))...))
			}
		}
	}
}

// neededWitnesses (tier "witness", run by hand to regenerate corpus/C09/ctx.ops): the two inputs on which the verdict
// reads state that StateNeededForAuth does not name (third_party_invite.signed.token empty).
func neededWitnesses(o *Out, r *Rng) {
	cr := "@c:hs1"
	// W1: an invite whose third_party_invite.signed.token is "" is checked against the m.room.third_party_invite event
	// with state_key "" - a pair accumulateStateNeeded does not name (it returns at the token error)
	{
		g := NewRoomGen(r, "10")
		create := g.MkCreate(cr, map[string]interface{}{"creator": cr, "room_version": "10"})
		pub, priv, _ := ed25519.GenerateKey(newDetReader(r))
		sb, _ := json.Marshal(map[string]interface{}{"mxid": "@t:hs1", "token": ""})
		signedJSON, _ := gmsl.SignJSON("idserver", "ed25519:0", priv, sb)
		tpe := g.Mk(spec.MRoomThirdPartyInvite, cr, sp(""), map[string]interface{}{"display_name": "x",
			"public_keys": []map[string]interface{}{{"public_key": base64.RawStdEncoding.EncodeToString(pub)}}}, nil, nil, nil)
		inv := g.Mk(spec.MRoomMember, cr, sp("@t:hs1"), map[string]interface{}{"membership": "invite",
			"third_party_invite": map[string]interface{}{"display_name": "x", "signed": json.RawMessage(signedJSON)}}, []string{"$p:hs1"}, nil, nil)
		s := &AuthScenario{G: g, Auth: []*Ev{create, memberEv(g, cr, "join"), tpe}, Event: inv, Sig3pid: true}
		o.Count("needed.witness.W1." + o.Do("needed", neededArgs(s, nil)...))
	}
	// W2: a restricted join authorised by @auth:hs1 whose content also carries `third_party_invite: {}`: the
	// authoriser's member event is not named (the token error returns before AuthorizedVia is appended)
	{
		g := NewRoomGen(r, "10")
		create := g.MkCreate(cr, map[string]interface{}{"creator": cr, "room_version": "10"})
		jr := g.Mk(spec.MRoomJoinRules, cr, sp(""), map[string]interface{}{"join_rule": "restricted"}, nil, nil, nil)
		pl := g.Mk(spec.MRoomPowerLevels, cr, sp(""), map[string]interface{}{"users": map[string]interface{}{cr: 100, "@auth:hs1": 50}, "invite": 50}, nil, nil, nil)
		join := g.Mk(spec.MRoomMember, "@a:hs1", sp("@a:hs1"), map[string]interface{}{"membership": "join",
			"join_authorised_via_users_server": "@auth:hs1", "third_party_invite": map[string]interface{}{}}, []string{"$p:hs1"}, nil, nil)
		s := &AuthScenario{G: g, Auth: []*Ev{create, jr, pl, memberEv(g, "@auth:hs1", "join")}, Event: join}
		o.Count("needed.witness.W2." + o.Do("needed", neededArgs(s, nil)...))
	}
}
