package main

// Area `wellknown` (C16): fclient.LookupWellKnown against
//   * a real in-process HTTPS server (net/http/httptest) reached through a substituted
//     http.DefaultTransport: replies with a Content-Length and chunked replies without one, and
//   * a scripted RoundTripper for replies a real server cannot produce (odd Content-Length values,
//     header values with surrounding blanks, odd status codes, redirects).

import (
	"bytes"
	"context"
	"crypto/tls"
	"fmt"
	"net"
	"net/http"
	"net/http/httptest"
	"strconv"
	"strings"
	"sync"
	"time"

	"github.com/matrix-org/gomatrixserverlib/fclient"
)

func init() { areas["wellknown"] = Area{Gen: genWellknown, Exec: execWellknown} }

const c16ExpiresLayout = "Mon, 02 Jan 2006 15:04:05 MST" // the layout LookupWellKnown parses Expires with (regenerated and checked in Lean: VGen.C16)

type c16WkScript struct {
	chunked      bool
	status       int
	cacheControl []string // one entry per Cache-Control header line
	expires      string
	hasCC, hasEx bool
	body         []byte
}

// c16CCLines decodes the cache-control argument: `-` (no header) or one hex text per header line, joined by `|`.
func c16CCLines(arg string) []string {
	if arg == "-" {
		return nil
	}
	var out []string
	for _, l := range strings.Split(arg, "|") {
		out = append(out, string(unhx(l)))
	}
	return out
}

var (
	c16WkSrvOnce sync.Once
	c16WkSrv     *httptest.Server
	c16WkSrvMu   sync.Mutex
	c16WkCurrent c16WkScript
	c16WkReal    http.RoundTripper
)

func c16WkServer() http.RoundTripper {
	c16WkSrvOnce.Do(func() {
		c16WkSrv = httptest.NewUnstartedServer(http.HandlerFunc(func(w http.ResponseWriter, r *http.Request) {
			c16WkSrvMu.Lock()
			s := c16WkCurrent
			c16WkSrvMu.Unlock()
			for _, l := range s.cacheControl {
				w.Header().Add("Cache-Control", l)
			}
			if s.hasEx {
				w.Header().Set("Expires", s.expires)
			}
			if s.chunked {
				w.WriteHeader(s.status)
				if f, ok := w.(http.Flusher); ok {
					f.Flush() // headers go out without Content-Length: the body is sent chunked
				}
				_, _ = w.Write(s.body)
				return
			}
			w.Header().Set("Content-Length", strconv.Itoa(len(s.body)))
			w.WriteHeader(s.status)
			_, _ = w.Write(s.body)
		}))
		c16WkSrv.Config.ErrorLog = nil
		c16WkSrv.StartTLS()
		addr := c16WkSrv.Listener.Addr().String()
		c16WkReal = &http.Transport{
			DialContext:     func(ctx context.Context, network, a string) (net.Conn, error) { return net.Dial("tcp", addr) },
			TLSClientConfig: &tls.Config{InsecureSkipVerify: true},
		}
	})
	return c16WkReal
}

func c16ParseBodyDescr(s string) []byte {
	p := strings.Split(s, "+")
	mid := strings.Split(p[1], "x")
	n, _ := strconv.Atoi(mid[0])
	return append(append(append([]byte{}, unhx(p[0])...), bytes.Repeat(unhx(mid[1]), n)...), unhx(p[2])...)
}

func c16ClassifyWKErr(err error) string {
	m := err.Error()
	switch {
	case m == "No .well-known found":
		return "err:status"
	case strings.HasPrefix(m, "well-known content length ") || strings.HasPrefix(m, "well-known response exceeds "):
		return "err:size"
	case m == "No m.server key found in well-known response":
		return "err:noserver"
	case strings.Contains(m, "stub:") || strings.Contains(m, "Get \""):
		return "err:transport"
	}
	return "err:decode"
}

func execWellknown(op string, args []string) string {
	if op != "lookup" {
		return "bad-op"
	}
	mode := args[0]
	status, _ := strconv.Atoi(args[1])
	body := c16ParseBodyDescr(args[6])
	cands := map[int64]bool{0: true}
	if args[7] != "." {
		for _, c := range strings.Split(args[7], ",") {
			v, _ := strconv.ParseInt(c, 10, 64)
			cands[v] = true
		}
	}
	sc := c16WkScript{chunked: mode == "real-chunked", status: status, body: body,
		cacheControl: c16CCLines(args[3]), hasCC: args[3] != "-", expires: string(unhx(args[4])), hasEx: args[4] != "-"}
	var tr http.RoundTripper
	switch mode {
	case "real-cl", "real-chunked":
		tr = c16WkServer()
		c16WkSrvMu.Lock()
		c16WkCurrent = sc
		c16WkSrvMu.Unlock()
	case "stub", "stub-redirect":
		h := http.Header{}
		if args[2] != "-" {
			h["Content-Length"] = []string{string(unhx(args[2]))}
		}
		if sc.hasCC {
			h["Cache-Control"] = sc.cacheControl
		}
		if sc.hasEx {
			h["Expires"] = []string{sc.expires}
		}
		st := &c16WkTransport{replies: map[string]c16WkReply{"wk.test": {status: status, header: h, body: body}}}
		if mode == "stub-redirect" {
			st.replies["first.test"] = c16WkReply{status: 302, header: http.Header{"Location": {"https://wk.test/.well-known/matrix/server"}},
				body: []byte(`{"m.server":"evil.example:1"}`)}
		}
		tr = st
	default:
		return "bad-op"
	}
	name := "wk.test"
	if mode == "stub-redirect" {
		name = "first.test"
	}
	old := http.DefaultTransport
	http.DefaultTransport = tr
	defer func() { http.DefaultTransport = old }()
	for attempt := 0; ; attempt++ {
		t0 := time.Now().Unix()
		res, err := fclient.LookupWellKnown(context.Background(), "wk.test")
		if mode == "stub-redirect" {
			res, err = fclient.LookupWellKnown(context.Background(), "first.test")
		}
		_ = name
		t1 := time.Now().Unix()
		if t0 != t1 && attempt < 5 {
			continue // the clock ticked during the call: a max-age lifetime would be ambiguous
		}
		if err != nil {
			return c16ClassifyWKErr(err)
		}
		exp := "rel:" + strconv.FormatInt(res.CacheExpiresAt-t0, 10) // int64 subtraction wraps like the addition did
		if cands[res.CacheExpiresAt] {
			exp = "abs:" + strconv.FormatInt(res.CacheExpiresAt, 10)
		}
		return "ok:" + hx([]byte(res.NewAddress)) + ":" + exp
	}
}

// ---- generator ----

var c16WkExpires = []string{
	"Thu, 01 Jan 2015 00:00:00 GMT", "Wed, 21 Oct 2045 07:28:00 GMT", "Thu, 01 Jan 1970 00:00:00 GMT", "Thu, 01 Jan 1970 00:00:01 GMT",
	"0", "-1", "Wed, 21 Oct 2045 07:28:00 UTC", "Wed, 21 Oct 2045 07:28:00 PST", "Wed, 21 Oct 2045 07:28:00 +0100",
	"Wednesday, 21-Oct-45 07:28:00 GMT", "Wed Oct 21 07:28:00 2045", "wed, 21 oct 2045 07:28:00 gmt", "Wed, 21 Oct 2045 7:28:00 GMT",
	"Sat, 21 Oct 2045 07:28:00 GMT", "Wed, 21 Oct 2045 07:28:00", "Wed, 21 Oct 2045 07:28:00 GMT+3", "Wed, 32 Oct 2045 07:28:00 GMT",
	"Fri, 31 Dec 1999 23:59:59 GMT", "Mon, 01 Jan 0001 00:00:00 GMT", "Fri, 31 Dec 9999 23:59:59 GMT", "garbage", "Wed, 21 Oct 2045 07:28:00 GMT ",
}

var c16WkCacheControl = []string{
	"max-age=100", "max-age=0", "public, max-age=3600", "max-age=3600, public", "MAX-AGE=60", "Max-Age=60", "max-age = 60", "max-age= 60",
	"max-age=60 ", " max-age=60", "max-age=60,max-age=120", "max-age=abc,max-age=5", "max-age=5,max-age=abc", "max-age=-5", "max-age=+5",
	"max-age=9223372036854775807", "max-age=9223372036854775808", "max-age=-9223372036854775808", "max-age=-9223372036854775809",
	"max-age=1e3", "max-age=1.5", "max-age", "max-age=", "=5", "s-maxage=100", "no-cache", ",", ",,max-age=7,,", "max-age=\"60\"",
	"max-age=60;", "max-age=0x10", "max-age=1_000", "no-store,max-age=10", "max-age=60\t", "\tmax-age=60", "private,  max-age=99  ,x",
	"max-age=5=6", "max−age=5", "max-age=٣", "max-age=00012", "max-age=-0", "  ,  max-age=8", "max-age=8  ,  ", "maxage=5", "max-age =5",
	"MaX-aGe=+0077,foo=bar", "max-age=99999999999999999999", "x=max-age=5", "max-age=5 , max-age= 6",
}

var c16WkContentLength = []string{
	"0", "1", "51199", "51200", "51201", "51202", "999999", "-1", "+51201", "+51200", " 51201", "51201 ", "51,201", "0x10000", "1e9",
	"99999999999999999999", "9223372036854775807", "-9223372036854775808", "abc", "051201", "000051200", "5_1201",
}

var c16WkDocs = []string{
	`{"m.server":"a.example:8448"}`, `{"m.server":"matrix.example.org"}`, `{"m.server":"1.2.3.4"}`, `{"m.server":"[::1]:443"}`,
	`{ "m.server" : "a.example" }`, `{"other":1,"m.server":"a.example","more":[1,2,{"x":null}]}`,
	`{"m.server":""}`, `{"m.server":null}`, `{"m.server":5}`, `{"m.server":true}`, `{"m.server":["a"]}`, `{"m.server":{"a":1}}`,
	`{}`, `{"server":"a.example"}`, `{"m_server":"a.example"}`, `{"M.SERVER":"upper.example"}`, `{"m.Server":"mixed.example"}`,
	`{"m.ſerver":"longs.example"}`, `{"m.server":"first.example","m.server":"second.example"}`, `{"m.server":"first.example","M.SERVER":"second.example"}`,
	`{"m.server":"first.example","m.server":null}`, `{"m.server":"first.example","m.server":5}`, `{"m.server":5,"m.server":"second.example"}`,
	`{"m.server":"a.example","CacheExpiresAt":5}`, `{"m.server":"x.example:1","cacheexpiresat":5}`, `{"m.server":"a.example","CacheExpiresAt":"soon"}`,
	`{"cacheexpiresat":99999999999,"m.server":"a.example"}`, `{"NewAddress":"b.example","m.server":"a.example"}`, `{"NewAddress":"b.example"}`,
	`null`, `[]`, `[{"m.server":"a.example"}]`, `"a.example"`, `5`, `true`, ``, ` `, `{"m.server":"a.example"`, `{"m.server":"a.example"}x`,
	`{"m.server":"a.example"}{}`, `{"m.server":"a.example",}`, `{'m.server':'a.example'}`, `{"m.server":"a.example"}`, `{"m.server":"a.example"}`,
	`{"m.server":"a.example\n"}`, `{"m.server":"a\\b"}`, `{"m.server":"tab\there"}`, `{"m.server":" "}`, `{"m.server":"é.example"}`, `{"m.server":"😀"}`,
	`{"m.server":"😀"}`, `{"m.server":"escaped-key.example"}`, `{"m.server":"a.example","x":01}`, `{"m.server":"a.example","x":1.}`,
	"\ufeff" + `{"m.server":"bom.example"}`, `{"m.server":"not a valid server name!"}`, `{"m.server":"a.example", "m.server ":"b.example"}`,
	`{"M.server":null,"m.SERVER":"c.example"}`, `{"m.server":"a.example","nested":{"m.server":"inner.example"}}`, `{"nested":{"m.server":"inner.example"}}`,
}

// c16WkCCLineSets: replies with two or three Cache-Control header lines
var c16WkCCLineSets = [][]string{
	{"no-cache", "max-age=100"}, {"max-age=100", "no-cache"}, {"public", "max-age=5", "must-revalidate"}, {"max-age=abc", "max-age=7"},
	{"max-age=7", "max-age=abc"}, {"max-age=1", "max-age=2"}, {"private", "no-store"}, {"s-maxage=9", "MAX-AGE=60"}, {"no-cache, no-store", "private, max-age=33"},
}

// c16BodyDescr renders prefix + n pad bytes + suffix.
func c16BodyDescr(prefix string, n int, pad byte, suffix string) string {
	return hx([]byte(prefix)) + "+" + strconv.Itoa(n) + "x" + hx([]byte{pad}) + "+" + hx([]byte(suffix))
}

func c16ExpiresParsed(v string) (string, []string) {
	t, err := time.Parse(c16ExpiresLayout, v)
	if err != nil {
		return "x", nil
	}
	u := strconv.FormatInt(t.Unix(), 10)
	return u, []string{u}
}

func c16OptHex(present bool, v string) string {
	if !present {
		return "-"
	}
	if v == "" {
		return "-" // Header.Get does not distinguish an empty value from an absent header
	}
	return hx([]byte(v))
}

func c16CleanForRealHTTP(v string) bool {
	if v != strings.TrimSpace(v) || v == "" {
		return false
	}
	for i := 0; i < len(v); i++ {
		if v[i] < 0x20 || v[i] == 0x7f {
			return false
		}
	}
	return true
}

func genWellknown(o *Out, tier string, r *Rng) {
	n := 2500
	if tier == "thorough" {
		n = 25000
	}
	emit := func(mode string, status int, cl string, hasCL bool, cc string, hasCC bool, ex string, hasEx bool, body string) string {
		exP, cands := "x", []string(nil)
		if hasEx {
			exP, cands = c16ExpiresParsed(ex)
		}
		cs := "."
		if len(cands) > 0 {
			cs = strings.Join(cands, ",")
		}
		res := o.Do("lookup", mode, strconv.Itoa(status), c16OptHex(hasCL, cl), c16OptHex(hasCC, cc), c16OptHex(hasEx, ex), exP, body, cs)
		if strings.HasPrefix(res, "ok:") {
			o.Count("lookup.ok." + strings.SplitN(res, ":", 4)[2])
		} else {
			o.Count("lookup." + res)
		}
		o.Count("mode." + mode)
		return res
	}
	good := `{"m.server":"a.example:8448"}`
	// several Cache-Control header lines: max-age may stand on any of them
	emitLines := func(mode string, lines []string, ex string, hasEx bool) string {
		exP, cands := "x", []string(nil)
		if hasEx {
			exP, cands = c16ExpiresParsed(ex)
		}
		cs := "."
		if len(cands) > 0 {
			cs = strings.Join(cands, ",")
		}
		hl := make([]string, len(lines))
		for i, l := range lines {
			hl[i] = hx([]byte(l))
		}
		res := o.Do("lookup", mode, "200", "-", strings.Join(hl, "|"), c16OptHex(hasEx, ex), exP, c16BodyDescr(good, 0, ' ', ``), cs)
		o.Count("lookup.cache-control-lines." + strconv.Itoa(len(lines)))
		if strings.HasPrefix(res, "ok:") {
			o.Count("lookup.ok." + strings.SplitN(res, ":", 4)[2])
		}
		return res
	}
	for _, lines := range c16WkCCLineSets {
		for _, mode := range []string{"stub", "real-chunked"} {
			emitLines(mode, lines, "Wed, 21 Oct 2045 07:28:00 GMT", true)
			emitLines(mode, lines, "", false)
		}
	}
	// 1. sizes around the limit, chunked and with Content-Length, padding inside and after the document
	for _, total := range []int{len(good), 1024, 51199, 51200, 51201, 51202, 60000, 102400, 102401, 200000} {
		for _, mode := range []string{"real-cl", "real-chunked", "stub"} {
			pad := total - len(good)
			inner := c16BodyDescr(`{"m.server":"a.example:8448"`, pad, ' ', `}`)
			after := c16BodyDescr(good, pad, ' ', ``)
			before := c16BodyDescr(``, pad, '\n', good)
			junk := c16BodyDescr(good, pad, 'x', ``)
			for _, b := range []string{inner, after, before, junk} {
				cl, hasCL := strconv.Itoa(total), mode == "real-cl"
				if mode == "stub" && r.Bool() {
					cl, hasCL = strconv.Itoa(total), true
				}
				emit(mode, 200, cl, hasCL, "max-age=60", true, "", false, b)
			}
		}
	}
	// 2. every document, every Cache-Control, every Expires, every Content-Length once
	for _, d := range c16WkDocs {
		mode := Pick(r, []string{"real-cl", "real-chunked", "stub"})
		emit(mode, 200, strconv.Itoa(len(d)), mode == "real-cl", "", false, "", false, c16BodyDescr(d, 0, ' ', ``))
	}
	for _, cc := range c16WkCacheControl {
		mode := "stub"
		if c16CleanForRealHTTP(cc) && r.Bool() {
			mode = "real-chunked"
		}
		emit(mode, 200, "", false, cc, true, "Wed, 21 Oct 2045 07:28:00 GMT", true, c16BodyDescr(good, 0, ' ', ``))
		emit(mode, 200, "", false, cc, true, "", false, c16BodyDescr(good, 0, ' ', ``))
	}
	for _, ex := range c16WkExpires {
		mode := "stub"
		if c16CleanForRealHTTP(ex) && r.Bool() {
			mode = "real-chunked"
		}
		emit(mode, 200, "", false, "", false, ex, true, c16BodyDescr(good, 0, ' ', ``))
		emit(mode, 200, "", false, "no-cache", true, ex, true, c16BodyDescr(good, 0, ' ', ``))
	}
	for _, cl := range c16WkContentLength {
		emit("stub", 200, cl, true, "", false, "", false, c16BodyDescr(good, 0, ' ', ``))
	}
	for _, st := range []int{200, 201, 202, 204, 206, 299, 300, 304, 400, 401, 403, 404, 410, 418, 500, 502, 503, 199, 0, 2000, 20} {
		emit("stub", st, "", false, "max-age=5", true, "", false, c16BodyDescr(good, 0, ' ', ``))
		if st >= 200 && st < 600 && st != 204 && st != 304 && (st < 300 || st >= 400) {
			m := Pick(r, []string{"real-cl", "real-chunked"})
			emit(m, st, strconv.Itoa(len(good)), m == "real-cl", "max-age=5", true, "", false, c16BodyDescr(good, 0, ' ', ``))
		}
	}
	emit("stub-redirect", 200, "", false, "max-age=5", true, "", false, c16BodyDescr(good, 0, ' ', ``))
	emit("stub-redirect", 404, "", false, "", false, "", false, c16BodyDescr(good, 0, ' ', ``))
	// 3. random combinations
	for i := 0; i < n; i++ {
		status := 200
		if r.Chance(12) {
			status = Pick(r, []int{201, 204, 404, 500, 403, 299, 199})
		}
		doc := Pick(r, c16WkDocs)
		if r.Chance(50) {
			doc = good
		}
		pad, padByte := 0, byte(' ')
		if r.Chance(25) {
			pad = Pick(r, []int{1, 100, 51200 - len(doc) - 1, 51200 - len(doc), 51200 - len(doc) + 1, 51200, 70000})
			if pad < 0 {
				pad = 0
			}
			padByte = Pick(r, []byte{' ', ' ', '\n', '\t', 'x', 0})
		}
		body := c16BodyDescr(doc, pad, padByte, ``)
		if r.Chance(30) && strings.HasSuffix(doc, "}") {
			body = c16BodyDescr(doc[:len(doc)-1], pad, ' ', "}")
		}
		hasCC, hasEx := r.Chance(60), r.Chance(50)
		cc, ex := Pick(r, c16WkCacheControl), Pick(r, c16WkExpires)
		mode := Pick(r, []string{"real-cl", "real-chunked", "stub", "stub"})
		if (hasCC && !c16CleanForRealHTTP(cc)) || (hasEx && !c16CleanForRealHTTP(ex)) || status == 204 || status == 199 {
			mode = "stub"
		}
		cl, hasCL := strconv.Itoa(len(doc)+pad), mode == "real-cl"
		if mode == "stub" && r.Chance(50) {
			hasCL = true
			if r.Chance(50) {
				cl = Pick(r, c16WkContentLength)
			}
		}
		if hasCC && status == 200 && r.Chance(12) && c16CleanForRealHTTP(cc) && (!hasEx || c16CleanForRealHTTP(ex)) {
			lines := []string{Pick(r, []string{"no-cache", "public", "private", "max-age=x"}), cc}
			if r.Bool() {
				lines = []string{cc, Pick(r, []string{"no-cache", "max-age=77", "no-store"})}
			}
			emitLines(Pick(r, []string{"stub", "real-chunked"}), lines, ex, hasEx)
			continue
		}
		res := emit(mode, status, cl, hasCL, cc, hasCC, ex, hasEx, body)
		if i < 4 {
			o.Sample(fmt.Sprintf("lookup %s status=%d cl=%q cc=%q expires=%q doc=%q pad=%d -> %s", mode, status, cl, cc, ex, doc, pad, res))
		}
	}
}
