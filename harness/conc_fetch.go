package main

// DirectKeyFetcher.FetchKeys under a controlled schedule (C19).  The KeyClient is scripted: each
// call signals (server, kind) and blocks until released.  Settling after a release is observed
// without hooks: the released worker either makes its next client call (signal), or finishes the job
// and takes the next server from the queue (signal), or exits (runtime.NumGoroutine drops), or was
// the last one (FetchKeys returns).

import (
	"context"
	"crypto/ed25519"
	"crypto/sha256"
	"encoding/json"
	"errors"
	"fmt"
	"runtime"
	"sort"
	"strconv"
	"strings"
	"sync"
	"time"

	gmsl "github.com/matrix-org/gomatrixserverlib"
	"github.com/matrix-org/gomatrixserverlib/spec"
)

type concKey struct {
	pub  ed25519.PublicKey
	priv ed25519.PrivateKey
}

var (
	concKeyMu    sync.Mutex
	concKeys     = map[[2]int]concKey{}
	concKeyLabel = map[string]string{}
	concRespMu   sync.Mutex
	concRespMemo = map[string]gmsl.ServerKeys{}
)

func concKeyOf(i, j int) concKey {
	concKeyMu.Lock()
	defer concKeyMu.Unlock()
	if k, ok := concKeys[[2]int{i, j}]; ok {
		return k
	}
	seed := sha256.Sum256([]byte(fmt.Sprintf("verif-c19-key-%d-%d", i, j)))
	priv := ed25519.NewKeyFromSeed(seed[:])
	k := concKey{pub: priv.Public().(ed25519.PublicKey), priv: priv}
	concKeys[[2]int{i, j}] = k
	concKeyLabel[string(k.pub)] = fmt.Sprintf("K%d.%d", i, j)
	return k
}

var concLocalKey = func() concKey {
	seed := sha256.Sum256([]byte("verif-c19-local"))
	priv := ed25519.NewKeyFromSeed(seed[:])
	return concKey{pub: priv.Public().(ed25519.PublicKey), priv: priv}
}()

type concVK struct {
	kid  string
	slot int
	sign bool
}
type concOK struct {
	kid     string
	slot    int
	expired int64
}

// concBuildResp builds a real /_matrix/key/v2/server response body, signs it with the listed keys and parses it.
func concBuildResp(name string, i int, vu int64, verify []concVK, old []concOK) gmsl.ServerKeys {
	memo := fmt.Sprintf("%s|%d|%d|%v|%v", name, i, vu, verify, old)
	concRespMu.Lock()
	if r, ok := concRespMemo[memo]; ok {
		concRespMu.Unlock()
		return r
	}
	concRespMu.Unlock()
	vk := map[string]interface{}{}
	for _, v := range verify {
		vk[v.kid] = map[string]interface{}{"key": spec.Base64Bytes(concKeyOf(i, v.slot).pub)}
	}
	ovk := map[string]interface{}{}
	for _, o := range old {
		ovk[o.kid] = map[string]interface{}{"key": spec.Base64Bytes(concKeyOf(i, o.slot).pub), "expired_ts": o.expired}
	}
	body, err := json.Marshal(map[string]interface{}{
		"server_name": name, "valid_until_ts": vu, "verify_keys": vk, "old_verify_keys": ovk,
	})
	if err != nil {
		panic("harness: marshal server keys")
	}
	for _, v := range verify {
		if v.sign {
			body, err = gmsl.SignJSON(name, gmsl.KeyID(v.kid), concKeyOf(i, v.slot).priv, body)
			if err != nil {
				panic("harness: sign server keys")
			}
		}
	}
	var sk gmsl.ServerKeys
	if err := json.Unmarshal(body, &sk); err != nil {
		panic("harness: parse server keys")
	}
	concRespMu.Lock()
	concRespMemo[memo] = sk
	concRespMu.Unlock()
	return sk
}

func concRespG(name string, i int, vu int64, k0, k1 int, sign bool) gmsl.ServerKeys {
	return concBuildResp(name, i, vu, []concVK{{"ed25519:a", k0, sign}}, []concOK{{"ed25519:o", k1, int64(500 + i)}})
}
func concRespM(name string, i int, vu int64, signB bool) gmsl.ServerKeys {
	return concBuildResp(name, i, vu,
		[]concVK{{"ed25519:a", 0, true}, {"ed25519:b", 2, signB}, {"x25519:c", 3, false}},
		[]concOK{{"ed25519:b", 1, int64(500 + i)}})
}

var errScripted = errors.New("scripted key client failure")

// same tables as directOf / notaryOf in VDriver/Conc.lean
func concDirect(i int, code string) (gmsl.ServerKeys, error) {
	s := "s" + strconv.Itoa(i)
	vu := int64(1000 + i)
	switch code {
	case "G":
		return concRespG(s, i, vu, 0, 1, true), nil
	case "M":
		return concRespM(s, i, vu, true), nil
	case "U":
		return concRespG(s, i, vu, 0, 1, false), nil
	case "P":
		return concRespM(s, i, vu, false), nil
	case "Z":
		return concRespG(s, i, 0, 0, 1, true), nil
	case "C":
		return concBuildResp(s, i, vu, []concVK{{"x25519:c", 3, false}}, nil), nil
	case "W":
		return concRespG("w"+strconv.Itoa(i), i, vu, 4, 5, true), nil
	case "T":
		// what the per-server deadline of fetchKeysForServer (or an http.Client timeout) produces while the caller's own
		// context is alive: a failure of THIS server like any other (seeded change C19-r5m2)
		return gmsl.ServerKeys{}, fmt.Errorf("scripted: Get https://%s/_matrix/key/v2/server: %w", s, context.DeadlineExceeded)
	case "X":
		return gmsl.ServerKeys{}, fmt.Errorf("scripted: %w", context.Canceled)
	}
	return gmsl.ServerKeys{}, errScripted
}

func concNotary(i int, code string) ([]gmsl.ServerKeys, error) {
	s := "s" + strconv.Itoa(i)
	w := "w" + strconv.Itoa(i)
	vu := int64(2000 + i)
	switch code {
	case "N":
		return []gmsl.ServerKeys{concRespG(w, i, vu, 4, 5, true)}, nil
	case "G":
		return []gmsl.ServerKeys{concRespG(w, i, vu, 4, 5, true), concRespG(s, i, vu, 0, 1, true)}, nil
	case "B":
		return []gmsl.ServerKeys{concRespG(s, i, vu, 0, 1, false), concRespG(s, i, vu, 0, 1, true)}, nil
	case "M":
		return []gmsl.ServerKeys{concRespM(s, i, vu, true)}, nil
	case "T":
		return nil, fmt.Errorf("scripted: notary lookup for %s: %w", s, context.DeadlineExceeded)
	case "X":
		return nil, fmt.Errorf("scripted: %w", context.Canceled)
	}
	return nil, errScripted
}

// fetchWorkersAlive counts the live goroutines running FetchKeys' worker closure (goroutine dump; no hook needed).
func fetchWorkersAlive() int {
	buf := make([]byte, 1<<16)
	for {
		n := runtime.Stack(buf, true)
		if n < len(buf) {
			buf = buf[:n]
			break
		}
		buf = make([]byte, 2*len(buf))
	}
	c := 0
	for _, g := range strings.Split(string(buf), "\n\n") {
		if strings.Contains(g, ").FetchKeys.func") {
			c++
		}
	}
	return c
}

type fetchSrv struct {
	kids           []string
	direct, notary string
}

func parseFetchCfg(cfg string) ([]fetchSrv, bool) {
	var out []fetchSrv
	for _, e := range strings.Split(cfg, ";") {
		f := strings.Split(e, ":")
		if len(f) != 3 {
			return nil, false
		}
		var kids []string
		if f[0] != "" {
			for _, k := range strings.Split(f[0], ",") {
				switch k {
				case "a":
					kids = append(kids, "ed25519:a")
				case "z":
					kids = append(kids, "ed25519:zz")
				default:
					kids = append(kids, k)
				}
			}
		}
		out = append(out, fetchSrv{kids, f[1], f[2]})
	}
	return out, true
}

type fetchEv struct {
	srv  string
	kind byte // 'D' GetServerKeys, 'N' LookupServerKeys
}

type schedKeyClient struct {
	srvs    []fetchSrv
	events  chan fetchEv
	release map[string]chan struct{}
}

func (c *schedKeyClient) idx(s spec.ServerName) int {
	i, err := strconv.Atoi(strings.TrimPrefix(string(s), "s"))
	if err != nil || i < 0 || i >= len(c.srvs) {
		return -1
	}
	return i
}

func (c *schedKeyClient) GetServerKeys(ctx context.Context, s spec.ServerName) (gmsl.ServerKeys, error) {
	c.events <- fetchEv{string(s), 'D'}
	<-c.release[string(s)]
	i := c.idx(s)
	if i < 0 {
		return gmsl.ServerKeys{}, errScripted
	}
	return concDirect(i, c.srvs[i].direct)
}

func (c *schedKeyClient) LookupServerKeys(ctx context.Context, s spec.ServerName, _ map[gmsl.PublicKeyLookupRequest]spec.Timestamp) ([]gmsl.ServerKeys, error) {
	c.events <- fetchEv{string(s), 'N'}
	<-c.release[string(s)]
	i := c.idx(s)
	if i < 0 {
		return nil, errScripted
	}
	return concNotary(i, c.srvs[i].notary)
}

func showFetchResults(res map[gmsl.PublicKeyLookupRequest]gmsl.PublicKeyLookupResult) string {
	var out []string
	for req, r := range res {
		label := "K?"
		if string(r.Key) == string(concLocalKey.pub) {
			label = "KL"
		} else {
			concKeyMu.Lock()
			if l, ok := concKeyLabel[string(r.Key)]; ok {
				label = l
			}
			concKeyMu.Unlock()
		}
		out = append(out, fmt.Sprintf("%s/%s=%s:%d:%d", req.ServerName, req.KeyID, label, int64(r.ValidUntilTS), int64(r.ExpiredTS)))
	}
	sort.Strings(out)
	return strings.Join(out, ",")
}

// runFetchSchedule: sched = digits (release server i) for op `fetch`; a policy name (lo, hi, r<seed>) for `fetchbig`.
func runFetchSchedule(cfg, sched, mode string) string {
	srvs, ok := parseFetchCfg(cfg)
	if !ok {
		return "bad-op"
	}
	cl := &schedKeyClient{srvs: srvs, events: make(chan fetchEv, 4*len(srvs)+8), release: map[string]chan struct{}{}}
	reqs := map[gmsl.PublicKeyLookupRequest]spec.Timestamp{}
	remote := 0
	for i, s := range srvs {
		name := "s" + strconv.Itoa(i)
		cl.release[name] = make(chan struct{}, 1)
		for _, k := range s.kids {
			reqs[gmsl.PublicKeyLookupRequest{ServerName: spec.ServerName(name), KeyID: gmsl.KeyID(k)}] = spec.Timestamp(1)
		}
		if s.direct != "L" && len(s.kids) > 0 {
			remote++
		}
	}
	d := &gmsl.DirectKeyFetcher{
		Client: cl,
		IsLocalServerName: func(s spec.ServerName) bool {
			i := cl.idx(s)
			return i >= 0 && srvs[i].direct == "L"
		},
		LocalPublicKey: spec.Base64Bytes(concLocalKey.pub),
	}
	workers := remote
	if workers > 64 {
		workers = 64
	}
	type fres struct {
		m   map[gmsl.PublicKeyLookupRequest]gmsl.PublicKeyLookupResult
		err error
	}
	done := make(chan fres, 1)
	go func() {
		m, err := d.FetchKeys(context.Background(), reqs)
		done <- fres{m, err}
	}()
	pending := map[string]byte{}
	alive := workers
	var final *fres
	// wait for one consequence: an event, a worker exit, or the return of FetchKeys
	waitOne := func(started bool) (fetchEv, string) {
		deadline := time.Now().Add(concStepTimeout)
		for {
			select {
			case ev := <-cl.events:
				return ev, "event"
			case r := <-done:
				final = &r
				return fetchEv{}, "returned"
			default:
			}
			if started && fetchWorkersAlive() < alive {
				alive--
				return fetchEv{}, "exited"
			}
			if time.Now().After(deadline) {
				return fetchEv{}, "hang"
			}
			runtime.Gosched()
		}
	}
	cleanup := func() {
		// release whatever still blocks so that no goroutine of this scenario outlives it
		go func() {
			for {
				select {
				case ev := <-cl.events:
					cl.release[ev.srv] <- struct{}{}
				case <-time.After(200 * time.Millisecond):
					return
				}
			}
		}()
		for _, ch := range cl.release {
			select {
			case ch <- struct{}{}:
			default:
			}
		}
	}
	for i := 0; i < workers; i++ {
		ev, what := waitOne(false)
		if what != "event" || ev.kind != 'D' {
			cleanup()
			return "hang:start"
		}
		pending[ev.srv] = 'D'
	}
	// releaseSrv returns the move's observation
	releaseSrv := func(name string) string {
		if _, ok := pending[name]; !ok {
			return "-"
		}
		delete(pending, name)
		cl.release[name] <- struct{}{}
		ev, what := waitOne(true)
		switch what {
		case "event":
			pending[ev.srv] = ev.kind
			if ev.srv == name && ev.kind == 'N' {
				return ">"
			}
			return "."
		case "exited", "returned":
			return "."
		}
		return "H"
	}
	var trace strings.Builder
	hung := false
	if mode == "fetch" {
		for _, ch := range sched {
			o := releaseSrv("s" + strconv.Itoa(int(ch-'p')))
			trace.WriteString(o)
			if o == "H" {
				hung = true
				break
			}
		}
		for !hung && len(pending) > 0 {
			// every remaining call, in index order
			names := make([]string, 0, len(pending))
			for n := range pending {
				names = append(names, n)
			}
			sort.Slice(names, func(a, b int) bool {
				x, _ := strconv.Atoi(names[a][1:])
				y, _ := strconv.Atoi(names[b][1:])
				return x < y
			})
			if releaseSrv(names[0]) == "H" {
				hung = true
			}
		}
	} else {
		lcg := uint64(len(sched)) * 7919
		for _, ch := range sched {
			lcg = lcg*131 + uint64(ch)
		}
		for !hung && len(pending) > 0 {
			names := make([]string, 0, len(pending))
			for n := range pending {
				names = append(names, n)
			}
			sort.Strings(names)
			pick := names[0]
			switch {
			case sched == "hi":
				pick = names[len(names)-1]
			case strings.HasPrefix(sched, "r"):
				lcg = lcg*6364136223846793005 + 1442695040888963407
				pick = names[int((lcg>>33)%uint64(len(names)))]
			}
			if releaseSrv(pick) == "H" {
				hung = true
			}
		}
	}
	if hung {
		cleanup()
		return trace.String() + "#hang"
	}
	if final == nil {
		select {
		case r := <-done:
			final = &r
		case <-time.After(concStepTimeout):
			cleanup()
			return trace.String() + "#hang:return"
		}
	}
	if final.err != nil {
		return trace.String() + "#err"
	}
	return trace.String() + "#" + showFetchResults(final.m)
}

func emitFetch(o *Out, op, cfg, sched string) {
	if concHangs["fetch"] >= concMaxHangs {
		o.Count("fetch.skipped-after-hangs")
		return
	}
	args := []string{cfg, sched}
	impl := Guard(func() string { return execConc(op, args) })
	o.Emit(op, append(args, impl), impl)
	if strings.Contains(impl, ">") {
		o.Count("fetch.notary-fallback")
	}
	if strings.Contains(impl, "KL") {
		o.Count("fetch.local-entry")
	}
	if strings.HasSuffix(impl, "#") {
		o.Count("fetch.empty-result")
	}
	if strings.Contains(impl, "hang") {
		concHangs["fetch"]++
	}
	if op == "fetchbig" {
		remote := 0
		for _, e := range strings.Split(cfg, ";") {
			f := strings.Split(e, ":")
			if len(f) == 3 && f[0] != "" && f[1] != "L" {
				remote++
			}
		}
		if remote > 64 {
			o.Count("fetch.big.more-than-64-remote")
		}
	}
}

var fetchDirectCodes = []string{"T", "G", "M", "E", "U", "P", "Z", "C", "W", "L"}
var fetchNotaryCodes = []string{"T", "G", "M", "E", "N", "B"}

func randFetchSrv(r *Rng) string {
	d := Pick(r, fetchDirectCodes)
	if r.Chance(35) {
		d = "G"
	}
	kids := "a"
	switch r.Intn(6) {
	case 0:
		kids = "a,z"
	case 1:
		kids = "z"
	case 2:
		if r.Chance(30) {
			kids = "" // no request for this server
		}
	}
	n := Pick(r, fetchNotaryCodes)
	if d == "L" {
		n = "-"
	}
	return kids + ":" + d + ":" + n
}

func permutations(xs []byte, f func(string)) {
	var rec func(i int)
	rec = func(i int) {
		if i == len(xs) {
			f(string(xs))
			return
		}
		seen := map[byte]bool{}
		for j := i; j < len(xs); j++ {
			if seen[xs[j]] {
				continue
			}
			seen[xs[j]] = true
			xs[i], xs[j] = xs[j], xs[i]
			rec(i + 1)
			xs[i], xs[j] = xs[j], xs[i]
		}
	}
	rec(0)
}

func genConcFetch(o *Out, tier string, r *Rng) {
	// k servers, every release order (each server has up to two calls: direct, notary)
	n := 60
	if tier == "thorough" {
		n = 900
	}
	for i := 0; i < n; i++ {
		k := 1 + r.Intn(4)
		var ss []string
		for j := 0; j < k; j++ {
			ss = append(ss, randFetchSrv(r))
		}
		cfg := strings.Join(ss, ";")
		var moves []byte
		for j := 0; j < k; j++ {
			moves = append(moves, byte('p'+j), byte('p'+j))
		}
		if k <= 3 && (tier == "thorough" || i < 12) {
			// all release orders (distinct permutations of the multiset)
			permutations(moves, func(s string) { emitFetch(o, "fetch", cfg, s) })
		} else {
			cnt := make([]int, k)
			for j := range cnt {
				cnt[j] = 2
			}
			for t := 0; t < 6; t++ {
				emitFetch(o, "fetch", cfg, randomInterleaving(r, cnt))
			}
		}
		if i < 3 {
			o.Sample("conc.fetch " + cfg)
		}
	}
	// more than 64 remote servers: the queue is really used; only the result map is compared
	big := 2
	if tier == "thorough" {
		big = 12
	}
	for i := 0; i < big; i++ {
		var ss []string
		for j, m := 0, 84+r.Intn(10); j < m; j++ {
			ss = append(ss, randFetchSrv(r))
		}
		emitFetch(o, "fetchbig", strings.Join(ss, ";"), Pick(r, []string{"lo", "hi", "r1", "r2", "r3"}))
	}
	// more than 64 servers of which only one or two answer: a worker that gave up after a failed server (instead of
	// continuing with the queue) would leave jobs unprocessed
	sparse := 4
	if tier == "thorough" {
		sparse = 16
	}
	for i := 0; i < sparse; i++ {
		m := 86 + r.Intn(6)
		ss := make([]string, m)
		for j := range ss {
			ss[j] = "a:" + Pick(r, []string{"E", "U", "Z", "W", "T", "X"}) + ":" + Pick(r, []string{"E", "N", "B", "T", "X"})
		}
		if i%2 == 1 {
			// every server but the answering ones runs into its own deadline, on the direct request and on the notary
			for j := range ss {
				ss[j] = "a:T:" + Pick(r, []string{"T", "T", "X"})
			}
			o.Count("fetch.big.sparse.timeouts")
			for j := 0; j < 4; j++ { // a few more answering servers, so that some wait in the queue whatever the schedule
				ss[r.Intn(m)] = "a:G:E"
			}
		}
		ss[r.Intn(m)] = "a:G:E"
		if r.Bool() {
			ss[r.Intn(m)] = "a:E:M"
		}
		emitFetch(o, "fetchbig", strings.Join(ss, ";"), Pick(r, []string{"lo", "hi", "r4", "r5"}))
		o.Count("fetch.big.sparse")
	}
	// no remote server at all: zero workers
	emitFetch(o, "fetch", "a:L:-", "p")
	emitFetch(o, "fetch", ":G:G", "p")
}

// ---------------------------------------------------------------------------------------------
// Two concurrent FetchKeys calls on ONE DirectKeyFetcher, each with its own context (op conc.fetch2).
//
// op line:  conc.fetch2  <cfg>  <plan>  <impl outcome>
//   cfg     as for conc.fetch, at most 4 servers; both callers request every listed (server, key ID)
//   plan    A / B      start caller A / B (its FetchKeys goroutine) and wait until each of its workers sits in its first
//                      client call
//           p q r s    release caller A's pending client call for server 0..3      (no-op if it has none)
//           P Q R S    release caller B's
//           x / y      cancel caller A's / B's context: its pending client calls return the context's error, and so does
//                      every later call it makes
//           afterwards every pending call of a started caller is released, in index order, A first
//   outcome <trace>#<A's result map>#<B's result map>   (`-` for a caller that was never started)
//           trace: A<n> / B<n> (n client calls became pending), `>` `.` `-` as for conc.fetch, x. / y. (the caller returned
//           after the cancellation), x- / y- (it had returned before, or was not started)
//
// The scripted client tells the callers apart by a value in the context FetchKeys hands through to it.  On the tree as
// it is the two calls share nothing but the client, every barrier is an event (no timeout is ever hit), and at most one
// goroutine of the scenario is runnable at any time except while a cancelled caller winds down.

type fetch2Ev struct {
	g    int
	srv  string
	kind byte
}

type fetch2Client struct {
	srvs    []fetchSrv
	events  chan fetch2Ev
	release [2]map[string]chan struct{}
}

func (c *fetch2Client) idx(s spec.ServerName) int {
	i, err := strconv.Atoi(strings.TrimPrefix(string(s), "s"))
	if err != nil || i < 0 || i >= len(c.srvs) {
		return -1
	}
	return i
}

// block signals the call and waits for its release or for the end of the caller's context
func (c *fetch2Client) block(ctx context.Context, s spec.ServerName, kind byte) error {
	g, _ := ctx.Value(gidKey{}).(int)
	if g < 0 || g > 1 {
		return errScripted
	}
	if err := ctx.Err(); err != nil {
		return err
	}
	ch, ok := c.release[g][string(s)]
	if !ok {
		return errScripted
	}
	c.events <- fetch2Ev{g, string(s), kind}
	select {
	case <-ch:
		return nil
	case <-ctx.Done():
		return ctx.Err()
	}
}

func (c *fetch2Client) GetServerKeys(ctx context.Context, s spec.ServerName) (gmsl.ServerKeys, error) {
	if err := c.block(ctx, s, 'D'); err != nil {
		return gmsl.ServerKeys{}, err
	}
	return concDirect(c.idx(s), c.srvs[c.idx(s)].direct)
}

func (c *fetch2Client) LookupServerKeys(ctx context.Context, s spec.ServerName, _ map[gmsl.PublicKeyLookupRequest]spec.Timestamp) ([]gmsl.ServerKeys, error) {
	if err := c.block(ctx, s, 'N'); err != nil {
		return nil, err
	}
	return concNotary(c.idx(s), c.srvs[c.idx(s)].notary)
}

func runFetch2(cfg, plan string) string {
	srvs, ok := parseFetchCfg(cfg)
	if !ok || len(srvs) > 4 {
		return "bad-op"
	}
	cl := &fetch2Client{srvs: srvs, events: make(chan fetch2Ev, 8*len(srvs)+8)}
	reqs := map[gmsl.PublicKeyLookupRequest]spec.Timestamp{}
	remote := 0
	for g := 0; g < 2; g++ {
		cl.release[g] = map[string]chan struct{}{}
	}
	for i, s := range srvs {
		name := "s" + strconv.Itoa(i)
		for g := 0; g < 2; g++ {
			cl.release[g][name] = make(chan struct{}, 1)
		}
		for _, k := range s.kids {
			reqs[gmsl.PublicKeyLookupRequest{ServerName: spec.ServerName(name), KeyID: gmsl.KeyID(k)}] = spec.Timestamp(1)
		}
		if s.direct != "L" && len(s.kids) > 0 {
			remote++
		}
	}
	d := &gmsl.DirectKeyFetcher{
		Client: cl,
		IsLocalServerName: func(s spec.ServerName) bool {
			i := cl.idx(s)
			return i >= 0 && srvs[i].direct == "L"
		},
		LocalPublicKey: spec.Base64Bytes(concLocalKey.pub),
	}
	type fres struct {
		m   map[gmsl.PublicKeyLookupRequest]gmsl.PublicKeyLookupResult
		err error
	}
	var (
		started, cancelled [2]bool
		cancel             [2]context.CancelFunc
		ctxs               [2]context.Context
		done               [2]chan fres
		final              [2]*fres
		jobsLeft           [2]int
		pending            = [2]map[string]byte{{}, {}}
		base               = 0 // workers of earlier scenarios still winding down (normally 0)
		alive              = 0 // workers of this scenario expected to be alive
	)
	for t0 := time.Now(); ; runtime.Gosched() {
		if base = fetchWorkersAlive(); base == 0 || time.Since(t0) > time.Second {
			break
		}
	}
	for g := 0; g < 2; g++ {
		ctxs[g], cancel[g] = context.WithCancel(context.WithValue(context.Background(), gidKey{}, g))
		done[g] = make(chan fres, 1)
	}
	defer func() {
		// nothing of this scenario outlives it: end both contexts (every blocked call returns)
		cancel[0]()
		cancel[1]()
	}()
	note := func(ev fetch2Ev) { pending[ev.g][ev.srv] = ev.kind }
	// waitOne waits for one consequence of a move: a client call, a worker exit, or the return of a caller
	waitOne := func(countExits bool) (fetch2Ev, string) {
		deadline := time.Now().Add(concStepTimeout)
		for {
			select {
			case ev := <-cl.events:
				return ev, "event"
			case r := <-done[0]:
				final[0] = &r
				return fetch2Ev{g: 0}, "returned"
			case r := <-done[1]:
				final[1] = &r
				return fetch2Ev{g: 1}, "returned"
			default:
			}
			if countExits && fetchWorkersAlive()-base < alive {
				return fetch2Ev{}, "exited"
			}
			if time.Now().After(deadline) {
				return fetch2Ev{}, "hang"
			}
			runtime.Gosched()
		}
	}
	// awaitReturn waits for caller g's FetchKeys to return and for its workers to be gone
	awaitReturn := func(g int, workers int) bool {
		if final[g] == nil {
			select {
			case r := <-done[g]:
				final[g] = &r
			case <-time.After(concStepTimeout):
				return false
			}
		}
		alive -= workers
		deadline := time.Now().Add(concStepTimeout)
		for fetchWorkersAlive()-base > alive {
			if time.Now().After(deadline) {
				return false
			}
			runtime.Gosched()
		}
		return true
	}
	var trace strings.Builder
	hung := false
	startCaller := func(g int) {
		if started[g] {
			trace.WriteString("-")
			return
		}
		started[g] = true
		go func() {
			m, err := d.FetchKeys(ctxs[g], reqs)
			done[g] <- fres{m, err}
		}()
		want := remote
		if cancelled[g] {
			want = 0
		}
		got := 0
		for got < want {
			ev, what := waitOne(false)
			if what == "event" {
				note(ev)
				if ev.g == g {
					got++
				}
				continue
			}
			if what == "returned" {
				continue
			}
			break // timeout: fewer client calls than workers (reported in the trace; the plan goes on)
		}
		jobsLeft[g] = got
		alive += got
		trace.WriteString(string(rune('A'+g)) + strconv.Itoa(got))
		if got < want {
			concHangs["fetch2"]++
		}
		if want == 0 && !awaitReturn(g, 0) {
			// no remote server (or a context that had ended before): FetchKeys returns without any client call
			trace.WriteString("H")
			hung = true
		}
	}
	releaseCall := func(g int, name string, record bool) {
		if _, ok := pending[g][name]; !ok || cancelled[g] {
			if record {
				trace.WriteString("-")
			}
			return
		}
		delete(pending[g], name)
		cl.release[g][name] <- struct{}{}
		ev, what := waitOne(true)
		obs := "."
		switch what {
		case "event":
			note(ev)
			if ev.g == g && ev.srv == name && ev.kind == 'N' {
				obs = ">"
			}
		case "hang":
			obs = "H"
			hung = true
		}
		if obs == "." {
			jobsLeft[g]--
			if what == "exited" || what == "returned" {
				alive--
			}
			if jobsLeft[g] <= 0 && !awaitReturn(g, 0) {
				obs = "H"
				hung = true
			}
		}
		if record {
			trace.WriteString(obs)
		}
	}
	cancelCaller := func(g int) {
		trace.WriteString(string(rune('x' + g)))
		running := started[g] && final[g] == nil
		cancelled[g] = true
		cancel[g]()
		pending[g] = map[string]byte{}
		if !running {
			trace.WriteString("-")
			return
		}
		w := jobsLeft[g]
		jobsLeft[g] = 0
		if !awaitReturn(g, w) {
			trace.WriteString("H")
			hung = true
			return
		}
		trace.WriteString(".")
	}
	for _, ch := range plan {
		if hung {
			break
		}
		switch {
		case ch == 'A' || ch == 'B':
			startCaller(int(ch - 'A'))
		case ch == 'x' || ch == 'y':
			cancelCaller(int(ch - 'x'))
		case ch >= 'p' && ch <= 's':
			releaseCall(0, "s"+strconv.Itoa(int(ch-'p')), true)
		case ch >= 'P' && ch <= 'S':
			releaseCall(1, "s"+strconv.Itoa(int(ch-'P')), true)
		default:
			return "bad-op"
		}
	}
	// the rest: every pending call, in index order, caller A first
	for round := 0; !hung && round < 4*len(srvs)+4; round++ {
		any := false
		for g := 0; g < 2 && !hung; g++ {
			for i := range srvs {
				name := "s" + strconv.Itoa(i)
				if _, ok := pending[g][name]; ok && !hung {
					any = true
					releaseCall(g, name, false)
				}
			}
		}
		if !any {
			break
		}
	}
	if hung {
		return trace.String() + "#hang"
	}
	out := trace.String()
	for g := 0; g < 2; g++ {
		switch {
		case !started[g]:
			out += "#-"
		default:
			if final[g] == nil {
				select {
				case r := <-done[g]:
					final[g] = &r
				case <-time.After(concStepTimeout):
					return trace.String() + "#hang:return"
				}
			}
			if final[g].err != nil {
				out += "#err"
			} else {
				out += "#" + showFetchResults(final[g].m)
			}
		}
	}
	return out
}

func emitFetch2(o *Out, cfg, plan string) {
	if concHangs["fetch2"] >= concMaxHangs {
		o.Count("fetch2.skipped-after-hangs")
		return
	}
	args := []string{cfg, plan}
	impl := Guard(func() string { return execConc("fetch2", args) })
	o.Emit("fetch2", append(args, impl), impl)
	switch {
	case strings.ContainsAny(plan, "xy") && strings.Index(plan, "A") < strings.IndexAny(plan, "xy") && strings.Index(plan, "B") < strings.IndexAny(plan, "xy"):
		o.Count("fetch2.cancel-while-both-in-flight")
	case strings.ContainsAny(plan, "xy"):
		o.Count("fetch2.cancel-other")
	default:
		o.Count("fetch2.no-cancel")
	}
	if strings.Contains(impl, "hang") {
		concHangs["fetch2"]++
	}
}

func genConcFetch2(o *Out, tier string, r *Rng) {
	// the smallest scenarios, always: one server that answers; both callers in flight; one context ends before the answer
	for _, cfg := range []string{"a:G:E", "a:G:G", "a:E:G", "a,z:M:E;a:G:E"} {
		for _, plan := range []string{"ABx", "ABy", "BAx", "AxB", "ABpx", "ABPx", "AB", "ApB", "ABxP", "AByp"} {
			emitFetch2(o, cfg, plan)
		}
	}
	n := 120
	if tier == "thorough" {
		n = 2500
	}
	for i := 0; i < n; i++ {
		k := 1 + r.Intn(3)
		var ss []string
		for j := 0; j < k; j++ {
			ss = append(ss, randFetchSrv(r))
		}
		cfg := strings.Join(ss, ";")
		// a random interleaving of: A's start + its releases (two per server), B's likewise; then a cancellation of
		// one caller (70%) inserted somewhere after the first start
		var as, bs []byte
		as = append(as, 'A')
		bs = append(bs, 'B')
		var ar, br []byte
		for j := 0; j < k; j++ {
			ar = append(ar, byte('p'+j), byte('p'+j))
			br = append(br, byte('P'+j), byte('P'+j))
		}
		shuffle := func(b []byte) {
			for i := len(b) - 1; i > 0; i-- {
				j := r.Intn(i + 1)
				b[i], b[j] = b[j], b[i]
			}
		}
		shuffle(ar)
		shuffle(br)
		as = append(as, ar[:r.Intn(len(ar)+1)]...)
		bs = append(bs, br[:r.Intn(len(br)+1)]...)
		var plan []byte
		ia, ib := 0, 0
		for ia < len(as) || ib < len(bs) {
			// starts come early most of the time, so that the callers overlap
			pickA := ib >= len(bs) || (ia < len(as) && (r.Bool() || (ia == 0 && r.Chance(60))))
			if ib == 0 && ia > 0 && ib < len(bs) && r.Chance(60) {
				pickA = false
			}
			if pickA {
				plan = append(plan, as[ia])
				ia++
			} else {
				plan = append(plan, bs[ib])
				ib++
			}
		}
		if r.Chance(70) {
			c := byte('x')
			if r.Bool() {
				c = 'y'
			}
			at := 1 + r.Intn(len(plan))
			if r.Chance(50) {
				// right after both starts
				at = 0
				for seen := 0; at < len(plan) && seen < 2; at++ {
					if plan[at] == 'A' || plan[at] == 'B' {
						seen++
					}
				}
			}
			plan = append(plan[:at], append([]byte{c}, plan[at:]...)...)
		}
		emitFetch2(o, cfg, string(plan))
		if i < 3 {
			o.Sample("conc.fetch2 " + cfg + " plan=" + string(plan))
		}
	}
}
