package main

import (
	"bytes"
	"context"
	"crypto/sha1"
	"encoding/hex"
	"encoding/json"
	"hash/fnv"
	"os"
	"os/exec"
	"runtime/debug"
	"sort"
	"strconv"
	"strings"
	"time"

	gmsl "github.com/matrix-org/gomatrixserverlib"
	"github.com/matrix-org/gomatrixserverlib/fclient"
)

func init() {
	areas["stateres"] = Area{Gen: genStateRes, Exec: execStateRes}
	areas["topo"] = Area{Gen: genTopo, Exec: execTopo}
	// a child started by runIsolated: a runaway recursion should hit the stack limit quickly
	if s := os.Getenv("VHARNESS_MAXSTACK"); s != "" {
		if n, err := strconv.Atoi(s); err == nil && n > 0 {
			debug.SetMaxStack(n)
		}
	}
}

// runIsolated executes ONE op line in a child `vharness exec` process with a stack limit, a memory limit and a timeout,
// so that a fatal error of the Go runtime (stack overflow, out of memory: no recover() catches those) or a loop that
// never ends is an OUTCOME of the op (`panic:fatal-stack-overflow`, `panic:fatal-out-of-memory`, `panic:timeout`)
// instead of the death of the harness.  A pure function of the op line (up to the timeout).
func runIsolated(area, op string, args []string) string {
	exe, err := os.Executable()
	if err != nil {
		return "err:no-executable"
	}
	ctx, cancel := context.WithTimeout(context.Background(), 5*time.Second)
	defer cancel()
	cmd := exec.CommandContext(ctx, exe, "exec")
	cmd.Env = append(os.Environ(), "VHARNESS_MAXSTACK=33554432", "GOMEMLIMIT=1GiB", "GOTRACEBACK=single")
	cmd.Stdin = strings.NewReader(area + "." + op + "\t" + strings.Join(args, "\t") + "\n")
	var stdout, stderr bytes.Buffer
	cmd.Stdout, cmd.Stderr = &stdout, &stderr
	runErr := cmd.Run()
	if ctx.Err() == context.DeadlineExceeded {
		return "panic:timeout"
	}
	if out := stdout.String(); runErr == nil && strings.HasSuffix(out, "\n") && strings.Count(out, "\n") == 1 {
		return strings.TrimSuffix(out, "\n") // (the empty line is an outcome: the empty resolved state)
	}
	msg := stderr.String()
	switch {
	case strings.Contains(msg, "stack overflow") || strings.Contains(msg, "goroutine stack exceeds"):
		return "panic:fatal-stack-overflow"
	case strings.Contains(msg, "out of memory"):
		return "panic:fatal-out-of-memory"
	}
	first := msg
	if i := strings.IndexByte(first, '\n'); i >= 0 {
		first = first[:i]
	}
	return "panic:fatal:" + oneLine(first)
}

func idxList(s string) []int {
	if s == "-" || s == "" {
		return nil
	}
	var out []int
	for _, p := range strings.Split(s, ".") {
		n, _ := strconv.Atoi(p)
		out = append(out, n)
	}
	return out
}

func joinIdx(xs []int) string {
	if len(xs) == 0 {
		return "-"
	}
	var p []string
	for _, x := range xs {
		p = append(p, strconv.Itoa(x))
	}
	return strings.Join(p, ".")
}

func sortedIDs(evs []gmsl.PDU) string {
	var ids []string
	for _, e := range evs {
		ids = append(ids, e.EventID())
	}
	sort.Strings(ids)
	return strings.Join(ids, ",")
}

func opRng(args []string) *Rng {
	h := fnv.New64a()
	for _, a := range args {
		h.Write([]byte(a))
	}
	return &Rng{s: h.Sum64()}
}

func shuffled[T any](r *Rng, xs []T) []T {
	out := append([]T{}, xs...)
	for i := len(out) - 1; i > 0; i-- {
		j := r.Intn(i + 1)
		out[i], out[j] = out[j], out[i]
	}
	return out
}

// stateres.resolve <ver> <sets i.j.k|i.j> <auth i.j.k> <rejected i.j|-> <event>...
// stateres.resolve_old: same arguments, deprecated entry point ResolveConflicts over the flattened sets.
// The resolution is run on the given order and on 4 permuted presentations (sets, events inside sets, auth list with
// duplicated entries); the outcome is the sorted result ID list, or "nondet:" + the differing results.
func execStateRes(op string, args []string) string {
	if op == "resolve_cyc" || op == "resolve_old_cyc" {
		// possibly cyclic auth_events (room versions 1 and 2: the sender chooses event IDs): run in a child process
		return runIsolated("stateres", strings.TrimSuffix(op, "_cyc"), args)
	}
	ver := args[0]
	if op == "resolve_props" {
		return "ok" // the driver evaluates the result predicates on the implementation's answer carried in the op
	}
	if op == "resolve_twice" {
		// <ver> <sets> <auth> <rej> <shas> <n> <event A>*n <event B>*n : history A and a history B that re-uses A's event
		// IDs with other contents (possible wherever the sender chooses the IDs: another room, an equivocating server),
		// resolved in ONE process in the order B, A, B, A.  "On every run of the process" (C11): the two runs of A must
		// agree with each other, and with what A resolves to on its own (the driver's answer) — whatever ran before.
		// (B goes first so that a process-wide cache that keeps the FIRST content seen under an ID is filled from B even when
		// the op is replayed alone in a fresh process.)
		// Outcome: <first result of A>|same  or  <first result of A>|differs:<second result of A>
		n, err := strconv.Atoi(args[5])
		if err != nil || len(args) != 6+2*n {
			return "bad-op"
		}
		head := args[:5]
		runA := func() string { return execStateRes("resolve", append(append([]string{}, head...), args[6:6+n]...)) }
		runB := func() string { return execStateRes("resolve", append(append([]string{}, head...), args[6+n:]...)) }
		_ = runB()
		a := runA()
		_ = runB()
		a2 := runA()
		if a == a2 {
			return a + "|same"
		}
		return a + "|differs:" + a2
	}
	var evs []gmsl.PDU
	for _, a := range args[5:] {
		e, err := parseEvArg(ver, a)
		if err != nil {
			return "err:construct"
		}
		evs = append(evs, e)
	}
	var sets [][]gmsl.PDU
	for _, s := range strings.Split(args[1], "|") {
		var set []gmsl.PDU
		for _, i := range idxList(s) {
			set = append(set, evs[i])
		}
		sets = append(sets, set)
	}
	var auth []gmsl.PDU
	for _, i := range idxList(args[2]) {
		auth = append(auth, evs[i])
	}
	rej := map[string]bool{}
	for _, i := range idxList(args[3]) {
		rej[evs[i].EventID()] = true
	}
	isRej := func(id string) bool { return rej[id] }
	run := func(sets [][]gmsl.PDU, auth []gmsl.PDU) string {
		var res []gmsl.PDU
		var err error
		switch op {
		case "resolve":
			res, err = gmsl.ResolveConflictsNew(gmsl.RoomVersion(ver), sets, auth, StdQuerier, isRej)
		case "resolve_old":
			var flat []gmsl.PDU
			for _, s := range sets {
				flat = append(flat, s...)
			}
			res, err = gmsl.ResolveConflicts(gmsl.RoomVersion(ver), flat, auth, StdQuerier, isRej)
		default:
			return "bad-op"
		}
		if err != nil {
			return "err"
		}
		// well-formedness of the result (C11): one event per (type, state_key), only supplied events
		seen := map[gmsl.StateKeyTuple]bool{}
		for _, e := range res {
			if e.StateKey() == nil {
				return "malformed:non-state:" + e.EventID()
			}
			k := gmsl.StateKeyTuple{EventType: e.Type(), StateKey: *e.StateKey()}
			if seen[k] {
				return "malformed:dupkey:" + sortedIDs(res)
			}
			seen[k] = true
		}
		return sortedIDs(res)
	}
	first := run(sets, auth)
	r := opRng(args)
	for k := 0; k < 4; k++ {
		ps := shuffled(r, sets)
		for i := range ps {
			ps[i] = shuffled(r, ps[i])
		}
		pa := shuffled(r, auth)
		if len(pa) > 0 {
			for d := 0; d < 2; d++ {
				pa = append(pa, pa[r.Intn(len(pa))])
			}
			pa = shuffled(r, pa)
		}
		if got := run(ps, pa); got != first {
			return "nondet:" + first + "|" + got
		}
	}
	return first
}

// pickSets takes the state of 2..n branches (sometimes the same branch twice, sometimes a prefix state).
func (h *History) pickSets(r *Rng) [][]*Ev {
	n := 2 + r.Intn(3)
	var sets [][]*Ev
	for i := 0; i < n; i++ {
		b := Pick(r, h.Branches)
		var set []*Ev
		for _, e := range b.State {
			set = append(set, e)
		}
		sort.Slice(set, func(i, j int) bool { return set[i].ID < set[j].ID })
		sets = append(sets, set)
	}
	// servers with partially merged views: some keys of a set are overridden by another branch's event for the
	// same key (still one event per key); sometimes every set adopts the same event for a key (agreed key whose
	// siblings survive in the auth chains)
	if r.Chance(45) {
		other := Pick(r, h.Branches)
		for k, oe := range other.State {
			if !r.Chance(25) {
				continue
			}
			all := r.Chance(50)
			for si := range sets {
				if !all && !r.Chance(50) {
					continue
				}
				for ei, e := range sets[si] {
					if e.PDU.Type() == k.EventType && *e.PDU.StateKey() == k.StateKey {
						sets[si][ei] = oe
					}
				}
			}
		}
	}
	return sets
}

func (h *History) resolveArgs(r *Rng, sets [][]*Ev) []string {
	idx := map[string]int{}
	var evs []*Ev
	add := func(e *Ev) int {
		if i, ok := idx[e.ID]; ok {
			return i
		}
		idx[e.ID] = len(evs)
		evs = append(evs, e)
		return len(evs) - 1
	}
	var setStrs []string
	var all []*Ev
	for _, s := range sets {
		var is []int
		for _, e := range s {
			is = append(is, add(e))
			all = append(all, e)
		}
		setStrs = append(setStrs, joinIdx(is))
	}
	var authIdx []int
	if v1 := gmsl.MustGetRoomVersion(gmsl.RoomVersion(h.G.Ver)).StateResAlgorithm() == gmsl.StateResV1; v1 && r.Chance(50) {
		// the FULL auth closure of the state events, restricted to one event per state key (the latest by depth, then the
		// smallest ID): auth events may now sit on conflicted keys. Since the fix of resolveAuthBlock (the supplied auth
		// event of a slot is put back after the block) the result must not depend on the order of the blocks.
		best := map[gmsl.StateKeyTuple]*Ev{}
		for _, a := range h.AuthClosure(all) {
			if a.PDU.StateKey() == nil {
				continue
			}
			k := gmsl.StateKeyTuple{EventType: a.PDU.Type(), StateKey: *a.PDU.StateKey()}
			if b, ok := best[k]; !ok || a.PDU.Depth() > b.PDU.Depth() || (a.PDU.Depth() == b.PDU.Depth() && a.ID < b.ID) {
				best[k] = a
			}
		}
		var keys []gmsl.StateKeyTuple
		for k := range best {
			keys = append(keys, k)
		}
		sort.Slice(keys, func(i, j int) bool {
			return keys[i].EventType+"\x00"+keys[i].StateKey < keys[j].EventType+"\x00"+keys[j].StateKey
		})
		for _, k := range keys {
			authIdx = append(authIdx, add(best[k]))
		}
	} else if v1 {
		// the version-1 resolver documents its auth events as "the unconflicted auth events needed for
		// auth checks": one per state key, taken from the keys on which the sets do not conflict
		byKey := map[gmsl.StateKeyTuple]map[string]*Ev{}
		for _, e := range all {
			k := gmsl.StateKeyTuple{EventType: e.PDU.Type(), StateKey: *e.PDU.StateKey()}
			if byKey[k] == nil {
				byKey[k] = map[string]*Ev{}
			}
			byKey[k][e.ID] = e
		}
		var keys []gmsl.StateKeyTuple
		for k := range byKey {
			keys = append(keys, k)
		}
		sort.Slice(keys, func(i, j int) bool {
			return keys[i].EventType+"\x00"+keys[i].StateKey < keys[j].EventType+"\x00"+keys[j].StateKey
		})
		for _, k := range keys {
			if len(byKey[k]) != 1 {
				continue
			}
			switch k.EventType {
			case "m.room.create", "m.room.power_levels", "m.room.join_rules", "m.room.member", "m.room.third_party_invite":
				for _, e := range byKey[k] {
					authIdx = append(authIdx, add(e))
				}
			}
		}
	} else {
		for _, a := range h.AuthClosure(all) {
			if r.Chance(2) {
				continue // occasionally an auth event is missing from the supplied list
			}
			authIdx = append(authIdx, add(a))
		}
	}
	var rejIdx []int
	for i, e := range evs {
		if h.Rejected[e.ID] {
			rejIdx = append(rejIdx, i)
		}
	}
	var shas []string
	for _, e := range evs {
		sum := sha1.Sum([]byte(e.ID))
		shas = append(shas, hex.EncodeToString(sum[:]))
	}
	args := []string{h.G.Ver, strings.Join(setStrs, "|"), joinIdx(authIdx), joinIdx(rejIdx), strings.Join(shas, ".")}
	for _, e := range evs {
		args = append(args, e.Arg())
	}
	return args
}

var stateResVersions = []string{"1", "2", "3", "6", "9", "10", "11", "12", "org.matrix.hydra.11", "org.matrix.msc3787"}

// setAuth rebuilds event e (same ID, same fields) with the given auth_events.  Only for event format 1, where the ID
// is a member of the event and not a hash of it.  The *Ev is updated in place, so every state map / list that holds it
// sees the new event.
func (h *History) setAuth(e *Ev, auth []string) bool {
	var m map[string]interface{}
	if err := json.Unmarshal(e.JSON, &m); err != nil {
		return false
	}
	m["auth_events"] = h.G.refs(auth)
	raw, err := json.Marshal(m)
	if err != nil {
		return false
	}
	cj, err := gmsl.CanonicalJSON(raw)
	if err != nil {
		return false
	}
	pdu, err := gmsl.MustGetRoomVersion(gmsl.RoomVersion(h.G.Ver)).NewEventFromTrustedJSONWithEventID(e.ID, cj, false)
	if err != nil {
		return false
	}
	e.PDU, e.JSON = pdu, cj
	return true
}

// addForeignTwins: 1..2 events get, next to one of their auth events, a TWIN of it from another room (same type, state key,
// sender, content; other room ID and event ID), listed before or after it.  Where state resolution falls back to the
// event's own auth events, `AddEvent` is called for both: the later one occupies the slot and BOTH room IDs are recorded
// in the provider, so a checker that asks `Valid()` refuses the event.
func (h *History) addForeignTwins(r *Rng) int {
	n := 0
	// the fallback is used for the slots the partial state does not hold yet when an event is checked: control events
	// (checked first) whose sender's membership is itself conflicted, and nearly every slot under v2.1 (which starts from
	// the empty state) — so prefer power-levels / join-rules / membership-of-another-user events, and their member slots
	var control []*Ev
	for _, e := range h.All {
		switch e.PDU.Type() {
		case "m.room.power_levels", "m.room.join_rules":
			control = append(control, e)
		case "m.room.member":
			if sk := e.PDU.StateKey(); sk != nil && *sk != string(e.PDU.SenderID()) {
				control = append(control, e)
			}
		}
	}
	for k := 0; k < 1+r.Intn(3); k++ {
		e := Pick(r, h.All)
		if len(control) > 0 && r.Chance(75) {
			e = Pick(r, control)
		}
		auth := e.PDU.AuthEventIDs()
		if len(auth) == 0 {
			continue
		}
		ai := r.Intn(len(auth))
		if r.Chance(60) {
			// prefer a membership auth event
			for try := 0; try < 4; try++ {
				if x := h.ByID[auth[ai]]; x != nil && x.PDU.Type() == "m.room.member" {
					break
				}
				ai = r.Intn(len(auth))
			}
		}
		a := h.ByID[auth[ai]]
		if a == nil {
			continue
		}
		var m map[string]interface{}
		if json.Unmarshal(a.JSON, &m) != nil {
			continue
		}
		room := "!elsewhere:hs9"
		if h.G.v3 {
			room = "!" + r.id43()
		}
		m["room_id"] = room
		id := h.G.nextID("hs9")
		if h.G.fmtV == 1 {
			m["event_id"] = id
		}
		raw, err := json.Marshal(m)
		if err != nil {
			continue
		}
		cj, err := gmsl.CanonicalJSON(raw)
		if err != nil {
			continue
		}
		pdu, err := gmsl.MustGetRoomVersion(gmsl.RoomVersion(h.G.Ver)).NewEventFromTrustedJSONWithEventID(id, cj, false)
		if err != nil {
			continue
		}
		twin := &Ev{PDU: pdu, ID: id, JSON: cj}
		var na []string
		for j, x := range auth {
			if j == ai && r.Bool() {
				na = append(na, id, x)
			} else if j == ai {
				na = append(na, x, id)
			} else {
				na = append(na, x)
			}
		}
		if !h.setAuth(e, na) {
			continue
		}
		h.All = append(h.All, twin)
		h.ByID[id] = twin
		n++
	}
	return n
}

// makeCyclic introduces 1..3 cycles into the auth graph of a format-1 history: a power-levels event citing itself, two
// power-levels events citing each other (the later one already cites the earlier), the create event citing a power-levels
// event (which cites the create event), a self-citing / mutually citing pair of non-control events (topic, name, self
// joins), a join-rules event citing itself.  Returns the kinds introduced.
func (h *History) makeCyclic(r *Rng) []string {
	byType := map[string][]*Ev{}
	for _, e := range h.All {
		if e.PDU.StateKey() != nil {
			byType[e.PDU.Type()] = append(byType[e.PDU.Type()], e)
		}
	}
	pls, jrs := byType["m.room.power_levels"], byType["m.room.join_rules"]
	var others []*Ev
	for _, t := range []string{"m.room.name", "m.room.topic", "x.custom", "m.room.member"} {
		others = append(others, byType[t]...)
	}
	var kinds []string
	cite := func(e *Ev, ids ...string) bool {
		auth := append(append([]string{}, e.PDU.AuthEventIDs()...), ids...)
		if r.Chance(30) {
			auth = shuffled(r, auth)
		}
		return h.setAuth(e, auth)
	}
	for k := 0; k < 1+r.Intn(3); k++ {
		switch r.Intn(7) {
		case 0, 1: // power-levels event citing itself
			if len(pls) > 0 {
				if e := Pick(r, pls); cite(e, e.ID) {
					kinds = append(kinds, "pl-self")
				}
			}
		case 2: // two power-levels events citing each other (directly, or the earlier cites a later descendant)
			if len(pls) > 1 {
				i := r.Intn(len(pls) - 1)
				j := i + 1 + r.Intn(len(pls)-i-1)
				a, b := pls[i], pls[j]
				if cite(a, b.ID) && cite(b, a.ID) {
					kinds = append(kinds, "pl-mutual")
				}
			}
		case 3: // create <-> power levels
			if len(pls) > 0 && h.G.Create != nil {
				if c := h.ByID[h.G.Create.ID]; c != nil && cite(c, Pick(r, pls).ID) {
					kinds = append(kinds, "create-pl")
				}
			}
		case 4: // a non-control event citing itself
			if len(others) > 0 {
				if e := Pick(r, others); cite(e, e.ID) {
					kinds = append(kinds, "other-self")
				}
			}
		case 5: // two non-control events citing each other
			if len(others) > 1 {
				a, b := Pick(r, others), Pick(r, others)
				if a != b && cite(a, b.ID) && cite(b, a.ID) {
					kinds = append(kinds, "other-mutual")
				}
			}
		case 6: // join rules citing itself / a power-levels event citing a later join-rules event
			if len(jrs) > 0 {
				e := Pick(r, jrs)
				if r.Bool() && len(pls) > 0 {
					if cite(pls[0], e.ID) {
						kinds = append(kinds, "pl-jr")
					}
				} else if cite(e, e.ID) {
					kinds = append(kinds, "jr-self")
				}
			}
		}
	}
	return kinds
}

// genStateResCyclic: room versions 1 and 2 (event format 1: event IDs are chosen by the sender, so auth_events can be
// cyclic).  Every op runs in a child process (resolve_cyc / resolve_old_cyc), followed by the C11 result predicates on
// the implementation's answer.
func genStateResCyclic(o *Out, tier string, r *Rng) {
	n := 14
	if tier == "thorough" {
		n = 60
	}
	for i := 0; i < n; i++ {
		ver := Pick(r, []string{"2", "2", "2", "1"})
		h := GenHistory(r, ver, 6+r.Intn(24))
		if h == nil {
			continue
		}
		kinds := h.makeCyclic(r)
		if len(kinds) == 0 {
			continue
		}
		for _, k := range kinds {
			o.Count("cyclic." + k)
		}
		sets := h.pickSets(r)
		args := h.resolveArgs(r, sets)
		res := o.Do("resolve_cyc", args...)
		if strings.HasPrefix(res, "panic:") {
			o.Count("cyclic.outcome." + res)
		} else {
			o.Count("cyclic.outcome.returned")
		}
		pargs := append([]string{args[0], "new:" + hx([]byte(res))}, args[1:]...)
		o.Do("resolve_props", pargs...)
		if r.Chance(50) {
			res2 := o.Do("resolve_old_cyc", args...)
			pargs2 := append([]string{args[0], "old:" + hx([]byte(res2))}, args[1:]...)
			o.Do("resolve_props", pargs2...)
		}
	}
}

// otherContents: the same event (same ID, same auth / prev events) carrying other power levels — the ranking of the users
// in `users` inverted, users_default mirrored (100 - level).  Only event format 1 (the ID is a member of
// the event, not a hash of it).  Returns the event argument unchanged for anything but a power-levels event.
func otherContents(ver, arg string) string {
	i := strings.IndexByte(arg, ':')
	id, js := string(unhx(arg[:i])), unhx(arg[i+1:])
	var m map[string]interface{}
	if json.Unmarshal(js, &m) != nil || m["type"] != "m.room.power_levels" {
		return arg
	}
	c, _ := m["content"].(map[string]interface{})
	if c == nil {
		return arg
	}
	if u, ok := c["users"].(map[string]interface{}); ok && len(u) > 1 {
		// invert the ranking of the users: the weakest gets the highest level present, and so on
		type nl struct {
			name string
			lvl  float64
		}
		var l []nl
		for k, v := range u {
			f, isNum := v.(float64)
			if !isNum {
				return arg
			}
			l = append(l, nl{k, f})
		}
		sort.Slice(l, func(i, j int) bool { return l[i].lvl < l[j].lvl || (l[i].lvl == l[j].lvl && l[i].name < l[j].name) })
		nu := map[string]interface{}{}
		for k := range l {
			nu[l[k].name] = int64(l[len(l)-1-k].lvl)
		}
		c["users"] = nu
	}
	if d, ok := c["users_default"].(float64); ok {
		c["users_default"] = 100 - int64(d)
	}
	raw, err := json.Marshal(m)
	if err != nil {
		return arg
	}
	cj, err := gmsl.CanonicalJSON(raw)
	if err != nil {
		return arg
	}
	if _, err := parseEvArg(ver, hx([]byte(id))+":"+hx(cj)); err != nil {
		return arg
	}
	return hx([]byte(id)) + ":" + hx(cj)
}

func twiceArgs(args []string) []string {
	evs := args[5:]
	out := append(append([]string{}, args[:5]...), strconv.Itoa(len(evs)))
	out = append(out, evs...)
	for _, e := range evs {
		out = append(out, otherContents(args[0], e))
	}
	return out
}

// twiceTemplate: a room-version-2 room in which the power ORDER of two conflicting control events decides the result:
// $p0 gives u1 level hi and u2 level lo; u1 and u2 each send a power-levels change citing $p0 (conflict).  The other
// history re-uses the IDs with the two levels swapped.  Variations: which user is stronger, timestamps, a third set.
func twiceTemplate(r *Rng) []string {
	g := NewRoomGen(r, "2")
	h := &History{G: g, ByID: map[string]*Ev{}, Rejected: map[string]bool{}}
	// home-server names (hence the event IDs `$e<n>:<server>`) differ from op to op: what an op observes does not depend
	// on the ops before it
	sfx := strconv.Itoa(r.Intn(1 << 30))
	u := []string{"@creator:c" + sfx, "@alice:a" + sfx, "@bob:b" + sfx}
	hi, lo := int64(60+r.Intn(40)), int64(50)
	if r.Bool() {
		u[1], u[2] = u[2], u[1]
	}
	create := g.MkCreate(u[0], map[string]interface{}{"room_version": "2", "creator": u[0]})
	if create == nil {
		return nil
	}
	h.All = append(h.All, create)
	h.ByID[create.ID] = create
	root := &Branch{State: map[gmsl.StateKeyTuple]*Ev{{EventType: "m.room.create", StateKey: ""}: create}, Tip: create.ID, Depth: 1}
	ts := 10
	send := func(b *Branch, typ, sender, sk string, content interface{}) *Ev {
		ts += r.Intn(2) // equal timestamps happen: the event ID then decides
		return h.Force(b, typ, sender, sk, content, ts)
	}
	for _, x := range u {
		send(root, "m.room.member", x, x, map[string]interface{}{"membership": "join"})
	}
	pl := func(extra map[string]interface{}) map[string]interface{} {
		m := map[string]interface{}{"users": map[string]interface{}{u[0]: 100, u[1]: hi, u[2]: lo}, "users_default": 0, "state_default": 50,
			"events_default": 0, "ban": 50, "kick": 50, "invite": 0}
		for k, v := range extra {
			m[k] = v
		}
		return m
	}
	send(root, "m.room.power_levels", u[0], "", pl(nil))
	b1, b2 := root.clone(), root.clone()
	send(b1, "m.room.power_levels", u[1], "", pl(map[string]interface{}{"invite": 10}))
	send(b2, "m.room.power_levels", u[2], "", pl(map[string]interface{}{"invite": 20}))
	h.Branches = []*Branch{b1, b2}
	var sets [][]*Ev
	for _, b := range []*Branch{b1, b2} {
		var set []*Ev
		for _, e := range b.State {
			set = append(set, e)
		}
		sort.Slice(set, func(i, j int) bool { return set[i].ID < set[j].ID })
		sets = append(sets, set)
	}
	if r.Chance(30) {
		sets = append(sets, sets[r.Intn(2)])
	}
	return h.resolveArgs(r, sets)
}

// twinTemplate: the fallback to an event's own auth events, with two matches for one slot from DIFFERENT rooms.
// @bob's membership is conflicted between the two state sets (a re-join on one branch, a leave on the other) and his
// join-rules change — a control event, checked before the memberships are resolved — cites his older join, which is
// in no state set; that auth event gets a twin from another room (before or after it).  `AddEvent` is called for both.
func twinTemplate(r *Rng, ver string) []string {
	g := NewRoomGen(r, ver)
	h := &History{G: g, ByID: map[string]*Ev{}, Rejected: map[string]bool{}}
	verImpl := gmsl.MustGetRoomVersion(gmsl.RoomVersion(ver))
	a, b := "@creator:hs1", "@bob:hs2"
	cc := map[string]interface{}{"room_version": ver}
	if !verImpl.PrivilegedCreators() {
		cc["creator"] = a
	}
	create := g.MkCreate(a, cc)
	if create == nil {
		return nil
	}
	h.All = append(h.All, create)
	h.ByID[create.ID] = create
	root := &Branch{State: map[gmsl.StateKeyTuple]*Ev{{EventType: "m.room.create", StateKey: ""}: create}, Tip: create.ID, Depth: 1}
	ts := 10
	send := func(br *Branch, typ, sender, sk string, content interface{}) *Ev {
		ts += 1 + r.Intn(2)
		return h.Force(br, typ, sender, sk, content, ts)
	}
	send(root, "m.room.member", a, a, map[string]interface{}{"membership": "join"})
	users := map[string]interface{}{b: 50}
	if !verImpl.PrivilegedCreators() {
		users[a] = 100
	}
	send(root, "m.room.power_levels", a, "", map[string]interface{}{"users": users, "users_default": 0, "state_default": 50, "events_default": 0, "ban": 50, "kick": 50, "invite": 0})
	send(root, "m.room.join_rules", a, "", map[string]interface{}{"join_rule": "public"})
	mb0 := send(root, "m.room.member", b, b, map[string]interface{}{"membership": "join"})
	b1, b2 := root.clone(), root.clone()
	j1 := send(b1, "m.room.join_rules", b, "", map[string]interface{}{"join_rule": Pick(r, []string{"invite", "knock"})})
	send(b1, "m.room.member", b, b, map[string]interface{}{"membership": "join", "displayname": "bob"})
	send(b2, "m.room.member", b, b, map[string]interface{}{"membership": "leave"})
	if mb0 == nil || j1 == nil {
		return nil
	}
	// the twin of bob's older join, from another room, next to it in the auth events of his join-rules change
	var m map[string]interface{}
	if json.Unmarshal(mb0.JSON, &m) != nil {
		return nil
	}
	m["room_id"] = "!elsewhere:hs9"
	if g.v3 {
		m["room_id"] = "!" + r.id43()
	}
	id := g.nextID("hs9")
	if g.fmtV == 1 {
		m["event_id"] = id
	}
	raw, _ := json.Marshal(m)
	cj, err := gmsl.CanonicalJSON(raw)
	if err != nil {
		return nil
	}
	pdu, err := verImpl.NewEventFromTrustedJSONWithEventID(id, cj, false)
	if err != nil {
		return nil
	}
	twin := &Ev{PDU: pdu, ID: id, JSON: cj}
	var na []string
	for _, x := range j1.PDU.AuthEventIDs() {
		if x == mb0.ID && r.Bool() {
			na = append(na, id, x)
		} else if x == mb0.ID {
			na = append(na, x, id)
		} else {
			na = append(na, x)
		}
	}
	if !h.setAuth(j1, na) {
		return nil
	}
	h.All = append(h.All, twin)
	h.ByID[id] = twin
	h.Branches = []*Branch{b1, b2}
	var sets [][]*Ev
	for _, br := range h.Branches {
		var set []*Ev
		for _, e := range br.State {
			set = append(set, e)
		}
		sort.Slice(set, func(i, j int) bool { return set[i].ID < set[j].ID })
		sets = append(sets, set)
	}
	return h.resolveArgs(r, sets)
}

// controlVariantTemplate: whether a membership event is a CONTROL event (a leave / ban of somebody else: resolved before
// the ordinary events) hangs on the member named exactly `membership` — not on `Membership` / `memberſhip`, which
// encoding/json would match too.  @mod bans @bob on one branch (content {"membership":"ban","memberſhip":"invite"}, or
// the variant before / instead of the exact member); on the other branch @bob, still joined, sets the topic at an EARLIER
// timestamp.  With the ban a control event the topic is checked after it and dropped; were the ban read as an invite it
// would be ordered after the topic by timestamp and the topic would stay.
func controlVariantTemplate(r *Rng, ver string) []string {
	g := NewRoomGen(r, ver)
	h := &History{G: g, ByID: map[string]*Ev{}, Rejected: map[string]bool{}}
	verImpl := gmsl.MustGetRoomVersion(gmsl.RoomVersion(ver))
	a, m, b := "@creator:hs1", "@mod:hs1", "@bob:hs2"
	cc := map[string]interface{}{"room_version": ver}
	if !verImpl.PrivilegedCreators() {
		cc["creator"] = a
	}
	create := g.MkCreate(a, cc)
	if create == nil {
		return nil
	}
	h.All = append(h.All, create)
	h.ByID[create.ID] = create
	root := &Branch{State: map[gmsl.StateKeyTuple]*Ev{{EventType: "m.room.create", StateKey: ""}: create}, Tip: create.ID, Depth: 1}
	ts := 10
	send := func(br *Branch, typ, sender, sk string, content interface{}) *Ev {
		ts += 1 + r.Intn(2)
		return h.Force(br, typ, sender, sk, content, ts)
	}
	send(root, "m.room.member", a, a, map[string]interface{}{"membership": "join"})
	users := map[string]interface{}{m: 50}
	if !verImpl.PrivilegedCreators() {
		users[a] = 100
	}
	send(root, "m.room.power_levels", a, "", map[string]interface{}{"users": users, "users_default": 0, "state_default": 50, "events_default": 0,
		"events": map[string]interface{}{"m.room.topic": 0}, "ban": 50, "kick": 50, "invite": 0})
	send(root, "m.room.join_rules", a, "", map[string]interface{}{"join_rule": "public"})
	send(root, "m.room.member", m, m, map[string]interface{}{"membership": "join"})
	send(root, "m.room.member", b, b, map[string]interface{}{"membership": "join"})
	b1, b2 := root.clone(), root.clone()
	topic := send(b2, "m.room.topic", b, "", map[string]interface{}{"topic": "bob was here"})
	exact := Pick(r, []string{"ban", "ban", "leave"})
	other := Pick(r, []string{"invite", "join", "knock"})
	var mc map[string]interface{}
	switch r.Intn(5) {
	case 0: // the variant before the exact member (upper-case letters sort before the lower-case ones)
		mc = map[string]interface{}{"membership": exact, Pick(r, []string{"Membership", "MEMBERSHIP", "membershiP"}): other}
	case 1: // the variant alone: no membership at all (no control event, and refused by the auth rules)
		mc = map[string]interface{}{Pick(r, []string{"Membership", "memberſhip"}): exact}
	default: // the variant after the exact member (U+017F sorts after every ASCII letter): a folded reader takes it
		mc = map[string]interface{}{"membership": exact, "memberſhip": other}
	}
	ban := send(b1, "m.room.member", m, b, mc)
	if topic == nil || ban == nil {
		return nil
	}
	h.Branches = []*Branch{b1, b2}
	var sets [][]*Ev
	for _, br := range h.Branches {
		var set []*Ev
		for _, e := range br.State {
			set = append(set, e)
		}
		sort.Slice(set, func(i, j int) bool { return set[i].ID < set[j].ID })
		sets = append(sets, set)
	}
	return h.resolveArgs(r, sets)
}

// genStateResTwice: "on every run of the process" — one op resolves history A around a history B that re-uses A's event IDs
// with other power-levels contents (order B, A, B, A; room versions 1 and 2: the sender chooses the IDs).
func genStateResTwice(o *Out, tier string, r *Rng) {
	n := 12
	if tier == "thorough" {
		n = 300
	}
	for i := 0; i < n; i++ {
		var args []string
		if i%2 == 0 {
			args = twiceTemplate(r)
			o.Count("twice.template")
		} else {
			h := GenHistory(r, Pick(r, []string{"2", "2", "1"}), 6+r.Intn(24))
			if h == nil {
				continue
			}
			args = h.resolveArgs(r, h.pickSets(r))
			o.Count("twice.history")
		}
		if args == nil {
			continue
		}
		res := o.Do("resolve_twice", twiceArgs(args)...)
		if !strings.HasSuffix(res, "|same") {
			o.Count("twice.differs")
		}
	}
}

func genStateRes(o *Out, tier string, r *Rng) {
	n := 250
	if tier == "thorough" {
		n = 6000
	}
	genStateResCyclic(o, tier, &Rng{s: r.Next()})
	genStateResTwice(o, tier, &Rng{s: r.Next()})
	{
		// fallback to an event's own auth events with two matches for a slot, from different rooms
		tr := &Rng{s: r.Next()}
		k := 6
		if tier == "thorough" {
			k = 120
		}
		for i := 0; i < k; i++ {
			ver := Pick(tr, []string{"2", "6", "10", "11", "12", "org.matrix.hydra.11"})
			if args := twinTemplate(tr, ver); args != nil {
				res := o.Do("resolve", args...)
				o.Do("resolve_props", append([]string{args[0], "new:" + hx([]byte(res))}, args[1:]...)...)
				o.Count("twin.template")
			}
		}
	}
	{
		// the control-event test reads the member named exactly `membership`
		tr := &Rng{s: r.Next()}
		k := 8
		if tier == "thorough" {
			k = 120
		}
		for i := 0; i < k; i++ {
			ver := Pick(tr, []string{"2", "6", "10", "11", "12", "org.matrix.hydra.11"})
			if args := controlVariantTemplate(tr, ver); args != nil {
				res := o.Do("resolve", args...)
				o.Do("resolve_props", append([]string{args[0], "new:" + hx([]byte(res))}, args[1:]...)...)
				o.Count("control-variant.template")
			}
		}
	}
	for i := 0; i < n; i++ {
		ver := Pick(r, stateResVersions)
		odd := r.Chance(30)
		h := GenHistoryOpt(r, ver, 6+r.Intn(30), odd)
		if h == nil {
			continue
		}
		if odd {
			o.Count("history.odd-keys")
		}
		if r.Chance(25) {
			// an auth event doubled by a twin from another room (matters where the resolver falls back to the event's own
			// auth events: every match is added to the provider, and every match's room is recorded)
			if h.addForeignTwins(r) > 0 {
				o.Count("history.foreign-auth-twin")
			}
		}
		for k := 0; k < 2; k++ {
			sets := h.pickSets(r)
			args := h.resolveArgs(r, sets)
			res := o.Do("resolve", args...)
			if strings.HasPrefix(res, "nondet") {
				o.Count("nondet")
			}
			// second op: the result predicates of C11 evaluated by the driver on the implementation's answer
			pargs := append([]string{args[0], "new:" + hx([]byte(res))}, args[1:]...)
			o.Do("resolve_props", pargs...)
			if r.Chance(30) {
				res2 := o.Do("resolve_old", args...)
				pargs2 := append([]string{args[0], "old:" + hx([]byte(res2))}, args[1:]...)
				o.Do("resolve_props", pargs2...)
			}
			conf := 0
			for _, s := range sets[1:] {
				if len(s) != len(sets[0]) {
					conf++
				}
			}
			o.Count("sets." + strconv.Itoa(len(sets)))
		}
		if i < 3 {
			o.Sample(ver + " events=" + strconv.Itoa(len(h.All)) + " branches=" + strconv.Itoa(len(h.Branches)))
		}
	}
}

// topo.order <ver> <auth|prev> <order i.j.k (with duplicates)> <event>...  -> IDs in the returned order
func execTopo(op string, args []string) string {
	if op == "order_props" {
		return "ok"
	}
	if op == "linearise" {
		// topo.linearise <ver> <state i.j.k> <auth i.j.k> <event>... -> IDs in the order LineariseStateResponse returns
		ver := args[0]
		var evs []gmsl.PDU
		for _, a := range args[3:] {
			e, err := parseEvArg(ver, a)
			if err != nil {
				return "err:construct"
			}
			evs = append(evs, e)
		}
		pick := func(s string) []gmsl.PDU {
			var out []gmsl.PDU
			for _, i := range idxList(s) {
				out = append(out, evs[i])
			}
			return out
		}
		rs := fclient.RespState{StateEvents: gmsl.NewEventJSONsFromEvents(pick(args[1])), AuthEvents: gmsl.NewEventJSONsFromEvents(pick(args[2]))}
		var ids []string
		for _, e := range gmsl.LineariseStateResponse(gmsl.RoomVersion(ver), &rs) {
			ids = append(ids, e.EventID())
		}
		return strings.Join(ids, ",")
	}
	if op != "order" {
		return "bad-op"
	}
	ver := args[0]
	var evs []gmsl.PDU
	for _, a := range args[3:] {
		e, err := parseEvArg(ver, a)
		if err != nil {
			return "err:construct"
		}
		evs = append(evs, e)
	}
	var input []gmsl.PDU
	for _, i := range idxList(args[2]) {
		input = append(input, evs[i])
	}
	ord := gmsl.TopologicalOrderByAuthEvents
	if args[1] == "prev" {
		ord = gmsl.TopologicalOrderByPrevEvents
	}
	out := gmsl.ReverseTopologicalOrdering(input, ord)
	var ids []string
	for _, e := range out {
		ids = append(ids, e.EventID())
	}
	return strings.Join(ids, ",")
}

func genTopo(o *Out, tier string, r *Rng) {
	n := 300
	if tier == "thorough" {
		n = 8000
	}
	for i := 0; i < n; i++ {
		ver := Pick(r, stateResVersions)
		h := GenHistory(r, ver, 4+r.Intn(20))
		if h == nil {
			continue
		}
		// a subset of the events, in a random presentation order, sometimes with duplicates
		var idx []int
		for j := range h.All {
			if r.Chance(80) {
				idx = append(idx, j)
			}
		}
		idx = shuffled(r, idx)
		dups := r.Chance(35)
		if dups && len(idx) > 0 {
			for d := 0; d < 1+r.Intn(3); d++ {
				idx = append(idx, idx[r.Intn(len(idx))])
			}
			idx = shuffled(r, idx)
			o.Count("with-duplicates")
		}
		args := []string{ver, Pick(r, []string{"auth", "prev"}), joinIdx(idx)}
		for _, e := range h.All {
			args = append(args, e.Arg())
		}
		res := o.Do("order", args...)
		pargs := append([]string{args[0], hx([]byte(res))}, args[1:]...)
		o.Do("order_props", pargs...)
		// LineariseStateResponse (a /state response: state events + their auth chain, parsed as UNTRUSTED events, then ordered
		// by auth events).  Only event format 1, where the generated event IDs survive the untrusted parse (for the hashed
		// formats the parser recomputes the IDs and the references of these unsigned, unhashed test events dangle).
		if (ver == "1" || ver == "2") && len(h.Branches) > 0 {
			b := Pick(r, h.Branches)
			pos := map[string]int{}
			for j, e := range h.All {
				pos[e.ID] = j
			}
			var st []*Ev
			var stIdx, auIdx []int
			for _, e := range b.State {
				st = append(st, e)
			}
			sort.Slice(st, func(i, j int) bool { return st[i].ID < st[j].ID })
			for _, e := range st {
				stIdx = append(stIdx, pos[e.ID])
			}
			for _, a := range h.AuthClosure(st) {
				auIdx = append(auIdx, pos[a.ID])
			}
			stIdx, auIdx = shuffled(r, stIdx), shuffled(r, auIdx)
			largs := []string{ver, joinIdx(stIdx), joinIdx(auIdx)}
			for _, e := range h.All {
				largs = append(largs, e.Arg())
			}
			lres := o.Do("linearise", largs...)
			// the ordering predicates on the implementation's answer: input = state events + auth events
			lp := []string{ver, hx([]byte(lres)), "auth", joinIdx(append(append([]int{}, stIdx...), auIdx...))}
			lp = append(lp, largs[3:]...)
			o.Do("order_props", lp...)
		}
	}
}
