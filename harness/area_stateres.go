package main

import (
	"crypto/sha1"
	"encoding/hex"
	"hash/fnv"
	"sort"
	"strconv"
	"strings"

	gmsl "github.com/matrix-org/gomatrixserverlib"
)

func init() {
	areas["stateres"] = Area{Gen: genStateRes, Exec: execStateRes}
	areas["topo"] = Area{Gen: genTopo, Exec: execTopo}
}

func idxList(s string) []int {
	if s == "-" || s == "" {
		return nil
	}
	var out []int
	for _, p := range strings.Split(s, ".") {
		n, _ := strconv.Atoi(p)
		out = append(out, n)
	}
	return out
}

func joinIdx(xs []int) string {
	if len(xs) == 0 {
		return "-"
	}
	var p []string
	for _, x := range xs {
		p = append(p, strconv.Itoa(x))
	}
	return strings.Join(p, ".")
}

func sortedIDs(evs []gmsl.PDU) string {
	var ids []string
	for _, e := range evs {
		ids = append(ids, e.EventID())
	}
	sort.Strings(ids)
	return strings.Join(ids, ",")
}

func opRng(args []string) *Rng {
	h := fnv.New64a()
	for _, a := range args {
		h.Write([]byte(a))
	}
	return &Rng{s: h.Sum64()}
}

func shuffled[T any](r *Rng, xs []T) []T {
	out := append([]T{}, xs...)
	for i := len(out) - 1; i > 0; i-- {
		j := r.Intn(i + 1)
		out[i], out[j] = out[j], out[i]
	}
	return out
}

// stateres.resolve <ver> <sets i.j.k|i.j> <auth i.j.k> <rejected i.j|-> <event>...
// stateres.resolve_old: same arguments, deprecated entry point ResolveConflicts over the flattened sets.
// The resolution is run on the given order and on 4 permuted presentations (sets, events inside sets, auth list with
// duplicated entries); the outcome is the sorted result ID list, or "nondet:" + the differing results.
func execStateRes(op string, args []string) string {
	ver := args[0]
	if op == "resolve_props" {
		return "ok" // the driver evaluates the result predicates on the implementation's answer carried in the op
	}
	var evs []gmsl.PDU
	for _, a := range args[5:] {
		e, err := parseEvArg(ver, a)
		if err != nil {
			return "err:construct"
		}
		evs = append(evs, e)
	}
	var sets [][]gmsl.PDU
	for _, s := range strings.Split(args[1], "|") {
		var set []gmsl.PDU
		for _, i := range idxList(s) {
			set = append(set, evs[i])
		}
		sets = append(sets, set)
	}
	var auth []gmsl.PDU
	for _, i := range idxList(args[2]) {
		auth = append(auth, evs[i])
	}
	rej := map[string]bool{}
	for _, i := range idxList(args[3]) {
		rej[evs[i].EventID()] = true
	}
	isRej := func(id string) bool { return rej[id] }
	run := func(sets [][]gmsl.PDU, auth []gmsl.PDU) string {
		var res []gmsl.PDU
		var err error
		switch op {
		case "resolve":
			res, err = gmsl.ResolveConflictsNew(gmsl.RoomVersion(ver), sets, auth, StdQuerier, isRej)
		case "resolve_old":
			var flat []gmsl.PDU
			for _, s := range sets {
				flat = append(flat, s...)
			}
			res, err = gmsl.ResolveConflicts(gmsl.RoomVersion(ver), flat, auth, StdQuerier, isRej)
		default:
			return "bad-op"
		}
		if err != nil {
			return "err"
		}
		// well-formedness of the result (C11): one event per (type, state_key), only supplied events
		seen := map[gmsl.StateKeyTuple]bool{}
		for _, e := range res {
			if e.StateKey() == nil {
				return "malformed:non-state:" + e.EventID()
			}
			k := gmsl.StateKeyTuple{EventType: e.Type(), StateKey: *e.StateKey()}
			if seen[k] {
				return "malformed:dupkey:" + sortedIDs(res)
			}
			seen[k] = true
		}
		return sortedIDs(res)
	}
	first := run(sets, auth)
	r := opRng(args)
	for k := 0; k < 4; k++ {
		ps := shuffled(r, sets)
		for i := range ps {
			ps[i] = shuffled(r, ps[i])
		}
		pa := shuffled(r, auth)
		if len(pa) > 0 {
			for d := 0; d < 2; d++ {
				pa = append(pa, pa[r.Intn(len(pa))])
			}
			pa = shuffled(r, pa)
		}
		if got := run(ps, pa); got != first {
			return "nondet:" + first + "|" + got
		}
	}
	return first
}

// pickSets takes the state of 2..n branches (sometimes the same branch twice, sometimes a prefix state).
func (h *History) pickSets(r *Rng) [][]*Ev {
	n := 2 + r.Intn(3)
	var sets [][]*Ev
	for i := 0; i < n; i++ {
		b := Pick(r, h.Branches)
		var set []*Ev
		for _, e := range b.State {
			set = append(set, e)
		}
		sort.Slice(set, func(i, j int) bool { return set[i].ID < set[j].ID })
		sets = append(sets, set)
	}
	// servers with partially merged views: some keys of a set are overridden by another branch's event for the
	// same key (still one event per key); sometimes every set adopts the same event for a key (agreed key whose
	// siblings survive in the auth chains)
	if r.Chance(45) {
		other := Pick(r, h.Branches)
		for k, oe := range other.State {
			if !r.Chance(25) {
				continue
			}
			all := r.Chance(50)
			for si := range sets {
				if !all && !r.Chance(50) {
					continue
				}
				for ei, e := range sets[si] {
					if e.PDU.Type() == k.EventType && *e.PDU.StateKey() == k.StateKey {
						sets[si][ei] = oe
					}
				}
			}
		}
	}
	return sets
}

func (h *History) resolveArgs(r *Rng, sets [][]*Ev) []string {
	idx := map[string]int{}
	var evs []*Ev
	add := func(e *Ev) int {
		if i, ok := idx[e.ID]; ok {
			return i
		}
		idx[e.ID] = len(evs)
		evs = append(evs, e)
		return len(evs) - 1
	}
	var setStrs []string
	var all []*Ev
	for _, s := range sets {
		var is []int
		for _, e := range s {
			is = append(is, add(e))
			all = append(all, e)
		}
		setStrs = append(setStrs, joinIdx(is))
	}
	var authIdx []int
	if v1 := gmsl.MustGetRoomVersion(gmsl.RoomVersion(h.G.Ver)).StateResAlgorithm() == gmsl.StateResV1; v1 && r.Chance(50) {
		// the FULL auth closure of the state events, restricted to one event per state key (the latest by depth, then the
		// smallest ID): auth events may now sit on conflicted keys. Since the fix of resolveAuthBlock (the supplied auth
		// event of a slot is put back after the block) the result must not depend on the order of the blocks.
		best := map[gmsl.StateKeyTuple]*Ev{}
		for _, a := range h.AuthClosure(all) {
			if a.PDU.StateKey() == nil {
				continue
			}
			k := gmsl.StateKeyTuple{EventType: a.PDU.Type(), StateKey: *a.PDU.StateKey()}
			if b, ok := best[k]; !ok || a.PDU.Depth() > b.PDU.Depth() || (a.PDU.Depth() == b.PDU.Depth() && a.ID < b.ID) {
				best[k] = a
			}
		}
		var keys []gmsl.StateKeyTuple
		for k := range best {
			keys = append(keys, k)
		}
		sort.Slice(keys, func(i, j int) bool {
			return keys[i].EventType+"\x00"+keys[i].StateKey < keys[j].EventType+"\x00"+keys[j].StateKey
		})
		for _, k := range keys {
			authIdx = append(authIdx, add(best[k]))
		}
	} else if v1 {
		// the version-1 resolver documents its auth events as "the unconflicted auth events needed for
		// auth checks": one per state key, taken from the keys on which the sets do not conflict
		byKey := map[gmsl.StateKeyTuple]map[string]*Ev{}
		for _, e := range all {
			k := gmsl.StateKeyTuple{EventType: e.PDU.Type(), StateKey: *e.PDU.StateKey()}
			if byKey[k] == nil {
				byKey[k] = map[string]*Ev{}
			}
			byKey[k][e.ID] = e
		}
		var keys []gmsl.StateKeyTuple
		for k := range byKey {
			keys = append(keys, k)
		}
		sort.Slice(keys, func(i, j int) bool {
			return keys[i].EventType+"\x00"+keys[i].StateKey < keys[j].EventType+"\x00"+keys[j].StateKey
		})
		for _, k := range keys {
			if len(byKey[k]) != 1 {
				continue
			}
			switch k.EventType {
			case "m.room.create", "m.room.power_levels", "m.room.join_rules", "m.room.member", "m.room.third_party_invite":
				for _, e := range byKey[k] {
					authIdx = append(authIdx, add(e))
				}
			}
		}
	} else {
		for _, a := range h.AuthClosure(all) {
			if r.Chance(2) {
				continue // occasionally an auth event is missing from the supplied list
			}
			authIdx = append(authIdx, add(a))
		}
	}
	var rejIdx []int
	for i, e := range evs {
		if h.Rejected[e.ID] {
			rejIdx = append(rejIdx, i)
		}
	}
	var shas []string
	for _, e := range evs {
		sum := sha1.Sum([]byte(e.ID))
		shas = append(shas, hex.EncodeToString(sum[:]))
	}
	args := []string{h.G.Ver, strings.Join(setStrs, "|"), joinIdx(authIdx), joinIdx(rejIdx), strings.Join(shas, ".")}
	for _, e := range evs {
		args = append(args, e.Arg())
	}
	return args
}

var stateResVersions = []string{"1", "2", "3", "6", "9", "10", "11", "12", "org.matrix.hydra.11", "org.matrix.msc3787"}

func genStateRes(o *Out, tier string, r *Rng) {
	n := 250
	if tier == "thorough" {
		n = 6000
	}
	for i := 0; i < n; i++ {
		ver := Pick(r, stateResVersions)
		h := GenHistory(r, ver, 6+r.Intn(30))
		if h == nil {
			continue
		}
		for k := 0; k < 2; k++ {
			sets := h.pickSets(r)
			args := h.resolveArgs(r, sets)
			res := o.Do("resolve", args...)
			if strings.HasPrefix(res, "nondet") {
				o.Count("nondet")
			}
			// second op: the result predicates of C11 evaluated by the driver on the implementation's answer
			pargs := append([]string{args[0], "new:" + hx([]byte(res))}, args[1:]...)
			o.Do("resolve_props", pargs...)
			if r.Chance(30) {
				res2 := o.Do("resolve_old", args...)
				pargs2 := append([]string{args[0], "old:" + hx([]byte(res2))}, args[1:]...)
				o.Do("resolve_props", pargs2...)
			}
			conf := 0
			for _, s := range sets[1:] {
				if len(s) != len(sets[0]) {
					conf++
				}
			}
			o.Count("sets." + strconv.Itoa(len(sets)))
		}
		if i < 3 {
			o.Sample(ver + " events=" + strconv.Itoa(len(h.All)) + " branches=" + strconv.Itoa(len(h.Branches)))
		}
	}
}

// topo.order <ver> <auth|prev> <order i.j.k (with duplicates)> <event>...  -> IDs in the returned order
func execTopo(op string, args []string) string {
	if op == "order_props" {
		return "ok"
	}
	if op != "order" {
		return "bad-op"
	}
	ver := args[0]
	var evs []gmsl.PDU
	for _, a := range args[3:] {
		e, err := parseEvArg(ver, a)
		if err != nil {
			return "err:construct"
		}
		evs = append(evs, e)
	}
	var input []gmsl.PDU
	for _, i := range idxList(args[2]) {
		input = append(input, evs[i])
	}
	ord := gmsl.TopologicalOrderByAuthEvents
	if args[1] == "prev" {
		ord = gmsl.TopologicalOrderByPrevEvents
	}
	out := gmsl.ReverseTopologicalOrdering(input, ord)
	var ids []string
	for _, e := range out {
		ids = append(ids, e.EventID())
	}
	return strings.Join(ids, ",")
}

func genTopo(o *Out, tier string, r *Rng) {
	n := 300
	if tier == "thorough" {
		n = 8000
	}
	for i := 0; i < n; i++ {
		ver := Pick(r, stateResVersions)
		h := GenHistory(r, ver, 4+r.Intn(20))
		if h == nil {
			continue
		}
		// a subset of the events, in a random presentation order, sometimes with duplicates
		var idx []int
		for j := range h.All {
			if r.Chance(80) {
				idx = append(idx, j)
			}
		}
		idx = shuffled(r, idx)
		dups := r.Chance(35)
		if dups && len(idx) > 0 {
			for d := 0; d < 1+r.Intn(3); d++ {
				idx = append(idx, idx[r.Intn(len(idx))])
			}
			idx = shuffled(r, idx)
			o.Count("with-duplicates")
		}
		args := []string{ver, Pick(r, []string{"auth", "prev"}), joinIdx(idx)}
		for _, e := range h.All {
			args = append(args, e.Arg())
		}
		res := o.Do("order", args...)
		pargs := append([]string{args[0], hx([]byte(res))}, args[1:]...)
		o.Do("order_props", pargs...)
	}
}
