package main

// Area `event` (C03, C04): the event constructors (untrusted / trusted / trusted with ID /
// headered), EventBuilder.Build, SetUnsigned, Sign, Redact, on events built with real ed25519 keys
// and on tampered copies of them.  Also the PDU ops of area `redact` (C05).

import (
	"bytes"
	"crypto/ed25519"
	"crypto/sha256"
	"encoding/base64"
	"encoding/json"
	"errors"
	"fmt"
	"math/rand"
	"reflect"
	"strings"
	"time"

	gmsl "github.com/matrix-org/gomatrixserverlib"
	"github.com/matrix-org/gomatrixserverlib/spec"
	"github.com/matrix-org/util"
	"github.com/tidwall/gjson"
)

func init() { areas["event"] = Area{Gen: genEvent, Exec: execEvent} }

// ---- outcome printing (mirrors VDriver/Event.lean showPDU) ----

func classifyErr(err error, input []byte) string {
	if !json.Valid(input) {
		return "err:invalid-json"
	}
	var bj gmsl.BadJSONError
	if errors.As(err, &bj) {
		return "err:badjson"
	}
	var ev gmsl.EventValidationError
	if errors.As(err, &ev) {
		if ev.Persistable {
			return "err:toolarge-persistable"
		}
		return "err:toolarge"
	}
	return "err:other"
}

func showOptStr(s *string) string {
	if s == nil {
		return "~"
	}
	return hx([]byte(*s))
}

func showIDs(ids []string) string {
	if ids == nil {
		return "~"
	}
	out := make([]string, len(ids))
	for i, id := range ids {
		out[i] = hx([]byte(id))
	}
	return "[" + strings.Join(out, ",") + "]"
}

func showRawCanon(raw []byte) string {
	if raw == nil {
		return "~"
	}
	c, err := gmsl.CanonicalJSON(raw)
	if err != nil {
		return "!" + hx(raw)
	}
	return hx(c)
}

func accessor(guarded bool, f func() string) (res string) {
	if guarded {
		defer func() {
			if r := recover(); r != nil {
				res = "PANIC"
			}
		}()
	}
	return f()
}

// pduTuple prints what the accessors of an event report.  With guarded=false a panicking accessor
// propagates (the op is then reported as a panic: an untrusted event must never do that).
func pduTuple(p gmsl.PDU, guarded bool) string {
	eid := accessor(guarded, func() string { return hx([]byte(p.EventID())) })
	rid := accessor(guarded, func() string { r := p.RoomID(); return hx([]byte(r.String())) })
	auth := accessor(guarded, func() string { return showIDs(p.AuthEventIDs()) })
	red := "0"
	if p.Redacted() {
		red = "1"
	}
	js := p.JSON()
	cj, err := gmsl.CanonicalJSON(js)
	canon := "0"
	jsShown := "!" + hx(js)
	if err == nil {
		jsShown = hx(cj)
		if bytes.Equal(cj, js) {
			canon = "1"
		}
	}
	return "ok:" + strings.Join([]string{
		"eid=" + eid, "rid=" + rid, "type=" + hx([]byte(p.Type())), "sk=" + showOptStr(p.StateKey()),
		"sender=" + hx([]byte(p.SenderID())), "redacted=" + red,
		fmt.Sprintf("depth=%d", p.Depth()), fmt.Sprintf("ts=%d", uint64(p.OriginServerTS())),
		"prev=" + showIDs(p.PrevEventIDs()), "auth=" + auth,
		"content=" + showRawCanon(p.Content()), "unsigned=" + showRawCanon(p.Unsigned()),
		"canon=" + canon, "json=" + jsShown,
	}, "|")
}

func withLen(t string, p gmsl.PDU) string { return fmt.Sprintf("%s|len=%d", t, len(p.JSON())) }

func verOf(hexver string) (gmsl.IRoomVersion, error) {
	return gmsl.GetRoomVersion(gmsl.RoomVersion(hexver))
}

func execEvent(op string, args []string) string {
	switch op {
	case "parse_untrusted":
		v, err := verOf(args[0])
		if err != nil {
			return "err:version"
		}
		in := unhx(args[1])
		p, err := v.NewEventFromUntrustedJSON(in)
		if err != nil {
			return classifyErr(err, in)
		}
		return withLen(pduTuple(p, false), p)
	case "untrusted_view":
		// C04 "observable through any accessor": every accessor of an event the untrusted constructor returned is a function of
		// its JSON() (theorem accessors_only_see_json) - the event re-read from its own JSON as trusted input, with the same
		// redacted flag, answers every accessor identically, including the ones outside the tuple of parse_untrusted
		// (Redacts(), IsSticky(), StickyEndTime(), Version(), SenderID, ...).  ok | ok:refused | bad:<accessor>
		v, err := verOf(args[0])
		if err != nil {
			return "err:version"
		}
		in := unhx(args[1])
		var p gmsl.PDU
		var perr error
		if r := Guard(func() string { p, perr = v.NewEventFromUntrustedJSON(in); return "" }); r != "" {
			return "ok" // a panic is reported by parse_untrusted on the same text
		}
		if p == nil || reflect.ValueOf(p).IsNil() {
			return "ok"
		}
		if perr != nil {
			// an event handed back together with an error is one the caller may keep ("too large but persistable"):
			// it is held to the same clauses
			var ve gmsl.EventValidationError
			if !errors.As(perr, &ve) || !ve.Persistable {
				return "ok"
			}
		}
		// hash clause, judged on what the caller gets: an event not flagged redacted has a matching content hash; a flagged one
		// is its own redaction
		js := p.JSON()
		if !p.Redacted() {
			if !independentHashOK(js) {
				return "bad:unredacted-but-content-hash-does-not-match"
			}
		} else {
			red, rerr := v.RedactEventJSON(js)
			if rerr == nil {
				if c, cerr := gmsl.CanonicalJSON(red); cerr != nil || !bytes.Equal(c, js) {
					return "bad:flagged-redacted-but-JSON-is-not-its-redaction"
				}
			}
		}
		q, err := v.NewEventFromTrustedJSONWithEventID(p.EventID(), p.JSON(), p.Redacted())
		if err != nil {
			if perr != nil {
				return "ok"
			}
			return "bad:own-JSON-refused-as-trusted"
		}
		now, rcv := time.UnixMilli(1700000000000), time.UnixMilli(1700000001000)
		view := func(e gmsl.PDU) []string {
			return []string{"tuple=" + pduTuple(e, true), "redacts=" + hx([]byte(e.Redacts())),
				fmt.Sprintf("sticky=%v", e.IsSticky(now, rcv)), fmt.Sprintf("stickyEnd=%d", e.StickyEndTime(rcv).UnixMilli()),
				"version=" + string(e.Version()), "membership=" + safeStr(func() string { m, err := e.Membership(); return fmt.Sprint(m, err != nil) }),
				"joinrule=" + safeStr(func() string { m, err := e.JoinRule(); return fmt.Sprint(m, err != nil) }),
				"skEq=" + fmt.Sprint(e.StateKeyEquals(""), e.StateKey() == nil)}
		}
		a, b := view(p), view(q)
		for i := range a {
			if a[i] != b[i] {
				return "bad:" + strings.SplitN(a[i], "=", 2)[0]
			}
		}
		return "ok"
	case "accessors_pure":
		// <ver> <route t|w|u|h> <hex id>:<hex json>: the read accessors are pure (C19's model theorem event_accessors_read_only, C03's
		// "re-parses ... to an event with the same ..."): after every read accessor - ToHeaderedJSON() included, twice - the event's
		// JSON() is byte for byte what it was, and the event answers the accessors as before.  The event is loaded the ways a server
		// loads stored events: from a caller's buffer that has spare capacity (t, w), through the untrusted constructor (u), through
		// its own headered form (h).  ok | bad:<what>
		v, err := verOf(args[0])
		if err != nil {
			return "err:version"
		}
		id, js := splitEv(args[2])
		roomy := append(make([]byte, 0, len(js)+256), js...)
		var p gmsl.PDU
		switch args[1] {
		case "t":
			p, err = v.NewEventFromTrustedJSON(roomy, false)
		case "w":
			p, err = v.NewEventFromTrustedJSONWithEventID(id, roomy, false)
		case "u":
			p, err = v.NewEventFromUntrustedJSON(roomy)
		case "h":
			var q gmsl.PDU
			if q, err = v.NewEventFromTrustedJSONWithEventID(id, roomy, false); err == nil {
				var hj []byte
				if hj, err = q.ToHeaderedJSON(); err == nil {
					p, err = gmsl.NewEventFromHeaderedJSON(hj, false)
				}
			}
		default:
			return "bad-op"
		}
		if err != nil || p == nil || reflect.ValueOf(p).IsNil() {
			return "ok"
		}
		before := append([]byte{}, p.JSON()...)
		t0 := pduTuple(p, true)
		for i := 0; i < 2; i++ {
			_, _ = p.ToHeaderedJSON()
			_ = pduTuple(p, true)
			_ = p.Redacts()
			_, _ = p.Membership()
			_, _ = p.JoinRule()
			_, _ = p.PowerLevels()
			_, _ = p.HistoryVisibility()
			_ = p.Unsigned()
			_ = p.Content()
		}
		if !bytes.Equal(before, p.JSON()) {
			return "bad:JSON()-changed-by-read-accessors"
		}
		if pduTuple(p, true) != t0 {
			return "bad:accessors-answer-differently-after-reads"
		}
		if _, err := v.NewEventFromTrustedJSONWithEventID(p.EventID(), p.JSON(), p.Redacted()); err != nil {
			return "bad:own-JSON-no-longer-parses"
		}
		// ... and the operations that DERIVE an event (SetUnsigned, SetUnsignedField, Sign, Redact) leave their source alone -
		// also the event whose JSON() a trusted re-parse was given (the constructors keep the caller's slice): an event with
		// a roomy `unsigned`, re-read from its own JSON(), edited field by field with shorter / equally long / longer values
		if base, e2 := p.SetUnsigned(map[string]interface{}{"age": 1234567, "note": "0123456789", "prev_content": map[string]interface{}{"body": "old body"}}); e2 == nil && base != nil {
			snap := append([]byte{}, base.JSON()...)
			if cp, e3 := v.NewEventFromTrustedJSONWithEventID(base.EventID(), base.JSON(), false); e3 == nil {
				for _, kv := range []struct {
					k string
					v interface{}
				}{{"age", 1}, {"note", "abcdefghij"}, {"note", "x"}, {"age", 99999999999}, {"prev_content", map[string]interface{}{}}, {"fresh", true}} {
					_ = cp.SetUnsignedField(kv.k, kv.v) // edits the copy in place; the source must not notice
					_ = cp.JSON()
				}
				if d, e4 := cp.SetUnsigned(map[string]interface{}{"a": 1}); e4 == nil && d != nil {
					_ = d.JSON()
				}
				Guard(func() string { _ = cp.Sign(signers[0].name, signers[0].kid, signers[0].sk); return "" })
				if !bytes.Equal(snap, base.JSON()) {
					return "bad:JSON()-of-the-source-changed-by-edits-of-its-reparsed-copy"
				}
				Guard(func() string { cp.Redact(); return "" })
				if !bytes.Equal(snap, base.JSON()) {
					return "bad:JSON()-of-the-source-changed-by-Redact-of-its-reparsed-copy"
				}
			}
		}
		return "ok"
	case "parse_trusted":
		v, err := verOf(args[0])
		if err != nil {
			return "err:version"
		}
		in := unhx(args[2])
		p, err := v.NewEventFromTrustedJSON(in, args[1] == "1")
		if err != nil {
			return classifyErr(err, in)
		}
		return withLen(pduTuple(p, true), p)
	case "parse_trusted_id":
		v, err := verOf(args[0])
		if err != nil {
			return "err:version"
		}
		in := unhx(args[3])
		p, err := v.NewEventFromTrustedJSONWithEventID(string(unhx(args[1])), in, args[2] == "1")
		if err != nil {
			return classifyErr(err, in)
		}
		return withLen(pduTuple(p, true), p)
	case "build":
		return execBuild(args)
	case "buildrt":
		// Build, then what Build returned read back as UNTRUSTED input (C03): "ok" when Build refuses the proto-event or the
		// event it returns is accepted unredacted with the same ID; "bad:<why>" otherwise.  Arguments as for `build`.
		return execBuildRoundtrip(args)
	case "headered":
		in := unhx(args[1])
		p, err := gmsl.NewEventFromHeaderedJSON(in, args[0] == "1")
		if err != nil {
			return classifyErr(err, in)
		}
		return pduTuple(p, true)
	}
	return execEventProps(op, args)
}

// execRedactPDU: redact.pdu <ver> <hex id>:<hex json>
func execRedactPDU(ver, ev string) string {
	i := strings.IndexByte(ev, ':')
	id, js := string(unhx(ev[:i])), unhx(ev[i+1:])
	v, err := gmsl.GetRoomVersion(gmsl.RoomVersion(ver))
	if err != nil {
		return "err:version"
	}
	p, err := v.NewEventFromTrustedJSONWithEventID(id, js, false)
	if err != nil {
		return classifyErr(err, js)
	}
	t0 := pduTuple(p, true)
	// Redact() documents panics for events that did not come from Build / NewEventFromUntrustedJSON;
	// on this trusted input they are an outcome to compare, not a crash of the op
	if r := Guard(func() string { p.Redact(); return "" }); r != "" {
		return t0 + "##PANIC"
	}
	t1 := pduTuple(p, true)
	if r := Guard(func() string { p.Redact(); return "" }); r != "" {
		return t0 + "##" + t1 + "##PANIC"
	}
	idem := "0"
	if pduTuple(p, true) == t1 {
		idem = "1"
	}
	return t0 + "##" + t1 + "##idem=" + idem
}

// ---- keys ----

type signer struct {
	name string
	kid  gmsl.KeyID
	sk   ed25519.PrivateKey
}

func mkSigner(name, kid string) signer {
	seed := sha256.Sum256([]byte("verif-seed:" + name + ":" + kid))
	return signer{name: name, kid: gmsl.KeyID(kid), sk: ed25519.NewKeyFromSeed(seed[:])}
}

var signers = []signer{mkSigner("hs1", "ed25519:a1"), mkSigner("hs2", "ed25519:k2"), mkSigner("hs3", "ed25519:auto")}

// ---- generators ----

var evTypes = []string{
	"m.room.create", "m.room.member", "m.room.join_rules", "m.room.power_levels", "m.room.aliases",
	"m.room.history_visibility", "m.room.redaction", "m.room.message", "m.room.name", "m.room.third_party_invite",
	"m.room.topic", "x.custom", "é.type", "",
}

// evContent returns a content value for the type (IntSafe numbers only when safe).
func (r *Rng) evContent(typ string, safe bool) *JV {
	c := jobj()
	add := func(ks ...string) {
		for _, k := range ks {
			if r.Chance(75) && !c.has(k) {
				c.put(k, r.contentValue(k, safe))
			}
		}
	}
	switch typ {
	case "m.room.create":
		add("creator", "room_version", "m.federate", "predecessor", "additional_creators")
	case "m.room.member":
		add("membership", "displayname", "avatar_url", "join_authorised_via_users_server", "reason", "third_party_invite")
		if !c.has("membership") {
			c.put("membership", jstr(Pick(r, memberships)))
		}
	case "m.room.join_rules":
		add("join_rule", "allow", "allowed")
	case "m.room.power_levels":
		add("ban", "events", "events_default", "kick", "redact", "state_default", "users", "users_default", "invite", "notifications")
	case "m.room.aliases":
		add("aliases", "alias")
	case "m.room.history_visibility":
		add("history_visibility")
	case "m.room.redaction":
		add("redacts", "reason")
	default:
		add("body", "msgtype", "name")
	}
	for k := r.Intn(3); k > 0; k-- {
		key := r.genKey()
		if !c.has(key) {
			c.put(key, r.GenValue(2, !safe))
		}
	}
	// characters json.Marshal escapes and canonical JSON does not (and the other way round)
	if r.Chance(40) && !c.has("esc") {
		c.put("esc", jstr(Pick(r, []string{"<", ">", "&", "<a href=\"x\">&amp;</a>", "\u2028", "\u2029", "a/b", "\u007f", "é\u2028<", "\\u003c", "\u0001\u001f", "\U0001F600"})))
	}
	return c
}

type built struct {
	ver  string
	pdu  gmsl.PDU
	json []byte
	sg   signer
	pe   gmsl.ProtoEvent
	now  time.Time
}

func (r *Rng) roomIDFor(ver string) string {
	_, v3 := verFormat(ver)
	if v3 {
		return "!" + r.id43()
	}
	return Pick(r, []string{"!room:hs1", "!r:hs2", "!abc:hs1:8448", "!x:1.2.3.4"})
}

func (r *Rng) eventIDs(ver string, n int) []string {
	f, _ := verFormat(ver)
	out := make([]string, 0, n)
	for i := 0; i < n; i++ {
		if f == 1 {
			out = append(out, fmt.Sprintf("$p%d:hs%d", r.Intn(1000), 1+r.Intn(3)))
		} else {
			out = append(out, "$"+r.id43())
		}
	}
	return out
}

// buildEvent runs EventBuilder.Build on a generated proto-event; nil when Build refuses it.
func (r *Rng) buildEvent(o *Out, ver string) *built { return r.buildEventSized(o, ver, 0) }

// buildEventSized: sizeTarget > 0 adds about that many bytes of padding to the content.
func (r *Rng) buildEventSized(o *Out, ver string, sizeTarget int) *built {
	return r.buildEventTyped(o, ver, sizeTarget, Pick(r, evTypes))
}

// buildEventTyped: the same with the event type chosen by the caller.
func (r *Rng) buildEventTyped(o *Out, ver string, sizeTarget int, typ string) *built {
	_, v3 := verFormat(ver)
	sg := Pick(r, signers)
	pe := gmsl.ProtoEvent{Type: typ, SenderID: "@" + Pick(r, []string{"alice", "bob", "carol"}) + ":" + sg.name}
	switch r.Intn(4) {
	case 0: // not a state event
	case 1:
		pe.StateKey = sp("")
	case 2:
		pe.StateKey = sp(Pick(r, authUsers))
	case 3:
		pe.StateKey = sp(Pick(r, []string{"other", "é", "@x:y", " "}))
	}
	if typ == "m.room.create" && r.Chance(70) {
		pe.StateKey = sp("")
	}
	isCreate := typ == "m.room.create" && pe.StateKey != nil && *pe.StateKey == ""
	pe.RoomID = r.roomIDFor(ver)
	if v3 && isCreate {
		pe.RoomID = ""
	}
	pe.PrevEvents = r.eventIDs(ver, r.Intn(5))
	auth := r.eventIDs(ver, r.Intn(5))
	if v3 && !isCreate && len(pe.RoomID) > 1 && r.Chance(35) {
		// the create event listed by hand, not necessarily first
		i := r.Intn(len(auth) + 1)
		auth = append(auth[:i], append([]string{"$" + pe.RoomID[1:]}, auth[i:]...)...)
		o.Count("build.auth-lists-create")
	}
	pe.AuthEvents = auth
	pe.Depth = Pick(r, []int64{0, 1, 2, 17, 1 << 31, 9007199254740991, int64(r.Intn(1000))})
	pe.Content = spec.RawJSON(r.RenderText(r.evContent(typ, true), Style{Escape: Pick(r, []int{0, 0, 30})}))
	if sizeTarget > 0 {
		// pad the content so that the built event lands near the size limit
		c := toMap(pe.Content)
		parts := []string{}
		for n := sizeTarget; n > 0; n -= 53 {
			k := 50
			if n < 53 {
				k = n - 3
				if k < 0 {
					k = 0
				}
			}
			parts = append(parts, strings.Repeat("p", k))
		}
		b, _ := json.Marshal(parts)
		c["pad"] = b
		pe.Content = spec.RawJSON(c.text())
	}
	if typ == "m.room.redaction" && r.Bool() {
		pe.Redacts = r.eventIDs(ver, 1)[0]
	}
	if r.Chance(25) {
		pe.Unsigned = spec.RawJSON(`{"age":` + fmt.Sprint(r.Intn(100000)) + `}`)
	}
	if sizeTarget == 0 && r.Chance(6) {
		// the builder takes content / unsigned over as raw JSON: a member name that occurs twice in them (spelled the same
		// or with an escape; at the top level or nested).  NewEventFromUntrustedJSON refuses such an event, so Build must not
		// produce one (C03: what Build returns re-parses as untrusted input)
		dup := Pick(r, []string{`{"a":1,"a":2}`, `{"a":1,"\u0061":2}`, `{"body":"x","n":{"b":1,"b":2}}`, `{"l":[{"k":1,"k":1}]}`, `{"msgtype":"m.text","msgtype":"m.text"}`,
			`{"membership":"join","membership":"leave"}`, `{"x":{"y":{"z":null,"z":null}}}`, `{"":1,"":1}`})
		switch r.Intn(3) {
		case 0:
			pe.Content = spec.RawJSON(dup)
		case 1:
			pe.Unsigned = spec.RawJSON(dup)
		default:
			pe.Content = spec.RawJSON(dup)
			pe.Unsigned = spec.RawJSON(Pick(r, []string{`{"age":1,"age":1}`, `{"age":1,"t":{"q":1,"q":2}}`}))
		}
		o.Count("build.duplicate-member-in-raw-json")
		buildRoundtripToo = true
	} else if sizeTarget == 0 && r.Chance(6) {
		// numbers the enforced canonical form (room versions 6+) refuses — in `unsigned` as well as in content: receipt checks
		// the whole event, so Build must refuse them everywhere too (or the event it returns does not re-parse)
		odd := Pick(r, []string{`{"age":1.5}`, `{"age":1e3}`, `{"age":-0}`, `{"age":9007199254740992}`, `{"t":{"n":[1,2.0]}}`, `{"age":-9007199254740992}`, `{"age":1E2}`})
		if r.Bool() {
			pe.Unsigned = spec.RawJSON(odd)
		} else {
			pe.Content = spec.RawJSON(odd)
		}
		o.Count("build.non-canonical-number-in-raw-json")
		buildRoundtripToo = true
	} else if r.Chance(10) {
		buildRoundtripToo = true
	}
	now := time.UnixMilli(int64(1600000000000 + r.Intn(1<<30)))
	return runBuild(o, ver, pe, now, sg, int64(r.Intn(1<<30)))
}

// runBuild calls EventBuilder.Build on the proto-event, records the `build` op (Build against its
// model) and returns the built event (nil when Build refuses).
func runBuild(o *Out, ver string, pe gmsl.ProtoEvent, now time.Time, sg signer, randSeed int64) *built {
	v := gmsl.MustGetRoomVersion(gmsl.RoomVersion(ver))
	// the 16 random characters of a format-1 event ID come from math/rand's global source: seed it
	rand.Seed(randSeed)
	rand16 := util.RandomString(16)
	rand.Seed(randSeed)
	eb := v.NewEventBuilderFromProtoEvent(&pe)
	p, err := eb.Build(now, spec.ServerName(sg.name), sg.kid, sg.sk)
	var res *built
	// when Build refuses the event there is no signature to compute; what the model needs is its
	// length (every ed25519 signature is 64 bytes = 86 base64 characters): the size check comes last
	sig := strings.Repeat("A", 86)
	if err != nil {
		o.Count("build.refused")
	} else {
		o.Count("build.ok")
		res = &built{ver: ver, pdu: p, json: p.JSON(), sg: sg, pe: pe, now: now}
		// the signature, computed independently of Build: ed25519 over the canonical JSON of the redacted
		// event without signatures and unsigned
		if red, err := v.RedactEventJSON(p.JSON()); err == nil {
			m := toMap(red)
			delete(m, "signatures")
			delete(m, "unsigned")
			if payload, err := gmsl.CanonicalJSON(m.text()); err == nil {
				sig = base64.RawStdEncoding.EncodeToString(ed25519.Sign(sg.sk, payload))
			}
		}
	}
	opt := func(raw []byte) string {
		if raw == nil {
			return "~"
		}
		return hx(raw)
	}
	skArg := "~"
	if pe.StateKey != nil {
		skArg = hx([]byte(*pe.StateKey))
	}
	seed := sha256.Sum256([]byte("verif-seed:" + sg.name + ":" + string(sg.kid)))
	im := o.Do("build", ver, fmt.Sprint(now.UnixMilli()), hx([]byte(sg.name)), hx([]byte(sg.kid)), hx(seed[:]), fmt.Sprint(randSeed),
		hx([]byte(rand16)), hx([]byte(sig)), hx([]byte(pe.Type)), hx([]byte(pe.SenderID)), hx([]byte(pe.RoomID)), skArg,
		showIDs(pe.PrevEvents.([]string)), showIDs(pe.AuthEvents.([]string)), hx([]byte(pe.Redacts)), fmt.Sprint(pe.Depth),
		opt(pe.Content), opt(pe.Unsigned), opt(pe.Signature))
	o.Count("build.op." + outcomeClass(im))
	if buildRoundtripToo {
		buildRoundtripToo = false
		rt := o.Do("buildrt", ver, fmt.Sprint(now.UnixMilli()), hx([]byte(sg.name)), hx([]byte(sg.kid)), hx(seed[:]), fmt.Sprint(randSeed),
			hx([]byte(rand16)), hx([]byte(sig)), hx([]byte(pe.Type)), hx([]byte(pe.SenderID)), hx([]byte(pe.RoomID)), skArg,
			showIDs(pe.PrevEvents.([]string)), showIDs(pe.AuthEvents.([]string)), hx([]byte(pe.Redacts)), fmt.Sprint(pe.Depth),
			opt(pe.Content), opt(pe.Unsigned), opt(pe.Signature))
		o.Count("buildrt." + outcomeClass(rt))
	}
	return res
}

// set by the generator for proto-events whose Build-then-reparse is worth an op of its own (`event.buildrt`)
var buildRoundtripToo = false

func parseIDs(s string) []string {
	out := []string{}
	s = strings.TrimSuffix(strings.TrimPrefix(s, "["), "]")
	if s == "" {
		return out
	}
	for _, h := range strings.Split(s, ",") {
		out = append(out, string(unhx(h)))
	}
	return out
}

func execBuildRoundtrip(args []string) string {
	v, err := gmsl.GetRoomVersion(gmsl.RoomVersion(args[0]))
	if err != nil {
		return "err:version"
	}
	p, err := buildFromArgs(v, args)
	if err != nil || p == nil {
		return "ok"
	}
	q, err := v.NewEventFromUntrustedJSON(p.JSON())
	if err != nil {
		return "bad:refused-as-untrusted:" + outcomeClass(classifyErr(err, p.JSON()))
	}
	if q.Redacted() {
		return "bad:redacted"
	}
	if q.EventID() != p.EventID() {
		return "bad:other-id"
	}
	return "ok"
}

// execBuild: event.build <ver> <now ms> <origin> <kid> <key seed> <rand seed> <rand16> <sig> <type> <sender> <room> <sk> <prev> <auth>
// <redacts> <depth> <content> <unsigned> <signatures>   (rand16 and sig are for the model only)
// buildFromArgs runs EventBuilder.Build on the proto-event the arguments of `event.build` describe.
func buildFromArgs(v gmsl.IRoomVersion, args []string) (gmsl.PDU, error) {
	var nowms, rseed, depth int64
	fmt.Sscan(args[1], &nowms)
	fmt.Sscan(args[5], &rseed)
	fmt.Sscan(args[15], &depth)
	optRaw := func(a string) spec.RawJSON {
		if a == "~" {
			return nil
		}
		return spec.RawJSON(unhx(a))
	}
	pe := gmsl.ProtoEvent{Type: string(unhx(args[8])), SenderID: string(unhx(args[9])), RoomID: string(unhx(args[10])),
		PrevEvents: parseIDs(args[12]), AuthEvents: parseIDs(args[13]), Redacts: string(unhx(args[14])), Depth: depth,
		Content: optRaw(args[16]), Unsigned: optRaw(args[17]), Signature: optRaw(args[18])}
	if args[11] != "~" {
		pe.StateKey = sp(string(unhx(args[11])))
	}
	sk := ed25519.NewKeyFromSeed(unhx(args[4]))
	rand.Seed(rseed)
	return v.NewEventBuilderFromProtoEvent(&pe).Build(time.UnixMilli(nowms), spec.ServerName(unhx(args[2])), gmsl.KeyID(unhx(args[3])), sk)
}

func execBuild(args []string) string {
	v, err := gmsl.GetRoomVersion(gmsl.RoomVersion(args[0]))
	if err != nil {
		return "err:version"
	}
	p, err := buildFromArgs(v, args)
	if err != nil {
		return classifyErr(err, []byte("{}"))
	}
	return withLen(pduTuple(p, true), p)
}

// ---- JSON edits on event texts ----

type pduMap map[string]json.RawMessage

func toMap(js []byte) pduMap {
	m := pduMap{}
	if err := json.Unmarshal(js, &m); err != nil {
		panic("harness: event text is not an object")
	}
	return m
}

func (m pduMap) text() []byte {
	b, err := json.Marshal(m)
	if err != nil {
		panic(err)
	}
	// json.Marshal escapes <, >, & and U+2028/9 — still the same value
	return b
}

func rawStr(s string) json.RawMessage { b, _ := json.Marshal(s); return b }

// contentHashOf computes the content hash the way the specification says (independently of the
// library's addContentHashesToEvent): sha256 over the canonical JSON of the event without
// signatures, unsigned and hashes.
func contentHashOf(m pduMap) string {
	c := pduMap{}
	for k, v := range m {
		if k != "signatures" && k != "unsigned" && k != "hashes" {
			c[k] = v
		}
	}
	cj, err := gmsl.CanonicalJSON(c.text())
	if err != nil {
		panic(err)
	}
	h := sha256.Sum256(cj)
	return base64.RawStdEncoding.EncodeToString(h[:])
}

// rehash makes hashes.sha256 match the current fields (as the sending server would have).
func (m pduMap) rehash() {
	// the keys a receiver strips are not part of what the sender hashed... but a sender that
	// included them hashed them; what the receiver hashes is the event after stripping
	c := pduMap{}
	for k, v := range m {
		c[k] = v
	}
	for _, k := range []string{"outlier", "destinations", "age_ts", "unsigned"} {
		delete(c, k)
	}
	if _, ok := c["event_id"]; ok && !strings.Contains(string(c["event_id"]), ":") {
		// V2-format receivers strip event_id as well; handled by the caller through stripEventID
	}
	m["hashes"] = json.RawMessage(`{"sha256":"` + contentHashOf(c) + `"}`)
}

func (m pduMap) rehashFor(ver string) {
	f, _ := verFormat(ver)
	c := pduMap{}
	for k, v := range m {
		c[k] = v
	}
	for _, k := range []string{"outlier", "destinations", "age_ts", "unsigned"} {
		delete(c, k)
	}
	if f != 1 {
		delete(c, "event_id")
	}
	m["hashes"] = json.RawMessage(`{"sha256":"` + contentHashOf(c) + `"}`)
}

func editContent(m pduMap, f func(c pduMap)) {
	c := pduMap{}
	if err := json.Unmarshal(m["content"], &c); err != nil || c == nil {
		return
	}
	f(c)
	m["content"] = json.RawMessage(c.text())
}

func repeatRune(s string, n int) string { return strings.Repeat(s, n) }

// tamper applies one named edit to a copy of the event; rehash says whether the edit is then covered
// by a matching content hash again.
type tampering struct {
	name string
	f    func(r *Rng, m pduMap)
}

var tamperings = []tampering{
	// top-level members outside every keep list that have an accessor of their own (Redacts(), IsSticky(), StickyEndTime()),
	// added together with a content change: the accessors of the redacted view must not show them (seed C04-r4m1)
	{"inject.accessor-keys", func(r *Rng, m pduMap) {
		editContent(m, func(c pduMap) { c["body"] = rawStr("tampered") })
		if r.Chance(70) {
			m["redacts"] = rawStr("$forged:evil")
		}
		if r.Chance(60) {
			m[Pick(r, []string{"sticky", "msc4354_sticky"})] = json.RawMessage(`{"duration_ms":600000}`)
		}
	}},
	{"content.add-unprotected", func(r *Rng, m pduMap) {
		editContent(m, func(c pduMap) { c[Pick(r, redactNeighbourKeys)] = rawStr("tampered") })
	}},
	{"content.change-unprotected", func(r *Rng, m pduMap) {
		editContent(m, func(c pduMap) {
			for _, k := range []string{"displayname", "body", "name", "reason", "avatar_url", "room_version"} {
				if _, ok := c[k]; ok {
					c[k] = rawStr("tampered")
					return
				}
			}
			c["body"] = rawStr("tampered")
		})
	}},
	{"content.remove-key", func(r *Rng, m pduMap) {
		editContent(m, func(c pduMap) {
			for k := range c {
				_ = k
			}
			ks := sortedKeysRaw(c)
			if len(ks) > 0 {
				delete(c, Pick(r, ks))
			}
		})
	}},
	{"content.change-protected", func(r *Rng, m pduMap) {
		editContent(m, func(c pduMap) {
			k := Pick(r, redactContentKeys)
			c[k] = json.RawMessage(r.RenderText(r.contentValue(k, true), Style{}))
		})
	}},
	{"content.float", func(r *Rng, m pduMap) {
		editContent(m, func(c pduMap) { c["x"] = json.RawMessage(Pick(r, []string{"1.5", "1e3", "-0", "9007199254740992", "1E400"})) })
	}},
	{"top.add", func(r *Rng, m pduMap) {
		k := Pick(r, []string{"extra", "origin", "membership", "prev_state", "replaces_state", "prev_content", "redacts", "é", "Hashes", "ſender", "Type", "Content", "Unsigned", "Event_id",
			"HASHES", "haſhes", "Signatures", "ſignatureſ", "Origin", "Membership", "Prev_state", "State_key", "ſtate_key", "Sender"})
		m[k] = json.RawMessage(r.RenderText(r.GenValue(1, false), Style{}))
	}},
	{"strip.unsigned", func(r *Rng, m pduMap) { m["unsigned"] = json.RawMessage(`{"age":` + fmt.Sprint(r.Intn(1000)) + `,"x":[1,2]}`) }},
	{"strip.age_ts", func(r *Rng, m pduMap) { m["age_ts"] = json.RawMessage(fmt.Sprint(r.Intn(1 << 30))) }},
	{"strip.outlier", func(r *Rng, m pduMap) { m["outlier"] = json.RawMessage(Pick(r, []string{"true", "false", "null", `"x"`})) }},
	{"strip.destinations", func(r *Rng, m pduMap) { m["destinations"] = json.RawMessage(`["hs2","hs3"]`) }},
	{"strip.event_id", func(r *Rng, m pduMap) {
		m["event_id"] = rawStr(Pick(r, []string{"$other:hs1", "$" + r.id43(), "", "x"}))
	}},
	{"strip.event_id-variant", func(r *Rng, m pduMap) {
		m[Pick(r, []string{"Event_id", "EVENT_ID", "event_ID", "event_ıd"})] = rawStr(Pick(r, []string{"$other:hs1", "$" + r.id43(), "$" + r.id43(), "x"}))
	}},
	{"hash.corrupt", func(r *Rng, m pduMap) {
		var h map[string]string
		if json.Unmarshal(m["hashes"], &h) == nil && len(h["sha256"]) > 2 {
			b := []byte(h["sha256"])
			i := r.Intn(len(b))
			if b[i] == 'A' {
				b[i] = 'B'
			} else {
				b[i] = 'A'
			}
			m["hashes"] = json.RawMessage(`{"sha256":"` + string(b) + `"}`)
		}
	}},
	{"hash.retype", func(r *Rng, m pduMap) {
		m["hashes"] = json.RawMessage(Pick(r, []string{`{"sha256":1}`, `{"sha256":null}`, `{"sha256":{}}`, `{"sha256":["x"]}`, `{}`, `null`, `1`, `"x"`, `[]`,
			`{"sha256":""}`, `{"sha256":"!!!"}`, `{"sha256":"A"}`, `{"sha256":"QUJD"}`, `{"sha256":"QUJD=="}`, `{"sha1":"x"}`, `{"SHA256":"QUJD"}`}))
	}},
	{"hash.remove", func(r *Rng, m pduMap) { delete(m, "hashes") }},
	{"hash.urlsafe", func(r *Rng, m pduMap) {
		var h map[string]string
		if json.Unmarshal(m["hashes"], &h) == nil {
			s := strings.NewReplacer("+", "-", "/", "_").Replace(h["sha256"])
			m["hashes"] = json.RawMessage(`{"sha256":"` + s + `"}`)
		}
	}},
	{"sig.edit", func(r *Rng, m pduMap) { m["signatures"] = json.RawMessage(`{"hs9":{"ed25519:x":"c2ln"}}`) }},
	{"sig.remove", func(r *Rng, m pduMap) { delete(m, "signatures") }},
	{"type.len", func(r *Rng, m pduMap) {
		m["type"] = rawStr(Pick(r, []string{repeatRune("t", 255), repeatRune("t", 256), repeatRune("é", 127) + "x", repeatRune("é", 128), repeatRune("é", 255), repeatRune("é", 256), repeatRune("\U0001F600", 64)}))
	}},
	{"state_key.len", func(r *Rng, m pduMap) {
		m["state_key"] = rawStr(Pick(r, []string{repeatRune("s", 255), repeatRune("s", 256), repeatRune("é", 128), repeatRune("é", 255), repeatRune("é", 256)}))
	}},
	{"sender.len", func(r *Rng, m pduMap) {
		m["sender"] = rawStr("@" + Pick(r, []string{repeatRune("u", 250), repeatRune("u", 251), repeatRune("é", 125), repeatRune("é", 126), repeatRune("é", 250), repeatRune("é", 251)}) + ":hs1")
	}},
	{"sender.bad", func(r *Rng, m pduMap) {
		m["sender"] = Pick(r, []json.RawMessage{rawStr("alice:hs1"), rawStr("@alice"), rawStr(""), rawStr("!room:hs1"), json.RawMessage("null"), json.RawMessage("7")})
	}},
	{"room_id.bad", func(r *Rng, m pduMap) {
		m["room_id"] = Pick(r, []json.RawMessage{rawStr("room:hs1"), rawStr("!room"), rawStr("!:hs1"), rawStr("!r:"), rawStr("!r:hs 1"), rawStr(""), rawStr("!" + r.id43()),
			rawStr("!" + repeatRune("r", 250) + ":hs1"), rawStr("!" + repeatRune("r", 251) + ":hs1"), rawStr("#room:hs1"), json.RawMessage("null"), json.RawMessage("5"), rawStr("!abc")})
	}},
	{"room_id.remove", func(r *Rng, m pduMap) { delete(m, "room_id") }},
	{"retype.field", func(r *Rng, m pduMap) {
		k := Pick(r, []string{"depth", "origin_server_ts", "type", "state_key", "redacts", "prev_events", "auth_events", "content", "sticky", "msc4354_sticky", "event_id"})
		m[k] = json.RawMessage(Pick(r, []string{`"7"`, `7`, `-7`, `7.0`, `1e2`, `null`, `true`, `[]`, `{}`, `[1]`, `["$x:y"]`, `[null]`, `{"duration_ms":5}`, `{"duration_ms":"5"}`, `{"Duration_MS":1.5}`,
			`9223372036854775807`, `9223372036854775808`, `-9223372036854775808`, `18446744073709551615`, `18446744073709551616`, `[["$a:b",{"sha256":"QUJD"}]]`, `[["$a:b",{"sha256":"!"}]]`, `[["$a:b"]]`, `[[null,null]]`}))
	}},
	{"underscore", func(r *Rng, m pduMap) { m[Pick(r, []string{"_", "_event_id", "_room_version", "_x", "__"})] = rawStr("12") }},
	{"remove.field", func(r *Rng, m pduMap) {
		delete(m, Pick(r, []string{"type", "sender", "content", "depth", "origin_server_ts", "prev_events", "auth_events", "state_key", "origin"}))
	}},
}

func sortedKeysRaw(m pduMap) []string {
	x := map[string]interface{}{}
	for k := range m {
		x[k] = nil
	}
	return sortedKeys(x)
}

// padEventTo pads content.pad so that the canonical text (after the receiver's stripping) has exactly n bytes.
func padEventTo(m pduMap, ver string, n int) bool {
	f, _ := verFormat(ver)
	measure := func() int {
		c := pduMap{}
		for k, v := range m {
			c[k] = v
		}
		for _, k := range []string{"outlier", "destinations", "age_ts", "unsigned"} {
			delete(c, k)
		}
		if f != 1 {
			delete(c, "event_id")
		}
		cj, err := gmsl.CanonicalJSON(c.text())
		if err != nil {
			return -1
		}
		return len(cj)
	}
	// the padding is an array of short strings: the driver's reference parser is quadratic in the
	// length of a single string
	chunk := strings.Repeat("p", 50)
	setPad := func(full int, last int) {
		parts := make([]string, 0, full+1)
		for i := 0; i < full; i++ {
			parts = append(parts, chunk)
		}
		if last >= 0 {
			parts = append(parts, strings.Repeat("q", last))
		}
		b, _ := json.Marshal(parts)
		editContent(m, func(c pduMap) { c["pad"] = b })
	}
	setPad(1, -1)
	l := measure()
	if l < 0 || l+60 > n {
		return false
	}
	full := 1 + (n-l)/53
	for full > 1 {
		setPad(full, -1)
		if d := n - measure(); d >= 3 {
			setPad(full, d-3)
			return measure() == n
		}
		full--
	}
	return false
}

// equalLengthRedaction drops the given top-level members from a built event and adds one member outside every
// keep-list whose size makes the canonical text exactly as long as the canonical text of its redaction (nil when the
// arithmetic does not work out). The content hash no longer matches.
func equalLengthRedaction(ver string, built []byte, drop []string) pduMap {
	m := toMap(built)
	for _, k := range drop {
		delete(m, k)
	}
	delete(m, "unsigned")
	impl := gmsl.MustGetRoomVersion(gmsl.RoomVersion(ver))
	t0, err := gmsl.CanonicalJSON(m.text())
	if err != nil {
		return nil
	}
	red, err := impl.RedactEventJSON(t0)
	if err != nil {
		return nil
	}
	red, err = gmsl.CanonicalJSON(red)
	if err != nil {
		return nil
	}
	// a new member `"<key>":1,` costs len(key)+5 bytes
	d := len(red) - len(t0)
	if d < 6 {
		return nil
	}
	key := "zz" + strings.Repeat("q", d-5-2)
	if d-5 < 2 {
		key = strings.Repeat("q", d-5)
	}
	m[key] = json.RawMessage("1")
	t1, err := gmsl.CanonicalJSON(m.text())
	if err != nil || len(t1) != len(red) {
		return nil
	}
	return m
}

// ---- adversarial texts: duplicate member names, case variants of event-struct member names ----
//
// A Go map cannot hold two members with one name, so these texts are assembled member by member.

type tmember struct {
	key  string // the parsed key
	kraw string // the key as written (quoted)
	vraw string // the value as written
}

func textMembers(text []byte) []tmember {
	var ms []tmember
	gjson.ParseBytes(text).ForEach(func(k, v gjson.Result) bool {
		ms = append(ms, tmember{k.String(), k.Raw, v.Raw})
		return true
	})
	return ms
}

func membersText(ms []tmember) []byte {
	var sb strings.Builder
	sb.WriteByte('{')
	for i, m := range ms {
		if i > 0 {
			sb.WriteByte(',')
		}
		sb.WriteString(m.kraw + ":" + m.vraw)
	}
	sb.WriteByte('}')
	return []byte(sb.String())
}

func mkMember(key, vraw string) tmember { return tmember{key, string(rawStr(key)), vraw} }

func delFirstMember(ms []tmember, key string) []tmember {
	for i, m := range ms {
		if m.key == key {
			return append(append([]tmember{}, ms[:i]...), ms[i+1:]...)
		}
	}
	return ms
}

func firstMember(ms []tmember, key string) int {
	for i, m := range ms {
		if m.key == key {
			return i
		}
	}
	return -1
}

// receivedHash: the content hash a receiving server computes for the text, step by step as receipt is described
// (strip the locally added keys, canonicalise, drop signatures / unsigned / hashes, SHA-256) — on a text with
// repeated members "drop" means the first occurrence, which is what makes the forgeries below work.
func receivedHash(ver string, ms []tmember) (hash string, canonical []tmember, ok bool) {
	f, _ := verFormat(ver)
	strip := []string{"outlier", "destinations", "age_ts", "unsigned"}
	if f != 1 {
		strip = append(strip, "event_id")
	}
	for _, k := range strip {
		ms = delFirstMember(ms, k)
	}
	cj, err := gmsl.CanonicalJSON(membersText(ms))
	if err != nil {
		return "", nil, false
	}
	canonical = textMembers(cj)
	rest := canonical
	for _, k := range []string{"signatures", "unsigned", "hashes"} {
		rest = delFirstMember(rest, k)
	}
	sum := sha256.Sum256(membersText(rest))
	return base64.RawStdEncoding.EncodeToString(sum[:]), canonical, true
}

// rehashMembers makes the (first) hashes member match what the receiver computes (appended when there is none).
func rehashMembers(ver string, ms []tmember) []tmember {
	if firstMember(ms, "hashes") < 0 {
		ms = append(ms, mkMember("hashes", `{"sha256":"`+strings.Repeat("A", 43)+`"}`))
	}
	h, _, ok := receivedHash(ver, ms)
	if !ok {
		return ms
	}
	out := append([]tmember{}, ms...)
	out[firstMember(out, "hashes")].vraw = `{"sha256":"` + h + `"}`
	return out
}

const forgedPlaceholder = "FORGEDFORGEDFORGEDFORGEDFORGEDFORGEDFORGEDF"

// forgedHashes: somebody else's signed event with its content changed and a SECOND, forged hashes member, placed
// before or after the genuine one.  The hash check reads the first hashes member of the canonical text and hashes
// the text without it (the other hashes member stays in); redaction, signature check and event ID go through a Go map
// (last member wins).  When the forged member ends up first, the event passes the hash check with the tampered
// content while ID and signatures are the genuine event's.
func forgedHashes(ver string, genuine []byte, forgedFirst bool) ([]byte, bool) {
	m := toMap(genuine)
	gh, ok := m["hashes"]
	if !ok {
		return nil, false
	}
	editContent(m, func(c pduMap) { c["body"] = rawStr("FORGED"); c["zz_forged"] = json.RawMessage("true") })
	delete(m, "hashes")
	base, err := gmsl.CanonicalJSON(m.text())
	if err != nil {
		return nil, false
	}
	ms := textMembers(base)
	forged := mkMember("hashes", `{"sha256":"`+forgedPlaceholder+`"}`)
	genu := mkMember("hashes", string(gh))
	if forgedFirst {
		ms = append([]tmember{forged, genu}, ms...)
	} else {
		ms = append([]tmember{genu, forged}, ms...)
	}
	h, canonical, ok := receivedHash(ver, ms)
	if !ok {
		return nil, false
	}
	works := strings.Contains(canonical[firstMember(canonical, "hashes")].vraw, forgedPlaceholder)
	return []byte(strings.Replace(string(membersText(ms)), forgedPlaceholder, h, 1)), works
}

// dupValue: another well-typed value for a second member of that name.
func (r *Rng) dupValue(ver, key string) string {
	_, v3 := verFormat(ver)
	switch key {
	case "unsigned":
		return `{"age":1,"forged":true}`
	case "signatures":
		return `{"evil":{"ed25519:x":"c2ln"}}`
	case "content":
		return `{"forged":true,"membership":"join"}`
	case "type":
		return `"m.room.power_levels"`
	case "sender":
		return `"@mallory:evil"`
	case "room_id":
		if v3 {
			return string(rawStr("!" + r.id43()))
		}
		return `"!other:evil"`
	case "state_key":
		return `"forged"`
	case "depth", "origin_server_ts":
		return "7"
	case "prev_events", "auth_events":
		return "[]"
	case "redacts", "event_id":
		return `"$forged:evil"`
	case "hashes":
		return `{"sha256":"` + strings.Repeat("A", 43) + `"}`
	case "sticky", "msc4354_sticky":
		return `{"duration_ms":1000}`
	}
	return "1"
}

var dupTopKeys = []string{"unsigned", "signatures", "content", "type", "sender", "room_id", "state_key", "depth", "origin_server_ts",
	"prev_events", "auth_events", "hashes", "redacts", "event_id", "extra"}

// event-struct JSON names and their case variants under Unicode simple case folding (U+017F folds to s, U+212A to k)
var structNameVariants = [][]string{
	{"room_id", "Room_id", "ROOM_ID", "room_ID"},
	{"sender", "Sender", "SENDER", "ſender"},
	{"type", "Type", "TYPE", "tYPE"},
	{"state_key", "State_key", "STATE_KEY", "ſtate_key", "state_Key"},
	{"content", "Content", "CONTENT"},
	{"redacts", "Redacts", "REDACTS", "redactſ"},
	{"depth", "Depth", "DEPTH"},
	{"unsigned", "Unsigned", "UNSIGNED", "unſigned"},
	{"origin_server_ts", "Origin_server_ts", "ORIGIN_SERVER_TS", "origin_ſerver_ts"},
	{"event_id", "Event_id", "EVENT_ID"},
	{"prev_events", "Prev_events", "PREV_EVENTS", "prev_eventſ"},
	{"auth_events", "Auth_events", "AUTH_EVENTS", "auth_eventſ"},
	{"msc4354_sticky", "Msc4354_sticky", "MSC4354_STICKY", "msc4354_ſticky", "msc4354_sticKy"},
	{"sticky", "Sticky", "STICKY", "ſticky", "sticKy"},
}

// foldVariantText: the built event with a case variant of an event-struct member name: alone (the exact key is
// gone), beside a null exact key, after an over-long exact key, or before / after the exact key with another value.
func (r *Rng) foldVariantText(ver string, base []byte, name, variant string, mode int, rehash bool) ([]byte, string) {
	ms := textMembers(base)
	i := firstMember(ms, name)
	val := r.dupValue(ver, name)
	lab := "fold." + name
	switch {
	case mode == 0 && i >= 0: // alone: the variant carries the genuine value, the exact key is gone
		val = ms[i].vraw
		ms = delFirstMember(ms, name)
		ms = append(ms, mkMember(variant, val))
		lab += ".alone"
	case mode == 1 && i >= 0: // the exact key is null, the variant carries the genuine value
		val = ms[i].vraw
		ms[i].vraw = "null"
		ms = append([]tmember{mkMember(variant, val)}, ms...)
		lab += ".exact-null"
	case mode == 2 && (name == "type" || name == "sender" || name == "state_key" || name == "room_id"):
		// the exact key exceeds the length limit, the variant (decoded after it) is short
		long := map[string]string{"type": "m." + strings.Repeat("a", 300), "sender": "@" + strings.Repeat("a", 300) + ":hs1",
			"state_key": strings.Repeat("a", 300), "room_id": "!" + strings.Repeat("a", 300) + ":hs1"}[name]
		short := `"m.x"`
		if i >= 0 {
			short = ms[i].vraw
			ms[i].vraw = string(rawStr(long))
		} else {
			ms = append(ms, mkMember(name, string(rawStr(long))))
		}
		ms = append(ms, mkMember(variant, short))
		lab += ".exact-overlong"
	case mode == 3:
		ms = append([]tmember{mkMember(variant, val)}, ms...)
		lab += ".before"
	default:
		ms = append(ms, mkMember(variant, val))
		lab += ".after"
	}
	if rehash {
		ms = rehashMembers(ver, ms)
		lab += "+rehash"
	}
	return membersText(ms), lab
}

// genAdversarial: receipt of texts that do not denote one event (C04 / C03 / C06 / C17 / C18): the specification
// stream answers `refused` for every one of them.
func genAdversarial(o *Out, r *Rng, b *built, k int) {
	ver, id := b.ver, b.pdu.EventID()
	base, err := gmsl.CanonicalJSON(b.json)
	if err != nil {
		return
	}
	for j := 0; j < k; j++ {
		switch r.Intn(7) {
		case 0: // a forged second hashes member
			first := r.Bool()
			if t, works := forgedHashes(ver, b.json, first); t != nil {
				lab := "dup.hashes-forged.second"
				if first {
					lab = "dup.hashes-forged.first"
				}
				if works {
					lab += ".read-by-hash-check"
				}
				emitParseAll(o, r, lab, ver, t, id)
			}
		case 1: // a second top-level member, before or after the genuine one, with / without a matching hash
			key := Pick(r, dupTopKeys)
			ms := textMembers(base)
			extra := mkMember(key, r.dupValue(ver, key))
			lab := "dup.top." + key
			if firstMember(ms, key) < 0 {
				ms = append(ms, mkMember(key, r.dupValue(ver, key)))
			}
			if r.Bool() {
				ms = append([]tmember{extra}, ms...)
				lab += ".before"
			} else {
				ms = append(ms, extra)
				lab += ".after"
			}
			if r.Chance(60) {
				ms = rehashMembers(ver, ms)
				lab += "+rehash"
			}
			emitParseAll(o, r, lab, ver, membersText(ms), id)
		case 2: // a repeated member inside content (member events: the authorising user of a restricted join) or deeper
			ms := textMembers(base)
			lab := "dup.content"
			var content string
			switch r.Intn(3) {
			case 0:
				content = `{"join_authorised_via_users_server":"@mallory:evil","membership":"join","join_authorised_via_users_server":"@admin:hs1"}`
				ms[firstMember(ms, "type")].vraw = `"m.room.member"`
				if i := firstMember(ms, "state_key"); i >= 0 {
					ms[i].vraw = ms[firstMember(ms, "sender")].vraw
				} else {
					ms = append(ms, mkMember("state_key", ms[firstMember(ms, "sender")].vraw))
				}
				lab += ".authorised-via"
			case 1:
				cm := textMembers([]byte(ms[firstMember(ms, "content")].vraw))
				key := "membership"
				if len(cm) > 0 {
					key = Pick(r, cm).key
				}
				cm = append(cm, mkMember(key, Pick(r, []string{`"leave"`, `1`, `null`, `{}`})))
				content = string(membersText(cm))
				lab += ".key"
			default:
				cm := textMembers([]byte(ms[firstMember(ms, "content")].vraw))
				cm = append(cm, mkMember("nested", `{"a":[1,{"k":1,"k":2}]}`))
				content = string(membersText(cm))
				lab += ".deep"
			}
			ms[firstMember(ms, "content")].vraw = content
			if r.Chance(70) {
				ms = rehashMembers(ver, ms)
				lab += "+rehash"
			}
			emitParseAll(o, r, lab, ver, membersText(ms), id)
		case 3: // a repeated member inside unsigned / signatures / hashes
			ms := textMembers(base)
			key := Pick(r, []string{"signatures", "hashes", "unsigned"})
			i := firstMember(ms, key)
			if i < 0 {
				ms = append(ms, mkMember(key, "{}"))
				i = len(ms) - 1
			}
			inner := textMembers([]byte(ms[i].vraw))
			if len(inner) > 0 {
				inner = append(inner, inner[r.Intn(len(inner))])
			} else {
				inner = []tmember{mkMember("a", "1"), mkMember("a", "2")}
			}
			ms[i].vraw = string(membersText(inner))
			emitParseAll(o, r, "dup.inside."+key, ver, membersText(ms), id)
		default: // a case variant of an event-struct member name
			fam := Pick(r, structNameVariants)
			t, lab := r.foldVariantText(ver, base, fam[0], fam[1+r.Intn(len(fam)-1)], r.Intn(5), r.Chance(75))
			emitParseAll(o, r, lab, ver, t, id)
		}
	}
}

func emitParseAll(o *Out, r *Rng, label, ver string, text []byte, id string) {
	hv := ver
	im := o.Do("parse_untrusted", hv, hx(text))
	o.Count(label + ".untrusted." + outcomeClass(im))
	if strings.HasPrefix(im, "ok:") {
		o.Do("accessors_pure", hv, Pick(r, []string{"t", "w", "u", "h"}), hx([]byte(id))+":"+hx(text))
	}
	if strings.HasPrefix(im, "ok:") || strings.Contains(im, "persistable") {
		v := o.Do("untrusted_view", hv, hx(text))
		o.Count("view." + strings.SplitN(v, ":", 2)[0] + "." + outcomeClass(im))
	}
	if r.Chance(50) {
		im = o.Do("parse_trusted", hv, Pick(r, []string{"0", "1"}), hx(text))
		o.Count(label + ".trusted." + outcomeClass(im))
	}
	if r.Chance(30) {
		im = o.Do("parse_trusted_id", hv, hx([]byte(id)), Pick(r, []string{"0", "1"}), hx(text))
		o.Count(label + ".trusted_id." + outcomeClass(im))
	}
}

func outcomeClass(im string) string {
	if strings.HasPrefix(im, "ok:") {
		if strings.Contains(im, "|redacted=1|") {
			return "ok-redacted"
		}
		return "ok"
	}
	if i := strings.Index(im, ":"); i >= 0 && strings.HasPrefix(im, "panic") {
		return "panic"
	}
	return im
}

func genEvent(o *Out, tier string, r *Rng) {
	n := 10
	if tier == "thorough" {
		n = 300
	}
	// the regression corpus shapes come first
	for _, ver := range []string{"1", "4", "12"} {
		for _, t := range []string{"null", " null ", "[]", "{}", "1", `"x"`, "true"} {
			hv := ver
			o.Do("parse_untrusted", hv, hx([]byte(t)))
			o.Do("parse_trusted", hv, "0", hx([]byte(t)))
			o.Do("parse_trusted_id", hv, hx([]byte("$x:y")), "0", hx([]byte(t)))
		}
	}
	for _, t := range []string{"null", "{}", `{"_room_version":"1"}`, `{"_room_version":"99"}`, `{"_room_version":10,"_event_id":"$x"}`, `[]`} {
		o.Do("headered", "0", hx([]byte(t)))
	}
	sizeOps, sizeBudget := 0, 6
	if tier == "thorough" {
		sizeBudget = 40
	}
	for round := 0; round < n; round++ {
		for _, ver := range allVersions {
			b := r.buildEvent(o, ver)
			if b == nil {
				continue
			}
			id := b.pdu.EventID()
			if round == 0 && len(o.Samples) < 6 {
				o.Sample(ver + " " + string(b.json))
			}
			// the event as built
			emitParseAll(o, r, "built", ver, b.json, id)
			if hj, err := b.pdu.ToHeaderedJSON(); err == nil {
				im := o.Do("headered", Pick(r, []string{"0", "1"}), hx(hj))
				o.Count("built.headered." + outcomeClass(im))
			}
			genEventProps(o, r, b)
			// tamperings, each with and without a re-computed hash
			k := 6
			if tier == "thorough" {
				k = 10
			}
			for j := 0; j < k; j++ {
				tp := Pick(r, tamperings)
				m := toMap(b.json)
				tp.f(r, m)
				if r.Chance(30) {
					tp2 := Pick(r, tamperings)
					tp2.f(r, m)
				}
				lab := "tamper." + tp.name
				if r.Chance(35) && !strings.HasPrefix(tp.name, "hash.") {
					m.rehashFor(ver)
					lab += "+rehash"
				}
				emitParseAll(o, r, lab, ver, m.text(), id)
			}
			// equal-length adversary: redaction can ADD bytes (an absent `content` comes back as "content":{}, an absent
			// `type` as "type":""), so an event with a failing hash can have a redaction of exactly its own length while
			// carrying material outside the keep-list; any shortcut that compares sizes instead of bytes is exposed here.
			if r.Chance(60) {
				for _, drop := range [][]string{{"content"}, {"type"}, {"content", "type"}} {
					if m := equalLengthRedaction(ver, b.json, drop); m != nil {
						emitParseAll(o, r, "equal-length-redaction", ver, m.text(), id)
					}
				}
			}
			// total size at the limit (with and without a valid hash)
			if sizeOps < sizeBudget && r.Chance(40) {
				sizeOps++
				for _, sz := range []int{65535, 65536, 65537} {
					m := toMap(b.json)
					if r.Bool() {
						m["unsigned"] = json.RawMessage(`{"age":1}`)
					}
					if !padEventTo(m, ver, sz) {
						continue
					}
					lab := "size"
					if r.Bool() {
						// hashes has constant length, so rehashing keeps the size
						m.rehashFor(ver)
						lab += "+rehash"
					}
					emitParseAll(o, r, lab, ver, m.text(), id)
				}
			}
			// the redacted form re-parsed as untrusted (hash cannot match unless nothing was removed)
			if red, err := gmsl.MustGetRoomVersion(gmsl.RoomVersion(ver)).RedactEventJSON(b.json); err == nil && r.Chance(50) {
				emitParseAll(o, r, "redacted-form", ver, red, id)
			}
			// room versions whose room ID derives from the create event: the C03 relations on a create event, every round
			if _, v3 := verFormat(ver); v3 {
				if cb := r.buildEventTyped(o, ver, 0, "m.room.create"); cb != nil {
					genEventProps(o, r, cb)
				}
			}
			// texts that do not denote one event: repeated member names, case variants of event-struct member names
			genAdversarial(o, r, b, 4)
			// styles: the same event with whitespace / escapes / shuffled members
			if r.Chance(30) {
				var jv interface{}
				_ = jv
				emitParseAll(o, r, "restyled", ver, restyle(r, b.json), id)
			}
		}
	}
	// Build near the size limit: the signature and hash add ~200 bytes after the fields are fixed
	nb := 6
	if tier == "thorough" {
		nb = 60
	}
	for i := 0; i < nb; i++ {
		ver := Pick(r, allVersions)
		b0 := r.buildEventSized(o, ver, 60000)
		if b0 == nil {
			continue
		}
		// same proto-event, padded so that the finished event lands at 65536 + delta bytes
		delta := -260 + r.Intn(330)
		extra := 65536 + delta - len(b0.json)
		pe := b0.pe
		c := toMap(pe.Content)
		var parts []string
		_ = json.Unmarshal(c["pad"], &parts)
		for extra > 0 {
			k := 50
			if extra < 53 {
				k = extra - 3
				if k < 0 {
					k = 0
				}
			}
			parts = append(parts, strings.Repeat("q", k))
			extra -= k + 3
		}
		pb, _ := json.Marshal(parts)
		c["pad"] = pb
		pe.Content = spec.RawJSON(c.text())
		b := runBuild(o, ver, pe, b0.now, b0.sg, int64(r.Intn(1<<30)))
		o.Count(fmt.Sprintf("build.near-limit.delta%+d", delta/50*50))
		if b != nil {
			emitParseAll(o, r, "near-limit", ver, b.json, b.pdu.EventID())
			im := o.Do("roundtrip", ver, hx(b.json))
			o.Count("near-limit.roundtrip." + im)
		}
	}
	// hand-made events (no EventBuilder): unusual but well-formed shapes with a correct hash
	m := 60
	if tier == "thorough" {
		m = 4000
	}
	for i := 0; i < m; i++ {
		ver := Pick(r, allVersions)
		ev := r.baseEvent(ver)
		typ := Pick(r, evTypes)
		ev.put("type", jstr(typ))
		ev.put("content", r.evContent(typ, r.Chance(90)))
		if _, v3 := verFormat(ver); v3 {
			for i, k := range ev.Keys {
				if k == "room_id" {
					ev.Vals[i] = jstr("!" + r.id43())
				}
			}
		}
		for k := r.Intn(3); k > 0; k-- {
			key := Pick(r, redactTopKeys)
			if !ev.has(key) {
				ev.put(key, r.contentValue(key, true))
			}
		}
		em := toMap(r.RenderText(ev, Style{}))
		if r.Chance(70) {
			em.rehashFor(ver)
		}
		emitParseAll(o, r, "handmade", ver, em.text(), "$hand:hs1")
	}
}

// restyle re-renders a JSON text with random whitespace, escapes and member order.
func restyle(r *Rng, js []byte) []byte {
	v := jvOf(js)
	if v == nil {
		return js
	}
	return r.RenderText(v, r.RandStyle())
}

// jvOf converts a JSON text into the generator's value type (numbers keep their literal).
func jvOf(js []byte) *JV {
	dec := json.NewDecoder(bytes.NewReader(js))
	dec.UseNumber()
	var x interface{}
	if err := dec.Decode(&x); err != nil {
		return nil
	}
	var conv func(x interface{}) *JV
	conv = func(x interface{}) *JV {
		switch t := x.(type) {
		case nil:
			return &JV{Kind: 'n'}
		case bool:
			return &JV{Kind: 'b', B: t}
		case json.Number:
			return &JV{Kind: '#', Num: string(t)}
		case string:
			return &JV{Kind: 's', Str: t}
		case []interface{}:
			v := &JV{Kind: 'a'}
			for _, e := range t {
				v.Arr = append(v.Arr, conv(e))
			}
			return v
		case map[string]interface{}:
			v := &JV{Kind: 'o'}
			for _, k := range sortedKeys(t) {
				v.Keys = append(v.Keys, k)
				v.Vals = append(v.Vals, conv(t[k]))
			}
			return v
		}
		return &JV{Kind: 'n'}
	}
	return conv(x)
}

// genRedactPDU: PDU.Redact() on built and hand-made events (area redact).
func genRedactPDU(o *Out, tier string, r *Rng) {
	n := 6
	if tier == "thorough" {
		n = 150
	}
	for round := 0; round < n; round++ {
		for _, ver := range allVersions {
			hv := ver
			if b := r.buildEvent(o, ver); b != nil {
				im := o.Do("pdu", hv, hx([]byte(b.pdu.EventID()))+":"+hx(b.json))
				o.Count("pdu.built." + pduClass(im))
				pub := b.sg.sk.Public().(ed25519.PublicKey)
				im = o.Do("pdu_props", hv, hx([]byte(b.pdu.EventID()))+":"+hx(b.json), hx([]byte(b.sg.name)), hx([]byte(b.sg.kid)), hx(pub))
				o.Count("pdu_props." + im)
				if verifyEventSig(gmsl.MustGetRoomVersion(gmsl.RoomVersion(ver)), b.json, b.sg.name, string(b.sg.kid), pub) {
					o.Count("pdu_props.signature-verified-on-original")
				}
			}
			// hand-made trusted events, some outside what Redact() tolerates
			ev := r.baseEvent(ver)
			typ := Pick(r, evTypes)
			ev.put("type", jstr(typ))
			ev.put("content", r.evContent(typ, r.Chance(85)))
			if r.Chance(10) {
				ev.put("depth", jnum(Pick(r, []string{"1.5", "-0", "9007199254740992"})))
			}
			if r.Chance(5) {
				ev.put("content", Pick(r, []*JV{{Kind: 'a'}, jstr("x"), {Kind: 'n'}}))
			}
			t := r.RenderText(ev, Style{})
			im := o.Do("pdu", hv, hx([]byte("$hand:hs1"))+":"+hx(t))
			o.Count("pdu.handmade." + pduClass(im))
		}
	}
}

func pduClass(im string) string {
	switch {
	case strings.Contains(im, "##idem=1"):
		return "redacted"
	case strings.Contains(im, "##PANIC"):
		return "panic"
	case strings.HasPrefix(im, "err"):
		return im
	}
	return "other"
}

// independentHashOK recomputes the content hash of an event text without the library's event code: the members other than
// unsigned / signatures / hashes, canonical JSON, SHA-256, against hashes.sha256 (unpadded standard base64).
func independentHashOK(js []byte) bool {
	var m map[string]json.RawMessage
	if json.Unmarshal(js, &m) != nil {
		return false
	}
	var h struct {
		Sha256 string `json:"sha256"`
	}
	if json.Unmarshal(m["hashes"], &h) != nil {
		return false
	}
	// (C17: base64 values are read from the standard and from the URL-safe unpadded alphabet)
	want, err := base64.RawStdEncoding.DecodeString(h.Sha256)
	if err != nil {
		if want, err = base64.RawURLEncoding.DecodeString(h.Sha256); err != nil {
			return false
		}
	}
	// (member order does not matter: canonical JSON sorts; duplicate names cannot occur in an accepted event)
	delete(m, "unsigned")
	delete(m, "signatures")
	delete(m, "hashes")
	b, err := json.Marshal(m)
	if err != nil {
		return false
	}
	c, err := gmsl.CanonicalJSON(b)
	if err != nil {
		return false
	}
	sum := sha256.Sum256(c)
	return bytes.Equal(sum[:], want)
}
