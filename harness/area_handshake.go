package main

// Area handshake (C15): HandleMakeJoin, HandleMakeLeave, HandleSendJoin, HandleInvite, PerformJoin run with
// mock queriers / verifiers / federation clients built from the op line. Argument encodings are
// documented at the top of lean/VDriver/Handshake.lean. PerformInvite and the pseudo-ID path of HandleSendJoin:
// area_handshake_invite.go (encodings: lean/VDriver/HandshakeInvite.lean).

import (
	"bytes"
	"context"
	"crypto/ed25519"
	"crypto/sha256"
	"encoding/base64"
	"encoding/json"
	"errors"
	"sort"
	"strconv"
	"strings"
	"time"

	gmsl "github.com/matrix-org/gomatrixserverlib"
	"github.com/matrix-org/gomatrixserverlib/spec"
)

func init() { areas["handshake"] = Area{Gen: genHandshake, Exec: execHandshake} }

var hsKeyID = gmsl.KeyID("ed25519:k1")

func hsKey(name string) ed25519.PrivateKey {
	seed := sha256.Sum256([]byte("verif-key-" + name))
	return ed25519.NewKeyFromSeed(seed[:])
}

var hsLocalKey = hsKey("local")

// ---------------------------------------------------------------- mocks

// hsVerifier is the caller's JSONVerifier.  `mode` scripts the answer (good / bad / err).  With `check` set the answer
// "good" is given only to the question the property is about — does `wantName` have a valid signature on `wantMsg` (the
// redacted event) at the event's timestamp — and every other question (another server name, another message, another time,
// more or fewer requests than one) is answered "bad": that server did not sign that.
type hsVerifier struct {
	mode     string
	check    bool
	wantName spec.ServerName
	wantMsg  []byte
	wantTS   spec.Timestamp
}

func (v *hsVerifier) VerifyJSONs(ctx context.Context, reqs []gmsl.VerifyJSONRequest) ([]gmsl.VerifyJSONResult, error) {
	if v.mode == "err" {
		return nil, errors.New("verifier unavailable (scripted)")
	}
	res := make([]gmsl.VerifyJSONResult, len(reqs))
	for i, rq := range reqs {
		switch {
		case v.mode == "bad":
			res[i].Error = errors.New("bad signature (scripted)")
		case v.check && (len(reqs) != 1 || rq.ServerName != v.wantName || !bytes.Equal(rq.Message, v.wantMsg) || rq.AtTS != v.wantTS || rq.ValidityCheckingFunc == nil):
			res[i].Error = errors.New("not the (server, message, time) the scripted signature is for")
		}
	}
	return res, nil
}

// hsMembershipFor: the checking membership querier for a join event — the target is the event's sender (= its state key).
func hsMembershipFor(cur string, roomID spec.RoomID, ev gmsl.PDU) *hsMembership {
	if ev == nil {
		return &hsMembership{cur: cur}
	}
	return &hsMembership{cur: cur, check: true, wantRoom: roomID.String(), wantSender: ev.SenderID()}
}

// hsVerifierFor: the checking verifier for one event — the signature scripted as good is `name`'s over the redacted event.
func hsVerifierFor(mode string, verImpl gmsl.IRoomVersion, ev gmsl.PDU, name spec.ServerName) *hsVerifier {
	v := &hsVerifier{mode: mode}
	if verImpl == nil || ev == nil {
		return v
	}
	red, err := verImpl.RedactEventJSON(ev.JSON())
	if err != nil {
		return v
	}
	v.check, v.wantName, v.wantMsg, v.wantTS = true, name, red, ev.OriginServerTS()
	return v
}

// hsMembership is the caller's MembershipQuerier.  `cur` scripts the answer ("err" | "m:<membership>").  With `check` set
// the scripted membership is that of (`wantRoom`, `wantSender`) — the user the property's "target" clause is about; a
// question about any other room or user fails (the handler then answers with an internal error, which the model does not).
type hsMembership struct {
	cur        string
	check      bool
	wantRoom   string
	wantSender spec.SenderID
}

func (m *hsMembership) CurrentMembership(ctx context.Context, roomID spec.RoomID, senderID spec.SenderID) (string, error) {
	if m.cur == "err" {
		return "", errors.New("membership query failed (scripted)")
	}
	if m.check && (roomID.String() != m.wantRoom || senderID != m.wantSender) {
		return "", errors.New("membership asked for another (room, user) than the target of the event")
	}
	return m.cur[2:], nil
}

func hsUserQuerier(mode string) spec.UserIDForSender {
	if mode == "err" {
		return func(roomID spec.RoomID, senderID spec.SenderID) (*spec.UserID, error) {
			return nil, errors.New("sender lookup failed (scripted)")
		}
	}
	return StdQuerier
}

func hsErrClass(err error) string {
	switch e := err.(type) {
	case nil:
		return "ok"
	case spec.MatrixError:
		return "err:" + string(e.ErrCode)
	case spec.IncompatibleRoomVersionError:
		return "err:" + string(e.MatrixError.ErrCode)
	case spec.InternalServerError:
		return "err:internal"
	}
	return "err:other"
}

// sigReport checks the returned event: a VALID signature of `signer` under the local key ID, verified with the real local
// public key over the redacted form of the returned event (an entry that merely exists under that name does not count),
// and that the returned event is the received one apart from that one signature slot (and the unsigned section): the
// slot (signer, local key ID) is removed from both before they are compared, so a received event that already carries an
// entry there — necessarily not ours — is treated like any other.
func sigReport(ver gmsl.IRoomVersion, in []byte, out gmsl.PDU, signer string) string {
	red, err := ver.RedactEventJSON(out.JSON())
	sig := "0"
	if err == nil && gmsl.VerifyJSON(signer, hsKeyID, hsLocalKey.Public().(ed25519.PublicKey), red) == nil {
		sig = "1"
	}
	strip := func(b []byte) string {
		var m map[string]json.RawMessage
		if json.Unmarshal(b, &m) != nil {
			return "?"
		}
		delete(m, "unsigned")
		var sigs map[string]map[string]json.RawMessage
		if json.Unmarshal(m["signatures"], &sigs) == nil {
			delete(sigs[signer], string(hsKeyID))
			if len(sigs[signer]) == 0 {
				delete(sigs, signer)
			}
			if len(sigs) == 0 {
				delete(m, "signatures")
			} else {
				m["signatures"], _ = json.Marshal(sigs)
			}
		}
		o, _ := json.Marshal(m)
		c, _ := gmsl.CanonicalJSON(o)
		return string(c)
	}
	unmod := "0"
	if strip(in) == strip(out.JSON()) {
		unmod = "1"
	}
	return ":sig=" + sig + ":unmod=" + unmod + ":signer=" + signer
}

type hsRestrictedQuerier struct {
	ver                 string
	jr, pl, create, pnd string
	rooms               map[string][2]string // roomID -> (state, users)
}

func hsQEvent(ver, s string) (gmsl.PDU, error) {
	switch s {
	case "err":
		return nil, errors.New("state query failed (scripted)")
	case "nil":
		return nil, nil
	}
	return parseEvArg(ver, s)
}

func (q *hsRestrictedQuerier) CurrentStateEvent(ctx context.Context, roomID spec.RoomID, eventType string, stateKey string) (gmsl.PDU, error) {
	switch eventType {
	case spec.MRoomJoinRules:
		return hsQEvent(q.ver, q.jr)
	case spec.MRoomPowerLevels:
		return hsQEvent(q.ver, q.pl)
	case spec.MRoomCreate:
		return hsQEvent(q.ver, q.create)
	}
	return nil, nil
}

func (q *hsRestrictedQuerier) InvitePending(ctx context.Context, roomID spec.RoomID, senderID spec.SenderID) (bool, error) {
	if q.pnd == "err" {
		return false, errors.New("invite query failed (scripted)")
	}
	return q.pnd == "1", nil
}

func (q *hsRestrictedQuerier) RestrictedRoomJoinInfo(ctx context.Context, roomID spec.RoomID, senderID spec.SenderID, localServerName spec.ServerName) (*gmsl.RestrictedRoomJoinInfo, error) {
	ent, ok := q.rooms[roomID.String()]
	if !ok || ent[0] == "nil" {
		return nil, nil
	}
	if ent[0] == "err" {
		return nil, errors.New("room info failed (scripted)")
	}
	info := &gmsl.RestrictedRoomJoinInfo{LocalServerInRoom: ent[0][0] == '1', UserJoinedToRoom: ent[0][1] == '1'}
	for _, a := range splitList(ent[1], ",") {
		e, err := parseEvArg(q.ver, a)
		if err == nil {
			info.JoinedUsers = append(info.JoinedUsers, e)
		}
	}
	return info, nil
}

// hsTemplate is the BuildEventTemplate callback: it builds the event from the proto event the handler hands over.
func hsTemplate(ver, tmode, tstate string) func(*gmsl.ProtoEvent) (gmsl.PDU, []gmsl.PDU, error) {
	return func(p *gmsl.ProtoEvent) (gmsl.PDU, []gmsl.PDU, error) {
		if tmode == "err" {
			return nil, nil, errors.New("template builder failed (scripted)")
		}
		state := []gmsl.PDU{}
		for _, a := range splitList(tstate, ",") {
			e, err := parseEvArg(ver, a)
			if err != nil {
				return nil, nil, err
			}
			state = append(state, e)
		}
		if tmode == "nilev" {
			return nil, state, nil
		}
		typ := p.Type
		if tmode == "wrongtype" {
			typ = "m.room.message"
		}
		f, _ := verFormat(ver)
		var prev interface{} = []string{"$prev:hs1"}
		if f == 1 {
			prev = []interface{}{[]interface{}{"$prev:hs1", map[string]string{"sha256": "47DEQpj8HBSa+/TImW+5JCeuQeRkm5NMpJWZG3hSuFU"}}}
		}
		m := map[string]interface{}{"type": typ, "sender": p.SenderID, "room_id": p.RoomID, "content": json.RawMessage(p.Content),
			"depth": 10, "origin_server_ts": 1, "prev_events": prev, "auth_events": []string{}}
		if p.StateKey != nil {
			m["state_key"] = *p.StateKey
		}
		raw, _ := json.Marshal(m)
		cj, err := gmsl.CanonicalJSON(raw)
		if err != nil {
			return nil, nil, err
		}
		ev, err := gmsl.MustGetRoomVersion(gmsl.RoomVersion(ver)).NewEventFromTrustedJSONWithEventID("$template:hs1", cj, false)
		if err != nil {
			return nil, nil, err
		}
		if tmode == "nilstate" {
			return ev, nil, nil
		}
		return ev, state, nil
	}
}

// ---------------------------------------------------------------- exec

func execHandshake(op string, args []string) string {
	ctx := context.Background()
	switch op {
	case "sendjoin":
		// ver cls ev evType roomID reqEventID origin local senderQ verify cur
		ver, cls := args[0], args[1]
		var raw []byte
		if cls == "x" {
			raw = []byte(`{"type":"m.room.member"`)
		} else {
			i := strings.IndexByte(args[2], ':')
			raw = unhx(args[2][i+1:])
		}
		verImpl, verr := gmsl.GetRoomVersion(gmsl.RoomVersion(ver))
		var parsed gmsl.PDU
		if verr == nil && cls != "x" {
			// the op's class and event must be what the library makes of the raw message
			ev, err := verImpl.NewEventFromUntrustedJSON(raw)
			got := "x"
			if err == nil {
				got = "o"
			} else if ve, ok := err.(gmsl.EventValidationError); ok && ve.Persistable && ev != nil {
				got = "p"
			}
			if got != cls {
				return "err:construct:class " + got
			}
			want, _ := parseEvArg(ver, args[2])
			if want == nil || ev.EventID() != want.EventID() || string(ev.JSON()) != string(want.JSON()) {
				return "err:construct:reparse"
			}
			// the declared event type is the one the accessor reports
			if ev.Type() != string(unhx(args[3])) {
				return "err:construct:type"
			}
			parsed = ev
		}
		roomID, err := spec.NewRoomID(string(unhx(args[4])))
		if err != nil {
			return "err:construct:room"
		}
		origin, local := spec.ServerName(args[6]), args[7]
		// the signature scripted by `verify` is the REQUESTING server's, over the redacted event
		resp, err := gmsl.HandleSendJoin(gmsl.HandleSendJoinInput{
			Context: ctx, RoomID: *roomID, EventID: string(unhx(args[5])), JoinEvent: raw,
			RoomVersion: gmsl.RoomVersion(ver), RequestOrigin: origin, LocalServerName: spec.ServerName(local),
			KeyID: hsKeyID, PrivateKey: hsLocalKey, Verifier: hsVerifierFor(args[9], verImpl, parsed, origin),
			MembershipQuerier: hsMembershipFor(args[10], *roomID, parsed), UserIDQuerier: hsUserQuerier(args[8]),
			StoreSenderIDFromPublicID: func(ctx context.Context, senderID spec.SenderID, userID string, id spec.RoomID) error { return nil },
		})
		if err != nil {
			return hsErrClass(err)
		}
		aj := "0"
		if resp.AlreadyJoined {
			aj = "1"
		}
		in, _ := verImpl.NewEventFromUntrustedJSON(raw)
		return "ok:aj=" + aj + sigReport(verImpl, in.JSON(), resp.JoinEvent, local)
	case "makejoin":
		ver := args[0]
		userID, err := spec.NewUserID(args[2], true)
		if err != nil {
			return "err:construct:user"
		}
		roomID, err := spec.NewRoomID(string(unhx(args[6])))
		if err != nil {
			return "err:construct:room"
		}
		var remote []gmsl.RoomVersion
		for _, v := range splitList(args[1], ",") {
			remote = append(remote, gmsl.RoomVersion(v))
		}
		q := &hsRestrictedQuerier{ver: ver, jr: args[7], pnd: args[8], pl: args[9], create: args[10], rooms: map[string][2]string{}}
		for _, ent := range splitList(args[11], "|") {
			p := strings.Split(ent, ";")
			if len(p) == 3 {
				if _, dup := q.rooms[string(unhx(p[0]))]; !dup {
					q.rooms[string(unhx(p[0]))] = [2]string{p[1], p[2]}
				}
			}
		}
		resp, err := gmsl.HandleMakeJoin(gmsl.HandleMakeJoinInput{
			Context: ctx, UserID: *userID, SenderID: spec.SenderID(args[2]), RoomID: *roomID, RoomVersion: gmsl.RoomVersion(ver),
			RemoteVersions: remote, RequestOrigin: spec.ServerName(args[3]), LocalServerName: spec.ServerName(args[4]),
			LocalServerInRoom: args[5] == "1", RoomQuerier: q, UserIDQuerier: StdQuerier,
			BuildEventTemplate: hsTemplate(ver, args[12], args[13]),
		})
		if err != nil {
			return hsErrClass(err)
		}
		var c struct {
			Membership string `json:"membership"`
			Via        string `json:"join_authorised_via_users_server"`
		}
		p := resp.JoinTemplateEvent
		if json.Unmarshal(p.Content, &c) != nil || c.Membership != "join" || p.Type != spec.MRoomMember || p.SenderID != args[2] ||
			p.StateKey == nil || *p.StateKey != args[2] || p.RoomID != roomID.String() || string(resp.RoomVersion) != ver {
			return "ok-bad-proto"
		}
		return "ok:via=" + c.Via
	case "makeleave":
		ver := args[0]
		userID, err := spec.NewUserID(args[1], true)
		if err != nil {
			return "err:construct:user"
		}
		roomID, err := spec.NewRoomID(string(unhx(args[4])))
		if err != nil {
			return "err:construct:room"
		}
		resp, err := gmsl.HandleMakeLeave(gmsl.HandleMakeLeaveInput{
			UserID: *userID, SenderID: spec.SenderID(args[1]), RoomID: *roomID, RoomVersion: gmsl.RoomVersion(ver),
			RequestOrigin: spec.ServerName(args[2]), LocalServerName: "local", LocalServerInRoom: args[3] == "1", UserIDQuerier: StdQuerier,
			BuildEventTemplate: hsTemplate(ver, args[5], args[6]),
		})
		if err != nil {
			return hsErrClass(err)
		}
		var c struct {
			Membership string `json:"membership"`
		}
		p := resp.LeaveTemplateEvent
		if json.Unmarshal(p.Content, &c) != nil || c.Membership != "leave" || p.Type != spec.MRoomMember || p.SenderID != args[1] ||
			p.StateKey == nil || *p.StateKey != args[1] || p.RoomID != roomID.String() {
			return "ok-bad-proto"
		}
		return "ok"
	case "performjoin":
		return execPerformJoin(args)
	case "invitev3":
		return execInviteV3(args)
	case "perform_invite":
		return execPerformInvite(args)
	case "sendjoin_pseudo":
		return execSendJoinPseudo(args)
	case "invite":
		ver := args[0]
		ever := ver
		verImpl, verr := gmsl.GetRoomVersion(gmsl.RoomVersion(ver))
		if verr != nil {
			ever = "10"
			verImpl = gmsl.MustGetRoomVersion("10")
		}
		ev, err := parseEvArg(ever, args[1])
		if err != nil {
			return "err:construct"
		}
		roomID, err := spec.NewRoomID(string(unhx(args[2])))
		if err != nil {
			return "err:construct:room"
		}
		invited, err := spec.NewUserID(args[3], true)
		if err != nil {
			return "err:construct:user"
		}
		var stripped []gmsl.InviteStrippedState
		n, _ := strconv.Atoi(args[7])
		for i := 0; i < n; i++ {
			stripped = append(stripped, gmsl.NewInviteStrippedState(ev))
		}
		in := append([]byte{}, ev.JSON()...)
		// the signature scripted by `verify` is that of the SENDER's server (HandleInvite is given no request origin)
		var domOfSender spec.ServerName
		if u, uerr := StdQuerier(*roomID, ev.SenderID()); uerr == nil && u != nil {
			domOfSender = u.Domain()
		}
		out, err := gmsl.HandleInvite(ctx, gmsl.HandleInviteInput{
			RoomID: *roomID, RoomVersion: gmsl.RoomVersion(ver), InvitedUser: *invited, InvitedSenderID: spec.SenderID(args[3]),
			InviteEvent: ev, StrippedState: stripped, KeyID: hsKeyID, PrivateKey: hsLocalKey, Verifier: hsVerifierFor(args[5], verImpl, ev, domOfSender),
			RoomQuerier:       &hsRoomQuerier{known: args[6]},
			MembershipQuerier: &hsMembership{cur: args[9], check: true, wantRoom: roomID.String(), wantSender: spec.SenderID(args[3])},
			StateQuerier:      &hsStateQuerier{mode: args[8], ev: ev}, UserIDQuerier: hsUserQuerier(args[4]),
		})
		if err != nil {
			return hsErrClass(err)
		}
		var u struct {
			Unsigned struct {
				S json.RawMessage `json:"invite_room_state"`
			} `json:"unsigned"`
		}
		cnt := "?"
		if json.Unmarshal(out.JSON(), &u) == nil {
			var arr []json.RawMessage
			if strings.HasPrefix(string(u.Unsigned.S), "{") {
				cnt = "0"
			} else if json.Unmarshal(u.Unsigned.S, &arr) == nil {
				cnt = strconv.Itoa(len(arr))
			}
		}
		return "ok" + sigReport(verImpl, in, out, string(invited.Domain())) + ":stripped=" + cnt
	}
	return "bad-op"
}

type hsRoomQuerier struct{ known string }

func (r *hsRoomQuerier) IsKnownRoom(ctx context.Context, roomID spec.RoomID) (bool, error) {
	if r.known == "err" {
		return false, errors.New("room query failed (scripted)")
	}
	return r.known == "1", nil
}

type hsStateQuerier struct {
	mode string
	ev   gmsl.PDU
}

func (s *hsStateQuerier) GetAuthEvents(ctx context.Context, event gmsl.PDU) (gmsl.AuthEventProvider, error) {
	return gmsl.NewAuthEvents(nil)
}
func (s *hsStateQuerier) GetState(ctx context.Context, roomID spec.RoomID, stateWanted []gmsl.StateKeyTuple) ([]gmsl.PDU, error) {
	if s.mode == "err" {
		return nil, errors.New("state query failed (scripted)")
	}
	n, _ := strconv.Atoi(s.mode)
	var out []gmsl.PDU
	for i := 0; i < n; i++ {
		out = append(out, s.ev)
	}
	return out, nil
}

// ---------------------------------------------------------------- generation

var hsVersions = []string{"1", "2", "3", "4", "5", "6", "7", "8", "9", "10", "11", "12", "org.matrix.hydra.11", "org.matrix.msc3667", "org.matrix.msc3787"}

// dev returns the index of the one parameter that deviates from the happy path (or -1), so that every
// guard is hit alone, plus random multi-deviations.
func genHandshake(o *Out, tier string, r *Rng) {
	n := 350
	if tier == "thorough" {
		n = 12000
	}
	genSendJoinFixed(o, r)
	for i := 0; i < n; i++ {
		genSendJoin(o, r, i)
	}
	for i := 0; i < n; i++ {
		genMakeJoin(o, r, i)
	}
	for i := 0; i < n/3; i++ {
		genMakeLeave(o, r, i)
	}
	genInviteFixed(o, r)
	for i := 0; i < n; i++ {
		genInvite(o, r, i)
	}
	for i := 0; i < n/2; i++ {
		genPerformJoin(o, r, i)
	}
	genInviteV3Fixed(o, r)
	for i := 0; i < n/3; i++ {
		genInviteV3(o, r, i)
	}
	genSendJoinPseudoFixed(o, r)
	for i := 0; i < n; i++ {
		genSendJoinPseudo(o, r, i)
	}
	genPerformInviteFixed(o, r)
	for i := 0; i < 2*n; i++ {
		genPerformInvite(o, r, i)
	}
}

// pickDev: with probability p keep the default (index 0), else one of the alternatives.
func pickDev[T any](r *Rng, p int, xs ...T) T {
	if r.Chance(p) {
		return xs[0]
	}
	return xs[r.Intn(len(xs))]
}

// hsWrongTypes: event types that are NOT m.room.member — a custom type, two other state event types, a case variant,
// the empty type.  With state_key == sender and content.membership == "join" each of them looks like a join to
// `Membership()`; HandleSendJoin must refuse them ("it is a join").
var hsWrongTypes = []string{"x.custom", "m.room.name", "m.room.create", "m.room.Member", ""}

// hsForgeClasses: what a received event may already carry in the signature slot (local server, local key ID) — the slot
// the handler's own signature goes to.  Whatever was there is not the local server's signature and must not come back as it.
//
//	junk     64 zero bytes            otherkey  a genuine ed25519 signature over the redacted event, made with ANOTHER key
//	short    3 bytes                  otherid   an entry under the local name but another key ID (must be left alone)
var hsForgeClasses = []string{"junk", "otherkey", "short", "otherid"}

var hsEvilKey = hsKey("evil")

// hsForge returns the event with an entry planted under the signing name the handler will use (nil if the library
// no longer reads it back as the same event).
func hsForge(ver string, e *Ev, cls, name string) *Ev {
	impl, err := gmsl.GetRoomVersion(gmsl.RoomVersion(ver))
	if err != nil || e == nil {
		return nil
	}
	keyID, sig := string(hsKeyID), ""
	switch cls {
	case "junk":
		sig = base64.RawStdEncoding.EncodeToString(make([]byte, 64))
	case "short":
		sig = "AAAA"
	case "otherid":
		keyID, sig = "ed25519:old", base64.RawStdEncoding.EncodeToString(make([]byte, 64))
	case "otherkey":
		var s struct {
			Signatures map[string]map[string]string `json:"signatures"`
		}
		if json.Unmarshal(e.PDU.Sign(name, hsKeyID, hsEvilKey).JSON(), &s) != nil {
			return nil
		}
		sig = s.Signatures[name][keyID]
	}
	var m map[string]json.RawMessage
	if sig == "" || json.Unmarshal(e.JSON, &m) != nil {
		return nil
	}
	sigs := map[string]map[string]json.RawMessage{}
	_ = json.Unmarshal(m["signatures"], &sigs)
	if sigs[name] == nil {
		sigs[name] = map[string]json.RawMessage{}
	}
	sigs[name][keyID], _ = json.Marshal(sig)
	m["signatures"], _ = json.Marshal(sigs)
	raw, _ := json.Marshal(m)
	cj, err := gmsl.CanonicalJSON(raw)
	if err != nil {
		return nil
	}
	back, err := impl.NewEventFromUntrustedJSON(cj)
	if err != nil || back.EventID() != e.ID {
		return nil
	}
	return &Ev{PDU: back, ID: back.EventID(), JSON: back.JSON()}
}

// hsFix pins parameters of a generated handshake op; with `happy` every other parameter stays on the accepting path.
type hsFix struct {
	ver, typ, forge string
	happy           bool
	// variant: a member-content name under another spelling ("alone": instead of the exact member, "after" / "before":
	// next to the exact member, which carries another value).  Member names are exact: Membership(), the decode of
	// MemberContent and the auth rules ignore the other spellings.
	variant string
}

// hsMemberVariants: the spellings used by the fixed prologues (before / after the exact name in the marshalled map)
var hsVariantClasses = []string{"alone", "after", "before"}

// hsApplyVariant rewrites the content of a join / invite (membership `good`) for a variant class: the reading by exact
// names is "no membership" (alone), `other` (after: {"membership":other,"memberſhip":good}) or still `good`
// (before: {"Membership":other,"membership":good}).
func hsApplyVariant(content map[string]interface{}, class, good, other string) {
	switch class {
	case "alone":
		delete(content, "membership")
		content["Membership"] = good
	case "after":
		content["membership"] = other
		content["memberſhip"] = good
	case "before":
		content["Membership"] = other
		content["membership"] = good
	}
}

func genSendJoin(o *Out, r *Rng, i int) { genSendJoinFix(o, r, i, hsFix{}) }

// genSendJoinFixed: every room version x every wrong event type, and every room version x every class of planted local
// signature, each alone on the otherwise accepting path.
func genSendJoinFixed(o *Out, r *Rng) {
	for _, ver := range hsVersions {
		for _, typ := range hsWrongTypes {
			genSendJoinFix(o, r, 1000, hsFix{ver: ver, typ: "t:" + typ, happy: true})
		}
		for _, f := range hsForgeClasses {
			genSendJoinFix(o, r, 1000, hsFix{ver: ver, forge: f, happy: true})
		}
		for _, v := range hsVariantClasses {
			genSendJoinFix(o, r, 1000, hsFix{ver: ver, variant: v, happy: true})
		}
	}
}

func genSendJoinFix(o *Out, r *Rng, i int, fix hsFix) {
	ver := pickDev(r, 92, Pick(r, hsVersions), "99", "")
	if fix.ver != "" {
		ver = fix.ver
	}
	ever := ver
	if _, err := gmsl.GetRoomVersion(gmsl.RoomVersion(ver)); err != nil {
		ever = "10"
	}
	g := NewRoomGen(r, ever)
	origin := "hs2"
	local := "hs1"
	p := 88 // probability of keeping each parameter on the happy path
	if r.Chance(25) {
		p = 60
	}
	if fix.happy {
		p = 100
	}
	rare := func(pc int) bool { return !fix.happy && r.Chance(pc) }
	sender := pickDev(r, p, "@bob:hs2", "@carol:hs3", "@bob:hs1", "@bob:bad domain", "@"+strings.Repeat("é", 130)+":hs2")
	skMode := pickDev(r, p, "sender", "other", "empty", "none")
	var sk *string
	switch skMode {
	case "sender":
		sk = sp(sender)
	case "other":
		sk = sp("@dave:hs2")
	case "empty":
		sk = sp("")
	}
	// the event type: m.room.member, or (about one op in twelve, and in the fixed prologue) something else that still
	// has state_key == sender and content.membership == "join"
	typ := spec.MRoomMember
	if strings.HasPrefix(fix.typ, "t:") {
		typ = fix.typ[2:]
	} else if rare(8) {
		typ = Pick(r, hsWrongTypes)
	}
	content := map[string]interface{}{}
	switch pickDev(r, p, "join", "leave", "invite", "ban", "knock", "missing", "nonstring", "null") {
	case "missing":
	case "nonstring":
		content["membership"] = 5
	case "null":
		content["membership"] = nil
	case "join":
		content["membership"] = "join"
	default:
		content["membership"] = Pick(r, []string{"leave", "invite", "ban", "knock"})
	}
	switch pickDev(r, p, "none", "local", "remote", "invalid", "nonstring", "empty") {
	case "local":
		content["join_authorised_via_users_server"] = "@alice:hs1"
	case "remote":
		content["join_authorised_via_users_server"] = Pick(r, []string{"@alice:hs2", "@alice:hs1.evil", "@alice:hs1:8448"})
	case "invalid":
		content["join_authorised_via_users_server"] = Pick(r, []string{"alice", "@alice", "@:hs1", "@alice:bad domain"})
	case "nonstring":
		content["join_authorised_via_users_server"] = 7
	case "empty":
		content["join_authorised_via_users_server"] = ""
	}
	switch pickDev(r, max(p, 90), "none", "badname", "direct") {
	case "badname":
		content["displayname"] = 5
	case "direct":
		content["is_direct"] = "yes"
	}
	// member names under another spelling (ignored by every reader): the membership, and an authorising user of a
	// foreign server / an ill-typed display name that a folded reader would trip over
	variant := fix.variant
	if variant == "" && rare(6) {
		variant = Pick(r, hsVariantClasses)
	}
	if variant != "" {
		hsApplyVariant(content, variant, "join", "leave")
		o.Count("sendjoin.member-name-variant." + variant)
	}
	if rare(5) {
		content[Pick(r, []string{"Join_authorised_via_users_server", "join_authoriſed_via_users_server", "JOIN_AUTHORISED_VIA_USERS_SERVER"})] =
			Pick(r, []interface{}{"@alice:hs2", "alice", 7})
		o.Count("sendjoin.member-name-variant.via")
	}
	if rare(3) {
		content[Pick(r, []string{"Displayname", "Is_direct", "Third_party_invite", "Mxid_mapping", "reaſon"})] = 5
		o.Count("sendjoin.member-name-variant.ill-typed")
	}
	var contentV interface{} = content
	if rare(2) {
		contentV = Pick(r, []interface{}{nil, []int{1}, "x", 5})
	}
	evRoom := pickDev(r, p, "!room:hs1", "!other:hs1")
	g.RoomID = evRoom
	ev, cls := g.MkU(typ, sender, sk, contentV, []string{"$p:hs1"}, []string{}, nil)
	// a planted entry in the slot the local signature goes to
	forge := fix.forge
	if forge == "" && rare(6) {
		forge = Pick(r, hsForgeClasses)
	}
	if forge != "" && ev != nil && cls == "o" {
		if f := hsForge(ever, ev, forge, local); f != nil {
			ev = f
			o.Count("sendjoin.planted-local-sig." + forge)
		} else {
			o.Count("sendjoin.planted-local-sig.gen-failed")
		}
	}
	evArg, id, typArg := "-", "$none", "-"
	if ev == nil {
		cls = "x"
	} else {
		evArg, id, typArg = ev.Arg(), ev.ID, hx([]byte(typ))
	}
	if rare(4) {
		cls, evArg, typArg = "x", "-", "-"
	}
	reqID := pickDev(r, p, id, "$different:hs2")
	senderQ := pickDev(r, max(p, 95), "ok", "err")
	verify := pickDev(r, p, "good", "bad", "err")
	pcur := 70
	if fix.happy {
		pcur = 100
	}
	cur := pickDev(r, pcur, "m:leave", "m:join", "m:ban", "m:", "m:invite", "m:knock", "err")
	res := o.Do("sendjoin", ver, cls, evArg, typArg, hx([]byte("!room:hs1")), hx([]byte(reqID)), origin, local, senderQ, verify, cur)
	o.Count("sendjoin." + strings.SplitN(res, ":sig", 2)[0])
	if typ != spec.MRoomMember && cls != "x" {
		o.Count("sendjoin.type-not-member." + strings.SplitN(res, ":sig", 2)[0])
	}
	if i < 2 || (i == 1000 && fix.ver == "10" && (fix.typ == "t:x.custom" || fix.forge == "otherkey")) {
		o.Sample("sendjoin " + ver + " type=" + typ + " planted=" + forge + " sender=" + sender + " sk=" + skMode + " -> " + res)
	}
}

// hsRoom builds the state of a room with the given join rule content, for template auth checks.
func hsRoom(r *Rng, ver string, joinRule map[string]interface{}) *fcRoom {
	rm := newFcRoom(r, ver)
	if rm == nil {
		return nil
	}
	if joinRule != nil {
		if rm.send(spec.MRoomJoinRules, rm.admin, sp(""), joinRule, true, nil) == nil {
			return nil
		}
	}
	return rm
}

func genMakeJoin(o *Out, r *Rng, i int) {
	ver := Pick(r, hsVersions)
	verImpl := gmsl.MustGetRoomVersion(gmsl.RoomVersion(ver))
	p := 88
	if r.Chance(25) {
		p = 60
	}
	restrictedRoom := r.Chance(65)
	rule := "public"
	if restrictedRoom {
		rule = pickDev(r, 80, "restricted", "knock_restricted", "invite", "knock")
	}
	allowRoomA, allowRoomB := "!allowedA:hs1", "!allowedB:hs1"
	var allow []interface{}
	if restrictedRoom {
		switch pickDev(r, 70, "one", "two", "none", "othertype", "badroom", "nullentry") {
		case "one":
			allow = []interface{}{map[string]interface{}{"type": "m.room_membership", "room_id": allowRoomA}}
		case "two":
			allow = []interface{}{map[string]interface{}{"type": "m.room_membership", "room_id": allowRoomA}, map[string]interface{}{"type": "m.room_membership", "room_id": allowRoomB}}
		case "othertype":
			allow = []interface{}{map[string]interface{}{"type": "x.other", "room_id": allowRoomA}}
		case "badroom":
			allow = []interface{}{map[string]interface{}{"type": "m.room_membership", "room_id": "notaroom"}, map[string]interface{}{"type": "m.room_membership", "room_id": allowRoomB}}
		case "nullentry":
			allow = []interface{}{nil, map[string]interface{}{"type": "m.room_membership", "room_id": allowRoomA}}
		}
	}
	jrc := map[string]interface{}{"join_rule": rule}
	if allow != nil {
		jrc["allow"] = allow
	}
	if r.Chance(3) {
		jrc["join_rule"] = 5
	}
	rm := hsRoom(r, ver, jrc)
	if rm == nil {
		o.Count("gen-failed")
		return
	}
	joiner := "@newcomer:hs5"
	origin := pickDev(r, p, "hs5", "hs2")
	remote := pickDev(r, p, ver+",1", "1,2", "-", "99,"+ver)
	if ver == "1" {
		remote = pickDev(r, p, "1,10", "2,3", "-")
	}
	inRoom := pickDev(r, p, "1", "0")
	jr := pickDev(r, 90, rm.jr.Arg(), "err", "nil")
	pending := pickDev(r, 80, "0", "1", "err")
	pl := pickDev(r, 90, rm.pl.Arg(), "err", "nil")
	if r.Chance(5) {
		// a power-levels event that does not parse / has the wrong state key
		if bad := rm.send(spec.MRoomPowerLevels, rm.admin, sp(Pick(r, []string{"", "x"})), map[string]interface{}{"users": "nope"}, false, nil); bad != nil {
			pl = bad.Arg()
		}
	}
	create := pickDev(r, 92, rm.create.Arg(), "err", "nil")
	// joined users of the allowed rooms: alice (level 50), dave (level 0), the creator
	inviteLevel := 0
	if r.Chance(50) {
		inviteLevel = 50
		plc := map[string]interface{}{"users": map[string]interface{}{authUsers[1]: 50}, "users_default": 0, "events_default": 0, "state_default": 50, "ban": 50, "kick": 50, "invite": inviteLevel, "redact": 50}
		if !verImpl.PrivilegedCreators() {
			plc["users"].(map[string]interface{})[authUsers[0]] = 100
		}
		if e := rm.send(spec.MRoomPowerLevels, rm.admin, sp(""), plc, true, nil); e != nil && pl != "err" && pl != "nil" {
			pl = e.Arg()
		}
	}
	members := func() string {
		var us []*Ev
		for _, u := range Pick(r, [][]string{{authUsers[1]}, {authUsers[4], authUsers[1]}, {authUsers[4]}, {authUsers[0]}, {authUsers[4], authUsers[0]}, {}}) {
			if m := rm.member[u]; m != nil {
				us = append(us, m)
			}
		}
		if r.Chance(8) { // a non-member event / a state-key-less event among the "joined users"
			if m := rm.send("m.room.message", authUsers[1], nil, map[string]interface{}{"body": "x"}, false, nil); m != nil {
				us = append([]*Ev{m}, us...)
			}
		}
		return evArgs(us)
	}
	roomEnt := func(id string) string {
		st := pickDev(r, 75, "11", "01", "10", "00", "err", "nil")
		return hx([]byte(id)) + ";" + st + ";" + members()
	}
	rooms := roomEnt(allowRoomA) + "|" + roomEnt(allowRoomB)
	tmode := pickDev(r, 90, "build", "err", "nilev", "nilstate", "wrongtype")
	state := rm.state()
	if r.Chance(6) {
		if m := rm.send("m.room.message", authUsers[1], nil, map[string]interface{}{"body": "x"}, false, nil); m != nil {
			state = append(state, m)
		}
	}
	if r.Chance(8) { // state without the authoriser's / creator's membership etc.
		state = state[:len(state)-1]
	}
	res := o.Do("makejoin", ver, remote, joiner, origin, "hs1", inRoom, hx([]byte(rm.g.RoomID)), jr, pending, pl, create, rooms, tmode, evArgs(state))
	o.Count("makejoin." + strings.SplitN(res, "=", 2)[0])
	if strings.HasPrefix(res, "ok:via=@") {
		o.Count("makejoin.ok-with-authoriser")
	}
	if i < 2 {
		o.Sample("makejoin " + ver + " rule=" + rule + " -> " + res)
	}
}

func genMakeLeave(o *Out, r *Rng, i int) {
	ver := Pick(r, hsVersions)
	rm := hsRoom(r, ver, nil)
	if rm == nil {
		return
	}
	js := rm.joined()
	leaver := pickDev(r, 80, js[len(js)-1], "@stranger:hs7")
	origin := pickDev(r, 85, domainOf(leaver), "hs9")
	inRoom := pickDev(r, 85, "1", "0")
	tmode := pickDev(r, 85, "build", "err", "nilev", "nilstate", "wrongtype")
	state := rm.state()
	if r.Chance(6) {
		if m := rm.send("m.room.message", authUsers[1], nil, map[string]interface{}{"body": "x"}, false, nil); m != nil {
			state = append(state, m)
		}
	}
	res := o.Do("makeleave", ver, leaver, origin, inRoom, hx([]byte(rm.g.RoomID)), tmode, evArgs(state))
	o.Count("makeleave." + res)
}

func genInvite(o *Out, r *Rng, i int) { genInviteFix(o, r, i, hsFix{}) }

// genInviteFixed: every room version x every class of planted local signature, and x every wrong event type that still
// looks like an invite to `Membership()`, each alone on the otherwise accepting path.
func genInviteFixed(o *Out, r *Rng) {
	for _, ver := range hsVersions {
		for _, f := range hsForgeClasses {
			genInviteFix(o, r, 1000, hsFix{ver: ver, forge: f, happy: true})
		}
		for _, typ := range hsWrongTypes {
			genInviteFix(o, r, 1000, hsFix{ver: ver, typ: "t:" + typ, happy: true})
		}
		for _, v := range hsVariantClasses {
			genInviteFix(o, r, 1000, hsFix{ver: ver, variant: v, happy: true})
		}
	}
}

func genInviteFix(o *Out, r *Rng, i int, fix hsFix) {
	ver := pickDev(r, 92, Pick(r, hsVersions), "99", "")
	if fix.ver != "" {
		ver = fix.ver
	}
	ever := ver
	if _, err := gmsl.GetRoomVersion(gmsl.RoomVersion(ver)); err != nil {
		ever = "10"
	}
	g := NewRoomGen(r, ever)
	p := 85
	if r.Chance(25) {
		p = 60
	}
	if fix.happy {
		p = 100
	}
	invited := "@alice:hs1"
	sender := pickDev(r, p, "@bob:hs2", "@bob:bad domain")
	membership := pickDev(r, p, "invite", "join", "leave", "ban", "knock")
	typ := pickDev(r, max(p, 92), spec.MRoomMember, spec.MRoomPowerLevels, "m.room.message")
	var sk *string
	switch pickDev(r, p, "invited", "other", "none") {
	case "invited":
		sk = sp(invited)
	case "other":
		sk = sp("@mallory:hs9")
	}
	if typ == spec.MRoomPowerLevels {
		sk = sp("")
	}
	g.RoomID = pickDev(r, p, "!room:hs2", "!elsewhere:hs2")
	mc := map[string]interface{}{"membership": membership}
	variant := fix.variant
	if variant == "" && !fix.happy && r.Chance(6) {
		variant = Pick(r, hsVariantClasses)
	}
	if variant != "" {
		hsApplyVariant(mc, variant, membership, Pick(r, []string{"leave", "join"}))
		o.Count("invite.member-name-variant." + variant)
	}
	var content interface{} = mc
	if typ != spec.MRoomMember {
		content = map[string]interface{}{"users": map[string]interface{}{"@bob:hs2": 100}}
	}
	// another type that keeps the invite's state key and content (so that `Membership()` still answers "invite")
	if strings.HasPrefix(fix.typ, "t:") {
		typ = fix.typ[2:]
	} else if typ == spec.MRoomMember && !fix.happy && r.Chance(5) {
		typ = Pick(r, hsWrongTypes)
	}
	ev, cls := g.MkU(typ, sender, sk, content, []string{"$p:hs2"}, []string{}, nil)
	if ev == nil {
		o.Count("gen-failed")
		return
	}
	// a planted entry in the slot the local signature goes to (signing name: the invited user's server)
	forge := fix.forge
	if forge == "" && !fix.happy && r.Chance(6) {
		forge = Pick(r, hsForgeClasses)
	}
	if forge != "" && cls == "o" {
		if f := hsForge(ever, ev, forge, "hs1"); f != nil {
			ev = f
			o.Count("invite.planted-local-sig." + forge)
		} else {
			o.Count("invite.planted-local-sig.gen-failed")
		}
	}
	senderQ := pickDev(r, max(p, 93), "ok", "err")
	verify := pickDev(r, p, "good", "bad", "err")
	pq := func(q int) int {
		if fix.happy {
			return 100
		}
		return q
	}
	known := pickDev(r, pq(60), "1", "0", "err")
	stripped := pickDev(r, pq(50), "0", "1", "3")
	stateq := pickDev(r, pq(70), "2", "0", "err")
	cur := pickDev(r, pq(70), "m:leave", "m:join", "m:invite", "m:", "err")
	res := o.Do("invite", ver, ev.Arg(), hx([]byte("!room:hs2")), invited, senderQ, verify, known, stripped, stateq, cur)
	o.Count("invite." + strings.SplitN(res, ":sig", 2)[0])
	if typ != spec.MRoomMember {
		o.Count("invite.type-not-member." + strings.SplitN(res, ":sig", 2)[0])
	}
	if i < 2 || (i == 1000 && fix.ver == "10" && fix.forge == "otherkey") {
		o.Sample("invite " + ver + " type=" + typ + " planted=" + forge + " membership=" + membership + " -> " + res)
	}
}

// ---------------------------------------------------------------- PerformJoin

var hsRemoteKey = hsKey("remote")

// hsKeyDB answers every key request with the one "remote" key (all generated events are signed with it).
type hsKeyDB struct{}

func (hsKeyDB) FetcherName() string { return "hsKeyDB" }
func (hsKeyDB) FetchKeys(ctx context.Context, requests map[gmsl.PublicKeyLookupRequest]spec.Timestamp) (map[gmsl.PublicKeyLookupRequest]gmsl.PublicKeyLookupResult, error) {
	res := map[gmsl.PublicKeyLookupRequest]gmsl.PublicKeyLookupResult{}
	for req := range requests {
		res[req] = gmsl.PublicKeyLookupResult{
			VerifyKey:    gmsl.VerifyKey{Key: spec.Base64Bytes(hsRemoteKey.Public().(ed25519.PublicKey))},
			ValidUntilTS: spec.Timestamp(4102444800000), // 2100-01-01
			ExpiredTS:    gmsl.PublicKeyNotExpired,
		}
	}
	return res, nil
}
func (hsKeyDB) StoreKeys(ctx context.Context, results map[gmsl.PublicKeyLookupRequest]gmsl.PublicKeyLookupResult) error {
	return nil
}

type hsMakeJoinResp struct {
	ver   gmsl.RoomVersion
	proto gmsl.ProtoEvent
}

func (r *hsMakeJoinResp) GetJoinEvent() gmsl.ProtoEvent    { return r.proto }
func (r *hsMakeJoinResp) GetRoomVersion() gmsl.RoomVersion { return r.ver }

type hsSendJoinResp struct {
	auth, state gmsl.EventJSONs
	event       spec.RawJSON
}

func (r *hsSendJoinResp) GetAuthEvents() gmsl.EventJSONs  { return r.auth }
func (r *hsSendJoinResp) GetStateEvents() gmsl.EventJSONs { return r.state }
func (r *hsSendJoinResp) GetOrigin() spec.ServerName      { return "hs1" }
func (r *hsSendJoinResp) GetJoinEvent() spec.RawJSON      { return r.event }
func (r *hsSendJoinResp) GetMembersOmitted() bool         { return false }
func (r *hsSendJoinResp) GetServersInRoom() []string      { return []string{"hs1"} }

type hsJoinClient struct {
	mjErr, sjErr bool
	mj           *hsMakeJoinResp
	sj           *hsSendJoinResp
	sent         gmsl.PDU
}

func (c *hsJoinClient) MakeJoin(ctx context.Context, origin, s spec.ServerName, roomID, userID string) (gmsl.MakeJoinResponse, error) {
	if c.mjErr {
		return nil, errors.New("make_join failed (scripted)")
	}
	return c.mj, nil
}
func (c *hsJoinClient) SendJoin(ctx context.Context, origin, s spec.ServerName, event gmsl.PDU) (gmsl.SendJoinResponse, error) {
	c.sent = event
	if c.sjErr {
		return nil, errors.New("send_join failed (scripted)")
	}
	return c.sj, nil
}

const hsJoiner = "@newcomer:hs5"

// handshake.performjoin ver mjmode mjver pool auth state badsig prov sjmode remote joinAuth roomID
func execPerformJoin(args []string) (res string) {
	defer func() {
		if r := recover(); r != nil {
			if _, ok := r.(fcDiverge); ok {
				// regression guard for 778c3d3: reported in the panic class so that it is always a concrete violation
				res = "panic:nontermination:scripted provider called more than " + strconv.Itoa(fcMaxCalls) + " times (checkAllowedByAuthEvents retry loop)"
				return
			}
			panic(r)
		}
	}()
	ver := args[0]
	env, err := newFcEnv(ver, args[3])
	if err != nil {
		return "err:construct"
	}
	keyRing := &gmsl.KeyRing{KeyFetchers: nil, KeyDatabase: hsKeyDB{}}
	// the declared signature faults must be what the key ring finds
	bad := map[int]bool{}
	for _, i := range natList(args[6]) {
		bad[i] = true
	}
	for i, e := range env.pool {
		verr := gmsl.VerifyEventSignatures(context.Background(), e, keyRing, StdQuerier)
		if (verr != nil) != bad[i] {
			// an event sharing its ID (and redacted form) with a declared one has the same verdict
			same := false
			for j := range bad {
				if env.pool[j].EventID() == e.EventID() {
					same = true
				}
			}
			if !same || verr == nil {
				return "err:construct:sig " + strconv.Itoa(i)
			}
		}
	}
	auth, err := env.raws(args[4])
	if err != nil {
		return "err:construct:" + err.Error()
	}
	state, err := env.raws(args[5])
	if err != nil {
		return "err:construct:" + err.Error()
	}
	userID, _ := spec.NewUserID(hsJoiner, true)
	roomID, err := spec.NewRoomID(string(unhx(args[11])))
	if err != nil {
		return "err:construct:room"
	}
	var authIDs []string
	for _, i := range natList(args[10]) {
		authIDs = append(authIDs, env.pool[i].EventID())
	}
	f, _ := verFormat(ver)
	var authRefs, prevRefs interface{}
	if f == 1 {
		ar := []interface{}{}
		for _, id := range authIDs {
			ar = append(ar, []interface{}{id, map[string]interface{}{"sha256": "47DEQpj8HBSa+/TImW+5JCeuQeRkm5NMpJWZG3hSuFU"}})
		}
		authRefs = ar
		prevRefs = []interface{}{[]interface{}{"$prev:hs1", map[string]interface{}{"sha256": "47DEQpj8HBSa+/TImW+5JCeuQeRkm5NMpJWZG3hSuFU"}}}
	} else {
		ar := []interface{}{}
		for _, id := range authIDs {
			ar = append(ar, id)
		}
		authRefs = ar
		prevRefs = []interface{}{"$prev:hs1"}
	}
	sk := hsJoiner
	client := &hsJoinClient{mjErr: args[1] == "err", sjErr: args[8] == "err",
		mj: &hsMakeJoinResp{ver: gmsl.RoomVersion(args[2]), proto: gmsl.ProtoEvent{
			SenderID: hsJoiner, RoomID: "!wrong:room", Type: "m.room.message", StateKey: &sk, Redacts: "$x",
			PrevEvents: prevRefs, AuthEvents: authRefs, Depth: 20, Content: spec.RawJSON(`{"membership":"join"}`)}},
		sj: &hsSendJoinResp{auth: toEventJSONs(auth), state: toEventJSONs(state)}}
	switch {
	case args[9] == "-":
	case args[9] == "x":
		client.sj.event = spec.RawJSON(`{"type":`)
	default:
		raws, err := env.raws(args[9])
		if err != nil {
			return "err:construct:" + err.Error()
		}
		client.sj.event = spec.RawJSON(raws[0])
	}
	out, ferr := gmsl.PerformJoin(context.Background(), client, gmsl.PerformJoinInput{
		UserID: userID, RoomID: roomID, ServerName: "hs1", Content: map[string]interface{}{"displayname": "n"},
		PrivateKey: hsRemoteKey, KeyID: "ed25519:1", KeyRing: keyRing, EventProvider: env.provider(args[7]), UserIDQuerier: StdQuerier,
		GetOrCreateSenderID: func(ctx context.Context, userID spec.UserID, roomID spec.RoomID, roomVersion string) (spec.SenderID, ed25519.PrivateKey, error) {
			return spec.SenderID(userID.String()), hsRemoteKey, nil
		},
		StoreSenderIDFromPublicID: func(ctx context.Context, senderID spec.SenderID, userID string, id spec.RoomID) error { return nil },
	})
	if ferr != nil {
		m := ferr.Err.Error()
		switch {
		case strings.HasPrefix(m, "r.federation.MakeJoin"):
			return "err:make_join"
		case strings.HasPrefix(m, "r.federation.SendJoin"):
			return "err:send_join"
		case strings.HasPrefix(m, "respMakeJoin.JoinEvent"):
			return "err:build"
		case strings.HasPrefix(m, "sanityCheckAuthChain"):
			return "err:no-create"
		case strings.HasPrefix(m, "respSendJoin.Check"):
			return "err:check"
		}
		if _, ok := ferr.Err.(gmsl.UnsupportedRoomVersionError); ok {
			return "err:version"
		}
		return "err:other"
	}
	used := "built"
	if client.sent == nil || out.JoinEvent.EventID() != client.sent.EventID() {
		used = "remote"
	}
	rv := gmsl.RoomVersion(ver)
	return "ok:" + used + ":" + env.showEvs(out.StateSnapshot.GetAuthEvents().TrustedEvents(rv, false)) + "|" +
		env.showEvs(out.StateSnapshot.GetStateEvents().TrustedEvents(rv, false))
}

// signReal replaces the placeholder signature of a generated event by a real one of its sender's server.
func signReal(ver string, e *Ev) *Ev {
	var m map[string]json.RawMessage
	if json.Unmarshal(e.JSON, &m) != nil {
		return nil
	}
	delete(m, "signatures")
	raw, _ := json.Marshal(m)
	cj, err := gmsl.CanonicalJSON(raw)
	if err != nil {
		return nil
	}
	impl := gmsl.MustGetRoomVersion(gmsl.RoomVersion(ver))
	pdu, err := impl.NewEventFromTrustedJSONWithEventID(e.ID, cj, false)
	if err != nil {
		return nil
	}
	dom := domainOf(string(pdu.SenderID()))
	signed := pdu.Sign(dom, "ed25519:1", hsRemoteKey)
	back, err := impl.NewEventFromUntrustedJSON(signed.JSON())
	if err != nil || back.EventID() != e.ID {
		return nil
	}
	return &Ev{PDU: back, ID: back.EventID(), JSON: back.JSON()}
}

func genPerformJoin(o *Out, r *Rng, i int) {
	ver := Pick(r, hsVersions)
	mode := Pick(r, fcProvModes)
	faults := pickFaults(r)
	if r.Chance(8) {
		fcCreateVersionOverride = Pick(r, []interface{}{"99", 5, "", nil})
	}
	sc := fcStateScenario(r, ver, faults, mode)
	fcCreateVersionOverride = nil
	if sc == nil {
		o.Count("gen-failed")
		return
	}
	rm := sc.rm
	if r.Chance(8) { // the auth events of the response lack the create event
		var a []string
		for _, t := range sc.auth {
			if t != rm.tok(rm.create) {
				a = append(a, t)
			}
		}
		sc.auth = a
	}
	// the remote's copy of the join event, when it returns one
	remote := "-"
	switch r.Intn(6) {
	case 0:
		remote = "x"
	case 1: // a well-formed join of the same user: used instead of ours
		if e := rm.send(spec.MRoomMember, hsJoiner, sp(hsJoiner), map[string]interface{}{"membership": "join", "displayname": "theirs"}, false, nil); e != nil {
			remote = rm.tok(e)
		}
	case 2: // not a join / another user / another room: ignored
		switch r.Intn(3) {
		case 0:
			if e := rm.send(spec.MRoomMember, hsJoiner, sp(hsJoiner), map[string]interface{}{"membership": "leave"}, false, nil); e != nil {
				remote = rm.tok(e)
			}
		case 1:
			if e := rm.send(spec.MRoomMember, "@other:hs5", sp("@other:hs5"), map[string]interface{}{"membership": "join"}, false, nil); e != nil {
				remote = rm.tok(e)
			}
		default:
			remote = rm.tok(rm.history[0])
		}
	}
	// what the make_join template cites
	var joinAuth []int
	for _, id := range rm.authFor(spec.MRoomMember, hsJoiner, sp(hsJoiner)) {
		for k, e := range rm.pool {
			if e.ID == id {
				joinAuth = append(joinAuth, k)
				break
			}
		}
	}
	if r.Chance(10) && len(joinAuth) > 0 {
		joinAuth = joinAuth[1:]
	}
	// real signatures for everything except the declared signature faults
	bad := map[int]bool{}
	for _, b := range sc.badsig {
		bad[b] = true
	}
	byID := map[string]bool{}
	for k := range bad {
		byID[rm.pool[k].ID] = true
	}
	for k, e := range rm.pool {
		if byID[e.ID] {
			continue
		}
		s := signReal(ver, e)
		if s == nil {
			// tampered copies are read back redacted: sign what the library reads
			o.Count("performjoin.gen-skip")
			return
		}
		rm.pool[k].PDU, rm.pool[k].JSON = s.PDU, s.JSON
	}
	var badAll []int
	for k, e := range rm.pool {
		if byID[e.ID] {
			badAll = append(badAll, k)
		}
	}
	mjmode := pickDev(r, 93, "ok", "err")
	sjmode := pickDev(r, 93, "ok", "err")
	mjver := pickDev(r, 90, ver, "99")
	if (ver == "1" || ver == "4") && len(joinAuth) > 0 && r.Chance(30) {
		mjver = ""
	}
	res := o.Do("performjoin", ver, mjmode, mjver, rm.poolArg(), joinOrDash(sc.auth, ","), joinOrDash(sc.state, ","), fcIdxList(badAll),
		sc.provArg(), sjmode, remote, fcIdxList(joinAuth), hx([]byte(rm.g.RoomID)))
	o.Count("performjoin." + strings.SplitN(strings.SplitN(res, "|", 2)[0], ":#", 2)[0])
	_ = sort.Strings
	_ = time.Now
}

// ---------------------------------------------------------------- HandleInviteV3

var hsInviteeKey = hsKey("invitee-room-key")

// handshake.invitev3 ver roomID protoRoom protoType membership sender(ok/err) big known stripped stateq cur
func execInviteV3(args []string) string {
	ver := args[0]
	roomID, err := spec.NewRoomID(string(unhx(args[1])))
	if err != nil {
		return "err:construct:room"
	}
	invited, _ := spec.NewUserID("@alice:hs1", true)
	inviterKey := hsKey("inviter-room-key")
	content := map[string]interface{}{"membership": args[4]}
	switch args[4] {
	case "~missing":
		delete(content, "membership")
	case "~num":
		content["membership"] = 5
	case "~null":
		content["membership"] = nil
	case "~variant": // the name under another spelling only: no membership for a reader of exact names
		delete(content, "membership")
		content["Membership"] = "invite"
	case "~variantafter": // {"membership":"leave","memberſhip":"invite"}: a leave
		content["membership"] = "leave"
		content["memberſhip"] = "invite"
	case "~variantbefore": // {"Membership":"leave","membership":"invite"}: an invite
		content["Membership"] = "leave"
		content["membership"] = "invite"
	}
	if args[6] == "1" {
		content["pad"] = strings.Repeat("x", 70000)
	}
	cj, _ := json.Marshal(content)
	if args[4] == "~notobject" {
		cj = []byte("5")
	}
	ptype := args[3]
	if ptype == "-" {
		ptype = ""
	}
	sk := "placeholder"
	proto := gmsl.ProtoEvent{SenderID: string(spec.SenderIDFromPseudoIDKey(inviterKey)), RoomID: string(unhx(args[2])), Type: ptype,
		StateKey: &sk, PrevEvents: []string{"$prev"}, AuthEvents: []string{}, Depth: 5, Content: cj}
	invitedSender := spec.SenderIDFromPseudoIDKey(hsInviteeKey)
	var stripped []gmsl.InviteStrippedState
	n, _ := strconv.Atoi(args[8])
	for i := 0; i < n; i++ {
		var ss gmsl.InviteStrippedState
		_ = json.Unmarshal([]byte(`{"type":"m.room.name","state_key":"","sender":"x","content":{"name":"n"}}`), &ss)
		stripped = append(stripped, ss)
	}
	// a state event for the state querier to hand out
	g := NewRoomGen(&Rng{s: 7}, "10")
	g.RoomID = "!room:hs2"
	stEv := g.Mk("m.room.name", "@bob:hs2", sp(""), map[string]interface{}{"name": "n"}, []string{}, []string{}, nil)
	out, err := gmsl.HandleInviteV3(context.Background(), gmsl.HandleInviteV3Input{
		HandleInviteInput: gmsl.HandleInviteInput{
			RoomID: *roomID, RoomVersion: gmsl.RoomVersion(ver), InvitedUser: *invited, InvitedSenderID: invitedSender,
			StrippedState: stripped, KeyID: hsKeyID, PrivateKey: hsLocalKey, Verifier: &hsVerifier{mode: "good"},
			RoomQuerier:       &hsRoomQuerier{known: args[7]},
			MembershipQuerier: &hsMembership{cur: args[10], check: true, wantRoom: roomID.String(), wantSender: invitedSender},
			StateQuerier:      &hsStateQuerier{mode: args[9], ev: stEv.PDU}, UserIDQuerier: StdQuerier,
		},
		InviteProtoEvent: proto,
		GetOrCreateSenderID: func(ctx context.Context, userID spec.UserID, roomID spec.RoomID, roomVersion string) (spec.SenderID, ed25519.PrivateKey, error) {
			if args[5] == "err" {
				return "", nil, errors.New("sender ID creation failed (scripted)")
			}
			return invitedSender, hsInviteeKey, nil
		},
	})
	if err != nil {
		return hsErrClass(err)
	}
	verImpl := gmsl.MustGetRoomVersion(gmsl.RoomVersion(ver))
	red, rerr := verImpl.RedactEventJSON(out.JSON())
	sig := "0"
	if rerr == nil && gmsl.VerifyJSON(string(invitedSender), "ed25519:1", hsInviteeKey.Public().(ed25519.PublicKey), red) == nil {
		sig = "1"
	}
	shape := "0"
	// the member named exactly "membership" (a map decode does not fold names)
	var c map[string]interface{}
	want := args[4]
	if want == "~variantbefore" {
		want = "invite"
	}
	if out.Type() == ptype && out.StateKeyEquals(string(invitedSender)) && out.RoomID().String() == roomID.String() &&
		json.Unmarshal(out.Content(), &c) == nil && (c["membership"] == want || strings.HasPrefix(want, "~")) && string(out.SenderID()) == proto.SenderID {
		shape = "1"
	}
	var u struct {
		Unsigned struct {
			S json.RawMessage `json:"invite_room_state"`
		} `json:"unsigned"`
	}
	cnt := "?"
	if json.Unmarshal(out.JSON(), &u) == nil {
		var arr []json.RawMessage
		if strings.HasPrefix(string(u.Unsigned.S), "{") {
			cnt = "0"
		} else if json.Unmarshal(u.Unsigned.S, &arr) == nil {
			cnt = strconv.Itoa(len(arr))
		}
	}
	return "ok:sig=" + sig + ":shape=" + shape + ":stripped=" + cnt
}

func genInviteV3(o *Out, r *Rng, i int) { genInviteV3Fix(o, r, i, hsFix{}, "") }

// genInviteV3Fixed: every proto event that is not an invite — each wrong type with membership "invite", each other
// membership (incl. absent / null / non-string / content that is no object) with type m.room.member — alone on the
// otherwise accepting path.
func genInviteV3Fixed(o *Out, r *Rng) {
	for _, typ := range append([]string{"m.room.power_levels", "m.room.message"}, hsWrongTypes...) {
		genInviteV3Fix(o, r, 1000, hsFix{typ: "t:" + typ, happy: true}, "")
	}
	for _, m := range []string{"join", "leave", "ban", "knock", "Invite", "~missing", "~null", "~num", "~notobject", "~variant", "~variantafter", "~variantbefore"} {
		genInviteV3Fix(o, r, 1000, hsFix{happy: true}, m)
	}
}

func genInviteV3Fix(o *Out, r *Rng, i int, fix hsFix, fixMembership string) {
	pq := func(q int) int {
		if fix.happy {
			return 100
		}
		return q
	}
	ver := pickDev(r, pq(85), "org.matrix.msc4014", "99", "", "10", "12")
	p := pq(85)
	room := "!room:hs2"
	protoRoom := pickDev(r, p, room, "!elsewhere:hs2")
	typ := pickDev(r, pq(88), spec.MRoomMember, "m.room.power_levels", "m.room.message", "x.custom", "m.room.Member", "-")
	if strings.HasPrefix(fix.typ, "t:") {
		typ = fix.typ[2:]
		if typ == "" {
			typ = "-"
		}
	}
	membership := pickDev(r, p, "invite", "join", "leave", "ban", "knock", "Invite", "~missing", "~null", "~num", "~notobject", "~variant", "~variantafter", "~variantbefore")
	if fixMembership != "" {
		membership = fixMembership
	}
	sender := pickDev(r, pq(92), "ok", "err")
	big := pickDev(r, pq(93), "0", "1")
	known := pickDev(r, pq(60), "1", "0", "err")
	stripped := pickDev(r, pq(50), "0", "1", "3")
	stateq := pickDev(r, pq(70), "2", "0", "err")
	cur := pickDev(r, pq(70), "m:leave", "m:join", "m:invite", "m:", "err")
	res := o.Do("invitev3", ver, hx([]byte(room)), hx([]byte(protoRoom)), typ, membership, sender, big, known, stripped, stateq, cur)
	o.Count("invitev3." + res)
	if typ != spec.MRoomMember || (membership != "invite" && membership != "~variantbefore") {
		o.Count("invitev3.not-an-invite." + res)
	}
	if i == 1000 && (fix.typ == "t:m.room.power_levels" || fixMembership == "join") {
		o.Sample("invitev3 type=" + typ + " membership=" + membership + " -> " + res)
	}
}
