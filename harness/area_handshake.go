package main

// Area handshake (C15): HandleMakeJoin, HandleMakeLeave, HandleSendJoin, HandleInvite, PerformJoin run with
// mock queriers / verifiers / federation clients built from the op line. Argument encodings are
// documented at the top of lean/VDriver/Handshake.lean. PerformInvite and the pseudo-ID path of HandleSendJoin:
// area_handshake_invite.go (encodings: lean/VDriver/HandshakeInvite.lean).

import (
	"bytes"
	"context"
	"crypto/ed25519"
	"crypto/sha256"
	"encoding/base64"
	"encoding/json"
	"errors"
	"sort"
	"strconv"
	"strings"
	"time"

	gmsl "github.com/matrix-org/gomatrixserverlib"
	"github.com/matrix-org/gomatrixserverlib/fclient"
	"github.com/matrix-org/gomatrixserverlib/spec"
)

func init() { areas["handshake"] = Area{Gen: genHandshake, Exec: execHandshake} }

var hsKeyID = gmsl.KeyID("ed25519:k1")

func hsKey(name string) ed25519.PrivateKey {
	seed := sha256.Sum256([]byte("verif-key-" + name))
	return ed25519.NewKeyFromSeed(seed[:])
}

var hsLocalKey = hsKey("local")

// ---------------------------------------------------------------- mocks

// hsVerifier is the caller's JSONVerifier.  `mode` scripts the answer (good / bad / err).  With `check` set the answer
// "good" is given only to the question the property is about — does `wantName` have a valid signature on `wantMsg` (the
// redacted event) at the event's timestamp — and every other question (another server name, another message, another time,
// more or fewer requests than one) is answered "bad": that server did not sign that.
type hsVerifier struct {
	mode     string
	check    bool
	wantName spec.ServerName
	wantMsg  []byte
	wantTS   spec.Timestamp
}

func (v *hsVerifier) VerifyJSONs(ctx context.Context, reqs []gmsl.VerifyJSONRequest) ([]gmsl.VerifyJSONResult, error) {
	if v.mode == "err" {
		return nil, errors.New("verifier unavailable (scripted)")
	}
	res := make([]gmsl.VerifyJSONResult, len(reqs))
	for i, rq := range reqs {
		switch {
		case v.mode == "bad":
			res[i].Error = errors.New("bad signature (scripted)")
		case v.check && (len(reqs) != 1 || rq.ServerName != v.wantName || !bytes.Equal(rq.Message, v.wantMsg) || rq.AtTS != v.wantTS || rq.ValidityCheckingFunc == nil):
			res[i].Error = errors.New("not the (server, message, time) the scripted signature is for")
		}
	}
	return res, nil
}

// hsMembershipFor: the checking membership querier for a join event — the target is the event's sender (= its state key).
func hsMembershipFor(cur string, roomID spec.RoomID, ev gmsl.PDU) *hsMembership {
	if ev == nil {
		return &hsMembership{cur: cur}
	}
	return &hsMembership{cur: cur, check: true, wantRoom: roomID.String(), wantSender: ev.SenderID()}
}

// hsVerifierFor: the checking verifier for one event — the signature scripted as good is `name`'s over the redacted event.
func hsVerifierFor(mode string, verImpl gmsl.IRoomVersion, ev gmsl.PDU, name spec.ServerName) *hsVerifier {
	v := &hsVerifier{mode: mode}
	if verImpl == nil || ev == nil {
		return v
	}
	red, err := verImpl.RedactEventJSON(ev.JSON())
	if err != nil {
		return v
	}
	v.check, v.wantName, v.wantMsg, v.wantTS = true, name, red, ev.OriginServerTS()
	return v
}

// hsMembership is the caller's MembershipQuerier.  `cur` scripts the answer ("err" | "m:<membership>").  With `check` set
// the scripted membership is that of (`wantRoom`, `wantSender`) — the user the property's "target" clause is about; a
// question about any other room or user fails (the handler then answers with an internal error, which the model does not).
//
// `others` (round 5): the querier answers per (room, sender ID).  When set ("m:<membership>") it is the membership of every
// OTHER sender ID of `wantRoom`: the scripted `cur` stays the membership of the event's target only, so that a handler asking
// about somebody else — the invited user it was handed instead of the event's state key (HandleInvite), the caller's
// `InvitedSenderID` instead of the ID `GetOrCreateSenderID` returned (HandleInviteV3) — gets that somebody's membership.
type hsMembership struct {
	cur        string
	check      bool
	wantRoom   string
	wantSender spec.SenderID
	others     string
}

func (m *hsMembership) CurrentMembership(ctx context.Context, roomID spec.RoomID, senderID spec.SenderID) (string, error) {
	if m.cur == "err" {
		return "", errors.New("membership query failed (scripted)")
	}
	if m.check && m.others != "" && roomID.String() == m.wantRoom && senderID != m.wantSender {
		return m.others[2:], nil
	}
	if m.check && (roomID.String() != m.wantRoom || senderID != m.wantSender) {
		return "", errors.New("membership asked for another (room, user) than the target of the event")
	}
	return m.cur[2:], nil
}

func hsUserQuerier(mode string) spec.UserIDForSender {
	if mode == "nil" {
		// no user for this sender ID and no error: what the repository's own test queriers answer for an unknown sender
		return func(roomID spec.RoomID, senderID spec.SenderID) (*spec.UserID, error) { return nil, nil }
	}
	if mode == "err" {
		return func(roomID spec.RoomID, senderID spec.SenderID) (*spec.UserID, error) {
			return nil, errors.New("sender lookup failed (scripted)")
		}
	}
	return StdQuerier
}

func hsErrClass(err error) string {
	switch e := err.(type) {
	case nil:
		return "ok"
	case spec.MatrixError:
		return "err:" + string(e.ErrCode)
	case spec.IncompatibleRoomVersionError:
		return "err:" + string(e.MatrixError.ErrCode)
	case spec.InternalServerError:
		return "err:internal"
	}
	return "err:other"
}

// sigReport checks the returned event: a VALID signature of `signer` under the local key ID, verified with the real local
// public key over the redacted form of the returned event (an entry that merely exists under that name does not count),
// and that the returned event is the received one apart from that one signature slot (and the unsigned section): the
// slot (signer, local key ID) is removed from both before they are compared, so a received event that already carries an
// entry there — necessarily not ours — is treated like any other.
func sigReport(ver gmsl.IRoomVersion, in []byte, out gmsl.PDU, signer string) string {
	red, err := ver.RedactEventJSON(out.JSON())
	sig := "0"
	if err == nil && gmsl.VerifyJSON(signer, hsKeyID, hsLocalKey.Public().(ed25519.PublicKey), red) == nil {
		sig = "1"
	}
	strip := func(b []byte) string {
		var m map[string]json.RawMessage
		if json.Unmarshal(b, &m) != nil {
			return "?"
		}
		delete(m, "unsigned")
		var sigs map[string]map[string]json.RawMessage
		if json.Unmarshal(m["signatures"], &sigs) == nil {
			delete(sigs[signer], string(hsKeyID))
			if len(sigs[signer]) == 0 {
				delete(sigs, signer)
			}
			if len(sigs) == 0 {
				delete(m, "signatures")
			} else {
				m["signatures"], _ = json.Marshal(sigs)
			}
		}
		o, _ := json.Marshal(m)
		c, _ := gmsl.CanonicalJSON(o)
		return string(c)
	}
	unmod := "0"
	if strip(in) == strip(out.JSON()) {
		unmod = "1"
	}
	return ":sig=" + sig + ":unmod=" + unmod + ":signer=" + signer
}

type hsRestrictedQuerier struct {
	ver                 string
	jr, pl, create, pnd string
	rooms               map[string][2]string // roomID -> (state, users)
}

func hsQEvent(ver, s string) (gmsl.PDU, error) {
	switch s {
	case "err":
		return nil, errors.New("state query failed (scripted)")
	case "nil":
		return nil, nil
	}
	return parseEvArg(ver, s)
}

func (q *hsRestrictedQuerier) CurrentStateEvent(ctx context.Context, roomID spec.RoomID, eventType string, stateKey string) (gmsl.PDU, error) {
	switch eventType {
	case spec.MRoomJoinRules:
		return hsQEvent(q.ver, q.jr)
	case spec.MRoomPowerLevels:
		return hsQEvent(q.ver, q.pl)
	case spec.MRoomCreate:
		return hsQEvent(q.ver, q.create)
	}
	return nil, nil
}

func (q *hsRestrictedQuerier) InvitePending(ctx context.Context, roomID spec.RoomID, senderID spec.SenderID) (bool, error) {
	if q.pnd == "err" {
		return false, errors.New("invite query failed (scripted)")
	}
	return q.pnd == "1", nil
}

func (q *hsRestrictedQuerier) RestrictedRoomJoinInfo(ctx context.Context, roomID spec.RoomID, senderID spec.SenderID, localServerName spec.ServerName) (*gmsl.RestrictedRoomJoinInfo, error) {
	ent, ok := q.rooms[roomID.String()]
	if !ok || ent[0] == "nil" {
		return nil, nil
	}
	if ent[0] == "err" {
		return nil, errors.New("room info failed (scripted)")
	}
	info := &gmsl.RestrictedRoomJoinInfo{LocalServerInRoom: ent[0][0] == '1', UserJoinedToRoom: ent[0][1] == '1'}
	for _, a := range splitList(ent[1], ",") {
		e, err := parseEvArg(q.ver, a)
		if err == nil {
			info.JoinedUsers = append(info.JoinedUsers, e)
		}
	}
	return info, nil
}

// hsSeenProto is what the BuildEventTemplate callback was shown: the event that was built from it is the one the auth check
// ran on, so the proto event the handler RETURNS must still be this one ("the resulting event passes the auth rules").
type hsSeenProto struct {
	called   bool
	p        gmsl.ProtoEvent
	stateKey *string
}

func (sp *hsSeenProto) same(p gmsl.ProtoEvent) bool {
	if !sp.called {
		return false
	}
	skEq := (p.StateKey == nil) == (sp.stateKey == nil) && (p.StateKey == nil || *p.StateKey == *sp.stateKey)
	return skEq && p.Type == sp.p.Type && p.SenderID == sp.p.SenderID && p.RoomID == sp.p.RoomID && p.Redacts == sp.p.Redacts &&
		p.Depth == sp.p.Depth && bytes.Equal(p.Content, sp.p.Content) && bytes.Equal(p.Unsigned, sp.p.Unsigned) && bytes.Equal(p.Signature, sp.p.Signature)
}

// hsTemplate is the BuildEventTemplate callback: it builds the event from the proto event the handler hands over.
func hsTemplate(ver, tmode, tstate string, seen *hsSeenProto) func(*gmsl.ProtoEvent) (gmsl.PDU, []gmsl.PDU, error) {
	return func(p *gmsl.ProtoEvent) (gmsl.PDU, []gmsl.PDU, error) {
		if seen != nil {
			seen.called, seen.p = true, *p
			seen.p.Content = append(spec.RawJSON{}, p.Content...)
			if p.StateKey != nil {
				k := *p.StateKey
				seen.stateKey = &k
			}
		}
		if tmode == "err" {
			return nil, nil, errors.New("template builder failed (scripted)")
		}
		state := []gmsl.PDU{}
		for _, a := range splitList(tstate, ",") {
			e, err := parseEvArg(ver, a)
			if err != nil {
				return nil, nil, err
			}
			state = append(state, e)
		}
		if tmode == "nilev" {
			return nil, state, nil
		}
		typ := p.Type
		if tmode == "wrongtype" {
			typ = "m.room.message"
		}
		f, _ := verFormat(ver)
		var prev interface{} = []string{"$prev:hs1"}
		if f == 1 {
			prev = []interface{}{[]interface{}{"$prev:hs1", map[string]string{"sha256": "47DEQpj8HBSa+/TImW+5JCeuQeRkm5NMpJWZG3hSuFU"}}}
		}
		m := map[string]interface{}{"type": typ, "sender": p.SenderID, "room_id": p.RoomID, "content": json.RawMessage(p.Content),
			"depth": 10, "origin_server_ts": 1, "prev_events": prev, "auth_events": []string{}}
		if p.StateKey != nil {
			m["state_key"] = *p.StateKey
		}
		raw, _ := json.Marshal(m)
		cj, err := gmsl.CanonicalJSON(raw)
		if err != nil {
			return nil, nil, err
		}
		ev, err := gmsl.MustGetRoomVersion(gmsl.RoomVersion(ver)).NewEventFromTrustedJSONWithEventID("$template:hs1", cj, false)
		if err != nil {
			return nil, nil, err
		}
		if tmode == "nilstate" {
			return ev, nil, nil
		}
		return ev, state, nil
	}
}

// ---------------------------------------------------------------- exec

func execHandshake(op string, args []string) string {
	ctx := context.Background()
	switch op {
	case "sendjoin":
		// ver cls ev evType roomID reqEventID origin local senderQ verify cur
		ver, cls := args[0], args[1]
		var raw []byte
		if cls == "x" {
			raw = []byte(`{"type":"m.room.member"`)
		} else {
			i := strings.IndexByte(args[2], ':')
			raw = unhx(args[2][i+1:])
		}
		verImpl, verr := gmsl.GetRoomVersion(gmsl.RoomVersion(ver))
		var parsed gmsl.PDU
		if verr == nil && cls != "x" {
			// the op's class and event must be what the library makes of the raw message
			ev, err := verImpl.NewEventFromUntrustedJSON(raw)
			got := "x"
			if err == nil {
				got = "o"
			} else if ve, ok := err.(gmsl.EventValidationError); ok && ve.Persistable && ev != nil {
				got = "p"
			}
			if got != cls {
				return "err:construct:class " + got
			}
			want, _ := parseEvArg(ver, args[2])
			if want == nil || ev.EventID() != want.EventID() || string(ev.JSON()) != string(want.JSON()) {
				return "err:construct:reparse"
			}
			// the declared event type is the one the accessor reports
			if ev.Type() != string(unhx(args[3])) {
				return "err:construct:type"
			}
			parsed = ev
		}
		roomID, err := spec.NewRoomID(string(unhx(args[4])))
		if err != nil {
			return "err:construct:room"
		}
		origin, local := spec.ServerName(args[6]), args[7]
		// the signature scripted by `verify` is the REQUESTING server's, over the redacted event
		resp, err := gmsl.HandleSendJoin(gmsl.HandleSendJoinInput{
			Context: ctx, RoomID: *roomID, EventID: string(unhx(args[5])), JoinEvent: raw,
			RoomVersion: gmsl.RoomVersion(ver), RequestOrigin: origin, LocalServerName: spec.ServerName(local),
			KeyID: hsKeyID, PrivateKey: hsLocalKey, Verifier: hsVerifierFor(args[9], verImpl, parsed, origin),
			MembershipQuerier: hsMembershipFor(args[10], *roomID, parsed), UserIDQuerier: hsUserQuerier(args[8]),
			StoreSenderIDFromPublicID: func(ctx context.Context, senderID spec.SenderID, userID string, id spec.RoomID) error { return nil },
		})
		if err != nil {
			return hsErrClass(err)
		}
		aj := "0"
		if resp.AlreadyJoined {
			aj = "1"
		}
		in, _ := verImpl.NewEventFromUntrustedJSON(raw)
		return "ok:aj=" + aj + sigReport(verImpl, in.JSON(), resp.JoinEvent, local)
	case "makejoin":
		ver := args[0]
		userID, err := spec.NewUserID(args[2], true)
		if err != nil {
			return "err:construct:user"
		}
		roomID, err := spec.NewRoomID(string(unhx(args[6])))
		if err != nil {
			return "err:construct:room"
		}
		var remote []gmsl.RoomVersion
		for _, v := range splitList(args[1], ",") {
			remote = append(remote, gmsl.RoomVersion(v))
		}
		q := &hsRestrictedQuerier{ver: ver, jr: args[7], pnd: args[8], pl: args[9], create: args[10], rooms: map[string][2]string{}}
		for _, ent := range splitList(args[11], "|") {
			p := strings.Split(ent, ";")
			if len(p) == 3 {
				if _, dup := q.rooms[string(unhx(p[0]))]; !dup {
					q.rooms[string(unhx(p[0]))] = [2]string{p[1], p[2]}
				}
			}
		}
		var seen hsSeenProto
		resp, err := gmsl.HandleMakeJoin(gmsl.HandleMakeJoinInput{
			Context: ctx, UserID: *userID, SenderID: spec.SenderID(args[2]), RoomID: *roomID, RoomVersion: gmsl.RoomVersion(ver),
			RemoteVersions: remote, RequestOrigin: spec.ServerName(args[3]), LocalServerName: spec.ServerName(args[4]),
			LocalServerInRoom: args[5] == "1", RoomQuerier: q, UserIDQuerier: StdQuerier,
			BuildEventTemplate: hsTemplate(ver, args[12], args[13], &seen),
		})
		if err != nil {
			return hsErrClass(err)
		}
		var c struct {
			Membership string `json:"membership"`
			Via        string `json:"join_authorised_via_users_server"`
		}
		p := resp.JoinTemplateEvent
		if json.Unmarshal(p.Content, &c) != nil || c.Membership != "join" || p.Type != spec.MRoomMember || p.SenderID != args[2] ||
			p.StateKey == nil || *p.StateKey != args[2] || p.RoomID != roomID.String() || string(resp.RoomVersion) != ver {
			return "ok-bad-proto"
		}
		// the returned proto event is the one the template builder was shown (and built the auth-checked event from)
		if !seen.same(p) {
			return "ok-proto-not-the-checked-one"
		}
		return "ok:via=" + c.Via
	case "makeleave":
		ver := args[0]
		userID, err := spec.NewUserID(args[1], true)
		if err != nil {
			return "err:construct:user"
		}
		roomID, err := spec.NewRoomID(string(unhx(args[4])))
		if err != nil {
			return "err:construct:room"
		}
		var seen hsSeenProto
		resp, err := gmsl.HandleMakeLeave(gmsl.HandleMakeLeaveInput{
			UserID: *userID, SenderID: spec.SenderID(args[1]), RoomID: *roomID, RoomVersion: gmsl.RoomVersion(ver),
			RequestOrigin: spec.ServerName(args[2]), LocalServerName: "local", LocalServerInRoom: args[3] == "1", UserIDQuerier: StdQuerier,
			BuildEventTemplate: hsTemplate(ver, args[5], args[6], &seen),
		})
		if err != nil {
			return hsErrClass(err)
		}
		var c struct {
			Membership string `json:"membership"`
		}
		p := resp.LeaveTemplateEvent
		if json.Unmarshal(p.Content, &c) != nil || c.Membership != "leave" || p.Type != spec.MRoomMember || p.SenderID != args[1] ||
			p.StateKey == nil || *p.StateKey != args[1] || p.RoomID != roomID.String() {
			return "ok-bad-proto"
		}
		if !seen.same(p) {
			return "ok-proto-not-the-checked-one"
		}
		return "ok"
	case "performjoin":
		return execPerformJoin(args)
	case "performjoin_adopt":
		return execPerformJoinAdopt(args)
	case "performjoin_bodies":
		return execPerformJoinBodies(args)
	case "performjoin_pseudo":
		return execPerformJoinPseudo(args)
	case "invitev3":
		return execInviteV3(args)
	case "perform_invite":
		return execPerformInvite(args)
	case "sendjoin_pseudo":
		return execSendJoinPseudo(args)
	case "invite":
		ver := args[0]
		ever := ver
		verImpl, verr := gmsl.GetRoomVersion(gmsl.RoomVersion(ver))
		if verr != nil {
			ever = "10"
			verImpl = gmsl.MustGetRoomVersion("10")
		}
		ev, err := parseEvArg(ever, args[1])
		if err != nil {
			return "err:construct"
		}
		roomID, err := spec.NewRoomID(string(unhx(args[2])))
		if err != nil {
			return "err:construct:room"
		}
		invited, err := spec.NewUserID(args[3], true)
		if err != nil {
			return "err:construct:user"
		}
		var stripped []gmsl.InviteStrippedState
		n, _ := strconv.Atoi(args[7])
		for i := 0; i < n; i++ {
			stripped = append(stripped, gmsl.NewInviteStrippedState(ev))
		}
		in := append([]byte{}, ev.JSON()...)
		// the signature scripted by `verify` is that of the SENDER's server (HandleInvite is given no request origin)
		var domOfSender spec.ServerName
		if u, uerr := StdQuerier(*roomID, ev.SenderID()); uerr == nil && u != nil {
			domOfSender = u.Domain()
		}
		// the TARGET of an invite is its state key: `cur` scripts the target's membership, every other sender ID of the
		// room — the invited user the handler is handed, when that is somebody else — is not joined ("leave")
		target := spec.SenderID(args[3])
		if ev.StateKey() != nil {
			target = spec.SenderID(*ev.StateKey())
		}
		// input.InvitedSenderID (optional 11th argument): "same" = the invited user's ID (default), "empty" = "" (what the
		// repository's own tests pass), "target" = the event's state key
		inputSID := spec.SenderID(args[3])
		if len(args) > 10 {
			switch args[10] {
			case "empty":
				inputSID = ""
			case "target":
				inputSID = target
			}
		}
		out, err := gmsl.HandleInvite(ctx, gmsl.HandleInviteInput{
			RoomID: *roomID, RoomVersion: gmsl.RoomVersion(ver), InvitedUser: *invited, InvitedSenderID: inputSID,
			InviteEvent: ev, StrippedState: stripped, KeyID: hsKeyID, PrivateKey: hsLocalKey, Verifier: hsVerifierFor(args[5], verImpl, ev, domOfSender),
			RoomQuerier:       &hsRoomQuerier{known: args[6]},
			MembershipQuerier: &hsMembership{cur: args[9], check: true, wantRoom: roomID.String(), wantSender: target, others: "m:leave"},
			StateQuerier:      &hsStateQuerier{mode: args[8], ev: ev}, UserIDQuerier: hsUserQuerier(args[4]),
		})
		if err != nil {
			return hsErrClass(err)
		}
		var u struct {
			Unsigned struct {
				S json.RawMessage `json:"invite_room_state"`
			} `json:"unsigned"`
		}
		cnt := "?"
		if json.Unmarshal(out.JSON(), &u) == nil {
			var arr []json.RawMessage
			if strings.HasPrefix(string(u.Unsigned.S), "{") {
				cnt = "0"
			} else if json.Unmarshal(u.Unsigned.S, &arr) == nil {
				cnt = strconv.Itoa(len(arr))
			}
		}
		return "ok" + sigReport(verImpl, in, out, string(invited.Domain())) + ":stripped=" + cnt
	}
	return "bad-op"
}

type hsRoomQuerier struct{ known string }

func (r *hsRoomQuerier) IsKnownRoom(ctx context.Context, roomID spec.RoomID) (bool, error) {
	if r.known == "err" {
		return false, errors.New("room query failed (scripted)")
	}
	return r.known == "1", nil
}

type hsStateQuerier struct {
	mode string
	ev   gmsl.PDU
}

func (s *hsStateQuerier) GetAuthEvents(ctx context.Context, event gmsl.PDU) (gmsl.AuthEventProvider, error) {
	return gmsl.NewAuthEvents(nil)
}
func (s *hsStateQuerier) GetState(ctx context.Context, roomID spec.RoomID, stateWanted []gmsl.StateKeyTuple) ([]gmsl.PDU, error) {
	if s.mode == "err" {
		return nil, errors.New("state query failed (scripted)")
	}
	n, _ := strconv.Atoi(s.mode)
	var out []gmsl.PDU
	for i := 0; i < n; i++ {
		out = append(out, s.ev)
	}
	return out, nil
}

// ---------------------------------------------------------------- generation

var hsVersions = []string{"1", "2", "3", "4", "5", "6", "7", "8", "9", "10", "11", "12", "org.matrix.hydra.11", "org.matrix.msc3667", "org.matrix.msc3787"}

// dev returns the index of the one parameter that deviates from the happy path (or -1), so that every
// guard is hit alone, plus random multi-deviations.
func genHandshake(o *Out, tier string, r *Rng) {
	n := 350
	if tier == "thorough" {
		n = 12000
	}
	genSendJoinFixed(o, r)
	for i := 0; i < n; i++ {
		genSendJoin(o, r, i)
	}
	for i := 0; i < n; i++ {
		genMakeJoin(o, r, i)
	}
	for i := 0; i < n/3; i++ {
		genMakeLeave(o, r, i)
	}
	genInviteFixed(o, r)
	for i := 0; i < n; i++ {
		genInvite(o, r, i)
	}
	for i := 0; i < n/2; i++ {
		genPerformJoin(o, r, i)
	}
	genPerformJoinAdopt(o, tier, r)
	genPerformJoinBodies(o, tier, r)
	genPerformJoinPseudo(o, tier, r)
	genInviteV3Fixed(o, r)
	for i := 0; i < n/3; i++ {
		genInviteV3(o, r, i)
	}
	genSendJoinPseudoFixed(o, r)
	for i := 0; i < n; i++ {
		genSendJoinPseudo(o, r, i)
	}
	genPerformInviteFixed(o, r)
	for i := 0; i < 2*n; i++ {
		genPerformInvite(o, r, i)
	}
}

// pickDev: with probability p keep the default (index 0), else one of the alternatives.
func pickDev[T any](r *Rng, p int, xs ...T) T {
	if r.Chance(p) {
		return xs[0]
	}
	return xs[r.Intn(len(xs))]
}

// hsWrongTypes: event types that are NOT m.room.member — a custom type, two other state event types, a case variant,
// the empty type.  With state_key == sender and content.membership == "join" each of them looks like a join to
// `Membership()`; HandleSendJoin must refuse them ("it is a join").
var hsWrongTypes = []string{"x.custom", "m.room.name", "m.room.create", "m.room.Member", ""}

// hsForgeClasses: what a received event may already carry in the signature slot (local server, local key ID) — the slot
// the handler's own signature goes to.  Whatever was there is not the local server's signature and must not come back as it.
//
//	junk     64 zero bytes            otherkey  a genuine ed25519 signature over the redacted event, made with ANOTHER key
//	short    3 bytes                  otherid   an entry under the local name but another key ID (must be left alone)
var hsForgeClasses = []string{"junk", "otherkey", "short", "otherid"}

var hsEvilKey = hsKey("evil")

// hsForge returns the event with an entry planted under the signing name the handler will use (nil if the library
// no longer reads it back as the same event).
func hsForge(ver string, e *Ev, cls, name string) *Ev {
	impl, err := gmsl.GetRoomVersion(gmsl.RoomVersion(ver))
	if err != nil || e == nil {
		return nil
	}
	keyID, sig := string(hsKeyID), ""
	switch cls {
	case "junk":
		sig = base64.RawStdEncoding.EncodeToString(make([]byte, 64))
	case "short":
		sig = "AAAA"
	case "otherid":
		keyID, sig = "ed25519:old", base64.RawStdEncoding.EncodeToString(make([]byte, 64))
	case "otherkey":
		var s struct {
			Signatures map[string]map[string]string `json:"signatures"`
		}
		if json.Unmarshal(e.PDU.Sign(name, hsKeyID, hsEvilKey).JSON(), &s) != nil {
			return nil
		}
		sig = s.Signatures[name][keyID]
	}
	var m map[string]json.RawMessage
	if sig == "" || json.Unmarshal(e.JSON, &m) != nil {
		return nil
	}
	sigs := map[string]map[string]json.RawMessage{}
	_ = json.Unmarshal(m["signatures"], &sigs)
	if sigs[name] == nil {
		sigs[name] = map[string]json.RawMessage{}
	}
	sigs[name][keyID], _ = json.Marshal(sig)
	m["signatures"], _ = json.Marshal(sigs)
	raw, _ := json.Marshal(m)
	cj, err := gmsl.CanonicalJSON(raw)
	if err != nil {
		return nil
	}
	back, err := impl.NewEventFromUntrustedJSON(cj)
	if err != nil || back.EventID() != e.ID {
		return nil
	}
	return &Ev{PDU: back, ID: back.EventID(), JSON: back.JSON()}
}

// hsRelaySigned: the event really signed by `origin` (its own key, key ID ed25519:1), with one more entry in `signatures` that no
// base64 reader decodes (a relay's PADDED signature).  Returns the event as the untrusted constructor reads it back and what the
// library's own VerifyJSON makes of origin's signature over the redacted event: the verdict the scripted verifier then plays.
// Whatever that verdict is, an accepted event must come back unmodified (all received signatures kept) - seeded change C15-r7m1.
func hsRelaySigned(ver string, e *Ev, origin string) (*Ev, string) {
	impl, err := gmsl.GetRoomVersion(gmsl.RoomVersion(ver))
	if err != nil || e == nil || e.PDU == nil {
		return nil, ""
	}
	key := hsKey(origin)
	var signed gmsl.PDU
	if r := Guard(func() string { signed = e.PDU.Sign(origin, "ed25519:1", key); return "" }); r != "" || signed == nil {
		return nil, ""
	}
	var m map[string]json.RawMessage
	if json.Unmarshal(signed.JSON(), &m) != nil {
		return nil, ""
	}
	sigs := map[string]map[string]json.RawMessage{}
	if json.Unmarshal(m["signatures"], &sigs) != nil {
		return nil, ""
	}
	sigs["relay.example"] = map[string]json.RawMessage{"ed25519:r": json.RawMessage(`"QUJDRA=="`)}
	m["signatures"], _ = json.Marshal(sigs)
	raw, _ := json.Marshal(m)
	cj, err := gmsl.CanonicalJSON(raw)
	if err != nil {
		return nil, ""
	}
	back, err := impl.NewEventFromUntrustedJSON(cj)
	if err != nil || back == nil || back.EventID() != e.ID {
		return nil, ""
	}
	red, err := impl.RedactEventJSON(back.JSON())
	if err != nil {
		return nil, ""
	}
	verdict := "bad"
	if gmsl.VerifyJSON(origin, "ed25519:1", key.Public().(ed25519.PublicKey), red) == nil {
		verdict = "good"
	}
	return &Ev{PDU: back, ID: back.EventID(), JSON: back.JSON()}, verdict
}

// hsFix pins parameters of a generated handshake op; with `happy` every other parameter stays on the accepting path.
type hsFix struct {
	ver, typ, forge string
	happy           bool
	// round 5: the user-ID querier's mode ("nil" = (nil, nil)), the invite's target ("localother": another local user than
	// the invited one), the target's membership, and input.InvitedSenderID ("same" / "empty" / "target" / "other")
	senderQ, target, cur, inputSID string
	// variant: a member-content name under another spelling ("alone": instead of the exact member, "after" / "before":
	// next to the exact member, which carries another value).  Member names are exact: Membership(), the decode of
	// MemberContent and the auth rules ignore the other spellings.
	variant string
	// relay: the event is really signed by the requesting server and carries an undecodable third-party signature
	relay bool
}

// hsMemberVariants: the spellings used by the fixed prologues (before / after the exact name in the marshalled map)
// "toplevel" / "toplevel-empty": no (an empty) content.membership and a `membership` member NEXT TO the content - the key the
// version 1 redaction algorithm keeps; what a member event is, is content.membership alone (seed C15-r5m2)
var hsVariantClasses = []string{"alone", "after", "before", "toplevel", "toplevel-empty"}

// hsVariantExtra: the top-level members a variant class adds to the event
func hsVariantExtra(class, good string) map[string]interface{} {
	if class == "toplevel" || class == "toplevel-empty" {
		return map[string]interface{}{"membership": good}
	}
	return nil
}

// hsApplyVariant rewrites the content of a join / invite (membership `good`) for a variant class: the reading by exact
// names is "no membership" (alone), `other` (after: {"membership":other,"memberſhip":good}) or still `good`
// (before: {"Membership":other,"membership":good}).
func hsApplyVariant(content map[string]interface{}, class, good, other string) {
	switch class {
	case "alone":
		delete(content, "membership")
		content["Membership"] = good
	case "after":
		content["membership"] = other
		content["memberſhip"] = good
	case "before":
		content["Membership"] = other
		content["membership"] = good
	case "toplevel":
		delete(content, "membership")
	case "toplevel-empty":
		content["membership"] = ""
	}
}

func genSendJoin(o *Out, r *Rng, i int) { genSendJoinFix(o, r, i, hsFix{}) }

// genSendJoinFixed: every room version x every wrong event type, and every room version x every class of planted local
// signature, each alone on the otherwise accepting path.
func genSendJoinFixed(o *Out, r *Rng) {
	for _, ver := range hsVersions {
		for _, typ := range hsWrongTypes {
			genSendJoinFix(o, r, 1000, hsFix{ver: ver, typ: "t:" + typ, happy: true})
		}
		for _, f := range hsForgeClasses {
			genSendJoinFix(o, r, 1000, hsFix{ver: ver, forge: f, happy: true})
		}
		for _, v := range hsVariantClasses {
			genSendJoinFix(o, r, 1000, hsFix{ver: ver, variant: v, happy: true})
		}
		// the user-ID querier knows no user for the sender and reports no error
		genSendJoinFix(o, r, 1000, hsFix{ver: ver, happy: true, senderQ: "nil"})
		genSendJoinFix(o, r, 1000, hsFix{ver: ver, happy: true, relay: true})
	}
}

func genSendJoinFix(o *Out, r *Rng, i int, fix hsFix) {
	ver := pickDev(r, 92, Pick(r, hsVersions), "99", "")
	if fix.ver != "" {
		ver = fix.ver
	}
	ever := ver
	if _, err := gmsl.GetRoomVersion(gmsl.RoomVersion(ver)); err != nil {
		ever = "10"
	}
	g := NewRoomGen(r, ever)
	origin := "hs2"
	local := "hs1"
	p := 88 // probability of keeping each parameter on the happy path
	if r.Chance(25) {
		p = 60
	}
	if fix.happy {
		p = 100
	}
	rare := func(pc int) bool { return !fix.happy && r.Chance(pc) }
	sender := pickDev(r, p, "@bob:hs2", "@carol:hs3", "@bob:hs1", "@bob:bad domain", "@"+strings.Repeat("é", 130)+":hs2")
	skMode := pickDev(r, p, "sender", "other", "empty", "none")
	var sk *string
	switch skMode {
	case "sender":
		sk = sp(sender)
	case "other":
		sk = sp("@dave:hs2")
	case "empty":
		sk = sp("")
	}
	// the event type: m.room.member, or (about one op in twelve, and in the fixed prologue) something else that still
	// has state_key == sender and content.membership == "join"
	typ := spec.MRoomMember
	if strings.HasPrefix(fix.typ, "t:") {
		typ = fix.typ[2:]
	} else if rare(8) {
		typ = Pick(r, hsWrongTypes)
	}
	content := map[string]interface{}{}
	switch pickDev(r, p, "join", "leave", "invite", "ban", "knock", "missing", "nonstring", "null") {
	case "missing":
	case "nonstring":
		content["membership"] = 5
	case "null":
		content["membership"] = nil
	case "join":
		content["membership"] = "join"
	default:
		content["membership"] = Pick(r, []string{"leave", "invite", "ban", "knock"})
	}
	switch pickDev(r, p, "none", "local", "remote", "invalid", "nonstring", "empty") {
	case "local":
		content["join_authorised_via_users_server"] = "@alice:hs1"
	case "remote":
		content["join_authorised_via_users_server"] = Pick(r, []string{"@alice:hs2", "@alice:hs1.evil", "@alice:hs1:8448"})
	case "invalid":
		content["join_authorised_via_users_server"] = Pick(r, []string{"alice", "@alice", "@:hs1", "@alice:bad domain"})
	case "nonstring":
		content["join_authorised_via_users_server"] = 7
	case "empty":
		content["join_authorised_via_users_server"] = ""
	}
	switch pickDev(r, max(p, 90), "none", "badname", "direct") {
	case "badname":
		content["displayname"] = 5
	case "direct":
		content["is_direct"] = "yes"
	}
	// member names under another spelling (ignored by every reader): the membership, and an authorising user of a
	// foreign server / an ill-typed display name that a folded reader would trip over
	variant := fix.variant
	if variant == "" && rare(6) {
		variant = Pick(r, hsVariantClasses)
	}
	if variant != "" {
		hsApplyVariant(content, variant, "join", "leave")
		o.Count("sendjoin.member-name-variant." + variant)
	}
	if rare(5) {
		content[Pick(r, []string{"Join_authorised_via_users_server", "join_authoriſed_via_users_server", "JOIN_AUTHORISED_VIA_USERS_SERVER"})] =
			Pick(r, []interface{}{"@alice:hs2", "alice", 7})
		o.Count("sendjoin.member-name-variant.via")
	}
	if rare(3) {
		content[Pick(r, []string{"Displayname", "Is_direct", "Third_party_invite", "Mxid_mapping", "reaſon"})] = 5
		o.Count("sendjoin.member-name-variant.ill-typed")
	}
	var contentV interface{} = content
	if rare(2) {
		contentV = Pick(r, []interface{}{nil, []int{1}, "x", 5})
	}
	evRoom := pickDev(r, p, "!room:hs1", "!other:hs1")
	g.RoomID = evRoom
	ev, cls := g.MkU(typ, sender, sk, contentV, []string{"$p:hs1"}, []string{}, hsVariantExtra(variant, "join"))
	// a planted entry in the slot the local signature goes to
	forge := fix.forge
	if forge == "" && rare(6) {
		forge = Pick(r, hsForgeClasses)
	}
	if forge != "" && ev != nil && cls == "o" {
		if f := hsForge(ever, ev, forge, local); f != nil {
			ev = f
			o.Count("sendjoin.planted-local-sig." + forge)
		} else {
			o.Count("sendjoin.planted-local-sig.gen-failed")
		}
	}
	evArg, id, typArg := "-", "$none", "-"
	if ev == nil {
		cls = "x"
	} else {
		evArg, id, typArg = ev.Arg(), ev.ID, hx([]byte(typ))
	}
	if rare(4) {
		cls, evArg, typArg = "x", "-", "-"
	}
	reqID := pickDev(r, p, id, "$different:hs2")
	senderQ := pickDev(r, max(p, 95), "ok", "err", "nil")
	if fix.senderQ != "" {
		senderQ = fix.senderQ
	}
	verify := pickDev(r, p, "good", "bad", "err")
	if (fix.relay || rare(4)) && ev != nil && cls == "o" && typ == spec.MRoomMember {
		if f, verdict := hsRelaySigned(ever, ev, domainOf(sender)); f != nil {
			ev, evArg, id = f, f.Arg(), f.ID
			if reqID != "$different:hs2" {
				reqID = id
			}
			if verify != "err" {
				verify = verdict
			}
			o.Count("sendjoin.relay-padded-signature." + verdict)
		}
	}
	pcur := 70
	if fix.happy {
		pcur = 100
	}
	cur := pickDev(r, pcur, "m:leave", "m:join", "m:ban", "m:", "m:invite", "m:knock", "err")
	res := o.Do("sendjoin", ver, cls, evArg, typArg, hx([]byte("!room:hs1")), hx([]byte(reqID)), origin, local, senderQ, verify, cur)
	o.Count("sendjoin." + strings.SplitN(res, ":sig", 2)[0])
	if senderQ == "nil" {
		o.Count("sendjoin.sender-querier-nil." + strings.SplitN(res, ":sig", 2)[0])
	}
	if typ != spec.MRoomMember && cls != "x" {
		o.Count("sendjoin.type-not-member." + strings.SplitN(res, ":sig", 2)[0])
	}
	if i < 2 || (i == 1000 && fix.ver == "10" && (fix.typ == "t:x.custom" || fix.forge == "otherkey")) {
		o.Sample("sendjoin " + ver + " type=" + typ + " planted=" + forge + " sender=" + sender + " sk=" + skMode + " -> " + res)
	}
}

// hsRoom builds the state of a room with the given join rule content, for template auth checks.
func hsRoom(r *Rng, ver string, joinRule map[string]interface{}) *fcRoom {
	rm := newFcRoom(r, ver)
	if rm == nil {
		return nil
	}
	if joinRule != nil {
		if rm.send(spec.MRoomJoinRules, rm.admin, sp(""), joinRule, true, nil) == nil {
			return nil
		}
	}
	return rm
}

func genMakeJoin(o *Out, r *Rng, i int) {
	ver := Pick(r, hsVersions)
	verImpl := gmsl.MustGetRoomVersion(gmsl.RoomVersion(ver))
	p := 88
	if r.Chance(25) {
		p = 60
	}
	restrictedRoom := r.Chance(65)
	rule := "public"
	if restrictedRoom {
		rule = pickDev(r, 80, "restricted", "knock_restricted", "invite", "knock")
	}
	allowRoomA, allowRoomB := "!allowedA:hs1", "!allowedB:hs1"
	var allow []interface{}
	if restrictedRoom {
		switch pickDev(r, 70, "one", "two", "none", "othertype", "badroom", "nullentry") {
		case "one":
			allow = []interface{}{map[string]interface{}{"type": "m.room_membership", "room_id": allowRoomA}}
		case "two":
			allow = []interface{}{map[string]interface{}{"type": "m.room_membership", "room_id": allowRoomA}, map[string]interface{}{"type": "m.room_membership", "room_id": allowRoomB}}
		case "othertype":
			allow = []interface{}{map[string]interface{}{"type": "x.other", "room_id": allowRoomA}}
		case "badroom":
			allow = []interface{}{map[string]interface{}{"type": "m.room_membership", "room_id": "notaroom"}, map[string]interface{}{"type": "m.room_membership", "room_id": allowRoomB}}
		case "nullentry":
			allow = []interface{}{nil, map[string]interface{}{"type": "m.room_membership", "room_id": allowRoomA}}
		}
	}
	jrc := map[string]interface{}{"join_rule": rule}
	if allow != nil {
		jrc["allow"] = allow
	}
	if r.Chance(3) {
		jrc["join_rule"] = 5
	}
	rm := hsRoom(r, ver, jrc)
	if rm == nil {
		o.Count("gen-failed")
		return
	}
	joiner := "@newcomer:hs5"
	origin := pickDev(r, p, "hs5", "hs2")
	remote := pickDev(r, p, ver+",1", "1,2", "-", "99,"+ver)
	if ver == "1" {
		remote = pickDev(r, p, "1,10", "2,3", "-")
	}
	inRoom := pickDev(r, p, "1", "0")
	jr := pickDev(r, 90, rm.jr.Arg(), "err", "nil")
	pending := pickDev(r, 80, "0", "1", "err")
	pl := pickDev(r, 90, rm.pl.Arg(), "err", "nil")
	if r.Chance(5) {
		// a power-levels event that does not parse / has the wrong state key
		if bad := rm.send(spec.MRoomPowerLevels, rm.admin, sp(Pick(r, []string{"", "x"})), map[string]interface{}{"users": "nope"}, false, nil); bad != nil {
			pl = bad.Arg()
		}
	}
	create := pickDev(r, 92, rm.create.Arg(), "err", "nil")
	// joined users of the allowed rooms: alice (level 50), dave (level 0), the creator
	inviteLevel := 0
	if r.Chance(50) {
		inviteLevel = 50
		plc := map[string]interface{}{"users": map[string]interface{}{authUsers[1]: 50}, "users_default": 0, "events_default": 0, "state_default": 50, "ban": 50, "kick": 50, "invite": inviteLevel, "redact": 50}
		if !verImpl.PrivilegedCreators() {
			plc["users"].(map[string]interface{})[authUsers[0]] = 100
		}
		if e := rm.send(spec.MRoomPowerLevels, rm.admin, sp(""), plc, true, nil); e != nil && pl != "err" && pl != "nil" {
			pl = e.Arg()
		}
	}
	members := func() string {
		var us []*Ev
		for _, u := range Pick(r, [][]string{{authUsers[1]}, {authUsers[4], authUsers[1]}, {authUsers[4]}, {authUsers[0]}, {authUsers[4], authUsers[0]}, {}}) {
			if m := rm.member[u]; m != nil {
				us = append(us, m)
			}
		}
		if r.Chance(8) { // a non-member event / a state-key-less event among the "joined users"
			if m := rm.send("m.room.message", authUsers[1], nil, map[string]interface{}{"body": "x"}, false, nil); m != nil {
				us = append([]*Ev{m}, us...)
			}
		}
		return evArgs(us)
	}
	roomEnt := func(id string) string {
		st := pickDev(r, 75, "11", "01", "10", "00", "err", "nil")
		return hx([]byte(id)) + ";" + st + ";" + members()
	}
	rooms := roomEnt(allowRoomA) + "|" + roomEnt(allowRoomB)
	tmode := pickDev(r, 90, "build", "err", "nilev", "nilstate", "wrongtype")
	state := rm.state()
	if r.Chance(6) {
		if m := rm.send("m.room.message", authUsers[1], nil, map[string]interface{}{"body": "x"}, false, nil); m != nil {
			state = append(state, m)
		}
	}
	if r.Chance(8) { // state without the authoriser's / creator's membership etc.
		state = state[:len(state)-1]
	}
	state = hsMixRooms(o, r, ver, state, "makejoin")
	res := o.Do("makejoin", ver, remote, joiner, origin, "hs1", inRoom, hx([]byte(rm.g.RoomID)), jr, pending, pl, create, rooms, tmode, evArgs(state))
	o.Count("makejoin." + strings.SplitN(res, "=", 2)[0])
	if strings.HasPrefix(res, "ok:via=@") {
		o.Count("makejoin.ok-with-authoriser")
	}
	if i < 2 {
		o.Sample("makejoin " + ver + " rule=" + rule + " -> " + res)
	}
}

// hsOtherRoom: a copy of a (non-create) state event that belongs to another room - the template builder's state loader mixing up
// rooms.  The auth rules refuse a check whose auth events span two rooms (C07 / C15: "the resulting event passes the auth rules").
func hsOtherRoom(r *Rng, ver string, e *Ev) *Ev {
	var m map[string]json.RawMessage
	if e == nil || json.Unmarshal(e.JSON, &m) != nil {
		return nil
	}
	if _, has := m["room_id"]; !has {
		return nil // a v12 create event
	}
	other := "!elsewhere:hs1"
	if verImpl, err := gmsl.GetRoomVersion(gmsl.RoomVersion(ver)); err == nil && verImpl.DomainlessRoomIDs() {
		other = "!" + r.id43()
	}
	m["room_id"], _ = json.Marshal(other)
	js, err := json.Marshal(m)
	if err != nil {
		return nil
	}
	if js, err = gmsl.CanonicalJSON(js); err != nil {
		return nil
	}
	return &Ev{ID: e.ID, JSON: js}
}

// hsMixRooms: with some probability one state event other than the first is replaced by its other-room copy
func hsMixRooms(o *Out, r *Rng, ver string, state []*Ev, label string) []*Ev {
	if len(state) < 2 || !r.Chance(12) {
		return state
	}
	i := 1 + r.Intn(len(state)-1)
	if x := hsOtherRoom(r, ver, state[i]); x != nil {
		out := append([]*Ev{}, state...)
		out[i] = x
		o.Count(label + ".state-spans-two-rooms")
		return out
	}
	return state
}

func genMakeLeave(o *Out, r *Rng, i int) {
	ver := Pick(r, hsVersions)
	rm := hsRoom(r, ver, nil)
	if rm == nil {
		return
	}
	js := rm.joined()
	leaver := pickDev(r, 80, js[len(js)-1], "@stranger:hs7")
	origin := pickDev(r, 85, domainOf(leaver), "hs9")
	inRoom := pickDev(r, 85, "1", "0")
	tmode := pickDev(r, 85, "build", "err", "nilev", "nilstate", "wrongtype")
	state := rm.state()
	if r.Chance(6) {
		if m := rm.send("m.room.message", authUsers[1], nil, map[string]interface{}{"body": "x"}, false, nil); m != nil {
			state = append(state, m)
		}
	}
	state = hsMixRooms(o, r, ver, state, "makeleave")
	res := o.Do("makeleave", ver, leaver, origin, inRoom, hx([]byte(rm.g.RoomID)), tmode, evArgs(state))
	o.Count("makeleave." + res)
}

func genInvite(o *Out, r *Rng, i int) { genInviteFix(o, r, i, hsFix{}) }

// genInviteFixed: every room version x every class of planted local signature, and x every wrong event type that still
// looks like an invite to `Membership()`, each alone on the otherwise accepting path.
func genInviteFixed(o *Out, r *Rng) {
	for _, ver := range hsVersions {
		for _, f := range hsForgeClasses {
			genInviteFix(o, r, 1000, hsFix{ver: ver, forge: f, happy: true})
		}
		for _, typ := range hsWrongTypes {
			genInviteFix(o, r, 1000, hsFix{ver: ver, typ: "t:" + typ, happy: true})
		}
		for _, v := range hsVariantClasses {
			genInviteFix(o, r, 1000, hsFix{ver: ver, variant: v, happy: true})
		}
		// the user-ID querier knows no user for the sender and reports no error
		genInviteFix(o, r, 1000, hsFix{ver: ver, happy: true, senderQ: "nil"})
		// an invite FOR another local user (joined / not joined) than the invited user the handler is given, with each
		// way of filling input.InvitedSenderID; and the accepting path with InvitedSenderID left empty
		for _, sid := range []string{"same", "empty", "target"} {
			genInviteFix(o, r, 1000, hsFix{ver: ver, happy: true, target: "localother", cur: "m:join", inputSID: sid})
			genInviteFix(o, r, 1000, hsFix{ver: ver, happy: true, target: "localother", cur: "m:leave", inputSID: sid})
			genInviteFix(o, r, 1000, hsFix{ver: ver, happy: true, target: "invited", cur: "m:join", inputSID: sid})
		}
	}
}

func genInviteFix(o *Out, r *Rng, i int, fix hsFix) {
	ver := pickDev(r, 92, Pick(r, hsVersions), "99", "")
	if fix.ver != "" {
		ver = fix.ver
	}
	ever := ver
	if _, err := gmsl.GetRoomVersion(gmsl.RoomVersion(ver)); err != nil {
		ever = "10"
	}
	g := NewRoomGen(r, ever)
	p := 85
	if r.Chance(25) {
		p = 60
	}
	if fix.happy {
		p = 100
	}
	invited := "@alice:hs1"
	sender := pickDev(r, p, "@bob:hs2", "@bob:bad domain")
	membership := pickDev(r, p, "invite", "join", "leave", "ban", "knock")
	typ := pickDev(r, max(p, 92), spec.MRoomMember, spec.MRoomPowerLevels, "m.room.message")
	var sk *string
	skMode := pickDev(r, p, "invited", "other", "none", "localother", "localother")
	if fix.target != "" {
		skMode = fix.target
	}
	switch skMode {
	case "invited":
		sk = sp(invited)
	case "other":
		sk = sp("@mallory:hs9")
	case "localother":
		// another user of the invited user's server: the handler is handed `InvitedUser: @alice:hs1` with an invite FOR @bob:hs1
		sk = sp("@bob:hs1")
	}
	if typ == spec.MRoomPowerLevels {
		sk = sp("")
	}
	// input.InvitedSenderID: the invited user's ID / "" / the event's state key
	inputSID := pickDev(r, max(p, 80), "same", "empty", "target")
	if fix.inputSID != "" {
		inputSID = fix.inputSID
	}
	g.RoomID = pickDev(r, p, "!room:hs2", "!elsewhere:hs2")
	mc := map[string]interface{}{"membership": membership}
	variant := fix.variant
	if variant == "" && !fix.happy && r.Chance(6) {
		variant = Pick(r, hsVariantClasses)
	}
	if variant != "" {
		hsApplyVariant(mc, variant, membership, Pick(r, []string{"leave", "join"}))
		o.Count("invite.member-name-variant." + variant)
	}
	var content interface{} = mc
	if typ != spec.MRoomMember {
		content = map[string]interface{}{"users": map[string]interface{}{"@bob:hs2": 100}}
	}
	// another type that keeps the invite's state key and content (so that `Membership()` still answers "invite")
	if strings.HasPrefix(fix.typ, "t:") {
		typ = fix.typ[2:]
	} else if typ == spec.MRoomMember && !fix.happy && r.Chance(5) {
		typ = Pick(r, hsWrongTypes)
	}
	ev, cls := g.MkU(typ, sender, sk, content, []string{"$p:hs2"}, []string{}, hsVariantExtra(variant, membership))
	if ev == nil {
		o.Count("gen-failed")
		return
	}
	// a planted entry in the slot the local signature goes to (signing name: the invited user's server)
	forge := fix.forge
	if forge == "" && !fix.happy && r.Chance(6) {
		forge = Pick(r, hsForgeClasses)
	}
	if forge != "" && cls == "o" {
		if f := hsForge(ever, ev, forge, "hs1"); f != nil {
			ev = f
			o.Count("invite.planted-local-sig." + forge)
		} else {
			o.Count("invite.planted-local-sig.gen-failed")
		}
	}
	senderQ := pickDev(r, max(p, 93), "ok", "err", "nil")
	if fix.senderQ != "" {
		senderQ = fix.senderQ
	}
	verify := pickDev(r, p, "good", "bad", "err")
	pq := func(q int) int {
		if fix.happy {
			return 100
		}
		return q
	}
	known := pickDev(r, pq(60), "1", "0", "err")
	stripped := pickDev(r, pq(50), "0", "1", "3")
	stateq := pickDev(r, pq(70), "2", "0", "err")
	cur := pickDev(r, pq(70), "m:leave", "m:join", "m:invite", "m:", "err")
	if fix.cur != "" {
		cur = fix.cur
	}
	res := o.Do("invite", ver, ev.Arg(), hx([]byte("!room:hs2")), invited, senderQ, verify, known, stripped, stateq, cur, inputSID)
	o.Count("invite." + strings.SplitN(res, ":sig", 2)[0])
	if skMode != "invited" && skMode != "none" {
		o.Count("invite.target-not-the-invited-user." + skMode + ".cur=" + cur + "." + strings.SplitN(res, ":sig", 2)[0])
	}
	if senderQ == "nil" {
		o.Count("invite.sender-querier-nil." + strings.SplitN(res, ":sig", 2)[0])
	}
	if typ != spec.MRoomMember {
		o.Count("invite.type-not-member." + strings.SplitN(res, ":sig", 2)[0])
	}
	if i < 2 || (i == 1000 && fix.ver == "10" && fix.forge == "otherkey") {
		o.Sample("invite " + ver + " type=" + typ + " planted=" + forge + " membership=" + membership + " -> " + res)
	}
}

// ---------------------------------------------------------------- PerformJoin

var hsRemoteKey = hsKey("remote")

// hsKeyDB answers every key request with the one "remote" key (all generated events are signed with it).
type hsKeyDB struct{}

func (hsKeyDB) FetcherName() string { return "hsKeyDB" }
func (hsKeyDB) FetchKeys(ctx context.Context, requests map[gmsl.PublicKeyLookupRequest]spec.Timestamp) (map[gmsl.PublicKeyLookupRequest]gmsl.PublicKeyLookupResult, error) {
	res := map[gmsl.PublicKeyLookupRequest]gmsl.PublicKeyLookupResult{}
	for req := range requests {
		res[req] = gmsl.PublicKeyLookupResult{
			VerifyKey:    gmsl.VerifyKey{Key: spec.Base64Bytes(hsRemoteKey.Public().(ed25519.PublicKey))},
			ValidUntilTS: spec.Timestamp(4102444800000), // 2100-01-01
			ExpiredTS:    gmsl.PublicKeyNotExpired,
		}
	}
	return res, nil
}
func (hsKeyDB) StoreKeys(ctx context.Context, results map[gmsl.PublicKeyLookupRequest]gmsl.PublicKeyLookupResult) error {
	return nil
}

type hsMakeJoinResp struct {
	ver   gmsl.RoomVersion
	proto gmsl.ProtoEvent
}

func (r *hsMakeJoinResp) GetJoinEvent() gmsl.ProtoEvent    { return r.proto }
func (r *hsMakeJoinResp) GetRoomVersion() gmsl.RoomVersion { return r.ver }

type hsSendJoinResp struct {
	auth, state gmsl.EventJSONs
	event       spec.RawJSON
}

func (r *hsSendJoinResp) GetAuthEvents() gmsl.EventJSONs  { return r.auth }
func (r *hsSendJoinResp) GetStateEvents() gmsl.EventJSONs { return r.state }
func (r *hsSendJoinResp) GetOrigin() spec.ServerName      { return "hs1" }
func (r *hsSendJoinResp) GetJoinEvent() spec.RawJSON      { return r.event }
func (r *hsSendJoinResp) GetMembersOmitted() bool         { return false }
func (r *hsSendJoinResp) GetServersInRoom() []string      { return []string{"hs1"} }

type hsJoinClient struct {
	mjErr, sjErr bool
	mj           *hsMakeJoinResp
	sj           *hsSendJoinResp
	sent         gmsl.PDU
}

func (c *hsJoinClient) MakeJoin(ctx context.Context, origin, s spec.ServerName, roomID, userID string) (gmsl.MakeJoinResponse, error) {
	if c.mjErr {
		return nil, errors.New("make_join failed (scripted)")
	}
	return c.mj, nil
}
func (c *hsJoinClient) SendJoin(ctx context.Context, origin, s spec.ServerName, event gmsl.PDU) (gmsl.SendJoinResponse, error) {
	c.sent = event
	if c.sjErr {
		return nil, errors.New("send_join failed (scripted)")
	}
	return c.sj, nil
}

const hsJoiner = "@newcomer:hs5"

// handshake.performjoin ver mjmode mjver pool auth state badsig prov sjmode remote joinAuth roomID
func execPerformJoin(args []string) (res string) {
	defer func() {
		if r := recover(); r != nil {
			if _, ok := r.(fcDiverge); ok {
				// regression guard for 778c3d3: reported in the panic class so that it is always a concrete violation
				res = "panic:nontermination:scripted provider called more than " + strconv.Itoa(fcMaxCalls) + " times (checkAllowedByAuthEvents retry loop)"
				return
			}
			panic(r)
		}
	}()
	ver := args[0]
	env, err := newFcEnv(ver, args[3])
	if err != nil {
		return "err:construct"
	}
	keyRing := &gmsl.KeyRing{KeyFetchers: nil, KeyDatabase: hsKeyDB{}}
	// the declared signature faults must be what the key ring finds
	bad := map[int]bool{}
	for _, i := range natList(args[6]) {
		bad[i] = true
	}
	for i, e := range env.pool {
		verr := gmsl.VerifyEventSignatures(context.Background(), e, keyRing, StdQuerier)
		if (verr != nil) != bad[i] {
			// an event sharing its ID (and redacted form) with a declared one has the same verdict
			same := false
			for j := range bad {
				if env.pool[j].EventID() == e.EventID() {
					same = true
				}
			}
			if !same || verr == nil {
				return "err:construct:sig " + strconv.Itoa(i)
			}
		}
	}
	auth, err := env.raws(args[4])
	if err != nil {
		return "err:construct:" + err.Error()
	}
	state, err := env.raws(args[5])
	if err != nil {
		return "err:construct:" + err.Error()
	}
	userID, _ := spec.NewUserID(hsJoiner, true)
	roomID, err := spec.NewRoomID(string(unhx(args[11])))
	if err != nil {
		return "err:construct:room"
	}
	var authIDs []string
	for _, i := range natList(args[10]) {
		authIDs = append(authIDs, env.pool[i].EventID())
	}
	f, _ := verFormat(ver)
	var authRefs, prevRefs interface{}
	if f == 1 {
		ar := []interface{}{}
		for _, id := range authIDs {
			ar = append(ar, []interface{}{id, map[string]interface{}{"sha256": "47DEQpj8HBSa+/TImW+5JCeuQeRkm5NMpJWZG3hSuFU"}})
		}
		authRefs = ar
		prevRefs = []interface{}{[]interface{}{"$prev:hs1", map[string]interface{}{"sha256": "47DEQpj8HBSa+/TImW+5JCeuQeRkm5NMpJWZG3hSuFU"}}}
	} else {
		ar := []interface{}{}
		for _, id := range authIDs {
			ar = append(ar, id)
		}
		authRefs = ar
		prevRefs = []interface{}{"$prev:hs1"}
	}
	sk := hsJoiner
	client := &hsJoinClient{mjErr: args[1] == "err", sjErr: args[8] == "err",
		mj: &hsMakeJoinResp{ver: gmsl.RoomVersion(args[2]), proto: gmsl.ProtoEvent{
			SenderID: hsJoiner, RoomID: "!wrong:room", Type: "m.room.message", StateKey: &sk, Redacts: "$x",
			PrevEvents: prevRefs, AuthEvents: authRefs, Depth: 20, Content: spec.RawJSON(`{"membership":"join"}`)}},
		sj: &hsSendJoinResp{auth: toEventJSONs(auth), state: toEventJSONs(state)}}
	switch {
	case args[9] == "-":
	case args[9] == "x":
		client.sj.event = spec.RawJSON(`{"type":`)
	default:
		raws, err := env.raws(args[9])
		if err != nil {
			return "err:construct:" + err.Error()
		}
		client.sj.event = spec.RawJSON(raws[0])
	}
	out, ferr := gmsl.PerformJoin(context.Background(), client, gmsl.PerformJoinInput{
		UserID: userID, RoomID: roomID, ServerName: "hs1", Content: map[string]interface{}{"displayname": "n"},
		PrivateKey: hsRemoteKey, KeyID: "ed25519:1", KeyRing: keyRing, EventProvider: env.provider(args[7]), UserIDQuerier: StdQuerier,
		GetOrCreateSenderID: func(ctx context.Context, userID spec.UserID, roomID spec.RoomID, roomVersion string) (spec.SenderID, ed25519.PrivateKey, error) {
			return spec.SenderID(userID.String()), hsRemoteKey, nil
		},
		StoreSenderIDFromPublicID: func(ctx context.Context, senderID spec.SenderID, userID string, id spec.RoomID) error { return nil },
	})
	if ferr != nil {
		return hsPJErrClass(ferr)
	}
	used := "built"
	if client.sent == nil || out.JoinEvent.EventID() != client.sent.EventID() {
		used = "remote"
	}
	rv := gmsl.RoomVersion(ver)
	return "ok:" + used + ":" + env.showEvs(out.StateSnapshot.GetAuthEvents().TrustedEvents(rv, false)) + "|" +
		env.showEvs(out.StateSnapshot.GetStateEvents().TrustedEvents(rv, false))
}

// hsPJErrClass: which stage of PerformJoin failed
func hsPJErrClass(ferr *gmsl.FederationError) string {
	m := ferr.Err.Error()
	switch {
	case strings.HasPrefix(m, "r.federation.MakeJoin"):
		return "err:make_join"
	case strings.HasPrefix(m, "r.federation.SendJoin"):
		return "err:send_join"
	case strings.HasPrefix(m, "Cannot create user room key"):
		return "err:sender_id"
	case strings.HasPrefix(m, "cannot sign mxid_mapping"), strings.HasPrefix(m, "respMakeJoin.JoinEvent"):
		return "err:build"
	case strings.HasPrefix(m, "sanityCheckAuthChain"):
		return "err:no-create"
	case strings.HasPrefix(m, "unable to store mxid_mapping"):
		return "err:store"
	case strings.HasPrefix(m, "respSendJoin.Check"):
		return "err:check"
	}
	if _, ok := ferr.Err.(gmsl.UnsupportedRoomVersionError); ok {
		return "err:version"
	}
	return "err:other"
}

// signReal replaces the placeholder signature of a generated event by a real one of its sender's server.
func signReal(ver string, e *Ev) *Ev {
	var m map[string]json.RawMessage
	if json.Unmarshal(e.JSON, &m) != nil {
		return nil
	}
	delete(m, "signatures")
	raw, _ := json.Marshal(m)
	cj, err := gmsl.CanonicalJSON(raw)
	if err != nil {
		return nil
	}
	impl := gmsl.MustGetRoomVersion(gmsl.RoomVersion(ver))
	pdu, err := impl.NewEventFromTrustedJSONWithEventID(e.ID, cj, false)
	if err != nil {
		return nil
	}
	dom := domainOf(string(pdu.SenderID()))
	signed := pdu.Sign(dom, "ed25519:1", hsRemoteKey)
	back, err := impl.NewEventFromUntrustedJSON(signed.JSON())
	if err != nil || back.EventID() != e.ID {
		return nil
	}
	return &Ev{PDU: back, ID: back.EventID(), JSON: back.JSON()}
}

func genPerformJoin(o *Out, r *Rng, i int) {
	ver := Pick(r, hsVersions)
	mode := Pick(r, fcProvModes)
	faults := pickFaults(r)
	if r.Chance(8) {
		fcCreateVersionOverride = Pick(r, []interface{}{"99", 5, "", nil})
	}
	sc := fcStateScenario(r, ver, faults, mode)
	fcCreateVersionOverride = nil
	if sc == nil {
		o.Count("gen-failed")
		return
	}
	rm := sc.rm
	if r.Chance(8) { // the auth events of the response lack the create event
		var a []string
		for _, t := range sc.auth {
			if t != rm.tok(rm.create) {
				a = append(a, t)
			}
		}
		sc.auth = a
	}
	// the remote's copy of the join event, when it returns one
	remote := "-"
	var remoteJoin *Ev
	switch r.Intn(6) {
	case 0:
		remote = "x"
	case 1: // a well-formed join of the same user: used instead of ours if (round 5) the joiner's server validly signed it
		if e := rm.send(spec.MRoomMember, hsJoiner, sp(hsJoiner), map[string]interface{}{"membership": "join", "displayname": "theirs"}, false, nil); e != nil {
			remote = rm.tok(e)
			remoteJoin = e
		}
	case 2: // not a join / another user / another room / not a member event / sent by somebody else: ignored
		switch r.Intn(5) {
		case 3: // an event of another type that looks like a join to Membership(): state_key == sender == the joiner, membership "join"
			if e := rm.send(Pick(r, []string{"x.custom", "m.room.name", "m.room.Member"}), hsJoiner, sp(hsJoiner), map[string]interface{}{"membership": "join"}, false, nil); e != nil {
				remote = rm.tok(e)
				o.Count("performjoin.remote-event-not-a-member-event")
			}
		case 4: // a member event for the joiner sent by somebody else
			if e := rm.send(spec.MRoomMember, rm.admin, sp(hsJoiner), map[string]interface{}{"membership": "join"}, false, nil); e != nil {
				remote = rm.tok(e)
				o.Count("performjoin.remote-event-other-sender")
			}
		case 0:
			if e := rm.send(spec.MRoomMember, hsJoiner, sp(hsJoiner), map[string]interface{}{"membership": "leave"}, false, nil); e != nil {
				remote = rm.tok(e)
			}
		case 1:
			if e := rm.send(spec.MRoomMember, "@other:hs5", sp("@other:hs5"), map[string]interface{}{"membership": "join"}, false, nil); e != nil {
				remote = rm.tok(e)
			}
		default:
			remote = rm.tok(rm.history[0])
		}
	}
	// what the make_join template cites
	var joinAuth []int
	for _, id := range rm.authFor(spec.MRoomMember, hsJoiner, sp(hsJoiner)) {
		for k, e := range rm.pool {
			if e.ID == id {
				joinAuth = append(joinAuth, k)
				break
			}
		}
	}
	if r.Chance(10) && len(joinAuth) > 0 {
		joinAuth = joinAuth[1:]
	}
	// real signatures for everything except the declared signature faults
	bad := map[int]bool{}
	for _, b := range sc.badsig {
		bad[b] = true
	}
	byID := map[string]bool{}
	for k := range bad {
		byID[rm.pool[k].ID] = true
	}
	// half of the remote's well-formed joins are not validly signed by the joiner's server (the placeholder signature stays)
	if remoteJoin != nil && r.Chance(50) {
		byID[remoteJoin.ID] = true
		o.Count("performjoin.remote-join-not-signed-by-us")
	}
	for k, e := range rm.pool {
		if byID[e.ID] {
			continue
		}
		s := signReal(ver, e)
		if s == nil {
			// tampered copies are read back redacted: sign what the library reads
			o.Count("performjoin.gen-skip")
			return
		}
		rm.pool[k].PDU, rm.pool[k].JSON = s.PDU, s.JSON
	}
	var badAll []int
	for k, e := range rm.pool {
		if byID[e.ID] {
			badAll = append(badAll, k)
		}
	}
	mjmode := pickDev(r, 93, "ok", "err")
	sjmode := pickDev(r, 93, "ok", "err")
	mjver := pickDev(r, 90, ver, "99")
	if (ver == "1" || ver == "4") && len(joinAuth) > 0 && r.Chance(30) {
		mjver = ""
	}
	res := o.Do("performjoin", ver, mjmode, mjver, rm.poolArg(), joinOrDash(sc.auth, ","), joinOrDash(sc.state, ","), fcIdxList(badAll),
		sc.provArg(), sjmode, remote, fcIdxList(joinAuth), hx([]byte(rm.g.RoomID)))
	o.Count("performjoin." + strings.SplitN(strings.SplitN(res, "|", 2)[0], ":#", 2)[0])
	_ = sort.Strings
	_ = time.Now
}

// ---------------------------------------------------------------- HandleInviteV3

var hsInviteeKey = hsKey("invitee-room-key")

// handshake.invitev3 ver roomID protoRoom protoType membership sender(ok/err) big known stripped stateq cur
func execInviteV3(args []string) string {
	ver := args[0]
	roomID, err := spec.NewRoomID(string(unhx(args[1])))
	if err != nil {
		return "err:construct:room"
	}
	invited, _ := spec.NewUserID("@alice:hs1", true)
	inviterKey := hsKey("inviter-room-key")
	content := map[string]interface{}{"membership": args[4]}
	switch args[4] {
	case "~missing":
		delete(content, "membership")
	case "~num":
		content["membership"] = 5
	case "~null":
		content["membership"] = nil
	case "~variant": // the name under another spelling only: no membership for a reader of exact names
		delete(content, "membership")
		content["Membership"] = "invite"
	case "~variantafter": // {"membership":"leave","memberſhip":"invite"}: a leave
		content["membership"] = "leave"
		content["memberſhip"] = "invite"
	case "~variantbefore": // {"Membership":"leave","membership":"invite"}: an invite
		content["Membership"] = "leave"
		content["membership"] = "invite"
	}
	if args[6] == "1" {
		content["pad"] = strings.Repeat("x", 70000)
	}
	cj, _ := json.Marshal(content)
	if args[4] == "~notobject" {
		cj = []byte("5")
	}
	ptype := args[3]
	if ptype == "-" {
		ptype = ""
	}
	sk := "placeholder"
	proto := gmsl.ProtoEvent{SenderID: string(spec.SenderIDFromPseudoIDKey(inviterKey)), RoomID: string(unhx(args[2])), Type: ptype,
		StateKey: &sk, PrevEvents: []string{"$prev"}, AuthEvents: []string{}, Depth: 5, Content: cj}
	invitedSender := spec.SenderIDFromPseudoIDKey(hsInviteeKey)
	var stripped []gmsl.InviteStrippedState
	n, _ := strconv.Atoi(args[8])
	for i := 0; i < n; i++ {
		var ss gmsl.InviteStrippedState
		_ = json.Unmarshal([]byte(`{"type":"m.room.name","state_key":"","sender":"x","content":{"name":"n"}}`), &ss)
		stripped = append(stripped, ss)
	}
	// a state event for the state querier to hand out
	g := NewRoomGen(&Rng{s: 7}, "10")
	g.RoomID = "!room:hs2"
	stEv := g.Mk("m.room.name", "@bob:hs2", sp(""), map[string]interface{}{"name": "n"}, []string{}, []string{}, nil)
	// input.InvitedSenderID (optional 12th argument): "same" = the ID GetOrCreateSenderID will return (default), "empty" = ""
	// (all a caller has that does not know the ID yet), "other" = the sender ID of somebody else.  `cur` scripts the
	// membership of the ID GetOrCreateSenderID returns — the state key of the built event, the invite's target; every
	// other sender ID of the room is not joined.
	inputSID := invitedSender
	if len(args) > 11 {
		switch args[11] {
		case "empty":
			inputSID = ""
		case "other":
			inputSID = spec.SenderIDFromPseudoIDKey(hsKey("somebody-else-room-key"))
		}
	}
	out, err := gmsl.HandleInviteV3(context.Background(), gmsl.HandleInviteV3Input{
		HandleInviteInput: gmsl.HandleInviteInput{
			RoomID: *roomID, RoomVersion: gmsl.RoomVersion(ver), InvitedUser: *invited, InvitedSenderID: inputSID,
			StrippedState: stripped, KeyID: hsKeyID, PrivateKey: hsLocalKey, Verifier: &hsVerifier{mode: "good"},
			RoomQuerier:       &hsRoomQuerier{known: args[7]},
			MembershipQuerier: &hsMembership{cur: args[10], check: true, wantRoom: roomID.String(), wantSender: invitedSender, others: "m:leave"},
			StateQuerier:      &hsStateQuerier{mode: args[9], ev: stEv.PDU}, UserIDQuerier: StdQuerier,
		},
		InviteProtoEvent: proto,
		GetOrCreateSenderID: func(ctx context.Context, userID spec.UserID, roomID spec.RoomID, roomVersion string) (spec.SenderID, ed25519.PrivateKey, error) {
			if args[5] == "err" {
				return "", nil, errors.New("sender ID creation failed (scripted)")
			}
			return invitedSender, hsInviteeKey, nil
		},
	})
	if err != nil {
		return hsErrClass(err)
	}
	verImpl := gmsl.MustGetRoomVersion(gmsl.RoomVersion(ver))
	red, rerr := verImpl.RedactEventJSON(out.JSON())
	sig := "0"
	if rerr == nil && gmsl.VerifyJSON(string(invitedSender), "ed25519:1", hsInviteeKey.Public().(ed25519.PublicKey), red) == nil {
		sig = "1"
	}
	shape := "0"
	// the member named exactly "membership" (a map decode does not fold names)
	var c map[string]interface{}
	want := args[4]
	if want == "~variantbefore" {
		want = "invite"
	}
	if out.Type() == ptype && out.StateKeyEquals(string(invitedSender)) && out.RoomID().String() == roomID.String() &&
		json.Unmarshal(out.Content(), &c) == nil && (c["membership"] == want || strings.HasPrefix(want, "~")) && string(out.SenderID()) == proto.SenderID {
		shape = "1"
	}
	var u struct {
		Unsigned struct {
			S json.RawMessage `json:"invite_room_state"`
		} `json:"unsigned"`
	}
	cnt := "?"
	if json.Unmarshal(out.JSON(), &u) == nil {
		var arr []json.RawMessage
		if strings.HasPrefix(string(u.Unsigned.S), "{") {
			cnt = "0"
		} else if json.Unmarshal(u.Unsigned.S, &arr) == nil {
			cnt = strconv.Itoa(len(arr))
		}
	}
	return "ok:sig=" + sig + ":shape=" + shape + ":stripped=" + cnt
}

func genInviteV3(o *Out, r *Rng, i int) { genInviteV3Fix(o, r, i, hsFix{}, "") }

// genInviteV3Fixed: every proto event that is not an invite — each wrong type with membership "invite", each other
// membership (incl. absent / null / non-string / content that is no object) with type m.room.member — alone on the
// otherwise accepting path.
func genInviteV3Fixed(o *Out, r *Rng) {
	for _, typ := range append([]string{"m.room.power_levels", "m.room.message"}, hsWrongTypes...) {
		genInviteV3Fix(o, r, 1000, hsFix{typ: "t:" + typ, happy: true}, "")
	}
	for _, m := range []string{"join", "leave", "ban", "knock", "Invite", "~missing", "~null", "~num", "~notobject", "~variant", "~variantafter", "~variantbefore"} {
		genInviteV3Fix(o, r, 1000, hsFix{happy: true}, m)
	}
	// input.InvitedSenderID is not the ID GetOrCreateSenderID returns, the user behind the returned ID joined / not joined
	for _, sid := range []string{"same", "empty", "other"} {
		for _, cur := range []string{"m:join", "m:leave"} {
			genInviteV3Fix(o, r, 1000, hsFix{happy: true, inputSID: sid, cur: cur}, "")
		}
	}
}

func genInviteV3Fix(o *Out, r *Rng, i int, fix hsFix, fixMembership string) {
	pq := func(q int) int {
		if fix.happy {
			return 100
		}
		return q
	}
	ver := pickDev(r, pq(85), "org.matrix.msc4014", "99", "", "10", "12")
	p := pq(85)
	room := "!room:hs2"
	protoRoom := pickDev(r, p, room, "!elsewhere:hs2")
	typ := pickDev(r, pq(88), spec.MRoomMember, "m.room.power_levels", "m.room.message", "x.custom", "m.room.Member", "-")
	if strings.HasPrefix(fix.typ, "t:") {
		typ = fix.typ[2:]
		if typ == "" {
			typ = "-"
		}
	}
	membership := pickDev(r, p, "invite", "join", "leave", "ban", "knock", "Invite", "~missing", "~null", "~num", "~notobject", "~variant", "~variantafter", "~variantbefore")
	if fixMembership != "" {
		membership = fixMembership
	}
	sender := pickDev(r, pq(92), "ok", "err")
	big := pickDev(r, pq(93), "0", "1")
	known := pickDev(r, pq(60), "1", "0", "err")
	stripped := pickDev(r, pq(50), "0", "1", "3")
	stateq := pickDev(r, pq(70), "2", "0", "err")
	cur := pickDev(r, pq(70), "m:leave", "m:join", "m:invite", "m:", "err")
	if fix.cur != "" {
		cur = fix.cur
	}
	// input.InvitedSenderID: the ID GetOrCreateSenderID returns / "" (the caller does not know it yet) / somebody else's
	inputSID := pickDev(r, pq(60), "same", "empty", "other")
	if fix.inputSID != "" {
		inputSID = fix.inputSID
	}
	res := o.Do("invitev3", ver, hx([]byte(room)), hx([]byte(protoRoom)), typ, membership, sender, big, known, stripped, stateq, cur, inputSID)
	o.Count("invitev3." + res)
	if inputSID != "same" {
		o.Count("invitev3.input-sender-id-" + inputSID + ".cur=" + cur + "." + res)
	}
	if typ != spec.MRoomMember || (membership != "invite" && membership != "~variantbefore") {
		o.Count("invitev3.not-an-invite." + res)
	}
	if i == 1000 && (fix.typ == "t:m.room.power_levels" || fixMembership == "join") {
		o.Sample("invitev3 type=" + typ + " membership=" + membership + " -> " + res)
	}
}

// ---------------------------------------------------------------- PerformJoin: which event comes back (round 5)

// The joining server is hs5 with a key of its own; every other server (hs1, the resident server answering make_join /
// send_join, included) signs with the "remote" key.  A signature under the name hs5 that verifies can only have been made here.
var hsJoinerServerKey = hsKey("hs5-joining-server")

type hsKeyDBByServer struct{}

func (hsKeyDBByServer) FetcherName() string { return "hsKeyDBByServer" }
func (hsKeyDBByServer) FetchKeys(ctx context.Context, requests map[gmsl.PublicKeyLookupRequest]spec.Timestamp) (map[gmsl.PublicKeyLookupRequest]gmsl.PublicKeyLookupResult, error) {
	res := map[gmsl.PublicKeyLookupRequest]gmsl.PublicKeyLookupResult{}
	for req := range requests {
		key := hsRemoteKey
		if req.ServerName == "hs5" {
			key = hsJoinerServerKey
		}
		res[req] = gmsl.PublicKeyLookupResult{
			VerifyKey:    gmsl.VerifyKey{Key: spec.Base64Bytes(key.Public().(ed25519.PublicKey))},
			ValidUntilTS: spec.Timestamp(4102444800000), // 2100-01-01
			ExpiredTS:    gmsl.PublicKeyNotExpired,
		}
	}
	return res, nil
}
func (hsKeyDBByServer) StoreKeys(ctx context.Context, results map[gmsl.PublicKeyLookupRequest]gmsl.PublicKeyLookupResult) error {
	return nil
}

// hsRemoteJoinClasses: what the resident server puts into the "event" member of its send_join response.
//
//	none           no event                         x            an unparseable event
//	echo           the event we sent, as it is      echo-sig     … plus the resident server's signature
//	echo-unsigned  … plus an unsigned section and the resident server's signature
//	echo-nosig     the event we sent WITHOUT our signature, with the resident server's
//	redacted       the redacted form of the event we sent (our signature still verifies), plus the resident server's signature
//	replay         ANOTHER join of the same user and room, validly signed with the joining server's key (an earlier join of ours)
//	custom         an event of type x.custom with sender = state key = the joiner and content.membership "join", citing (when
//	               the state lists it) our genuine join as the sender's membership; signed by the resident server only
//	forged-content an m.room.member join "by" the joiner with content, timestamp and hashes of the resident server's choosing,
//	               signed by the resident server only      forged-stale  … carrying our signature of the genuine event as well
//	forged-auth    the same with other auth_events         other-sender  a member event for the joiner sent by the room's admin
//	leave          a leave "by" the joiner
var hsRemoteJoinClasses = []string{"none", "x", "echo", "echo-sig", "echo-unsigned", "echo-nosig", "redacted", "replay", "custom",
	"forged-content", "forged-stale", "forged-auth", "other-sender", "leave"}

func hsEditJSON(raw []byte, f func(m map[string]json.RawMessage)) []byte {
	var m map[string]json.RawMessage
	if json.Unmarshal(raw, &m) != nil {
		return nil
	}
	f(m)
	out, _ := json.Marshal(m)
	cj, err := gmsl.CanonicalJSON(out)
	if err != nil {
		return nil
	}
	return cj
}

// hsCraftRemoteJoin makes the resident server's copy of the join event out of the event PerformJoin sent.
func hsCraftRemoteJoin(verImpl gmsl.IRoomVersion, sent gmsl.PDU, cls string, instate bool, admin string) spec.RawJSON {
	withRemoteSig := func(raw []byte) spec.RawJSON {
		ev, err := verImpl.NewEventFromUntrustedJSON(raw)
		if err != nil {
			return spec.RawJSON(raw)
		}
		return spec.RawJSON(ev.Sign("hs1", "ed25519:1", hsRemoteKey).JSON())
	}
	build := func(typ, sender string, content map[string]interface{}, authIDs []string, origin string, key ed25519.PrivateKey, ts time.Time) []byte {
		sk := hsJoiner
		cj, _ := json.Marshal(content)
		proto := gmsl.ProtoEvent{SenderID: sender, RoomID: sent.RoomID().String(), Type: typ, StateKey: &sk,
			PrevEvents: sent.PrevEventIDs(), AuthEvents: authIDs, Depth: sent.Depth(), Content: cj}
		ev, err := verImpl.NewEventBuilderFromProtoEvent(&proto).Build(ts, spec.ServerName(origin), "ed25519:1", key)
		if err != nil {
			return []byte(`{"type":`)
		}
		return ev.JSON()
	}
	ts := sent.OriginServerTS().Time()
	auth := sent.AuthEventIDs()
	switch cls {
	case "none":
		return nil
	case "x":
		return spec.RawJSON(`{"type":`)
	case "echo":
		return spec.RawJSON(sent.JSON())
	case "echo-sig":
		return withRemoteSig(sent.JSON())
	case "echo-unsigned":
		return withRemoteSig(hsEditJSON(sent.JSON(), func(m map[string]json.RawMessage) { m["unsigned"] = json.RawMessage(`{"age":5}`) }))
	case "echo-nosig":
		return withRemoteSig(hsEditJSON(sent.JSON(), func(m map[string]json.RawMessage) { delete(m, "signatures") }))
	case "redacted":
		red, err := verImpl.RedactEventJSON(sent.JSON())
		if err != nil {
			return spec.RawJSON(`{"type":`)
		}
		return withRemoteSig(red)
	case "replay":
		return spec.RawJSON(build(spec.MRoomMember, hsJoiner, map[string]interface{}{"membership": "join", "displayname": "earlier"}, auth, "hs5", hsJoinerServerKey, ts.Add(-time.Hour)))
	case "custom":
		a := auth
		if instate {
			// the joiner's membership in the state the resident server presents: our genuine join
			var keep []string
			for _, id := range auth[:min(2, len(auth))] { // create (where it is cited), power levels
				keep = append(keep, id)
			}
			a = append(keep, sent.EventID())
		}
		return spec.RawJSON(build("x.custom", hsJoiner, map[string]interface{}{"membership": "join"}, a, "hs1", hsRemoteKey, ts))
	case "forged-content", "forged-stale":
		raw := build(spec.MRoomMember, hsJoiner, map[string]interface{}{"membership": "join", "displayname": "chosen by the resident server"}, auth, "hs1", hsRemoteKey, ts.Add(time.Second))
		if cls == "forged-stale" {
			var ours struct {
				Signatures map[string]json.RawMessage `json:"signatures"`
			}
			_ = json.Unmarshal(sent.JSON(), &ours)
			raw = hsEditJSON(raw, func(m map[string]json.RawMessage) {
				sigs := map[string]json.RawMessage{}
				_ = json.Unmarshal(m["signatures"], &sigs)
				sigs["hs5"] = ours.Signatures["hs5"]
				m["signatures"], _ = json.Marshal(sigs)
			})
		}
		return spec.RawJSON(raw)
	case "forged-auth":
		return spec.RawJSON(build(spec.MRoomMember, hsJoiner, map[string]interface{}{"membership": "join", "displayname": "n"}, auth[:max(0, len(auth)-1)], "hs1", hsRemoteKey, ts))
	case "other-sender":
		return spec.RawJSON(build(spec.MRoomMember, admin, map[string]interface{}{"membership": "join"}, auth, "hs1", hsRemoteKey, ts))
	case "leave":
		return spec.RawJSON(build(spec.MRoomMember, hsJoiner, map[string]interface{}{"membership": "leave"}, auth, "hs1", hsRemoteKey, ts))
	}
	return nil
}

type hsAdoptClient struct {
	mj          *hsMakeJoinResp
	auth, state []json.RawMessage
	verImpl     gmsl.IRoomVersion
	cls, admin  string
	instate     bool
	sent        gmsl.PDU
}

func (c *hsAdoptClient) MakeJoin(ctx context.Context, origin, s spec.ServerName, roomID, userID string) (gmsl.MakeJoinResponse, error) {
	return c.mj, nil
}
func (c *hsAdoptClient) SendJoin(ctx context.Context, origin, s spec.ServerName, event gmsl.PDU) (gmsl.SendJoinResponse, error) {
	c.sent = event
	state := append([]json.RawMessage{}, c.state...)
	if c.instate {
		state = append(state, json.RawMessage(event.JSON()))
	}
	return &hsSendJoinResp{auth: toEventJSONs(c.auth), state: toEventJSONs(state),
		event: hsCraftRemoteJoin(c.verImpl, event, c.cls, c.instate, c.admin)}, nil
}

// hsJoinRefs: the auth / prev references of a make_join template in the format of the room version
func hsJoinRefs(ver string, authIDs []string) (authRefs, prevRefs interface{}) {
	f, _ := verFormat(ver)
	ar := []interface{}{}
	if f == 1 {
		for _, id := range authIDs {
			ar = append(ar, []interface{}{id, map[string]interface{}{"sha256": "47DEQpj8HBSa+/TImW+5JCeuQeRkm5NMpJWZG3hSuFU"}})
		}
		return ar, []interface{}{[]interface{}{"$prev:hs1", map[string]interface{}{"sha256": "47DEQpj8HBSa+/TImW+5JCeuQeRkm5NMpJWZG3hSuFU"}}}
	}
	for _, id := range authIDs {
		ar = append(ar, id)
	}
	return ar, []interface{}{"$prev:hs1"}
}

// handshake.performjoin_adopt ver pool auth state joinAuth roomID rclass instate admin
//
//	pool / auth / state / joinAuth / roomID as in handshake.performjoin (every pool event really signed, nil event provider);
//	rclass: hsRemoteJoinClasses; instate 1 = the state of the response lists the join event we sent; admin: the room's creator.
//
// outcome: err:<stage> | ok:join=<the returned JoinEvent is an m.room.member event of the room with membership "join" whose
// sender and state key are the joining user>:oursig=<it carries a signature under (hs5, ed25519:1) that VERIFIES with the
// joining server's public key over its redacted form>:same=<its event ID is that of the event that was sent>:sigs=<names under
// "signatures">:red=<Redacted()>:n=<auth events>/<state events returned>
func execPerformJoinAdopt(args []string) (res string) {
	ver := args[0]
	env, err := newFcEnv(ver, args[1])
	if err != nil {
		return "err:construct"
	}
	keyRing := &gmsl.KeyRing{KeyFetchers: nil, KeyDatabase: hsKeyDBByServer{}}
	for i, e := range env.pool {
		if gmsl.VerifyEventSignatures(context.Background(), e, keyRing, StdQuerier) != nil {
			return "err:construct:sig " + strconv.Itoa(i)
		}
	}
	auth, err := env.raws(args[2])
	if err != nil {
		return "err:construct:" + err.Error()
	}
	state, err := env.raws(args[3])
	if err != nil {
		return "err:construct:" + err.Error()
	}
	userID, _ := spec.NewUserID(hsJoiner, true)
	roomID, err := spec.NewRoomID(string(unhx(args[5])))
	if err != nil {
		return "err:construct:room"
	}
	var authIDs []string
	for _, i := range natList(args[4]) {
		authIDs = append(authIDs, env.pool[i].EventID())
	}
	authRefs, prevRefs := hsJoinRefs(ver, authIDs)
	sk := hsJoiner
	client := &hsAdoptClient{verImpl: env.impl, cls: args[6], instate: args[7] == "1", admin: args[8], auth: auth, state: state,
		mj: &hsMakeJoinResp{ver: gmsl.RoomVersion(ver), proto: gmsl.ProtoEvent{
			SenderID: hsJoiner, RoomID: roomID.String(), Type: spec.MRoomMember, StateKey: &sk,
			PrevEvents: prevRefs, AuthEvents: authRefs, Depth: 20, Content: spec.RawJSON(`{"membership":"join"}`)}}}
	out, ferr := gmsl.PerformJoin(context.Background(), client, gmsl.PerformJoinInput{
		UserID: userID, RoomID: roomID, ServerName: "hs1", Content: map[string]interface{}{"displayname": "n"},
		PrivateKey: hsJoinerServerKey, KeyID: "ed25519:1", KeyRing: keyRing, EventProvider: nil, UserIDQuerier: StdQuerier,
	})
	if ferr != nil {
		return hsPJErrClass(ferr)
	}
	return "ok:" + hsJoinReport(env.impl, out.JoinEvent, client.sent, roomID.String(), hsJoiner, "hs5", hsJoinerServerKey) +
		":n=" + strconv.Itoa(len(out.StateSnapshot.GetAuthEvents())) + "/" + strconv.Itoa(len(out.StateSnapshot.GetStateEvents()))
}

// hsJoinReport: what the property says about the event PerformJoin returns, measured on that event
func hsJoinReport(verImpl gmsl.IRoomVersion, ret, sent gmsl.PDU, roomID, joiner, signer string, signerKey ed25519.PrivateKey) string {
	b := func(x bool) string {
		if x {
			return "1"
		}
		return "0"
	}
	var c map[string]json.RawMessage
	isJoin := ret.Type() == spec.MRoomMember && json.Unmarshal(ret.Content(), &c) == nil && string(c["membership"]) == `"join"` &&
		string(ret.SenderID()) == joiner && ret.StateKeyEquals(joiner) && ret.RoomID().String() == roomID
	return "join=" + b(isJoin) + ":oursig=" + b(piSigValid(verImpl, ret, signer, "ed25519:1", signerKey)) +
		":same=" + b(sent != nil && ret.EventID() == sent.EventID()) + ":sigs=" + strings.Join(piSigNames(ret.JSON()), ",") +
		":red=" + b(ret.Redacted())
}

// genPerformJoinAdopt: every room version x every class of remote copy, with and without our join in the presented state.
func genPerformJoinAdopt(o *Out, tier string, r *Rng) {
	for _, ver := range hsVersions {
		verImpl := gmsl.MustGetRoomVersion(gmsl.RoomVersion(ver))
		rm := newFcRoom(r, ver)
		if rm == nil {
			o.Count("gen-failed")
			continue
		}
		// state_default 0: an ordinary member may send state events of types the power levels do not list
		users := map[string]interface{}{authUsers[1]: 50}
		if !verImpl.PrivilegedCreators() {
			users[rm.admin] = 100
		}
		plc := map[string]interface{}{"users": users, "users_default": 0, "events_default": 0, "state_default": 0, "ban": 50, "kick": 50, "invite": 0, "redact": 50}
		if rm.send(spec.MRoomPowerLevels, rm.admin, sp(""), plc, true, nil) == nil {
			o.Count("gen-failed")
			continue
		}
		ok := true
		for k, e := range rm.pool {
			s := signReal(ver, e)
			if s == nil {
				ok = false
				break
			}
			rm.pool[k].PDU, rm.pool[k].JSON = s.PDU, s.JSON
		}
		if !ok {
			o.Count("performjoin_adopt.gen-skip")
			continue
		}
		var authToks, stateToks []string
		for _, e := range rm.history {
			authToks = append(authToks, rm.tok(e))
		}
		for _, e := range rm.state() {
			stateToks = append(stateToks, rm.tok(e))
		}
		var joinAuth []int
		for _, id := range rm.authFor(spec.MRoomMember, hsJoiner, sp(hsJoiner)) {
			for k, e := range rm.pool {
				if e.ID == id {
					joinAuth = append(joinAuth, k)
					break
				}
			}
		}
		for _, cls := range hsRemoteJoinClasses {
			for _, instate := range []string{"1", "0"} {
				if tier != "thorough" && instate == "0" && cls != "custom" && cls != "forged-content" && cls != "echo-sig" && !r.Chance(25) {
					continue
				}
				res := o.Do("performjoin_adopt", ver, rm.poolArg(), strings.Join(authToks, ","), strings.Join(stateToks, ","), fcIdxList(joinAuth),
					hx([]byte(rm.g.RoomID)), cls, instate, rm.admin)
				o.Count("performjoin_adopt." + cls + "." + strings.SplitN(strings.SplitN(res, ":n=", 2)[0], ":sigs", 2)[0])
				if ver == "10" && instate == "1" && (cls == "custom" || cls == "forged-content" || cls == "echo-sig") {
					o.Sample("performjoin_adopt 10 remote=" + cls + " our join in state -> " + res)
				}
			}
		}
	}
}

// ---------------------------------------------------------------- PerformJoin on hostile make_join / send_join BODIES (C18 / C15)

type hsBodiesClient struct {
	mj    *fclient.RespMakeJoin
	sj    *fclient.RespSendJoin
	mjErr bool
	sjErr bool
}

func (c *hsBodiesClient) MakeJoin(ctx context.Context, origin, s spec.ServerName, roomID, userID string) (gmsl.MakeJoinResponse, error) {
	if c.mjErr {
		return nil, errors.New("make_join: the body does not decode")
	}
	return c.mj, nil
}
func (c *hsBodiesClient) SendJoin(ctx context.Context, origin, s spec.ServerName, event gmsl.PDU) (gmsl.SendJoinResponse, error) {
	if c.sjErr {
		return nil, errors.New("send_join: the body does not decode")
	}
	return c.sj, nil
}

// handshake.performjoin_bodies mjbody sjbody
//
//	The two response bodies as they come off the wire (hex), decoded the way the federation client decodes them
//	(json.Unmarshal into fclient.RespMakeJoin / fclient.RespSendJoin; a body that does not decode is a failed request).
//
// outcome: nopanic (whatever PerformJoin returned) | panic:<site> (reported by the harness)
func execPerformJoinBodies(args []string) string {
	client := &hsBodiesClient{mj: &fclient.RespMakeJoin{}, sj: &fclient.RespSendJoin{}}
	client.mjErr = json.Unmarshal(unhx(args[0]), client.mj) != nil
	client.sjErr = json.Unmarshal(unhx(args[1]), client.sj) != nil
	userID, _ := spec.NewUserID(hsJoiner, true)
	roomID, _ := spec.NewRoomID("!room:hs1")
	joinerKey := hsKey("p-joiner")
	_, _ = gmsl.PerformJoin(context.Background(), client, gmsl.PerformJoinInput{
		UserID: userID, RoomID: roomID, ServerName: "hs1", Content: map[string]interface{}{"displayname": "n"},
		PrivateKey: hsRemoteKey, KeyID: "ed25519:1", KeyRing: &gmsl.KeyRing{KeyFetchers: nil, KeyDatabase: hsKeyDB{}}, EventProvider: nil, UserIDQuerier: piQuerier,
		GetOrCreateSenderID: func(ctx context.Context, userID spec.UserID, roomID spec.RoomID, roomVersion string) (spec.SenderID, ed25519.PrivateKey, error) {
			return spec.SenderIDFromPseudoIDKey(joinerKey), joinerKey, nil
		},
		StoreSenderIDFromPublicID: func(ctx context.Context, senderID spec.SenderID, userID string, id spec.RoomID) error { return nil },
	})
	return "nopanic"
}

// hsMakeJoinEventClasses: the "event" member of a make_join body, as edits of a well-formed template
var hsMakeJoinEventClasses = []string{"ok", "content-null", "content-string", "content-array", "content-number", "content-missing",
	"prev-empty-entry", "auth-bad-entry", "prev-empty-string", "prev-null", "auth-null", "prev-object", "auth-number-entries",
	"event-missing", "event-null", "event-array", "statekey-number", "depth-string", "depth-huge", "type-other", "sender-other", "room-other",
	"redacts-set", "unsigned-null", "signatures-number"}

func hsMakeJoinBody(ver, verCls, evCls string, authIDs []string) []byte {
	authRefs, prevRefs := hsJoinRefs(ver, authIDs)
	ev := map[string]interface{}{"type": "m.room.member", "sender": hsJoiner, "room_id": "!room:hs1", "state_key": hsJoiner,
		"content": map[string]interface{}{"membership": "join"}, "prev_events": prevRefs, "auth_events": authRefs, "depth": 20,
		"origin": "hs1", "origin_server_ts": 1}
	var evV interface{} = ev
	switch evCls {
	case "content-null":
		ev["content"] = nil
	case "content-string":
		ev["content"] = "join"
	case "content-array":
		ev["content"] = []interface{}{map[string]interface{}{"membership": "join"}}
	case "content-number":
		ev["content"] = 5
	case "content-missing":
		delete(ev, "content")
	case "prev-empty-entry":
		ev["prev_events"] = []interface{}{[]interface{}{}}
	case "auth-bad-entry":
		ev["auth_events"] = []interface{}{[]interface{}{5, map[string]interface{}{}}}
	case "prev-empty-string":
		ev["prev_events"] = []interface{}{""}
	case "prev-null":
		ev["prev_events"] = nil
	case "auth-null":
		ev["auth_events"] = nil
	case "prev-object":
		ev["prev_events"] = map[string]interface{}{"a": 1}
	case "auth-number-entries":
		ev["auth_events"] = []interface{}{1, 2.5, true, nil}
	case "event-missing":
		evV = "~missing"
	case "event-null":
		evV = nil
	case "event-array":
		evV = []interface{}{}
	case "statekey-number":
		ev["state_key"] = 5
	case "depth-string":
		ev["depth"] = "20"
	case "depth-huge":
		ev["depth"] = json.RawMessage("9223372036854775808")
	case "type-other":
		ev["type"] = "m.room.create"
	case "sender-other":
		ev["sender"] = "@creator:hs1"
	case "room-other":
		ev["room_id"] = "!elsewhere:hs9"
	case "redacts-set":
		ev["redacts"] = "$x"
	case "unsigned-null":
		ev["unsigned"] = nil
	case "signatures-number":
		ev["signatures"] = 5
	}
	body := map[string]interface{}{"room_version": ver, "event": evV}
	if evV == "~missing" {
		delete(body, "event")
	}
	switch verCls {
	case "missing":
		delete(body, "room_version")
	case "unknown":
		body["room_version"] = "99"
	case "number":
		body["room_version"] = 10
	case "null":
		body["room_version"] = nil
	case "empty":
		body["room_version"] = ""
	}
	raw, _ := json.Marshal(body)
	return raw
}

// hsSendJoinBodyClasses: edits of a well-formed send_join body (state and auth_chain of a generated room, no event)
var hsSendJoinBodyClasses = []string{"ok", "event-null", "event-empty-object", "event-array", "event-string", "event-number", "event-type-number",
	"event-content-null", "event-no-content", "event-custom-type", "state-null", "state-missing", "auth-null", "state-null-entry", "state-number-entry",
	"state-string-entry", "state-empty-object", "state-array-entry", "auth-empty-object", "auth-empty", "origin-number", "body-array", "body-null",
	"state-member-content-null", "create-content-null", "create-version-number"}

func hsSendJoinBody(cls string, auth, state []json.RawMessage, create []byte) []byte {
	body := map[string]interface{}{"origin": "hs1", "auth_chain": auth, "state": state, "members_omitted": false, "servers_in_room": []string{"hs1"}}
	joinish := func(edit func(m map[string]interface{})) interface{} {
		m := map[string]interface{}{"type": "m.room.member", "sender": hsJoiner, "room_id": "!room:hs1", "state_key": hsJoiner,
			"content": map[string]interface{}{"membership": "join"}, "prev_events": []string{"$p"}, "auth_events": []string{}, "depth": 21,
			"origin_server_ts": 5, "hashes": map[string]string{"sha256": "47DEQpj8HBSa+/TImW+5JCeuQeRkm5NMpJWZG3hSuFU"},
			"signatures": map[string]interface{}{"hs1": map[string]string{"ed25519:1": base64.RawStdEncoding.EncodeToString(make([]byte, 64))}}}
		edit(m)
		return m
	}
	editCreate := func(f func(c map[string]interface{})) {
		var out []json.RawMessage
		for _, e := range auth {
			if bytes.Equal(e, create) {
				var m map[string]interface{}
				_ = json.Unmarshal(e, &m)
				f(m)
				raw, _ := json.Marshal(m)
				e = raw
			}
			out = append(out, e)
		}
		body["auth_chain"] = out
	}
	switch cls {
	case "event-null":
		body["event"] = nil
	case "event-empty-object":
		body["event"] = map[string]interface{}{}
	case "event-array":
		body["event"] = []interface{}{1}
	case "event-string":
		body["event"] = "join"
	case "event-number":
		body["event"] = 5
	case "event-type-number":
		body["event"] = joinish(func(m map[string]interface{}) { m["type"] = 5 })
	case "event-content-null":
		body["event"] = joinish(func(m map[string]interface{}) { m["content"] = nil })
	case "event-no-content":
		body["event"] = joinish(func(m map[string]interface{}) { delete(m, "content") })
	case "event-custom-type":
		body["event"] = joinish(func(m map[string]interface{}) { m["type"] = "x.custom" })
	case "state-null":
		body["state"] = nil
	case "state-missing":
		delete(body, "state")
	case "auth-null":
		body["auth_chain"] = nil
	case "state-null-entry":
		body["state"] = append([]interface{}{nil}, toIfaces(state)...)
	case "state-number-entry":
		body["state"] = append([]interface{}{5}, toIfaces(state)...)
	case "state-string-entry":
		body["state"] = append([]interface{}{"x"}, toIfaces(state)...)
	case "state-empty-object":
		body["state"] = append([]interface{}{map[string]interface{}{}}, toIfaces(state)...)
	case "state-array-entry":
		body["state"] = append([]interface{}{[]interface{}{}}, toIfaces(state)...)
	case "auth-empty-object":
		body["auth_chain"] = append([]interface{}{map[string]interface{}{}}, toIfaces(auth)...)
	case "auth-empty":
		body["auth_chain"] = []interface{}{}
	case "origin-number":
		body["origin"] = 5
	case "state-member-content-null":
		body["state"] = append([]interface{}{joinish(func(m map[string]interface{}) { m["content"] = nil })}, toIfaces(state)...)
	case "create-content-null":
		editCreate(func(c map[string]interface{}) { c["content"] = nil })
	case "create-version-number":
		editCreate(func(c map[string]interface{}) { c["content"] = map[string]interface{}{"room_version": 10} })
	case "body-array":
		return []byte(`[]`)
	case "body-null":
		return []byte(`null`)
	}
	raw, _ := json.Marshal(body)
	return raw
}

func toIfaces(xs []json.RawMessage) []interface{} {
	out := make([]interface{}, 0, len(xs))
	for _, x := range xs {
		out = append(out, x)
	}
	return out
}

// genPerformJoinBodies: a well-formed exchange per room version, then each class of hostile make_join body against the
// well-formed send_join body and each class of hostile send_join body after the well-formed make_join body.
func genPerformJoinBodies(o *Out, tier string, r *Rng) {
	vers := []string{"1", "2", "3", "10", "12", piPseudoVer}
	if tier == "thorough" {
		vers = append(append([]string{}, hsVersions...), piPseudoVer)
	}
	for _, ver := range vers {
		var auth, state []json.RawMessage
		var create []byte
		var authIDs []string
		if ver != piPseudoVer {
			rm := newFcRoom(r, ver)
			if rm == nil {
				o.Count("gen-failed")
				continue
			}
			for _, e := range rm.history {
				if s := signReal(ver, e); s != nil {
					auth = append(auth, s.JSON)
					if e == rm.create {
						create = s.JSON
					}
				}
			}
			for _, e := range rm.state() {
				if s := signReal(ver, e); s != nil {
					state = append(state, s.JSON)
				}
			}
			authIDs = rm.authFor(spec.MRoomMember, hsJoiner, sp(hsJoiner))
		}
		do := func(verCls, evCls, sjCls string) {
			mj := hsMakeJoinBody(ver, verCls, evCls, authIDs)
			sj := hsSendJoinBody(sjCls, auth, state, create)
			res := o.Do("performjoin_bodies", hx(mj), hx(sj))
			o.Count("performjoin_bodies." + strings.SplitN(res, ":", 3)[0])
			if strings.HasPrefix(res, "panic") {
				o.Count("performjoin_bodies.panic.ver=" + ver + ".room_version=" + verCls + ".event=" + evCls + ".send_join=" + sjCls)
			}
		}
		for _, evCls := range hsMakeJoinEventClasses {
			do("ok", evCls, "ok")
			if evCls == "ok" || evCls == "content-null" || strings.HasPrefix(evCls, "prev-") || strings.HasPrefix(evCls, "auth-") {
				// "If not provided, the room version is assumed to be either 1 or 2": the version then follows from the auth events
				do("missing", evCls, "ok")
				do("empty", evCls, "ok")
			}
		}
		for _, verCls := range []string{"unknown", "number", "null"} {
			do(verCls, "ok", "ok")
		}
		for _, sjCls := range hsSendJoinBodyClasses {
			do("ok", "ok", sjCls)
		}
	}
}
